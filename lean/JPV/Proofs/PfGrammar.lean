import JPV.Impl.Serialize
import JPV.Spec.Grammar
import JPV.Spec.Typing
import JPV.Proofs.Printer
namespace JPV.Proofs.Pf
open JPV JPV.Proofs JPV.Proofs.Prn

/-! ### what may follow a printed sub-expression -/

/-- what can follow a basic-expr in a printed filter -/
inductive Follow : List Char → Prop
  | rparen (t) : Follow (')' :: t)
  | rbrack (t) : Follow (']' :: t)
  | comma (t) : Follow (',' :: t)
  | and (t) : Follow (' ' :: '&' :: '&' :: ' ' :: t)
  | or (t) : Follow (' ' :: '|' :: '|' :: ' ' :: t)

def SafeA (rest : List Char) : Prop := Follow rest ∧ Spec.lit "&&" (Spec.skipS rest) = none
def SafeO (rest : List Char) : Prop := SafeA rest ∧ Spec.lit "||" (Spec.skipS rest) = none

/-- what can follow a term: the above, or a comparison operator -/
inductive SafeT : List Char → Prop
  | follow {rest} : Follow rest → SafeT rest
  | cop (op t) : SafeT (' ' :: (Impl.copText op ++ ' ' :: t))

theorem skipS_sp (t : List Char) : Spec.skipS (' ' :: t) = Spec.skipS t := by
  rw [Spec.skipS, if_pos (by decide)]

theorem lit_and (r : List Char) : Spec.lit "&&" ('&' :: '&' :: r) = some r := by
  simp [Spec.lit]; rfl
theorem lit_or (r : List Char) : Spec.lit "||" ('|' :: '|' :: r) = some r := by
  simp [Spec.lit]; rfl
theorem lit_and_none (c : Char) (r : List Char) (h : c ≠ '&') : Spec.lit "&&" (c :: r) = none := by
  simp [Spec.lit, List.isPrefixOf]; intro h'; exact absurd h'.symm h
theorem lit_or_none (c : Char) (r : List Char) (h : c ≠ '|') : Spec.lit "||" (c :: r) = none := by
  simp [Spec.lit, List.isPrefixOf]; intro h'; exact absurd h'.symm h

theorem copText_cases (op : COp) : ∃ c t, Impl.copText op = c :: t ∧
    (c = '=' ∨ c = '!' ∨ c = '<' ∨ c = '>') := by
  cases op
  · exact ⟨'=', ['='], rfl, by simp⟩
  · exact ⟨'!', ['='], rfl, by simp⟩
  · exact ⟨'<', [], rfl, by simp⟩
  · exact ⟨'<', ['='], rfl, by simp⟩
  · exact ⟨'>', [], rfl, by simp⟩
  · exact ⟨'>', ['='], rfl, by simp⟩

theorem Follow.cmpNone {rest} (h : Follow rest) : Spec.comparisonOp (Spec.skipS rest) = none := by
  cases h <;> simp [Spec.skipS, Spec.isBlank, Spec.comparisonOp]

theorem segment_none (fuel : Nat) (c : Char) (t : List Char) (h1 : c ≠ '.') (h2 : c ≠ '[') :
    Spec.segment fuel (c :: t) = none := by
  cases fuel with
  | zero => rw [Spec.segment]
  | succ f =>
    rw [Spec.segment]
    all_goals first | rfl | (intros; simp_all)

theorem SafeT.segNone {rest} (h : SafeT rest) (fuel : Nat) :
    Spec.segment fuel (Spec.skipS rest) = none := by
  cases h with
  | follow h =>
    cases h <;> (try simp only [skipS_sp]) <;> rw [skipS_cons (by decide)] <;>
      exact segment_none _ _ _ (by decide) (by decide)
  | cop op t =>
    obtain ⟨c, u, e, hc⟩ := copText_cases op
    rw [e, skipS_sp, List.cons_append]
    have hb : Spec.isBlank c = false := by rcases hc with rfl | rfl | rfl | rfl <;> decide
    rw [skipS_cons hb]
    apply segment_none <;> rcases hc with rfl | rfl | rfl | rfl <;> decide


/-! ### one-step unfoldings of the recogniser -/

theorem logicalOr_stop {f : Nat} {inp r : List Char} {l : Spec.CExpr}
    (h1 : Spec.logicalAnd f inp = some (l, r)) (h2 : Spec.lit "||" (Spec.skipS r) = none) :
    Spec.logicalOr (f + 1) inp = some (l, r) := by
  rw [Spec.logicalOr, h1]; simp only [h2]

theorem logicalOr_step {f : Nat} {inp r2 r3 : List Char} {l x : Spec.CExpr}
    (h1 : Spec.logicalAnd f inp = some (l, ' ' :: '|' :: '|' :: ' ' :: r2))
    (h2 : Spec.skipS r2 = r2) (h3 : Spec.logicalOr f r2 = some (x, r3)) :
    Spec.logicalOr (f + 1) inp = some (.or l x, r3) := by
  rw [Spec.logicalOr, h1]; simp only [skipS_sp]
  rw [skipS_cons (by decide), lit_or]; simp only [skipS_sp, h2, h3, Option.map_some]

theorem logicalAnd_stop {f : Nat} {inp r : List Char} {l : Spec.CExpr}
    (h1 : Spec.basic f inp = some (l, r)) (h2 : Spec.lit "&&" (Spec.skipS r) = none) :
    Spec.logicalAnd (f + 1) inp = some (l, r) := by
  rw [Spec.logicalAnd, h1]; simp only [h2]

theorem logicalAnd_step {f : Nat} {inp r2 r3 : List Char} {l x : Spec.CExpr}
    (h1 : Spec.basic f inp = some (l, ' ' :: '&' :: '&' :: ' ' :: r2))
    (h2 : Spec.skipS r2 = r2) (h3 : Spec.logicalAnd f r2 = some (x, r3)) :
    Spec.logicalAnd (f + 1) inp = some (.and l x, r3) := by
  rw [Spec.logicalAnd, h1]; simp only [skipS_sp]
  rw [skipS_cons (by decide), lit_and]; simp only [skipS_sp, h2, h3, Option.map_some]

theorem parenExpr_ok {f : Nat} {s r3 : List Char} {e : Spec.CExpr}
    (h1 : Spec.skipS s = s) (h2 : Spec.logicalOr f s = some (e, ')' :: r3)) :
    Spec.parenExpr (f + 1) ('(' :: s) = some (.paren e, r3) := by
  rw [Spec.parenExpr, h1, h2]; simp only [skipS_cons (show Spec.isBlank ')' = false by decide)]

theorem basic_paren (f : Nat) (r : List Char) :
    Spec.basic (f + 1) ('(' :: r) = Spec.parenExpr f ('(' :: r) := by
  rw [Spec.basic]

theorem basic_bang_paren (f : Nat) (s : List Char) :
    Spec.basic (f + 1) ('!' :: '(' :: s) =
      (Spec.parenExpr f ('(' :: s)).map (fun (e, r2) => (.not e, r2)) := by
  rw [Spec.basic]
  have : Spec.comparisonOp ('!' :: '(' :: s) = none := by rw [Spec.comparisonOp]; all_goals first | rfl | (intros; simp_all)
  simp only [this, skipS_cons (show Spec.isBlank '(' = false by decide)]

theorem basic_bang_term (f : Nat) (c : Char) (t : List Char) (hb : Spec.isBlank c = false)
    (h1 : c ≠ '(') (h2 : c ≠ '=') :
    Spec.basic (f + 1) ('!' :: c :: t) =
      match Spec.term f (c :: t) with
      | some (.lit _, _) => none
      | some (e, r2) => some (.not e, r2)
      | none => none := by
  rw [Spec.basic]
  have : Spec.comparisonOp ('!' :: c :: t) = none := by
    rw [Spec.comparisonOp]
    all_goals first | rfl | (intros; simp_all)
  simp only [this, skipS_cons hb]
  split
  · rename_i h; simp only [List.cons.injEq] at h; exact absurd h.1 h1
  · rfl

theorem basic_other (f : Nat) (c : Char) (t : List Char) (h1 : c ≠ '!') (h2 : c ≠ '(') :
    Spec.basic (f + 1) (c :: t) =
      match Spec.term f (c :: t) with
      | none => none
      | some (l, r) =>
        match Spec.comparisonOp (Spec.skipS r) with
        | some (op, r2) =>
          match Spec.term f (Spec.skipS r2) with
          | some (rhs, r3) => some (.cmp op l rhs, r3)
          | none => none
        | none =>
          match l with
          | .lit _ => none
          | _ => some (l, r) := by
  rw [Spec.basic]
  all_goals first | rfl | (intro r h; simp only [List.cons.injEq] at h; first | exact h1 h.1 | exact h2 h.1)

theorem term_rel (f : Nat) (r : List Char) :
    Spec.term (f + 1) ('@' :: r) = (Spec.segments f r).map (fun (segs, r2) => (.rel segs, r2)) := by
  rw [Spec.term]
theorem term_root (f : Nat) (r : List Char) :
    Spec.term (f + 1) ('$' :: r) = (Spec.segments f r).map (fun (segs, r2) => (.root segs, r2)) := by
  rw [Spec.term]

theorem term_other (f : Nat) (c : Char) (t : List Char) (h1 : c ≠ '@') (h2 : c ≠ '$') :
    Spec.term (f + 1) (c :: t) =
      match Spec.functionName (c :: t) with
      | some (name, '(' :: r) =>
        let r1 := Spec.skipS r
        match r1 with
        | ')' :: r2 => some (.call name [], r2)
        | _ =>
          match Spec.argument f r1 with
          | none => none
          | some (a, r2) =>
            match Spec.moreArgs f r2 with
            | none => none
            | some (as, r3) =>
              match Spec.skipS r3 with
              | ')' :: r4 => some (.call name (a :: as), r4)
              | _ => none
      | _ => (Spec.literal (c :: t)).map (fun (v, r) => (.lit v, r)) := by
  rw [Spec.term]
  all_goals first | rfl | (intro r h; simp only [List.cons.injEq] at h; first | exact h1 h.1 | exact h2 h.1)

theorem moreArgs_stop (f : Nat) (R : List Char) :
    Spec.moreArgs (f + 1) (')' :: R) = some ([], ')' :: R) := by
  rw [Spec.moreArgs, skipS_cons (by decide)]
  rfl

theorem moreArgs_step (f : Nat) (X : List Char) :
    Spec.moreArgs (f + 1) (',' :: ' ' :: X) =
      match Spec.argument f (Spec.skipS X) with
      | none => none
      | some (a, r2) =>
        match Spec.moreArgs f r2 with
        | some (as, r3) => some (a :: as, r3)
        | none => none := by
  rw [Spec.moreArgs, skipS_cons (by decide)]
  simp only [skipS_sp]
  rfl

theorem argument_nolit (f : Nat) (inp : List Char)
    (h : ∀ v r, Spec.literal inp = some (v, r) →
      (∀ t, Spec.skipS r ≠ ',' :: t) ∧ (∀ t, Spec.skipS r ≠ ')' :: t)) :
    Spec.argument (f + 1) inp = Spec.logicalOr f inp := by
  rw [Spec.argument]
  split
  · rename_i v r hl
    obtain ⟨h1, h2⟩ := h v r hl
    split
    · rename_i t ht; exact absurd ht (h1 _)
    · rename_i t ht; exact absurd ht (h2 _)
    · rfl
  · rfl

theorem argument_lit (f : Nat) (inp r : List Char) (v : Json)
    (h : Spec.literal inp = some (v, r))
    (h2 : (∃ t, r = ',' :: t) ∨ (∃ t, r = ')' :: t)) :
    Spec.argument (f + 1) inp = some (.lit v, r) := by
  rw [Spec.argument, h]
  rcases h2 with ⟨t, rfl⟩ | ⟨t, rfl⟩ <;> simp only [skipS_cons (show Spec.isBlank ',' = false by decide),
    skipS_cons (show Spec.isBlank ')' = false by decide)]

end JPV.Proofs.Pf
