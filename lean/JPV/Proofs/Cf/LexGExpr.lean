/-
`Proofs.Cf.LexGExpr` — the simultaneous induction hypothesis `LexAll f` (one statement per grammar function at
fuel `f`) and its step `f ↦ f + 1` for the expression-level functions (`term`, `basic`, `logicalAnd`,
`logicalOr`, `parenExpr`, `argument`, `moreArgs`).
-/
import JPV.Proofs.Cf.LexGTok
namespace JPV.Proofs.Cf
open JPV JPV.Impl JPV.Proofs.Rq

/-- what follows a function argument: `,` or `)` -/
def AFollow (r : List Char) : Prop := (∃ u, Spec.skipS r = ',' :: u) ∨ (∃ u, Spec.skipS r = ')' :: u)

theorem AFollow.toB {r : List Char} (h : AFollow r) : BFollow r := by
  rcases h with ⟨u, e⟩ | ⟨u, e⟩
  · exact .of_head e (by decide)
  · exact .of_head e (by decide)

theorem moreArgs_follow {f : Nat} {r2 r3 r : List Char} {as : List Spec.CExpr}
    (h : Spec.moreArgs f r2 = some (as, r3)) (hc : Spec.skipS r3 = ')' :: r) : AFollow r2 := by
  cases f with
  | zero => rw [Spec.moreArgs] at h; cases h
  | succ f =>
    rcases moreArgs_inv h with ⟨_, _, rfl⟩ | ⟨u, a, r2', as', hu, _⟩
    · exact .inr ⟨r, hc⟩
    · exact .inl ⟨u, hu⟩

/-- the tokens of a parenthesised expression -/
def ParenShape (e : Spec.CExpr) (ts : List Token) : Prop :=
  ∃ e' ts' v1 k1 v2 k2, e = .paren e' ∧ OrShape e' ts' ∧ ts = ⟨.lparen, v1, k1⟩ :: (ts' ++ [⟨.rparen, v2, k2⟩])

/-- the lexer follows every grammar function at fuel `f`, at every filter depth -/
structure LexAll (f : Nat) : Prop where
  term : ∀ D : Int, 0 < D → ∀ inp e r, Spec.term f inp = some (e, r) → Spec.skipS inp = inp →
    TFollow r → FL D inp (TermShape e) r
  basic : ∀ D : Int, 0 < D → ∀ inp e r, Spec.basic f inp = some (e, r) → Spec.skipS inp = inp →
    BFollow r → FL D inp (BasicShape e) r
  logicalAnd : ∀ D : Int, 0 < D → ∀ inp e r, Spec.logicalAnd f inp = some (e, r) → Spec.skipS inp = inp →
    BFollow r → FL D inp (AndShape e) r
  logicalOr : ∀ D : Int, 0 < D → ∀ inp e r, Spec.logicalOr f inp = some (e, r) → Spec.skipS inp = inp →
    BFollow r → FL D inp (OrShape e) r
  parenExpr : ∀ D : Int, 0 < D → ∀ t e r, Spec.parenExpr f ('(' :: t) = some (e, r) →
    FL D ('(' :: t) (ParenShape e) r
  argument : ∀ D : Int, 0 < D → ∀ inp e r, Spec.argument f inp = some (e, r) → Spec.skipS inp = inp →
    AFollow r → FL D inp (ArgShape e) r
  moreArgs : ∀ D : Int, 0 < D → ∀ inp as r, Spec.moreArgs f inp = some (as, r) →
    (∃ u, Spec.skipS r = ')' :: u) → FLp D inp (MoreArgsShape as) r
  selector : ∀ D : Int, 0 ≤ D → ∀ inp sel rest, Spec.selector f inp = some (sel, rest) → Spec.skipS inp = inp →
    Cs.Follow rest → SL D inp (FSelShape sel) rest
  moreSelectors : ∀ D : Int, 0 ≤ D → ∀ inp ss rest r5, Spec.moreSelectors f inp = some (ss, rest) →
    Spec.skipS rest = ']' :: r5 → ML D inp (FMoreShape ss) rest
  bracketed : ∀ D : Int, 0 ≤ D → ∀ r sels fl rest, Spec.bracketed f ('[' :: r) = some (sels, fl, rest) →
    ∀ (l : Lexer) (pre : List Char) (toks : List Token) (br : List (Char × Nat)) (i : Nat),
    FSt D l pre [] r toks (('[', i) :: br) →
    ∃ l' pre' ts k, Reach .bracketed l .segment l' ∧
      FSt D l' pre' [] rest (⟨.rbracket, [']'], k⟩ :: (ts.reverse ++ toks)) br ∧ FSelsShape sels ts
  segment : ∀ D : Int, 0 ≤ D → ∀ inp seg rest, Spec.segment f inp = some (seg, rest) →
    ∀ (l : Lexer) (pre : List Char) (toks : List Token) (br : List (Char × Nat)), FSt D l pre [] inp toks br →
    ∃ lm sm l' pre' ts, Impl.step .segment l = .ok (lm, some sm) ∧ Reach sm lm .segment l' ∧
      FSt D l' pre' [] rest (ts.reverse ++ toks) br ∧ FSegShape seg ts
  segments : ∀ D : Int, 0 ≤ D → ∀ inp segs rest, Spec.segments f inp = some (segs, rest) →
    ∀ (l : Lexer) (pre : List Char) (toks : List Token) (br : List (Char × Nat)), FSt D l pre [] inp toks br →
    ∃ l' pre' ts, Reach .segment l .segment l' ∧ FSt D l' pre' [] rest (ts.reverse ++ toks) br ∧
      FSegsShape segs ts

variable {f : Nat}

theorem notLit_of {e : Spec.CExpr} (h : ∀ v, e ≠ .lit v) : notLit e = true := by
  cases e <;> first | rfl | exact absurd rfl (h _)

/-! ### opening and closing a parenthesis -/

/-- `name(`: a FUNCTION token; the parenthesis is pushed -/
theorem run_function {D : Int} {s : LState} {l : Lexer} {inp t : List Char} {name : Str} {toks : List Token}
    {br : List (Char × Nat)} (hD : D ≠ 0) (hv : FV D s l inp toks br) (hin : Spec.skipS inp = inp)
    (hfn : Spec.functionName inp = some (name, '(' :: t)) :
    ∃ l' k i, Reach s l .filter l' ∧ FV D .filter l' t (⟨.function, name, k⟩ :: toks) (('(', i) :: br) := by
  obtain ⟨e, c, rest, en, hc, _⟩ := functionName_inv hfn
  subst en
  have hc1 : c ≠ '.' := by rintro rfl; revert hc; decide
  have hc2 : c ≠ '[' := by rintro rfl; revert hc; decide
  have e' : Spec.skipS inp = c :: (rest ++ '(' :: t) := by rw [hin, e]; rfl
  obtain ⟨l', r1, pre', k, i, hst⟩ := hv.run_step (sn := .filter) hD e' hc1 hc2
    (Q := fun l' => ∃ pre' k i, FSt D l' pre' [] t (⟨.function, c :: rest, k⟩ :: toks) (('(', i) :: br))
    (fun l1 pre1 h1' => by
      have h1'' : FSt D l1 pre1 [] inp toks br := by rw [e]; exact h1'
      obtain ⟨l', s1, hst⟩ := lexFilter_functionName h1'' hfn
      exact ⟨l', s1, _, _, _, hst⟩)
  exact ⟨l', k, i, r1, .of_filter hst⟩

/-- `(`: an LPAREN token; the parenthesis is pushed -/
theorem run_lparen {D : Int} {s : LState} {l : Lexer} {inp t : List Char} {toks : List Token}
    {br : List (Char × Nat)} (hD : D ≠ 0) (hv : FV D s l inp toks br) (e : Spec.skipS inp = '(' :: t) :
    ∃ l' k i, Reach s l .filter l' ∧ FV D .filter l' t (⟨.lparen, ['('], k⟩ :: toks) (('(', i) :: br) := by
  obtain ⟨l', r1, pre', k, i, hst⟩ := hv.run_step (sn := .filter) hD e (by decide) (by decide)
    (Q := fun l' => ∃ pre' k i, FSt D l' pre' [] t (⟨.lparen, ['('], k⟩ :: toks) (('(', i) :: br))
    (fun l1 pre1 h1' => by
      obtain ⟨l', s1, hst⟩ := lexFilter_lparen h1'
      exact ⟨l', s1, _, _, _, hst⟩)
  exact ⟨l', k, i, r1, .of_filter hst⟩

/-- `)`: an RPAREN token; the parenthesis is popped -/
theorem run_rparen {D : Int} {s : LState} {l : Lexer} {inp t : List Char} {toks : List Token}
    {br : List (Char × Nat)} {i : Nat} (hD : D ≠ 0) (hv : FV D s l inp toks (('(', i) :: br))
    (e : Spec.skipS inp = ')' :: t) :
    ∃ l' k, Reach s l .filter l' ∧ FV D .filter l' t (⟨.rparen, [')'], k⟩ :: toks) br := by
  obtain ⟨l', r1, pre', k, hst⟩ := hv.run_step (sn := .filter) hD e (by decide) (by decide)
    (Q := fun l' => ∃ pre' k, FSt D l' pre' [] t (⟨.rparen, [')'], k⟩ :: toks) br)
    (fun l1 pre1 h1' => by
      obtain ⟨l', s1, hst⟩ := lexFilter_rparen h1'
      exact ⟨l', s1, _, _, hst⟩)
  exact ⟨l', k, r1, .of_filter hst⟩

/-! ### term -/

theorem step_term (ih : LexAll f) (D : Int) (hD : 0 < D) (inp : List Char) (e : Spec.CExpr) (r : List Char)
    (h : Spec.term (f + 1) inp = some (e, r)) (hin : Spec.skipS inp = inp)
    (hf : TFollow r) : FL D inp (TermShape e) r := by
  have hD0 : D ≠ 0 := by omega
  cases term_inv h with
  | rel t segs e1 hs e2 =>
    subst e1 e2
    intro s l toks br hv
    obtain ⟨l1, r1, pre1, k, hst⟩ := hv.run_step (sn := .segment) hD0 hin (by decide) (by decide)
      (Q := fun l' => ∃ pre' k, FSt D l' pre' [] t (⟨.current, ['@'], k⟩ :: toks) br)
      (fun l1 pre1 h1' => by
        obtain ⟨l', s1, hst⟩ := lexFilter_current h1'
        exact ⟨l', s1, _, _, hst⟩)
    obtain ⟨l2, pre2, ts, r2, hst2, hsh⟩ := ih.segments D (by omega) t segs r hs l1 pre1 _ br hst
    exact ⟨.segment, l2, ⟨.current, ['@'], k⟩ :: ts, r1.trans r2, .of_segment (by simpa using hst2),
      .rel segs ts _ _ hsh⟩
  | root t segs e1 hs e2 =>
    subst e1 e2
    intro s l toks br hv
    obtain ⟨l1, r1, pre1, k, hst⟩ := hv.run_step (sn := .segment) hD0 hin (by decide) (by decide)
      (Q := fun l' => ∃ pre' k, FSt D l' pre' [] t (⟨.root, ['$'], k⟩ :: toks) br)
      (fun l1 pre1 h1' => by
        obtain ⟨l', s1, hst⟩ := lexFilter_root h1'
        exact ⟨l', s1, _, _, hst⟩)
    obtain ⟨l2, pre2, ts, r2, hst2, hsh⟩ := ih.segments D (by omega) t segs r hs l1 pre1 _ br hst
    exact ⟨.segment, l2, ⟨.root, ['$'], k⟩ :: ts, r1.trans r2, .of_segment (by simpa using hst2),
      .root segs ts _ _ hsh⟩
  | call0 name t hfn hcl e2 =>
    subst e2
    intro s l toks br hv
    obtain ⟨l1, k, i, r1, hv1⟩ := run_function hD0 hv hin hfn
    obtain ⟨l2, k2, r2, hv2⟩ := run_rparen hD0 hv1 hcl
    exact ⟨.filter, l2, [⟨.function, name, k⟩, ⟨.rparen, [')'], k2⟩], r1.trans r2, by simpa using hv2,
      .call name [] [] k _ k2 .nil⟩
  | call name t a as r2 r3 hfn hnc ha hm hcl e2 =>
    subst e2
    intro s l toks br hv
    obtain ⟨l1, k, i, r1, hv1⟩ := run_function hD0 hv hin hfn
    have b1 := (ih.argument D hD (Spec.skipS t) a r2 ha (Cs.skipS_idem t) (moreArgs_follow hm hcl)).of_skipS
    have b2 := ih.moreArgs D hD r2 as r3 hm ⟨r, hcl⟩
    obtain ⟨s2, l2, t1, r2', hv2, p1⟩ := b1 _ l1 _ _ hv1
    obtain ⟨s3, l3, t2, r3', hv3, p2⟩ := b2 _ l2 _ i br hv2
    obtain ⟨l4, k4, r4, hv4⟩ := run_rparen hD0 hv3 hcl
    refine ⟨.filter, l4, ⟨.function, name, k⟩ :: ((t1 ++ t2) ++ [⟨.rparen, [')'], k4⟩]),
      ((r1.trans r2').trans r3').trans r4, by simpa using hv4, .call name (a :: as) (t1 ++ t2) k _ k4 ?_⟩
    exact .cons a as t1 t2 p1 p2
  | lit c t v e1 hc1 hc2 hl e2 =>
    subst e2
    refine (FL_literal hD0 hin hl hf).mono ?_
    rintro ts ⟨t, rfl, hlt⟩
    exact .lit t v hlt

/-! ### function arguments -/

theorem step_argument (ih : LexAll f) (D : Int) (hD : 0 < D) (inp : List Char) (e : Spec.CExpr) (r : List Char)
    (h : Spec.argument (f + 1) inp = some (e, r)) (hin : Spec.skipS inp = inp)
    (hf : AFollow r) : FL D inp (ArgShape e) r := by
  have hD0 : D ≠ 0 := by omega
  rcases argument_inv h with ⟨v, hl, rfl, _⟩ | hlo
  · refine (FL_literal hD0 hin hl hf.toB.toT).mono ?_
    rintro ts ⟨t, rfl, hlt⟩
    exact .lit t v hlt
  · exact (ih.logicalOr D hD inp e r hlo hin hf.toB).mono (fun ts hts => .expr e ts hts)

theorem step_moreArgs (ih : LexAll f) (D : Int) (hD : 0 < D) (inp : List Char) (as : List Spec.CExpr)
    (r : List Char) (h : Spec.moreArgs (f + 1) inp = some (as, r))
    (hcl : ∃ u, Spec.skipS r = ')' :: u) : FLp D inp (MoreArgsShape as) r := by
  have hD0 : D ≠ 0 := by omega
  rcases moreArgs_inv h with ⟨_, rfl, rfl⟩ | ⟨u, a, r2, as', hu, ha, hm, rfl⟩
  · intro s l toks i br hv
    exact ⟨s, l, [], .refl, hv, .nil⟩
  · obtain ⟨u', hcl'⟩ := hcl
    have b1 : FLp D inp _ u := FLp_comma hD0 hu
    have b2 := ((ih.argument D hD (Spec.skipS u) a r2 ha (Cs.skipS_idem u)
      (moreArgs_follow hm hcl')).of_skipS).toP
    have b3 := ih.moreArgs D hD r2 as' r hm ⟨u', hcl'⟩
    refine ((b1.seq b2).seq b3).mono ?_
    rintro ts ⟨t12, t3, rfl, ⟨t1, t2, rfl, ⟨v, k, rfl⟩, h2⟩, h3⟩
    exact .cons a as' v k t2 t3 h2 h3

/-! ### parentheses -/

theorem step_parenExpr (ih : LexAll f) (D : Int) (hD : 0 < D) (t : List Char) (e : Spec.CExpr) (r : List Char)
    (h : Spec.parenExpr (f + 1) ('(' :: t) = some (e, r)) :
    FL D ('(' :: t) (ParenShape e) r := by
  have hD0 : D ≠ 0 := by omega
  obtain ⟨t', e', r2, et, hlo, hcl, rfl⟩ := parenExpr_inv h
  simp only [List.cons.injEq, true_and] at et
  subst et
  intro s l toks br hv
  obtain ⟨l1, k, i, r1, hv1⟩ := run_lparen hD0 hv (Cs.skipS_of_head (by decide))
  have b1 := (ih.logicalOr D hD (Spec.skipS t) e' r2 hlo (Cs.skipS_idem t)
    (.of_head hcl (by decide))).of_skipS
  obtain ⟨s2, l2, ts, r2', hv2, p⟩ := b1 _ l1 _ _ hv1
  obtain ⟨l3, k3, r3, hv3⟩ := run_rparen hD0 hv2 hcl
  exact ⟨.filter, l3, ⟨.lparen, ['('], k⟩ :: (ts ++ [⟨.rparen, [')'], k3⟩]), (r1.trans r2').trans r3,
    by simpa using hv3, e', ts, _, _, _, _, rfl, p, rfl⟩

/-! ### basic expressions -/

theorem step_basic (ih : LexAll f) (D : Int) (hD : 0 < D) (inp : List Char) (e : Spec.CExpr) (r : List Char)
    (h : Spec.basic (f + 1) inp = some (e, r)) (hin : Spec.skipS inp = inp)
    (hf : BFollow r) : FL D inp (BasicShape e) r := by
  have hD0 : D ≠ 0 := by omega
  cases basic_inv h with
  | notParen t t2 e' e1 hne hsk hp e2 =>
    subst e1 e2
    have b1 := FL_not hD0 hin hne
    have b2 := (ih.parenExpr D hD t2 e' r hp).congr_left
      (hsk.trans (Cs.skipS_of_head (c := '(') (by decide)).symm)
    refine (b1.seq b2).mono ?_
    rintro ts ⟨t1, t2', rfl, ⟨v, k, rfl⟩, ⟨e'', ts', v1, k1, v2, k2, rfl, hor, rfl⟩⟩
    exact .notParen e'' ts' v k v1 k1 v2 k2 hor
  | notTerm t e' e1 hne hnp ht hnl e2 =>
    subst e1 e2
    have b1 := FL_not hD0 hin hne
    have b2 := (ih.term D hD (Spec.skipS t) e' r ht (Cs.skipS_idem t) hf.toT).of_skipS
    refine (b1.seq b2).mono ?_
    rintro ts ⟨t1, t2', rfl, ⟨v, k, rfl⟩, hts⟩
    exact .notTerm e' t2' v k hts (notLit_of hnl)
  | paren t e1 hp =>
    subst e1
    refine (ih.parenExpr D hD t e r hp).mono ?_
    rintro ts ⟨e', ts', v1, k1, v2, k2, rfl, hor, rfl⟩
    exact .paren e' ts' v1 k1 v2 k2 hor
  | cmp c t l rhs r1 r2 op e1 hc1 hc2 ht hop ht2 e2 =>
    subst e2
    have b1 := ih.term D hD inp l r1 ht hin (.of_cmp hop)
    have b2 := FL_cop hD0 hop
    have b3 := (ih.term D hD (Spec.skipS r2) rhs r ht2 (Cs.skipS_idem r2) hf.toT).of_skipS
    refine ((b1.seq b2).seq b3).mono ?_
    rintro ts ⟨t12, t3, rfl, ⟨t1, t2', rfl, h1, ⟨v, k, rfl⟩⟩, h3⟩
    have := BasicShape.cmp op l rhs t1 t3 v k h1 h3
    simpa using this
  | test c t e1 hc1 hc2 ht hcmp hnl =>
    exact (ih.term D hD inp e r ht hin hf.toT).mono (fun ts hts => .test e ts hts (notLit_of hnl))

/-! ### conjunctions and disjunctions -/

theorem step_logicalAnd (ih : LexAll f) (D : Int) (hD : 0 < D) (inp : List Char) (e : Spec.CExpr) (r : List Char)
    (h : Spec.logicalAnd (f + 1) inp = some (e, r)) (hin : Spec.skipS inp = inp)
    (hf : BFollow r) : FL D inp (AndShape e) r := by
  have hD0 : D ≠ 0 := by omega
  obtain ⟨l, r1, hb, hcase⟩ := logicalAnd_inv h
  rcases hcase with ⟨_, rfl, rfl⟩ | ⟨r2, x, hsk, hx, rfl⟩
  · exact (ih.basic D hD inp e r hb hin hf).mono (fun ts hts => .one e ts hts)
  · have b1 := ih.basic D hD inp l r1 hb hin (.of_head hsk (by decide))
    have b2 := FL_and hD0 hsk
    have b3 := (ih.logicalAnd D hD (Spec.skipS r2) x r hx (Cs.skipS_idem r2) hf).of_skipS
    refine ((b1.seq b2).seq b3).mono ?_
    rintro ts ⟨t12, t3, rfl, ⟨t1, t2', rfl, h1, ⟨v, k, rfl⟩⟩, h3⟩
    have := AndShape.and l x t1 t3 v k h1 h3
    simpa using this

theorem step_logicalOr (ih : LexAll f) (D : Int) (hD : 0 < D) (inp : List Char) (e : Spec.CExpr) (r : List Char)
    (h : Spec.logicalOr (f + 1) inp = some (e, r)) (hin : Spec.skipS inp = inp)
    (hf : BFollow r) : FL D inp (OrShape e) r := by
  have hD0 : D ≠ 0 := by omega
  obtain ⟨l, r1, hb, hcase⟩ := logicalOr_inv h
  rcases hcase with ⟨_, rfl, rfl⟩ | ⟨r2, x, hsk, hx, rfl⟩
  · exact (ih.logicalAnd D hD inp e r hb hin hf).mono (fun ts hts => .one e ts hts)
  · have b1 := ih.logicalAnd D hD inp l r1 hb hin (.of_head hsk (by decide))
    have b2 := FL_or hD0 hsk
    have b3 := (ih.logicalOr D hD (Spec.skipS r2) x r hx (Cs.skipS_idem r2) hf).of_skipS
    refine ((b1.seq b2).seq b3).mono ?_
    rintro ts ⟨t12, t3, rfl, ⟨t1, t2', rfl, h1, ⟨v, k, rfl⟩⟩, h3⟩
    have := OrShape.or l x t1 t3 v k h1 h3
    simpa using this

end JPV.Proofs.Cf
