/-
`Proofs.ParseNoPy` — no parser function lets an exception escape that is not a JSONPathError
(or the model's out-of-fuel marker); `KeyError` is confined below `parseFilterExpr`'s handler.
-/
import JPV.Proofs.ParseWp
import JPV.Proofs.ParseSafeInv
import JPV.Proofs.LexTotal
import JPV.Proofs.Strings
namespace JPV.Impl
open JPV JPV.Proofs

/-- out of fuel, or a JSONPathError -/
def ErrJ (e : Err) : Prop := e.kind = .fuel ∨ e.kind.isJSONPathError = true
/-- additionally a `KeyError` (caught by `parse_filter_expression`) -/
def ErrK (e : Err) : Prop := ErrJ e ∨ e.kind = .py "KeyError"

theorem ErrJ.toK {e : Err} (h : ErrJ e) : ErrK e := Or.inl h

abbrev Inv (st : TStream) : Prop := SInv TokShape st

section
variable {α : Type} {Q : α → TStream → Prop} {E : Err → Prop} {st : TStream}

theorem wp_nextTok_of {Q : Token → TStream → Prop} (h : Inv st)
    (k : ∀ st', Inv st' → st'.pushed = [] → (∀ p, st.pushed = [p] → st'.cur = p) → Q st.cur st') :
    wp nextTok Q E st :=
  wp_nextTok.mpr (k _ h.next.1 h.next.2.1 (fun _ hp => h.next_cur hp))

theorem wp_peekTok_of {Q : Token → TStream → Prop} (h : Inv st)
    (k : ∀ p st', Inv st' → TokShape p → st'.pushed = [p] → st'.cur = st.cur → Q p st') :
    wp peekTok Q E st :=
  wp_peekTok.mpr (k _ _ h.peek'.1 h.peek.2 h.peek'.2.1 h.peek'.2.2)

theorem wp_pushTok_of {Q : Unit → TStream → Prop} {t : Token} (h : Inv st) (he : st.pushed = [])
    (ht : TokShape t) (k : ∀ st', Inv st' → Q () st') : wp (pushTok t) Q E st :=
  wp_pushTok.mpr (k _ (h.push he ht))

/-- use the specification of a state-preserving action -/
theorem wp_pres {m : P α} {R : α → Prop} {E' : Err → Prop}
    (h : wp m (fun a st' => st' = st ∧ R a) E' st) (he : ∀ e, E' e → E e)
    (k : ∀ a, R a → Q a st) : wp m Q E st :=
  wp_mono h (fun a _ ⟨h1, h2⟩ => h1 ▸ k a h2) he

/-- use the specification of an action that re-establishes the invariant -/
theorem wp_call {m : P α} {E' : Err → Prop}
    (h : wp m (fun _ st' => Inv st') E' st) (he : ∀ e, E' e → E e)
    (k : ∀ a st', Inv st' → Q a st') : wp m Q E st :=
  wp_mono h (fun a st' h => k a st' h) he

end

theorem ErrJ.json {k : ErrKind} {t : Option Token} (h : k.isJSONPathError = true) : ErrJ ⟨k, t⟩ := Or.inr h
theorem ErrK.json {k : ErrKind} {t : Option Token} (h : k.isJSONPathError = true) : ErrK ⟨k, t⟩ := Or.inl (Or.inr h)
theorem ErrJ.fuel {t : Option Token} : ErrJ ⟨.fuel, t⟩ := Or.inl rfl
theorem ErrK.fuel {t : Option Token} : ErrK ⟨.fuel, t⟩ := Or.inl (Or.inl rfl)
theorem ErrK.key {t : Option Token} : ErrK ⟨.py "KeyError", t⟩ := Or.inr rfl

syntax "err_tac" : tactic
macro_rules | `(tactic| err_tac) => `(tactic| first
  | exact ErrJ.json rfl | exact ErrK.json rfl | exact ErrJ.fuel | exact ErrK.fuel | exact ErrK.key)

syntax "err_weaken" : tactic
macro_rules | `(tactic| err_weaken) => `(tactic| first | exact fun _ h => h | exact fun _ h => ErrJ.toK h)

/-- actions with a known specification -/
syntax "w_atom" : tactic
macro_rules | `(tactic| w_atom) => `(tactic| first
  | (refine wp_cur.mpr ?_)
  | (refine wp_nextTok_of (by assumption) ?_; intro _ _ _ _)
  | (refine wp_peekTok_of (by assumption) ?_; intro _ _ _ _ _ _)
  | (refine wp_pushTok_of (by assumption) (by assumption) (by first | assumption | exact SInv.cur (by assumption)) ?_; intro _ _))

syntax "w_step" : tactic
syntax "w_step_core" : tactic
syntax "w_close" : tactic
macro_rules | `(tactic| w_step) => `(tactic| first
  | with_reducible w_step_core
  | w_close
  | dsimp only
  | split)

macro_rules | `(tactic| w_close) => `(tactic| first
  | err_tac
  | exact ⟨rfl, True.intro⟩
  | exact ⟨rfl, by assumption⟩)

macro_rules | `(tactic| w_step_core) => `(tactic| first
  | assumption
  | refine wp_failAt.mpr ?_
  | refine wp_keyError.mpr ?_
  | refine wp_outOfFuel.mpr ?_
  | refine wp_bind.mpr ?_
  | refine wp_pure.mpr ?_
  | w_atom)

macro "w_auto" : tactic => `(tactic| repeat' w_step)

theorem w_expect (k : TokKind) (st : TStream) :
    wp (expect k) (fun _ st' => st' = st ∧ True) ErrJ st := by
  unfold expect
  w_auto

theorem w_expectPeek (k : TokKind) (st : TStream) (h : Inv st) :
    wp (expectPeek k) (fun _ st' => Inv st') ErrJ st := by
  unfold expectPeek
  w_auto

theorem w_expectPeekNot (k : TokKind) (st : TStream) (h : Inv st) :
    wp (expectPeekNot k) (fun _ st' => Inv st') ErrJ st := by
  unfold expectPeekNot
  w_auto

theorem w_maybeIndex (t : Token) (st : TStream) :
    wp (maybeIndex t) (fun r st' => st' = st ∧ (r = true → t.kind = .index)) ErrJ st := by
  unfold maybeIndex
  w_auto
  · exact ⟨rfl, fun _ => by assumption⟩
  · exact ⟨rfl, fun h => by cases h⟩

theorem w_intOf {E : Err → Prop} (t : Token) (st : TStream) (hk : t.kind = .index) (ht : TokShape t) :
    wp (intOf t) (fun _ st' => st' = st ∧ True) E st := by
  unfold intOf
  w_auto
  rename_i heq
  have := ht.1 hk
  rw [heq] at this
  cases this

theorem w_decodeAt (t : Token) (st : TStream) (hk : t.kind = .sqString ∨ t.kind = .dqString) (ht : TokShape t) :
    wp (decodeAt t) (fun _ st' => st' = st ∧ True) ErrJ st := by
  unfold decodeAt
  w_auto
  rename_i heq
  exfalso
  rcases hk with hk | hk
  · obtain ⟨inp, rest, hs⟩ := ht.2.1 hk
    have := decode_no_index_error '\'' (Or.inl rfl) inp _ rest hs
    rw [hk] at heq
    exact this heq
  · obtain ⟨inp, rest, hs⟩ := ht.2.2 hk
    have := decode_no_index_error '"' (Or.inr rfl) inp _ rest hs
    rw [hk] at heq
    exact this heq

theorem w_raiseForUncompared (env : Env) (x : PExpr) (st : TStream) :
    wp (raiseForUncompared env x) (fun _ st' => st' = st ∧ True) ErrJ st := by
  unfold raiseForUncompared
  w_auto

theorem w_raiseForNonComparable (env : Env) (x : PExpr) (tok : Token) (st : TStream) :
    wp (raiseForNonComparable env x tok) (fun _ st' => st' = st ∧ True) ErrJ st := by
  unfold raiseForNonComparable
  w_auto

theorem w_validateSignature (env : Env) (tok : Token) (args : List Expr) (st : TStream) :
    wp (validateSignature env tok args) (fun _ st' => st' = st ∧ True) ErrJ st := by
  unfold validateSignature
  w_auto

theorem tokenMap_string {k : TokKind} (h : tokenMap k = some .string) : k = .sqString ∨ k = .dqString := by
  cases k <;> simp [tokenMap] at h ⊢

theorem strKind_of_bool {k : TokKind} (h : (decide (k = .dqString) || decide (k = .sqString)) = true) :
    k = .sqString ∨ k = .dqString := by
  simp only [Bool.or_eq_true, decide_eq_true_eq] at h
  exact h.symm

/-- discharge a token-kind or token-shape side condition -/
syntax "side_tac" : tactic
macro_rules | `(tactic| side_tac) => `(tactic| first
  | assumption
  | exact SInv.cur (by assumption)
  | exact (by assumption : _ = true → _) (by assumption)
  | exact tokenMap_string (by assumption)
  | exact strKind_of_bool (by assumption))

macro_rules | `(tactic| w_atom) => `(tactic| first
  | (refine wp_pres (w_expect _ _) (by err_weaken) ?_; intro _ _)
  | (refine wp_call (w_expectPeek _ _ (by assumption)) (by err_weaken) ?_; intro _ _ _)
  | (refine wp_call (w_expectPeekNot _ _ (by assumption)) (by err_weaken) ?_; intro _ _ _)
  | (refine wp_pres (w_maybeIndex _ _) (by err_weaken) ?_; intro _ _)
  | (refine wp_pres (w_intOf _ _ (by side_tac) (by side_tac)) (by err_weaken) ?_; intro _ _)
  | (refine wp_pres (w_decodeAt _ _ (by side_tac) (by side_tac)) (by err_weaken) ?_; intro _ _)
  | (refine wp_pres (w_raiseForUncompared _ _ _) (by err_weaken) ?_; intro _ _)
  | (refine wp_pres (w_raiseForNonComparable _ _ _ _) (by err_weaken) ?_; intro _ _)
  | (refine wp_pres (w_validateSignature _ _ _ _) (by err_weaken) ?_; intro _ _)
  | (refine wp_call (wp_forIn Inv _ _ _ ?_ (by assumption)) (by err_weaken) ?_ <;> intros))

theorem w_parseLiteral (h : Handler) (st : TStream) (hi : Inv st) (hh : tokenMap st.cur.kind = some h) :
    wp (parseLiteral h) (fun _ st' => st' = st ∧ True) ErrK st := by
  unfold parseLiteral
  w_auto

theorem w_parseSlice (env : Env) (st : TStream) (hi : Inv st) :
    wp (parseSlice env) (fun _ st' => Inv st') ErrJ st := by
  unfold parseSlice
  w_auto

/-! ### the mutually recursive functions -/

/-- the specification of all fourteen functions at one fuel level: everything keeps the stream
invariant; a `KeyError` can only come out of the functions below `parseFilterExpr`'s handler, and
out of `parseInfix` only when the current token is not a binary operator -/
structure AllNoPy (env : Env) (fuel : Nat) : Prop where
  parseQuery : ∀ inFilter acc st, Inv st → st.pushed = [] →
    wp (parseQuery env inFilter fuel acc) (fun _ st' => Inv st') ErrJ st
  parseSelectors : ∀ st, Inv st → wp (parseSelectors env fuel) (fun _ st' => Inv st') ErrJ st
  parseBracketed : ∀ open_ acc st, Inv st →
    wp (parseBracketed env open_ fuel acc) (fun _ st' => Inv st') ErrJ st
  parseFilterSelector : ∀ st, Inv st → wp (parseFilterSelector env fuel) (fun _ st' => Inv st') ErrJ st
  parseByHandler : ∀ h st, Inv st → tokenMap st.cur.kind = some h →
    wp (parseByHandler env h fuel) (fun _ st' => Inv st') ErrK st
  parseFilterExpr : ∀ prec st, Inv st → wp (parseFilterExpr env prec fuel) (fun _ st' => Inv st') ErrJ st
  filterExprLoop : ∀ prec left st, Inv st →
    wp (filterExprLoop env prec fuel left) (fun _ st' => Inv st') ErrJ st
  parseInfix : ∀ left st, Inv st → wp (parseInfix env left fuel) (fun _ st' => Inv st') ErrK st
  parseInfixJ : ∀ left st, Inv st → (binaryOp st.cur.kind).isSome = true →
    wp (Impl.parseInfix env left fuel) (fun _ st' => Inv st') ErrJ st
  parsePrefix : ∀ st, Inv st → wp (parsePrefix env fuel) (fun _ st' => Inv st') ErrK st
  parseGrouped : ∀ st, Inv st → wp (parseGrouped env fuel) (fun _ st' => Inv st') ErrK st
  groupedLoop : ∀ x st, Inv st → wp (groupedLoop env fuel x) (fun _ st' => Inv st') ErrK st
  parseFunction : ∀ st, Inv st → wp (parseFunction env fuel) (fun _ st' => Inv st') ErrK st
  functionArgs : ∀ args parens st, Inv st →
    wp (functionArgs env fuel args parens) (fun _ st' => Inv st') ErrK st
  functionArgInfix : ∀ x st, Inv st → wp (functionArgInfix env fuel x) (fun _ st' => Inv st') ErrK st

macro_rules | `(tactic| w_atom) => `(tactic| first
  | (refine wp_pres (w_parseLiteral _ _ (by assumption) (by assumption)) (by err_weaken) ?_; intro _ _)
  | (refine wp_call (w_parseSlice _ _ (by assumption)) (by err_weaken) ?_; intro _ _ _)
  | (refine wp_call (AllNoPy.parseQuery (by assumption) _ _ _ (by assumption) (by assumption)) (by err_weaken) ?_; intro _ _ _)
  | (refine wp_call (AllNoPy.parseSelectors (by assumption) _ (by assumption)) (by err_weaken) ?_; intro _ _ _)
  | (refine wp_call (AllNoPy.parseBracketed (by assumption) _ _ _ (by assumption)) (by err_weaken) ?_; intro _ _ _)
  | (refine wp_call (AllNoPy.parseFilterSelector (by assumption) _ (by assumption)) (by err_weaken) ?_; intro _ _ _)
  | (refine wp_call (AllNoPy.parseByHandler (by assumption) _ _ (by assumption) (by assumption)) (by err_weaken) ?_; intro _ _ _)
  | (refine wp_call (AllNoPy.parseFilterExpr (by assumption) _ _ (by assumption)) (by err_weaken) ?_; intro _ _ _)
  | (refine wp_call (AllNoPy.filterExprLoop (by assumption) _ _ _ (by assumption)) (by err_weaken) ?_; intro _ _ _)
  | (refine wp_call (AllNoPy.parseInfix (by assumption) _ _ (by assumption)) (by err_weaken) ?_; intro _ _ _)
  | (refine wp_call (AllNoPy.parsePrefix (by assumption) _ (by assumption)) (by err_weaken) ?_; intro _ _ _)
  | (refine wp_call (AllNoPy.parseGrouped (by assumption) _ (by assumption)) (by err_weaken) ?_; intro _ _ _)
  | (refine wp_call (AllNoPy.groupedLoop (by assumption) _ _ (by assumption)) (by err_weaken) ?_; intro _ _ _)
  | (refine wp_call (AllNoPy.parseFunction (by assumption) _ (by assumption)) (by err_weaken) ?_; intro _ _ _)
  | (refine wp_call (AllNoPy.functionArgs (by assumption) _ _ _ (by assumption)) (by err_weaken) ?_; intro _ _ _)
  | (refine wp_call (AllNoPy.functionArgInfix (by assumption) _ _ (by assumption)) (by err_weaken) ?_; intro _ _ _))

variable {env : Env} {fuel : Nat}

theorem parseQuery_np (ih : AllNoPy env fuel) (inFilter acc st) (hi : Inv st) (hp : st.pushed = []) :
    wp (parseQuery env inFilter (fuel + 1) acc) (fun _ st' => Inv st') ErrJ st := by
  rw [parseQuery]
  w_auto

theorem parseSelectors_np (ih : AllNoPy env fuel) (st) (hi : Inv st) :
    wp (parseSelectors env (fuel + 1)) (fun _ st' => Inv st') ErrJ st := by
  rw [parseSelectors]
  w_auto

theorem parseBracketed_np (ih : AllNoPy env fuel) (open_ acc st) (hi : Inv st) :
    wp (parseBracketed env open_ (fuel + 1) acc) (fun _ st' => Inv st') ErrJ st := by
  rw [parseBracketed]
  w_auto

theorem parseFilterSelector_np (ih : AllNoPy env fuel) (st) (hi : Inv st) :
    wp (parseFilterSelector env (fuel + 1)) (fun _ st' => Inv st') ErrJ st := by
  rw [parseFilterSelector]
  w_auto

theorem parseByHandler_np (ih : AllNoPy env fuel) (h st) (hi : Inv st) (hh : tokenMap st.cur.kind = some h) :
    wp (parseByHandler env h (fuel + 1)) (fun _ st' => Inv st') ErrK st := by
  cases h <;> rw [parseByHandler] <;> w_auto
  all_goals (intro h; cases h)

theorem parseFilterExpr_np (ih : AllNoPy env fuel) (prec st) (hi : Inv st) :
    wp (parseFilterExpr env prec (fuel + 1)) (fun _ st' => Inv st') ErrJ st := by
  rw [parseFilterExpr]
  w_auto
  refine wp_tryCatch (E' := ErrK)
    (wp_call (ih.parseByHandler _ _ hi (by assumption)) (fun _ h => h) ?_) ?_
  · intro _ _ _; w_auto
  · intro e st' he
    split
    · w_auto
    · rename_i hk
      refine wp_throw.mpr ?_
      rcases he with he | he
      · exact he
      · exact absurd he hk

theorem filterExprLoop_np (ih : AllNoPy env fuel) (prec left st) (hi : Inv st) :
    wp (filterExprLoop env prec (fuel + 1) left) (fun _ st' => Inv st') ErrJ st := by
  rw [filterExprLoop]
  w_auto
  have hc := ‹∀ p, _ = [p] → _ = p› _ ‹_ = [_]›
  refine wp_call (ih.parseInfixJ _ _ (by assumption) ?_) (fun _ h => h) ?_
  · rw [hc]
    rename_i hnb _ _ _ _
    cases hb : binaryOp _ <;> simp [hb] at hnb ⊢
  · intro _ _ _; w_auto

theorem parseInfix_np (ih : AllNoPy env fuel) (left st) (hi : Inv st) :
    wp (parseInfix env left (fuel + 1)) (fun _ st' => Inv st') ErrK st := by
  rw [parseInfix]
  w_auto

theorem parseInfixJ_np (ih : AllNoPy env fuel) (left st) (hi : Inv st) (hb : (binaryOp st.cur.kind).isSome = true) :
    wp (parseInfix env left (fuel + 1)) (fun _ st' => Inv st') ErrJ st := by
  rw [parseInfix]
  w_auto
  rename_i heq
  rw [heq] at hb
  cases hb

theorem parsePrefix_np (ih : AllNoPy env fuel) (st) (hi : Inv st) :
    wp (parsePrefix env (fuel + 1)) (fun _ st' => Inv st') ErrK st := by
  rw [parsePrefix]
  w_auto

theorem parseGrouped_np (ih : AllNoPy env fuel) (st) (hi : Inv st) :
    wp (parseGrouped env (fuel + 1)) (fun _ st' => Inv st') ErrK st := by
  rw [parseGrouped]
  w_auto

theorem groupedLoop_np (ih : AllNoPy env fuel) (x st) (hi : Inv st) :
    wp (groupedLoop env (fuel + 1) x) (fun _ st' => Inv st') ErrK st := by
  rw [groupedLoop]
  w_auto

theorem parseFunction_np (ih : AllNoPy env fuel) (st) (hi : Inv st) :
    wp (parseFunction env (fuel + 1)) (fun _ st' => Inv st') ErrK st := by
  rw [parseFunction]
  w_auto

theorem functionArgs_np (ih : AllNoPy env fuel) (args parens st) (hi : Inv st) :
    wp (functionArgs env (fuel + 1) args parens) (fun _ st' => Inv st') ErrK st := by
  rw [functionArgs]
  simp only [functionArgumentMap]
  w_auto

theorem functionArgInfix_np (ih : AllNoPy env fuel) (x st) (hi : Inv st) :
    wp (functionArgInfix env (fuel + 1) x) (fun _ st' => Inv st') ErrK st := by
  rw [functionArgInfix]
  w_auto

theorem allNoPy (env : Env) : ∀ fuel, AllNoPy env fuel := by
  intro fuel
  induction fuel with
  | zero =>
    constructor
    all_goals intros
    · rw [parseQuery]; exact wp_outOfFuel.mpr ErrJ.fuel
    · rw [parseSelectors]; exact wp_outOfFuel.mpr ErrJ.fuel
    · rw [parseBracketed]; exact wp_outOfFuel.mpr ErrJ.fuel
    · rw [parseFilterSelector]; exact wp_outOfFuel.mpr ErrJ.fuel
    · rw [parseByHandler]; exact wp_outOfFuel.mpr ErrK.fuel
    · rw [parseFilterExpr]; exact wp_outOfFuel.mpr ErrJ.fuel
    · rw [filterExprLoop]; exact wp_outOfFuel.mpr ErrJ.fuel
    · rw [parseInfix]; exact wp_outOfFuel.mpr ErrK.fuel
    · rw [parseInfix]; exact wp_outOfFuel.mpr ErrJ.fuel
    · rw [parsePrefix]; exact wp_outOfFuel.mpr ErrK.fuel
    · rw [parseGrouped]; exact wp_outOfFuel.mpr ErrK.fuel
    · rw [groupedLoop]; exact wp_outOfFuel.mpr ErrK.fuel
    · rw [parseFunction]; exact wp_outOfFuel.mpr ErrK.fuel
    · rw [functionArgs]; exact wp_outOfFuel.mpr ErrK.fuel
    · rw [functionArgInfix]; exact wp_outOfFuel.mpr ErrK.fuel
  | succ fuel ih =>
    exact
      { parseQuery := parseQuery_np ih
        parseSelectors := parseSelectors_np ih
        parseBracketed := parseBracketed_np ih
        parseFilterSelector := parseFilterSelector_np ih
        parseByHandler := parseByHandler_np ih
        parseFilterExpr := parseFilterExpr_np ih
        filterExprLoop := filterExprLoop_np ih
        parseInfix := parseInfix_np ih
        parseInfixJ := parseInfixJ_np ih
        parsePrefix := parsePrefix_np ih
        parseGrouped := parseGrouped_np ih
        groupedLoop := groupedLoop_np ih
        parseFunction := parseFunction_np ih
        functionArgs := functionArgs_np ih
        functionArgInfix := functionArgInfix_np ih }

theorem parseTop_np (env : Env) (fuel : Nat) (st : TStream) (hi : Inv st) :
    wp (parseTop env fuel) (fun _ st' => Inv st') ErrJ st := by
  have ih := allNoPy env fuel
  unfold parseTop
  w_auto

/-- every error of the parser run on a well-shaped token list is out-of-fuel or a JSONPathError -/
theorem parseTop_no_py (env : Env) (fuel : Nat) (toks : List Token)
    (hl : ∃ t, toks.getLast? = some t ∧ t.kind = .eof) (hs : ∀ t ∈ toks, TokShape t) (e : Err)
    (h : ((parseTop env fuel).run.run (TStream.init toks)).1 = .error e) : ErrJ e := by
  have := parseTop_np env fuel _ (SInv.init hs hl)
  unfold wp at this
  change (exec _ _).1 = _ at h
  rcases hx : exec (parseTop env fuel) (TStream.init toks) with ⟨r, st'⟩
  rw [hx] at this h
  simp only at h
  subst h
  exact this

end JPV.Impl
