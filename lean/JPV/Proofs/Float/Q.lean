/-
`Proofs.Float.Q` — the integer arithmetic of the float models read as arithmetic on rationals:
`Py.scaledDiv n d e` is the floor and the fractional part of `(n/d) / 2^e`, `ge10 n d e` is `10^e ≤ n/d`.
-/
import Mathlib.Tactic.Ring
import Mathlib.Tactic.Linarith
import Mathlib.Tactic.Positivity
import Mathlib.Tactic.FieldSimp
import Mathlib.Tactic.NormNum
import Mathlib.Tactic.GCongr
import Mathlib.Algebra.Order.Field.Power
import Mathlib.Algebra.Order.Field.Rat
import JPV.Proofs.Float.Defs
namespace JPV.Proofs.Float
open JPV

theorem zpow_split (b : ℚ) (_hb : 0 < b) (e : ℤ) : b ^ e = (b ^ e.toNat : ℚ) / b ^ (-e).toNat := by
  rcases le_total 0 e with h | h
  · have h1 : (-e).toNat = 0 := by omega
    obtain ⟨k, rfl⟩ := Int.eq_ofNat_of_zero_le h
    simp [h1]
  · have h1 : e.toNat = 0 := by omega
    obtain ⟨k, hk⟩ := Int.eq_ofNat_of_zero_le (show 0 ≤ -e by omega)
    have : e = -(k : ℤ) := by omega
    subst this
    simp [h1]

theorem scaledDiv_spec (n d : ℕ) (hd : 0 < d) (e : ℤ) :
    0 < (Py.scaledDiv n d e).2.2 ∧ (Py.scaledDiv n d e).2.1 < (Py.scaledDiv n d e).2.2 ∧
    (n : ℚ) / d = (((Py.scaledDiv n d e).1 : ℚ) + ((Py.scaledDiv n d e).2.1 : ℚ) / (Py.scaledDiv n d e).2.2) * 2 ^ e := by
  unfold Py.scaledDiv
  have hdq : (0 : ℚ) < d := by exact_mod_cast hd
  split
  · rename_i h
    obtain ⟨k, rfl⟩ := Int.eq_ofNat_of_zero_le h
    simp only [Int.toNat_natCast, zpow_natCast]
    have hden : 0 < d * 2 ^ k := Nat.mul_pos hd (Nat.two_pow_pos k)
    refine ⟨hden, Nat.mod_lt _ hden, ?_⟩
    have hdm := Nat.div_add_mod n (d * 2 ^ k)
    have hq : (n : ℚ) = ((d * 2 ^ k : ℕ) : ℚ) * ((n / (d * 2 ^ k) : ℕ) : ℚ) + ((n % (d * 2 ^ k) : ℕ) : ℚ) := by
      exact_mod_cast hdm.symm
    have hdenq : (0 : ℚ) < ((d * 2 ^ k : ℕ) : ℚ) := by exact_mod_cast hden
    rw [div_eq_iff hdq.ne']
    have : ((d * 2 ^ k : ℕ) : ℚ) = (d : ℚ) * 2 ^ k := by push_cast; ring
    rw [this] at hq hdenq
    rw [this]
    field_simp
    linarith
  · rename_i h
    obtain ⟨k, hk⟩ := Int.eq_ofNat_of_zero_le (show 0 ≤ -e by omega)
    have he : e = -(k : ℤ) := by omega
    subst he
    simp only [Int.neg_neg, Int.toNat_natCast, zpow_neg, zpow_natCast]
    refine ⟨hd, Nat.mod_lt _ hd, ?_⟩
    have hdm := Nat.div_add_mod (n * 2 ^ k) d
    have hq : (n : ℚ) * 2 ^ k = (d : ℚ) * ((n * 2 ^ k / d : ℕ) : ℚ) + ((n * 2 ^ k % d : ℕ) : ℚ) := by
      exact_mod_cast hdm.symm
    rw [div_eq_iff hdq.ne']
    field_simp
    linarith

theorem ge10_iff (n d : ℕ) (hd : 0 < d) (e : ℤ) : ge10 n d e = true ↔ (10 : ℚ) ^ e ≤ (n : ℚ) / d := by
  have hdq : (0 : ℚ) < d := by exact_mod_cast hd
  unfold ge10
  split
  · rename_i h
    obtain ⟨k, rfl⟩ := Int.eq_ofNat_of_zero_le h
    simp only [Int.toNat_natCast, zpow_natCast, decide_eq_true_eq, ge_iff_le]
    rw [le_div_iff₀ hdq]
    constructor
    · intro h; have : ((d * 10 ^ k : ℕ) : ℚ) ≤ n := by exact_mod_cast h
      push_cast at this; linarith
    · intro h; have : ((d * 10 ^ k : ℕ) : ℚ) ≤ n := by push_cast; linarith
      exact_mod_cast this
  · rename_i h
    obtain ⟨k, hk⟩ := Int.eq_ofNat_of_zero_le (show 0 ≤ -e by omega)
    have he : e = -(k : ℤ) := by omega
    subst he
    simp only [Int.neg_neg, Int.toNat_natCast, zpow_neg, zpow_natCast, decide_eq_true_eq, ge_iff_le]
    rw [le_div_iff₀ hdq, inv_mul_le_iff₀ (by positivity)]
    constructor
    · intro h; have : ((d : ℕ) : ℚ) ≤ ((n * 10 ^ k : ℕ) : ℚ) := by exact_mod_cast h
      push_cast at this; linarith
    · intro h; have : ((d : ℕ) : ℚ) ≤ ((n * 10 ^ k : ℕ) : ℚ) := by push_cast; linarith
      exact_mod_cast this

end JPV.Proofs.Float
