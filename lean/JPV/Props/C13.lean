/-
C13 — compile() and find() are total: they return or raise a JSONPathError.

Property text: "For every query string of Unicode scalar values (within generous
size and nesting bounds) compile() terminates and either returns a query or
raises an exception derived from JSONPathError, never any other exception type;
for every compiled query and every JSON value, evaluation likewise either
completes or raises a JSONPathError. The string form of every such error can
always be produced."

In the model an exception that is not a JSONPathError is `ErrKind.py _`, and a
computation that would not terminate within the model's fuel is `ErrKind.fuel`;
"total" is the statement that neither can be the outcome.
What a theorem about the model cannot see is an exception raised by a Python
primitive in a case `Py.lean` does not know to be partial; that is what the
garbage stream of the exploration is for.
-/
import JPV.Impl.Api
import JPV.Props.C02
import JPV.Props.C05
import JPV.Proofs.LexTotal
import JPV.Proofs.ParseTotal
import JPV.Proofs.EvalTotal
namespace JPV.Props
open JPV JPV.Impl

/-- compile() is total: for every environment (any function registry, any limits) and every string of
Unicode scalar values, the model of compile() returns a query or raises a JSONPathError — never
another exception (`ErrKind.py`), and it never runs out of the lexer's or the parser's fuel
(termination: the lexer's potential 3*(n-pos)+rank and the parser's 4*live-tokens+c both decrease). -/
def C13_compile_statement : Prop :=
  ∀ (env : Env) (s : Str), match Impl.compile env s with
    | .ok _ => True
    | .error e => e.kind.isJSONPathError = true

theorem C13_compile : C13_compile_statement := by
  intro env s
  cases h : Impl.compile env s with
  | ok q => trivial
  | error e =>
    show e.kind.isJSONPathError = true
    rcases Proofs.compile_no_py env s e h with hf | hj
    · exact absurd hf (Proofs.compile_no_fuel env s e h)
    · exact hj

/-- The lexer is total: for every string, `tokenize` returns tokens or a JSONPathError
(in particular the state machine stops within its fuel: every state function
consumes input or ends). -/
def C13_lex_statement : Prop :=
  ∀ s : Str, match Impl.tokenize s with
    | .ok _ => True
    | .error e => e.kind.isJSONPathError = true

theorem C13_lex : C13_lex_statement := Proofs.tokenize_total

/-- what the lexer hands to the parser is well-shaped: the list ends with EOF, every INDEX
token is `-?[0-9]+` (so `int()` cannot fail), every string token is a text the string loop
accepted (so the escape decoder cannot run off its end, `C09_no_index_error`) -/
theorem C13_token_shapes (s : Str) (toks : List Token) (h : Impl.tokenize s = .ok toks) :
    (∃ t, toks.getLast? = some t ∧ t.kind = .eof) ∧ ∀ t ∈ toks, Proofs.TokShape t :=
  Proofs.tokenize_shapes s toks h

/-- Text level (C01/C02 composed with C05): whatever compile() returns for a query text evaluates, on any
well-formed value within the depth limit, to the RFC 9535 nodelist of that compiled query (built-in
registry): every accepted text is well-typed (`C05_partial`), and well-typed queries evaluate to the RFC
nodelist (`eval_correct`). -/
theorem compile_then_find (s : Str) (q : Query) (v : Json)
    (hc : Impl.compile builtinEnv s = .ok q) (hwf : v.WF) (hd : v.depth ≤ 100) :
    Impl.find builtinEnv q v = .ok (Spec.select builtinReg q v) := by
  have h := (C05_partial builtinEnv s q hc).1
  have hsig : sigsOfEnv builtinEnv = sigsOf builtinReg := by
    funext n
    unfold sigsOfEnv sigsOf builtinEnv builtinReg Impl.Env.func
    by_cases h1 : n = "length".toList
    · subst h1; rfl
    · by_cases h2 : n = "count".toList
      · subst h2; rfl
      · by_cases h3 : n = "value".toList
        · subst h3; rfl
        · have g1 : ¬ "length".toList = n := fun h => h1 h.symm
          have g2 : ¬ "count".toList = n := fun h => h2 h.symm
          have g3 : ¬ "value".toList = n := fun h => h3 h.symm
          simp only [List.find?, g1, g2, g3, h1, h2, h3, decide_false, if_false, Option.map]
  rw [hsig] at h
  exact C02_builtin q v h hwf hd


/-- Evaluation of a compiled query with the built-in registry completes (within the depth
limit) — no exception at all: every query compile() returns is well-typed (`C05_partial`), and a
well-typed query on a well-formed value evaluates to the RFC nodelist (`eval_correct`). -/
theorem C13_eval_partial (s : Str) (q : Query) (v : Json)
    (hc : Impl.compile builtinEnv s = .ok q) (hwf : v.WF) (hd : v.depth ≤ 100) :
    ∃ ns, Impl.find builtinEnv q v = .ok ns := ⟨_, compile_then_find s q v hc hwf hd⟩

/-- Evaluation is total for every well-typed query on every well-formed value, whatever its depth, for
any registry satisfying the function contract: it completes with the RFC nodelist or raises
JSONPathRecursionError (and then the value is nested deeper than the configured limit). -/
theorem C13_eval (env : Env) (reg : Spec.Registry) (q : Query) (v : Json)
    (hc : EnvConforms env reg) (hwt : Spec.wtQuery (sigsOf reg) q = true) (hwf : v.WF) (h1 : 1 ≤ env.maxDepth) :
    Impl.find env q v = .ok (Spec.select reg q v) ∨
    (Impl.find env q v = .error .recursion ∧ env.maxDepth < (v.depth : Int)) :=
  Proofs.eval_total env reg q v hc hwt hwf h1

/-- the string form of an error is a total function of the error (message, line, column) -/
theorem C13_str_total (q : Str) (off : Nat) : ∃ p : Nat × Int, Impl.position q off = p := ⟨_, rfl⟩

end JPV.Props
