/-
C10 — length/count/value and the function-call type conversions follow RFC 9535.

Property text: "length() returns the number of Unicode scalar values of a
string, elements of an array or members of an object and nothing for anything
else; count() returns the number of nodes its query selects; value() returns the
value of the only node or nothing. At every call, built-in or user-registered, a
ValueType parameter receives the literal, the single selected value or nothing,
a NodesType parameter receives the nodelist, a LogicalType parameter receives
true/false (a nodelist converts to 'non-empty'), and the result is used
according to the declared result type, for the child being tested whatever its
kind."
-/
import JPV.Props.Common
import JPV.Proofs.Eval
namespace JPV.Props
open JPV

/-- What the Python body receives (`evaluate` each argument, then
`_unpack_node_lists`) is exactly the RFC conversion of the arguments to the
declared parameter types — for any registry, any well-typed argument list. -/
def C10_args_statement : Prop :=
  ∀ (env : Impl.Env) (reg : Spec.Registry) (root cur : Json) (tys : List Ty) (args : List Expr),
    EnvConforms env reg → Spec.wtArgs (sigsOf reg) tys args = true →
    root.WF → cur.WF → (root.depth : Int) ≤ env.maxDepth → (cur.depth : Int) ≤ env.maxDepth →
    1 ≤ env.maxDepth →
    (Impl.evalArgs env root cur args).bind (Impl.unpack tys) =
      .ok ((Spec.argsOf reg root cur tys args).map argObj)

theorem C10_args : C10_args_statement := Proofs.args_correct

/-- length(): code points of a string, elements of an array, members of an object, else Nothing -/
theorem C10_length (v : Spec.Val) :
    Impl.lengthBody [valObj v] = .ok (argObj (Spec.lengthFn.sem [.value v])) ∧
    Spec.lengthFn.sem [.value v] = .value (match v with
      | some (.str s) => Spec.natVal s.length
      | some (.arr xs) => Spec.natVal xs.length
      | some (.obj kvs) => Spec.natVal kvs.length
      | _ => none) := Proofs.length_spec v

/-- count(): the number of nodes -/
theorem C10_count (ns : List Node) :
    Impl.countBody [.nodes ns] = .ok (valObj (Spec.natVal ns.length)) := Proofs.count_spec ns

/-- value(): the value of the only node, or Nothing -/
theorem C10_value (ns : List Node) :
    Impl.valueBody [.nodes ns] = .ok (valObj (match ns with | [n] => some n.val | _ => none)) :=
  Proofs.value_spec ns

/-- the result is used according to the declared result type -/
theorem C10_result_use (a : Spec.Arg) :
    Impl.truthy (argObj a) = (match a with
      | .logical b => b
      | .nodes ns => !ns.isEmpty
      | .value (some j) => Impl.truthy (.val j)
      | .value none => false) := by
  cases a with
  | value v => cases v <;> rfl
  | logical b => rfl
  | nodes ns => rfl

end JPV.Props
