/-
`Proofs.Cf.GramInv` — inversion lemmas for the filter part of `Spec.Grammar`: what a successful call of
each recogniser function at fuel `f + 1` says about the calls at fuel `f` (pure grammar, no lexer).
-/
import JPV.Spec.Grammar
import JPV.Proofs.Cs.LexSel
namespace JPV.Proofs.Cf
open JPV

/-! ### `lit` -/

theorem lit_or_cases (r : List Char) :
    (∃ r2, r = '|' :: '|' :: r2 ∧ Spec.lit "||" r = some r2) ∨
    (Spec.lit "||" r = none ∧ ∀ r2, r ≠ '|' :: '|' :: r2) := by
  match r with
  | '|' :: '|' :: r2 => exact .inl ⟨r2, rfl, by simp [Spec.lit] <;> rfl⟩
  | [] => exact .inr ⟨by simp [Spec.lit] <;> decide, by simp⟩
  | [c] =>
    refine .inr ⟨?_, by simp⟩
    simp only [Spec.lit]; rw [if_neg]; simp [show "||".toList = ['|', '|'] from rfl, List.isPrefixOf]
  | c :: d :: r2 =>
    by_cases h : c = '|' ∧ d = '|'
    · obtain ⟨rfl, rfl⟩ := h; exact .inl ⟨r2, rfl, by simp [Spec.lit] <;> rfl⟩
    · refine .inr ⟨?_, ?_⟩
      · simp only [Spec.lit]; rw [if_neg]
        simp only [show "||".toList = ['|', '|'] from rfl, List.isPrefixOf, Bool.and_true, Bool.and_eq_true,
          beq_iff_eq]
        intro h'; exact h ⟨h'.1.symm, h'.2.symm⟩
      · intro r3 e; simp only [List.cons.injEq] at e; exact h ⟨e.1, e.2.1⟩

theorem lit_and_cases (r : List Char) :
    (∃ r2, r = '&' :: '&' :: r2 ∧ Spec.lit "&&" r = some r2) ∨
    (Spec.lit "&&" r = none ∧ ∀ r2, r ≠ '&' :: '&' :: r2) := by
  match r with
  | '&' :: '&' :: r2 => exact .inl ⟨r2, rfl, by simp [Spec.lit] <;> rfl⟩
  | [] => exact .inr ⟨by simp [Spec.lit] <;> decide, by simp⟩
  | [c] =>
    refine .inr ⟨?_, by simp⟩
    simp only [Spec.lit]; rw [if_neg]; simp [show "&&".toList = ['&', '&'] from rfl, List.isPrefixOf]
  | c :: d :: r2 =>
    by_cases h : c = '&' ∧ d = '&'
    · obtain ⟨rfl, rfl⟩ := h; exact .inl ⟨r2, rfl, by simp [Spec.lit] <;> rfl⟩
    · refine .inr ⟨?_, ?_⟩
      · simp only [Spec.lit]; rw [if_neg]
        simp only [show "&&".toList = ['&', '&'] from rfl, List.isPrefixOf, Bool.and_true, Bool.and_eq_true,
          beq_iff_eq]
        intro h'; exact h ⟨h'.1.symm, h'.2.symm⟩
      · intro r3 e; simp only [List.cons.injEq] at e; exact h ⟨e.1, e.2.1⟩

/-! ### logical-or / logical-and -/

theorem logicalOr_inv {f : Nat} {inp r : List Char} {e : Spec.CExpr}
    (h : Spec.logicalOr (f + 1) inp = some (e, r)) :
    ∃ l r1, Spec.logicalAnd f inp = some (l, r1) ∧
      ((Spec.lit "||" (Spec.skipS r1) = none ∧ e = l ∧ r = r1) ∨
       (∃ r2 x, Spec.skipS r1 = '|' :: '|' :: r2 ∧ Spec.logicalOr f (Spec.skipS r2) = some (x, r) ∧
          e = .or l x)) := by
  rw [Spec.logicalOr] at h
  cases h1 : Spec.logicalAnd f inp with
  | none => simp [h1] at h
  | some p =>
    obtain ⟨l, r1⟩ := p
    simp only [h1] at h
    refine ⟨l, r1, rfl, ?_⟩
    rcases lit_or_cases (Spec.skipS r1) with ⟨r2, e2, hl⟩ | ⟨hl, _⟩
    · simp only [hl] at h
      cases h3 : Spec.logicalOr f (Spec.skipS r2) with
      | none => simp [h3] at h
      | some p2 =>
        obtain ⟨x, r3⟩ := p2
        simp only [h3, Option.map_some, Option.some.injEq, Prod.mk.injEq] at h
        exact .inr ⟨r2, x, e2, by rw [← h.2]; exact h3, h.1.symm⟩
    · simp only [hl, Option.some.injEq, Prod.mk.injEq] at h
      exact .inl ⟨hl, h.1.symm, h.2.symm⟩

theorem logicalAnd_inv {f : Nat} {inp r : List Char} {e : Spec.CExpr}
    (h : Spec.logicalAnd (f + 1) inp = some (e, r)) :
    ∃ l r1, Spec.basic f inp = some (l, r1) ∧
      ((Spec.lit "&&" (Spec.skipS r1) = none ∧ e = l ∧ r = r1) ∨
       (∃ r2 x, Spec.skipS r1 = '&' :: '&' :: r2 ∧ Spec.logicalAnd f (Spec.skipS r2) = some (x, r) ∧
          e = .and l x)) := by
  rw [Spec.logicalAnd] at h
  cases h1 : Spec.basic f inp with
  | none => simp [h1] at h
  | some p =>
    obtain ⟨l, r1⟩ := p
    simp only [h1] at h
    refine ⟨l, r1, rfl, ?_⟩
    rcases lit_and_cases (Spec.skipS r1) with ⟨r2, e2, hl⟩ | ⟨hl, _⟩
    · simp only [hl] at h
      cases h3 : Spec.logicalAnd f (Spec.skipS r2) with
      | none => simp [h3] at h
      | some p2 =>
        obtain ⟨x, r3⟩ := p2
        simp only [h3, Option.map_some, Option.some.injEq, Prod.mk.injEq] at h
        exact .inr ⟨r2, x, e2, by rw [← h.2]; exact h3, h.1.symm⟩
    · simp only [hl, Option.some.injEq, Prod.mk.injEq] at h
      exact .inl ⟨hl, h.1.symm, h.2.symm⟩

/-! ### paren-expr -/

theorem parenExpr_inv {f : Nat} {inp r : List Char} {e : Spec.CExpr}
    (h : Spec.parenExpr (f + 1) inp = some (e, r)) :
    ∃ t e' r2, inp = '(' :: t ∧ Spec.logicalOr f (Spec.skipS t) = some (e', r2) ∧
      Spec.skipS r2 = ')' :: r ∧ e = .paren e' := by
  cases inp with
  | nil =>
    rw [Spec.parenExpr] at h
    · cases h
    · intro r e; cases e
  | cons c t =>
    by_cases hc : c = '('
    · subst hc
      rw [Spec.parenExpr] at h
      cases h1 : Spec.logicalOr f (Spec.skipS t) with
      | none => simp [h1] at h
      | some p =>
        obtain ⟨e', r2⟩ := p
        simp only [h1] at h
        split at h
        · rename_i r3 h3
          simp only [Option.some.injEq, Prod.mk.injEq] at h
          exact ⟨t, e', r2, rfl, h1, by rw [h3, h.2], h.1.symm⟩
        · cases h
    · rw [Spec.parenExpr] at h
      · cases h
      · intro r' e'; simp only [List.cons.injEq] at e'; exact hc e'.1

/-! ### comparison operators -/

/-- the characters of a comparison operator -/
def copChars : COp → List Char
  | .eq => ['=', '=']
  | .ne => ['!', '=']
  | .lt => ['<']
  | .le => ['<', '=']
  | .gt => ['>']
  | .ge => ['>', '=']

theorem comparisonOp_inv {inp r : List Char} {op : COp} (h : Spec.comparisonOp inp = some (op, r)) :
    inp = copChars op ++ r ∧ ((op = .lt ∨ op = .gt) → ∀ t, r ≠ '=' :: t) := by
  unfold Spec.comparisonOp at h
  split at h <;> first
    | (simp only [Option.some.injEq, Prod.mk.injEq] at h
       obtain ⟨rfl, rfl⟩ := h
       refine ⟨rfl, ?_⟩
       intro ho t e
       subst e
       simp_all)
    | cases h

/-- the first character of a comparison operator -/
theorem copChars_head (op : COp) : ∃ c t, copChars op = c :: t ∧ (c = '=' ∨ c = '!' ∨ c = '<' ∨ c = '>') := by
  cases op
  · exact ⟨'=', ['='], rfl, by simp⟩
  · exact ⟨'!', ['='], rfl, by simp⟩
  · exact ⟨'<', [], rfl, by simp⟩
  · exact ⟨'<', ['='], rfl, by simp⟩
  · exact ⟨'>', [], rfl, by simp⟩
  · exact ⟨'>', ['='], rfl, by simp⟩

/-! ### basic-expr -/

/-- the four ways a basic-expr is derived -/
inductive BasicInv (f : Nat) (inp : List Char) (e : Spec.CExpr) (r : List Char) : Prop
  /-- `! S paren-expr` -/
  | notParen (t t2 : List Char) (e' : Spec.CExpr) : inp = '!' :: t → (∀ u, t ≠ '=' :: u) →
      Spec.skipS t = '(' :: t2 → Spec.parenExpr f ('(' :: t2) = some (e', r) → e = .not e' →
      BasicInv f inp e r
  /-- `! S (filter-query / function-expr)` -/
  | notTerm (t : List Char) (e' : Spec.CExpr) : inp = '!' :: t → (∀ u, t ≠ '=' :: u) →
      (∀ t2, Spec.skipS t ≠ '(' :: t2) → Spec.term f (Spec.skipS t) = some (e', r) → (∀ v, e' ≠ .lit v) →
      e = .not e' → BasicInv f inp e r
  | paren (t : List Char) : inp = '(' :: t → Spec.parenExpr f inp = some (e, r) → BasicInv f inp e r
  | cmp (c : Char) (t : List Char) (l rhs : Spec.CExpr) (r1 r2 : List Char) (op : COp) : inp = c :: t →
      c ≠ '!' → c ≠ '(' → Spec.term f inp = some (l, r1) → Spec.comparisonOp (Spec.skipS r1) = some (op, r2) →
      Spec.term f (Spec.skipS r2) = some (rhs, r) → e = .cmp op l rhs → BasicInv f inp e r
  | test (c : Char) (t : List Char) : inp = c :: t → c ≠ '!' → c ≠ '(' → Spec.term f inp = some (e, r) →
      Spec.comparisonOp (Spec.skipS r) = none → (∀ v, e ≠ .lit v) → BasicInv f inp e r

theorem term_nil (f : Nat) : Spec.term f [] = none := by
  cases f with
  | zero => rw [Spec.term]
  | succ f =>
    rw [Spec.term]
    · simp [Spec.functionName, Spec.literal, Spec.stringLiteral, Spec.lit, Spec.numberSpelling, Spec.intLit] <;> decide
    · intro r e; cases e
    · intro r e; cases e

theorem basic_inv {f : Nat} {inp r : List Char} {e : Spec.CExpr}
    (h : Spec.basic (f + 1) inp = some (e, r)) : BasicInv f inp e r := by
  cases inp with
  | nil =>
    rw [Spec.basic] at h
    · simp [term_nil] at h
    · intro r e; cases e
    · intro r e; cases e
  | cons c t =>
    by_cases hb : c = '!'
    · subst hb
      rw [Spec.basic] at h
      cases hc : Spec.comparisonOp ('!' :: t) with
      | some p => simp [hc] at h
      | none =>
        simp only [hc] at h
        have hne : ∀ u, t ≠ '=' :: u := by
          rintro u rfl
          simp [Spec.comparisonOp] at hc
        split at h
        · rename_i t2 heq
          cases hp : Spec.parenExpr f (Spec.skipS t) with
          | none => simp [hp] at h
          | some p =>
            obtain ⟨e', r'⟩ := p
            simp only [hp, Option.map_some, Option.some.injEq, Prod.mk.injEq] at h
            exact .notParen t t2 e' rfl hne heq (by rw [← heq, hp, h.2]) h.1.symm
        · rename_i hnp
          split at h
          · cases h
          · rename_i e' r2 hnl ht
            simp only [Option.some.injEq, Prod.mk.injEq] at h
            refine .notTerm t e' rfl hne (fun t2 e2 => hnp t2 e2) (by rw [ht, h.2]) ?_ h.1.symm
            rintro v rfl
            exact hnl v rfl
          · cases h
    · by_cases hp : c = '('
      · subst hp
        rw [Spec.basic] at h
        exact .paren t rfl h
      · rw [Spec.basic] at h
        · cases ht : Spec.term f (c :: t) with
          | none => simp [ht] at h
          | some p =>
            obtain ⟨l, r1⟩ := p
            simp only [ht] at h
            cases hc : Spec.comparisonOp (Spec.skipS r1) with
            | some p2 =>
              obtain ⟨op, r2⟩ := p2
              simp only [hc] at h
              cases ht2 : Spec.term f (Spec.skipS r2) with
              | none => simp [ht2] at h
              | some p3 =>
                obtain ⟨rhs, r3⟩ := p3
                simp only [ht2, Option.some.injEq, Prod.mk.injEq] at h
                exact .cmp c t l rhs r1 r2 op rfl hb hp ht hc (by rw [ht2, h.2]) h.1.symm
            | none =>
              simp only [hc] at h
              split at h
              · cases h
              · rename_i hnl
                simp only [Option.some.injEq, Prod.mk.injEq] at h
                obtain ⟨rfl, rfl⟩ := h
                exact .test c t rfl hb hp ht hc (fun v hv => hnl v hv)
        · intro r' e'; simp only [List.cons.injEq] at e'; exact hb e'.1
        · intro r' e'; simp only [List.cons.injEq] at e'; exact hp e'.1

/-! ### term -/

/-- the ways a term (literal / filter-query / function-expr) is derived -/
inductive TermInv (f : Nat) (inp : List Char) (e : Spec.CExpr) (r : List Char) : Prop
  | rel (t : List Char) (segs : List Spec.CSegment) : inp = '@' :: t → Spec.segments f t = some (segs, r) →
      e = .rel segs → TermInv f inp e r
  | root (t : List Char) (segs : List Spec.CSegment) : inp = '$' :: t → Spec.segments f t = some (segs, r) →
      e = .root segs → TermInv f inp e r
  | call0 (name : Str) (t : List Char) : Spec.functionName inp = some (name, '(' :: t) →
      Spec.skipS t = ')' :: r → e = .call name [] → TermInv f inp e r
  | call (name : Str) (t : List Char) (a : Spec.CExpr) (as : List Spec.CExpr) (r2 r3 : List Char) :
      Spec.functionName inp = some (name, '(' :: t) → (∀ u, Spec.skipS t ≠ ')' :: u) →
      Spec.argument f (Spec.skipS t) = some (a, r2) → Spec.moreArgs f r2 = some (as, r3) →
      Spec.skipS r3 = ')' :: r → e = .call name (a :: as) → TermInv f inp e r
  | lit (c : Char) (t : List Char) (v : Json) : inp = c :: t → c ≠ '@' → c ≠ '$' → Spec.literal inp = some (v, r) →
      e = .lit v → TermInv f inp e r

theorem term_inv {f : Nat} {inp r : List Char} {e : Spec.CExpr}
    (h : Spec.term (f + 1) inp = some (e, r)) : TermInv f inp e r := by
  cases inp with
  | nil => rw [term_nil] at h; cases h
  | cons c t =>
    by_cases h1 : c = '@'
    · subst h1
      rw [Spec.term] at h
      cases hs : Spec.segments f t with
      | none => simp [hs] at h
      | some p =>
        obtain ⟨segs, r2⟩ := p
        simp only [hs, Option.map_some, Option.some.injEq, Prod.mk.injEq] at h
        exact .rel t segs rfl (by rw [hs, h.2]) h.1.symm
    · by_cases h2 : c = '$'
      · subst h2
        rw [Spec.term] at h
        cases hs : Spec.segments f t with
        | none => simp [hs] at h
        | some p =>
          obtain ⟨segs, r2⟩ := p
          simp only [hs, Option.map_some, Option.some.injEq, Prod.mk.injEq] at h
          exact .root t segs rfl (by rw [hs, h.2]) h.1.symm
      · rw [Spec.term] at h
        · split at h
          · rename_i name t2 hfn
            simp only at h
            split at h
            · rename_i r2 hr2
              simp only [Option.some.injEq, Prod.mk.injEq] at h
              exact .call0 name t2 hfn (by rw [hr2, h.2]) h.1.symm
            · rename_i hnr
              cases ha : Spec.argument f (Spec.skipS t2) with
              | none => simp [ha] at h
              | some p =>
                obtain ⟨a, r2⟩ := p
                simp only [ha] at h
                cases hm : Spec.moreArgs f r2 with
                | none => simp [hm] at h
                | some p2 =>
                  obtain ⟨as, r3⟩ := p2
                  simp only [hm] at h
                  split at h
                  · rename_i r4 hr4
                    simp only [Option.some.injEq, Prod.mk.injEq] at h
                    exact .call name t2 a as r2 r3 hfn (fun u hu => hnr u hu) ha hm (by rw [hr4, h.2]) h.1.symm
                  · cases h
          · cases hl : Spec.literal (c :: t) with
            | none => simp [hl] at h
            | some p =>
              obtain ⟨v, r2⟩ := p
              simp only [hl, Option.map_some, Option.some.injEq, Prod.mk.injEq] at h
              exact .lit c t v rfl h1 h2 (by rw [hl, h.2]) h.1.symm
        · intro r' e'; simp only [List.cons.injEq] at e'; exact h1 e'.1
        · intro r' e'; simp only [List.cons.injEq] at e'; exact h2 e'.1

/-! ### function arguments -/

theorem argument_inv {f : Nat} {inp r : List Char} {e : Spec.CExpr}
    (h : Spec.argument (f + 1) inp = some (e, r)) :
    (∃ v, Spec.literal inp = some (v, r) ∧ e = .lit v ∧
        ((∃ u, Spec.skipS r = ',' :: u) ∨ (∃ u, Spec.skipS r = ')' :: u))) ∨
    Spec.logicalOr f inp = some (e, r) := by
  rw [Spec.argument] at h
  split at h
  · rename_i v r' hl
    split at h
    · rename_i u hu
      simp only [Option.some.injEq, Prod.mk.injEq] at h
      obtain ⟨rfl, rfl⟩ := h
      exact .inl ⟨v, hl, rfl, .inl ⟨u, hu⟩⟩
    · rename_i u hu
      simp only [Option.some.injEq, Prod.mk.injEq] at h
      obtain ⟨rfl, rfl⟩ := h
      exact .inl ⟨v, hl, rfl, .inr ⟨u, hu⟩⟩
    · exact .inr h
  · exact .inr h

theorem moreArgs_inv {f : Nat} {inp r : List Char} {as : List Spec.CExpr}
    (h : Spec.moreArgs (f + 1) inp = some (as, r)) :
    ((∀ u, Spec.skipS inp ≠ ',' :: u) ∧ as = [] ∧ r = inp) ∨
    (∃ u a r2 as', Spec.skipS inp = ',' :: u ∧ Spec.argument f (Spec.skipS u) = some (a, r2) ∧
        Spec.moreArgs f r2 = some (as', r) ∧ as = a :: as') := by
  rw [Spec.moreArgs] at h
  split at h
  · rename_i u hu
    cases ha : Spec.argument f (Spec.skipS u) with
    | none => simp [ha] at h
    | some p =>
      obtain ⟨a, r2⟩ := p
      simp only [ha] at h
      cases hm : Spec.moreArgs f r2 with
      | none => simp [hm] at h
      | some p2 =>
        obtain ⟨as', r3⟩ := p2
        simp only [hm, Option.some.injEq, Prod.mk.injEq] at h
        exact .inr ⟨u, a, r2, as', hu, ha, by rw [hm, h.2], h.1.symm⟩
  · rename_i hn
    simp only [Option.some.injEq, Prod.mk.injEq] at h
    exact .inl ⟨fun u hu => hn u hu, h.1.symm, h.2.symm⟩

/-! ### selectors, bracketed selections, segments -/

theorem selector_filter_inv {f : Nat} {t r : List Char} {s : Spec.CSelector}
    (h : Spec.selector (f + 1) ('?' :: t) = some (s, r)) :
    ∃ e, Spec.logicalOr f (Spec.skipS t) = some (e, r) ∧ s = .filter e := by
  rw [Spec.selector] at h
  cases hl : Spec.logicalOr f (Spec.skipS t) with
  | none => simp [hl] at h
  | some p =>
    obtain ⟨e, r2⟩ := p
    simp only [hl, Option.map_some, Option.some.injEq, Prod.mk.injEq] at h
    exact ⟨e, by rw [h.2], h.1.symm⟩

/-- a selector that does not start with `?` is not a filter selector -/
theorem selector_plain {f : Nat} {c : Char} {t r : List Char} {s : Spec.CSelector} (hc : c ≠ '?')
    (h : Spec.selector (f + 1) (c :: t) = some (s, r)) : Cs.ffSel s = true := by
  by_cases h1 : c = '*'
  · subst h1
    rw [Spec.selector] at h
    simp only [Option.some.injEq, Prod.mk.injEq] at h
    rw [← h.1]; rfl
  · rw [Spec.selector] at h
    · cases hs : Spec.stringLiteral (c :: t) with
      | some p =>
        simp only [hs, Option.some.injEq, Prod.mk.injEq] at h
        rw [← h.1]; rfl
      | none =>
        simp only [hs] at h
        cases hsl : Spec.sliceSelector (c :: t) with
        | some res =>
          simp only [hsl, Option.some.injEq] at h
          subst h
          obtain ⟨a, b, c', rfl⟩ := Cs.sliceSelector_isSlice hsl
          rfl
        | none =>
          simp only [hsl] at h
          cases hi : Spec.intLit (c :: t) with
          | none => simp [hi] at h
          | some p =>
            simp only [hi, Option.map_some, Option.some.injEq, Prod.mk.injEq] at h
            rw [← h.1]; rfl
    · intro r' e'; simp only [List.cons.injEq] at e'; exact h1 e'.1
    · intro r' e'; simp only [List.cons.injEq] at e'; exact hc e'.1

theorem selector_nil (f : Nat) : Spec.selector f [] = none := by
  cases f with
  | zero => rw [Spec.selector]
  | succ f =>
    rw [Spec.selector]
    · simp [Spec.stringLiteral, Spec.sliceSelector, Spec.intLit, Spec.lit] <;> decide
    · intro r e; cases e
    · intro r e; cases e

theorem moreSelectors_inv {f : Nat} {inp r : List Char} {ss : List Spec.CSelector}
    (h : Spec.moreSelectors (f + 1) inp = some (ss, r)) :
    ((∀ u, Spec.skipS inp ≠ ',' :: u) ∧ ss = [] ∧ r = inp) ∨
    (∃ u s r2 ss', Spec.skipS inp = ',' :: u ∧ Spec.selector f (Spec.skipS u) = some (s, r2) ∧
        Spec.moreSelectors f r2 = some (ss', r) ∧ ss = s :: ss') := by
  rw [Spec.moreSelectors] at h
  split at h
  · rename_i u hu
    cases ha : Spec.selector f (Spec.skipS u) with
    | none => simp [ha] at h
    | some p =>
      obtain ⟨a, r2⟩ := p
      simp only [ha] at h
      cases hm : Spec.moreSelectors f r2 with
      | none => simp [hm] at h
      | some p2 =>
        obtain ⟨as', r3⟩ := p2
        simp only [hm, Option.some.injEq, Prod.mk.injEq] at h
        exact .inr ⟨u, a, r2, as', hu, ha, by rw [hm, h.2], h.1.symm⟩
  · rename_i hn
    simp only [Option.some.injEq, Prod.mk.injEq] at h
    exact .inl ⟨fun u hu => hn u hu, h.1.symm, h.2.symm⟩

theorem bracketed_inv {f : Nat} {inp r : List Char} {sels : List Spec.CSelector} {fl : Bool}
    (h : Spec.bracketed (f + 1) inp = some (sels, fl, r)) :
    ∃ t s r2 ss r3, inp = '[' :: t ∧ Spec.selector f (Spec.skipS t) = some (s, r2) ∧
      Spec.moreSelectors f r2 = some (ss, r3) ∧ Spec.skipS r3 = ']' :: r ∧ sels = s :: ss := by
  cases inp with
  | nil =>
    rw [Spec.bracketed] at h
    · cases h
    · intro r e; cases e
  | cons c t =>
    by_cases hc : c = '['
    · subst hc
      rw [Spec.bracketed] at h
      simp only at h
      cases hs : Spec.selector f (Spec.skipS t) with
      | none => simp [hs] at h
      | some p =>
        obtain ⟨s, r2⟩ := p
        simp only [hs] at h
        cases hm : Spec.moreSelectors f r2 with
        | none => simp [hm] at h
        | some p2 =>
          obtain ⟨ss, r3⟩ := p2
          simp only [hm] at h
          split at h
          · rename_i r5 h5
            simp only [Option.some.injEq, Prod.mk.injEq] at h
            exact ⟨t, s, r2, ss, r3, rfl, hs, hm, by rw [h5, h.2.2], h.1.symm⟩
          · cases h
    · rw [Spec.bracketed] at h
      · cases h
      · intro r' e'; simp only [List.cons.injEq] at e'; exact hc e'.1

theorem segments_inv {f : Nat} {inp r : List Char} {segs : List Spec.CSegment}
    (h : Spec.segments (f + 1) inp = some (segs, r)) :
    (Spec.segment f (Spec.skipS inp) = none ∧ segs = [] ∧ r = inp) ∨
    (∃ seg r1 segs', Spec.segment f (Spec.skipS inp) = some (seg, r1) ∧
        Spec.segments f r1 = some (segs', r) ∧ segs = seg :: segs') := by
  rw [Spec.segments] at h
  cases hs : Spec.segment f (Spec.skipS inp) with
  | none =>
    simp only [hs, Option.some.injEq, Prod.mk.injEq] at h
    exact .inl ⟨rfl, h.1.symm, h.2.symm⟩
  | some p =>
    obtain ⟨seg, r1⟩ := p
    simp only [hs] at h
    cases hm : Spec.segments f r1 with
    | none => simp [hm] at h
    | some p2 =>
      obtain ⟨segs', r2⟩ := p2
      simp only [hm, Option.some.injEq, Prod.mk.injEq] at h
      exact .inr ⟨seg, r1, segs', rfl, by rw [hm, h.2], h.1.symm⟩

/-! ### one segment -/

/-- the six ways a segment is derived -/
inductive SegInv (f : Nat) (inp : List Char) (seg : Spec.CSegment) (r : List Char) : Prop
  | descWild : inp = '.' :: '.' :: '*' :: r → seg = .desc [.wild] → SegInv f inp seg r
  | descBrack (t : List Char) (sels : List Spec.CSelector) (fl : Bool) : inp = '.' :: '.' :: '[' :: t →
      Spec.bracketed f ('[' :: t) = some (sels, fl, r) → seg = .desc sels → SegInv f inp seg r
  | descName (c : Char) (t : List Char) (s : Str) : inp = '.' :: '.' :: c :: t → c ≠ '*' → c ≠ '[' →
      Spec.shorthand (c :: t) = some (s, r) → seg = .desc [.name s] → SegInv f inp seg r
  | dotWild : inp = '.' :: '*' :: r → seg = .child [.wild] false → SegInv f inp seg r
  | dotName (c : Char) (t : List Char) (s : Str) : inp = '.' :: c :: t → c ≠ '.' → c ≠ '*' →
      Spec.shorthand (c :: t) = some (s, r) → seg = .child [.name s] false → SegInv f inp seg r
  | brack (t : List Char) (sels : List Spec.CSelector) (fl : Bool) : inp = '[' :: t →
      Spec.bracketed f ('[' :: t) = some (sels, fl, r) → seg = .child sels fl → SegInv f inp seg r

theorem segment_inv {f : Nat} {inp r : List Char} {seg : Spec.CSegment}
    (h : Spec.segment (f + 1) inp = some (seg, r)) : SegInv f inp seg r := by
  cases inp with
  | nil =>
    rw [Spec.segment] at h
    · simp at h
    all_goals (intro r e; cases e)
  | cons c t =>
    by_cases hc : c = '.'
    · subst hc
      cases t with
      | nil =>
        rw [Spec.segment] at h
        · simp [Spec.shorthand] at h
        · intro r e; cases e
        · intro r e; cases e
      | cons d t =>
        by_cases hd : d = '.'
        · subst hd
          cases t with
          | nil =>
            rw [Spec.segment] at h
            · simp [Spec.shorthand] at h
            · intro r e; cases e
            · intro r e; cases e
          | cons e t =>
            by_cases he : e = '*'
            · subst he
              rw [Spec.segment] at h
              simp only [Option.some.injEq, Prod.mk.injEq] at h
              obtain ⟨rfl, rfl⟩ := h
              exact .descWild rfl rfl
            · by_cases hb : e = '['
              · subst hb
                rw [Spec.segment] at h
                cases hbr : Spec.bracketed f ('[' :: t) with
                | none => simp [hbr] at h
                | some p =>
                  obtain ⟨sels, fl, r2⟩ := p
                  simp only [hbr, Option.map_some, Option.some.injEq, Prod.mk.injEq] at h
                  obtain ⟨rfl, rfl⟩ := h
                  exact .descBrack t sels fl rfl hbr rfl
              · rw [Spec.segment] at h
                · cases hsh : Spec.shorthand (e :: t) with
                  | none => simp [hsh] at h
                  | some p =>
                    obtain ⟨s, r2⟩ := p
                    simp only [hsh, Option.map_some, Option.some.injEq, Prod.mk.injEq] at h
                    obtain ⟨rfl, rfl⟩ := h
                    exact .descName e t s rfl he hb hsh rfl
                · intro r e'; simp only [List.cons.injEq] at e'; exact he e'.1
                · intro r e'; simp only [List.cons.injEq] at e'; exact hb e'.1
        · by_cases hw : d = '*'
          · subst hw
            rw [Spec.segment] at h
            simp only [Option.some.injEq, Prod.mk.injEq] at h
            obtain ⟨rfl, rfl⟩ := h
            exact .dotWild rfl rfl
          · rw [Spec.segment] at h
            · cases hsh : Spec.shorthand (d :: t) with
              | none => simp [hsh] at h
              | some p =>
                obtain ⟨s, r2⟩ := p
                simp only [hsh, Option.map_some, Option.some.injEq, Prod.mk.injEq] at h
                obtain ⟨rfl, rfl⟩ := h
                exact .dotName d t s rfl hd hw hsh rfl
            · intro r e'; simp only [List.cons.injEq] at e'; exact hd e'.1
            · intro r e'; simp only [List.cons.injEq] at e'; exact hw e'.1
    · by_cases hb : c = '['
      · subst hb
        rw [Spec.segment] at h
        cases hbr : Spec.bracketed f ('[' :: t) with
        | none => simp [hbr] at h
        | some p =>
          obtain ⟨sels, fl, r2⟩ := p
          simp only [hbr, Option.map_some, Option.some.injEq, Prod.mk.injEq] at h
          obtain ⟨rfl, rfl⟩ := h
          exact .brack t sels fl rfl hbr rfl
      · rw [Spec.segment] at h
        · simp at h
        · intro r e'; simp only [List.cons.injEq] at e'; exact hc e'.1
        · intro r e'; simp only [List.cons.injEq] at e'; exact hc e'.1
        · intro r e'; simp only [List.cons.injEq] at e'; exact hc e'.1
        · intro r e'; simp only [List.cons.injEq] at e'; exact hb e'.1

/-- a segment starts with `.` or `[` -/
theorem segment_none_of_head {f : Nat} {c : Char} {t : List Char} (h1 : c ≠ '.') (h2 : c ≠ '[') :
    Spec.segment f (c :: t) = none := by
  cases f with
  | zero => rw [Spec.segment]
  | succ f =>
    cases h : Spec.segment (f + 1) (c :: t) with
    | none => rfl
    | some p =>
      obtain ⟨seg, r⟩ := p
      cases segment_inv h with
      | descWild e _ => simp only [List.cons.injEq] at e; exact absurd e.1 h1
      | descBrack _ _ _ e _ _ => simp only [List.cons.injEq] at e; exact absurd e.1 h1
      | descName _ _ _ e _ _ _ _ => simp only [List.cons.injEq] at e; exact absurd e.1 h1
      | dotWild e _ => simp only [List.cons.injEq] at e; exact absurd e.1 h1
      | dotName _ _ _ e _ _ _ _ => simp only [List.cons.injEq] at e; exact absurd e.1 h1
      | brack _ _ _ e _ _ => simp only [List.cons.injEq] at e; exact absurd e.1 h2

/-! ### literals -/

/-- the five kinds of literal -/
inductive LitInv (inp : List Char) (v : Json) (r : List Char) : Prop
  | str (s : Str) : Spec.stringLiteral inp = some (s, r) → v = .str s → LitInv inp v r
  | true_ : inp = ['t', 'r', 'u', 'e'] ++ r → v = .bool true → LitInv inp v r
  | false_ : inp = ['f', 'a', 'l', 's', 'e'] ++ r → v = .bool false → LitInv inp v r
  | null : inp = ['n', 'u', 'l', 'l'] ++ r → v = .null → LitInv inp v r
  | num (sp : Str) (x : Num) : Spec.numberSpelling inp = some (sp, r) → Spec.numberValue sp = some x →
      v = .num x → LitInv inp v r

theorem lit_some {s : List Char} {inp r : List Char} {str : String} (hs : str.toList = s)
    (h : Spec.lit str inp = some r) : inp = s ++ r := by
  unfold Spec.lit at h
  split at h
  · rename_i hp
    simp only [Option.some.injEq] at h
    rw [hs] at hp
    obtain ⟨t, rfl⟩ := List.isPrefixOf_iff_prefix.mp hp
    rw [← h, String.length, hs]
    simp
  · cases h

theorem literal_inv {inp r : List Char} {v : Json} (h : Spec.literal inp = some (v, r)) : LitInv inp v r := by
  unfold Spec.literal at h
  split at h
  · rename_i s r' hs
    simp only [Option.some.injEq, Prod.mk.injEq] at h
    obtain ⟨rfl, rfl⟩ := h
    exact .str s hs rfl
  · split at h
    · rename_i r' hl
      simp only [Option.some.injEq, Prod.mk.injEq] at h
      obtain ⟨rfl, rfl⟩ := h
      exact .true_ (lit_some (by rfl) hl) rfl
    · split at h
      · rename_i r' hl
        simp only [Option.some.injEq, Prod.mk.injEq] at h
        obtain ⟨rfl, rfl⟩ := h
        exact .false_ (lit_some (by rfl) hl) rfl
      · split at h
        · rename_i r' hl
          simp only [Option.some.injEq, Prod.mk.injEq] at h
          obtain ⟨rfl, rfl⟩ := h
          exact .null (lit_some (by rfl) hl) rfl
        · split at h
          · rename_i sp r' hn
            cases hv : Spec.numberValue sp with
            | none => simp [hv] at h
            | some x =>
              simp only [hv, Option.map_some, Option.some.injEq, Prod.mk.injEq] at h
              obtain ⟨rfl, rfl⟩ := h
              exact .num sp x hn hv rfl
          · cases h

end JPV.Proofs.Cf
