/-
C12 — str(query) is a faithful canonical form: it reparses to the same query.

Property text: "For every valid RFC 9535 query, the text str() gives for its
compiled form is itself a valid RFC 9535 query, compiling that text yields a
query that selects exactly the same nodes on every JSON value, and serialising
again gives the identical text. Names and string literals appear in canonical
single-quoted form, and parentheses are kept wherever dropping them would change
the grouping of '!', '&&', '||' or a comparison."

Proved here (`C12_partial`): for the *structural* fragment (every filter-free
query: any mix of child/descendant segments and name, index, slice, wildcard
selectors, names over all characters, all integers) the printed text is derived
by the RFC grammar (the independent recogniser `Spec.parseQuery` accepts it) and
denotes the same query, the only difference being that an omitted slice step is
written out as `1` (`normStep`), which selects the same nodes (`C07`); printing is
idempotent on that normal form.  Names and string literals are in canonical
single-quoted form for every string (`C08_canonical`).  `C12_filter_partial` is the
same round trip for filter expressions (precedence and parentheses) with
filter-free embedded queries and string/boolean/null literals.  Not covered by a
theorem: number literals (`repr(float)`/`float()` are CPython runtime), filters
nested inside filters, and reparsing with the implementation's own Pratt parser —
all decided by the oracle search (reparse with both the real parser and
`Spec.Grammar`, AST equality, fixpoint).
-/
import JPV.Impl.Serialize
import JPV.Spec.Grammar
import JPV.Spec.Typing
import JPV.Props.C08
import JPV.Proofs.Printer
import JPV.Proofs.PrinterFilter
namespace JPV.Props
open JPV

theorem C12_partial (q : Query) (hff : Spec.filterFree q = true) (hne : Proofs.nonEmptySegs q = true) :
    ∃ c, Spec.parseQuery (Impl.strQuery q) = .valid c ∧ Spec.abstractSegs c = Proofs.normStep q :=
  Proofs.print_parse_structural q hff hne

/-- The filter fragment: for every filter expression the parser can build in test position (any nesting
of `!`, `&&`, `||`, comparisons, function calls with literal / query / logical / negated arguments,
embedded filter-free queries; string, boolean and null literals) the precedence-aware text str() prints is
derived by the RFC grammar and denotes exactly the same expression: parentheses are kept wherever
dropping them would change the grouping, and nowhere else does the grouping change. -/
theorem C12_filter_partial (e : Expr) (h : Proofs.printableTest e = true) :
    ∃ c, Spec.parseQuery (Impl.strQuery [.child [.filter e]]) = .valid c ∧
      Spec.abstractSegs c = [.child [.filter e]] := Proofs.print_parse_filter e h

/-- serialising the reparsed query gives the identical text -/
theorem C12_fixpoint (q : Query) : Impl.strQuery (Proofs.normStep q) = Impl.strQuery q :=
  Proofs.print_normStep q

/-- names and string literals appear in canonical single-quoted form -/
theorem C12_quoting (s : Str) : Impl.strSel (.name s) = Spec.normalName s ∧ Impl.strLit (.str s) = Spec.normalName s :=
  Proofs.print_quoting s

example : Impl.strQuery [.child [.name "a'b".toList, .slice none (some 2) none], .desc [.index (-1), .wild]]
    = "$['a\\'b', :2:1]..[-1, *]".toList := by decide +kernel

end JPV.Props
