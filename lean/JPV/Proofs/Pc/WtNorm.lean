/-
`Proofs.Pc.WtNorm` — writing out omitted slice steps preserves well-typedness, and the integer range rule
provided `1` is in range.
-/
import JPV.Spec.Typing
import JPV.Proofs.Pc.Norm
namespace JPV.Proofs.Pc
open JPV

theorem isSingular_normSeg_child (sels : List Selector) :
    Segment.isSingular (.child (normSels sels)) = Segment.isSingular (.child sels) := by
  cases sels with
  | nil => rw [normSels_nil]
  | cons s t =>
    cases t with
    | cons s2 t2 =>
      rw [normSels_cons, normSels_cons]
      simp [Segment.isSingular]
    | nil =>
      rw [normSels_cons, normSels_nil]
      cases s with
      | name n => rw [normSel_name]
      | index i => rw [normSel_index]
      | wild => rw [normSel_wild]
      | filter e => rw [normSel_filter]; simp [Segment.isSingular]
      | slice a b c =>
        cases c with
        | none => rw [normSel_slice_none]; simp [Segment.isSingular]
        | some c => rw [normSel_slice_some]

theorem isSingular_norm : (q : List Segment) → Query.isSingular (normSegs q) = Query.isSingular q
  | [] => by rw [normSegs_nil]
  | .child sels :: rest => by
    have ih := isSingular_norm rest
    unfold Query.isSingular at ih ⊢
    rw [normSegs_child, List.all_cons, List.all_cons, ih, isSingular_normSeg_child]
  | .desc sels :: rest => by
    unfold Query.isSingular
    rw [normSegs_desc, List.all_cons, List.all_cons]
    simp [Segment.isSingular]

mutual
theorem wtTest_norm (sg : Spec.Sigs) : (e : Expr) → Spec.wtTest sg (normExpr e) = Spec.wtTest sg e
  | .lit v => by rw [normExpr_lit]
  | .not e => by rw [normExpr_not, Spec.wtTest, Spec.wtTest, wtTest_norm sg e]
  | .logical op l r => by
    rw [normExpr_logical, Spec.wtTest, Spec.wtTest, wtTest_norm sg l, wtTest_norm sg r]
  | .cmp op l r => by
    rw [normExpr_cmp, Spec.wtTest, Spec.wtTest, wtComparable_norm sg l, wtComparable_norm sg r]
  | .rel q => by rw [normExpr_rel, Spec.wtTest, Spec.wtTest, wtQuery_norm sg q]
  | .root q => by rw [normExpr_root, Spec.wtTest, Spec.wtTest, wtQuery_norm sg q]
  | .call f args => by
    rw [normExpr_call, Spec.wtTest, Spec.wtTest]
    cases sg f with
    | none => rfl
    | some s => simp only [wtArgs_norm sg s.argTypes args]
theorem wtComparable_norm (sg : Spec.Sigs) : (e : Expr) →
    Spec.wtComparable sg (normExpr e) = Spec.wtComparable sg e
  | .lit v => by rw [normExpr_lit]
  | .not e => by rw [normExpr_not]; simp [Spec.wtComparable]
  | .logical op l r => by rw [normExpr_logical]; simp [Spec.wtComparable]
  | .cmp op l r => by rw [normExpr_cmp]; simp [Spec.wtComparable]
  | .rel q => by
    rw [normExpr_rel, Spec.wtComparable, Spec.wtComparable, wtQuery_norm sg q, isSingular_norm]
  | .root q => by
    rw [normExpr_root, Spec.wtComparable, Spec.wtComparable, wtQuery_norm sg q, isSingular_norm]
  | .call f args => by
    rw [normExpr_call, Spec.wtComparable, Spec.wtComparable]
    cases sg f with
    | none => rfl
    | some s => simp only [wtArgs_norm sg s.argTypes args]
theorem wtNodes_norm (sg : Spec.Sigs) : (e : Expr) → Spec.wtNodes sg (normExpr e) = Spec.wtNodes sg e
  | .lit v => by rw [normExpr_lit]
  | .not e => by rw [normExpr_not]; simp [Spec.wtNodes]
  | .logical op l r => by rw [normExpr_logical]; simp [Spec.wtNodes]
  | .cmp op l r => by rw [normExpr_cmp]; simp [Spec.wtNodes]
  | .rel q => by rw [normExpr_rel, Spec.wtNodes, Spec.wtNodes, wtQuery_norm sg q]
  | .root q => by rw [normExpr_root, Spec.wtNodes, Spec.wtNodes, wtQuery_norm sg q]
  | .call f args => by
    rw [normExpr_call, Spec.wtNodes, Spec.wtNodes]
    cases sg f with
    | none => rfl
    | some s => simp only [wtArgs_norm sg s.argTypes args]
theorem wtArgs_norm (sg : Spec.Sigs) : (tys : List Ty) → (as : List Expr) →
    Spec.wtArgs sg tys (normArgs as) = Spec.wtArgs sg tys as
  | [], [] => by rw [normArgs_nil]
  | [], a :: as => by rw [normArgs_cons]; simp [Spec.wtArgs]
  | t :: ts, [] => by rw [normArgs_nil]
  | t :: ts, a :: as => by
    rw [normArgs_cons]
    simp only [Spec.wtArgs, wtArgs_norm sg ts as]
    cases t with
    | value => simp only [wtComparable_norm sg a]
    | logical => simp only [wtTest_norm sg a]
    | nodes => simp only [wtNodes_norm sg a]
theorem wtSel_norm (sg : Spec.Sigs) : (s : Selector) → Spec.wtSel sg (normSel s) = Spec.wtSel sg s
  | .name s => by rw [normSel_name]
  | .index i => by rw [normSel_index]
  | .wild => by rw [normSel_wild]
  | .slice a b none => by rw [normSel_slice_none]; simp [Spec.wtSel]
  | .slice a b (some c) => by rw [normSel_slice_some]
  | .filter e => by rw [normSel_filter, Spec.wtSel, Spec.wtSel, wtTest_norm sg e]
theorem wtSels_norm (sg : Spec.Sigs) : (ss : List Selector) →
    Spec.wtSels sg (normSels ss) = Spec.wtSels sg ss
  | [] => by rw [normSels_nil]
  | s :: ss => by rw [normSels_cons, Spec.wtSels, Spec.wtSels, wtSel_norm sg s, wtSels_norm sg ss]
theorem wtQuery_norm (sg : Spec.Sigs) : (q : List Segment) →
    Spec.wtQuery sg (normSegs q) = Spec.wtQuery sg q
  | [] => by rw [normSegs_nil]
  | .child sels :: rest => by
    rw [normSegs_child, Spec.wtQuery, Spec.wtQuery, Spec.wtSeg, Spec.wtSeg, wtSels_norm sg sels,
      wtQuery_norm sg rest]
  | .desc sels :: rest => by
    rw [normSegs_desc, Spec.wtQuery, Spec.wtQuery, Spec.wtSeg, Spec.wtSeg, wtSels_norm sg sels,
      wtQuery_norm sg rest]
end

mutual
theorem intsExpr_norm (lo hi : Int) (h1 : Spec.inRange lo hi 1 = true) : (e : Expr) →
    Spec.intsExpr lo hi e = true → Spec.intsExpr lo hi (normExpr e) = true
  | .lit v, _ => by rw [normExpr_lit, Spec.intsExpr]
  | .not e, h => by
    rw [Spec.intsExpr] at h
    rw [normExpr_not, Spec.intsExpr]; exact intsExpr_norm lo hi h1 e h
  | .logical op l r, h => by
    rw [Spec.intsExpr, Bool.and_eq_true] at h
    rw [normExpr_logical, Spec.intsExpr, Bool.and_eq_true]
    exact ⟨intsExpr_norm lo hi h1 l h.1, intsExpr_norm lo hi h1 r h.2⟩
  | .cmp op l r, h => by
    rw [Spec.intsExpr, Bool.and_eq_true] at h
    rw [normExpr_cmp, Spec.intsExpr, Bool.and_eq_true]
    exact ⟨intsExpr_norm lo hi h1 l h.1, intsExpr_norm lo hi h1 r h.2⟩
  | .rel q, h => by
    rw [Spec.intsExpr] at h
    rw [normExpr_rel, Spec.intsExpr]; exact intsQuery_norm lo hi h1 q h
  | .root q, h => by
    rw [Spec.intsExpr] at h
    rw [normExpr_root, Spec.intsExpr]; exact intsQuery_norm lo hi h1 q h
  | .call f args, h => by
    rw [Spec.intsExpr] at h
    rw [normExpr_call, Spec.intsExpr]; exact intsArgs_norm lo hi h1 args h
theorem intsArgs_norm (lo hi : Int) (h1 : Spec.inRange lo hi 1 = true) : (as : List Expr) →
    Spec.intsArgs lo hi as = true → Spec.intsArgs lo hi (normArgs as) = true
  | [], _ => by rw [normArgs_nil, Spec.intsArgs]
  | a :: as, h => by
    rw [Spec.intsArgs, Bool.and_eq_true] at h
    rw [normArgs_cons, Spec.intsArgs, Bool.and_eq_true]
    exact ⟨intsExpr_norm lo hi h1 a h.1, intsArgs_norm lo hi h1 as h.2⟩
theorem intsSel_norm (lo hi : Int) (h1 : Spec.inRange lo hi 1 = true) : (s : Selector) →
    Spec.intsSel lo hi s = true → Spec.intsSel lo hi (normSel s) = true
  | .name s, h => by rw [normSel_name]; exact h
  | .index i, h => by rw [normSel_index]; exact h
  | .wild, h => by rw [normSel_wild]; exact h
  | .slice a b none, h => by
    rw [normSel_slice_none]
    simp only [Spec.intsSel, Spec.optInRange, Bool.and_true, Bool.and_eq_true] at h ⊢
    exact ⟨h, h1⟩
  | .slice a b (some c), h => by rw [normSel_slice_some]; exact h
  | .filter e, h => by
    rw [Spec.intsSel] at h
    rw [normSel_filter, Spec.intsSel]; exact intsExpr_norm lo hi h1 e h
theorem intsSels_norm (lo hi : Int) (h1 : Spec.inRange lo hi 1 = true) : (ss : List Selector) →
    Spec.intsSels lo hi ss = true → Spec.intsSels lo hi (normSels ss) = true
  | [], _ => by rw [normSels_nil, Spec.intsSels]
  | s :: ss, h => by
    rw [Spec.intsSels, Bool.and_eq_true] at h
    rw [normSels_cons, Spec.intsSels, Bool.and_eq_true]
    exact ⟨intsSel_norm lo hi h1 s h.1, intsSels_norm lo hi h1 ss h.2⟩
theorem intsQuery_norm (lo hi : Int) (h1 : Spec.inRange lo hi 1 = true) : (q : List Segment) →
    Spec.intsQuery lo hi q = true → Spec.intsQuery lo hi (normSegs q) = true
  | [], _ => by rw [normSegs_nil, Spec.intsQuery]
  | .child sels :: rest, h => by
    rw [Spec.intsQuery, Spec.intsSeg, Bool.and_eq_true] at h
    rw [normSegs_child, Spec.intsQuery, Spec.intsSeg, Bool.and_eq_true]
    exact ⟨intsSels_norm lo hi h1 sels h.1, intsQuery_norm lo hi h1 rest h.2⟩
  | .desc sels :: rest, h => by
    rw [Spec.intsQuery, Spec.intsSeg, Bool.and_eq_true] at h
    rw [normSegs_desc, Spec.intsQuery, Spec.intsSeg, Bool.and_eq_true]
    exact ⟨intsSels_norm lo hi h1 sels h.1, intsQuery_norm lo hi h1 rest h.2⟩
end

end JPV.Proofs.Pc
