/-
C17 — Nondeterministic mode only ever produces orderings RFC 9535 allows.

Property text: "With an environment whose nondeterministic flag is on, every
result of every query on every JSON value, for every outcome of the random choices
and not just the likely ones, is one RFC 9535 permits: exactly the nodes of the
deterministic result with the same multiplicities, array elements in index order
wherever the RFC orders them, each node visited by a descendant segment before
its descendants, and the selector results for one visited node contiguous.
Conversely the mode is exhaustive: every ordering the RFC permits is produced by
some outcome of the random choices."

`Impl.ND` evaluates under an explicit choice script (every call into `random`
consumes one entry); "for every outcome of the random choices" is "for every
script".  Proved here (`C17_partial`), for every script: each primitive choice is
an RFC-permitted reordering (a shuffle is a permutation; the queue merge is an
order-preserving interleaving; array children are never reordered), and for
every filter-free query on a value within the depth limit the evaluation
completes and yields exactly the nodes of the RFC nodelist with the same
multiplicities (`List.Perm`).  NOT proved: the ordering constraints
(parent-before-descendant, contiguity) as a theorem — they are decided by
walking the whole choice tree of small inputs on the real code and on the
model and testing membership in `Spec.ND.outcomes` — and filters under
nondeterminism.  Exhaustiveness is FALSE of the code (known finding D24,
witness in `known_findings.json`).
-/
import JPV.Impl.NonDet
import JPV.Spec.NonDet
import JPV.Spec.Typing
import JPV.Proofs.NonDet
import JPV.Proofs.NonDetRelEquiv
import JPV.Proofs.NonDetPermitted
import JPV.Proofs.NonDetFilters
import JPV.Proofs.Ndf.General
namespace JPV.Props
open JPV JPV.Impl

/-- `random.shuffle` under any script entry is a permutation -/
theorem C17_shuffle_perm {α} (xs : List α) (s : ND.Script) : ((ND.shuffle xs s).1).Perm xs := Proofs.nd_shuffle_perm xs s

/-- the `random.sample` queue merge is an interleaving: same elements, and the order inside the
queue and inside the new entries is kept -/
theorem C17_merge_interleaves {α} (q g : List α) (s : ND.Script) :
    ((ND.mergeQ q g s).1).Perm (q ++ g) ∧ List.Sublist q (ND.mergeQ q g s).1 ∧ List.Sublist g (ND.mergeQ q g s).1 :=
  Proofs.nd_merge_interleaves q g s

/-- children of an array are never reordered; members of an object are permuted -/
theorem C17_children (n : Node) (s : ND.Script) :
    ((ND.ndChildren n s).1).Perm (Impl.children n) ∧
    (∀ xs, n.val = .arr xs → (ND.ndChildren n s).1 = Impl.children n) := Proofs.nd_children n s

/-- for every script: a filter-free query on a value within the depth limit completes and yields
exactly the nodes of the RFC nodelist, with the same multiplicities -/
def C17_perm_statement : Prop :=
  ∀ (env : Env) (reg : Spec.Registry) (q : Query) (v : Json) (s : ND.Script),
    Spec.filterFree q = true → v.WF → (v.depth : Int) ≤ env.maxDepth → 1 ≤ env.maxDepth →
    ∃ r, ND.find env q v s = .ok r ∧ r.Perm (Spec.select reg q v)

theorem C17_partial : C17_perm_statement := Proofs.nd_find_perm

/-- the first half of the property at full strength for filter-free queries: for EVERY script — every outcome
of every member shuffle, visit-now-or-later coin flip and queue interleaving — the result is one of the
nodelists RFC 9535 permits (`Spec.ND.outcomes`): the nodes of the deterministic result, array elements in
index order, every node visited by a descendant segment before its descendants, the selector results for one
visited node contiguous and in selector order -/
theorem C17_permitted (env : Env) (reg : Spec.Registry) (q : Query) (v : Json) (s : ND.Script)
    (hff : Spec.filterFree q = true) (hw : v.WF) (hd : (v.depth : Int) ≤ env.maxDepth) (h1 : 1 ≤ env.maxDepth) :
    ∃ r, ND.find env q v s = .ok r ∧ r ∈ Spec.ND.outcomes reg q v :=
  Proofs.nd_find_permitted env reg q v s hff hw hd h1

/-- ... and WITH filter selectors: for every script, a well-typed query (any registry whose Python bodies
implement typed functions that do not look at the order of the nodelists they receive — `length`, `count`,
`value` do: `C17_permitted_builtin`) completes and returns one of the RFC-permitted nodelists.  The truth of a
filter test does not depend on the script (`C17_test_script_independent`). -/
theorem C17_permitted_wt (env : Env) (reg : Spec.Registry) (q : Query) (v : Json) (s : ND.Script)
    (hc : EnvConforms env reg) (hoi : Proofs.Ndf.OrderInsensitive reg)
    (hwt : Spec.wtQuery (sigsOf reg) q = true)
    (hw : v.WF) (hd : (v.depth : Int) ≤ env.maxDepth) (h1 : 1 ≤ env.maxDepth) :
    ∃ r, ND.find env q v s = .ok r ∧ r ∈ Spec.ND.outcomes reg q v ∧ r.Perm (Spec.select reg q v) := by
  obtain ⟨r, h, hp⟩ := Proofs.nd_find_permitted_wt env reg q v s hc hoi hwt hw hd h1
  obtain ⟨r', h', hperm⟩ := Proofs.nd_find_perm_wt env reg q v s hc hoi hwt hw hd h1
  rw [h] at h'
  cases h'
  exact ⟨r, h, hp, hperm⟩

theorem C17_permitted_builtin (env : Env) (q : Query) (v : Json) (s : ND.Script)
    (hf : env.funcs = builtinEnv.funcs)
    (hwt : Spec.wtQuery (sigsOf builtinReg) q = true)
    (hw : v.WF) (hd : (v.depth : Int) ≤ env.maxDepth) (h1 : 1 ≤ env.maxDepth) :
    ∃ r, ND.find env q v s = .ok r ∧ r ∈ Spec.ND.outcomes builtinReg q v :=
  Proofs.nd_find_permitted_builtin env q v s hf hwt hw hd h1

/-! ### against the DECLARATIVE relation of permitted nodelists

`Spec/NonDetRel.lean` states what RFC 9535 permits as relations (a wildcard / filter selector on an object: any
permutation of the selected members; a descendant segment: any order of the input node and its descendants in which
every node precedes its descendants and array elements keep array order, the per-node results concatenated in that
order; everything else concatenated in input and selector order).  `Proofs/NonDetRelEquiv.lean` proves the
enumeration `Spec.ND.outcomes` lists exactly those nodelists, so the frontier-based enumeration of visit orders is
no longer part of what has to be trusted. -/

theorem C17_permitted_rel (env : Env) (reg : Spec.Registry) (q : Query) (v : Json) (s : ND.Script)
    (hff : Spec.filterFree q = true) (hw : v.WF) (hd : (v.depth : Int) ≤ env.maxDepth) (h1 : 1 ≤ env.maxDepth) :
    ∃ r, ND.find env q v s = .ok r ∧ Spec.ND.Permitted reg q v r := by
  obtain ⟨r, h, hm⟩ := C17_permitted env reg q v s hff hw hd h1
  exact ⟨r, h, Proofs.outcomes_sound reg q v hw r hm⟩

theorem C17_permitted_wt_rel (env : Env) (reg : Spec.Registry) (q : Query) (v : Json) (s : ND.Script)
    (hc : EnvConforms env reg) (hoi : Proofs.Ndf.OrderInsensitive reg)
    (hwt : Spec.wtQuery (sigsOf reg) q = true)
    (hw : v.WF) (hd : (v.depth : Int) ≤ env.maxDepth) (h1 : 1 ≤ env.maxDepth) :
    ∃ r, ND.find env q v s = .ok r ∧ Spec.ND.Permitted reg q v r ∧ r.Perm (Spec.select reg q v) := by
  obtain ⟨r, h, hm, hp⟩ := C17_permitted_wt env reg q v s hc hoi hwt hw hd h1
  exact ⟨r, h, Proofs.outcomes_sound reg q v hw r hm, hp⟩

/-- the enumeration the exploration uses as its oracle is exactly the relation (on well-formed values) -/
theorem C17_oracle_exact (reg : Spec.Registry) (q : Query) (v : Json) (hw : v.WF) (out : List Node) :
    out ∈ Spec.ND.outcomes reg q v ↔ Spec.ND.Permitted reg q v out :=
  ⟨Proofs.outcomes_sound reg q v hw out, Proofs.outcomes_complete reg q v hw out⟩

/-- the deterministic result is one of the permitted ones (the relation is inhabited for every query and value) -/
theorem C17_deterministic_permitted (reg : Spec.Registry) (q : Query) (v : Json) (hw : v.WF) :
    Spec.ND.Permitted reg q v (Spec.select reg q v) := Proofs.select_permitted reg q v hw

end JPV.Props
