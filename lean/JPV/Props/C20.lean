/-
C20 — The command-line tool is a faithful, well-behaved front end to find().

Property text: "For every query and JSON document, running the CLI (query given
inline or in a file, document from a file or standard input, output to standard
output or a file, with or without --pretty) writes exactly the JSON array of
find(query, document).values() and exits 0. For every invalid query, undecodable
document, or evaluation error it exits non-zero with a one-line diagnostic on
standard error and no traceback unless --debug is given, and writes no partial
result."

Proved here, about the handler tables regenerated from cli.py: for EVERY class of
the JSONPath exception hierarchy and for the document-decoding errors, the
enclosing `try` has a clause that catches it, and that clause re-raises only under
--debug, writes one line to stderr and exits 1 before anything is written to the
output; the two `try` blocks wrap compile and load+find respectively, and the dump
of `values` comes after both.  Together with C13 (nothing but a JSONPathError
escapes compile/find) this covers every input.  Partial by construction: argparse,
json.load/json.dump, files and process exit are modelled, not verified — the
exploration runs the real CLI (in-process `main()` and real subprocesses).
-/
import JPV.Impl.Cli
namespace JPV.Props
open JPV.Impl.Cli

/-- every JSONPathError class raised while compiling is reported well -/
theorem C20_compile_errors :
    jsonpathErrors.all (fun exc =>
      onException .compile exc false = ⟨1, 1, false, false⟩ && onException .compile exc true = ⟨1, 0, true, false⟩) = true := by
  decide +kernel

/-- every JSONPathError class raised while evaluating, and every document-decoding error, is reported well -/
theorem C20_evaluate_errors :
    (jsonpathErrors ++ loadErrors).all (fun exc =>
      onException .evaluate exc false = ⟨1, 1, false, false⟩ && onException .evaluate exc true = ⟨1, 0, true, false⟩) = true := by
  decide +kernel

/-- also for any future subclass registered in exceptions.py: every class of the regenerated
hierarchy is caught at both stages -/
theorem C20_hierarchy_covered :
    JPV.Generated.excParents.all (fun p =>
      (catchIn 0 p.1).isSome && (catchIn 1 p.1).isSome) = true := by decide +kernel

/-- the two try blocks wrap compile and load+find+values; the result is dumped after both -/
theorem C20_wiring : wiring = true := by decide +kernel

/-- success: exit 0, nothing on stderr, the result written -/
theorem C20_ok : onSuccess = ⟨0, 0, false, true⟩ := rfl

end JPV.Props
