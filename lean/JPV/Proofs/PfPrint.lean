import JPV.Proofs.PfTerm
namespace JPV.Proofs.Pf
open JPV JPV.Proofs JPV.Proofs.Prn

/-! ### equations of the printer, and two more combinators -/

theorem strExpr_lit (v) : Impl.strExpr (.lit v) = Impl.strLit v := by rw [Impl.strExpr]
theorem strExpr_not_cmp (op l r) : Impl.strExpr (.not (.cmp op l r)) = ['!', '('] ++ Impl.strExpr (.cmp op l r) ++ [')'] := by rw [Impl.strExpr]
theorem strExpr_not_not (e) : Impl.strExpr (.not (.not e)) = ['!', '('] ++ Impl.strExpr (.not e) ++ [')'] := by rw [Impl.strExpr]
theorem strExpr_not_logical (op l r) : Impl.strExpr (.not (.logical op l r)) = '!' :: Impl.strExpr (.logical op l r) := by rw [Impl.strExpr] <;> (intros; simp_all)
theorem strExpr_not_rel (q) : Impl.strExpr (.not (.rel q)) = '!' :: Impl.strExpr (.rel q) := by rw [Impl.strExpr] <;> (intros; simp_all)
theorem strExpr_not_root (q) : Impl.strExpr (.not (.root q)) = '!' :: Impl.strExpr (.root q) := by rw [Impl.strExpr] <;> (intros; simp_all)
theorem strExpr_not_call (f a) : Impl.strExpr (.not (.call f a)) = '!' :: Impl.strExpr (.call f a) := by rw [Impl.strExpr] <;> (intros; simp_all)
theorem strExpr_and (l r) : Impl.strExpr (.logical .and l r) = ['('] ++ (Impl.strExpr l ++ [' ', '&', '&', ' '] ++ Impl.strExpr r) ++ [')'] := by
  rw [Impl.strExpr]; simp
theorem strExpr_or (l r) : Impl.strExpr (.logical .or l r) = ['('] ++ (Impl.strExpr l ++ [' ', '|', '|', ' '] ++ Impl.strExpr r) ++ [')'] := by
  rw [Impl.strExpr]; simp
theorem strExpr_cmp (op l r) : Impl.strExpr (.cmp op l r) = Impl.strExpr l ++ [' '] ++ Impl.copText op ++ [' '] ++ Impl.strExpr r := by rw [Impl.strExpr]
theorem strExpr_rel (q) : Impl.strExpr (.rel q) = '@' :: Impl.strSegs q := by rw [Impl.strExpr]
theorem strExpr_root (q) : Impl.strExpr (.root q) = '$' :: Impl.strSegs q := by rw [Impl.strExpr]
theorem strExpr_call (f a) : Impl.strExpr (.call f a) = f ++ ['('] ++ Impl.strArgs a ++ [')'] := by rw [Impl.strExpr]

theorem canon_and (p l r) : Impl.canonExpr p (.logical .and l r) =
    if p ≥ 4 then ['('] ++ (Impl.canonExpr 4 l ++ [' ', '&', '&', ' '] ++ Impl.canonExpr 4 r) ++ [')']
    else Impl.canonExpr 4 l ++ [' ', '&', '&', ' '] ++ Impl.canonExpr 4 r := by
  rw [Impl.canonExpr]; rfl
theorem canon_or (p l r) : Impl.canonExpr p (.logical .or l r) =
    if p ≥ 3 then ['('] ++ (Impl.canonExpr 3 l ++ [' ', '|', '|', ' '] ++ Impl.canonExpr 3 r) ++ [')']
    else Impl.canonExpr 3 l ++ [' ', '|', '|', ' '] ++ Impl.canonExpr 3 r := by
  rw [Impl.canonExpr]; rfl
theorem canon_not (p e) : Impl.canonExpr p (.not e) =
    if p ≥ 7 then ['('] ++ ('!' :: Impl.canonExpr 7 e) ++ [')'] else '!' :: Impl.canonExpr 7 e := by
  rw [Impl.canonExpr]; rfl
theorem canon_cmp (p op l r) : Impl.canonExpr p (.cmp op l r) =
    if p > 5 then ['('] ++ Impl.strExpr (.cmp op l r) ++ [')'] else Impl.strExpr (.cmp op l r) := by
  rw [Impl.canonExpr, strExpr_cmp]; rfl
theorem canon_rel (p q) : Impl.canonExpr p (.rel q) = Impl.strExpr (.rel q) := by rw [Impl.canonExpr, Impl.strExpr]
theorem canon_root (p q) : Impl.canonExpr p (.root q) = Impl.strExpr (.root q) := by rw [Impl.canonExpr, Impl.strExpr]
theorem canon_call (p f a) : Impl.canonExpr p (.call f a) = Impl.strExpr (.call f a) := by rw [Impl.canonExpr, Impl.strExpr]

/-- `!` before a parenthesised expression -/
theorem PB.notOfParen {s e} (h : PB ('(' :: s) e) : PB ('!' :: '(' :: s) (.not e) := by
  obtain ⟨_, hp⟩ := h
  refine ⟨⟨'!', _, rfl, by decide, by decide⟩, ?_⟩
  intro rest hr fuel hf
  simp only [List.length_cons] at hf
  obtain ⟨f, rfl⟩ : ∃ f, fuel = f + 2 := ⟨fuel - 2, by omega⟩
  obtain ⟨cx, hcx, hg⟩ := hp rest hr (f + 2) (by simp only [List.length_cons]; omega)
  refine ⟨.not cx, ?_, ?_, ?_⟩
  · rw [List.cons_append, basic_paren] at hcx
    rw [List.cons_append, List.cons_append, basic_bang_paren, hcx]
    rfl
  · rw [Spec.abstractExpr, hg.abs]
  · rw [Spec.cmpShapeExpr, hg.shape]

theorem PB.andParen {sl sr l r} (hl : PB sl l) (hr : PB sr r) :
    PB (['('] ++ (sl ++ [' ', '&', '&', ' '] ++ sr) ++ [')']) (.logical .and l r) :=
  (hl.and hr.toA).toO.paren

theorem PB.orParen {sl sr l r} (hl : PB sl l) (hr : PB sr r) :
    PB (['('] ++ (sl ++ [' ', '|', '|', ' '] ++ sr) ++ [')']) (.logical .or l r) :=
  (hl.toA.or hr.toO).paren

end JPV.Proofs.Pf
