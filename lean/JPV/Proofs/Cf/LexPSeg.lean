/-
`Proofs.Cf.LexPSeg` — the single steps of `Cs.LexSeg` (segment / descendant / shorthand states) at an
arbitrary filter depth `D`, and the fallback of `lex_segment` inside a filter (`D ≠ 0`): hand over to the
filter state.  (`Cs.shorthand_reProperty`, `Cs.nameFirst_*`, `Cs.reWs_none` are depth independent.)
-/
import JPV.Proofs.Cf.LexPSel
import JPV.Proofs.Cs.LexSeg
set_option linter.unusedSimpArgs false
namespace JPV.Proofs.Cf
open JPV JPV.Impl JPV.Proofs.Rq

variable {D : Int} {l : Lexer} {pre cur rest : List Char} {toks : List Token} {br : List (Char × Nat)}

/-! ### single steps -/

theorem lexSegment_dotdot (h : FSt D l pre [] ('.' :: '.' :: rest) toks br) :
    Impl.step .segment l = .ok (l.adv.adv.emit .doubleDot, some .descendant) := by
  have hp : l.peek = some '.' := by rw [h.peek]; rfl
  have hp2 : l.adv.peek = some '.' := by rw [h.adv.peek]; rfl
  have hw := h.ws_none (by simp [isWs])
  simp [Impl.step, lexSegment, hw, Lexer.next_eq, hp, hp2, goto, bind, Except.bind]

theorem lexSegment_dot {c : Char} (h : FSt D l pre [] ('.' :: c :: rest) toks br) (hc : c ≠ '.') :
    Impl.step .segment l = .ok (l.adv, some .shorthand) := by
  have hp : l.peek = some '.' := by rw [h.peek]; rfl
  have hp2 : l.adv.peek = some c := by rw [h.adv.peek]; rfl
  have hw := h.ws_none (by simp [isWs])
  simp [Impl.step, lexSegment, hw, Lexer.next_eq, hp, hp2, goto, bind, Except.bind, hc]

theorem lexDescendant_wild (h : FSt D l pre [] ('*' :: rest) toks br) :
    Impl.step .descendant l = .ok (l.adv.emit .wild, some .segment) := by
  have hp : l.peek = some '*' := by rw [h.peek]; rfl
  simp [Impl.step, lexDescendant, Lexer.next_eq, hp, goto, bind, Except.bind]

theorem lexDescendant_lbracket (h : FSt D l pre [] ('[' :: rest) toks br) :
    Impl.step .descendant l = .ok ((l.adv.emit .lbracket).pushBracket '[' ((l.adv.emit .lbracket).pos - 1),
      some .bracketed) := by
  have hp : l.peek = some '[' := by rw [h.peek]; rfl
  simp [Impl.step, lexDescendant, Lexer.next_eq, hp, goto, bind, Except.bind]

theorem lexDescendant_name {c : Char} {r : List Char} (h : FSt D l pre [] (c :: r) toks br)
    (hc : Impl.isNameFirst c = true) {k : Nat} (hre : reProperty (c :: r) = some k) (hk : k ≤ (c :: r).length) :
    ∃ l', Impl.step .descendant l = .ok (l', some .segment) ∧
      FSt D l' (pre ++ (c :: r).take k) [] ((c :: r).drop k) (⟨.property, (c :: r).take k, pre.length⟩ :: toks) br := by
  have hp : l.peek = some c := by rw [h.peek]; rfl
  obtain ⟨l1, hb, h1⟩ := h.adv.backup
  obtain ⟨l2, hm, h2⟩ := h1.acceptMatch hre hk
  have h3 := h2.emit .property
  obtain ⟨n1, n2, _⟩ := Cs.nameFirst_ne hc
  refine ⟨_, ?_, by simpa using h3⟩
  simp only [Impl.step, lexDescendant, Lexer.next_eq, hp, bind, Except.bind, hb, hm, goto]

theorem lexShorthand_wild (h : FSt D l pre cur ('*' :: rest) toks br) :
    Impl.step .shorthand l = .ok (l.ignore.adv.emit .wild, some .segment) := by
  have h1 := h.ignore
  have hp : l.ignore.peek = some '*' := by rw [h1.peek]; rfl
  have hm : l.ignore.acceptMatch reWhitespace = none := by
    simp [Lexer.acceptMatch, h1.restFrom, Cs.reWs_none (c := '*') (by decide)]
  simp [Impl.step, lexShorthand, Lexer.next_eq, hp, hm, goto, bind, Except.bind]

theorem lexShorthand_name {c : Char} {r : List Char} (h : FSt D l pre cur (c :: r) toks br)
    (hc : Impl.isNameFirst c = true) {k : Nat} (hre : reProperty (c :: r) = some k) (hk : k ≤ (c :: r).length) :
    ∃ l', Impl.step .shorthand l = .ok (l', some .segment) ∧
      FSt D l' (pre ++ cur ++ (c :: r).take k) [] ((c :: r).drop k)
        (⟨.property, (c :: r).take k, (pre ++ cur).length⟩ :: toks) br := by
  have h0 := h.ignore
  have hp : l.ignore.peek = some c := by rw [h0.peek]; rfl
  have hmw : l.ignore.acceptMatch reWhitespace = none := by
    simp [Lexer.acceptMatch, h0.restFrom, Cs.reWs_none (Cs.nameFirst_not_ws hc)]
  obtain ⟨l1, hb, h1⟩ := h0.adv.backup
  obtain ⟨l2, hm, h2⟩ := h1.acceptMatch hre hk
  have h3 := h2.emit .property
  obtain ⟨n1, _, _⟩ := Cs.nameFirst_ne hc
  refine ⟨_, ?_, by simpa using h3⟩
  simp [Impl.step, lexShorthand, Lexer.next_eq, hp, hmw, goto, bind, Except.bind, n1, hb, hm]

/-- the fallback of `lex_segment` inside a filter: any other character ends the embedded query; the
character is put back and the filter state takes over -/
theorem lexSegment_other {c : Char} (h : FSt D l pre [] (c :: rest) toks br) (hD : D ≠ 0)
    (hw : isWs c = false) (h1 : c ≠ '.') (h2 : c ≠ '[') :
    ∃ l', Impl.step .segment l = .ok (l', some .filter) ∧ FSt D l' pre [] (c :: rest) toks br := by
  have hp : l.peek = some c := by rw [h.peek]; rfl
  have hws := h.ws_none (by intro c' hc'; simp at hc'; subst hc'; exact hw)
  obtain ⟨l1, hb, hl1⟩ := h.adv.backup
  have hfd : l.adv.filterDepth ≠ 0 := by rw [h.adv.fd]; exact hD
  refine ⟨l1, ?_, hl1⟩
  simp only [Impl.step, lexSegment, hws, Lexer.next_eq, hp, bind, Except.bind, pure, Except.pure,
    Bool.false_and, Bool.false_eq_true, if_false]
  rw [if_pos hfd, hb]
  rfl

end JPV.Proofs.Cf
