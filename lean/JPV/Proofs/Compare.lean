import JPV.Props.Common
namespace JPV.Proofs
open JPV

/-! ### Induction principle for the nested inductive `Json` -/

-- mutual structural recursion over the nested inductive
mutual
theorem jsonInd {P : Json → Prop}
    (hnull : P .null) (hbool : ∀ b, P (.bool b)) (hnum : ∀ x, P (.num x)) (hstr : ∀ s, P (.str s))
    (harr : ∀ xs : List Json, (∀ x ∈ xs, P x) → P (.arr xs))
    (hobj : ∀ kvs : List (Str × Json), (∀ kv ∈ kvs, P kv.2) → P (.obj kvs)) : ∀ a : Json, P a
  | .null => hnull
  | .bool b => hbool b
  | .num x => hnum x
  | .str s => hstr s
  | .arr xs => harr xs (jsonIndArr hnull hbool hnum hstr harr hobj xs)
  | .obj kvs => hobj kvs (jsonIndObj hnull hbool hnum hstr harr hobj kvs)
theorem jsonIndArr {P : Json → Prop}
    (hnull : P .null) (hbool : ∀ b, P (.bool b)) (hnum : ∀ x, P (.num x)) (hstr : ∀ s, P (.str s))
    (harr : ∀ xs : List Json, (∀ x ∈ xs, P x) → P (.arr xs))
    (hobj : ∀ kvs : List (Str × Json), (∀ kv ∈ kvs, P kv.2) → P (.obj kvs)) :
    ∀ xs : List Json, ∀ x ∈ xs, P x
  | [], _, h => nomatch h
  | y :: ys, x, h => by
      have hy := jsonInd hnull hbool hnum hstr harr hobj y
      have hys := jsonIndArr hnull hbool hnum hstr harr hobj ys
      rcases List.mem_cons.1 h with rfl | h'
      · exact hy
      · exact hys x h'
theorem jsonIndObj {P : Json → Prop}
    (hnull : P .null) (hbool : ∀ b, P (.bool b)) (hnum : ∀ x, P (.num x)) (hstr : ∀ s, P (.str s))
    (harr : ∀ xs : List Json, (∀ x ∈ xs, P x) → P (.arr xs))
    (hobj : ∀ kvs : List (Str × Json), (∀ kv ∈ kvs, P kv.2) → P (.obj kvs)) :
    ∀ kvs : List (Str × Json), ∀ kv ∈ kvs, P kv.2
  | [], _, h => nomatch h
  | (k, v) :: rest, kv, h => by
      have hv := jsonInd hnull hbool hnum hstr harr hobj v
      have hrest := jsonIndObj hnull hbool hnum hstr harr hobj rest
      rcases List.mem_cons.1 h with rfl | h'
      · exact hv
      · exact hrest kv h'
end

/-! ### Well-formedness as membership statements -/

theorem wfArr_iff (xs : List Json) : Json.WFArr xs ↔ ∀ x ∈ xs, x.WF := by
  induction xs with
  | nil => simp [Json.WFArr]
  | cons x xs ih => simp [Json.WFArr, ih]

theorem wfObj_iff (l : List (Str × Json)) : Json.WFObj l ↔ ∀ kv ∈ l, kv.2.WF := by
  induction l with
  | nil => simp [Json.WFObj]
  | cons kv l ih =>
    obtain ⟨k, v⟩ := kv
    simp [Json.WFObj, ih]

/-! ### `lookup` facts -/

theorem mem_of_lookup {k : Str} {v : Json} :
    ∀ {l : List (Str × Json)}, Json.lookup k l = some v → (k, v) ∈ l
  | [], h => by simp [Json.lookup] at h
  | (k', v') :: rest, h => by
      simp only [Json.lookup] at h
      split at h
      · next hk =>
        cases h; subst hk; exact List.mem_cons_self
      · exact List.mem_cons_of_mem _ (mem_of_lookup h)

theorem lookup_of_mem {k : Str} {v : Json} :
    ∀ {l : List (Str × Json)}, (Json.keys l).Nodup → (k, v) ∈ l → Json.lookup k l = some v
  | [], _, h => nomatch h
  | (k', v') :: rest, hnd, h => by
      simp only [Json.keys, List.map_cons, List.nodup_cons] at hnd
      simp only [Json.lookup]
      rcases List.mem_cons.1 h with heq | h'
      · cases heq; simp
      · have hk : k' ≠ k := by
          intro hk; subst hk
          exact hnd.1 (List.mem_map.2 ⟨(k', v), h', rfl⟩)
        rw [if_neg hk]
        exact lookup_of_mem (l := rest) hnd.2 h'

theorem mem_keys_of_lookup {k : Str} {v : Json} {l : List (Str × Json)}
    (h : Json.lookup k l = some v) : k ∈ Json.keys l :=
  List.mem_map.2 ⟨(k, v), mem_of_lookup h, rfl⟩

/-! ### Pigeonhole on duplicate-free lists (core only) -/

theorem length_le_of_nodup_subset {α} [DecidableEq α] :
    ∀ {l r : List α}, l.Nodup → (∀ x ∈ l, x ∈ r) → l.length ≤ r.length
  | [], _, _, _ => Nat.zero_le _
  | a :: l', r, hnd, hsub => by
      rw [List.nodup_cons] at hnd
      have ha : a ∈ r := hsub a List.mem_cons_self
      have hsub' : ∀ x ∈ l', x ∈ r.erase a := by
        intro x hx
        have hne : x ≠ a := by intro h; subst h; exact hnd.1 hx
        exact (List.mem_erase_of_ne hne).2 (hsub x (List.mem_cons_of_mem _ hx))
      have ih := length_le_of_nodup_subset hnd.2 hsub'
      have hl := List.length_erase_of_mem ha
      have hpos : 0 < r.length := List.length_pos_of_mem ha
      simp only [List.length_cons]
      omega

theorem subset_of_nodup_subset_length_le {α} [DecidableEq α] :
    ∀ {l r : List α}, l.Nodup → (∀ x ∈ l, x ∈ r) → r.length ≤ l.length → ∀ x ∈ r, x ∈ l
  | [], r, _, _, hlen => by
      have : r = [] := List.eq_nil_of_length_eq_zero (by simpa using hlen)
      subst this; intro x hx; exact hx
  | a :: l', r, hnd, hsub, hlen => by
      rw [List.nodup_cons] at hnd
      have ha : a ∈ r := hsub a List.mem_cons_self
      have hsub' : ∀ x ∈ l', x ∈ r.erase a := by
        intro x hx
        have hne : x ≠ a := by intro h; subst h; exact hnd.1 hx
        exact (List.mem_erase_of_ne hne).2 (hsub x (List.mem_cons_of_mem _ hx))
      have hl := List.length_erase_of_mem ha
      have hpos : 0 < r.length := List.length_pos_of_mem ha
      have hlen' : (r.erase a).length ≤ l'.length := by
        simp only [List.length_cons] at hlen
        omega
      have ih := subset_of_nodup_subset_length_le hnd.2 hsub' hlen'
      intro x hx
      by_cases hxa : x = a
      · subst hxa; exact List.mem_cons_self
      · exact List.mem_cons_of_mem _ (ih x ((List.mem_erase_of_ne hxa).2 hx))

/-! ### `objSub` / `objEq` characterisations -/

theorem objSub_iff (l r : List (Str × Json)) :
    Spec.objSub l r = true ↔
      ∀ kv ∈ l, ∃ v', Json.lookup kv.1 r = some v' ∧ Spec.jsonEq kv.2 v' = true := by
  induction l with
  | nil => simp [Spec.objSub]
  | cons kv l ih =>
    obtain ⟨k, v⟩ := kv
    simp only [Spec.objSub, Bool.and_eq_true, ih, List.forall_mem_cons]
    constructor
    · rintro ⟨h1, h2⟩
      refine ⟨?_, h2⟩
      cases hlk : Json.lookup k r with
      | none => simp [hlk] at h1
      | some v' => exact ⟨v', rfl, by simpa [hlk] using h1⟩
    · rintro ⟨⟨v', h1, h1'⟩, h2⟩
      refine ⟨?_, h2⟩
      simp [h1, h1']

theorem keys_subset_of_objSub {l r : List (Str × Json)} (h : Spec.objSub l r = true) :
    ∀ k ∈ Json.keys l, k ∈ Json.keys r := by
  intro k hk
  obtain ⟨kv, hkv, rfl⟩ := List.mem_map.1 hk
  obtain ⟨v', hv', _⟩ := (objSub_iff l r).1 h kv hkv
  exact mem_keys_of_lookup hv'

theorem keys_length (l : List (Str × Json)) : (Json.keys l).length = l.length := by
  simp [Json.keys]

/-! ### Impl = Spec on the recursive helpers -/

theorem arrEq_correct_aux :
    ∀ (xs ys : List Json),
      (∀ x ∈ xs, ∀ y, y.WF → Impl.jsonEq x y = Spec.jsonEq x y) →
      Json.WFArr ys → Impl.arrEq xs ys = Spec.arrEq xs ys
  | [], [], _, _ => by simp [Impl.arrEq, Spec.arrEq]
  | [], _ :: _, _, _ => by simp [Impl.arrEq, Spec.arrEq]
  | _ :: _, [], _, _ => by simp [Impl.arrEq, Spec.arrEq]
  | x :: xs, y :: ys, ih, hw => by
      simp only [Json.WFArr] at hw
      simp only [Impl.arrEq, Spec.arrEq]
      rw [ih x List.mem_cons_self y hw.1,
        arrEq_correct_aux xs ys (fun x hx => ih x (List.mem_cons_of_mem _ hx)) hw.2]

theorem objEq_correct_aux (r : List (Str × Json)) (hr : Json.WFObj r) :
    ∀ (l : List (Str × Json)),
      (∀ kv ∈ l, ∀ y, y.WF → Impl.jsonEq kv.2 y = Spec.jsonEq kv.2 y) →
      Impl.objEq l r = Spec.objSub l r
  | [], _ => by simp [Impl.objEq, Spec.objSub]
  | (k, v) :: rest, ih => by
      simp only [Impl.objEq, Spec.objSub]
      rw [objEq_correct_aux r hr rest (fun kv hkv => ih kv (List.mem_cons_of_mem _ hkv))]
      cases hlk : Json.lookup k r with
      | none => rfl
      | some v' =>
        have hw : v'.WF := (wfObj_iff r).1 hr (k, v') (mem_of_lookup hlk)
        simp only
        rw [ih (k, v) List.mem_cons_self v' hw]

theorem all_contains_iff (l r : List Str) :
    (l.all (fun k => r.contains k)) = true ↔ ∀ k ∈ l, k ∈ r := by
  simp [List.all_eq_true]

-- the object case: mutual key inclusion vs. equal length, given the member-wise check
theorem objCase (l r : List (Str × Json))
    (hl : (Json.keys l).Nodup) (hr : (Json.keys r).Nodup) :
    ((Json.keys l).all (fun k => (Json.keys r).contains k)
      && (Json.keys r).all (fun k => (Json.keys l).contains k)
      && Spec.objSub l r) = (l.length == r.length && Spec.objSub l r) := by
  cases hs : Spec.objSub l r with
  | false => simp
  | true =>
    have hsub := keys_subset_of_objSub hs
    rw [Bool.and_true, Bool.and_true, Bool.eq_iff_iff]
    simp only [Bool.and_eq_true, all_contains_iff, beq_iff_eq]
    constructor
    · rintro ⟨h1, h2⟩
      have a := length_le_of_nodup_subset hl h1
      have b := length_le_of_nodup_subset hr h2
      rw [keys_length, keys_length] at a b
      omega
    · intro hlen
      refine ⟨hsub, ?_⟩
      apply subset_of_nodup_subset_length_le hl hsub
      rw [keys_length, keys_length]; omega

theorem jsonEq_correct (a b : Json) (ha : a.WF) (hb : b.WF) :
    Impl.jsonEq a b = Spec.jsonEq a b := by
  induction a using jsonInd generalizing b with
  | hnull => cases b <;> simp [Impl.jsonEq, Spec.jsonEq]
  | hbool x => cases b <;> simp [Impl.jsonEq, Spec.jsonEq]
  | hnum x => cases b <;> simp [Impl.jsonEq, Spec.jsonEq]
  | hstr x => cases b <;> simp [Impl.jsonEq, Spec.jsonEq]
  | harr xs ih =>
    cases b with
    | arr ys =>
      simp only [Impl.jsonEq, Spec.jsonEq]
      simp only [Json.WF] at ha hb
      exact arrEq_correct_aux xs ys
        (fun x hx y hy => ih x hx y ((wfArr_iff xs).1 ha x hx) hy) hb
    | _ => simp [Impl.jsonEq, Spec.jsonEq]
  | hobj l ih =>
    cases b with
    | obj r =>
      simp only [Impl.jsonEq, Spec.jsonEq]
      simp only [Json.WF] at ha hb
      rw [objEq_correct_aux r hb.2 l
        (fun kv hkv y hy => ih kv hkv y ((wfObj_iff l).1 ha.2 kv hkv) hy)]
      exact objCase l r ha.1 hb.1
    | _ => simp [Impl.jsonEq, Spec.jsonEq]

/-! ### Reflexivity -/

theorem arrEq_refl_aux : ∀ xs : List Json, (∀ x ∈ xs, Spec.jsonEq x x = true) →
    Spec.arrEq xs xs = true
  | [], _ => by simp [Spec.arrEq]
  | x :: xs, h => by
      simp only [Spec.arrEq, Bool.and_eq_true]
      exact ⟨h x List.mem_cons_self,
        arrEq_refl_aux xs (fun y hy => h y (List.mem_cons_of_mem _ hy))⟩

theorem numBeq_refl (x : Num) : x.beq x = true := by
  simp only [Num.beq]
  split <;> simp

theorem specJsonEq_refl (a : Json) (ha : a.WF) : Spec.jsonEq a a = true := by
  induction a using jsonInd with
  | hnull => simp [Spec.jsonEq]
  | hbool x => simp [Spec.jsonEq]
  | hnum x => simp [Spec.jsonEq, numBeq_refl]
  | hstr x => simp [Spec.jsonEq]
  | harr xs ih =>
    simp only [Spec.jsonEq]
    simp only [Json.WF] at ha
    exact arrEq_refl_aux xs (fun x hx => ih x hx ((wfArr_iff xs).1 ha x hx))
  | hobj l ih =>
    simp only [Spec.jsonEq, Bool.and_eq_true, beq_self_eq_true, true_and]
    simp only [Json.WF] at ha
    rw [objSub_iff]
    intro kv hkv
    exact ⟨kv.2, lookup_of_mem ha.1 hkv, ih kv hkv ((wfObj_iff l).1 ha.2 kv hkv)⟩

/-! ### Symmetry -/

theorem numBeq_symm (x y : Num) : x.beq y = y.beq x := by
  simp only [Num.beq]
  by_cases h : x.d = 0 ∧ y.d = 0
  · have h' : y.d = 0 ∧ x.d = 0 := ⟨h.2, h.1⟩
    rw [if_pos h, if_pos h', Bool.eq_iff_iff]
    simp only [beq_iff_eq]
    exact eq_comm
  · have h' : ¬ (y.d = 0 ∧ x.d = 0) := fun hh => h ⟨hh.2, hh.1⟩
    rw [if_neg h, if_neg h', Bool.eq_iff_iff]
    simp only [beq_iff_eq]
    exact eq_comm

theorem arrEq_symm_aux : ∀ (xs ys : List Json),
    (∀ x ∈ xs, ∀ y, y.WF → Spec.jsonEq x y = Spec.jsonEq y x) → Json.WFArr ys →
    Spec.arrEq xs ys = Spec.arrEq ys xs
  | [], [], _, _ => rfl
  | [], _ :: _, _, _ => by simp [Spec.arrEq]
  | _ :: _, [], _, _ => by simp [Spec.arrEq]
  | x :: xs, y :: ys, ih, hw => by
      simp only [Json.WFArr] at hw
      simp only [Spec.arrEq]
      rw [ih x List.mem_cons_self y hw.1,
        arrEq_symm_aux xs ys (fun x hx => ih x (List.mem_cons_of_mem _ hx)) hw.2]

theorem objSub_symm_aux (l r : List (Str × Json))
    (hl : (Json.keys l).Nodup) (hr : (Json.keys r).Nodup) (hlen : l.length = r.length)
    (hv : ∀ kv ∈ l, ∀ kv' ∈ r, Spec.jsonEq kv.2 kv'.2 = true → Spec.jsonEq kv'.2 kv.2 = true)
    (hs : Spec.objSub l r = true) : Spec.objSub r l = true := by
  have hsub := keys_subset_of_objSub hs
  have hsup : ∀ k ∈ Json.keys r, k ∈ Json.keys l := by
    apply subset_of_nodup_subset_length_le hl hsub
    rw [keys_length, keys_length]; omega
  rw [objSub_iff]
  intro kv hkv
  have hk : kv.1 ∈ Json.keys l := hsup _ (List.mem_map.2 ⟨kv, hkv, rfl⟩)
  obtain ⟨kv0, hkv0, hk0⟩ := List.mem_map.1 hk
  obtain ⟨v', hv', he⟩ := (objSub_iff l r).1 hs kv0 hkv0
  have h1 : Json.lookup kv0.1 r = some kv.2 := by
    rw [hk0]; exact lookup_of_mem hr hkv
  have hvv : v' = kv.2 := by
    rw [hv'] at h1; exact Option.some.inj h1
  subst hvv
  refine ⟨kv0.2, ?_, hv kv0 hkv0 kv hkv he⟩
  rw [← hk0]
  exact lookup_of_mem hl hkv0

theorem specJsonEq_symm (a b : Json) (ha : a.WF) (hb : b.WF) :
    Spec.jsonEq a b = Spec.jsonEq b a := by
  induction a using jsonInd generalizing b with
  | hnull => cases b <;> simp [Spec.jsonEq]
  | hbool x =>
    cases b <;> simp [Spec.jsonEq]
    rw [Bool.eq_iff_iff]; simp only [beq_iff_eq]; exact eq_comm
  | hnum x =>
    cases b <;> simp [Spec.jsonEq]
    exact numBeq_symm _ _
  | hstr x =>
    cases b <;> simp [Spec.jsonEq]
    rw [Bool.eq_iff_iff]; simp only [beq_iff_eq]; exact eq_comm
  | harr xs ih =>
    cases b with
    | arr ys =>
      simp only [Spec.jsonEq]
      simp only [Json.WF] at ha hb
      exact arrEq_symm_aux xs ys
        (fun x hx y hy => ih x hx y ((wfArr_iff xs).1 ha x hx) hy) hb
    | _ => simp [Spec.jsonEq]
  | hobj l ih =>
    cases b with
    | obj r =>
      simp only [Spec.jsonEq]
      simp only [Json.WF] at ha hb
      have ih' : ∀ kv ∈ l, ∀ kv' ∈ r, Spec.jsonEq kv.2 kv'.2 = Spec.jsonEq kv'.2 kv.2 :=
        fun kv hkv kv' hkv' =>
          ih kv hkv kv'.2 ((wfObj_iff l).1 ha.2 kv hkv) ((wfObj_iff r).1 hb.2 kv' hkv')
      rw [Bool.eq_iff_iff]
      simp only [Bool.and_eq_true, beq_iff_eq]
      constructor
      · rintro ⟨hlen, hs⟩
        exact ⟨hlen.symm, objSub_symm_aux l r ha.1 hb.1 hlen
          (fun kv hkv kv' hkv' h => by rw [← ih' kv hkv kv' hkv']; exact h) hs⟩
      · rintro ⟨hlen, hs⟩
        exact ⟨hlen.symm, objSub_symm_aux r l hb.1 ha.1 hlen
          (fun kv' hkv' kv hkv h => by rw [ih' kv hkv kv' hkv']; exact h) hs⟩
    | _ => simp [Spec.jsonEq]

/-! ### Remaining table facts -/

theorem jsonEq_bool_iff (b : Bool) (j : Json) :
    Impl.jsonEq (.bool b) j = true ↔ j = .bool b := by
  cases j <;> simp [Impl.jsonEq]
  exact eq_comm

theorem lt_only_num_str (a b : Json)
    (h : ¬ ((∃ x y, a = .num x ∧ b = .num y) ∨ (∃ x y, a = .str x ∧ b = .str y))) :
    Impl.ltObj (.val a) (.val b) = false := by
  cases a <;> cases b <;> simp [Impl.ltObj] at h ⊢

theorem ltObj_val (a b : Json) : Impl.ltObj (.val a) (.val b) = Spec.jsonLt a b := by
  cases a <;> cases b <;> simp [Impl.ltObj, Spec.jsonLt]

theorem compare_correct (a b : Impl.Obj) (op : COp) (ha : Props.Comparand a) (hb : Props.Comparand b)
    (wa : Props.ObjWF a) (wb : Props.ObjWF b) :
    Impl.compare a op b = Spec.compare (Props.floorObj a) op (Props.floorObj b) := by
  cases ha <;> cases hb <;> cases op <;>
    first
    | (simp only [Props.ObjWF] at wa wb
       simp only [Impl.compare, Spec.compare, Impl.eqObj, Props.floorObj,
         Spec.valEq, Spec.valLt, ltObj_val, jsonEq_correct _ _ wa wb])
    | simp [Impl.compare, Spec.compare, Impl.eqObj, Impl.ltObj, Props.floorObj,
        Spec.valEq, Spec.valLt]

end JPV.Proofs
