import JPV.Proofs.Pc.IntRTExact
import JPV.Proofs.PrinterInt
namespace JPV.Proofs.Pc
open JPV JPV.Proofs.Prn

theorem allDigits_of (ds : List Char) (hne : ds ≠ []) (hd : ∀ c ∈ ds, Spec.isDIGIT c = true) :
    Py.allDigits ds = true := by
  unfold Py.allDigits
  cases ds with
  | nil => exact absurd rfl hne
  | cons a t =>
    simp only [List.isEmpty_cons, Bool.not_false, Bool.true_and, List.all_eq_true]
    exact hd

theorem parseDecimal_pos (ds : List Char) (hne : ds ≠ []) (hd : ∀ c ∈ ds, Spec.isDIGIT c = true)
    (hv : Py.digitsToNat ds ≠ 0) : Py.parseDecimal ds = some (false, Py.digitsToNat ds, 1) := by
  have htw : ds.takeWhile (fun c => '0' ≤ c && c ≤ '9') = ds := by
    have := takeWhile_append_of (fun c => '0' ≤ c && c ≤ '9') ds [] hd (by simp)
    simpa using this
  have had := allDigits_of ds hne hd
  unfold Py.parseDecimal
  split
  rename_i x neg s heq
  have : neg = false ∧ s = ds := by
    split at heq
    · rename_i r
      have := hd '-' (by simp)
      exact absurd this (by decide)
    · cases heq; exact ⟨rfl, rfl⟩
  obtain ⟨rfl, rfl⟩ := this
  simp only [htw, List.drop_length, had]
  have hnn := Int.natCast_nonneg (toString (Py.digitsToNat s)).length
  rw [if_neg (by decide), if_neg hv, if_neg (by decide), if_neg (by omega), if_pos (by decide)]
  simp only [Int.toNat_zero, Nat.pow_zero, Nat.mul_one]

theorem parseDecimal_neg (ds : List Char) (hne : ds ≠ []) (hd : ∀ c ∈ ds, Spec.isDIGIT c = true)
    (hv : Py.digitsToNat ds ≠ 0) :
    Py.parseDecimal ('-' :: ds) = some (true, Py.digitsToNat ds, 1) := by
  have htw : ds.takeWhile (fun c => '0' ≤ c && c ≤ '9') = ds := by
    have := takeWhile_append_of (fun c => '0' ≤ c && c ≤ '9') ds [] hd (by simp)
    simpa using this
  have had := allDigits_of ds hne hd
  unfold Py.parseDecimal
  split
  rename_i x neg s heq
  have : neg = true ∧ s = ds := by
    simp only [Prod.mk.injEq] at heq
    exact ⟨heq.1.symm, heq.2.symm⟩
  obtain ⟨rfl, rfl⟩ := this
  simp only [htw, List.drop_length, had]
  have hnn := Int.natCast_nonneg (toString (Py.digitsToNat s)).length
  rw [if_neg (by decide), if_neg hv, if_neg (by decide), if_neg (by omega), if_pos (by decide)]
  simp only [Int.toNat_zero, Nat.pow_zero, Nat.mul_one]

end JPV.Proofs.Pc
