/-
`Proofs.Float.Defs` — shared definitions for the float round trip (`repr(float)` then `float(text)`):
the predicate `IsDouble`, the text layout of `Py.reprPos` as a function of the digits found (`layout`),
the comparison `ge10` used by `Py.decimalExponent`, and `Py.reprPos` / `Py.decimalExponent` restated with them.
-/
import JPV.Py
namespace JPV.Proofs.Float
open JPV

/-- A `Num` that is a finite binary64 value in the representation `Py.floatOfText` produces: the two zeros
`0/1` (`0.0`) and `0/2` (`-0.0`), or `± m·2^e` (`0 < m < 2^53`, `-1074 ≤ e ≤ 971`) as a fraction `n/d` in lowest
terms (`n·2^(-e)⁺ = m·2^(e)⁺·d` says `n/d = m·2^e`). -/
def IsDouble (x : Num) : Prop :=
  x.flt = true ∧
  ((x.n = 0 ∧ (x.d = 1 ∨ x.d = 2)) ∨
   ∃ (m : Nat) (e : Int), 0 < m ∧ m < 2 ^ 53 ∧ -1074 ≤ e ∧ e ≤ 971 ∧ Nat.gcd x.n.natAbs x.d = 1 ∧
     x.n.natAbs * 2 ^ (-e).toNat = m * 2 ^ e.toNat * x.d)

/-- the text `Py.reprPos` lays out for the decimal digits `m` and decimal point position `decpt` -/
def layout (m : Nat) (decpt : Int) : Str :=
  let ds := Py.stripTrailingZeros (Py.natDigits m)
  let ds := if ds.isEmpty then ['0'] else ds
  let nd : Int := ds.length
  if decpt > 16 ∨ decpt < -3 then
    let mant := match ds with
      | [c] => [c]
      | c :: rest => c :: '.' :: rest
      | [] => ['0']
    let ex := decpt - 1
    let exs := Py.natDigits ex.natAbs
    let exs := if exs.length < 2 then '0' :: exs else exs
    mant ++ ['e', if ex < 0 then '-' else '+'] ++ exs
  else if decpt ≤ 0 then
    "0.".toList ++ List.replicate (-decpt).toNat '0' ++ ds
  else if nd ≤ decpt then
    ds ++ List.replicate (decpt - nd).toNat '0' ++ ".0".toList
  else
    ds.take decpt.toNat ++ ['.'] ++ ds.drop decpt.toNat

theorem reprPos_eq (n d : Nat) (h : n ≠ 0) :
    Py.reprPos n d =
      layout (Py.reprPos.find n d (Py.roundBinary64 n d) 17 1).1 (Py.reprPos.find n d (Py.roundBinary64 n d) 17 1).2 := by
  unfold Py.reprPos
  rw [if_neg h]
  rfl

/-- `n/d ≥ 10^e` -/
def ge10 (n d : Nat) (e : Int) : Bool :=
  if e ≥ 0 then n ≥ d * 10 ^ e.toNat else n * 10 ^ (-e).toNat ≥ d

theorem decimalExponent_eq (n d : Nat) :
    Py.decimalExponent n d =
      Py.decimalExponent.down (ge10 n d) 8
        (Py.decimalExponent.up (ge10 n d) 8 (((Nat.log2 n : Int) - (Nat.log2 d : Int)) * 30103 / 100000 - 2)) := by
  rfl

/-- the candidate `Py.reprPos.find` reads back: the double nearest to `m·10^(e-k)` -/
def backOf (m : Nat) (e : Int) (k : Nat) : Option (Nat × Int) :=
  if (e - (k : Int)) ≥ 0 then Py.roundBinary64 (m * 10 ^ (e - k).toNat) 1
  else Py.roundBinary64 m (10 ^ ((k : Int) - e).toNat)

theorem find_zero (n d : Nat) (t : Option (Nat × Int)) (k : Nat) :
    Py.reprPos.find n d t 0 k = Py.toDigits n d 17 := rfl

theorem find_succ (n d : Nat) (t : Option (Nat × Int)) (f k : Nat) :
    Py.reprPos.find n d t (f + 1) k =
      if backOf (Py.toDigits n d k).1 (Py.toDigits n d k).2 k = t ∨ k ≥ 17 then Py.toDigits n d k
      else Py.reprPos.find n d t f (k + 1) := by
  rfl

/-- the value `Py.parseDecimal` builds from the digits `mant` and the decimal exponent `x'` -/
def mkDec (neg : Bool) (mant : Nat) (x' : Int) : Bool × Nat × Nat :=
  let nd : Int := (toString mant).length
  if mant = 0 then (neg, 0, 1)
  else if x' > 400 then (neg, 10 ^ 400, 1)
  else if x' + nd < -400 then (neg, 1, 10 ^ 400)
  else if x' ≥ 0 then (neg, mant * 10 ^ x'.toNat, 1) else (neg, mant, 10 ^ (-x').toNat)

end JPV.Proofs.Float
