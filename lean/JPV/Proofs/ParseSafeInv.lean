/-
`Proofs.ParseInv` — every parser function keeps the token-stream invariant `SInv`, so every
`JSONPathError` raised by `compile` carries a token of the query (never the synthetic
`eofTok`/`initTok` of `TokenStream`).
-/
import JPV.Proofs.ParseSafe
namespace JPV.Impl
open JPV
variable {G : Token → Prop} {env : Env} {fuel : Nat}

theorem parseQuery_step (ih : AllSafe G env fuel) (inFilter acc) :
    T G true (parseQuery env inFilter (fuel + 1) acc) (fun _ => True) false := by
  rw [parseQuery]
  t_auto

theorem parseSelectors_step (ih : AllSafe G env fuel) (b) :
    T G b (parseSelectors env (fuel + 1)) (fun _ => True) false := by
  rw [parseSelectors]
  t_auto

theorem parseFilterSelector_step (ih : AllSafe G env fuel) (b) :
    T G b (parseFilterSelector env (fuel + 1)) (fun _ => True) false := by
  rw [parseFilterSelector]
  t_auto

theorem parseByHandler_step (ih : AllSafe G env fuel) (b h) :
    T G b (parseByHandler env h (fuel + 1)) (fun x => G x.tok) false := by
  cases h <;> rw [parseByHandler] <;> t_auto
  all_goals (intro h; cases h)

theorem filterExprLoop_step (ih : AllSafe G env fuel) (b prec left) (hl : G left.tok) :
    T G b (filterExprLoop env prec (fuel + 1) left) (fun x => G x.tok) false := by
  rw [filterExprLoop]
  t_auto

theorem parseInfix_step (ih : AllSafe G env fuel) (b left) (hl : G left.tok) :
    T G b (parseInfix env left (fuel + 1)) (fun x => G x.tok) false := by
  rw [parseInfix]
  t_auto

theorem parsePrefix_step (ih : AllSafe G env fuel) (b) :
    T G b (parsePrefix env (fuel + 1)) (fun x => G x.tok) false := by
  rw [parsePrefix]
  t_auto

theorem parseGrouped_step (ih : AllSafe G env fuel) (b) :
    T G b (parseGrouped env (fuel + 1)) (fun x => G x.tok) false := by
  rw [parseGrouped]
  t_auto

theorem groupedLoop_step (ih : AllSafe G env fuel) (b x) (hx : G x.tok) :
    T G b (groupedLoop env (fuel + 1) x) (fun x => G x.tok) false := by
  rw [groupedLoop]
  t_auto

theorem parseFunction_step (ih : AllSafe G env fuel) (b) :
    T G b (parseFunction env (fuel + 1)) (fun x => G x.tok) false := by
  rw [parseFunction]
  t_auto

theorem functionArgs_step (ih : AllSafe G env fuel) (b args parens) :
    T G b (functionArgs env (fuel + 1) args parens) (fun _ => True) false := by
  rw [functionArgs]
  t_auto

theorem functionArgInfix_step (ih : AllSafe G env fuel) (b x) (hx : G x.tok) :
    T G b (functionArgInfix env (fuel + 1) x) (fun x => G x.tok) false := by
  rw [functionArgInfix]
  t_auto


theorem parseFilterExpr_step (ih : AllSafe G env fuel) (b prec) :
    T G b (parseFilterExpr env prec (fuel + 1)) (fun x => G x.tok) false := by
  rw [parseFilterExpr]
  t_step
  refine T_bind (Q₁ := fun x => G x.tok) (b₁ := false) ?_ ?_
  · split
    · t_auto
    · refine T_tryCatch (ih.parseByHandler _ _) ?_
      intro e he
      split
      · t_auto
      · exact T_throw he
  · intro _ _
    t_auto

theorem parseBracketed_step (ih : AllSafe G env fuel) (b open_ acc) (ho : G open_) :
    T G b (parseBracketed env open_ (fuel + 1) acc) (fun _ => True) false := by
  rw [parseBracketed]
  t_step
  split
  · t_auto
  · refine T_bind (Q₁ := fun _ => True) (b₁ := false) ?_ ?_
    · t_auto
    · intro _ _
      t_auto


theorem allSafe (G : Token → Prop) (env : Env) : ∀ fuel, AllSafe G env fuel := by
  intro fuel
  induction fuel with
  | zero =>
    constructor
    all_goals intros
    · rw [parseQuery]; exact T_outOfFuel
    · rw [parseSelectors]; exact T_outOfFuel
    · rw [parseBracketed]; exact T_outOfFuel
    · rw [parseFilterSelector]; exact T_outOfFuel
    · rw [parseByHandler]; exact T_outOfFuel
    · rw [parseFilterExpr]; exact T_outOfFuel
    · rw [filterExprLoop]; exact T_outOfFuel
    · rw [parseInfix]; exact T_outOfFuel
    · rw [parsePrefix]; exact T_outOfFuel
    · rw [parseGrouped]; exact T_outOfFuel
    · rw [groupedLoop]; exact T_outOfFuel
    · rw [parseFunction]; exact T_outOfFuel
    · rw [functionArgs]; exact T_outOfFuel
    · rw [functionArgInfix]; exact T_outOfFuel
  | succ fuel ih =>
    exact
      { parseQuery := parseQuery_step ih
        parseSelectors := parseSelectors_step ih
        parseBracketed := parseBracketed_step ih
        parseFilterSelector := parseFilterSelector_step ih
        parseByHandler := parseByHandler_step ih
        parseFilterExpr := parseFilterExpr_step ih
        filterExprLoop := filterExprLoop_step ih
        parseInfix := parseInfix_step ih
        parsePrefix := parsePrefix_step ih
        parseGrouped := parseGrouped_step ih
        groupedLoop := groupedLoop_step ih
        parseFunction := parseFunction_step ih
        functionArgs := functionArgs_step ih
        functionArgInfix := functionArgInfix_step ih }

theorem T_parseTop (G : Token → Prop) (env : Env) (fuel : Nat) :
    T G false (parseTop env fuel) (fun _ => True) false := by
  have ih := allSafe G env fuel
  unfold parseTop
  t_auto

/-- a token list of good tokens ending with an EOF-kind token gives a stream satisfying the invariant -/
theorem SInv.init {toks : List Token} (hg : ∀ t ∈ toks, G t)
    (hl : ∃ t, toks.getLast? = some t ∧ t.kind = .eof) : SInv G (TStream.init toks) := by
  obtain ⟨t, hl, hk⟩ := hl
  cases toks with
  | nil => simp at hl
  | cons x xs =>
    have : TStream.init (x :: xs) = { cur := x, pushed := [], rest := xs } := by
      simp [TStream.init, TStream.next, initTok]
    rw [this]
    exact ⟨by simpa [TStream.all] using hg, by simp, t, by simpa [TStream.all] using hl, hk⟩

theorem compile_err (env : Env) (s : Str) (e : Err) (h : compile env s = .error e) :
    ErrOK s.length e := by
  have hspec := tokenize_spec s
  unfold compile at h
  cases htk : tokenize s with
  | error e' =>
    rw [htk] at hspec h
    cases h
    exact hspec
  | ok toks =>
    rw [htk] at hspec h
    simp only at h
    have hinit : SInv (TokOK s.length) (TStream.init toks) := SInv.init hspec.1 hspec.2
    have := T_parseTop (TokOK s.length) env (parseFuel toks.length) _ hinit (fun h => by cases h)
    change (exec _ _).1 = _ at h
    rcases hx : exec (parseTop env (parseFuel toks.length)) (TStream.init toks) with ⟨r, st'⟩
    rw [hx] at this h
    simp only at h
    subst h
    exact this.2

end JPV.Impl
