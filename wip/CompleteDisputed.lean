import JPV.Proofs.CompleteFull
namespace JPV.Proofs
open JPV JPV.Impl

/-- completeness also for the strings the recogniser marks `disputed` (blank space inside the brackets of a
singular query used as a comparison operand, where RFC 9535's ABNF and its errata disagree, D28): the
implementation accepts them too, with the derivation's query -/
theorem compile_complete_disputed (env : Env) (s : Str) (c : List Spec.CSegment)
    (hj : Spec.judge (sigsOfEnv' env) env.minIdx env.maxIdx s = (.disputed, some c)) :
    Impl.compile env s = .ok (Spec.abstractSegs c) := by
  sorry

end JPV.Proofs
