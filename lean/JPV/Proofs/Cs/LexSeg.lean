/-
`Proofs.Cs.LexSeg` — segments of the grammar, lexed: dot shorthand, descendant forms, brackets.
-/
import JPV.Proofs.Cs.LexSel
set_option linter.unusedSimpArgs false
namespace JPV.Proofs.Cs
open JPV JPV.Impl JPV.Proofs.Rq

variable {l : Lexer} {pre cur rest : List Char} {toks : List Token} {br : List (Char × Nat)}

/-! ### names -/

theorem take_spanLen (p : Char → Bool) (l : List Char) : l.take (spanLen p l) = l.takeWhile p := by
  induction l with
  | nil => rfl
  | cons c cs ih =>
    simp only [spanLen, List.takeWhile]
    cases p c <;> simp [ih, Nat.add_comm 1]

theorem shorthand_reProperty {inp r : List Char} {s : Str} (h : Spec.shorthand inp = some (s, r)) :
    ∃ c t, inp = c :: t ∧ Impl.isNameFirst c = true ∧ reProperty inp = some s.length ∧
      inp.take s.length = s ∧ inp.drop s.length = r := by
  unfold Spec.shorthand at h
  split at h
  · rename_i c t
    split at h
    · rename_i hc
      simp only [Option.some.injEq, Prod.mk.injEq] at h
      obtain ⟨rfl, rfl⟩ := h
      refine ⟨c, t, rfl, hc, ?_, ?_, ?_⟩
      · simp only [reProperty, isNameFirst_eq, hc, if_true, spanLen_eq, List.length_cons]
        rw [Nat.add_comm]; rfl
      · simp [← spanLen_eq, take_spanLen]
      · simp
    · simp at h
  · simp at h

theorem nameFirst_not_ws {c : Char} (h : Impl.isNameFirst c = true) : isWs c = false := by
  cases hw : isWs c with
  | false => rfl
  | true =>
    have : ((c = ' ' ∨ c = '\n') ∨ c = '\r') ∨ c = '\t' := by simpa [isWs] using hw
    rcases this with ((rfl | rfl) | rfl) | rfl <;> revert h <;> decide

theorem nameFirst_ne {c : Char} (h : Impl.isNameFirst c = true) : c ≠ '*' ∧ c ≠ '[' ∧ c ≠ '.' := by
  refine ⟨?_, ?_, ?_⟩ <;> rintro rfl <;> revert h <;> decide

theorem reWs_none {c : Char} {r : List Char} (h : isWs c = false) : reWhitespace (c :: r) = none := by
  simp [reWhitespace, spanLen, h]

/-! ### single steps -/

theorem lexSegment_dotdot (h : St l pre [] ('.' :: '.' :: rest) toks br) :
    Impl.step .segment l = .ok (l.adv.adv.emit .doubleDot, some .descendant) := by
  have hp : l.peek = some '.' := by rw [h.peek]; rfl
  have hp2 : l.adv.peek = some '.' := by rw [h.adv.peek]; rfl
  have hw := h.ws_none (by simp [isWs])
  simp [Impl.step, lexSegment, hw, Lexer.next_eq, hp, hp2, goto, bind, Except.bind]

theorem lexSegment_dot {c : Char} (h : St l pre [] ('.' :: c :: rest) toks br) (hc : c ≠ '.') :
    Impl.step .segment l = .ok (l.adv, some .shorthand) := by
  have hp : l.peek = some '.' := by rw [h.peek]; rfl
  have hp2 : l.adv.peek = some c := by rw [h.adv.peek]; rfl
  have hw := h.ws_none (by simp [isWs])
  simp [Impl.step, lexSegment, hw, Lexer.next_eq, hp, hp2, goto, bind, Except.bind, hc]

theorem lexDescendant_wild (h : St l pre [] ('*' :: rest) toks br) :
    Impl.step .descendant l = .ok (l.adv.emit .wild, some .segment) := by
  have hp : l.peek = some '*' := by rw [h.peek]; rfl
  simp [Impl.step, lexDescendant, Lexer.next_eq, hp, goto, bind, Except.bind]

theorem lexDescendant_lbracket (h : St l pre [] ('[' :: rest) toks br) :
    Impl.step .descendant l = .ok ((l.adv.emit .lbracket).pushBracket '[' ((l.adv.emit .lbracket).pos - 1),
      some .bracketed) := by
  have hp : l.peek = some '[' := by rw [h.peek]; rfl
  simp [Impl.step, lexDescendant, Lexer.next_eq, hp, goto, bind, Except.bind]

theorem lexDescendant_name {c : Char} {r : List Char} (h : St l pre [] (c :: r) toks br)
    (hc : Impl.isNameFirst c = true) {k : Nat} (hre : reProperty (c :: r) = some k) (hk : k ≤ (c :: r).length) :
    ∃ l', Impl.step .descendant l = .ok (l', some .segment) ∧
      St l' (pre ++ (c :: r).take k) [] ((c :: r).drop k) (⟨.property, (c :: r).take k, pre.length⟩ :: toks) br := by
  have hp : l.peek = some c := by rw [h.peek]; rfl
  obtain ⟨l1, hb, h1⟩ := h.adv.backup
  obtain ⟨l2, hm, h2⟩ := h1.acceptMatch hre hk
  have h3 := h2.emit .property
  obtain ⟨n1, n2, _⟩ := nameFirst_ne hc
  refine ⟨_, ?_, by simpa using h3⟩
  simp only [Impl.step, lexDescendant, Lexer.next_eq, hp, bind, Except.bind, hb, hm, goto]

theorem lexShorthand_wild (h : St l pre cur ('*' :: rest) toks br) :
    Impl.step .shorthand l = .ok (l.ignore.adv.emit .wild, some .segment) := by
  have h1 := h.ignore
  have hp : l.ignore.peek = some '*' := by rw [h1.peek]; rfl
  have hm : l.ignore.acceptMatch reWhitespace = none := by
    simp [Lexer.acceptMatch, h1.restFrom, reWs_none (c := '*') (by decide)]
  simp [Impl.step, lexShorthand, Lexer.next_eq, hp, hm, goto, bind, Except.bind]

theorem lexShorthand_name {c : Char} {r : List Char} (h : St l pre cur (c :: r) toks br)
    (hc : Impl.isNameFirst c = true) {k : Nat} (hre : reProperty (c :: r) = some k) (hk : k ≤ (c :: r).length) :
    ∃ l', Impl.step .shorthand l = .ok (l', some .segment) ∧
      St l' (pre ++ cur ++ (c :: r).take k) [] ((c :: r).drop k)
        (⟨.property, (c :: r).take k, (pre ++ cur).length⟩ :: toks) br := by
  have h0 := h.ignore
  have hp : l.ignore.peek = some c := by rw [h0.peek]; rfl
  have hmw : l.ignore.acceptMatch reWhitespace = none := by
    simp [Lexer.acceptMatch, h0.restFrom, reWs_none (nameFirst_not_ws hc)]
  obtain ⟨l1, hb, h1⟩ := h0.adv.backup
  obtain ⟨l2, hm, h2⟩ := h1.acceptMatch hre hk
  have h3 := h2.emit .property
  obtain ⟨n1, _, _⟩ := nameFirst_ne hc
  refine ⟨_, ?_, by simpa using h3⟩
  simp [Impl.step, lexShorthand, Lexer.next_eq, hp, hmw, goto, bind, Except.bind, n1, hb, hm]

/-! ### one segment -/

/-- a segment of the grammar, lexed from the segment state (no leading blank space) back to it -/
theorem lex_segment {f : Nat} {inp rest : List Char} {seg : Spec.CSegment}
    (h : Spec.segment (f + 1) inp = some (seg, rest)) (hff : ffSeg seg = true)
    (hst : St l pre [] inp toks br) :
    ∃ lm sm l' pre' ts, Impl.step .segment l = .ok (lm, some sm) ∧ Reach sm lm .segment l' ∧
      St l' pre' [] rest (ts.reverse ++ toks) br ∧ SegShape seg ts := by
  cases inp with
  | nil =>
    rw [Spec.segment] at h
    · simp at h
    all_goals (intro r e; cases e)
  | cons c t =>
    by_cases hc : c = '.'
    · subst hc
      cases t with
      | nil =>
        rw [Spec.segment] at h
        · simp [Spec.shorthand] at h
        · intro r e; cases e
        · intro r e; cases e
      | cons d t =>
        by_cases hd : d = '.'
        · -- descendant segment
          subst hd
          have s1 := lexSegment_dotdot hst
          have h1 := hst.adv.adv.emit .doubleDot
          simp only [List.nil_append, List.cons_append] at h1
          cases t with
          | nil =>
            rw [Spec.segment] at h
            · simp [Spec.shorthand] at h
            · intro r e; cases e
            · intro r e; cases e
          | cons e t =>
            by_cases he : e = '*'
            · subst he
              rw [Spec.segment] at h
              simp only [Option.some.injEq, Prod.mk.injEq] at h
              obtain ⟨rfl, rfl⟩ := h
              have s2 := lexDescendant_wild h1
              have h2 := h1.adv.emit .wild
              exact ⟨_, _, _, _, [_, _], s1, .one s2, by simpa using h2, .descWild _ _⟩
            · by_cases hb : e = '['
              · subst hb
                rw [Spec.segment] at h
                cases f with
                | zero => rw [Spec.bracketed] at h; simp at h
                | succ f' =>
                  cases hbr : Spec.bracketed (f' + 1) ('[' :: t) with
                  | none => simp [hbr] at h
                  | some p =>
                    obtain ⟨sels, fl, r2⟩ := p
                    simp only [hbr, Option.map_some, Option.some.injEq, Prod.mk.injEq] at h
                    obtain ⟨rfl, rfl⟩ := h
                    have s2 := lexDescendant_lbracket h1
                    have h2 := (h1.adv.emit .lbracket).pushBracket '[' (((l.adv.adv.emit .doubleDot).adv.emit .lbracket).pos - 1)
                    simp only [List.nil_append] at h2
                    obtain ⟨l3, pre3, ts, k, r3, h3, hsh⟩ := lex_brk_body hbr hff h2
                    refine ⟨_, _, l3, pre3, ⟨.doubleDot, ['.', '.'], pre.length⟩ :: ⟨.lbracket, ['['], (pre ++ ['.', '.']).length⟩ ::
                      (ts ++ [⟨.rbracket, [']'], k⟩]), s1, .step s2 r3, ?_, .descBrack sels ts _ _ _ hsh⟩
                    simpa using h3
              · rw [Spec.segment] at h
                · cases hsh : Spec.shorthand (e :: t) with
                  | none => simp [hsh] at h
                  | some p =>
                    obtain ⟨s, r2⟩ := p
                    simp only [hsh, Option.map_some, Option.some.injEq, Prod.mk.injEq] at h
                    obtain ⟨rfl, rfl⟩ := h
                    obtain ⟨c', t', e1, hnf, hre, e2, e3⟩ := shorthand_reProperty hsh
                    simp only [List.cons.injEq] at e1
                    obtain ⟨rfl, rfl⟩ := e1
                    obtain ⟨l2, s2, h2⟩ := lexDescendant_name h1 hnf hre (by rw [← e2, List.length_take]; exact Nat.min_le_right _ _)
                    rw [e2, e3] at h2
                    exact ⟨_, _, l2, _, [_, _], s1, .one s2, by simpa using h2, .descName _ _ _⟩
                · intro r e'; simp only [List.cons.injEq] at e'; exact he e'.1
                · intro r e'; simp only [List.cons.injEq] at e'; exact hb e'.1
        · have s1 := lexSegment_dot hst hd
          have h1 := hst.adv
          simp only [List.nil_append] at h1
          by_cases hw : d = '*'
          · subst hw
            rw [Spec.segment] at h
            · simp only [Option.some.injEq, Prod.mk.injEq] at h
              obtain ⟨rfl, rfl⟩ := h
              have s2 := lexShorthand_wild h1
              have h2 := h1.ignore.adv.emit .wild
              exact ⟨_, _, _, _, [_], s1, .one s2, by simpa using h2, .dotWild _⟩
          · rw [Spec.segment] at h
            · cases hsh : Spec.shorthand (d :: t) with
              | none => simp [hsh] at h
              | some p =>
                obtain ⟨s, r2⟩ := p
                simp only [hsh, Option.map_some, Option.some.injEq, Prod.mk.injEq] at h
                obtain ⟨rfl, rfl⟩ := h
                obtain ⟨c', t', e1, hnf, hre, e2, e3⟩ := shorthand_reProperty hsh
                simp only [List.cons.injEq] at e1
                obtain ⟨rfl, rfl⟩ := e1
                obtain ⟨l2, s2, h2⟩ := lexShorthand_name h1 hnf hre (by rw [← e2, List.length_take]; exact Nat.min_le_right _ _)
                rw [e2, e3] at h2
                exact ⟨_, _, l2, _, [_], s1, .one s2, by simpa using h2, .dotName _ _⟩
            · intro r e'; simp only [List.cons.injEq] at e'; exact hd e'.1
            · intro r e'; simp only [List.cons.injEq] at e'; exact hw e'.1
    · by_cases hb : c = '['
      · subst hb
        rw [Spec.segment] at h
        cases f with
        | zero => rw [Spec.bracketed] at h; simp at h
        | succ f' =>
          cases hbr : Spec.bracketed (f' + 1) ('[' :: t) with
          | none => simp [hbr] at h
          | some p =>
            obtain ⟨sels, fl, r2⟩ := p
            simp only [hbr, Option.map_some, Option.some.injEq, Prod.mk.injEq] at h
            obtain ⟨rfl, rfl⟩ := h
            have s1 := lexSegment_lbracket hst
            have h2 := (hst.adv.emit .lbracket).pushBracket '[' ((l.adv.emit .lbracket).pos - 1)
            simp only [List.nil_append] at h2
            obtain ⟨l3, pre3, ts, k, r3, h3, hsh⟩ := lex_brk_body hbr hff h2
            refine ⟨_, _, l3, pre3, ⟨.lbracket, ['['], pre.length⟩ :: (ts ++ [⟨.rbracket, [']'], k⟩]), s1, r3, ?_,
              .brack sels fl ts _ _ hsh⟩
            simpa using h3
      · rw [Spec.segment] at h
        · simp at h
        · intro r e'; simp only [List.cons.injEq] at e'; exact hc e'.1
        · intro r e'; simp only [List.cons.injEq] at e'; exact hc e'.1
        · intro r e'; simp only [List.cons.injEq] at e'; exact hc e'.1
        · intro r e'; simp only [List.cons.injEq] at e'; exact hb e'.1

end JPV.Proofs.Cs
