"""Tie A: regenerate lean/JPV/Generated.lean from /repo's working tree.

Tables are read from the imported package where a value is what matters
(precedences, operator maps, regex sources, limits, signatures, exception
hierarchy), from the source AST where structure is what matters (attribute stores
outside `__init__`, calls into `random`, the arguments of the regex engine calls),
and by running the code over a finite domain where behaviour is what matters (the
CLI's error handling: every exception class at every step, with and without --debug).  Failure to extract is reported by raising
`TieABroken`; the caller treats that like a broken proof, never skips it.
"""
from __future__ import annotations

import ast
import os
import sys

REPO = os.environ.get("JPV_REPO", "/repo")
VERIF = os.path.dirname(os.path.dirname(os.path.abspath(__file__)))
OUT = os.path.join(VERIF, "lean", "JPV", "Generated.lean")


class TieABroken(Exception):
    pass


def lstr(s: str) -> str:
    out = ['"']
    for ch in s:
        o = ord(ch)
        if ch == '"':
            out.append('\\"')
        elif ch == "\\":
            out.append("\\\\")
        elif ch == "\n":
            out.append("\\n")
        elif ch == "\t":
            out.append("\\t")
        elif ch == "\r":
            out.append("\\r")
        elif o < 0x20 or o == 0x7F:
            out.append("\\x%02x" % o)
        else:
            out.append(ch)
    out.append('"')
    return "".join(out)


def llist(items) -> str:
    return "[" + ", ".join(items) + "]"


def lint(i: int) -> str:
    return f"({i})" if i < 0 else str(i)


def extract():
    if REPO not in sys.path:
        sys.path.insert(0, REPO)
    try:
        import jsonpath_rfc9535 as jp
        from jsonpath_rfc9535 import exceptions as ex
        from jsonpath_rfc9535 import filter_expressions as fe
        from jsonpath_rfc9535 import lex
        from jsonpath_rfc9535.function_extensions import FilterFunction
        from jsonpath_rfc9535.parse import Parser
        from jsonpath_rfc9535.tokens import TokenType
    except Exception as err:  # noqa: BLE001
        raise TieABroken(f"cannot import the package: {err!r}") from err

    t = {}
    try:
        env = jp.JSONPathEnvironment()
        parser = env.parser
        t["precedences"] = sorted((k.name, int(v)) for k, v in Parser.PRECEDENCES.items())
        t["precConsts"] = sorted(
            (n, int(getattr(Parser, n))) for n in dir(Parser) if n.startswith("PRECEDENCE_")
        )
        t["binaryOperators"] = sorted((k.name, v) for k, v in Parser.BINARY_OPERATORS.items())
        t["comparisonOperators"] = sorted(Parser.COMPARISON_OPERATORS)
        t["tokenMap"] = sorted((k.name, v.__name__) for k, v in parser.token_map.items())
        t["functionArgumentMap"] = sorted(
            (k.name, v.__name__) for k, v in parser.function_argument_map.items()
        )
        t["serPrecConsts"] = sorted(
            (n, int(getattr(fe, n))) for n in dir(fe) if n.startswith("PRECEDENCE_")
        )
        t["regexes"] = sorted(
            (n, getattr(lex, n).pattern) for n in dir(lex) if n.startswith("RE_")
        )
        t["regexFlags"] = sorted(
            (n, int(getattr(lex, n).flags)) for n in dir(lex) if n.startswith("RE_")
        )
        t["escapes"] = sorted(lex.ESCAPES)
        t["tokenTypes"] = [m.name for m in TokenType]
        cls = jp.JSONPathEnvironment
        t["envDefaults"] = [
            ("max_int_index", int(cls.max_int_index)),
            ("min_int_index", int(cls.min_int_index)),
            ("max_recursion_depth", int(cls.max_recursion_depth)),
            ("nondeterministic", int(bool(cls.nondeterministic))),
        ]
        b = []
        for name, fn in sorted(env.function_extensions.items()):
            if not isinstance(fn, FilterFunction):
                raise TieABroken(f"builtin {name} is not a FilterFunction")
            b.append((name, type(fn).__name__, [a.name for a in fn.arg_types], fn.return_type.name))
        t["builtins"] = b
        exc = []
        for n in sorted(dir(ex)):
            o = getattr(ex, n)
            if isinstance(o, type) and issubclass(o, BaseException) and o.__module__ == ex.__name__:
                exc.append((n, [c.__name__ for c in o.__mro__[1:] if c.__module__ == ex.__name__]))
        t["excParents"] = exc
    except TieABroken:
        raise
    except Exception as err:  # noqa: BLE001
        raise TieABroken(f"table extraction failed: {err!r}") from err

    t.update(extract_ast())
    t.update(extract_cli_behaviour())
    t.update(extract_regex_behaviour())
    t.update(extract_random_behaviour())
    return t


def extract_random_behaviour():
    """Which functions of the `random` module evaluation calls, and with what shape of arguments, obtained by EXECUTING a
    fixed corpus of queries in deterministic and in nondeterministic mode with every public callable of the module
    replaced by a recorder (constructors of generator objects included): deterministic mode must not touch `random`
    at all; nondeterministic mode calls exactly shuffle(list), choice([True, False]) and sample(population, len(population))
    — the three the choice-script model covers, through the module-level names the scripted chooser replaces."""
    try:
        import random

        import jsonpath_rfc9535 as jp

        names = [n for n in dir(random) if not n.startswith("_") and callable(getattr(random, n))]
        saved = {n: getattr(random, n) for n in names}
        queries = ["$.*", "$..*", "$[?@]", "$..[?@.a]", "$.a[*]", "$..a", "$[?@..b]", "$[*]..[*]", "$[?count(@.*) > 0]", "$['a','b']", "$[0:2]", "$..[0]"]
        docs = [{"a": [1, {"b": 2, "c": [3]}], "d": {"e": 1, "f": {"g": 0, "b": 5}}, "h": 7}, [[1, [2]], {"a": {"a": 1, "b": 2}}, "s"], {"a": 1, "b": 2, "c": 3}, [1, 2, 3], 5]
        rows = []
        try:
            for mode, nd in (("deterministic", False), ("nondeterministic", True)):
                seen = set()

                def make(n):
                    def rec(*a, **kw):
                        shape = n
                        if n == "choice":
                            shape += ":" + repr(list(a[0])) if a else ":?"
                        elif n == "sample":
                            pop = list(a[0]) if a else []
                            k = a[1] if len(a) > 1 else kw.get("k")
                            shape += ":k=len(population)" if k == len(pop) else ":k=other"
                        elif n == "shuffle":
                            shape += ":" + type(a[0]).__name__ if a else ":?"
                        seen.add(shape)
                        return saved[n](*a, **kw)
                    return rec

                for n in names:
                    setattr(random, n, make(n))
                env = type("TieEnv", (jp.JSONPathEnvironment,), {"nondeterministic": nd})()
                for q in queries:
                    for d in docs:
                        try:
                            env.find(q, d)
                        except jp.JSONPathError:
                            pass
                for n in names:
                    setattr(random, n, saved[n])
                rows += [(mode, "random." + sh, 1) for sh in sorted(seen)]
        finally:
            for n, f in saved.items():
                setattr(random, n, f)
        return {"randomCalls": rows}
    except TieABroken:
        raise
    except Exception as err:  # noqa: BLE001
        raise TieABroken(f"random behaviour extraction failed: {err!r}") from err


def extract_regex_behaviour():
    """How match() / search() use the regular-expression engine, obtained by EXECUTING them with the engine's entry
    points replaced by recorders (an earlier syntactic table of the call sites in match.py / search.py broke, with no
    failing input to show, when a behaviour-preserving refactoring moved the calls into a shared helper): which
    engine function is called for a valid pattern, with how many arguments and which extra ones (flags), and — for
    each exception class of a finite list — whether an exception raised by the engine is swallowed (the call returns
    False) or propagates."""
    try:
        import regex
        from jsonpath_rfc9535.function_extensions.match import Match
        from jsonpath_rfc9535.function_extensions.search import Search

        names = ["fullmatch", "search", "match", "compile", "finditer", "findall", "sub", "split"]
        saved = {n: getattr(regex, n) for n in names}
        rows = []
        counter = [0]

        def fresh():
            counter[0] += 1
            return "tie%da.c" % counter[0]

        try:
            for label, fn in (("match", Match()), ("search", Search())):
                seen = []

                def make(n):
                    def rec(*a, **kw):
                        seen.append((n, len(a) + len(kw), [repr(x) for x in a[2:]] + [f"{k}={v!r}" for k, v in sorted(kw.items())]))
                        return saved[n](*a, **kw)
                    return rec

                for n in names:
                    setattr(regex, n, make(n))
                pat = fresh()
                fn(pat.replace(".", "x"), pat)
                for n, argc, extra in seen:
                    rows.append((label, "calls " + n, argc, extra))
                swallowed = []
                for exc in (TypeError, regex.error, ValueError, KeyError, IndexError, RecursionError, AttributeError, OverflowError):
                    def boom(*a, _exc=exc, **kw):
                        raise _exc("tie probe") if _exc is not regex.error else regex.error("tie probe")
                    for n in names:
                        setattr(regex, n, boom)
                    try:
                        r = fn("subject", fresh())
                        if r is False:
                            swallowed.append("error" if exc is regex.error else exc.__name__)
                        else:
                            swallowed.append("returned-" + repr(r))
                    except BaseException:  # noqa: BLE001
                        pass
                rows.append((label, "swallows", len(swallowed), swallowed))
        finally:
            for n, f in saved.items():
                setattr(regex, n, f)
        return {"reCalls": rows}
    except TieABroken:
        raise
    except Exception as err:  # noqa: BLE001
        raise TieABroken(f"regex behaviour extraction failed: {err!r}") from err


def extract_cli_behaviour():
    """The CLI's decision table, obtained by running cli.handle_path_command itself once for every
    (stage, exception class, --debug) of a finite domain: the step of that stage is made to raise an instance of
    the class (compile / find / values by wrapping the library's own methods, load by handing json.load an
    undecodable document), and what the command does is recorded: exit status, lines on stderr, whether the
    exception escaped (a traceback), whether anything reached the output.  One more run with nothing raising
    records the data flow query -> compile -> load -> find -> values -> output.  Exhaustive over that domain, so
    it survives any rewrite of the handlers that keeps their behaviour; assumes only that a handler's behaviour
    depends on the class of the exception and not on its message."""
    import argparse  # noqa: F401
    import contextlib
    import io
    import json
    import tempfile

    try:
        import jsonpath_rfc9535 as jp
        from jsonpath_rfc9535 import cli
        from jsonpath_rfc9535 import exceptions as ex
        from jsonpath_rfc9535.tokens import Token, TokenType

        classes = []
        for n in sorted(dir(ex)):
            o = getattr(ex, n)
            if isinstance(o, type) and issubclass(o, BaseException) and o.__module__ == ex.__name__:
                classes.append(o)
        tok = Token(TokenType.ERROR, "x", 0, "$.a")

        def make(cls):
            try:
                return cls("boom", token=tok)
            except TypeError:
                return cls("boom")

        Env, Query, NodeList = jp.JSONPathEnvironment, jp.JSONPathQuery, jp.JSONPathNodeList
        orig = (Env.compile, Query.find, NodeList.values)
        work = os.path.join(VERIF, ".work")
        os.makedirs(work, exist_ok=True)
        rows = []
        trace = []

        def run(stage, exc, debug, doc_bytes=b'{"a": [1, 2]}', log=None):
            def compile_(self, query, *a, **k):
                if log is not None:
                    log.append("compile:" + query)
                if stage == "compile":
                    raise exc
                return orig[0](self, query, *a, **k)

            def find_(self, data, *a, **k):
                if log is not None:
                    log.append("find:" + json.dumps(data, sort_keys=True))
                if stage == "find":
                    raise exc
                return orig[1](self, data, *a, **k)

            def values_(self, *a, **k):
                if stage == "values":
                    raise exc
                r = orig[2](self, *a, **k)
                if log is not None:
                    log.append("values:" + json.dumps(r, sort_keys=True))
                return r

            with tempfile.NamedTemporaryFile(dir=work, suffix=".json", delete=False) as fd:
                fd.write(doc_bytes)
                dpath = fd.name
            out, err = io.StringIO(), io.StringIO()
            code, escaped = 0, False
            Env.compile, Query.find, NodeList.values = compile_, find_, values_
            try:
                args = cli.setup_parser().parse_args((["--debug"] if debug else []) + ["-q", "$.a", "-f", dpath])
                args.output = out
                with contextlib.redirect_stderr(err), contextlib.redirect_stdout(io.StringIO()):
                    try:
                        args.func(args)
                    except SystemExit as e:
                        code = e.code if isinstance(e.code, int) else (0 if e.code is None else 1)
                    except BaseException:  # noqa: BLE001
                        code, escaped = 1, True
            finally:
                Env.compile, Query.find, NodeList.values = orig
                try:
                    args.file.close()
                except Exception:  # noqa: BLE001
                    pass
                os.unlink(dpath)
            if log is not None:
                log.append("output:" + out.getvalue())
            return (code, 0 if escaped else err.getvalue().count("\n"), escaped, out.getvalue() != "")

        for debug in (False, True):
            for stage in ("compile", "find", "values"):
                for cls in classes:
                    rows.append((stage, cls.__name__, debug, run(stage, make(cls), debug)))
            rows.append(("load", "JSONDecodeError", debug, run("load", None, debug, doc_bytes=b'{"a": ')))
            rows.append(("load", "UnicodeDecodeError", debug, run("load", None, debug, doc_bytes=b'{"a": "\xff"}')))
        ok = run("ok", None, False, log=trace)
        rows.append(("ok", "", False, ok))
        return {"cliBehaviour": rows, "cliTrace": trace}
    except TieABroken:
        raise
    except Exception as err:  # noqa: BLE001
        raise TieABroken(f"CLI behaviour extraction failed: {err!r}") from err


def _src(rel):
    with open(os.path.join(REPO, "jsonpath_rfc9535", rel), encoding="utf8") as fd:
        return fd.read()


def _name(node) -> str:
    if isinstance(node, ast.Name):
        return node.id
    if isinstance(node, ast.Attribute):
        return _name(node.value) + "." + node.attr
    if isinstance(node, ast.Tuple):
        return "(" + ",".join(_name(e) for e in node.elts) + ")"
    if isinstance(node, ast.Call):
        return _name(node.func) + "()"
    if isinstance(node, ast.Subscript):
        return _name(node.value) + "[]"
    return type(node).__name__


def extract_ast():
    t = {}
    try:
        # --- attribute stores and calls into `random`, per function, for every module
        writes = []
        randoms = []
        pkg = os.path.join(REPO, "jsonpath_rfc9535")
        for root, _dirs, files in os.walk(pkg):
            for f in sorted(files):
                if not f.endswith(".py"):
                    continue
                rel = os.path.relpath(os.path.join(root, f), pkg)
                if rel.startswith("utils" + os.sep):
                    continue
                tr = ast.parse(open(os.path.join(root, f), encoding="utf8").read())
                _scan(tr, rel, [], writes, randoms)
        t["writes"] = sorted(set(writes))
        # (the use of `random` is no longer read off the syntax — counting call sites per file broke, with no failing
        # input to show, when a behaviour-preserving refactoring merged two shuffles into one helper — but EXECUTED:
        # extract_random_behaviour)
    except TieABroken:
        raise
    except Exception as err:  # noqa: BLE001
        raise TieABroken(f"AST extraction failed: {err!r}") from err
    return t


MUTATORS = ("append", "extend", "pop", "popleft", "clear", "update", "setdefault", "insert",
            "remove", "sort", "reverse", "add", "discard", "appendleft", "popitem")


def _local_fresh(node):
    fresh = set()
    params = {a.arg for a in node.args.args + node.args.kwonlyargs + node.args.posonlyargs}
    for sub in ast.walk(node):
        if isinstance(sub, (ast.Assign, ast.AnnAssign)):
            val = sub.value
            tgts = sub.targets if isinstance(sub, ast.Assign) else [sub.target]
            is_fresh = isinstance(val, (ast.List, ast.Dict, ast.Set, ast.ListComp, ast.DictComp, ast.SetComp)) or (
                isinstance(val, ast.Call) and _name(val.func) in ("list", "dict", "set", "deque", "collections.deque")
            )
            for t in tgts:
                if isinstance(t, ast.Name):
                    (fresh.add if is_fresh else fresh.discard)(t.id) if is_fresh or t.id not in fresh else None
    return fresh - params


def _fresh_params(tree):
    """For every private (single-underscore) function or method of a module: the parameters that receive, at EVERY call
    site in that module, a name the caller bound to a freshly built container (or such a parameter of the caller's own)
    — extracting a loop over a local stack or queue into a helper does not make the container outlive the call.
    Greatest fixed point; a helper that is never called in its module gets nothing."""
    funcs = {}
    for n in ast.walk(tree):
        if isinstance(n, (ast.FunctionDef, ast.AsyncFunctionDef)) and n.name.startswith("_") and not n.name.startswith("__"):
            ps = [a.arg for a in n.args.posonlyargs + n.args.args]
            if ps and ps[0] in ("self", "cls"):
                ps = ps[1:]
            funcs[n.name] = ps
    result = {name: set(ps) for name, ps in funcs.items()}
    called = set()
    for _ in range(4):
        for fn in ast.walk(tree):
            if not isinstance(fn, (ast.FunctionDef, ast.AsyncFunctionDef)):
                continue
            fresh = _local_fresh(fn) | result.get(fn.name, set())
            for c in ast.walk(fn):
                if not isinstance(c, ast.Call):
                    continue
                nm = c.func.attr if isinstance(c.func, ast.Attribute) else (c.func.id if isinstance(c.func, ast.Name) else None)
                if nm not in funcs:
                    continue
                called.add(nm)
                ps = funcs[nm]
                for i, a in enumerate(c.args):
                    if i < len(ps) and not (isinstance(a, ast.Name) and a.id in fresh):
                        result[nm].discard(ps[i])
                for kw in c.keywords:
                    if kw.arg in result[nm] and not (isinstance(kw.value, ast.Name) and kw.value.id in fresh):
                        result[nm].discard(kw.arg)
    return {name: (ps if name in called else set()) for name, ps in result.items()}


class _Scanner(ast.NodeVisitor):
    """Record, with the enclosing function's qualified name, every attribute or
    subscript store, `global`/`nonlocal`, mutating container call (outside
    `__init__`) and every call into the `random` module."""

    def __init__(self, rel, writes, randoms):
        self.rel = rel
        self.scope = []
        self.writes = writes
        self.randoms = randoms
        self.fresh_stack = []
        self.fresh_params = {}

    def visit_Module(self, node):
        self.fresh_params = _fresh_params(node)
        self.generic_visit(node)

    def _qual(self):
        return self.rel + ":" + ".".join(self.scope)

    def _in_init(self):
        return bool(self.scope) and self.scope[-1] == "__init__"

    def visit_FunctionDef(self, node):
        self.scope.append(node.name)
        # names bound in this function to a freshly built container: mutating them is local to the call; so is mutating
        # a parameter of a PRIVATE helper every call site of which (in this module) hands it such a fresh local
        self.fresh_stack.append(_local_fresh(node) | self.fresh_params.get(node.name, set()))
        self.generic_visit(node)
        self.fresh_stack.pop()
        self.scope.pop()

    visit_AsyncFunctionDef = visit_FunctionDef

    def visit_ClassDef(self, node):
        self.scope.append(node.name)
        self.generic_visit(node)
        self.scope.pop()

    def _targets(self, tg):
        for sub in ast.walk(tg):
            if isinstance(sub, ast.Attribute) and isinstance(sub.ctx, ast.Store) and not self._in_init():
                self.writes.append((self._qual(), _name(sub)))
            if isinstance(sub, ast.Subscript) and isinstance(sub.ctx, ast.Store):
                self.writes.append((self._qual(), _name(sub.value) + "[]"))

    def visit_Assign(self, node):
        for tg in node.targets:
            self._targets(tg)
        self.generic_visit(node)

    def visit_AugAssign(self, node):
        self._targets(node.target)
        self.generic_visit(node)

    def visit_AnnAssign(self, node):
        self._targets(node.target)
        self.generic_visit(node)

    def visit_Delete(self, node):
        for tg in node.targets:
            self.writes.append((self._qual(), "del " + _name(tg)))
        self.generic_visit(node)

    def visit_Global(self, node):
        for n in node.names:
            self.writes.append((self._qual(), "global " + n))

    visit_Nonlocal = visit_Global

    def visit_Call(self, node):
        nm = _name(node.func)
        if nm.startswith("random."):
            self.randoms.append((self._qual(), nm))
        if nm.split(".")[-1] in MUTATORS and not self._in_init():
            target = nm.rsplit(".", 1)[0]
            local_fresh = "." not in target and any(target in f for f in self.fresh_stack[-1:])
            if not local_fresh:
                self.writes.append((self._qual(), "call " + nm))
        if nm in ("setattr", "object.__setattr__"):
            self.writes.append((self._qual(), "call " + nm))
        self.generic_visit(node)


def _scan(tree, rel, _scope, writes, randoms):
    _Scanner(rel, writes, randoms).visit(tree)


def render(t) -> str:
    L = []
    L.append("/-")
    L.append("GENERATED by harness/gen_tables.py from /repo's working tree on every run (Tie A).")
    L.append("Do not edit; `JPV/TablesCheck.lean` proves the model agrees with these tables.")
    L.append("-/")
    L.append("namespace JPV.Generated")
    L.append("")

    def pairs_sn(name, ps):
        L.append(f"def {name} : List (String × Int) := " + llist(f"({lstr(a)}, {lint(b)})" for a, b in ps))

    def pairs_ss(name, ps):
        L.append(f"def {name} : List (String × String) := " + llist(f"({lstr(a)}, {lstr(b)})" for a, b in ps))

    def strs(name, xs):
        L.append(f"def {name} : List String := " + llist(lstr(x) for x in xs))

    pairs_sn("precedences", t["precedences"])
    pairs_sn("precConsts", t["precConsts"])
    pairs_ss("binaryOperators", t["binaryOperators"])
    strs("comparisonOperators", t["comparisonOperators"])
    pairs_ss("tokenMap", t["tokenMap"])
    pairs_ss("functionArgumentMap", t["functionArgumentMap"])
    pairs_sn("serPrecConsts", t["serPrecConsts"])
    pairs_ss("regexes", t["regexes"])
    pairs_sn("regexFlags", t["regexFlags"])
    strs("escapes", t["escapes"])
    strs("tokenTypes", t["tokenTypes"])
    pairs_sn("envDefaults", t["envDefaults"])
    L.append(
        "def builtins : List (String × String × List String × String) := "
        + llist(f"({lstr(n)}, {lstr(c)}, {llist(lstr(a) for a in ats)}, {lstr(r)})" for n, c, ats, r in t["builtins"])
    )
    L.append(
        "def excParents : List (String × List String) := "
        + llist(f"({lstr(n)}, {llist(lstr(p) for p in ps)})" for n, ps in t["excParents"])
    )
    L.append(
        "def cliBehaviour : List (String × String × Bool × (Nat × Nat × Bool × Bool)) := "
        + llist(
            f"({lstr(st)}, {lstr(c)}, {'true' if d else 'false'}, ({r[0]}, {r[1]}, {'true' if r[2] else 'false'}, {'true' if r[3] else 'false'}))"
            for st, c, d, r in t["cliBehaviour"]
        )
    )
    strs("cliTrace", t["cliTrace"])
    L.append(
        "def reCalls : List (String × String × Nat × List String) := "
        + llist(f"({lstr(a)}, {lstr(b)}, {c}, {llist(lstr(x) for x in d)})" for a, b, c, d in t["reCalls"])
    )
    pairs_ss("writes", t["writes"])
    L.append("def randomCalls : List (String × String × Nat) := " + llist(f"({lstr(a)}, {lstr(b)}, {n})" for a, b, n in t["randomCalls"]))
    L.append("")
    L.append("end JPV.Generated")
    return "\n".join(L) + "\n"


def main(write=True):
    t = extract()
    text = render(t)
    if write:
        old = None
        if os.path.exists(OUT):
            with open(OUT, encoding="utf8") as fd:
                old = fd.read()
        if old != text:
            with open(OUT, "w", encoding="utf8") as fd:
                fd.write(text)
    return t, text


if __name__ == "__main__":
    try:
        _t, text = main()
    except TieABroken as err:
        print("TIE-A-BROKEN:", err)
        sys.exit(3)
    sys.stdout.write(text)
