/-
`Proofs.CompleteFull` — PARSER COMPLETENESS for the whole RFC 9535 language (filter selectors included), for
EVERY environment: the lexer simulation (`Cf.tokenize_full`) composed with the parser execution
(`Cf.parse_top_full`).  No hypothesis on the registered function names is needed: the lexer's keyword patterns
`true(?![a-z_0-9(])` etc. (`Impl.reKeyword`) reject the keyword reading of `truex(`, `null_(`, `true(`, and a
keyword literal of a derivable filter is followed by blank space, an operator, `)`, `,` or `]`
(`Cf.TFollow.kwEnd`).
-/
import JPV.Impl.Parse
import JPV.Spec.Grammar
import JPV.Spec.Valid
import JPV.Spec.Typing
import JPV.Proofs.Cf.LexTop
import JPV.Proofs.Cf.ParseTop
import JPV.Proofs.Cf.Mono
import JPV.Proofs.ParseFuel
namespace JPV.Proofs
open JPV JPV.Impl

/-- C03 at full strength: every string that the RFC 9535 grammar derives (`Spec.parseQuery`, filters
included, parentheses kept in the derivation tree) and that is valid under the RFC's rules for the
environment's own function signatures and integer range (`Spec.judge … = (.valid, some c)`) compiles, and the
query the implementation builds is the derivation's abstraction. -/
theorem compile_complete (env : Env) (s : Str) (c : List Spec.CSegment)
    (hj : Spec.judge (sigsOfEnv' env) env.minIdx env.maxIdx s = (.valid, some c)) :
    Impl.compile env s = .ok (Spec.abstractSegs c) := by
  -- unpack the judge
  have hpv : Spec.parseQuery s = .valid c ∧
      (Spec.cSegs (sigsOfEnv' env) env.minIdx env.maxIdx c).1 = true := by
    unfold Spec.judge at hj
    split at hj
    · cases hj
    · rename_i q hq
      simp only [Prod.mk.injEq, Option.some.injEq] at hj
      obtain ⟨h1, rfl⟩ := hj
      refine ⟨hq, ?_⟩
      cases hr : (Spec.cSegs (sigsOfEnv' env) env.minIdx env.maxIdx q).1 with
      | true => rfl
      | false => simp [hr] at h1
    · rename_i q hq
      simp only [Prod.mk.injEq, Option.some.injEq] at hj
      obtain ⟨h1, rfl⟩ := hj
      split at h1 <;> cases h1
  obtain ⟨hp, hv⟩ := hpv
  obtain ⟨ts, k0, ke, hsh, htok⟩ := Cf.tokenize_full s c hp
  obtain ⟨F0, hF0⟩ := Cf.parse_top_full env hsh hv ⟨.root, ['$'], k0⟩ ⟨.eof, [], ke⟩ rfl rfl
  unfold Impl.compile
  rw [htok]
  simp only
  generalize htoks : (⟨.root, ['$'], k0⟩ :: (ts ++ [⟨.eof, [], ke⟩]) : List Token) = toks at *
  -- the result with the implementation's fuel is not a fuel error, so it is the result with large fuel
  have hbig := hF0 (max F0 (parseFuel toks.length)) (Nat.le_max_left _ _)
  have hl : ∃ t, toks.getLast? = some t ∧ t.kind = .eof := by
    subst htoks
    refine ⟨⟨.eof, [], ke⟩, ?_, rfl⟩
    rw [← List.cons_append, List.getLast?_append]
    rfl
  cases hr : (exec (parseTop env (parseFuel toks.length)) (TStream.init toks)).1 with
  | ok q =>
    have := Cf.parseTop_mono env _ _ (Nat.le_max_right F0 _) _ _ hr (by intro e he; cases he)
    rw [hbig] at this
    exact hr.trans this.symm ▸ rfl
  | error e =>
    have hnf : e.kind ≠ .fuel := parseTop_no_fuel env toks hl e hr
    have := Cf.parseTop_mono env _ _ (Nat.le_max_right F0 _) _ _ hr
      (by intro e' he'; cases he'; exact hnf)
    rw [hbig] at this
    cases this

end JPV.Proofs
