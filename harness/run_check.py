#!/venv/bin/python
"""Entry point of every registered check:  run_check.py <property> --tier quick|thorough

Steps (DESIGN §5): regenerate tables (Tie A) -> lake build of the property's
theorems + table obligations -> axiom audit + forbidden-construct grep ->
correspondence (Tie B) and oracle search on the real code -> verdict, evidence.

Exit 0: property held on everything explored and every obligation checks.
Exit 1: `VIOLATION property=<id> replay=<path>` (ending in no-failing-input-found
        when a proof/tie is broken but no failing input was found).
Exit 2: infrastructure trouble (never a VIOLATION line).
"""
from __future__ import annotations

import argparse
import json
import os
import random
import sys
import time
import traceback

HERE = os.path.dirname(os.path.abspath(__file__))
sys.path.insert(0, HERE)
os.environ.setdefault("JPV_REPO", "/repo")

import framework as fw  # noqa: E402


def registry():
    import props

    return props.PROPS


def main(argv=None):
    ap = argparse.ArgumentParser()
    ap.add_argument("prop")
    ap.add_argument("--tier", default=os.environ.get("VERIF_TIER", "quick"), choices=["quick", "thorough"])
    ap.add_argument("--replay", default=None)
    ap.add_argument("--skip-build", action="store_true", help="development only")
    args = ap.parse_args(argv)
    seed = int(os.environ.get("VERIF_SEED", "0") or 0)
    t0 = time.time()
    # measured from before the package is first imported, so that module-level statements count as executed
    ccov = fw.CodeCoverage()
    ccov.start()
    PROPS = registry()
    if args.prop not in PROPS:
        print(f"unknown property {args.prop}")
        return 2
    spec = PROPS[args.prop]
    if args.replay:
        return replay(args.prop, spec, args.replay)

    proof_problems = []
    checker_note = None
    discharged = 0
    obligations = spec["theorems"] + spec.get("tables", [])
    # 1. Tie A
    ok, detail = fw.regenerate_tables()
    if not ok:
        proof_problems.append(detail)
    # 2. build
    axioms = {}
    if not args.skip_build:
        # one module per Tie A obligation: a table that no longer matches breaks only the checks that list it
        modules = spec["modules"] + ["JPV.Tables.T_" + t.rsplit(".", 1)[1] for t in spec.get("tables", [])]
        bok, errs, raw = fw.lake_build(modules + ["JPV.Driver"])
        if not bok:
            proof_problems.append("lake build failed: " + " | ".join(errs[:6]))
            # is the driver itself still buildable?  without it there is no Tie B
            dok, _e, _r = fw.lake_build(["JPV.Driver"])
            if not dok:
                print("INFRA: the model driver does not build:\n" + raw[-3000:])
                return 2
        # 3. audit
        if bok:
            aok, axioms, probs = fw.audit_axioms(modules, obligations)
            discharged = sum(1 for t in obligations if t in axioms and all(a in fw.ALLOWED_AXIOMS for a in axioms[t]))
            if not aok:
                proof_problems.extend(probs)
            if args.tier == "thorough":
                cok, cdetail = fw.leanchecker(modules)
                if not cok:
                    proof_problems.append(cdetail)
                checker_note = cdetail
        hits = fw.grep_forbidden()
        if hits:
            proof_problems.append("forbidden constructs: " + "; ".join(hits[:5]))
            discharged = 0
    else:
        discharged = len(obligations)

    # 4. exploration: Tie B + oracle search on the real code
    # a wall-clock guard: an exploration that does not finish (real code that hangs on some input met outside the
    # stage that looks for exactly that) ends as an infrastructure failure in bounded time, not as a hung check
    import threading

    budget = float(os.environ.get("VERIF_BUDGET_S", "1500" if args.tier != "thorough" else "10800"))

    def _expired():
        print(f"INFRA: exploration exceeded its wall-clock budget of {budget:.0f} s", flush=True)
        os._exit(2)

    guard = threading.Timer(budget, _expired)
    guard.daemon = True
    guard.start()
    res = fw.CheckResult()
    rng = random.Random(seed * 1000003 + sum(ord(c) for c in args.prop))
    deep = bool(proof_problems)
    try:
        spec["explore"](rng, args.tier, res, deep=deep)
        if res.mismatches and not res.violations and not deep:
            # correspondence broken: look harder for an input on which the property itself fails
            res.notes.append("correspondence mismatch: re-running the search at greater depth")
            spec["explore"](random.Random(seed + 7919), args.tier, res, deep=True)
    except Exception:  # noqa: BLE001
        print("INFRA: exploration crashed\n" + traceback.format_exc())
        return 2
    finally:
        res.code_coverage = ccov.stop()

    # 5. known findings
    kf = fw.load_known_findings()
    open_ids = {f["id"]: f for f in kf.get("open", []) if f.get("property") == args.prop}
    new_violations = []
    for v in res.violations:
        fid = v.get("finding")
        if fid and fid in open_ids:
            continue
        if v.get("property", args.prop) != args.prop:
            # a failure of another property met on the way: report it under that property's name too
            v = dict(v)
        new_violations.append(v)
    for fid, text in res.known:
        if fid in open_ids:
            print(f"KNOWN-FINDING: property={args.prop} {fid}: {text}")
        else:
            # still failing but not (or no longer) listed in known_findings.json: a violation like any other
            new_violations.append({"property": args.prop, "finding": None, "observed": text,
                                   "expected": "property holds", "what": f"{fid} fails and is not listed as an open finding"})

    proof_notes = {
        "theorems": {t: axioms.get(t) for t in obligations},
        "problems": proof_problems,
        "leanchecker": checker_note,
    }
    checker = f"cd lean && lake build {' '.join(spec['modules'])} && lake env lean <audit file with #print axioms for the {len(obligations)} obligations>"
    fw.write_evidence(
        args.prop, args.tier, seed, t0, len(obligations), discharged, checker, res,
        spec.get("trusted", []), len(new_violations) + (1 if (proof_problems or res.mismatches) and not new_violations else 0),
        proof_notes,
    )
    if res.infra and not new_violations and not proof_problems:
        print("INFRA: " + "; ".join(res.infra[:5]))
        return 2

    if new_violations:
        v = new_violations[0]
        # minimise the replay when the failing case is a (query, document) pair judged by the sweep
        if isinstance(v.get("query"), str) and "document" in v and isinstance(v.get("env"), dict) and \
                str(v.get("what", "")).startswith(("find() differs", "evaluation of a valid")):
            try:
                import sweep as _sw

                q2, d2 = _sw.shrink(v["env"], v["query"], v["document"], args.prop)
                if (q2, d2) != (v["query"], v["document"]):
                    v = dict(v, shrunk_from={"query": v["query"], "document": v["document"]}, query=q2, document=d2,
                             observed="(re-run with --replay for the outcome on the minimised input)", expected="see --replay")
                    new_violations[0] = v
            except Exception:  # noqa: BLE001
                pass
        pid = v.get("property", args.prop)
        path = fw.write_replay(pid, {"kind": "failing-input", **v, "others": len(new_violations) - 1,
                                      "broken_obligations": proof_problems,
                                      "correspondence_mismatches": res.mismatches[:3]})
        print(f"VIOLATION property={args.prop} replay={path}")
        for v2 in new_violations[:5]:
            print("  " + json.dumps({k: v2[k] for k in v2 if k in ("query", "document", "observed", "expected", "what")},
                                    ensure_ascii=True, default=str)[:600])
        return 1
    if proof_problems or res.mismatches:
        path = fw.write_replay(args.prop, {
            "kind": "no-failing-input-found",
            "property": args.prop,
            "broken_obligations": proof_problems,
            "correspondence_mismatches": res.mismatches[:5],
            "searched": {"evaluations": res.evaluations, "tier": args.tier, "seed": seed},
        })
        print(f"VIOLATION property={args.prop} replay={path} no-failing-input-found")
        for p in proof_problems[:4]:
            print("  broken: " + p[:400])
        for m in res.mismatches[:3]:
            print("  mismatch: " + json.dumps(m, ensure_ascii=True, default=str)[:600])
        return 1
    print(f"OK property={args.prop} tier={args.tier} seed={seed} obligations={discharged}/{len(obligations)} "
          f"evaluations={res.evaluations} nontrivial={len(res.nontrivial)} wall={time.time() - t0:.1f}s")
    return 0


def replay(prop, spec, path):
    with open(path, encoding="utf8") as fd:
        rp = json.load(fd)
    print(json.dumps(rp, indent=1, ensure_ascii=True)[:4000])
    if "query" in rp and "document" in rp:
        import real
        import wire
        import model
        import sweep as sw

        desc = rp.get("env") or dict(real.DEFAULT_ENVDESC)
        desc["fns"] = [tuple(f) for f in desc["fns"]]
        env = real.make_env(desc)
        rl, _ = sw.observe_query(env, rp["query"], rp["document"])
        eenv = real.enc_env(desc)
        out = model.run_batch([
            f"impl.query\t{eenv}\t{wire.enc_str(rp['query'])}\t{wire.enc_json(rp['document'])}",
            f"rfc.query\t{eenv}\t{wire.enc_str(rp['query'])}\t{wire.enc_json(rp['document'])}",
        ])
        print("real :", rl)
        print("model:", out[0])
        print("rfc  :", out[1])
    return 0


if __name__ == "__main__":
    sys.exit(main())
