/-
`Proofs.Cf.LexSt` — the list view `FSt D` of the lexer object at an arbitrary filter depth `D`
(`Rq.St` is the case `D = 0`); `Rq.Reach` / `Rq.Halts` / `Rq.run_of_halts` are reused as they are.
-/
import JPV.Proofs.Rq.LexExec
namespace JPV.Proofs.Cf
open JPV JPV.Impl JPV.Proofs.Rq

/-- the text is `pre ++ cur ++ rest` with `start` after `pre` and `pos` after `cur`; the tokens and
open brackets are `toks` and `br`; at filter depth `D` -/
structure FSt (D : Int) (l : Lexer) (pre cur rest : List Char) (toks : List Token) (br : List (Char × Nat)) : Prop where
  q : l.q.toList = pre ++ (cur ++ rest)
  start : l.start = pre.length
  pos : l.pos = pre.length + cur.length
  toks : l.toks = toks
  br : l.brackets = br
  fd : l.filterDepth = D

theorem peek_eq (l : Lexer) : l.peek = l.q.toList[l.pos]? := by
  unfold Lexer.peek; split <;> simp [*]

section
variable {D : Int} {l : Lexer} {pre cur rest : List Char} {toks : List Token} {br : List (Char × Nat)}

theorem FSt.peek (h : FSt D l pre cur rest toks br) : l.peek = rest.head? := by
  rw [peek_eq, h.q, h.pos, ← List.append_assoc]
  rw [List.getElem?_append_right (by simp)]
  simp [List.head?_eq_getElem?]

theorem FSt.restFrom (h : FSt D l pre cur rest toks br) : l.restFrom = rest := by
  rw [Lexer.restFrom_eq, h.q, h.pos, ← List.append_assoc]
  rw [List.drop_append_of_le_length (by simp)]
  simp

theorem FSt.slice (h : FSt D l pre cur rest toks br) : l.slice l.start l.pos = cur := by
  rw [Lexer.slice_eq, h.q, h.pos, h.start]
  simp

theorem FSt.adv {c : Char} {r : List Char} (h : FSt D l pre cur (c :: r) toks br) :
    FSt D l.adv pre (cur ++ [c]) r toks br := by
  have hp : l.peek = some c := by rw [h.peek]; rfl
  have hpos := Lexer.adv_pos_some hp
  refine ⟨by simp [h.q], by simp [h.start], by simp [hpos, h.pos]; omega, by simp [h.toks],
    by simp [h.br], ?_⟩
  have := h.fd
  unfold Lexer.adv Lexer.next; split <;> exact this

theorem FSt.emit (h : FSt D l pre cur rest toks br) (k : TokKind) :
    FSt D (l.emit k) (pre ++ cur) [] rest (⟨k, cur, pre.length⟩ :: toks) br := by
  refine ⟨by simp [Lexer.emit, h.q], by simp [Lexer.emit, h.pos], by simp [Lexer.emit, h.pos], ?_,
    h.br, h.fd⟩
  show (⟨k, l.slice l.start l.pos, l.start⟩ : Token) :: l.toks = _
  rw [h.slice, h.start, h.toks]

theorem FSt.ignore (h : FSt D l pre cur rest toks br) : FSt D l.ignore (pre ++ cur) [] rest toks br :=
  ⟨by simp [Lexer.ignore, h.q], by simp [Lexer.ignore, h.pos], by simp [Lexer.ignore, h.pos],
    h.toks, h.br, h.fd⟩

theorem FSt.pushBracket (h : FSt D l pre cur rest toks br) (c : Char) (i : Nat) :
    FSt D (l.pushBracket c i) pre cur rest toks ((c, i) :: br) :=
  ⟨h.q, h.start, h.pos, h.toks, by simp [Lexer.pushBracket, h.br], h.fd⟩

theorem FSt.popBracket {b : Char × Nat} (h : FSt D l pre cur rest toks (b :: br)) :
    FSt D { l with brackets := br } pre cur rest toks br :=
  ⟨h.q, h.start, h.pos, h.toks, rfl, h.fd⟩

theorem FSt.backup {c : Char} (h : FSt D l pre (cur ++ [c]) rest toks br) :
    ∃ l', l.backup = .ok l' ∧ FSt D l' pre cur (c :: rest) toks br := by
  refine ⟨{ l with pos := l.pos - 1 }, ?_, by simp [h.q], h.start, by simp [h.pos], h.toks, h.br, h.fd⟩
  unfold Lexer.backup
  rw [if_neg]
  rw [h.pos, h.start]; simp

theorem FSt.acceptMatch (h : FSt D l pre cur rest toks br) {re : List Char → Option Nat} {k : Nat}
    (hre : re rest = some k) (hk : k ≤ rest.length) :
    ∃ l', l.acceptMatch re = some l' ∧ FSt D l' pre (cur ++ rest.take k) (rest.drop k) toks br := by
  refine ⟨{ l with pos := l.pos + k }, by simp [Lexer.acceptMatch, h.restFrom, hre], by simp [h.q], h.start, ?_, h.toks, h.br, h.fd⟩
  simp [h.pos]; omega

/-- no whitespace to skip -/
theorem FSt.ws_none (h : FSt D l pre [] rest toks br) (hr : ∀ c, rest.head? = some c → isWs c = false) :
    l.ignoreWhitespace = .ok (false, l) := by
  unfold Lexer.ignoreWhitespace
  have : l.pos = l.start := by rw [h.pos, h.start]; simp
  rw [if_neg (by simp [this])]
  have hm : l.acceptMatch reWhitespace = none := by
    simp only [Lexer.acceptMatch, h.restFrom, reWhitespace]
    cases rest with
    | nil => simp [spanLen]
    | cons c r => simp [spanLen, hr c rfl]
  rw [hm]


/-! ### further structure updates -/

theorem FSt.of_St (h : St l pre cur rest toks br) : FSt 0 l pre cur rest toks br :=
  ⟨h.q, h.start, h.pos, h.toks, h.br, h.fd⟩

theorem FSt.toSt (h : FSt 0 l pre cur rest toks br) : St l pre cur rest toks br :=
  ⟨h.q, h.start, h.pos, h.toks, h.br, h.fd⟩

/-- entering or leaving a filter: only the depth changes -/
theorem FSt.setDepth (h : FSt D l pre cur rest toks br) (D' : Int) :
    FSt D' { l with filterDepth := D' } pre cur rest toks br :=
  ⟨h.q, h.start, h.pos, h.toks, h.br, rfl⟩

/-- `func_call_stack` is not part of the view (nothing reads it except its own bookkeeping) -/
theorem FSt.setFuncStack (h : FSt D l pre cur rest toks br) (fs : List Nat) :
    FSt D { l with funcStack := fs } pre cur rest toks br :=
  ⟨h.q, h.start, h.pos, h.toks, h.br, h.fd⟩

theorem FSt.setBrackets (h : FSt D l pre cur rest toks br) (br' : List (Char × Nat)) :
    FSt D { l with brackets := br' } pre cur rest toks br' :=
  ⟨h.q, h.start, h.pos, h.toks, rfl, h.fd⟩

/-- `accept(s)` on a matching prefix -/
theorem FSt.accept (h : FSt D l pre cur rest toks br) {s r : List Char} (hr : rest = s ++ r) :
    ∃ l', l.accept s = some l' ∧ FSt D l' pre (cur ++ s) r toks br := by
  subst hr
  refine ⟨{ l with pos := l.pos + s.length }, ?_, by simp [h.q], h.start, ?_, h.toks, h.br, h.fd⟩
  · unfold Lexer.accept
    rw [h.restFrom, if_pos]
    simp
  · simp [h.pos]; omega

/-- `accept(s)` when the input does not start with `s` -/
theorem FSt.accept_none (h : FSt D l pre cur rest toks br) {s : List Char} (hr : s.isPrefixOf rest = false) :
    l.accept s = none := by
  unfold Lexer.accept
  rw [h.restFrom, hr]
  rfl

theorem FSt.acceptMatch_none (h : FSt D l pre cur rest toks br) {re : List Char → Option Nat}
    (hre : re rest = none) : l.acceptMatch re = none := by
  simp [Lexer.acceptMatch, h.restFrom, hre]

end



end JPV.Proofs.Cf
