/-
C04 — Every string outside the RFC 9535 grammar is rejected.

Property text: "Every string that is not derivable from the RFC 9535 ABNF
(misplaced blank space, leading zeros in any number, '-0' as an index or slice
bound, malformed numbers or escapes, doubled or dangling operators, parenthesised
or negated comparison operands, trailing or missing commas and colons, unbalanced
brackets, text before '$' or after the last segment, upper-case keywords, ...)
makes compile() raise a JSONPathError; nothing outside the grammar is silently
given a meaning."

`C04_statement` is the property at full strength against the independent
recogniser `Spec.Grammar`; `C04` proves it for every environment and every string,
`C04_reject` is the contrapositive the property text uses (not derivable ⇒ a
JSONPathError).  `C04_structural` (filter-free case, with verdict `valid`) and
`C03_C04_structural_iff` were proved first and are kept.  With `C03` (completeness)
the language compile() accepts is exactly the RFC's, up to the disputed blanks.
-/
import JPV.Spec.Valid
import JPV.Props.C05
import JPV.Props.C13
import JPV.Proofs.SoundStructural
import JPV.Proofs.SoundFull
namespace JPV.Props
open JPV

/-- the property at full strength: whatever compile() accepts — for every environment and every string,
filters included — the RFC 9535 grammar derives (verdict `valid`, or `disputed` for the one place where the
RFC's ABNF and its errata disagree: blank space inside the brackets of a singular query used as a comparison
operand, D28), the derivation abstracts (parentheses erased) to exactly the query the implementation built,
and that query is well-typed for the environment's own signatures with all integers in the configured range -/
def C04_statement : Prop :=
  ∀ (env : Impl.Env) (s : Str) (q : Query), Impl.compile env s = .ok q →
    (∃ c, (Spec.parseQuery s = .valid c ∨ Spec.parseQuery s = .disputed c) ∧ Spec.abstractSegs c = q) ∧
    Spec.wtQuery (sigsOfEnv env) q = true ∧ Spec.intsQuery env.minIdx env.maxIdx q = true

/-- PROVED at full strength (parser soundness by inversion of the lexer run and of the Pratt parser run,
`Proofs/Sf/*`; typing and ranges from `C05_partial`) -/
theorem C04 : C04_statement := fun env s q h =>
  ⟨Proofs.compile_sound env s q h, (C05_partial env s q h).1, (C05_partial env s q h).2⟩

/-- contrapositive, the form the property text uses: a string the ABNF does not derive (neither verdict)
makes compile() raise, and what it raises is a JSONPathError (`C13_compile`) -/
theorem C04_reject (env : Impl.Env) (s : Str)
    (hinv : ∀ c, Spec.parseQuery s ≠ .valid c ∧ Spec.parseQuery s ≠ .disputed c) :
    ∃ e, Impl.compile env s = .error e ∧ e.kind.isJSONPathError = true := by
  cases hc : Impl.compile env s with
  | error e =>
    refine ⟨e, rfl, ?_⟩
    have h13 := C13_compile env s
    rw [hc] at h13
    exact h13
  | ok q =>
    obtain ⟨c, hp, _⟩ := Proofs.compile_sound env s q hc
    rcases hp with hp | hp
    · exact absurd hp (hinv c).1
    · exact absurd hp (hinv c).2

/-- proved: filter-free queries — what compile() accepts, the ABNF derives, with the same meaning -/
theorem C04_structural (env : Impl.Env) (s : Str) (q : Query)
    (h : Impl.compile env s = .ok q) (hff : Spec.filterFree q = true) :
    ∃ c, Spec.parseQuery s = .valid c ∧ Spec.abstractSegs c = q :=
  Proofs.compile_sound_structural env s q h hff

/-- contrapositive: a string the ABNF does not derive is rejected with a JSONPathError, or (not excluded by this
theorem) compiled to a query that contains a filter selector — never to a filter-free query -/
theorem C04_structural_reject (env : Impl.Env) (s : Str)
    (hinv : ∀ c, Spec.parseQuery s ≠ .valid c) :
    (∃ e, Impl.compile env s = .error e ∧ e.kind.isJSONPathError = true) ∨
    (∃ q, Impl.compile env s = .ok q ∧ Spec.filterFree q = false) := by
  cases hc : Impl.compile env s with
  | error e =>
    left
    refine ⟨e, rfl, ?_⟩
    have h13 := C13_compile env s
    rw [hc] at h13
    exact h13
  | ok q =>
    right
    refine ⟨q, rfl, ?_⟩
    cases hff : Spec.filterFree q with
    | false => rfl
    | true =>
      obtain ⟨c, hp, _⟩ := C04_structural env s q hc hff
      exact absurd hp (hinv c)

/-- together with completeness (C03_structural): on strings without `?`, compile() accepts EXACTLY the
filter-free language of the ABNF — the two directions as one equivalence on the built query -/
theorem C03_C04_structural_iff (env : Impl.Env) (s : Str) (q : Query) (hff : Spec.filterFree q = true) :
    Impl.compile env s = .ok q ↔
      ∃ c, Spec.parseQuery s = .valid c ∧ Spec.abstractSegs c = q ∧
        Spec.intsQuery env.minIdx env.maxIdx q = true := by
  constructor
  · intro h
    obtain ⟨c, hp, ha⟩ := C04_structural env s q h hff
    exact ⟨c, hp, ha, (C05_partial env s q h).2⟩
  · rintro ⟨c, hp, ha, hr⟩
    subst ha
    exact Proofs.compile_complete_structural env s c hp hff hr

end JPV.Props
