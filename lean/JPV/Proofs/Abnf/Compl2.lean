/-
Completeness, bracket level: `Bracketed`, `MoreSelectors`, `Selector`.
-/
import JPV.Proofs.Abnf.Compl1
import JPV.Proofs.Abnf.Sound
namespace JPV.Proofs.AbnfP
open JPV JPV.Spec

theorem cBrk_mk {l : Bool} {b1 s more b2 : List Char} {sel : CSelector} {sels : List CSelector}
    (hb1 : Abnf.Blanks b1) (hs : Abnf.Selector l s sel) (hm : Abnf.MoreSelectors l more sels)
    (hb2 : Abnf.Blanks b2) (ihs : CSel s sel) (ihm : CMSel more sels) :
    CBrk ('[' :: (b1 ++ s ++ more ++ b2 ++ [']'])) (sel :: sels) (!b1.isEmpty || !b2.isEmpty) := by
  intro R fuel hf
  simp only [List.length_cons, List.length_append, List.length_nil] at hf
  obtain ⟨f, rfl⟩ : ∃ f, fuel = f + 1 := ⟨fuel - 1, by omega⟩
  have hinp : ('[' :: (b1 ++ s ++ more ++ b2 ++ [']'])) ++ R = '[' :: (b1 ++ (s ++ (more ++ (b2 ++ ']' :: R)))) := by
    simp
  rw [hinp]
  obtain ⟨ch, t, rfl, hch⟩ := selector_head hs
  have hsk1 : skipS (b1 ++ (ch :: t ++ (more ++ (b2 ++ ']' :: R)))) = ch :: t ++ (more ++ (b2 ++ ']' :: R)) :=
    skipS_blanks_cons hb1 hch _
  have hR0 : ∃ t, skipS (b2 ++ ']' :: R) = ']' :: t := ⟨R, skipS_blanks_cons hb2 (by decide) _⟩
  obtain ⟨sel', R1, h1, hR1, hn1⟩ := ihs (more ++ (b2 ++ ']' :: R)) f (moreSelectors_skip hm hR0) (by omega)
  obtain ⟨sels', R2, h2, hR2, hnil, hn2⟩ := ihm (b2 ++ ']' :: R) f R1 hR0
    (by rcases hR1 with h | ⟨h, _⟩ <;> simp [h]) (by omega)
  have hr4 : skipS R2 = ']' :: R := by rw [hR2]; exact skipS_blanks_cons hb2 (by decide) _
  have hbr : bracketed (f + 1) ('[' :: (b1 ++ (ch :: t ++ (more ++ (b2 ++ ']' :: R))))) =
      some (sel' :: sels', ((ch :: t ++ (more ++ (b2 ++ ']' :: R))).length !=
        (b1 ++ (ch :: t ++ (more ++ (b2 ++ ']' :: R)))).length) || ((']' :: R).length != R2.length), R) := by
    rw [bracketed]
    simp only [hsk1, h1, h2, hr4]
  refine ⟨sel' :: sels', _, hbr, ?_, ?_⟩
  · simp only [normSels, hn1, hn2]
  · rw [length_flag (b := b1) rfl]
    cases hm with
    | nil =>
      have := normSels_eq_nil hn2
      subst this
      have hR2' := hnil rfl
      subst hR2'
      rcases hR1 with h | ⟨_, a, b, d, hsl⟩
      · subst h
        simp only [List.nil_append]
        rw [length_flag (b := b2) rfl]
        exact normFlag_single hn1 _
      · subst hsl
        have := normSel_slice_inv hn1
        subst this
        rfl
    | cons _ _ _ _ =>
      obtain ⟨a', t', rfl, _, _⟩ := normSels_cons_inv hn2
      rw [normFlag_two, normFlag_two]

theorem cMSel_nil : CMSel [] [] := by
  intro R fuel inp hR hinp hf
  obtain ⟨f, rfl⟩ : ∃ f, fuel = f + 1 := ⟨fuel - 1, by omega⟩
  obtain ⟨t, ht⟩ := hR
  have hR' : skipS inp = skipS R := by
    rcases hinp with h | h <;> subst h
    · rfl
    · exact skipS_idem R
  have hsk : skipS inp = ']' :: t := hR'.trans ht
  refine ⟨[], inp, ?_, hR', fun _ => rfl, rfl⟩
  rw [moreSelectors, hsk]
  split
  · rename_i heq; simp at heq
  · rfl

theorem cMSel_cons {l : Bool} {b1 b2 s more : List Char} {sel : CSelector} {sels : List CSelector}
    (hb1 : Abnf.Blanks b1) (hb2 : Abnf.Blanks b2) (hs : Abnf.Selector l s sel)
    (hm : Abnf.MoreSelectors l more sels) (ihs : CSel s sel) (ihm : CMSel more sels) :
    CMSel (b1 ++ ',' :: (b2 ++ s ++ more)) (sel :: sels) := by
  intro R fuel inp hR hinp hf
  simp only [List.length_cons, List.length_append] at hf
  obtain ⟨f, rfl⟩ : ∃ f, fuel = f + 1 := ⟨fuel - 1, by omega⟩
  obtain ⟨ch, t, rfl, hch⟩ := selector_head hs
  have hsk0 : skipS (b1 ++ ',' :: (b2 ++ (ch :: t) ++ more) ++ R) = ',' :: (b2 ++ ((ch :: t) ++ (more ++ R))) := by
    simp only [List.append_assoc, List.cons_append]
    exact skipS_blanks_cons hb1 (by decide) _
  have hsk : skipS inp = ',' :: (b2 ++ ((ch :: t) ++ (more ++ R))) := by
    rcases hinp with h | h <;> subst h <;> first | exact hsk0 | (rw [skipS_idem]; exact hsk0)
  have hsk2 : skipS (b2 ++ ((ch :: t) ++ (more ++ R))) = (ch :: t) ++ (more ++ R) := skipS_blanks_cons hb2 hch _
  obtain ⟨sel', R1, h1, hR1, hn1⟩ := ihs (more ++ R) f (moreSelectors_skip hm hR) (by omega)
  obtain ⟨sels', R2, h2, hR2, _, hn2⟩ := ihm R f R1 hR
    (by rcases hR1 with h | ⟨h, _⟩ <;> simp [h]) (by omega)
  refine ⟨sel' :: sels', R2, ?_, hR2, fun h => ?_, ?_⟩
  · rw [moreSelectors, hsk]
    simp only [hsk2, h1, h2]
  · cases b1 <;> simp at h
  · simp only [normSels, hn1, hn2]

/-! ### selectors -/

theorem SelFollow.head {R : List Char} (h : SelFollow R) : HeadP FolChar R := h.sfol.or_term.head

/-- the generic branch of `selector`, for inputs not starting with `*` or `?` -/
theorem selector_generic {f : Nat} {c : Char} {t : List Char} (h1 : c ≠ '*') (h2 : c ≠ '?') :
    selector (f + 1) (c :: t) =
      match stringLiteral (c :: t) with
      | some (s, r) => some (.name s, r)
      | none =>
        match sliceSelector (c :: t) with
        | some res => some res
        | none => (intLit (c :: t)).map (fun (i, r) => (.index i, r)) := by
  rw [selector]
  all_goals first
    | rfl
    | (intro r h; simp only [List.cons.injEq] at h; first | exact h1 h.1 | exact h2 h.1)

theorem cSel_name {s : List Char} {n : Str} (hs : Abnf.StringLit s n) : CSel s (.name n) := by
  intro R fuel _ hf
  obtain ⟨f, rfl⟩ : ∃ f, fuel = f + 1 := ⟨fuel - 1, by omega⟩
  have h1 := stringLiteral_complete hs R
  refine ⟨.name n, R, ?_, Or.inl rfl, rfl⟩
  obtain ⟨t, rfl | rfl⟩ := stringLit_head hs
  · simp only [List.cons_append] at h1 ⊢
    rw [selector_generic (by decide) (by decide)]; simp only [h1]
  · simp only [List.cons_append] at h1 ⊢
    rw [selector_generic (by decide) (by decide)]; simp only [h1]

theorem cSel_wild : CSel ['*'] .wild := by
  intro R fuel _ hf
  obtain ⟨f, rfl⟩ : ∃ f, fuel = f + 1 := ⟨fuel - 1, by omega⟩
  exact ⟨.wild, R, by simp only [List.cons_append, List.nil_append]; rw [selector], Or.inl rfl, rfl⟩

theorem cSel_slice {s : List Char} {a b d : Option Int} (hs : Abnf.SliceSel s a b d) : CSel s (.slice a b d) := by
  intro R fuel hR hf
  obtain ⟨f, rfl⟩ : ∃ f, fuel = f + 1 := ⟨fuel - 1, by omega⟩
  obtain ⟨R', h1, hR'⟩ := sliceSelector_complete hs hR
  obtain ⟨ch, t, rfl, hch⟩ := sliceSel_head hs
  have hne : ch ≠ '*' ∧ ch ≠ '?' ∧ ch ≠ '"' ∧ ch ≠ '\'' := by
    rcases hch with h | h | h
    · exact ⟨isDIGIT_ne h (by decide), isDIGIT_ne h (by decide), isDIGIT_ne h (by decide), isDIGIT_ne h (by decide)⟩
    · subst h; decide
    · subst h; decide
  have h0 : stringLiteral (ch :: t ++ R) = none :=
    stringLiteral_none_of_head (by intro c' t' e; cases e; exact ⟨hne.2.2.1, hne.2.2.2⟩)
  refine ⟨.slice a b d, R', ?_, ?_, rfl⟩
  · simp only [List.cons_append] at h0 h1 ⊢
    rw [selector_generic hne.1 hne.2.1]
    simp only [h0, h1]
  · rcases hR' with h | h
    · exact Or.inl h
    · exact Or.inr ⟨h, a, b, d, rfl⟩

theorem cSel_index {s : List Char} {i : Int} (hs : Abnf.IntLit s i) : CSel s (.index i) := by
  intro R fuel hR hf
  obtain ⟨f, rfl⟩ : ∃ f, fuel = f + 1 := ⟨fuel - 1, by omega⟩
  have h1 := sliceSelector_none_of_int hs hR
  have h2 := intLit_complete hs (R := R) (hR.head.mono fun _ hc => hc.props.2.1)
  obtain ⟨ch, t, rfl, hch⟩ := intLit_head hs
  have hne : ch ≠ '*' ∧ ch ≠ '?' ∧ ch ≠ '"' ∧ ch ≠ '\'' := by
    rcases hch with h | h
    · exact ⟨isDIGIT_ne h (by decide), isDIGIT_ne h (by decide), isDIGIT_ne h (by decide), isDIGIT_ne h (by decide)⟩
    · subst h; decide
  have h0 : stringLiteral (ch :: t ++ R) = none :=
    stringLiteral_none_of_head (by intro c' t' e; cases e; exact ⟨hne.2.2.1, hne.2.2.2⟩)
  refine ⟨.index i, R, ?_, Or.inl rfl, rfl⟩
  simp only [List.cons_append] at h0 h1 h2 ⊢
  rw [selector_generic hne.1 hne.2.1]
  simp only [h0, h1, h2, Option.map_some]

theorem cSel_filter {l : Bool} {b s : List Char} {e : CExpr} (hb : Abnf.Blanks b)
    (hs : Abnf.LogicalOr l s e) (ih : COr s e) : CSel ('?' :: (b ++ s)) (.filter e) := by
  intro R fuel hR hf
  simp only [List.length_cons, List.length_append] at hf
  obtain ⟨f, rfl⟩ : ∃ f, fuel = f + 1 := ⟨fuel - 1, by omega⟩
  obtain ⟨ch, t, rfl, hch⟩ := logicalOr_head hs
  obtain ⟨e', h1, hn⟩ := ih R f hR.sfol (by omega)
  have hsk : skipS (b ++ (ch :: t) ++ R) = ch :: t ++ R := by
    simp only [List.append_assoc, List.cons_append]
    exact skipS_blanks_cons hb hch.facts.notBlank _
  refine ⟨.filter e', R, ?_, Or.inl rfl, by simp only [normSel, hn]⟩
  simp only [List.cons_append]
  rw [selector, hsk, h1]
  rfl

end JPV.Proofs.AbnfP
