/-
`Proofs.Cs.LexBasics` — character classes of the grammar and the lexer agree; blank space.
-/
import JPV.Proofs.Rq.LexPath
import JPV.Spec.Grammar
namespace JPV.Proofs.Cs
open JPV JPV.Impl JPV.Proofs.Rq

theorem isWs_eq (c : Char) : isWs c = Spec.isBlank c := by
  simp only [isWs, Spec.isBlank]
  cases decide (c = ' ') <;> cases decide (c = '\n') <;> cases decide (c = '\r') <;> cases decide (c = '\t') <;> rfl

theorem isDigit_eq (c : Char) : isDigit c = Spec.isDIGIT c := rfl
theorem isNameFirst_eq (c : Char) : Impl.isNameFirst c = Spec.isNameFirst c := rfl
theorem isNameChar_eq (c : Char) : Impl.isNameChar c = Spec.isNameChar c := rfl

theorem spanLen_eq (p : Char → Bool) (l : List Char) : spanLen p l = (l.takeWhile p).length := by
  induction l with
  | nil => rfl
  | cons c cs ih =>
    simp only [spanLen, List.takeWhile]
    cases p c <;> simp [ih]; omega

theorem spanLen_le (p : Char → Bool) (l : List Char) : spanLen p l ≤ l.length := by
  induction l with
  | nil => simp [spanLen]
  | cons c cs ih => simp only [spanLen]; split <;> simp <;> omega

theorem skipS_eq (l : List Char) : Spec.skipS l = l.drop (spanLen isWs l) := by
  induction l with
  | nil => rfl
  | cons c cs ih =>
    simp only [Spec.skipS, spanLen, ← isWs_eq]
    cases isWs c <;> simp [ih, Nat.add_comm 1]

theorem skipS_head (l : List Char) : ∀ c, (Spec.skipS l).head? = some c → isWs c = false := by
  induction l with
  | nil => simp [Spec.skipS]
  | cons d ds ih =>
    intro c
    simp only [Spec.skipS, ← isWs_eq]
    cases hd : isWs d
    · simp; rintro rfl; exact hd
    · simpa using ih c

theorem skipS_idem (l : List Char) : Spec.skipS (Spec.skipS l) = Spec.skipS l := by
  cases h : Spec.skipS l with
  | nil => rfl
  | cons c r =>
    have := skipS_head l c (by rw [h]; rfl)
    simp [Spec.skipS, ← isWs_eq, this]

theorem skipS_of_head {c : Char} {r : List Char} (h : isWs c = false) : Spec.skipS (c :: r) = c :: r := by
  simp [Spec.skipS, ← isWs_eq, h]

variable {l : Lexer} {pre rest : List Char} {toks : List Token} {br : List (Char × Nat)}

/-- `ignore_whitespace()` skips exactly the grammar's `S` -/
theorem St_ws (h : St l pre [] rest toks br) :
    ∃ b l' pre', l.ignoreWhitespace = .ok (b, l') ∧ St l' pre' [] (Spec.skipS rest) toks br := by
  unfold Lexer.ignoreWhitespace
  have hps : l.pos = l.start := by rw [h.pos, h.start]; simp
  rw [if_neg (by simp [hps])]
  by_cases hn : spanLen isWs rest = 0
  · have hm : l.acceptMatch reWhitespace = none := by
      simp [Lexer.acceptMatch, h.restFrom, reWhitespace, hn]
    rw [hm]
    refine ⟨false, l, pre, rfl, ?_⟩
    rw [skipS_eq, hn]; exact h
  · have hre : reWhitespace rest = some (spanLen isWs rest) := by simp [reWhitespace, hn]
    obtain ⟨l', hm, h'⟩ := h.acceptMatch hre (spanLen_le _ _)
    rw [hm]
    refine ⟨true, l'.ignore, pre ++ ([] ++ rest.take (spanLen isWs rest)), rfl, ?_⟩
    rw [skipS_eq]
    exact h'.ignore

theorem step_bracketed_ws (h : St l pre [] rest toks br) :
    ∃ l1 pre', St l1 pre' [] (Spec.skipS rest) toks br ∧ Impl.step .bracketed l = Impl.step .bracketed l1 := by
  obtain ⟨b, l1, pre', hw, h1⟩ := St_ws h
  have hw1 := h1.ws_none (skipS_head rest)
  exact ⟨l1, pre', h1, by simp only [Impl.step, lexBracketed, hw, hw1, bind, Except.bind]⟩

theorem step_segment_ws (h : St l pre [] rest toks br) (hne : Spec.skipS rest ≠ []) :
    ∃ l1 pre', St l1 pre' [] (Spec.skipS rest) toks br ∧ Impl.step .segment l = Impl.step .segment l1 := by
  obtain ⟨b, l1, pre', hw, h1⟩ := St_ws h
  have hw1 := h1.ws_none (skipS_head rest)
  have hp : l1.peek.isNone = false := by
    rw [h1.peek]
    cases hr : Spec.skipS rest with
    | nil => exact absurd hr hne
    | cons => rfl
  exact ⟨l1, pre', h1, by simp [Impl.step, lexSegment, hw, hw1, bind, Except.bind, hp]⟩

end JPV.Proofs.Cs
