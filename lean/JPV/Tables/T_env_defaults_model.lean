import JPV.Tables.Common
namespace JPV.Tables
open JPV JPV.Impl

/-- integer range and recursion limit defaults of `JSONPathEnvironment` -/
theorem env_defaults_model :
    let e : Impl.Env := {}
    Generated.envDefaults = [("max_int_index", e.maxIdx), ("min_int_index", e.minIdx),
      ("max_recursion_depth", e.maxDepth), ("nondeterministic", if e.nondet then 1 else 0)] := by decide +kernel

end JPV.Tables
