/-
`Proofs.Cf.LexPStr` — `Cs.BL_str` (a string literal inside brackets) at an arbitrary filter depth `D`.
-/
import JPV.Proofs.Cf.LexPBrk
import JPV.Proofs.Cs.LexStr
namespace JPV.Proofs.Cf
open JPV JPV.Impl JPV.Proofs.Rq

variable {D : Int}

theorem FBL_str {inp r : List Char} {s : Str} (h : Spec.stringLiteral (Spec.skipS inp) = some (s, r)) :
    FBL D inp (fun ts => ∃ q body k, (q = '\'' ∨ q = '"') ∧ decodeStringLiteral (strKind q) body = .ok s ∧
      ts = [⟨strKind q, body, k⟩]) r := by
  intro l toks br hs
  obtain ⟨l1, pre', h1, hst⟩ := hs.step_bracketed
  unfold Spec.stringLiteral at h
  split at h
  · rename_i r0 heq
    rw [heq] at h1
    obtain ⟨body, hsc, e, hd⟩ := Cs.stringBody_scan (.inr rfl) h
    subst e
    have s1 := lexBracketed_dquote h1
    have h2 := h1.adv
    have s3 := lexStrStart_exec (q := '"') (f := false) h2 (by simp)
    have h3 := h2.ignore
    obtain ⟨l4, r4, h4⟩ := strLoop_walk (f := false) (by decide) hsc _ _ h3
    simp only [retState, List.nil_append] at r4 h4
    exact ⟨l4, [_], .step (hst.trans s1) (.step s3 r4), .of_FSt (by simpa using h4), '"', body, _, .inr rfl, hd, rfl⟩
  · rename_i r0 heq
    rw [heq] at h1
    obtain ⟨body, hsc, e, hd⟩ := Cs.stringBody_scan (.inl rfl) h
    subst e
    have s1 := lexBracketed_quote h1
    have h2 := h1.adv
    have s3 := lexStrStart_exec (q := '\'') (f := false) h2 (by simp)
    have h3 := h2.ignore
    obtain ⟨l4, r4, h4⟩ := strLoop_walk (f := false) (by decide) hsc _ _ h3
    simp only [retState, List.nil_append] at r4 h4
    exact ⟨l4, [_], .step (hst.trans s1) (.step s3 r4), .of_FSt (by simpa using h4), '\'', body, _, .inl rfl, hd, rfl⟩
  · simp at h

end JPV.Proofs.Cf
