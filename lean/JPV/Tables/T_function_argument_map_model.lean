import JPV.Tables.Common
namespace JPV.Tables
open JPV JPV.Impl

theorem function_argument_map_model :
    (match tableK Generated.functionArgumentMap with
     | some t => allKinds.all (fun k => (Impl.functionArgumentMap k).map handlerName = lookupK k t)
     | none => false) = true := by decide +kernel

end JPV.Tables
