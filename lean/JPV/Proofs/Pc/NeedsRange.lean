/-
`Proofs.Pc.NeedsRange` — why `print_compile_roundtrip` assumes that `1` lies in the environment's index
range: the printer writes an omitted slice step out as `1`, and `SliceSelector.__init__` range-checks it.
-/
import JPV.Impl.Parse
import JPV.Impl.Serialize
import JPV.Proofs.Pc.Norm
namespace JPV.Proofs.Pc
open JPV JPV.Impl

/-- an environment whose index range does not contain `1` -/
def envNoOne : Env := { minIdx := 5, maxIdx := 10 }

/-- a Boolean test for the compiled query (queries have no decidable equality) -/
def isSlice56 : Except Err Query → Bool
  | .ok [.child [.slice (some 5) (some 6) none]] => true
  | _ => false

theorem needsRange_compile :
    Impl.compile envNoOne "$[5:6]".toList = .ok [.child [.slice (some 5) (some 6) none]] := by
  have h : isSlice56 (Impl.compile envNoOne "$[5:6]".toList) = true := by decide +kernel
  generalize Impl.compile envNoOne "$[5:6]".toList = r at h
  unfold isSlice56 at h
  split at h
  · rfl
  · cases h

theorem needsRange_print :
    Impl.strQuery [.child [.slice (some 5) (some 6) none]] = "$[5:6:1]".toList := by
  decide +kernel

theorem needsRange_recompile :
    (match Impl.compile envNoOne "$[5:6:1]".toList with | .ok _ => false | .error _ => true) = true := by
  decide +kernel

/-- the printed text of a compiled query need not compile in the same environment -/
theorem roundtrip_needs_range :
    ¬ ∀ (env : Env) (s : Str) (q : Query), Impl.compile env s = .ok q →
        Impl.compile env (Impl.strQuery q) = .ok (normSegs q) := by
  intro h
  have h2 := h envNoOne _ _ needsRange_compile
  rw [needsRange_print] at h2
  have h3 := needsRange_recompile
  rw [h2] at h3
  cases h3

end JPV.Proofs.Pc
