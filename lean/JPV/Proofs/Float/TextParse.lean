/-
`Proofs.Float.TextParse` — `Py.parseDecimal` on `[-] ip [. f] [e± xs]`: the digits `ip ++ f` and the exponent
`± xs - |f|` handed to `mkDec`.
-/
import JPV.Proofs.Float.TextLayout
namespace JPV.Proofs.Float
open JPV JPV.Proofs.Cf

/-- `Py.parseDecimal`: the optional fraction -/
def fracSplit (r : List Char) : Option (List Char) × List Char :=
  match r with
  | '.' :: r' =>
    let f := r'.takeWhile (fun c => '0' ≤ c && c ≤ '9')
    (some f, r'.drop f.length)
  | _ => (none, r)

/-- `Py.parseDecimal`: the optional exponent -/
def expOf (r : List Char) : Option Int :=
  match r with
  | [] => some 0
  | e :: r' =>
    if e = 'e' || e = 'E' then
      let (sg, ds) := match r' with
        | '+' :: ds => (1, ds)
        | '-' :: ds => (-1, ds)
        | _ => ((1 : Int), r')
      if Py.allDigits ds then some (sg * (Py.digitsToNat ds : Int)) else none
    else none

/-- `Py.parseDecimal` after the sign -/
def parseBody (neg : Bool) (s : List Char) : Option (Bool × Nat × Nat) :=
  let ip := s.takeWhile (fun c => '0' ≤ c && c ≤ '9')
  let fr := fracSplit (s.drop ip.length)
  if !Py.allDigits ip then none else
  match fr.1, expOf fr.2 with
  | some f, some x =>
    if !Py.allDigits f then none else
    some (mkDec neg (Py.digitsToNat (ip ++ f)) (x - (f.length : Int)))
  | none, some x => some (mkDec neg (Py.digitsToNat ip) x)
  | _, none => none

theorem parseDecimal_minus (r : List Char) : Py.parseDecimal ('-' :: r) = parseBody true r := by
  unfold Py.parseDecimal
  split
  rename_i x neg s heq
  simp only [Prod.mk.injEq] at heq
  obtain ⟨rfl, rfl⟩ := heq
  rfl

theorem parseDecimal_plain (s : List Char) (h : ∀ r, s ≠ '-' :: r) : Py.parseDecimal s = parseBody false s := by
  unfold Py.parseDecimal
  split
  rename_i x neg s' heq
  have : neg = false ∧ s' = s := by
    split at heq
    · rename_i r; exact absurd rfl (h r)
    · cases heq; exact ⟨rfl, rfl⟩
  obtain ⟨rfl, rfl⟩ := this
  rfl

theorem mkDec_eq_mk (neg : Bool) (mant : Nat) (x' : Int) (h0 : mant ≠ 0) (h1 : x' ≤ 400) (h2 : -400 ≤ x') :
    mkDec neg mant x' = (neg, mant * 10 ^ x'.toNat, 10 ^ (-x').toNat) := by
  unfold mkDec
  have hnn := Int.natCast_nonneg (toString mant).length
  simp only
  rw [if_neg h0, if_neg (by omega), if_neg (by omega)]
  split
  · rename_i h
    have : (-x').toNat = 0 := by omega
    rw [this]
  · rename_i h
    have : x'.toNat = 0 := by omega
    rw [this]; simp

theorem takeWhile_digs (D X : List Char) (hD : ∀ c ∈ D, Impl.isDigit c = true) (hX : NoDig X) :
    (D ++ X).takeWhile (fun c => '0' ≤ c && c ≤ '9') = D :=
  Prn.takeWhile_append_of (fun c => '0' ≤ c && c ≤ '9') D X hD (fun c t e => hX c (by rw [e]; rfl))

theorem fracSplit_none (X : List Char) (h : ∀ t, X ≠ '.' :: t) : fracSplit X = (none, X) := by
  unfold fracSplit
  split
  · rename_i t; exact absurd rfl (h t)
  · rfl

theorem fracSplit_some (f X : List Char) (hf : ∀ c ∈ f, Impl.isDigit c = true) (hX : NoDig X) :
    fracSplit ('.' :: (f ++ X)) = (some f, X) := by
  unfold fracSplit
  simp only [takeWhile_digs f X hf hX, List.drop_left]

theorem expOf_expTxt (b : Bool) (xs : List Char) (hx : Digs xs) :
    expOf (expTxt (some (b, xs))) = some (expVal (some (b, xs))) := by
  have had := Pc.allDigits_of xs hx.1 hx.2
  cases b
  · simp only [expTxt, expOf, expVal, Bool.false_eq_true, if_false]
    simp [had]
  · simp only [expTxt, expOf, expVal, if_true]
    simp [had]

theorem noDig_expTxt (ex : Option (Bool × List Char)) : NoDig (expTxt ex) := by
  cases ex with
  | none => intro c h; simp [expTxt] at h
  | some p => exact noDig_cons (by decide)

theorem noDig_fracTxt (fp : Option (List Char)) (X : List Char) (hX : NoDig X) : NoDig (fracTxt fp ++ X) := by
  cases fp with
  | none => exact hX
  | some f => exact noDig_cons (by decide)

theorem expTxt_ne_dot (ex : Option (Bool × List Char)) : ∀ t, expTxt ex ≠ '.' :: t := by
  intro t e
  cases ex with
  | none => cases e
  | some p => simp only [expTxt, List.cons.injEq] at e; exact absurd e.1 (by decide)

theorem expOf_any (ex : Option (Bool × List Char)) (hx : ∀ b xs, ex = some (b, xs) → Digs xs) :
    expOf (expTxt ex) = some (expVal ex) := by
  cases ex with
  | none => rfl
  | some p => obtain ⟨b, xs⟩ := p; exact expOf_expTxt b xs (hx b xs rfl)

/-- `Py.parseDecimal` after the sign, on `ip [. f] [e± xs]` -/
theorem parseBody_parts (neg : Bool) (ip : List Char) (fp : Option (List Char)) (ex : Option (Bool × List Char))
    (hip : Digs ip) (hfp : ∀ f, fp = some f → Digs f) (hex : ∀ b xs, ex = some (b, xs) → Digs xs) :
    parseBody neg (ip ++ fracTxt fp ++ expTxt ex) =
      some (mkDec neg (Py.digitsToNat (ip ++ fp.getD [])) (expVal ex - ((fp.getD []).length : Int))) := by
  have hnE := noDig_expTxt ex
  have hnF := noDig_fracTxt fp _ hnE
  have hxv := expOf_any ex hex
  unfold parseBody
  rw [List.append_assoc]
  simp only [takeWhile_digs ip _ hip.2 hnF, List.drop_left, Pc.allDigits_of ip hip.1 hip.2]
  cases fp with
  | none =>
    simp only [fracTxt, List.nil_append, fracSplit_none _ (expTxt_ne_dot ex), hxv]
    simp
  | some f =>
    have hf := hfp f rfl
    simp only [fracTxt, List.cons_append, fracSplit_some f _ hf.2 hnE, hxv, Pc.allDigits_of f hf.1 hf.2]
    simp

/-- `Py.parseDecimal` on `[-] ip [. f] [e± xs]` -/
theorem parseDecimal_parts (ip : List Char) (fp : Option (List Char)) (ex : Option (Bool × List Char))
    (hip : Digs ip) (hfp : ∀ f, fp = some f → Digs f) (hex : ∀ b xs, ex = some (b, xs) → Digs xs) :
    Py.parseDecimal (ip ++ fracTxt fp ++ expTxt ex) =
      some (mkDec false (Py.digitsToNat (ip ++ fp.getD [])) (expVal ex - ((fp.getD []).length : Int))) ∧
    Py.parseDecimal ('-' :: (ip ++ fracTxt fp ++ expTxt ex)) =
      some (mkDec true (Py.digitsToNat (ip ++ fp.getD [])) (expVal ex - ((fp.getD []).length : Int))) := by
  constructor
  · rw [parseDecimal_plain, parseBody_parts false ip fp ex hip hfp hex]
    intro r e
    obtain ⟨d, ds, rfl, hd⟩ := hip.cons
    simp only [List.cons_append, List.cons.injEq] at e
    exact (digit_ne hd).2.2.2.1 e.1
  · rw [parseDecimal_minus, parseBody_parts true ip fp ex hip hfp hex]

theorem pow_balance (D u a b t e f : Nat) (h : u + a + b = t + e + f) :
    D * 10 ^ u * 10 ^ a * 10 ^ b = D * 10 ^ t * 10 ^ e * 10 ^ f := by
  simp only [Nat.mul_assoc, ← Nat.pow_add]
  congr 2

end JPV.Proofs.Float
