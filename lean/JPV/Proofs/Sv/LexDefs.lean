/-
`Proofs.Sv.LexDefs` (copy of `Sf.LexDefs` for the relations of `Sv.Shape` and the judgements of `Sv.Judge`) — the statements of the LEXER INVERSION, one per level of the token-shape relations of
`Sf.Shape`, indexed by a bound `n` on the number of tokens: a successful run of the lexer that emits the tokens
of a phrase reads a text for which the grammar's judgement (`Sf.Judge`) of that level holds.
-/
import JPV.Proofs.Sf.LexDefs
import JPV.Proofs.Sv.Judge
import JPV.Proofs.Sv.Shape
set_option linter.unusedSimpArgs false
set_option linter.unusedVariables false
namespace JPV.Proofs.Sv
open JPV JPV.Impl JPV.Proofs.Rq JPV.Proofs.Cs JPV.Proofs.Ss JPV.Proofs.Sf

variable [SigC]

def PTerm (lf : Lexer) (n : Nat) : Prop :=
  ∀ (e : Expr) (ts : List Token), TermD e ts → ts.length < n →
  ∀ (d : Int) (br : List (Char × Nat)) (x : List Char) (nxt : Token) (out : List Token), 0 < d →
    FCfg lf d br x (ts ++ nxt :: out) → folT nxt.kind = true →
    ∃ rest, HTerm (Spec.skipS x) e rest ∧ FCfg lf d br rest (nxt :: out) ∧
      (∃ c t, Spec.skipS x = c :: t ∧ c ≠ '!' ∧ c ≠ '(')

def PBasic (lf : Lexer) (n : Nat) : Prop :=
  ∀ (e : Expr) (ts : List Token), BasicD e ts → ts.length < n →
  ∀ (d : Int) (br : List (Char × Nat)) (x : List Char) (nxt : Token) (out : List Token), 0 < d →
    FCfg lf d br x (ts ++ nxt :: out) → folB nxt.kind = true →
    ∃ rest, HBasic (Spec.skipS x) e rest ∧ FCfg lf d br rest (nxt :: out)

def PAnd (lf : Lexer) (n : Nat) : Prop :=
  ∀ (e : Expr) (ts : List Token), AndD e ts → ts.length < n →
  ∀ (d : Int) (br : List (Char × Nat)) (x : List Char) (nxt : Token) (out : List Token), 0 < d →
    FCfg lf d br x (ts ++ nxt :: out) → folA nxt.kind = true →
    ∃ rest, HAnd (Spec.skipS x) e rest ∧ FCfg lf d br rest (nxt :: out)

def POr (lf : Lexer) (n : Nat) : Prop :=
  ∀ (e : Expr) (ts : List Token), OrD e ts → ts.length < n →
  ∀ (d : Int) (br : List (Char × Nat)) (x : List Char) (nxt : Token) (out : List Token), 0 < d →
    FCfg lf d br x (ts ++ nxt :: out) → folO nxt.kind = true →
    ∃ rest, HOr (Spec.skipS x) e rest ∧ FCfg lf d br rest (nxt :: out)

def PArg (lf : Lexer) (n : Nat) : Prop :=
  ∀ (a : Expr) (ts : List Token), ArgD a ts → ts.length < n →
  ∀ (d : Int) (br : List (Char × Nat)) (x : List Char) (nxt : Token) (out : List Token), 0 < d →
    FCfg lf d br x (ts ++ nxt :: out) → (nxt.kind = .comma ∨ nxt.kind = .rparen) →
    ∃ rest, HArg (Spec.skipS x) (startsLp ts) a rest ∧ FCfg lf d br rest (nxt :: out)

def PMoreArgs (lf : Lexer) (n : Nat) : Prop :=
  ∀ (as : List Expr) (bs : List Bool) (ts : List Token), MoreArgsD as bs ts → ts.length < n →
  ∀ (d : Int) (i : Nat) (br : List (Char × Nat)) (x : List Char) (rp : Token) (out : List Token), 0 < d →
    FCfg lf d (('(', i) :: br) x (ts ++ rp :: out) → rp.kind = .rparen →
    ∃ r3 rest, HMoreArgs x as bs r3 ∧ Spec.skipS r3 = ')' :: rest ∧ FCfg lf d br rest out

def PSel (lf : Lexer) (n : Nat) : Prop :=
  ∀ (s : Selector) (ts : List Token), SelD s ts → ts.length < n →
  ∀ (d : Int) (i : Nat) (br : List (Char × Nat)) (x : List Char) (y : Token) (out : List Token), 0 ≤ d →
    BCfg lf d (('[', i) :: br) x (ts ++ y :: out) → (y.kind = .comma ∨ y.kind = .rbracket) →
    ∃ r2, HSel (Spec.skipS x) s r2 ∧ ECfg lf d i br r2 (y :: out)

def PMoreSels (lf : Lexer) (n : Nat) : Prop :=
  ∀ (ss : List Selector) (ts : List Token), MoreSelsD ss ts → ts.length < n →
  ∀ (d : Int) (i : Nat) (br : List (Char × Nat)) (r2 : List Char) (rb : Token) (out : List Token), 0 ≤ d →
    ECfg lf d i br r2 (ts ++ rb :: out) → rb.kind = .rbracket →
    ∃ r3 rest, HMoreSels r2 ss r3 ∧ Spec.skipS r3 = ']' :: rest ∧ SCfg lf d br rest out

def PSels (lf : Lexer) (n : Nat) : Prop :=
  ∀ (ss : List Selector) (ts : List Token), SelsD ss ts → ts.length < n →
  ∀ (d : Int) (i : Nat) (br : List (Char × Nat)) (x : List Char) (rb : Token) (out : List Token), 0 ≤ d →
    BCfg lf d (('[', i) :: br) x (ts ++ rb :: out) → rb.kind = .rbracket →
    ∃ rest, HBrk ('[' :: x) ss rest ∧ SCfg lf d br rest out

def PSeg (lf : Lexer) (n : Nat) : Prop :=
  ∀ (s : Segment) (ts : List Token), SegD s ts → ts.length < n →
  ∀ (d : Int) (br : List (Char × Nat)) (x : List Char) (out : List Token), 0 ≤ d →
    SCfg lf d br x (ts ++ out) →
    ∃ rest, HSeg (Spec.skipS x) s rest ∧ SCfg lf d br rest out

/-- the segments of a query embedded in a filter -/
def PSegs (lf : Lexer) (n : Nat) : Prop :=
  ∀ (q : Query) (ts : List Token), SegsD q ts → ts.length < n →
  ∀ (d : Int) (br : List (Char × Nat)) (x : List Char) (nxt : Token) (out : List Token), 0 < d →
    SCfg lf d br x (ts ++ nxt :: out) → folT nxt.kind = true →
    ∃ rest, HSegs x q rest ∧ FCfg lf d br rest (nxt :: out)

/-- the segments of the top-level query, up to the EOF token -/
def PTop (lf : Lexer) (n : Nat) : Prop :=
  ∀ (q : Query) (ts : List Token), SegsD q ts → ts.length < n →
  ∀ (x : List Char) (e : Token) (out : List Token), SCfg lf 0 [] x (ts ++ e :: out) → e.kind = .eof →
    HSegs x q []

end JPV.Proofs.Sv
