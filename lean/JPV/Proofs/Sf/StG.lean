/-
`Proofs.Sf.StG` — the list view `St` of the lexer object and the single-step / first-token descriptions of
`Rq.LexExec`, `Rq.LexSteps`, `Cs.LexBasics`, `Cs.LexSeg`, `Cs.LexBrk`, `Ss.LexStep`, generalised to an arbitrary
filter depth `d` (`StG d`; `St = StG 0`), and the string states to both return states.
(Mechanically derived from those files.)
-/
import JPV.Proofs.Ss.LexSegs
set_option linter.unusedSimpArgs false
set_option linter.unusedVariables false
namespace JPV.Proofs.Sf
open JPV JPV.Impl JPV.Proofs.Rq JPV.Proofs.Cs JPV.Proofs.Ss

/-- the text is `pre ++ cur ++ rest` with `start` after `pre` and `pos` after `cur`; the tokens and
open brackets are `toks` and `br`; filter depth `d` -/
structure StG (d : Int) (l : Lexer) (pre cur rest : List Char) (toks : List Token) (br : List (Char × Nat)) : Prop where
  q : l.q.toList = pre ++ (cur ++ rest)
  start : l.start = pre.length
  pos : l.pos = pre.length + cur.length
  toks : l.toks = toks
  br : l.brackets = br
  fd : l.filterDepth = d

section
variable {l : Lexer} {pre cur rest : List Char} {toks : List Token} {br : List (Char × Nat)} {d : Int}

theorem StG.peek (h : StG d l pre cur rest toks br) : l.peek = rest.head? := by
  rw [peek_eq, h.q, h.pos, ← List.append_assoc]
  rw [List.getElem?_append_right (by simp)]
  simp [List.head?_eq_getElem?]

theorem StG.restFrom (h : StG d l pre cur rest toks br) : l.restFrom = rest := by
  rw [Lexer.restFrom_eq, h.q, h.pos, ← List.append_assoc]
  rw [List.drop_append_of_le_length (by simp)]
  simp

theorem StG.slice (h : StG d l pre cur rest toks br) : l.slice l.start l.pos = cur := by
  rw [Lexer.slice_eq, h.q, h.pos, h.start]
  simp

theorem StG.adv {c : Char} {r : List Char} (h : StG d l pre cur (c :: r) toks br) :
    StG d l.adv pre (cur ++ [c]) r toks br := by
  have hp : l.peek = some c := by rw [h.peek]; rfl
  have hpos := Lexer.adv_pos_some hp
  refine ⟨by simp [h.q], by simp [h.start], by simp [hpos, h.pos]; omega, by simp [h.toks],
    by simp [h.br], ?_⟩
  have := h.fd
  unfold Lexer.adv Lexer.next; split <;> exact this

theorem StG.emit (h : StG d l pre cur rest toks br) (k : TokKind) :
    StG d (l.emit k) (pre ++ cur) [] rest (⟨k, cur, pre.length⟩ :: toks) br := by
  refine ⟨by simp [Lexer.emit, h.q], by simp [Lexer.emit, h.pos], by simp [Lexer.emit, h.pos], ?_,
    h.br, h.fd⟩
  show (⟨k, l.slice l.start l.pos, l.start⟩ : Token) :: l.toks = _
  rw [h.slice, h.start, h.toks]

theorem StG.ignore (h : StG d l pre cur rest toks br) : StG d l.ignore (pre ++ cur) [] rest toks br :=
  ⟨by simp [Lexer.ignore, h.q], by simp [Lexer.ignore, h.pos], by simp [Lexer.ignore, h.pos],
    h.toks, h.br, h.fd⟩

theorem StG.pushBracket (h : StG d l pre cur rest toks br) (c : Char) (i : Nat) :
    StG d (l.pushBracket c i) pre cur rest toks ((c, i) :: br) :=
  ⟨h.q, h.start, h.pos, h.toks, by simp [Lexer.pushBracket, h.br], h.fd⟩

theorem StG.popBracket {b : Char × Nat} (h : StG d l pre cur rest toks (b :: br)) :
    StG d { l with brackets := br } pre cur rest toks br :=
  ⟨h.q, h.start, h.pos, h.toks, rfl, h.fd⟩

theorem StG.backup {c : Char} (h : StG d l pre (cur ++ [c]) rest toks br) :
    ∃ l', l.backup = .ok l' ∧ StG d l' pre cur (c :: rest) toks br := by
  refine ⟨{ l with pos := l.pos - 1 }, ?_, by simp [h.q], h.start, by simp [h.pos], h.toks, h.br, h.fd⟩
  unfold Lexer.backup
  rw [if_neg]
  rw [h.pos, h.start]; simp

theorem StG.acceptMatch (h : StG d l pre cur rest toks br) {re : List Char → Option Nat} {k : Nat}
    (hre : re rest = some k) (hk : k ≤ rest.length) :
    ∃ l', l.acceptMatch re = some l' ∧ StG d l' pre (cur ++ rest.take k) (rest.drop k) toks br := by
  refine ⟨{ l with pos := l.pos + k }, by simp [Lexer.acceptMatch, h.restFrom, hre], by simp [h.q], h.start, ?_, h.toks, h.br, h.fd⟩
  simp [h.pos]; omega

/-- no whitespace to skip -/
theorem StG.ws_none (h : StG d l pre [] rest toks br) (hr : ∀ c, rest.head? = some c → isWs c = false) :
    l.ignoreWhitespace = .ok (false, l) := by
  unfold Lexer.ignoreWhitespace
  have : l.pos = l.start := by rw [h.pos, h.start]; simp
  rw [if_neg (by simp [this])]
  have hm : l.acceptMatch reWhitespace = none := by
    simp only [Lexer.acceptMatch, h.restFrom, reWhitespace]
    cases rest with
    | nil => simp [spanLen]
    | cons c r => simp [spanLen, hr c rfl]
  rw [hm]

end

variable {l lf : Lexer} {pre cur rest inp : List Char} {toks : List Token} {br : List (Char × Nat)} {d : Int}

theorem StG.decFd (h : StG d l pre cur rest toks br) :
    StG (d - 1) { l with filterDepth := l.filterDepth - 1 } pre cur rest toks br :=
  ⟨h.q, h.start, h.pos, h.toks, h.br, by show l.filterDepth - 1 = d - 1; rw [h.fd]⟩

theorem StG.incFd (h : StG d l pre cur rest toks br) :
    StG (d + 1) { l with filterDepth := l.filterDepth + 1 } pre cur rest toks br :=
  ⟨h.q, h.start, h.pos, h.toks, h.br, by show l.filterDepth + 1 = d + 1; rw [h.fd]⟩

theorem lexRoot_exec (h : StG d l pre [] ('$' :: rest) toks br) :
    Impl.step .root l = .ok (l.adv.emit .root, some .segment) := by
  have hp : l.peek = some '$' := by rw [h.peek]; rfl
  simp [Impl.step, lexRoot, Lexer.next_eq, hp, goto]

theorem lexSegment_eof (h : StG d l pre [] [] toks br) :
    Impl.step .segment l = .ok (l.adv.emit .eof, none) := by
  have hp : l.peek = none := by rw [h.peek]; rfl
  have hw := h.ws_none (by simp)
  simp [Impl.step, lexSegment, hw, Lexer.next_eq, hp, stop, bind, Except.bind]

theorem lexSegment_lbracket (h : StG d l pre [] ('[' :: rest) toks br) :
    Impl.step .segment l = .ok ((l.adv.emit .lbracket).pushBracket '[' ((l.adv.emit .lbracket).pos - 1),
      some .bracketed) := by
  have hp : l.peek = some '[' := by rw [h.peek]; rfl
  have hw := h.ws_none (by simp [isWs])
  simp [Impl.step, lexSegment, hw, Lexer.next_eq, hp, goto, bind, Except.bind]


theorem lexBracketed_quote (h : StG d l pre [] ('\'' :: rest) toks br) :
    Impl.step .bracketed l = .ok (l.adv, some (.strStart '\'' false)) := by
  have hp : l.peek = some '\'' := by rw [h.peek]; rfl
  have hw := h.ws_none (by simp [isWs])
  simp [Impl.step, lexBracketed, hw, Lexer.next_eq, hp, goto, bind, Except.bind]

theorem lexBracketed_rbracket {i : Nat} (h : StG d l pre [] (']' :: rest) toks (('[', i) :: br)) :
    Impl.step .bracketed l = .ok (({ l.adv with brackets := br } : Lexer).emit .rbracket, some .segment) := by
  have hp : l.peek = some ']' := by rw [h.peek]; rfl
  have hw := h.ws_none (by simp [isWs])
  simp [Impl.step, lexBracketed, hw, Lexer.next_eq, hp, goto, bind, Except.bind, h.br]

theorem lexStrStart_exec {q : Char} {f : Bool} (h : StG d l pre cur rest toks br) (hr : rest ≠ []) :
    Impl.step (.strStart q f) l = .ok (l.ignore, some (.strLoop q f)) := by
  cases rest with
  | nil => exact absurd rfl hr
  | cons c rest =>
    have hp : l.ignore.peek = some c := by rw [h.ignore.peek]; rfl
    simp [Impl.step, lexStrStart, hp, goto]

theorem lexStrLoop_plain {q : Char} {f : Bool} {c : Char} (h : StG d l pre cur (c :: rest) toks br)
    (h1 : c ≠ '\\') (h2 : c ≠ q) :
    Impl.step (.strLoop q f) l = .ok (l.adv, some (.strLoop q f)) := by
  have hp : l.peek = some c := by rw [h.peek]; rfl
  simp [Impl.step, lexStrLoop, Lexer.next_eq, hp, goto, h1, h2]

theorem lexStrLoop_esc {q : Char} {f : Bool} {p : Char} (h : StG d l pre cur ('\\' :: p :: rest) toks br)
    (h1 : (isEscapeChar p || p = q) = true) :
    Impl.step (.strLoop q f) l = .ok (l.adv.adv, some (.strLoop q f)) := by
  have hp : l.peek = some '\\' := by rw [h.peek]; rfl
  have hp2 : l.adv.peek = some p := by rw [h.adv.peek]; rfl
  simp only [Bool.or_eq_true, decide_eq_true_eq] at h1
  simp [Impl.step, lexStrLoop, Lexer.next_eq, hp, hp2, goto, h1]

theorem lexStrLoop_close {q : Char} {f : Bool} (h : StG d l pre cur (q :: rest) toks br) (hq : q ≠ '\\') :
    ∃ l', Impl.step (.strLoop q f) l = .ok (l', some (retState f)) ∧
      StG d l' (pre ++ cur ++ [q]) [] rest (⟨strKind q, cur, pre.length⟩ :: toks) br := by
  have hp : l.peek = some q := by rw [h.peek]; rfl
  obtain ⟨l1, hb, h1⟩ := h.adv.backup
  have h2 := ((h1.emit (strKind q)).adv).ignore
  refine ⟨_, ?_, by simpa using h2⟩
  simp [Impl.step, lexStrLoop, Lexer.next_eq, hp, goto, hq, bind, Except.bind, hb]

theorem lexBracketed_index {c : Char} {r : List Char} (h : StG d l pre [] (c :: r) toks br)
    (hd : isDigit c = true) {k : Nat} (hre : reIndex (c :: r) = some k) (hk : k ≤ (c :: r).length)
    {tk dr : List Char} (e1 : (c :: r).take k = tk) (e2 : (c :: r).drop k = dr) :
    ∃ l', Impl.step .bracketed l = .ok (l', some .bracketed) ∧
      StG d l' (pre ++ tk) [] dr (⟨.index, tk, pre.length⟩ :: toks) br := by
  subst e1 e2
  have hp : l.peek = some c := by rw [h.peek]; rfl
  have hw := h.ws_none (by
    intro c' hc'; simp at hc'; subst hc'; exact digit_not_ws hd)
  obtain ⟨l1, hb, h1⟩ := h.adv.backup
  obtain ⟨l2, hm, h2⟩ := h1.acceptMatch hre hk
  have h3 := h2.emit .index
  simp only [Impl.step, lexBracketed, hw, Lexer.next_eq, hp, bind, Except.bind]
  rw [isDigit_iff] at hd
  split
  all_goals first | (exfalso; rename_i heq; simp only [Option.some.injEq] at heq; subst heq; revert hd; decide) | skip
  · rename_i heq; cases heq
  · simp only [hb, hm, goto]
    exact ⟨_, rfl, by simpa using h3⟩
/-- `ignore_whitespace()` skips exactly the grammar's `S` -/
theorem StG_ws (h : StG d l pre [] rest toks br) :
    ∃ b l' pre', l.ignoreWhitespace = .ok (b, l') ∧ StG d l' pre' [] (Spec.skipS rest) toks br := by
  unfold Lexer.ignoreWhitespace
  have hps : l.pos = l.start := by rw [h.pos, h.start]; simp
  rw [if_neg (by simp [hps])]
  by_cases hn : spanLen isWs rest = 0
  · have hm : l.acceptMatch reWhitespace = none := by
      simp [Lexer.acceptMatch, h.restFrom, reWhitespace, hn]
    rw [hm]
    refine ⟨false, l, pre, rfl, ?_⟩
    rw [skipS_eq, hn]; exact h
  · have hre : reWhitespace rest = some (spanLen isWs rest) := by simp [reWhitespace, hn]
    obtain ⟨l', hm, h'⟩ := h.acceptMatch hre (Cs.spanLen_le _ _)
    rw [hm]
    refine ⟨true, l'.ignore, pre ++ ([] ++ rest.take (spanLen isWs rest)), rfl, ?_⟩
    rw [skipS_eq]
    exact h'.ignore

theorem step_bracketed_ws (h : StG d l pre [] rest toks br) :
    ∃ l1 pre', StG d l1 pre' [] (Spec.skipS rest) toks br ∧ Impl.step .bracketed l = Impl.step .bracketed l1 := by
  obtain ⟨b, l1, pre', hw, h1⟩ := StG_ws h
  have hw1 := h1.ws_none (skipS_head rest)
  exact ⟨l1, pre', h1, by simp only [Impl.step, lexBracketed, hw, hw1, bind, Except.bind]⟩

theorem step_segment_ws (h : StG d l pre [] rest toks br) (hne : Spec.skipS rest ≠ []) :
    ∃ l1 pre', StG d l1 pre' [] (Spec.skipS rest) toks br ∧ Impl.step .segment l = Impl.step .segment l1 := by
  obtain ⟨b, l1, pre', hw, h1⟩ := StG_ws h
  have hw1 := h1.ws_none (skipS_head rest)
  have hp : l1.peek.isNone = false := by
    rw [h1.peek]
    cases hr : Spec.skipS rest with
    | nil => exact absurd hr hne
    | cons => rfl
  exact ⟨l1, pre', h1, by simp [Impl.step, lexSegment, hw, hw1, bind, Except.bind, hp]⟩
theorem lexSegment_dotdot (h : StG d l pre [] ('.' :: '.' :: rest) toks br) :
    Impl.step .segment l = .ok (l.adv.adv.emit .doubleDot, some .descendant) := by
  have hp : l.peek = some '.' := by rw [h.peek]; rfl
  have hp2 : l.adv.peek = some '.' := by rw [h.adv.peek]; rfl
  have hw := h.ws_none (by simp [isWs])
  simp [Impl.step, lexSegment, hw, Lexer.next_eq, hp, hp2, goto, bind, Except.bind]

theorem lexSegment_dot {c : Char} (h : StG d l pre [] ('.' :: c :: rest) toks br) (hc : c ≠ '.') :
    Impl.step .segment l = .ok (l.adv, some .shorthand) := by
  have hp : l.peek = some '.' := by rw [h.peek]; rfl
  have hp2 : l.adv.peek = some c := by rw [h.adv.peek]; rfl
  have hw := h.ws_none (by simp [isWs])
  simp [Impl.step, lexSegment, hw, Lexer.next_eq, hp, hp2, goto, bind, Except.bind, hc]

theorem lexDescendant_wild (h : StG d l pre [] ('*' :: rest) toks br) :
    Impl.step .descendant l = .ok (l.adv.emit .wild, some .segment) := by
  have hp : l.peek = some '*' := by rw [h.peek]; rfl
  simp [Impl.step, lexDescendant, Lexer.next_eq, hp, goto, bind, Except.bind]

theorem lexDescendant_lbracket (h : StG d l pre [] ('[' :: rest) toks br) :
    Impl.step .descendant l = .ok ((l.adv.emit .lbracket).pushBracket '[' ((l.adv.emit .lbracket).pos - 1),
      some .bracketed) := by
  have hp : l.peek = some '[' := by rw [h.peek]; rfl
  simp [Impl.step, lexDescendant, Lexer.next_eq, hp, goto, bind, Except.bind]

theorem lexDescendant_name {c : Char} {r : List Char} (h : StG d l pre [] (c :: r) toks br)
    (hc : Impl.isNameFirst c = true) {k : Nat} (hre : reProperty (c :: r) = some k) (hk : k ≤ (c :: r).length) :
    ∃ l', Impl.step .descendant l = .ok (l', some .segment) ∧
      StG d l' (pre ++ (c :: r).take k) [] ((c :: r).drop k) (⟨.property, (c :: r).take k, pre.length⟩ :: toks) br := by
  have hp : l.peek = some c := by rw [h.peek]; rfl
  obtain ⟨l1, hb, h1⟩ := h.adv.backup
  obtain ⟨l2, hm, h2⟩ := h1.acceptMatch hre hk
  have h3 := h2.emit .property
  obtain ⟨n1, n2, _⟩ := nameFirst_ne hc
  refine ⟨_, ?_, by simpa using h3⟩
  simp only [Impl.step, lexDescendant, Lexer.next_eq, hp, bind, Except.bind, hb, hm, goto]

theorem lexShorthand_wild (h : StG d l pre cur ('*' :: rest) toks br) :
    Impl.step .shorthand l = .ok (l.ignore.adv.emit .wild, some .segment) := by
  have h1 := h.ignore
  have hp : l.ignore.peek = some '*' := by rw [h1.peek]; rfl
  have hm : l.ignore.acceptMatch reWhitespace = none := by
    simp [Lexer.acceptMatch, h1.restFrom, reWs_none (c := '*') (by decide)]
  simp [Impl.step, lexShorthand, Lexer.next_eq, hp, hm, goto, bind, Except.bind]

theorem lexShorthand_name {c : Char} {r : List Char} (h : StG d l pre cur (c :: r) toks br)
    (hc : Impl.isNameFirst c = true) {k : Nat} (hre : reProperty (c :: r) = some k) (hk : k ≤ (c :: r).length) :
    ∃ l', Impl.step .shorthand l = .ok (l', some .segment) ∧
      StG d l' (pre ++ cur ++ (c :: r).take k) [] ((c :: r).drop k)
        (⟨.property, (c :: r).take k, (pre ++ cur).length⟩ :: toks) br := by
  have h0 := h.ignore
  have hp : l.ignore.peek = some c := by rw [h0.peek]; rfl
  have hmw : l.ignore.acceptMatch reWhitespace = none := by
    simp [Lexer.acceptMatch, h0.restFrom, reWs_none (nameFirst_not_ws hc)]
  obtain ⟨l1, hb, h1⟩ := h0.adv.backup
  obtain ⟨l2, hm, h2⟩ := h1.acceptMatch hre hk
  have h3 := h2.emit .property
  obtain ⟨n1, _, _⟩ := nameFirst_ne hc
  refine ⟨_, ?_, by simpa using h3⟩
  simp [Impl.step, lexShorthand, Lexer.next_eq, hp, hmw, goto, bind, Except.bind, n1, hb, hm]

theorem lexBracketed_dquote (h : StG d l pre [] ('"' :: rest) toks br) :
    Impl.step .bracketed l = .ok (l.adv, some (.strStart '"' false)) := by
  have hp : l.peek = some '"' := by rw [h.peek]; rfl
  have hw := h.ws_none (by simp [isWs])
  simp [Impl.step, lexBracketed, hw, Lexer.next_eq, hp, goto, bind, Except.bind]

theorem lexBracketed_wild (h : StG d l pre [] ('*' :: rest) toks br) :
    Impl.step .bracketed l = .ok (l.adv.emit .wild, some .bracketed) := by
  have hp : l.peek = some '*' := by rw [h.peek]; rfl
  have hw := h.ws_none (by simp [isWs])
  simp [Impl.step, lexBracketed, hw, Lexer.next_eq, hp, goto, bind, Except.bind]

theorem lexBracketed_comma (h : StG d l pre [] (',' :: rest) toks br) :
    Impl.step .bracketed l = .ok (l.adv.emit .comma, some .bracketed) := by
  have hp : l.peek = some ',' := by rw [h.peek]; rfl
  have hw := h.ws_none (by simp [isWs])
  simp [Impl.step, lexBracketed, hw, Lexer.next_eq, hp, goto, bind, Except.bind]

theorem lexBracketed_colon (h : StG d l pre [] (':' :: rest) toks br) :
    Impl.step .bracketed l = .ok (l.adv.emit .colon, some .bracketed) := by
  have hp : l.peek = some ':' := by rw [h.peek]; rfl
  have hw := h.ws_none (by simp [isWs])
  simp [Impl.step, lexBracketed, hw, Lexer.next_eq, hp, goto, bind, Except.bind]

theorem lexBracketed_minus {r : List Char} (h : StG d l pre [] ('-' :: r) toks br)
    {k : Nat} (hre : reIndex ('-' :: r) = some k) (hk : k ≤ ('-' :: r).length) :
    ∃ l', Impl.step .bracketed l = .ok (l', some .bracketed) ∧
      StG d l' (pre ++ ('-' :: r).take k) [] (('-' :: r).drop k) (⟨.index, ('-' :: r).take k, pre.length⟩ :: toks) br := by
  have hp : l.peek = some '-' := by rw [h.peek]; rfl
  have hw := h.ws_none (by simp [isWs])
  obtain ⟨l1, hb, h1⟩ := h.adv.backup
  obtain ⟨l2, hm, h2⟩ := h1.acceptMatch hre hk
  have h3 := h2.emit .index
  refine ⟨_, ?_, by simpa using h3⟩
  simp [Impl.step, lexBracketed, hw, Lexer.next_eq, hp, goto, bind, Except.bind, hb, hm]

/-- an INDEX token -/
theorem lexBracketed_int {c : Char} {r : List Char} (h : StG d l pre [] (c :: r) toks br)
    (hc : isDigit c = true ∨ c = '-') {k : Nat} (hre : reIndex (c :: r) = some k) (hk : k ≤ (c :: r).length) :
    ∃ l', Impl.step .bracketed l = .ok (l', some .bracketed) ∧
      StG d l' (pre ++ (c :: r).take k) [] ((c :: r).drop k) (⟨.index, (c :: r).take k, pre.length⟩ :: toks) br := by
  rcases hc with hd | rfl
  · exact lexBracketed_index h hd hre hk rfl rfl
  · exact lexBracketed_minus h hre hk


/-! ### blank space -/

/-- `ignore_whitespace()` with its flag -/
theorem StG_ws' (h : StG d l pre [] rest toks br) :
    ∃ l' pre', l.ignoreWhitespace = .ok (decide (spanLen isWs rest ≠ 0), l') ∧
      StG d l' pre' [] (Spec.skipS rest) toks br := by
  unfold Lexer.ignoreWhitespace
  have hps : l.pos = l.start := by rw [h.pos, h.start]; simp
  rw [if_neg (by simp [hps])]
  by_cases hn : spanLen isWs rest = 0
  · have hm : l.acceptMatch reWhitespace = none := by
      simp [Lexer.acceptMatch, h.restFrom, reWhitespace, hn]
    rw [hm]
    refine ⟨l, pre, by simp [hn], ?_⟩
    rw [skipS_eq, hn]; exact h
  · have hre : reWhitespace rest = some (spanLen isWs rest) := by simp [reWhitespace, hn]
    obtain ⟨l', hm, h'⟩ := h.acceptMatch hre (Cs.spanLen_le _ _)
    rw [hm]
    refine ⟨l'.ignore, pre ++ ([] ++ rest.take (spanLen isWs rest)), by simp [hn], ?_⟩
    rw [skipS_eq]
    exact h'.ignore

theorem spanLen_zero_skipS {r : List Char} (h : spanLen isWs r = 0) : Spec.skipS r = r := by
  rw [skipS_eq, h]; rfl

/-! ### the root state -/

theorem root_first (hst : StG d l pre [] inp toks br) (hh : Halts .root l lf) (hg : ¬ Bad lf) :
    ∃ r l', inp = '$' :: r ∧ StG d l' (pre ++ ['$']) [] r (⟨.root, ['$'], pre.length⟩ :: toks) br ∧
      Halts .segment l' lf := by
  cases inp with
  | nil =>
    have hp : l.peek = none := by rw [hst.peek]; rfl
    have hs : Impl.step .root l = .ok (l.adv.error, none) := by
      simp [Impl.step, lexRoot, Lexer.next_eq, hp, stop]
    rw [hh.step_none hs] at hg
    exact absurd Bad.of_error hg
  | cons c r =>
    by_cases hc : c = '$'
    · subst hc
      have hs := lexRoot_exec hst
      have h1 := hst.adv.emit .root
      exact ⟨r, _, rfl, by simpa using h1, hh.step_some hs⟩
    · have hp : l.peek = some c := by rw [hst.peek]; rfl
      have hs : Impl.step .root l = .ok (l.adv.error, none) := by
        simp [Impl.step, lexRoot, Lexer.next_eq, hp, stop, hc]
      rw [hh.step_none hs] at hg
      exact absurd Bad.of_error hg

/-! ### the shorthand state -/

theorem reProperty_some {c : Char} {r : List Char} (hc : Impl.isNameFirst c = true) :
    reProperty (c :: r) = some (1 + spanLen isNameChar r) := by
  simp [reProperty, hc]

theorem reProperty_none {c : Char} {r : List Char} (hc : Impl.isNameFirst c = false) :
    reProperty (c :: r) = none := by
  simp [reProperty, hc]

theorem shorthand_first (hst : StG d l pre cur rest toks br) (hh : Halts .shorthand l lf) (hg : ¬ Bad lf) :
    (∃ r l', rest = '*' :: r ∧
      StG d l' (pre ++ cur ++ ['*']) [] r (⟨.wild, ['*'], (pre ++ cur).length⟩ :: toks) br ∧
      Halts .segment l' lf) ∨
    (∃ c r n l', rest = c :: r ∧ Impl.isNameFirst c = true ∧ reProperty (c :: r) = some n ∧
      StG d l' (pre ++ cur ++ (c :: r).take n) [] ((c :: r).drop n)
        (⟨.property, (c :: r).take n, (pre ++ cur).length⟩ :: toks) br ∧
      Halts .segment l' lf) := by
  have h0 := hst.ignore
  cases rest with
  | nil =>
    exfalso
    have hp : l.ignore.peek = none := by rw [h0.peek]; rfl
    have hmw : l.ignore.acceptMatch reWhitespace = none := by
      simp [Lexer.acceptMatch, h0.restFrom, reWhitespace, spanLen]
    have hb : l.ignore.backup = .error ⟨.syntax, some l.ignore.errTok⟩ := by
      simp [Lexer.backup, Lexer.ignore]
    have hs : Impl.step .shorthand l = .error ⟨.syntax, some l.ignore.errTok⟩ := by
      simp [Impl.step, lexShorthand, Lexer.next_eq, hp, hmw, Lexer.adv_none hp, hb, bind, Except.bind]
    exact hh.step_error hs
  | cons c r =>
    by_cases hw : isWs c = true
    · exfalso
      have hre : reWhitespace (c :: r) = some (spanLen isWs (c :: r)) := by
        simp [reWhitespace, spanLen, hw]
      obtain ⟨l1, hm, _⟩ := h0.acceptMatch hre (Cs.spanLen_le _ _)
      have hs : Impl.step .shorthand l = .ok (l1.error, none) := by
        simp [Impl.step, lexShorthand, hm, stop, bind, Except.bind]
      rw [hh.step_none hs] at hg
      exact hg Bad.of_error
    · have hw' : isWs c = false := by simpa using hw
      by_cases hc : c = '*'
      · subst hc
        left
        have hs := lexShorthand_wild hst
        have h2 := h0.adv.emit .wild
        exact ⟨r, _, rfl, by simpa using h2, hh.step_some hs⟩
      · by_cases hn : Impl.isNameFirst c = true
        · right
          have hre := reProperty_some (r := r) hn
          obtain ⟨l2, hs, h2⟩ := lexShorthand_name hst hn hre (reProperty_bounded _ _ hre)
          exact ⟨c, r, _, l2, rfl, hn, hre, h2, hh.step_some hs⟩
        · exfalso
          have hn' : Impl.isNameFirst c = false := by simpa using hn
          have hp : l.ignore.peek = some c := by rw [h0.peek]; rfl
          have hmw : l.ignore.acceptMatch reWhitespace = none := by
            simp [Lexer.acceptMatch, h0.restFrom, reWs_none hw']
          obtain ⟨l1, hb, h1⟩ := h0.adv.backup
          have hm : l1.acceptMatch reProperty = none := by
            simp [Lexer.acceptMatch, h1.restFrom, reProperty_none hn']
          have hs : Impl.step .shorthand l = .ok (l1.error, none) := by
            simp [Impl.step, lexShorthand, Lexer.next_eq, hp, hmw, stop, bind, Except.bind, hc, hb, hm]
          rw [hh.step_none hs] at hg
          exact hg Bad.of_error

/-! ### the segment state -/

theorem lexSegment_dot' {r : List Char} (h : StG d l pre [] ('.' :: r) toks br) (hr : r.head? ≠ some '.') :
    Impl.step .segment l = .ok (l.adv, some .shorthand) := by
  have hp : l.peek = some '.' := by rw [h.peek]; rfl
  have hp2 : l.adv.peek = r.head? := by rw [h.adv.peek]
  have hw := h.ws_none (by simp [isWs])
  simp [Impl.step, lexSegment, hw, Lexer.next_eq, hp, hp2, goto, bind, Except.bind, hr]

/-- what a successful run does from the segment state up to its first token -/
theorem seg_first (hst : StG d l pre [] inp toks br) (hh : Halts .segment l lf) (hg : ¬ Bad lf) :
    (inp = [] ∧ ∃ k, lf.toks = ⟨.eof, [], k⟩ :: toks) ∨
    (∃ r l' pre' k, Spec.skipS inp = '.' :: '.' :: r ∧
      StG d l' pre' [] r (⟨.doubleDot, ['.', '.'], k⟩ :: toks) br ∧ Halts .descendant l' lf) ∨
    (∃ r l' pre' k, Spec.skipS inp = '.' :: '*' :: r ∧
      StG d l' pre' [] r (⟨.wild, ['*'], k⟩ :: toks) br ∧ Halts .segment l' lf) ∨
    (∃ c r n l' pre' k, Spec.skipS inp = '.' :: c :: r ∧ Impl.isNameFirst c = true ∧
      reProperty (c :: r) = some n ∧
      StG d l' pre' [] ((c :: r).drop n) (⟨.property, (c :: r).take n, k⟩ :: toks) br ∧
      Halts .segment l' lf) ∨
    (∃ r l' pre' k i, Spec.skipS inp = '[' :: r ∧
      StG d l' pre' [] r (⟨.lbracket, ['['], k⟩ :: toks) (('[', i) :: br) ∧ Halts .bracketed l' lf) ∨
    (d ≠ 0 ∧ ∃ c r l' pre', Spec.skipS inp = c :: r ∧ c ≠ '.' ∧ c ≠ '[' ∧
      StG d l' pre' [] (c :: r) toks br ∧ Halts .filter l' lf) := by
  cases hsk : Spec.skipS inp with
  | nil =>
    obtain ⟨l1, pre1, hw, h1⟩ := StG_ws' hst
    rw [hsk] at h1
    have hp : l1.peek = none := by rw [h1.peek]; rfl
    by_cases hn : spanLen isWs inp = 0
    · left
      have e : inp = [] := by rw [← spanLen_zero_skipS hn]; exact hsk
      subst e
      have s1 := lexSegment_eof hst
      have hp0 : l.peek = none := by rw [hst.peek]; rfl
      rw [Lexer.adv_none hp0] at s1
      have h2 := hst.emit .eof
      rw [hh.step_none s1]
      exact ⟨rfl, _, h2.toks⟩
    · exfalso
      have hs : Impl.step .segment l = .ok (l1.error, none) := by
        simp [Impl.step, lexSegment, hw, hn, hp, bind, Except.bind, pure, Except.pure]
      rw [hh.step_none hs] at hg
      exact hg Bad.of_error
  | cons c t =>
    right
    obtain ⟨l1, pre1, h1, e1⟩ := step_segment_ws hst (by rw [hsk]; simp)
    rw [hsk] at h1
    have hcw : isWs c = false := skipS_head inp c (by rw [hsk]; rfl)
    by_cases hc : c = '.'
    · subst hc
      by_cases hd : t.head? = some '.'
      · left
        obtain ⟨d, t', rfl⟩ : ∃ d t', t = d :: t' := by
          cases t with
          | nil => simp at hd
          | cons d t' => exact ⟨d, t', rfl⟩
        simp only [List.head?_cons, Option.some.injEq] at hd
        subst hd
        have s1 := lexSegment_dotdot h1
        have h2 := h1.adv.adv.emit .doubleDot
        exact ⟨t', _, _, _, rfl, by simpa using h2, hh.step_some (e1.trans s1)⟩
      · right
        have s1 := lexSegment_dot' h1 hd
        have h2 := h1.adv
        simp only [List.nil_append] at h2
        rcases shorthand_first h2 (hh.step_some (e1.trans s1)) hg with
          ⟨r, l', rfl, h3, hh3⟩ | ⟨c, r, n, l', rfl, hn, hre, h3, hh3⟩
        · left
          exact ⟨r, l', _, _, rfl, h3, hh3⟩
        · right; left
          exact ⟨c, r, n, l', _, _, rfl, hn, hre, h3, hh3⟩
    · by_cases hb : c = '['
      · subst hb
        right; right; right; left
        have s1 := lexSegment_lbracket h1
        have h2 := (h1.adv.emit .lbracket).pushBracket '[' ((l1.adv.emit .lbracket).pos - 1)
        exact ⟨t, _, _, _, _, rfl, by simpa using h2, hh.step_some (e1.trans s1)⟩
      · have hp : l1.peek = some c := by rw [h1.peek]; rfl
        have hw := h1.ws_none (by simp [hcw])
        by_cases hd : d = 0
        · exfalso
          have hs : Impl.step .segment l1 = .ok (l1.adv.error, none) := by
            simp only [Impl.step, lexSegment, hw, Lexer.next_eq, hp, bind, Except.bind]
            have : l1.adv.filterDepth = 0 := by rw [h1.adv.fd]; exact hd
            simp [this, stop]
          rw [hh.step_none (e1.trans hs)] at hg
          exact hg Bad.of_error
        · right; right; right; right
          obtain ⟨l2, hbk, h2⟩ := h1.adv.backup
          have hs : Impl.step .segment l1 = .ok (l2, some .filter) := by
            simp only [Impl.step, lexSegment, hw, Lexer.next_eq, hp, bind, Except.bind]
            have : l1.adv.filterDepth ≠ 0 := by rw [h1.adv.fd]; exact hd
            simp [this, hbk, goto]
          exact ⟨hd, c, t, l2, pre1, rfl, hc, hb, h2, hh.step_some (e1.trans hs)⟩

/-! ### the descendant state -/

theorem desc_first (hst : StG d l pre [] inp toks br) (hh : Halts .descendant l lf) (hg : ¬ Bad lf) :
    (∃ r l' pre' k, inp = '*' :: r ∧
      StG d l' pre' [] r (⟨.wild, ['*'], k⟩ :: toks) br ∧ Halts .segment l' lf) ∨
    (∃ c r n l' pre' k, inp = c :: r ∧ Impl.isNameFirst c = true ∧
      reProperty (c :: r) = some n ∧
      StG d l' pre' [] ((c :: r).drop n) (⟨.property, (c :: r).take n, k⟩ :: toks) br ∧
      Halts .segment l' lf) ∨
    (∃ r l' pre' k i, inp = '[' :: r ∧
      StG d l' pre' [] r (⟨.lbracket, ['['], k⟩ :: toks) (('[', i) :: br) ∧ Halts .bracketed l' lf) := by
  cases inp with
  | nil =>
    exfalso
    have hp : l.peek = none := by rw [hst.peek]; rfl
    have hs : Impl.step .descendant l = .ok (l.adv.error, none) := by
      simp [Impl.step, lexDescendant, Lexer.next_eq, hp, stop, bind, Except.bind]
    rw [hh.step_none hs] at hg
    exact hg Bad.of_error
  | cons c t =>
    by_cases hc : c = '*'
    · subst hc
      left
      have s1 := lexDescendant_wild hst
      have h2 := hst.adv.emit .wild
      exact ⟨t, _, _, _, rfl, by simpa using h2, hh.step_some s1⟩
    · by_cases hb : c = '['
      · subst hb
        right; right
        have s1 := lexDescendant_lbracket hst
        have h2 := (hst.adv.emit .lbracket).pushBracket '[' ((l.adv.emit .lbracket).pos - 1)
        exact ⟨t, _, _, _, _, rfl, by simpa using h2, hh.step_some s1⟩
      · by_cases hn : Impl.isNameFirst c = true
        · right; left
          have hre := reProperty_some (r := t) hn
          obtain ⟨l2, hs, h2⟩ := lexDescendant_name hst hn hre (reProperty_bounded _ _ hre)
          exact ⟨c, t, _, l2, _, _, rfl, hn, hre, h2, hh.step_some hs⟩
        · exfalso
          have hn' : Impl.isNameFirst c = false := by simpa using hn
          have hp : l.peek = some c := by rw [hst.peek]; rfl
          obtain ⟨l1, hbk, h1⟩ := hst.adv.backup
          have hm : l1.acceptMatch reProperty = none := by
            simp [Lexer.acceptMatch, h1.restFrom, reProperty_none hn']
          have hs : Impl.step .descendant l = .ok (l1.adv.error, none) := by
            simp only [Impl.step, lexDescendant, Lexer.next_eq, hp, bind, Except.bind]
            simp [hbk, hm, stop]
          rw [hh.step_none hs] at hg
          exact hg Bad.of_error

/-! ### the string states -/

theorem str_loop {q : Char} (hq : q ≠ '\\') : ∀ (n : Nat) (inp cur : List Char) (l : Lexer), inp.length ≤ n →
    StG d l pre cur inp toks br → Halts (.strLoop q false) l lf → ¬ Bad lf →
    ∃ body rest l', scanString q inp = some (body, rest) ∧
      StG d l' (pre ++ cur ++ body ++ [q]) [] rest (⟨strKind q, cur ++ body, pre.length⟩ :: toks) br ∧
      Halts .bracketed l' lf := by
  intro n
  induction n with
  | zero =>
    intro inp cur l hl hst hh hg
    have e : inp = [] := by cases inp with
      | nil => rfl
      | cons => simp at hl
    subst e
    exfalso
    have hp : l.peek = none := by rw [hst.peek]; rfl
    have hs : Impl.step (.strLoop q false) l = .ok (l.adv.error, none) := by
      simp [Impl.step, lexStrLoop, Lexer.next_eq, hp, stop, bind, Except.bind]
    rw [hh.step_none hs] at hg
    exact hg Bad.of_error
  | succ n ih =>
    intro inp cur l hl hst hh hg
    cases inp with
    | nil =>
      exfalso
      have hp : l.peek = none := by rw [hst.peek]; rfl
      have hs : Impl.step (.strLoop q false) l = .ok (l.adv.error, none) := by
        simp [Impl.step, lexStrLoop, Lexer.next_eq, hp, stop, bind, Except.bind]
      rw [hh.step_none hs] at hg
      exact hg Bad.of_error
    | cons c r =>
      have hp : l.peek = some c := by rw [hst.peek]; rfl
      by_cases hc : c = '\\'
      · subst hc
        cases r with
        | nil =>
          exfalso
          have hp2 : l.adv.peek = none := by rw [hst.adv.peek]; rfl
          have hs : Impl.step (.strLoop q false) l = .ok (l.adv.error, none) := by
            simp [Impl.step, lexStrLoop, Lexer.next_eq, hp, hp2, stop, bind, Except.bind]
          rw [hh.step_none hs] at hg
          exact hg Bad.of_error
        | cons p r2 =>
          by_cases he : (isEscapeChar p || p = q) = true
          · have hs := lexStrLoop_esc (f := false) hst he
            obtain ⟨body, rest, l', hsc, h', hh'⟩ := ih r2 (cur ++ ['\\'] ++ [p]) l.adv.adv
              (by simp at hl; omega) hst.adv.adv (hh.step_some hs) hg
            refine ⟨'\\' :: p :: body, rest, l', ?_, by simpa using h', hh'⟩
            rw [scanString.eq_def]
            simp [he, hsc]
          · exfalso
            have hp2 : l.adv.peek = some p := by rw [hst.adv.peek]; rfl
            have he' : ¬ (isEscapeChar p = true ∨ p = q) := by simpa using he
            have hs : Impl.step (.strLoop q false) l = .ok (l.adv.error, none) := by
              simp [Impl.step, lexStrLoop, Lexer.next_eq, hp, hp2, stop, bind, Except.bind, he']
            rw [hh.step_none hs] at hg
            exact hg Bad.of_error
      · by_cases hcq : c = q
        · subst hcq
          obtain ⟨l', hs, h'⟩ := lexStrLoop_close (f := false) hst hq
          refine ⟨[], r, l', ?_, by simpa [retState] using h', by simpa [retState] using hh.step_some hs⟩
          rw [scanString.eq_def]
          simp [hc]
        · have hs := lexStrLoop_plain (f := false) hst hc hcq
          obtain ⟨body, rest, l', hsc, h', hh'⟩ := ih r (cur ++ [c]) l.adv
            (by simp at hl; omega) hst.adv (hh.step_some hs) hg
          refine ⟨c :: body, rest, l', ?_, by simpa using h', hh'⟩
          rw [scanString.eq_def]
          simp [hc, hcq, hsc]

/-! ### the bracketed state -/

theorem brk_nil (hst : StG d l pre [] inp toks br) (hsk : Spec.skipS inp = []) (hh : Halts .bracketed l lf) :
    Bad lf := by
  obtain ⟨l1, pre1, h1, e1⟩ := step_bracketed_ws hst
  rw [hsk] at h1
  have hp : l1.peek = none := by rw [h1.peek]; rfl
  have hw := h1.ws_none (by simp)
  have hs : Impl.step .bracketed l1 = .ok (l1.adv.error, none) := by
    simp [Impl.step, lexBracketed, hw, Lexer.next_eq, hp, stop, bind, Except.bind]
  rw [hh.step_none (e1.trans hs)]
  exact Bad.of_error

/-- a string literal inside brackets, from after the opening quote -/
theorem str_first {q : Char} (hq : q = '\'' ∨ q = '"') {r : List Char} (hst : StG d l pre [q] r toks br)
    (hh : Halts (.strStart q false) l lf) (hg : ¬ Bad lf) :
    ∃ body rest l' pre', scanString q r = some (body, rest) ∧
      StG d l' pre' [] rest (⟨strKind q, body, (pre ++ [q]).length⟩ :: toks) br ∧ Halts .bracketed l' lf := by
  have hq' : q ≠ '\\' := by rcases hq with rfl | rfl <;> decide
  cases r with
  | nil =>
    exfalso
    have h0 := hst.ignore
    have hp : l.ignore.peek = none := by rw [h0.peek]; rfl
    have h1 := h0.emit (strKind q)
    have hp1 : (l.ignore.emit (strKind q)).peek = none := by rw [h1.peek]; rfl
    have hs : Impl.step (.strStart q false) l = .ok ((l.ignore.emit (strKind q)).ignore, some .bracketed) := by
      simp [Impl.step, lexStrStart, hp, Lexer.next_eq, Lexer.adv_none hp1, goto, retState]
    exact hg (brk_nil h1.ignore rfl (hh.step_some hs))
  | cons c r =>
    have hs := lexStrStart_exec (q := q) (f := false) hst (by simp)
    obtain ⟨body, rest, l', hsc, h', hh'⟩ := str_loop hq' _ _ _ _ (Nat.le_refl _) hst.ignore (hh.step_some hs) hg
    exact ⟨body, rest, l', _, hsc, by simpa using h', hh'⟩

/-- what a successful run does from the bracketed state up to its next token -/
theorem brk_next {i : Nat} (hst : StG d l pre [] inp toks (('[', i) :: br)) (hh : Halts .bracketed l lf)
    (hg : ¬ Bad lf) :
    ∃ k v rest l' n, brTok inp = some (k, v, rest) ∧
      ((k = .rbracket ∧ ∃ pre', StG d l' pre' [] rest (⟨k, v, n⟩ :: toks) br ∧ Halts .segment l' lf) ∨
       (k = .filter ∧ ∃ pre', StG (d + 1) l' pre' [] rest (⟨k, v, n⟩ :: toks) (('[', i) :: br) ∧ Halts .filter l' lf) ∨
       (k ≠ .rbracket ∧ k ≠ .filter ∧ ∃ pre', StG d l' pre' [] rest (⟨k, v, n⟩ :: toks) (('[', i) :: br) ∧
          Halts .bracketed l' lf)) := by
  cases hsk : Spec.skipS inp with
  | nil => exact absurd (brk_nil hst hsk hh) hg
  | cons c r =>
    obtain ⟨l1, pre1, h1, e1⟩ := step_bracketed_ws hst
    rw [hsk] at h1
    have hcw : isWs c = false := skipS_head inp c (by rw [hsk]; rfl)
    have hp : l1.peek = some c := by rw [h1.peek]; rfl
    have hw := h1.ws_none (by simp [hcw])
    by_cases c1 : c = ']'
    · subst c1
      have s1 := lexBracketed_rbracket h1
      have h2 := (h1.adv.popBracket).emit .rbracket
      refine ⟨.rbracket, [']'], r, _, _, by simp [brTok, hsk], .inl ⟨rfl, _, by simpa using h2,
        hh.step_some (e1.trans s1)⟩⟩
    · by_cases c2 : c = '*'
      · subst c2
        have s1 := lexBracketed_wild h1
        have h2 := h1.adv.emit .wild
        refine ⟨.wild, ['*'], r, _, _, by simp [brTok, hsk], .inr (.inr ⟨by simp, by simp, _, by simpa using h2,
          hh.step_some (e1.trans s1)⟩)⟩
      · by_cases c3 : c = '?'
        · subst c3
          have h2 := h1.adv.emit .filter
          have s1 : Impl.step .bracketed l1 = .ok ({ (l1.adv.emit .filter) with
              filterDepth := l1.adv.filterDepth + 1 }, some .filter) := by
            simp [Impl.step, lexBracketed, hw, Lexer.next_eq, hp, goto, bind, Except.bind]
          refine ⟨.filter, ['?'], r, _, (pre1.length : Int), by simp [brTok, hsk], .inr (.inl ⟨rfl, pre1 ++ ['?'], ?_, hh.step_some (e1.trans s1)⟩)⟩
          have h3 := h2.incFd
          simp only [List.nil_append] at h3
          exact h3
        · by_cases c4 : c = ','
          · subst c4
            have s1 := lexBracketed_comma h1
            have h2 := h1.adv.emit .comma
            refine ⟨.comma, [','], r, _, _, by simp [brTok, hsk], .inr (.inr ⟨by simp, by simp, _,
              by simpa using h2, hh.step_some (e1.trans s1)⟩)⟩
          · by_cases c5 : c = ':'
            · subst c5
              have s1 := lexBracketed_colon h1
              have h2 := h1.adv.emit .colon
              refine ⟨.colon, [':'], r, _, _, by simp [brTok, hsk], .inr (.inr ⟨by simp, by simp, _,
                by simpa using h2, hh.step_some (e1.trans s1)⟩)⟩
            · by_cases c6 : c = '\''
              · subst c6
                have s1 := lexBracketed_quote h1
                have h2 := h1.adv
                obtain ⟨body, rest, l', pre', hsc, h3, hh3⟩ := str_first (.inl rfl) (by simpa using h2)
                  (hh.step_some (e1.trans s1)) hg
                refine ⟨.sqString, body, rest, l', _, by simp [brTok, hsk, hsc], .inr (.inr ⟨by simp, by simp,
                  pre', by simpa [strKind] using h3, hh3⟩)⟩
              · by_cases c7 : c = '"'
                · subst c7
                  have s1 := lexBracketed_dquote h1
                  have h2 := h1.adv
                  obtain ⟨body, rest, l', pre', hsc, h3, hh3⟩ := str_first (.inr rfl) (by simpa using h2)
                    (hh.step_some (e1.trans s1)) hg
                  refine ⟨.dqString, body, rest, l', _, by simp [brTok, hsk, hsc], .inr (.inr ⟨by simp, by simp,
                    pre', by simpa [strKind] using h3, hh3⟩)⟩
                · obtain ⟨l2, hb, h2⟩ := h1.adv.backup
                  cases hre : reIndex (c :: r) with
                  | none =>
                    exfalso
                    have hm : l2.acceptMatch reIndex = none := by
                      simp [Lexer.acceptMatch, h2.restFrom, hre]
                    have hs : Impl.step .bracketed l1 = .ok (l2.error, none) := by
                      simp only [Impl.step, lexBracketed, hw, Lexer.next_eq, hp, bind, Except.bind]
                      simp [hb, hm, stop]
                    rw [hh.step_none (e1.trans hs)] at hg
                    exact hg Bad.of_error
                  | some n =>
                    obtain ⟨l3, hm, h3⟩ := h2.acceptMatch hre (reIndex_bounded _ _ hre)
                    have h4 := h3.emit .index
                    have hs : Impl.step .bracketed l1 = .ok (l3.emit .index, some .bracketed) := by
                      simp only [Impl.step, lexBracketed, hw, Lexer.next_eq, hp, bind, Except.bind]
                      simp [hb, hm, goto]
                    refine ⟨.index, (c :: r).take n, (c :: r).drop n, _, _,
                      by simp [brTok, hsk, hre, c1, c2, c3, c4, c5, c6, c7],
                      .inr (.inr ⟨by simp, by simp, _, by simpa using h4, hh.step_some (e1.trans hs)⟩)⟩

/-! ### the step descriptions with the emitted tokens -/

theorem seg_first_emits {out : List Token} (hst : StG d l pre [] inp toks br) (he : Emits .segment l out lf)
    (hg : ¬ Bad lf) :
    (inp = [] ∧ ∃ k, out = [⟨.eof, [], k⟩]) ∨
    (∃ r l' pre' k out', Spec.skipS inp = '.' :: '.' :: r ∧ out = ⟨.doubleDot, ['.', '.'], k⟩ :: out' ∧
      StG d l' pre' [] r (⟨.doubleDot, ['.', '.'], k⟩ :: toks) br ∧ Emits .descendant l' out' lf) ∨
    (∃ r l' pre' k out', Spec.skipS inp = '.' :: '*' :: r ∧ out = ⟨.wild, ['*'], k⟩ :: out' ∧
      StG d l' pre' [] r (⟨.wild, ['*'], k⟩ :: toks) br ∧ Emits .segment l' out' lf) ∨
    (∃ c r n l' pre' k out', Spec.skipS inp = '.' :: c :: r ∧ Impl.isNameFirst c = true ∧
      reProperty (c :: r) = some n ∧ out = ⟨.property, (c :: r).take n, k⟩ :: out' ∧
      StG d l' pre' [] ((c :: r).drop n) (⟨.property, (c :: r).take n, k⟩ :: toks) br ∧
      Emits .segment l' out' lf) ∨
    (∃ r l' pre' k i out', Spec.skipS inp = '[' :: r ∧ out = ⟨.lbracket, ['['], k⟩ :: out' ∧
      StG d l' pre' [] r (⟨.lbracket, ['['], k⟩ :: toks) (('[', i) :: br) ∧ Emits .bracketed l' out' lf) ∨
    (d ≠ 0 ∧ ∃ c r l' pre', Spec.skipS inp = c :: r ∧ c ≠ '.' ∧ c ≠ '[' ∧
      StG d l' pre' [] (c :: r) toks br ∧ Emits .filter l' out lf) := by
  rcases seg_first hst he.halts hg with ⟨rfl, k, hk⟩ | ⟨r, l', pre', k, e, h', hh'⟩ | ⟨r, l', pre', k, e, h', hh'⟩ |
    ⟨c, r, n, l', pre', k, e, hn, hre, h', hh'⟩ | ⟨r, l', pre', k, i, e, h', hh'⟩ |
    ⟨hd, c, r, l', pre', e, hc1, hc2, h', hh'⟩
  · exact .inl ⟨rfl, k, he.last (by rw [hk, hst.toks])⟩
  · obtain ⟨out', eo, he'⟩ := he.peel hh' (by rw [h'.toks, hst.toks])
    exact .inr (.inl ⟨r, l', pre', k, out', e, eo, h', he'⟩)
  · obtain ⟨out', eo, he'⟩ := he.peel hh' (by rw [h'.toks, hst.toks])
    exact .inr (.inr (.inl ⟨r, l', pre', k, out', e, eo, h', he'⟩))
  · obtain ⟨out', eo, he'⟩ := he.peel hh' (by rw [h'.toks, hst.toks])
    exact .inr (.inr (.inr (.inl ⟨c, r, n, l', pre', k, out', e, hn, hre, eo, h', he'⟩)))
  · obtain ⟨out', eo, he'⟩ := he.peel hh' (by rw [h'.toks, hst.toks])
    exact .inr (.inr (.inr (.inr (.inl ⟨r, l', pre', k, i, out', e, eo, h', he'⟩))))
  · exact .inr (.inr (.inr (.inr (.inr ⟨hd, c, r, l', pre', e, hc1, hc2, h',
      he.same hh' (by rw [h'.toks, hst.toks])⟩))))

theorem desc_first_emits {out : List Token} (hst : StG d l pre [] inp toks br) (he : Emits .descendant l out lf)
    (hg : ¬ Bad lf) :
    (∃ r l' pre' k out', inp = '*' :: r ∧ out = ⟨.wild, ['*'], k⟩ :: out' ∧
      StG d l' pre' [] r (⟨.wild, ['*'], k⟩ :: toks) br ∧ Emits .segment l' out' lf) ∨
    (∃ c r n l' pre' k out', inp = c :: r ∧ Impl.isNameFirst c = true ∧
      reProperty (c :: r) = some n ∧ out = ⟨.property, (c :: r).take n, k⟩ :: out' ∧
      StG d l' pre' [] ((c :: r).drop n) (⟨.property, (c :: r).take n, k⟩ :: toks) br ∧
      Emits .segment l' out' lf) ∨
    (∃ r l' pre' k i out', inp = '[' :: r ∧ out = ⟨.lbracket, ['['], k⟩ :: out' ∧
      StG d l' pre' [] r (⟨.lbracket, ['['], k⟩ :: toks) (('[', i) :: br) ∧ Emits .bracketed l' out' lf) := by
  rcases desc_first hst he.halts hg with ⟨r, l', pre', k, e, h', hh'⟩ |
    ⟨c, r, n, l', pre', k, e, hn, hre, h', hh'⟩ | ⟨r, l', pre', k, i, e, h', hh'⟩
  · obtain ⟨out', eo, he'⟩ := he.peel hh' (by rw [h'.toks, hst.toks])
    exact .inl ⟨r, l', pre', k, out', e, eo, h', he'⟩
  · obtain ⟨out', eo, he'⟩ := he.peel hh' (by rw [h'.toks, hst.toks])
    exact .inr (.inl ⟨c, r, n, l', pre', k, out', e, hn, hre, eo, h', he'⟩)
  · obtain ⟨out', eo, he'⟩ := he.peel hh' (by rw [h'.toks, hst.toks])
    exact .inr (.inr ⟨r, l', pre', k, i, out', e, eo, h', he'⟩)

/-! ### the inside of a bracketed selection -/

/-- the run inside brackets over tokens none of which is `]` or `?`, up to and including the `]` -/
theorem brk_toks {i : Nat} (hg : ¬ Bad lf) : ∀ (ts : List Token) (l : Lexer) (pre inp : List Char)
    (toks out' : List Token) (rb : Token),
    (∀ t ∈ ts, t.kind ≠ .rbracket ∧ t.kind ≠ .filter) → rb.kind = .rbracket →
    StG d l pre [] inp toks (('[', i) :: br) → Emits .bracketed l (ts ++ rb :: out') lf →
    ∃ m m' l' pre', BrToks inp ts m ∧ Spec.skipS m = ']' :: m' ∧
      StG d l' pre' [] m' (rb :: (ts.reverse ++ toks)) br ∧ Emits .segment l' out' lf := by
  intro ts
  induction ts with
  | nil =>
    intro l pre inp toks out' rb _ hrb hst he
    obtain ⟨k, v, rest, l', n, hbt, hc⟩ := brk_next hst he.halts hg
    rcases hc with ⟨rfl, pre', h', hh'⟩ | ⟨rfl, pre2, ht, hh'⟩ | ⟨hk1, _, pre', h', hh'⟩
    · obtain ⟨o, eo, he'⟩ := he.peel hh' (by rw [h'.toks, hst.toks])
      simp only [List.nil_append, List.cons.injEq] at eo
      obtain ⟨rfl, rfl⟩ := eo
      exact ⟨inp, rest, l', pre', .nil _, brTok_rbracket hbt, by simpa using h', he'⟩
    · obtain ⟨o, eo, _⟩ := he.peel hh' (by rw [ht.toks, hst.toks])
      simp only [List.nil_append, List.cons.injEq] at eo
      rw [eo.1] at hrb; cases hrb
    · obtain ⟨o, eo, _⟩ := he.peel hh' (by rw [h'.toks, hst.toks])
      simp only [List.nil_append, List.cons.injEq] at eo
      rw [eo.1] at hrb; exact absurd hrb hk1
  | cons t ts ih =>
    intro l pre inp toks out' rb hts hrb hst he
    obtain ⟨k, v, rest, l', n, hbt, hc⟩ := brk_next hst he.halts hg
    have ht := hts t (by simp)
    rcases hc with ⟨rfl, pre', h', hh'⟩ | ⟨rfl, pre2, htk, hh'⟩ | ⟨hk1, hk2, pre', h', hh'⟩
    · obtain ⟨o, eo, _⟩ := he.peel hh' (by rw [h'.toks, hst.toks])
      simp only [List.cons_append, List.cons.injEq] at eo
      exact absurd (by rw [eo.1]) ht.1
    · obtain ⟨o, eo, _⟩ := he.peel hh' (by rw [htk.toks, hst.toks])
      simp only [List.cons_append, List.cons.injEq] at eo
      exact absurd (by rw [eo.1]) ht.2
    · obtain ⟨o, eo, he'⟩ := he.peel hh' (by rw [h'.toks, hst.toks])
      simp only [List.cons_append, List.cons.injEq] at eo
      obtain ⟨rfl, rfl⟩ := eo
      obtain ⟨m, m', l2, pre2, hb, hm, h2, he2⟩ := ih l' pre' rest _ out' rb
        (fun x hx => hts x (by simp [hx])) hrb h' he'
      exact ⟨m, m', l2, pre2, .cons _ rest _ _ _ hbt hk1 hk2 hb, hm, by simpa using h2, he2⟩

end JPV.Proofs.Sf
