/-
`Proofs.Ss.BrPure` — the tokens read inside brackets (`brTok`) against the grammar's `intLit`,
`stringLiteral`, `sliceSelector`, `selector`, `moreSelectors`, `bracketed`: pure list reasoning.
-/
import JPV.Proofs.Ss.BrTok
import JPV.Proofs.Ss.Shape
import JPV.Proofs.Cs.LexSeg
set_option linter.unusedSimpArgs false
namespace JPV.Proofs.Ss
open JPV JPV.Impl JPV.Proofs.Rq JPV.Proofs.Cs

/-! ### integers -/

theorem char_eq_of_toNat {c : Char} {n : Nat} (h : c.toNat = n) : c = Char.ofNat n := by
  rw [← h, Char.ofNat_toNat]

theorem digit1_of {d : Char} (hd : isDigit d = true) (h0 : d ≠ '0') : Spec.isDIGIT1 d = true := by
  rw [isDigit_iff] at hd
  rw [Prn.isDIGIT1_iff]
  have : d.toNat ≠ 48 := fun h => h0 (char_eq_of_toNat h)
  omega

theorem spanLen_pos_cons {p : Char → Bool} {s : List Char} (h : spanLen p s ≠ 0) :
    ∃ d t, s = d :: t ∧ p d = true := by
  cases s with
  | nil => simp [spanLen] at h
  | cons d t =>
    refine ⟨d, t, rfl, ?_⟩
    cases hp : p d with
    | true => rfl
    | false => simp [spanLen, hp] at h

theorem intLit_zero (r : List Char) : Spec.intLit ('0' :: r) = some (0, r) := by rw [Spec.intLit]

theorem intLit_minus (c : Char) (r : List Char) : Spec.intLit ('-' :: c :: r) =
    if Spec.isDIGIT1 c then
      some (-(Py.digitsToNat ((c :: r).takeWhile Spec.isDIGIT) : Int),
        (c :: r).drop ((c :: r).takeWhile Spec.isDIGIT).length)
    else none := by
  rw [Spec.intLit]

theorem intLit_other (c : Char) (r : List Char) (h0 : c ≠ '0') (hm : c ≠ '-') : Spec.intLit (c :: r) =
    if Spec.isDIGIT1 c then
      some ((Py.digitsToNat ((c :: r).takeWhile Spec.isDIGIT) : Int),
        (c :: r).drop ((c :: r).takeWhile Spec.isDIGIT).length)
    else none := by
  rw [Spec.intLit]
  · intro h; exact h0 h
  · intro c' r' h; exact absurd h hm

/-- an INDEX token the parser accepts is an `int` of the grammar, ending where the token ends -/
theorem intLit_of_reIndex {c : Char} {r : List Char} {n : Nat} {i : Int}
    (hre : reIndex (c :: r) = some n) (hi : IdxTok ((c :: r).take n) i) :
    Spec.intLit (c :: r) = some (i, (c :: r).drop n) := by
  by_cases hm : c = '-'
  · subst hm
    have h1 : spanLen isDigit r ≠ 0 ∧ 1 + spanLen isDigit r = n := by
      simpa [reIndex, reSignedDigits] using hre
    obtain ⟨hn, rfl⟩ := h1
    obtain ⟨d, t, rfl, hd⟩ := spanLen_pos_cons hn
    have htk : ('-' :: d :: t).take (1 + spanLen isDigit (d :: t)) = '-' :: (d :: t).takeWhile isDigit := by
      rw [Nat.add_comm, List.take_succ_cons, take_spanLen]
    rw [htk] at hi
    have hd0 : d ≠ '0' := by
      rintro rfl
      apply hi.nm
      simp [List.takeWhile, hd]
    have hD1 := digit1_of hd hd0
    rw [intLit_minus, if_pos hD1]
    have hint := hi.int
    simp only [Py.intOfText] at hint
    split at hint
    · simp only [Option.some.injEq] at hint
      subst hint
      have e : (1 + spanLen isDigit (d :: t)) = (List.takeWhile Spec.isDIGIT (d :: t)).length + 1 := by
        rw [spanLen_eq, Nat.add_comm]; rfl
      rw [e]
      rfl
    · cases hint
  · have h1 : spanLen isDigit (c :: r) ≠ 0 ∧ spanLen isDigit (c :: r) = n := by
      have : reSignedDigits (c :: r) = some n := hre
      unfold reSignedDigits at this
      split at this
      rename_i sign r' heq
      split at heq
      · rename_i r'' heq'; simp only [List.cons.injEq] at heq'; exact absurd heq'.1 hm
      · cases heq
        simp only at this
        split at this
        · cases this
        · rename_i hne
          simp only [Nat.zero_add, Option.some.injEq] at this
          exact ⟨hne, this⟩
    obtain ⟨hn, rfl⟩ := h1
    obtain ⟨d, t, e, hd⟩ := spanLen_pos_cons hn
    simp only [List.cons.injEq] at e
    obtain ⟨rfl, rfl⟩ := e
    rw [take_spanLen] at hi
    by_cases h0 : c = '0'
    · subst h0
      have hlen : ((('0' : Char) :: r).takeWhile isDigit).length ≤ 1 := by
        have := hi.nz
        simp only [List.takeWhile, hd, List.head?_cons, and_true, Nat.not_lt] at this
        simpa [List.takeWhile, hd] using this
      have hr0 : spanLen isDigit r = 0 := by
        have : (('0' : Char) :: r).takeWhile isDigit = '0' :: r.takeWhile isDigit := by
          simp [List.takeWhile, hd]
        rw [this, List.length_cons, ← spanLen_eq] at hlen
        omega
      have hsp : spanLen isDigit ('0' :: r) = 1 := by simp [spanLen, hd, hr0]
      have htw : (('0' : Char) :: r).takeWhile isDigit = ['0'] := by
        rw [← take_spanLen, hsp]; rfl
      rw [htw] at hi
      have hi0 : i = 0 := by
        have := hi.int
        simpa [Py.intOfText, Py.allDigits, Py.digitsToNat] using this.symm
      rw [intLit_zero, hsp, hi0]
      rfl
    · have hD1 := digit1_of hd h0
      rw [intLit_other c r h0 hm, if_pos hD1]
      have hint := hi.int
      have hne : ∀ r', (c :: r).takeWhile isDigit ≠ '-' :: r' := by
        intro r' h
        simp only [List.takeWhile, hd, List.cons.injEq] at h
        exact hm h.1
      unfold Py.intOfText at hint
      split at hint
      · rename_i r' heq; exact absurd heq (hne r')
      · split at hint
        · simp only [Option.some.injEq] at hint
          subst hint
          rw [spanLen_eq]
          rfl
        · cases hint

/-! ### one token -/

theorem brTok_cases {inp : List Char} {k : TokKind} {v rest : List Char} (h : brTok inp = some (k, v, rest)) :
    ∃ c r, Spec.skipS inp = c :: r ∧
      ((c = ']' ∧ k = .rbracket ∧ rest = r) ∨ (c = '*' ∧ k = .wild ∧ rest = r) ∨
       (c = '?' ∧ k = .filter ∧ rest = r) ∨ (c = ',' ∧ k = .comma ∧ rest = r) ∨
       (c = ':' ∧ k = .colon ∧ rest = r) ∨
       (c = '\'' ∧ k = .sqString ∧ scanString '\'' r = some (v, rest)) ∨
       (c = '"' ∧ k = .dqString ∧ scanString '"' r = some (v, rest)) ∨
       (c ≠ ']' ∧ c ≠ '*' ∧ c ≠ '?' ∧ c ≠ ',' ∧ c ≠ ':' ∧ c ≠ '\'' ∧ c ≠ '"' ∧ k = .index ∧
         ∃ n, reIndex (c :: r) = some n ∧ v = (c :: r).take n ∧ rest = (c :: r).drop n)) := by
  unfold brTok at h
  cases hsk : Spec.skipS inp with
  | nil => simp [hsk] at h
  | cons c r =>
    refine ⟨c, r, rfl, ?_⟩
    simp only [hsk] at h
    by_cases c1 : c = ']'
    · subst c1
      simp at h
      exact .inl ⟨rfl, h.1.symm, h.2.2.symm⟩
    · by_cases c2 : c = '*'
      · subst c2
        simp at h
        exact .inr (.inl ⟨rfl, h.1.symm, h.2.2.symm⟩)
      · by_cases c3 : c = '?'
        · subst c3
          simp at h
          exact .inr (.inr (.inl ⟨rfl, h.1.symm, h.2.2.symm⟩))
        · by_cases c4 : c = ','
          · subst c4
            simp at h
            exact .inr (.inr (.inr (.inl ⟨rfl, h.1.symm, h.2.2.symm⟩)))
          · by_cases c5 : c = ':'
            · subst c5
              simp at h
              exact .inr (.inr (.inr (.inr (.inl ⟨rfl, h.1.symm, h.2.2.symm⟩))))
            · by_cases c6 : c = '\''
              · subst c6
                cases hs : scanString '\'' r with
                | none => simp [hs] at h
                | some x =>
                  simp [hs] at h
                  obtain ⟨h1, h2, h3⟩ := h
                  refine .inr (.inr (.inr (.inr (.inr (.inl ⟨rfl, h1.symm, ?_⟩)))))
                  rw [← h2, ← h3]
              · by_cases c7 : c = '"'
                · subst c7
                  cases hs : scanString '"' r with
                  | none => simp [hs] at h
                  | some x =>
                    simp [hs] at h
                    obtain ⟨h1, h2, h3⟩ := h
                    refine .inr (.inr (.inr (.inr (.inr (.inr (.inl ⟨rfl, h1.symm, ?_⟩))))))
                    rw [← h2, ← h3]
                · simp only [c1, c2, c3, c4, c5, c6, c7, if_false] at h
                  cases hs : reIndex (c :: r) with
                  | none => simp [hs] at h
                  | some n =>
                    simp only [hs, Option.map_some, Option.some.injEq, Prod.mk.injEq] at h
                    obtain ⟨h1, h2, h3⟩ := h
                    exact .inr (.inr (.inr (.inr (.inr (.inr (.inr ⟨c1, c2, c3, c4, c5, c6, c7, h1.symm, n, rfl,
                      h2.symm, h3.symm⟩))))))

theorem brTok_rbracket {inp v rest : List Char} (h : brTok inp = some (.rbracket, v, rest)) :
    Spec.skipS inp = ']' :: rest := by
  obtain ⟨c, r, e, hc⟩ := brTok_cases h
  rcases hc with ⟨rfl, _, rfl⟩ | ⟨_, hk, _⟩ | ⟨_, hk, _⟩ | ⟨_, hk, _⟩ | ⟨_, hk, _⟩ | ⟨_, hk, _⟩ | ⟨_, hk, _⟩ |
    ⟨_, _, _, _, _, _, _, hk, _⟩
  · exact e
  all_goals cases hk

theorem brTok_comma {inp v rest : List Char} (h : brTok inp = some (.comma, v, rest)) :
    Spec.skipS inp = ',' :: rest := by
  obtain ⟨c, r, e, hc⟩ := brTok_cases h
  rcases hc with ⟨_, hk, _⟩ | ⟨_, hk, _⟩ | ⟨_, hk, _⟩ | ⟨rfl, _, rfl⟩ | ⟨_, hk, _⟩ | ⟨_, hk, _⟩ | ⟨_, hk, _⟩ |
    ⟨_, _, _, _, _, _, _, hk, _⟩
  · cases hk
  · cases hk
  · cases hk
  · exact e
  all_goals cases hk

theorem brTok_colon {inp v rest : List Char} (h : brTok inp = some (.colon, v, rest)) :
    Spec.skipS inp = ':' :: rest := by
  obtain ⟨c, r, e, hc⟩ := brTok_cases h
  rcases hc with ⟨_, hk, _⟩ | ⟨_, hk, _⟩ | ⟨_, hk, _⟩ | ⟨_, hk, _⟩ | ⟨rfl, _, rfl⟩ | ⟨_, hk, _⟩ | ⟨_, hk, _⟩ |
    ⟨_, _, _, _, _, _, _, hk, _⟩
  · cases hk
  · cases hk
  · cases hk
  · cases hk
  · exact e
  all_goals cases hk

theorem brTok_wild {inp v rest : List Char} (h : brTok inp = some (.wild, v, rest)) :
    Spec.skipS inp = '*' :: rest := by
  obtain ⟨c, r, e, hc⟩ := brTok_cases h
  rcases hc with ⟨_, hk, _⟩ | ⟨rfl, _, rfl⟩ | ⟨_, hk, _⟩ | ⟨_, hk, _⟩ | ⟨_, hk, _⟩ | ⟨_, hk, _⟩ | ⟨_, hk, _⟩ |
    ⟨_, _, _, _, _, _, _, hk, _⟩
  · cases hk
  · exact e
  all_goals cases hk

theorem brTok_index {inp v rest : List Char} (h : brTok inp = some (.index, v, rest)) :
    ∃ c r n, Spec.skipS inp = c :: r ∧ c ≠ '*' ∧ c ≠ '?' ∧ c ≠ ':' ∧ c ≠ '\'' ∧ c ≠ '"' ∧
      reIndex (c :: r) = some n ∧ v = (c :: r).take n ∧ rest = (c :: r).drop n := by
  obtain ⟨c, r, e, hc⟩ := brTok_cases h
  rcases hc with ⟨_, hk, _⟩ | ⟨_, hk, _⟩ | ⟨_, hk, _⟩ | ⟨_, hk, _⟩ | ⟨_, hk, _⟩ | ⟨_, hk, _⟩ | ⟨_, hk, _⟩ |
    ⟨_, c2, c3, _, c5, c6, c7, _, n, h1, h2, h3⟩
  · cases hk
  · cases hk
  · cases hk
  · cases hk
  · cases hk
  · cases hk
  · cases hk
  · exact ⟨c, r, n, e, c2, c3, c5, c6, c7, h1, h2, h3⟩

theorem brTok_sq {inp v rest : List Char} (h : brTok inp = some (.sqString, v, rest)) :
    ∃ r, Spec.skipS inp = '\'' :: r ∧ scanString '\'' r = some (v, rest) := by
  obtain ⟨c, r, e, hc⟩ := brTok_cases h
  rcases hc with ⟨_, hk, _⟩ | ⟨_, hk, _⟩ | ⟨_, hk, _⟩ | ⟨_, hk, _⟩ | ⟨_, hk, _⟩ | ⟨rfl, _, hs⟩ | ⟨_, hk, _⟩ |
    ⟨_, _, _, _, _, _, _, hk, _⟩
  · cases hk
  · cases hk
  · cases hk
  · cases hk
  · cases hk
  · exact ⟨r, e, hs⟩
  all_goals cases hk

theorem brTok_dq {inp v rest : List Char} (h : brTok inp = some (.dqString, v, rest)) :
    ∃ r, Spec.skipS inp = '"' :: r ∧ scanString '"' r = some (v, rest) := by
  obtain ⟨c, r, e, hc⟩ := brTok_cases h
  rcases hc with ⟨_, hk, _⟩ | ⟨_, hk, _⟩ | ⟨_, hk, _⟩ | ⟨_, hk, _⟩ | ⟨_, hk, _⟩ | ⟨_, hk, _⟩ | ⟨rfl, _, hs⟩ |
    ⟨_, _, _, _, _, _, _, hk, _⟩
  · cases hk
  · cases hk
  · cases hk
  · cases hk
  · cases hk
  · cases hk
  · exact ⟨r, e, hs⟩
  · cases hk

/-- a token other than INDEX does not begin with an `int` of the grammar -/
theorem intLit_none_of_brTok {inp v rest : List Char} {k : TokKind} (h : brTok inp = some (k, v, rest))
    (hk : k ≠ .index) : Spec.intLit (Spec.skipS inp) = none := by
  obtain ⟨c, r, e, hc⟩ := brTok_cases h
  rw [e]
  rcases hc with ⟨rfl, _⟩ | ⟨rfl, _⟩ | ⟨rfl, _⟩ | ⟨rfl, _⟩ | ⟨rfl, _⟩ | ⟨rfl, _⟩ | ⟨rfl, _⟩ |
    ⟨_, _, _, _, _, _, _, hk', _⟩
  all_goals first
    | exact absurd hk' hk
    | (rw [intLit_other _ _ (by decide) (by decide)]; rfl)

theorem _root_.JPV.Proofs.Cs.Follow.intLit_none {r : List Char} (h : Follow r) : Spec.intLit (Spec.skipS r) = none := by
  obtain ⟨t, e | e⟩ := h <;> rw [e, intLit_other _ _ (by decide) (by decide)] <;> rfl

theorem _root_.JPV.Proofs.Cs.Follow.lit_colon_none {r : List Char} (h : Follow r) : Spec.lit ":" (Spec.skipS r) = none := by
  obtain ⟨t, e | e⟩ := h <;> rw [e, lit_colon_eq] <;> rfl

theorem lit_colon_cons (t : List Char) : Spec.lit ":" (':' :: t) = some t := by rw [lit_colon_eq]; rfl

/-! ### token sequences -/

theorem BrToks.cons_inv {inp rest : List Char} {t : Token} {ts : List Token} (h : BrToks inp (t :: ts) rest) :
    ∃ r, brTok inp = some (t.kind, t.value, r) ∧ BrToks r ts rest := by
  cases h with
  | cons _ r _ _ _ h1 _ _ h2 => exact ⟨r, h1, h2⟩

theorem BrToks.nil_inv {inp rest : List Char} (h : BrToks inp [] rest) : rest = inp := by
  cases h; rfl

theorem BrToks.append_inv {ts1 ts2 : List Token} : ∀ {inp rest : List Char}, BrToks inp (ts1 ++ ts2) rest →
    ∃ m, BrToks inp ts1 m ∧ BrToks m ts2 rest := by
  induction ts1 with
  | nil => intro inp rest h; exact ⟨inp, .nil _, h⟩
  | cons t ts ih =>
    intro inp rest h
    cases h with
    | cons _ r _ _ _ h1 h2 h3 h4 =>
      obtain ⟨m, hm1, hm2⟩ := ih h4
      exact ⟨m, .cons _ r _ _ _ h1 h2 h3 hm1, hm2⟩

/-! ### strings -/

theorem stringLiteral_of_scan {q : Char} (hq : q = '\'' ∨ q = '"') {r body rest : List Char} {s : Str}
    (hs : scanString q r = some (body, rest)) (hd : decodeStringLiteral (strKind q) body = .ok s) :
    Spec.stringLiteral (q :: r) = some (s, rest) := by
  have hk : quoteKind' q = strKind q := rfl
  have key : Spec.stringBody q (r.length + 1) r [] = some (s, rest) := by
    rw [← string_literal_correct q hq r]
    simp [implString', hs, hk, hd]
  rcases hq with rfl | rfl
  · rw [Spec.stringLiteral]; exact key
  · rw [Spec.stringLiteral]; exact key

/-! ### slices -/

theorem int_of_tok {t : Token} {i : Int} {inp m : List Char} (hk : t.kind = .index) (hi : IdxTok t.value i)
    (hb : BrToks inp [t] m) : Spec.intLit (Spec.skipS inp) = some (i, m) := by
  obtain ⟨r, h1, h2⟩ := hb.cons_inv
  have := h2.nil_inv; subst this
  rw [hk] at h1
  obtain ⟨c, r', n, e, _, _, _, _, _, hre, hv, hr⟩ := brTok_index h1
  rw [e, hr]
  rw [hv] at hi
  exact intLit_of_reIndex hre hi

theorem colon_of_tok {t : Token} {inp : List Char} (hk : t.kind = .colon) {ts : List Token} {rest : List Char}
    (hb : BrToks inp (t :: ts) rest) : ∃ m, Spec.skipS inp = ':' :: m ∧ BrToks m ts rest := by
  obtain ⟨r, h1, h2⟩ := hb.cons_inv
  rw [hk] at h1
  exact ⟨r, brTok_colon h1, h2⟩

/-- no `int` where the optional `":" [step]` tail begins -/
theorem StepT.intLit_none {c : Option Int} {tc : List Token} {x rest : List Char} (h : StepT c tc)
    (hb : BrToks x tc rest) (hf : Follow rest) : Spec.intLit (Spec.skipS x) = none := by
  cases h with
  | absent => have := hb.nil_inv; subst this; exact hf.intLit_none
  | colon t hk =>
    obtain ⟨r, h1, _⟩ := hb.cons_inv
    exact intLit_none_of_brTok h1 (by rw [hk]; simp)
  | step t t' i hk _ _ =>
    obtain ⟨r, h1, _⟩ := hb.cons_inv
    exact intLit_none_of_brTok h1 (by rw [hk]; simp)

theorem sliceEnd_pure {a b c : Option Int} {tc : List Token} {x rest : List Char} (h : StepT c tc)
    (hb : BrToks x tc rest) (hf : Follow rest) :
    ∃ r', sliceEnd a b (Spec.skipS x) = some (.slice a b c, r') ∧ Spec.skipS r' = Spec.skipS rest := by
  unfold sliceEnd
  cases h with
  | absent =>
    have := hb.nil_inv; subst this
    rw [hf.lit_colon_none]
    exact ⟨_, rfl, skipS_idem _⟩
  | colon t hk =>
    obtain ⟨m, e, h2⟩ := colon_of_tok hk hb
    have := h2.nil_inv; subst this
    rw [e, lit_colon_cons]
    simp only [hf.intLit_none]
    exact ⟨_, rfl, rfl⟩
  | step t t' i hk hk' hi =>
    obtain ⟨m, e, h2⟩ := colon_of_tok hk hb
    rw [e, lit_colon_cons]
    simp only [int_of_tok hk' hi h2]
    exact ⟨_, rfl, rfl⟩

theorem sliceMid_pure {a b c : Option Int} {tb tc : List Token} {t : Token} {x rest : List Char}
    (hk : t.kind = .colon) (hb' : OptT b tb) (hc : StepT c tc)
    (hb : BrToks x (t :: (tb ++ tc)) rest) (hf : Follow rest) :
    ∃ r', sliceMid a (Spec.skipS x) = some (.slice a b c, r') ∧ Spec.skipS r' = Spec.skipS rest := by
  obtain ⟨m1, e, h2⟩ := colon_of_tok hk hb
  obtain ⟨m2, h3, h4⟩ := h2.append_inv
  unfold sliceMid
  rw [e, lit_colon_cons]
  cases hb' with
  | none =>
    have := h3.nil_inv; subst this
    simp only [hc.intLit_none h4 hf]
    exact sliceEnd_pure hc h4 hf
  | some t' i hk' hi =>
    simp only [int_of_tok hk' hi h3]
    exact sliceEnd_pure hc h4 hf

theorem slice_pure {a b c : Option Int} {ta tb tc : List Token} {t : Token} {inp rest : List Char}
    (hk : t.kind = .colon) (ha : OptT a ta) (hb' : OptT b tb) (hc : StepT c tc)
    (hb : BrToks inp (ta ++ t :: (tb ++ tc)) rest) (hf : Follow rest) :
    ∃ r', Spec.sliceSelector (Spec.skipS inp) = some (.slice a b c, r') ∧ Spec.skipS r' = Spec.skipS rest := by
  obtain ⟨m0, h1, h2⟩ := hb.append_inv
  rw [sliceSelector_eq]
  cases ha with
  | none =>
    have := h1.nil_inv; subst this
    obtain ⟨r, h3, _⟩ := h2.cons_inv
    have hn := intLit_none_of_brTok h3 (by rw [hk]; simp)
    simp only [hn]
    exact sliceMid_pure hk hb' hc h2 hf
  | some t' i hk' hi =>
    simp only [int_of_tok hk' hi h1]
    exact sliceMid_pure hk hb' hc h2 hf

/-! ### selectors -/

theorem first_char {t : Token} {ts : List Token} {inp rest : List Char} (hb : BrToks inp (t :: ts) rest)
    (hk : t.kind = .colon ∨ t.kind = .index) :
    ∃ c r, Spec.skipS inp = c :: r ∧ c ≠ '*' ∧ c ≠ '?' ∧ c ≠ '\'' ∧ c ≠ '"' := by
  obtain ⟨r, h1, _⟩ := hb.cons_inv
  rcases hk with hk | hk
  · rw [hk] at h1
    exact ⟨':', r, brTok_colon h1, by decide, by decide, by decide, by decide⟩
  · rw [hk] at h1
    obtain ⟨c, r', n, e, c2, c3, _, c6, c7, _⟩ := brTok_index h1
    exact ⟨c, r', e, c2, c3, c6, c7⟩

theorem sel_pure {sel : Selector} {ts : List Token} {inp rest : List Char} (h : SelT sel ts)
    (hb : BrToks inp ts rest) (hf : Follow rest) :
    ∃ csel r', (∀ F, Spec.selector (F + 1) (Spec.skipS inp) = some (csel, r')) ∧
      Spec.abstractSel csel = sel ∧ Spec.skipS r' = Spec.skipS rest := by
  cases h with
  | wild t hk =>
    obtain ⟨r, h1, h2⟩ := hb.cons_inv
    have := h2.nil_inv; subst this
    rw [hk] at h1
    refine ⟨.wild, rest, fun F => ?_, rfl, rfl⟩
    rw [brTok_wild h1, Prn.selector_wild]
  | name t s hk hd =>
    obtain ⟨r, h1, h2⟩ := hb.cons_inv
    have := h2.nil_inv; subst this
    rcases hk with hk | hk
    · rw [hk] at h1 hd
      obtain ⟨r0, e, hs⟩ := brTok_sq h1
      have hsl := stringLiteral_of_scan (.inl rfl) hs (s := s) hd
      refine ⟨.name s, rest, fun F => ?_, rfl, rfl⟩
      rw [e, Prn.selector_other _ _ _ (by decide) (by decide)]
      simp only [hsl]
    · rw [hk] at h1 hd
      obtain ⟨r0, e, hs⟩ := brTok_dq h1
      have hsl := stringLiteral_of_scan (.inr rfl) hs (s := s) hd
      refine ⟨.name s, rest, fun F => ?_, rfl, rfl⟩
      rw [e, Prn.selector_other _ _ _ (by decide) (by decide)]
      simp only [hsl]
  | index t i hk hi =>
    have hint := int_of_tok hk hi hb
    obtain ⟨c, r, e, c2, c3, c6, c7⟩ := first_char hb (.inr hk)
    rw [e] at hint
    have hsl : Spec.sliceSelector (c :: r) = none := by
      rw [sliceSelector_eq]
      simp only [hint]
      unfold sliceMid
      rw [hf.lit_colon_none]
    refine ⟨.index i, rest, fun F => ?_, rfl, rfl⟩
    rw [e, Prn.selector_other _ _ _ c2 c3, Prn.stringLiteral_other _ _ c7 c6]
    simp only [hsl, hint]
    rfl
  | slice a b c ta tb tc t hk ha hb' hc =>
    obtain ⟨r', hsl, hr⟩ := slice_pure hk ha hb' hc hb hf
    have hfc : ∃ c r, Spec.skipS inp = c :: r ∧ c ≠ '*' ∧ c ≠ '?' ∧ c ≠ '\'' ∧ c ≠ '"' := by
      cases ha with
      | none => exact first_char hb (.inl hk)
      | some t' i hk' _ => exact first_char hb (.inr hk')
    obtain ⟨c0, r0, e, c2, c3, c6, c7⟩ := hfc
    rw [e] at hsl
    refine ⟨.slice a b c, r', fun F => ?_, rfl, hr⟩
    rw [e, Prn.selector_other _ _ _ c2 c3, Prn.stringLiteral_other _ _ c7 c6]
    simp only [hsl]

theorem moreSelectors_stop (F : Nat) {r2 t : List Char} (h : Spec.skipS r2 = ']' :: t) :
    Spec.moreSelectors (F + 1) r2 = some ([], r2) := by
  rw [Spec.moreSelectors]
  split
  · rename_i r heq; rw [h] at heq; cases heq
  · rfl

theorem moreSelectors_comma (F : Nat) {r2 m : List Char} (h : Spec.skipS r2 = ',' :: m) :
    Spec.moreSelectors (F + 1) r2 =
      match Spec.selector F (Spec.skipS m) with
      | none => none
      | some (s, r2) =>
        match Spec.moreSelectors F r2 with
        | some (ss, r3) => some (s :: ss, r3)
        | none => none := by
  rw [Spec.moreSelectors]
  split
  · rename_i r heq; rw [h] at heq; cases heq; rfl
  · rename_i hne; exact absurd h (hne m)

theorem sels_pure {sels : List Selector} {ts : List Token} (h : SelsT sels ts) :
    ∀ {inp rest rest' : List Char}, BrToks inp ts rest → Spec.skipS rest = ']' :: rest' →
    ∃ cs css r2 r3, Spec.skipS r3 = ']' :: rest' ∧ Spec.abstractSels (cs :: css) = sels ∧
      ∀ F, sels.length ≤ F → Spec.selector (F + 1) (Spec.skipS inp) = some (cs, r2) ∧
        Spec.moreSelectors (F + 1) r2 = some (css, r3) := by
  induction h with
  | one s ts hs =>
    intro inp rest rest' hb he
    obtain ⟨cs, r2, h1, h2, h3⟩ := sel_pure hs hb ⟨rest', .inr he⟩
    rw [he] at h3
    exact ⟨cs, [], r2, r2, h3, by simp [Spec.abstractSels, h2], fun F _ => ⟨h1 F, moreSelectors_stop F h3⟩⟩
  | cons s ss t ts1 ts2 hs hk _ ih =>
    intro inp rest rest' hb he
    obtain ⟨m1, hb1, hb2⟩ := hb.append_inv
    obtain ⟨m2, hb3, hb4⟩ := hb2.cons_inv
    rw [hk] at hb3
    have hc := brTok_comma hb3
    obtain ⟨cs, r2, h1, h2, h3⟩ := sel_pure hs hb1 ⟨m2, .inl hc⟩
    rw [hc] at h3
    obtain ⟨cs', css', r2', r3, g3, g4, g⟩ := ih hb4 he
    refine ⟨cs, cs' :: css', r2, r3, g3, ?_, ?_⟩
    · simp only [Spec.abstractSels] at g4 ⊢
      rw [h2, g4]
    · intro F hF
      obtain ⟨F', rfl⟩ : ∃ F', F = F' + 1 := ⟨F - 1, by simp at hF; omega⟩
      obtain ⟨g1, g2⟩ := g F' (by simp at hF; omega)
      refine ⟨h1 _, ?_⟩
      rw [moreSelectors_comma _ h3]
      simp only [g1, g2]

theorem brk_pure {sels : List Selector} {ts : List Token} (h : SelsT sels ts) {inp rest rest' : List Char}
    (hb : BrToks inp ts rest) (he : Spec.skipS rest = ']' :: rest') :
    ∃ csels fl, Spec.abstractSels csels = sels ∧
      ∀ F, sels.length + 2 ≤ F → Spec.bracketed F ('[' :: inp) = some (csels, fl, rest') := by
  obtain ⟨cs, css, r2, r3, h3, h4, g⟩ := sels_pure h hb he
  refine ⟨cs :: css, ((Spec.skipS inp).length != inp.length) || ((Spec.skipS r3).length != r3.length), h4, ?_⟩
  intro F hF
  obtain ⟨F', rfl⟩ : ∃ F', F = F' + 2 := ⟨F - 2, by omega⟩
  obtain ⟨h1, h2⟩ := g F' (by omega)
  rw [Spec.bracketed]
  simp only [h1, h2, h3]

/-! ### lengths -/

theorem scanString_length {q : Char} {inp tok rest : List Char} (h : scanString q inp = some (tok, rest)) :
    rest.length < inp.length := by
  obtain ⟨_, e⟩ := scanned_of_scan q _ inp tok rest (Nat.le_refl _) h
  rw [e]; simp; omega

theorem skipS_length (l : List Char) : (Spec.skipS l).length ≤ l.length := by
  rw [skipS_eq]; simp

theorem brTok_length {inp : List Char} {k : TokKind} {v rest : List Char} (h : brTok inp = some (k, v, rest)) :
    rest.length < inp.length := by
  obtain ⟨c, r, e, hc⟩ := brTok_cases h
  have h0 := skipS_length inp
  rw [e] at h0
  simp only [List.length_cons] at h0
  rcases hc with ⟨_, _, rfl⟩ | ⟨_, _, rfl⟩ | ⟨_, _, rfl⟩ | ⟨_, _, rfl⟩ | ⟨_, _, rfl⟩ | ⟨_, _, hs⟩ | ⟨_, _, hs⟩ |
    ⟨_, _, _, _, _, _, _, _, n, hre, _, rfl⟩
  · omega
  · omega
  · omega
  · omega
  · omega
  · have := scanString_length hs; omega
  · have := scanString_length hs; omega
  · have := reIndex_pos _ _ hre
    simp only [List.length_drop, List.length_cons]
    omega

theorem BrToks.length_le {inp rest : List Char} {ts : List Token} (h : BrToks inp ts rest) :
    ts.length + rest.length ≤ inp.length := by
  induction h with
  | nil => simp
  | cons inp r rest t ts h1 _ _ _ ih =>
    have := brTok_length h1
    simp only [List.length_cons]
    omega

theorem SelT.length_pos {sel : Selector} {ts : List Token} (h : SelT sel ts) : 1 ≤ ts.length := by
  cases h <;> simp <;> omega

theorem SelsT.length_le {sels : List Selector} {ts : List Token} (h : SelsT sels ts) : sels.length ≤ ts.length := by
  induction h with
  | one s ts hs => have := hs.length_pos; simpa using this
  | cons s ss t ts1 ts2 hs _ _ ih => have := hs.length_pos; simp; omega

end JPV.Proofs.Ss
