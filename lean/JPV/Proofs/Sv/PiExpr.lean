/-
`Proofs.Sv.PiExpr` (copy of `Sf.PiExpr` for the relations of `Sv.Shape`) — inversion of the Pratt-loop functions (`parseInfix`, `filterExprLoop`,
`parseFilterExpr`, `parseByHandler`, `parsePrefix`, `parseGrouped`), one fuel step each.
-/
import JPV.Proofs.Sf.PiExpr
import JPV.Proofs.Sv.PiDefs
set_option linter.unusedSimpArgs false
set_option linter.unusedVariables false
namespace JPV.Proofs.Sv
open JPV JPV.Impl JPV.Proofs.Rq JPV.Proofs.Cs JPV.Proofs.Ss JPV.Proofs.Sf

variable [SigC]

/-! ### `parseInfix` -/

theorem infix_step {env : Env} {f : Nat} (ih : FilterExprInv env f) : InfixInv env (f + 1) := by
  intro q left tl o rest st' p he hL h
  have hb : binaryOp o.kind ≠ none := parseInfix_binop h
  have hoe : o.kind ≠ .eof := by
    intro e; apply hb; rw [e]; rfl
  rw [parseInfix] at h
  obtain ⟨tok, st1, hN, h2⟩ := exec_bind_ok h
  clear h
  obtain ⟨rfl, c, rest', rfl, he', rfl⟩ := fresh_nextTok he hoe hN
  clear hN
  obtain ⟨c0, st2, hC, h3⟩ := exec_bind_ok h2
  clear h2
  obtain ⟨rfl, rfl⟩ := exec_cur_ok hC
  clear hC
  dsimp only at h3
  obtain ⟨hg, h4⟩ := exec_guard_ok h3
  clear h3
  obtain ⟨right, st3, hR, h5⟩ := exec_bind_ok h4
  clear h4
  obtain ⟨ts, x, more, rfl, hrdy, hx, hRI, hstop⟩ := ih _ _ _ _ _ he' hR
  clear hR
  cases hop : binaryOp o.kind with
  | none => exact absurd hop hb
  | some bop =>
    rw [hop] at h5
    cases bop with
    | cmp op =>
      dsimp only at h5
      obtain ⟨u1, st4, h1, h6⟩ := exec_bind_ok h5
      obtain ⟨hc1, rfl⟩ := raiseForNonComparable_ok h1
      obtain ⟨u2, st5, h2, h7⟩ := exec_bind_ok h6
      obtain ⟨hc2, rfl⟩ := raiseForNonComparable_ok h2
      obtain ⟨rfl, rfl⟩ := exec_pure_ok h7
      obtain ⟨hprec, hcmp⟩ := binaryOp_cmp_prec hop
      rw [hprec] at hRI hstop ⊢
      have hl := hL.term_of_cmp hc1 (.inl hcmp)
      have hr := hRI.term_of_cmp hc2 (.inr (by
        intro lp ts' e hk
        obtain ⟨rfl, -⟩ := List.cons.inj e
        apply hg; simp [hcmp, hk]))
      exact ⟨c :: ts, x, more, rfl, hrdy, hx, .cmp op _ _ _ (by omega) (.cmp o op _ _ tl (c :: ts) hop hl hr)⟩
    | logical lop =>
      dsimp only at h5
      obtain ⟨u1, st4, h1, h6⟩ := exec_bind_ok h5
      obtain ⟨hl1, rfl⟩ := raiseForUncompared_ok h1
      obtain ⟨u2, st5, h2, h7⟩ := exec_bind_ok h6
      obtain ⟨hl2, rfl⟩ := raiseForUncompared_ok h2
      obtain ⟨rfl, rfl⟩ := exec_pure_ok h7
      cases lop with
      | and =>
        have hk := binaryOp_and hop
        have hprec : precedence o.kind = 4 := by rw [hk]; rfl
        rw [hprec] at hRI hstop ⊢
        exact ⟨c :: ts, x, more, rfl, hrdy, hx, .and _ _ _ (by omega)
          (.and o _ _ tl (c :: ts) hk (hL.basic_of_and hl1 hk) (hRI.and_of_prec hl2)) hstop.ne_and⟩
      | or =>
        have hk := binaryOp_or hop
        have hprec : precedence o.kind = 3 := by rw [hk]; rfl
        rw [hprec] at hRI hstop ⊢
        exact ⟨c :: ts, x, more, rfl, hrdy, hx, .or _ _ _ (by omega)
          (.or o _ _ tl (c :: ts) hk (hL.and_of_or hl1 hk) (hRI.or_loose hl2))
          (hstop.binNone_of_le3 (by omega))⟩

/-! ### the loops -/

theorem exprLoop_step {env : Env} {f : Nat} (ihI : InfixInv env f) (ihL : ExprLoopInv env f) :
    ExprLoopInv env (f + 1) := by
  intro prec left tl x more st st' p hrdy he hL h
  rw [filterExprLoop] at h
  obtain ⟨pk, st1, hP, h2⟩ := exec_bind_ok h
  clear h
  obtain ⟨rfl, c, rfl⟩ := ready_peekTok hrdy hP
  clear hP
  dsimp only at h2
  split at h2
  · rename_i hs
    obtain ⟨rfl, rfl⟩ := exec_pure_ok h2
    refine ⟨[], pk, more, rfl, .inr ⟨c, rfl⟩, he, by simpa using hL, ?_⟩
    simp only [Bool.or_eq_true, decide_eq_true_eq] at hs
    rcases hs with (hs | hs) | hs
    · exact .inl hs
    · exact .inr (.inl hs)
    · exact .inr (.inr (.inl hs))
  · rename_i hs
    simp only [Bool.or_eq_true, decide_eq_true_eq, not_or, Nat.not_lt] at hs
    split at h2
    · rename_i hb
      obtain ⟨rfl, rfl⟩ := exec_pure_ok h2
      refine ⟨[], pk, more, rfl, .inr ⟨c, rfl⟩, he, by simpa using hL, .inr (.inr (.inr ?_))⟩
      simpa using hb
    · obtain ⟨_, st2, hN, h3⟩ := exec_bind_ok h2
      clear h2
      have := exec_nextTok_ok hN
      rw [next_pushed] at this
      subst this
      clear hN
      obtain ⟨left', st3, hI, h4⟩ := exec_bind_ok h3
      clear h3
      obtain ⟨ts1, x1, more1, rfl, hrdy1, he1, hL1⟩ := ihI _ _ _ _ _ _ _ he hL hI
      clear hI
      obtain ⟨ts2, y, more', htoks, hrdy2, he2, hL2, hstop⟩ :=
        ihL _ _ _ _ _ _ _ _ hrdy1 he1 (hL1.mono hs.2) h4
      refine ⟨pk :: ts1 ++ ts2, y, more', ?_, hrdy2, he2, ?_, hstop⟩
      · rw [htoks]; simp
      · simpa using hL2

theorem argInfix_step {env : Env} {f : Nat} (ihI : InfixInv env f) (ihL : ArgInfixInv env f) :
    ArgInfixInv env (f + 1) := by
  intro left tl x more st st' p hrdy he hL h
  rw [functionArgInfix] at h
  obtain ⟨pk, st1, hP, h2⟩ := exec_bind_ok h
  clear h
  obtain ⟨rfl, c, rfl⟩ := ready_peekTok hrdy hP
  clear hP
  split at h2
  · rename_i hb
    obtain ⟨rfl, rfl⟩ := exec_pure_ok h2
    refine ⟨[], pk, more, rfl, .inr ⟨c, rfl⟩, he, by simpa using hL, ?_⟩
    simpa using hb
  · obtain ⟨_, st2, hN, h3⟩ := exec_bind_ok h2
    clear h2
    have := exec_nextTok_ok hN
    rw [next_pushed] at this
    subst this
    clear hN
    obtain ⟨left', st3, hI, h4⟩ := exec_bind_ok h3
    clear h3
    obtain ⟨ts1, x1, more1, rfl, hrdy1, he1, hL1⟩ := ihI _ _ _ _ _ _ _ he hL hI
    clear hI
    obtain ⟨ts2, y, more', htoks, hrdy2, he2, hL2, hstop⟩ :=
      ihL _ _ _ _ _ _ _ hrdy1 he1 (hL1.mono (Nat.zero_le _)) h4
    refine ⟨pk :: ts1 ++ ts2, y, more', ?_, hrdy2, he2, ?_, hstop⟩
    · rw [htoks]; simp
    · simpa using hL2

/-! ### `parseFilterExpr` -/

theorem filterExpr_step {env : Env} {f : Nat} (ihH : ByHandlerInv env f) (ihL : ExprLoopInv env f) :
    FilterExprInv env (f + 1) := by
  intro prec c rest st' p he h
  rw [parseFilterExpr] at h
  obtain ⟨c0, st0, hC, h2⟩ := exec_bind_ok h
  clear h
  obtain ⟨rfl, rfl⟩ := exec_cur_ok hC
  clear hC
  obtain ⟨left, st1, hH, h3⟩ := exec_bind_ok h2
  clear h2
  dsimp only at hH
  cases hm : tokenMap c.kind with
  | none => rw [hm] at hH; exact absurd hH failAt_ne_ok
  | some hd =>
    rw [hm] at hH
    dsimp only at hH
    rw [exec_tryCatch] at hH
    rcases hby : exec (parseByHandler env hd f) ⟨c, [], rest⟩ with ⟨res, st2⟩
    rw [hby] at hH
    cases res with
    | error err =>
      dsimp only at hH
      split at hH
      · obtain ⟨_, _, _, hH2⟩ := exec_bind_ok hH
        exact absurd hH2 failAt_ne_ok
      · simp [exec_throw] at hH
    | ok a =>
      dsimp only at hH
      obtain ⟨h1, h2⟩ := Prod.mk.inj hH
      obtain rfl := Except.ok.inj h1
      subst h2
      obtain ⟨ts, x, more, rfl, hrdy, hx, hprim⟩ := ihH _ _ _ _ _ he hm hby
      obtain ⟨ts2, y, more', htoks, hrdy2, he2, hL2, hstop⟩ :=
        ihL prec _ _ _ _ _ _ _ hrdy hx (.prim _ _ hprim) h3
      refine ⟨ts ++ ts2, y, more', ?_, hrdy2, he2, by simpa using hL2, hstop⟩
      rw [htoks]; simp

/-! ### primaries -/

theorem literal_case {hd : Handler} {c : Token} {rest : List Token} {st' : TStream} {p : PExpr}
    (he : EndsEof (c :: rest)) (hk : tokenMap c.kind = some hd)
    (hh : hd ≠ .grouped ∧ hd ≠ .prefix ∧ hd ≠ .function ∧ hd ≠ .rootQuery ∧ hd ≠ .relQuery)
    (h : exec (parseLiteral hd) ⟨c, [], rest⟩ = (.ok p, st')) :
    ∃ ts x more, rest = ts ++ x :: more ∧ Ready x more st' ∧ EndsEof (x :: more) ∧ Prim x p.e (c :: ts) := by
  obtain ⟨v, hv, hp, rfl⟩ := parseLiteral_ok (st := ⟨c, [], rest⟩) hk hh h
  have hne := tokenMap_ne_eof hk
  obtain ⟨x, more, rfl, he'⟩ := he.next hne
  refine ⟨[], x, more, rfl, .inl ⟨c, hne, rfl⟩, he', ?_⟩
  rw [hp]
  exact .term _ _ (.lit c v hv)

theorem byHandler_step {env : Env} {f : Nat} (ihG : GroupedInv env f) (ihP : PrefixInv env f)
    (ihF : FunctionInv env f) (ihQ : QueryInv env f) : ByHandlerInv env (f + 1) := by
  intro hd c rest st' p he hk h
  cases hd with
  | grouped => rw [parseByHandler] at h; exact ihG c rest st' p he (tokenMap_grouped hk) h
  | «prefix» => rw [parseByHandler] at h; exact ihP c rest st' p he (tokenMap_prefix hk) h
  | function => rw [parseByHandler] at h; exact ihF c rest st' p he (tokenMap_function hk) h
  | rootQuery =>
    rw [parseByHandler] at h
    have hck := tokenMap_rootQuery hk
    obtain ⟨t, st1, hN, h2⟩ := exec_bind_ok h
    obtain ⟨sg, st2, hQ, h3⟩ := exec_bind_ok h2
    obtain ⟨rfl, rfl⟩ := exec_pure_ok h3
    have hne := tokenMap_ne_eof hk
    obtain ⟨rfl, c1, rest', rfl, he', rfl⟩ := fresh_nextTok he hne hN
    obtain ⟨segs', ts, x, more, hs, htoks, hsegs, rfl, hx⟩ := ihQ _ _ _ _ _ _ he' hQ
    simp only [List.nil_append] at hs
    subst hs
    exact ⟨ts, x, more, htoks, .inr ⟨x, rfl⟩, hx, .term _ _ (.root c _ ts hck hsegs)⟩
  | relQuery =>
    rw [parseByHandler] at h
    have hck := tokenMap_relQuery hk
    obtain ⟨t, st1, hN, h2⟩ := exec_bind_ok h
    obtain ⟨sg, st2, hQ, h3⟩ := exec_bind_ok h2
    obtain ⟨rfl, rfl⟩ := exec_pure_ok h3
    have hne := tokenMap_ne_eof hk
    obtain ⟨rfl, c1, rest', rfl, he', rfl⟩ := fresh_nextTok he hne hN
    obtain ⟨segs', ts, x, more, hs, htoks, hsegs, rfl, hx⟩ := ihQ _ _ _ _ _ _ he' hQ
    simp only [List.nil_append] at hs
    subst hs
    exact ⟨ts, x, more, htoks, .inr ⟨x, rfl⟩, hx, .term _ _ (.rel c _ ts hck hsegs)⟩
  | string =>
    rw [parseByHandler] at h <;> first | (intro hh; cases hh) | exact literal_case he hk (by simp) h
  | boolean =>
    rw [parseByHandler] at h <;> first | (intro hh; cases hh) | exact literal_case he hk (by simp) h
  | float =>
    rw [parseByHandler] at h <;> first | (intro hh; cases hh) | exact literal_case he hk (by simp) h
  | int =>
    rw [parseByHandler] at h <;> first | (intro hh; cases hh) | exact literal_case he hk (by simp) h
  | null =>
    rw [parseByHandler] at h <;> first | (intro hh; cases hh) | exact literal_case he hk (by simp) h

theorem prefix_step {env : Env} {f : Nat} (ih : FilterExprInv env f) : PrefixInv env (f + 1) := by
  intro n rest st' p he hk h
  rw [parsePrefix] at h
  have hne : n.kind ≠ .eof := by rw [hk]; simp
  obtain ⟨tok, st1, hN, h2⟩ := exec_bind_ok h
  clear h
  obtain ⟨rfl, c, rest', rfl, he', rfl⟩ := fresh_nextTok he hne hN
  clear hN
  obtain ⟨c0, st2, hC, h3⟩ := exec_bind_ok h2
  clear h2
  obtain ⟨rfl, rfl⟩ := exec_cur_ok hC
  clear hC
  dsimp only at h3
  obtain ⟨hcn, h4⟩ := exec_guard_ok h3
  clear h3
  obtain ⟨right, st3, hR, h5⟩ := exec_bind_ok h4
  clear h4
  obtain ⟨ts, x, more, rfl, hrdy, hx, hRI, hstop⟩ := ih _ _ _ _ _ he' hR
  clear hR
  obtain ⟨u, st4, hU, h6⟩ := exec_bind_ok h5
  obtain ⟨hl, rfl⟩ := raiseForUncompared_ok hU
  obtain ⟨rfl, rfl⟩ := exec_pure_ok h6
  have hRI' : LI 7 x right.e (c :: ts) := hRI
  exact ⟨c :: ts, x, more, rfl, hrdy, hx, .neg n _ _ hk (hRI'.neg_of_prefix rfl hcn hk hl)⟩

theorem grouped_step {env : Env} {f : Nat} (ih : FilterExprInv env f) : GroupedInv env (f + 1) := by
  intro lp rest st' p he hk h
  rw [parseGrouped] at h
  have hne : lp.kind ≠ .eof := by rw [hk]; simp
  obtain ⟨tok, st1, hN, h2⟩ := exec_bind_ok h
  clear h
  obtain ⟨rfl, c, rest', rfl, he', rfl⟩ := fresh_nextTok he hne hN
  clear hN
  obtain ⟨e, st2, hE, h3⟩ := exec_bind_ok h2
  clear h2
  obtain ⟨ts, y, more, rfl, hrdy, hy, hLI, hstop⟩ := ih _ _ _ _ _ he' hE
  clear hE
  obtain ⟨_, st3, hN2, h4⟩ := exec_bind_ok h3
  clear h3
  obtain rfl := ready_nextTok hrdy hN2
  clear hN2
  obtain ⟨e', st4, hG, h5⟩ := exec_bind_ok h4
  clear h4
  obtain ⟨hyk, rfl, rfl⟩ := groupedLoop_inv (hstop.binNone_of_le3 (by simp [precLowest])) hG
  clear hG
  obtain ⟨_, st5, hX, h6⟩ := exec_bind_ok h5
  clear h5
  have : st5 = ⟨y, [], more⟩ := by
    simp [expect, exec_bind, exec_cur, hyk, exec_pure] at hX
    exact hX.symm
  subst this
  clear hX
  obtain ⟨_, st6, hU, h7⟩ := exec_bind_ok h6
  clear h6
  obtain ⟨hl, rfl⟩ := raiseForUncompared_ok hU
  clear hU
  obtain ⟨pk, st7, hP, h8⟩ := exec_bind_ok h7
  clear h7
  have hyne : y.kind ≠ .eof := by rw [hyk]; simp
  obtain ⟨z, more2, rfl, hz⟩ := hy.next hyne
  have := exec_peekTok_ok hP
  rw [peek_fresh y z more2 hyne] at this
  obtain ⟨rfl, rfl⟩ := Prod.mk.inj this
  clear hP this
  by_cases hcz : isComparisonTok z.kind = true
  · simp only [hcz, if_true] at h8
    obtain ⟨_, _, _, h9⟩ := exec_bind_ok h8
    obtain ⟨_, _, h10, _⟩ := exec_bind_ok h9
    exact absurd h10 failAt_ne_ok
  · simp only [hcz, if_false] at h8
    obtain ⟨rfl, rfl⟩ := exec_pure_ok h8
    have hcz' : isComparisonTok z.kind = false := by simpa using hcz
    refine ⟨(c :: ts) ++ [y], z, more2, by simp, .inr ⟨y, rfl⟩, hz, ?_⟩
    exact .paren lp y _ (c :: ts) hk hyk (hLI.or_loose hl) hl hcz'

end JPV.Proofs.Sv
