import JPV.Impl.NonDet
import JPV.Spec.NonDet
import JPV.Proofs.NonDetEval
import JPV.Proofs.Ndp.Segs
namespace JPV.Proofs
open JPV JPV.Impl

/-- C17, first half, at full strength for filter-free queries: for EVERY choice script (every outcome of
every member shuffle, visit-now-or-later coin flip and queue interleaving), the nodelist the nondeterministic
evaluator returns is one of the nodelists RFC 9535 permits (`Spec.ND.outcomes`: members of an object in any
order; for a descendant segment any visit order in which every node comes before its descendants and the
elements of an array come in array order; the selector results for one visited node contiguous and in
selector order). -/
theorem nd_find_permitted (env : Env) (reg : Spec.Registry) (q : Query) (v : Json) (s : ND.Script)
    (hff : Spec.filterFree q = true) (hw : v.WF) (hd : (v.depth : Int) ≤ env.maxDepth) (h1 : 1 ≤ env.maxDepth) :
    ∃ r, ND.find env q v s = .ok r ∧ r ∈ Spec.ND.outcomes reg q v := by
  have _ := h1
  exact Ndp.find_permitted env reg q v s hff hw hd

end JPV.Proofs
