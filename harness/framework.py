"""Shared machinery of every check: Tie A regeneration, `lake build`, axiom
audit, forbidden-construct grep, known findings, verdict and evidence."""
from __future__ import annotations

import json
import os
import re
import subprocess
import sys
import time

VERIF = os.path.dirname(os.path.dirname(os.path.abspath(__file__)))
LEAN_DIR = os.path.join(VERIF, "lean")
EVIDENCE_DIR = os.path.join(VERIF, "evidence")
REPLAY_DIR = os.path.join(VERIF, "replays")
WORK_DIR = os.path.join(VERIF, ".work")
ALLOWED_AXIOMS = {"propext", "Classical.choice", "Quot.sound"}
FORBIDDEN = re.compile(
    r"\bsorry\b|\badmit\b|^\s*axiom\s|native_decide|bv_decide|implemented_by|\bunsafe\s|maxHeartbeats\s+0\b"
)

TRUSTED_BASE = [
    "Lean 4.33.0 kernel; axioms limited to propext, Classical.choice, Quot.sound (audited with #print axioms on every run); no native_decide, no bv_decide, no axioms of ours",
    "Spec.* is a correct reading of RFC 9535 / RFC 9485 (short, laid out rule for rule)",
    "Tie A translator harness/gen_tables.py and Tie B harness (generators, wire encoding, lean/JPV/Driver.lean decoder): bugs there can hide differences, they cannot make a theorem true",
    "Impl.* is a hand-written model of /repo's Python; its agreement with the code is checked by differential testing on every run (sampling + small-scope enumeration), not proved",
    "Modelled, not verified: CPython primitives in JPV/Py.lean (slice.indices, range, list indexing, str.replace, json.dumps escaping, float()/repr()), generator semantics as Stream, dict insertion order, isinstance on JSON-shaped objects",
]


class Obligations:
    """Proof obligations of one property: Lean modules to build and theorem names to audit."""

    def __init__(self, modules, theorems, tables=()):
        self.modules = list(modules)
        self.theorems = list(theorems)
        self.tables = list(tables)


def run(cmd, cwd=None, timeout=3600, input_=None):
    p = subprocess.run(
        cmd, cwd=cwd, stdout=subprocess.PIPE, stderr=subprocess.STDOUT, timeout=timeout, input=input_
    )
    return p.returncode, p.stdout.decode("utf8", "replace")


def regenerate_tables():
    """Tie A. Returns (ok, detail)."""
    import gen_tables

    try:
        gen_tables.main(write=True)
        return True, "Generated.lean regenerated from /repo"
    except gen_tables.TieABroken as err:
        return False, f"Tie A broken: {err}"
    except Exception as err:  # noqa: BLE001
        return False, f"Tie A broken: {err!r}"


def lake_build(targets):
    """Build the given Lean modules. Returns (ok, failing_lines, raw_output)."""
    rc, out = run(["lake", "build"] + list(targets), cwd=LEAN_DIR, timeout=3000)
    errs = [ln for ln in out.splitlines() if ln.startswith("error:") or "error:" in ln[:120]]
    sorry = [ln for ln in out.splitlines() if "declaration uses 'sorry'" in ln or "declaration uses `sorry`" in ln]
    return rc == 0 and not sorry, errs + sorry, out


def leanchecker(modules):
    """Independent re-check of the compiled .olean files of the given modules (and what they import) by the
    toolchain's `leanchecker` (replays every declaration through the kernel).  Returns (ok, detail)."""
    rc, out = run(["lake", "env", "leanchecker"] + list(modules), cwd=LEAN_DIR, timeout=3000)
    if rc != 0:
        return False, "leanchecker failed: " + out.strip()[-400:]
    return True, "leanchecker ok"


def audit_axioms(modules, theorems):
    """`#print axioms` for every theorem. Returns (ok, {theorem: [axioms]}, problems)."""
    os.makedirs(WORK_DIR, exist_ok=True)
    path = os.path.join(WORK_DIR, f"Audit_{os.getpid()}.lean")
    with open(path, "w") as fd:
        for m in modules:
            fd.write(f"import {m}\n")
        for t in theorems:
            fd.write(f"#print axioms {t}\n")
    try:
        rc, out = run(["lake", "env", "lean", path], cwd=LEAN_DIR, timeout=1800)
    finally:
        try:
            os.remove(path)
        except OSError:
            pass
    found = {}
    problems = []
    for m in re.finditer(r"'([^']+)' depends on axioms: \[([^\]]*)\]", out.replace("\n ", " ")):
        axs = [a.strip() for a in m.group(2).split(",") if a.strip()]
        found[m.group(1)] = axs
        bad = [a for a in axs if a not in ALLOWED_AXIOMS]
        if bad:
            problems.append(f"{m.group(1)} depends on {bad}")
    for m in re.finditer(r"'([^']+)' does not depend on any axioms", out):
        found[m.group(1)] = []
    for t in theorems:
        if t not in found:
            problems.append(f"theorem {t} not found in the built environment")
    if rc != 0 and not problems:
        problems.append("audit file failed to elaborate: " + out[-500:])
    return not problems, found, problems


def grep_forbidden():
    """sorry/admit/axiom/native_decide/... outside comments in lean/JPV."""
    hits = []
    for root, _d, files in os.walk(os.path.join(LEAN_DIR, "JPV")):
        for f in files:
            if not f.endswith(".lean"):
                continue
            p = os.path.join(root, f)
            text = open(p, encoding="utf8").read()
            # strip block comments (non-nested is enough for this code base) and line comments
            text2 = re.sub(r"/-.*?-/", lambda m: "\n" * m.group(0).count("\n"), text, flags=re.S)
            for i, ln in enumerate(text2.splitlines(), 1):
                code = ln.split("--")[0]
                if FORBIDDEN.search(code):
                    hits.append(f"{os.path.relpath(p, LEAN_DIR)}:{i}: {ln.strip()[:100]}")
    return hits


def load_known_findings():
    with open(os.path.join(VERIF, "known_findings.json"), encoding="utf8") as fd:
        return json.load(fd)


class CodeCoverage:
    """Statement coverage of /repo's package by the inputs the exploration pushes through the REAL code (in this
    process): a measured bound on what Tie B can see.  Lines of the package that no input of a run executes are
    code whose behaviour this run's correspondence says nothing about; they are listed in the evidence."""

    def __init__(self):
        self.cov = None
        self.summary = None
        try:
            os.environ.setdefault("COVERAGE_CORE", "sysmon")
            import coverage  # present in /venv; absence only loses the measurement

            repo = os.environ.get("JPV_REPO", "/repo")
            self.pkg = os.path.join(os.path.realpath(repo), "jsonpath_rfc9535")
            self.cov = coverage.Coverage(data_file=None, include=[self.pkg + "/*"], config_file=False)
        except Exception as err:  # noqa: BLE001
            self.summary = {"error": f"coverage not measured: {err!r}"}

    def start(self):
        if self.cov is not None:
            try:
                self.cov.start()
            except Exception as err:  # noqa: BLE001
                self.summary = {"error": f"coverage not measured: {err!r}"}
                self.cov = None

    def stop(self):
        if self.cov is None:
            return self.summary
        try:
            self.cov.stop()
            files = {}
            tot_s = tot_m = 0
            for root, _d, fs in os.walk(self.pkg):
                for f in sorted(fs):
                    if not f.endswith(".py") or "utils" in root:
                        continue
                    path = os.path.join(root, f)
                    try:
                        _fn, stmts, _excl, missing, _fmt = self.cov.analysis2(path)
                    except Exception:  # noqa: BLE001
                        continue
                    if not stmts:
                        continue
                    rel = os.path.relpath(path, self.pkg)
                    files[rel] = {"statements": len(stmts), "executed": len(stmts) - len(missing),
                                  "missing_lines": missing[:60]}
                    tot_s += len(stmts)
                    tot_m += len(missing)
            self.summary = {
                "what": "statements of /repo/jsonpath_rfc9535 executed in-process by this run's exploration "
                        "(module import lines count as executed only if imported after measurement began)",
                "statements": tot_s, "executed": tot_s - tot_m,
                "percent": round(100.0 * (tot_s - tot_m) / tot_s, 1) if tot_s else 0.0,
                "files": files,
            }
        except Exception as err:  # noqa: BLE001
            self.summary = {"error": f"coverage not measured: {err!r}"}
        return self.summary


class CheckResult:
    """What the exploration part (Tie B + oracle search) of a check reports."""

    def __init__(self):
        self.evaluations = 0
        self.nontrivial = set()
        self.samples = []
        self.rule = ""
        self.distribution = {}
        self.mismatches = []  # model vs real code disagreements: (op, input, model, real)
        self.violations = []  # property failures on the real code: dict(input=..., observed=..., expected=...)
        self.known = []  # (finding id, text) confirmed still failing
        self.infra = []  # infrastructure problems (exit 2)
        self.notes = []
        self.exhaustive = False
        self.code_coverage = None

    def count(self, key, n=1):
        self.distribution[key] = self.distribution.get(key, 0) + n

    def sample(self, s, limit=6):
        if len(self.samples) < limit:
            self.samples.append(s)


def write_replay(prop, payload):
    os.makedirs(REPLAY_DIR, exist_ok=True)
    import hashlib

    h = hashlib.sha1(json.dumps(payload, sort_keys=True, default=str).encode()).hexdigest()[:10]
    path = os.path.join(REPLAY_DIR, f"{prop}-{h}.json")
    with open(path, "w", encoding="utf8") as fd:
        json.dump(payload, fd, indent=1, ensure_ascii=True, default=str)
    return path


def write_evidence(prop, tier, seed, t0, obligations_n, discharged_n, checker_cmd, res, extra_trusted, violations_n, proof_notes):
    os.makedirs(EVIDENCE_DIR, exist_ok=True)
    cov = {
        "obligations": obligations_n,
        "discharged": discharged_n,
        "checker_cmd": checker_cmd,
        "trusted_base": TRUSTED_BASE + list(extra_trusted),
        "evaluations": res.evaluations,
        "distinct_nontrivial": len(res.nontrivial),
        "rule": res.rule,
        "samples": res.samples or ["(no exploration samples in this run)"],
        "input_distribution": res.distribution,
        "exhaustive": bool(res.exhaustive),
        "proof_notes": proof_notes,
        "correspondence_mismatches": len(res.mismatches),
        "known_findings_printed": [k[0] for k in res.known],
        "notes": res.notes,
        "real_code_coverage": res.code_coverage or {"error": "not measured"},
    }
    ev = {
        "property_id": prop,
        "tier": tier,
        "seed": seed,
        "level": "proof",
        "coverage": cov,
        "assumptions": [
            "theorems are about the Lean model Impl.*; the model is tied to /repo by regenerated tables (Tie A) and differential runs (Tie B) which are sampling, not proof",
            "documents are JSON values with distinct member names (json.load output); numbers are finite",
        ],
        "wall_s": round(time.time() - t0, 2),
        "violations": violations_n,
    }
    with open(os.path.join(EVIDENCE_DIR, f"{prop}.json"), "w", encoding="utf8") as fd:
        json.dump(ev, fd, indent=1, ensure_ascii=True)
    return ev
