/-
C12 — str(query) is a faithful canonical form: it reparses to the same query.

Property text: "For every valid RFC 9535 query, the text str() gives for its
compiled form is itself a valid RFC 9535 query, compiling that text yields a
query that selects exactly the same nodes on every JSON value, and serialising
again gives the identical text. Names and string literals appear in canonical
single-quoted form, and parentheses are kept wherever dropping them would change
the grouping of '!', '&&', '||' or a comparison."

Proved here, at full strength on the model — `C12`: for EVERY environment whose index
range contains 1 (the printer writes an omitted slice step as `1`; `C12_needs_range`
shows the condition cannot be dropped — the default range qualifies) and every string
`s` that compiles to `q`: the text `str(q)` compiles, in the same environment, to `q`
with omitted slice steps written out at every nesting level (`normSegs`), and printing
that again gives the identical text.  With `C04` the printed text is a valid RFC 9535
query; `C12_same_nodes`: writing out the step selects the same nodes, in the same order, on every
JSON value.  The theorem `C12` below carries the hypothesis `FloatRoundTrips` for the float
literals of `q` (the text printed for a float literal is a complete RFC 9535 number that reads
back as the same float).  That hypothesis is DISCHARGED in `Props/C12Float.lean`
(`C12_unconditional`: no float hypothesis left) for the models `Py.reprFloat` / `Py.floatOfText`
of CPython's `repr(float)` / `float(str)` — after the attempt to prove it had REFUTED it
(`repr(1e16) = "1e+16"` reads back as an integer literal; `inf` is no number at all), a genuine
defect of the code (D34) repaired upstream: `Impl.strFloat` is the repaired printing.
`C12_partial` (structural fragment against `Spec.Grammar` directly), `C12_filter_partial`,
`C12_fixpoint`, `C12_quoting` are the earlier, narrower results and are kept.
-/
import JPV.Impl.Serialize
import JPV.Spec.Grammar
import JPV.Spec.Typing
import JPV.Props.C08
import JPV.Proofs.Printer
import JPV.Proofs.PrinterFilter
import JPV.Proofs.PrintCompile
import JPV.Proofs.Pc.NeedsRange
import JPV.Proofs.NormSelect
namespace JPV.Props
open JPV

/-- str() of any compiled query compiles again to the same query (omitted slice steps written out) and is a fixpoint -/
theorem C12 (env : Impl.Env) (s : Str) (q : Query)
    (h : Impl.compile env s = .ok q)
    (h1 : env.minIdx ≤ 1 ∧ 1 ≤ env.maxIdx)
    (hf : ∀ x ∈ Proofs.floatsSegs q, Proofs.FloatRoundTrips x) :
    Impl.compile env (Impl.strQuery q) = .ok (Proofs.normSegs q) ∧
    Impl.strQuery (Proofs.normSegs q) = Impl.strQuery q :=
  Proofs.print_compile_roundtrip env s q h h1 hf

/-- the query denoted by the printed text selects exactly the same nodes, in the same order, on every value -/
theorem C12_same_nodes (reg : Spec.Registry) (q : Query) (v : Json) :
    Spec.select reg (Proofs.normSegs q) v = Spec.select reg q v := Proofs.select_normSegs reg q v

/-- the range condition is needed: with an index range that excludes 1, `$[5:6]` prints as `$[5:6:1]`, which that
environment rejects -/
theorem C12_needs_range :
    ¬ ∀ (env : Impl.Env) (s : Str) (q : Query), Impl.compile env s = .ok q →
      Impl.compile env (Impl.strQuery q) = .ok (Proofs.normSegs q) := by
  intro h
  exact Proofs.Pc.roundtrip_needs_range (fun env s q hc => by rw [← Proofs.normSegs_eq]; exact h env s q hc)

theorem C12_partial (q : Query) (hff : Spec.filterFree q = true) (hne : Proofs.nonEmptySegs q = true) :
    ∃ c, Spec.parseQuery (Impl.strQuery q) = .valid c ∧ Spec.abstractSegs c = Proofs.normStep q :=
  Proofs.print_parse_structural q hff hne

/-- The filter fragment: for every filter expression the parser can build in test position (any nesting
of `!`, `&&`, `||`, comparisons, function calls with literal / query / logical / negated arguments,
embedded filter-free queries; string, boolean and null literals) the precedence-aware text str() prints is
derived by the RFC grammar and denotes exactly the same expression: parentheses are kept wherever
dropping them would change the grouping, and nowhere else does the grouping change. -/
theorem C12_filter_partial (e : Expr) (h : Proofs.printableTest e = true) :
    ∃ c, Spec.parseQuery (Impl.strQuery [.child [.filter e]]) = .valid c ∧
      Spec.abstractSegs c = [.child [.filter e]] := Proofs.print_parse_filter e h

/-- serialising the reparsed query gives the identical text -/
theorem C12_fixpoint (q : Query) : Impl.strQuery (Proofs.normStep q) = Impl.strQuery q :=
  Proofs.print_normStep q

/-- names and string literals appear in canonical single-quoted form -/
theorem C12_quoting (s : Str) : Impl.strSel (.name s) = Spec.normalName s ∧ Impl.strLit (.str s) = Spec.normalName s :=
  Proofs.print_quoting s

example : Impl.strQuery [.child [.name "a'b".toList, .slice none (some 2) none], .desc [.index (-1), .wild]]
    = "$['a\\'b', :2:1]..[-1, *]".toList := by decide +kernel

end JPV.Props
