/-
`Proofs.Cf.LexGTok` — the single tokens of a filter expression as `FL` runs: `&&`, `||`, `!`, the comparison
operators, and literals.
-/
import JPV.Proofs.Cf.LexGView
namespace JPV.Proofs.Cf
open JPV JPV.Impl JPV.Proofs.Rq

variable {D : Int} {inp : List Char}

theorem FL_and {r : List Char} (hD : D ≠ 0) (e : Spec.skipS inp = '&' :: '&' :: r) :
    FL D inp (fun ts => ∃ v k, ts = [⟨.and, v, k⟩]) r :=
  FL_tok hD e (by decide) (by decide) (fun l1 pre1 toks br h => by
    obtain ⟨l', s1, hst⟩ := lexFilter_and h
    exact ⟨l', _, _, s1, hst, _, _, rfl⟩)

theorem FL_or {r : List Char} (hD : D ≠ 0) (e : Spec.skipS inp = '|' :: '|' :: r) :
    FL D inp (fun ts => ∃ v k, ts = [⟨.or, v, k⟩]) r :=
  FL_tok hD e (by decide) (by decide) (fun l1 pre1 toks br h => by
    obtain ⟨l', s1, hst⟩ := lexFilter_or h
    exact ⟨l', _, _, s1, hst, _, _, rfl⟩)

theorem head_ne_of {t : List Char} (h : ∀ u, t ≠ '=' :: u) : t.head? ≠ some '=' := by
  cases t with
  | nil => simp
  | cons c u =>
    intro hc
    simp only [List.head?_cons, Option.some.injEq] at hc
    exact h u (by rw [hc])

theorem FL_not {t : List Char} (hD : D ≠ 0) (e : Spec.skipS inp = '!' :: t) (hne : ∀ u, t ≠ '=' :: u) :
    FL D inp (fun ts => ∃ v k, ts = [⟨.not, v, k⟩]) t :=
  FL_tok hD e (by decide) (by decide) (fun l1 pre1 toks br h => by
    obtain ⟨l', s1, hst⟩ := lexFilter_not h (head_ne_of hne)
    exact ⟨l', _, _, s1, hst, _, _, rfl⟩)

theorem FL_cop {r1 r2 : List Char} {op : COp} (hD : D ≠ 0)
    (h : Spec.comparisonOp (Spec.skipS r1) = some (op, r2)) :
    FL D r1 (fun ts => ∃ v k, ts = [⟨copKind op, v, k⟩]) r2 := by
  obtain ⟨e, hne⟩ := comparisonOp_inv h
  cases op with
  | eq =>
    exact FL_tok hD e (by decide) (by decide) (fun l1 pre1 toks br h => by
      obtain ⟨l', s1, hst⟩ := lexFilter_eq h
      exact ⟨l', _, _, s1, hst, _, _, rfl⟩)
  | ne =>
    exact FL_tok hD e (by decide) (by decide) (fun l1 pre1 toks br h => by
      obtain ⟨l', s1, hst⟩ := lexFilter_ne h
      exact ⟨l', _, _, s1, hst, _, _, rfl⟩)
  | lt =>
    exact FL_tok hD e (by decide) (by decide) (fun l1 pre1 toks br h => by
      obtain ⟨l', s1, hst⟩ := lexFilter_lt h (head_ne_of (hne (.inl rfl)))
      exact ⟨l', _, _, s1, hst, _, _, rfl⟩)
  | le =>
    exact FL_tok hD e (by decide) (by decide) (fun l1 pre1 toks br h => by
      obtain ⟨l', s1, hst⟩ := lexFilter_le h
      exact ⟨l', _, _, s1, hst, _, _, rfl⟩)
  | gt =>
    exact FL_tok hD e (by decide) (by decide) (fun l1 pre1 toks br h => by
      obtain ⟨l', s1, hst⟩ := lexFilter_gt h (head_ne_of (hne (.inr rfl)))
      exact ⟨l', _, _, s1, hst, _, _, rfl⟩)
  | ge =>
    exact FL_tok hD e (by decide) (by decide) (fun l1 pre1 toks br h => by
      obtain ⟨l', s1, hst⟩ := lexFilter_ge h
      exact ⟨l', _, _, s1, hst, _, _, rfl⟩)

/-! ### literals -/

theorem lexer_ne_of_toks {l l' : Lexer} {t : Token} {toks : List Token} (h : l.toks = toks)
    (h' : l'.toks = t :: toks) : l' ≠ l := by
  intro e
  rw [e, h] at h'
  have := congrArg List.length h'
  simp at this

theorem tfChar_kwEnd {c : Char} (h : tfChar c = true) :
    (isLower c || c = '_' || isDigit c || c = '(') = false := by
  simp only [tfChar, Bool.or_eq_true, decide_eq_true_eq] at h
  rcases h with (((((((h | h) | h) | h) | h) | h) | h) | h) | h <;> subst h <;> decide

/-- what follows a term (blank space, an operator, `)`, `,`, `]`) ends a keyword literal: it is neither a
function-name character nor `(` -/
theorem TFollow.kwEnd {r : List Char} (h : TFollow r) : kwEnd r = true := by
  obtain ⟨c, t, e, hc⟩ := h
  cases r with
  | nil => rfl
  | cons d u =>
    by_cases hw : Impl.isWs d = true
    · have : ((d = ' ' ∨ d = '\n') ∨ d = '\r') ∨ d = '\t' := by simpa [Impl.isWs] using hw
      rcases this with ((rfl | rfl) | rfl) | rfl <;> rfl
    · rw [Cs.skipS_of_head (by simpa using hw)] at e
      simp only [List.cons.injEq] at e
      rw [Cf.kwEnd, e.1, tfChar_kwEnd hc]
      rfl

/-- a literal of the grammar is one literal token -/
theorem FL_literal {r : List Char} {v : Json} (hD : D ≠ 0) (hin : Spec.skipS inp = inp)
    (h : Spec.literal inp = some (v, r)) (hf : TFollow r) :
    FL D inp (fun ts => ∃ t, ts = [t] ∧ LitTok t v) r := by
  cases literal_inv h with
  | str s hs hv =>
    subst hv
    obtain ⟨q, body, hq, hsc, e, hd⟩ := stringLiteral_inv hs
    intro s0 l toks br hv
    have hq1 : q ≠ '.' := by rcases hq with rfl | rfl <;> decide
    have hq2 : q ≠ '[' := by rcases hq with rfl | rfl <;> decide
    obtain ⟨l', r1, pre', k, hst⟩ := hv.run_reach (sn := .filter) hD (hin.trans e) hq1 hq2
      (Q := fun l' => ∃ pre' k, FSt D l' pre' [] r (⟨strKind q, body, k⟩ :: toks) br)
      (fun l1 pre1 h1' => by
        obtain ⟨l', hr, hst⟩ := filter_quoted hq hsc h1'
        exact ⟨l', hr, lexer_ne_of_toks h1'.toks hst.toks, _, _, hst⟩)
    exact ⟨.filter, l', [_], r1, .of_filter (by simpa using hst), _, rfl, .str q body s k hq hd⟩
  | true_ e hv =>
    subst hv
    refine FL_tok hD (hin.trans e) (by decide) (by decide) (fun l1 pre1 toks br h => ?_)
    obtain ⟨l', s1, hst⟩ := lexFilter_true h hf.kwEnd
    exact ⟨l', _, _, s1, hst, _, rfl, .true_ _ _⟩
  | false_ e hv =>
    subst hv
    refine FL_tok hD (hin.trans e) (by decide) (by decide) (fun l1 pre1 toks br h => ?_)
    obtain ⟨l', s1, hst⟩ := lexFilter_false h hf.kwEnd
    exact ⟨l', _, _, s1, hst, _, rfl, .false_ _ _⟩
  | null e hv =>
    subst hv
    refine FL_tok hD (hin.trans e) (by decide) (by decide) (fun l1 pre1 toks br h => ?_)
    obtain ⟨l', s1, hst⟩ := lexFilter_null h hf.kwEnd
    exact ⟨l', _, _, s1, hst, _, rfl, .null _ _⟩
  | num sp x hn hx hv =>
    subst hv
    obtain ⟨e, ⟨c, t, esp, hc⟩, hre⟩ := number_token hn hx hf.numFollow
    subst esp
    have hc1 : c ≠ '.' := by
      rcases hc with rfl | hd
      · decide
      · rintro rfl; revert hd; decide
    have hc2 : c ≠ '[' := by
      rcases hc with rfl | hd
      · decide
      · rintro rfl; revert hd; decide
    have e' : Spec.skipS inp = c :: (t ++ r) := by rw [hin, e]; rfl
    have et : (c :: (t ++ r)).take (c :: t).length = c :: t := by
      rw [← List.cons_append]; simp
    have ed : (c :: (t ++ r)).drop (c :: t).length = r := by
      rw [← List.cons_append]; simp
    have e2 : inp = c :: (t ++ r) := by rw [e]; rfl
    rw [e2] at hre
    refine FL_tok hD e' hc1 hc2 (fun l1 pre1 toks br h => ?_)
    rcases hre with ⟨hfl, hlt⟩ | ⟨hfl, hint, hlt⟩
    · obtain ⟨l', s1, hst⟩ := lexFilter_float' h rfl hc hfl
      rw [et, ed] at hst
      exact ⟨l', _, _, s1, hst, _, rfl, hlt _⟩
    · obtain ⟨l', s1, hst⟩ := lexFilter_int' h rfl hc hfl hint
      rw [et, ed] at hst
      exact ⟨l', _, _, s1, hst, _, rfl, hlt _⟩

end JPV.Proofs.Cf
