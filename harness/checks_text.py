"""Exploration for the text-side properties: C03, C04, C05, C08, C09, C12, C13, C19."""
from __future__ import annotations

import itertools
import json
import random
import re

import gen
import model
import real
import wire
from checks_eval import PROBE_ENV, doc_with_all_kinds, sizes, walk_query
from sweep import sweep

FULL_FNS = [
    ("length", ["V"], "V", "length"),
    ("count", ["N"], "V", "count"),
    ("value", ["N"], "V", "value"),
    ("match", ["V", "V"], "L", "match"),
    ("search", ["V", "V"], "L", "search"),
]
FULL_ENV = dict(real.DEFAULT_ENVDESC)
FULL_ENV["fns"] = FULL_FNS


def differently_configured_alongside(res):
    """Whatever configuration knobs the environment class offers (its public class attributes holding a bool, a small
    integer or None — found by introspection, so knobs added later are included), an environment of a SUBCLASS that sets
    a knob the other way is a different environment: it is created and USED here (valid, invalid and borderline texts,
    a few evaluations), before the stock environment is judged.  Nothing it does may change what the stock environment,
    the module-level functions or fresh stock environments accept — the judging is what the rest of the check does."""
    import jsonpath_rfc9535 as jp

    texts = ["$", "$.a", "$[?@.a == true]", "$[?@.a == TRUE]", "$[?@.a == True]", "$[?@.a == NULL]", "$[?@.a == None]", "$[?@.a == nil]", "$[?@.a==01]", "$[01]", "$.a-b", "$ ", " $",
             "$[?count(@.*) > 1]", "$[?length(@.a) == 1 && !match(@.b, 'x')]", "$[?nope(@)]", "$[?@.a == 'x']", "$['\\x']", "$[?(@.a)==1]", "$[1:2:3]", "$[9007199254740992]", "$..*",
             "$[?@[?@.a > 1.5e2]]", "$[?!!@.a]", "$[?@.a = 1]", "$[?@.a === 1]", "$.a[", "$[?value(@.a) == null]", "$[?search(@.a, '[a-z]+')]", "$.é", "$['a',]"]
    docs = [{"a": [1, {"a": True, "b": "x"}], "b": None}, [1, "a", None, [2]], "s"]
    knobs = []
    for name, val in vars(jp.JSONPathEnvironment).items():
        if name.startswith("_") or callable(val) or isinstance(val, (property, classmethod, staticmethod)):
            continue
        if isinstance(val, bool):
            knobs.append((name, not val))
        elif val is None:
            knobs += [(name, True), (name, 1)]
        elif isinstance(val, int) and name not in ("min_int_index", "max_int_index"):
            knobs += [(name, 0), (name, 1), (name, 3)]
    for name, new in knobs:
        try:
            cls = type("Alongside_" + name, (jp.JSONPathEnvironment,), {name: new})
            env = cls()
        except Exception:  # noqa: BLE001
            continue
        for t in texts:
            try:
                c = env.compile(t)
            except Exception:  # noqa: BLE001
                continue
            for d in docs:
                try:
                    c.find(d)
                except Exception:  # noqa: BLE001
                    pass
        res.evaluations += 1
    res.count("differently-configured-environments-used-first", len(knobs))
    res.notes.append("knobs flipped on subclass environments before judging the stock environment: " + ", ".join(f"{n}={v!r}" for n, v in knobs))


def compile_cases(res, envdesc, queries, prop, want="any"):
    """Each query through: real compile, model compile (Tie B), RFC judge (oracle).
    want: 'valid' (C03 stream), 'invalid' (C04 stream) or 'any'."""
    env = real.make_env(envdesc)
    eenv = real.enc_env(envdesc)
    lines, reals = [], []
    for q in queries:
        try:
            rl, _c = real.observe_compile(env, q)
        except RecursionError:
            rl = "err PY:RecursionError none"
        reals.append(rl)
        eq = wire.enc_str(q)
        lines.append(f"compile\t{eenv}\t{eq}")
        lines.append(f"rfc.judge\t{eenv}\t{eq}")
    out = model.run_batch_parallel(lines)
    for i, q in enumerate(queries):
        rl, ml, ol = reals[i], out[2 * i], out[2 * i + 1]
        res.evaluations += 1
        if ml != rl:
            res.mismatches.append({"op": "compile", "query": q, "env": envdesc, "model": ml[:300], "real": rl[:300]})
        verdict = ol.split("\t")[0]
        res.count("oracle-" + verdict)
        res.count("real-" + (rl.split(" ")[1] if rl.startswith("err ") else "ok"))
        if rl.startswith("err PY:"):
            res.violations.append({"property": "C13", "query": q, "env": envdesc, "observed": rl,
                                   "expected": "a query object or a JSONPathError",
                                   "what": "compile() raised an exception that is not a JSONPathError"})
        if verdict == "valid":
            if want != "invalid":
                res.nontrivial.add(q)
                res.sample({"query": q, "verdict": "valid"})
            if not rl.startswith("ok\t"):
                res.violations.append({"property": "C03" if prop != "C05" else "C05", "query": q, "env": envdesc, "observed": rl,
                                       "expected": "compiles", "what": "a valid RFC 9535 query was rejected"})
            elif rl.split("\t", 1)[1] != ol.split("\t", 1)[1]:
                res.violations.append({"property": prop if prop in ("C03", "C05", "C09") else "C03", "query": q, "env": envdesc,
                                       "observed": rl[:400], "expected": ol[:400],
                                       "what": "compile() built a query different from the RFC derivation"})
        elif verdict == "invalid":
            if want == "invalid":
                res.nontrivial.add(q)
                res.sample({"query": q, "verdict": ol})
            if rl.startswith("ok\t"):
                res.violations.append({"property": "C04" if ol.endswith("ungrammatical") else "C05", "query": q,
                                       "env": envdesc, "observed": rl[:300], "expected": "JSONPathError",
                                       "what": "a string outside RFC 9535 (" + ol.split("\t")[1] + ") was accepted"})
        elif verdict != "disputed":
            res.infra.append("oracle: " + ol[:80])
    return reals, out


# ---------------------------------------------------------------------------------------------
# C03

NONASCII_NAMES = ["é", "😀", "a😀b", "ß0", "_", "_1", "Ω", "\u0080", "\ud7ff", "\ue000", "\U0010ffff", "a_b", "A", "z9",
                  # characters Python calls white space or digits/letters but RFC 9535 treats as ordinary name characters,
                  # at the end, the start and the middle of a shorthand name
                  "a\u00a0", "\u00a0", "x\u2028", "\u2029y", "\u3000", "\u0085", "a\u1680b", "\u2003", "\u202f_", "\u205f", "\ufeff",
                  "e\u0301", "\u212b", "\uf900", "a\u0661", "\uff21", "\u00aa", "\u02b0"]
NUMBER_SPELLINGS = ["0", "-0", "1", "-1", "10", "0.0", "-0.0", "0.5", "1.50", "1e0", "1E0", "1e+0", "1e-0", "1E+10", "0e0",
                    "-0e-0", "0E+3", "12.5e1", "12.5E-1", "9007199254740991", "-9007199254740991", "1e2", "100e-2", "0.1e1",
                    "1e-1", "2.5e+0", "-1.0E-2", "123456789", "0.000001", "1e22", "5e-324", "1.7976931348623157e308"]


def explore_c03(rng, tier, res, deep=False):
    res.rule = (
        "strings generated from the RFC 9535 ABNF (every optional blank position, both quote styles, every escape "
        "spelling, shorthand and bracket notation incl. non-ASCII/non-BMP shorthand, every number spelling, nested "
        "filters, built-in functions with type-directed arguments); judged valid by the independent recogniser "
        "Spec.Grammar+Spec.Valid; real compile() must accept and build the derivation's AST. Non-trivial = "
        "distinct valid query."
    )
    differently_configured_alongside(res)
    n = sizes(tier, deep, 2500, 60000)
    fns3 = [(a, b, c) for a, b, c, _ in FULL_FNS]
    qs = []
    g1 = gen.QueryGen(rng, names=gen.NAMES + NONASCII_NAMES, fns=fns3, blanks=0.3, literals=NUMBER_SPELLINGS)
    g2 = gen.QueryGen(rng, names=gen.SIMPLE_NAMES + NONASCII_NAMES, fns=fns3, blanks=0.05, max_filter_depth=3)
    for i in range(n):
        qs.append((g1 if i % 2 else g2).query())
    # every number spelling in literal position, every escape form in name and literal position
    for sp in NUMBER_SPELLINGS:
        qs.append(f"$[?@.a=={sp}]")
        qs.append(f"$[?{sp} < @[0]]")
        qs.append(f"$[?length(@) >= {sp}]")
    for q in ("'", '"'):
        other = '"' if q == "'" else "'"
        for body in ["", "a", other, "\\" + q, "\\\\", "\\/", "\\b\\f\\n\\r\\t", "\\u0000", "\\u001F", "\\u00e9", "\\uD83D\\uDE00",
                     "\\ud83d\\ude00", "\\uDBFF\\uDFFF", "\\uD800\\uDC00", "\\uFFFF", "\\ud7ff\\ue000", " ", "\x7f", "é😀",
                     "\\\\" + other, other + "\\" + q + other]:
            qs.append(f"$[{q}{body}{q}]")
            qs.append(f"$[?@=={q}{body}{q}]")
            qs.append(f"$[?match(@, {q}{body}{q})]")
    for nm in NONASCII_NAMES:
        qs += [f"$.{nm}", f"$..{nm}", f"$[?@.{nm}]", f"$.{nm}.{nm}[?$.{nm}=={'1'}]"]
    # match()/search() with a string LITERAL as pattern: any string literal is a valid argument (whether it is a valid
    # I-Regexp only matters at evaluation, where an invalid one gives false) — patterns that regular-expression
    # engines reject or treat specially included
    pats = ["a{2,1}", "[z-a]", "[b-a]+", "(", ")", "[", "]", "a]", "}", "{", "*", "+", "?", "a**", "\\", "\\p{Xx}", "\\p{Lu", "[^]", "[]", "(?i)a", "(?P<n>a)", "a{1,2}{3}",
            "\\d", "\\w+", "^a$", "a|", "|", "x{99999999999}", "[\\p{L}-z]", ".", ".*", "", "(a", "a)", "[a", "\\1", "(a)\\1", "a{,2}", "a{2,}", "[a-]", "[-a]", "é{2}", "😀+"]
    for pt in pats:
        for qq in ("'", '"'):
            lit = qq + pt + qq
            qs += [f"$[?match(@.a, {lit})]", f"$[?search(@, {lit})]", f"$[?!match({lit}, {lit})]", f"$[?search(@.a, {lit}) || match(@.b, {lit})]"]
    # flat chains of one logical operator, of every length from 2 to 64 and a few longer ones (however many times a parser
    # re-reads a token per operand, the count grows with the chain), tests and comparisons, bare and parenthesised
    for nterms in list(range(2, 65)) + [80, 100, 128]:
        opx = "||" if nterms % 2 else "&&"
        qs.append("$[?" + f" {opx} ".join(f"@.id == {i}" for i in range(nterms)) + "]")
        if nterms % 3 == 0:
            qs.append("$[?(" + f" {opx} ".join(f"@.k{i}" for i in range(nterms)) + ")]")
            qs.append("$[?" + f"{opx}".join(f"!@.k{i}" for i in range(nterms)) + "]")
    compile_cases(res, FULL_ENV, qs, "C03", want="valid")
    other_environments_alongside(res)


def other_environments_alongside(res):
    """'Well-typed with the built-in functions' is a fact about the built-ins, not about what some OTHER environment did to
    its own registry: a stock environment made first, the module-level functions, a stock environment made in between and a
    subclass that registers more functions must all go on accepting valid queries that call the built-ins after another
    environment has removed a built-in, replaced one by a function of another signature, or emptied its registry."""
    import jsonpath_rfc9535 as jp
    from jsonpath_rfc9535.function_extensions import ExpressionType, FilterFunction

    class Odd(FilterFunction):
        arg_types = [ExpressionType.VALUE, ExpressionType.VALUE]
        return_type = ExpressionType.LOGICAL

        def __call__(self, *a):
            return False

    valid = ["$[?match(@.tz, 'Europe/.*')]", "$[?count(@.*) > 2]", "$[?length(@.a) == 1]", "$[?value(@..a) == 1]", "$[?search(@, 'a')]",
             "$[?count(@.*) == length(@)]", "$[?!search(@.a, value(@.b))]"]
    stock_first = jp.JSONPathEnvironment()

    class More(jp.JSONPathEnvironment):
        def setup_function_extensions(self):
            super().setup_function_extensions()
            self.function_extensions["odd"] = Odd()

    more = More()
    steps = [
        ("another environment deleted match and search", lambda e: (e.function_extensions.pop("match", None), e.function_extensions.pop("search", None))),
        ("another environment replaced count and length by two-parameter LogicalType functions", lambda e: e.function_extensions.update({"count": Odd(), "length": Odd()})),
        ("another environment emptied its registry", lambda e: e.function_extensions.clear()),
        ("a subclass instance replaced value", lambda e: e.function_extensions.update({"value": Odd()})),
    ]
    for label, act in steps:
        sandbox = (type("Sandbox", (jp.JSONPathEnvironment,), {}) if "subclass" in label else jp.JSONPathEnvironment)()
        act(sandbox)
        for who, comp in (("a stock environment created earlier", stock_first.compile), ("the module-level compile()", jp.compile),
                          ("a subclass instance that registers an extra function", more.compile)):
            for q in valid:
                res.evaluations += 1
                try:
                    comp(q)
                except jp.JSONPathError as exc:
                    res.violations.append({"property": "C03", "query": q, "observed": f"{type(exc).__name__}: {exc}", "expected": "compiles",
                                           "history": f"{label}; then {who} compiles the text",
                                           "what": "a valid query calling built-in functions is rejected because of what another environment did to its own registry"})
                    return
        # only now a further stock environment (constructing one re-registers the built-ins and would hide the damage)
        later = jp.JSONPathEnvironment()
        for q in valid:
            res.evaluations += 1
            try:
                later.compile(q)
            except jp.JSONPathError as exc:
                res.violations.append({"property": "C03", "query": q, "observed": f"{type(exc).__name__}: {exc}", "expected": "compiles",
                                       "history": f"{label}; then a stock environment is created and compiles the text",
                                       "what": "a valid query calling built-in functions is rejected by a new stock environment"})
                return
    res.count("other-environments-alongside", len(steps))


# ---------------------------------------------------------------------------------------------
# C04

CORPUS = [
    "$", "$.a", "$..a", "$.*", "$..*", "$[0]", "$[-1]", "$['a']", '$["a"]', "$[*]", "$[0,1]", "$[1:2]", "$[::2]", "$[1:2:3]",
    "$ .a", "$.a [0]", "$[ 0 , 'a' ]", "$..[0]", "$..['a',*]", "$[?@.a]", "$[?@.a==1]", "$[?@.a == 'b']", "$[?!@.a]",
    "$[?@.a && @.b]", "$[?@.a || @.b && @.c]", "$[?(@.a || @.b) && @.c]", "$[?!(@.a==1)]", "$[?@.a<1.5e2]", "$[?@.a>=-0]",
    "$[?length(@.a)==1]", "$[?count(@.*)>0]", "$[?value(@..a)==null]", "$[?match(@.a,'b.*')]", "$[?search(@.a, \"b\")]",
    "$[?@[?@.x>1]]", "$[?$.a==@.b]", "$[?@['a'][0]==true]", "$[?@.a==false]", "$[?@ == 'x']", "$[?'x' != @]", "$.a.b.c",
    "$['a']['b'][0]", "$[?@.a, ?@.b]", "$[0, ?@.a, 'x', 1:2]", "$[?length(@)>1 && !match(@.x, 'y')]", "$[?1==1]",
    "$[?@.é==\"\\u00e9\"]", "$.é", "$..['\\n']", "$[?count(@[?@.a])==2]", "$[?@[0:1]]", "$[?@..*]", "$[?@.a==1e1]",
]


def edit_neighbours(q, alphabet):
    out = set()
    for i in range(len(q) + 1):
        for c in alphabet:
            out.add(q[:i] + c + q[i:])
        if i < len(q):
            out.add(q[:i] + q[i + 1 :])
            for c in alphabet:
                out.add(q[:i] + c + q[i + 1 :])
            if i + 1 < len(q):
                out.add(q[:i] + q[i + 1] + q[i] + q[i + 2 :])
    out.discard(q)
    return out


EDIT_ALPHABET = list("$@.[]()?*,:'\"\\!=<>&| \n-+01eEtnTx_/") + ["é", "\x00", "😀"]


def explore_c04(rng, tier, res, deep=False):
    res.rule = (
        "strings that the independent recogniser judges outside RFC 9535: single-edit neighbours (delete / insert / "
        "replace / transpose over a 37-character critical alphabet) of a valid corpus, random multi-edit mutants "
        "of generated valid queries, short token sequences with and without blanks; real compile() must raise a "
        "JSONPathError. Thorough: every single-edit neighbour of the corpus and all token sequences up to length 4. "
        "Non-trivial = distinct string judged invalid."
    )
    differently_configured_alongside(res)
    fns3 = [(a, b, c) for a, b, c, _ in FULL_FNS]
    g = gen.QueryGen(rng, names=gen.NAMES, fns=fns3, blanks=0.15)
    qs = set()
    n = sizes(tier, deep, 2500, 30000)
    for _ in range(n):
        q = g.query()
        for _ in range(rng.choice([1, 1, 1, 2, 3])):
            q = gen.mutate(rng, q)
        qs.add(q)
    for _ in range(n // 2):
        qs.add(gen.soup(rng))
    for _ in range(n // 3):
        qs.add(operand_soup(rng))
    corpus = CORPUS if tier == "thorough" else rng.sample(CORPUS, 6 if not deep else 14)
    for c in corpus:
        nb = edit_neighbours(c, EDIT_ALPHABET)
        if tier != "thorough":
            nb = rng.sample(sorted(nb), min(len(nb), 250))
        qs.update(nb)
    if tier == "thorough":
        toks = ["$", "@", ".", "..", "[", "]", "(", ")", "?", "*", ",", ":", "'a'", "!", "==", "<", "&&", "||", " ", "-", "0", "1",
                "01", "1.5", "1e2", "true", "a", "length(", "\\"]
        for k in range(1, 5):
            for seq in itertools.product(toks, repeat=k):
                if k == 4 and rng.random() > 0.06:
                    continue
                s = "".join(seq)
                qs.add(s)
                qs.add("$" + s)
    # the families the property text lists
    listed = ["$ ", " $", "$.a ", "$. a", "$.. a", "$[01]", "$[-0]", "$[1:-0]", "$[?@.a==01]", "$[?@.a==-01]", "$[?@.a==1.]",
              "$[?@.a==.5]", "$[?@.a==1e]", "$[?@.a==1e+]", "$[?@.a==+1]", "$['\\x']", "$['\\u12']", "$['\\ud800']", "$['\\udc00\\ud800']",
              "$[\"\\'\"]", "$['\\\"']", "$[?@.a===1]", "$[?@.a=1]", "$[?@.a==]", "$[?==1]", "$[?@.a&&]", "$[?@.a &&& @.b]", "$[?@.a | @.b]",
              "$[?(@.a)==1]", "$[?@.a==(1)]", "$[?!@.a==1]", "$[?@.a==!@.b]", "$[?!!@.a]", "$[?@.a==1==2]", "$[0,]", "$[,0]", "$[0 1]",
              "$[0:1:2:3]", "$[", "$]", "$[0", "$[?(@.a]", "$[?@.a)]", "x$", "$x", "$.a]", "$[?@.a==TRUE]", "$[?@.a==True]", "$[?@.a==Null]",
              "$[?@.a==nul]", "$[?count (@.a)==1]", "$[?length(@.a,)==1]", "$[?length(,@.a)==1]", "$[?length(@.a @.b)==1]", "$.a-b", "$.1a",
              "$..", "$...a", "$.['a']", "$[?@.a==1 2]", "$[?]", "$[? ]", "$[?@.a==\"\n\"]", "$['\t']", "$[?@.a == 'x' 'y']", "$[?1]", "$[?true]",
              "$[?@.*==1]", "$[?@..a==1]", "$[?@[0,1]==1]", "$[?@[0:1]==1]", "$[?length(@.*)==1]", "$[?count(1)==1]", "$[?match(@.a)]",
              "$[?length(@.a)]", "$[?match(@.a,'b')==true]", "$[?nope(@.a)]", "$[9007199254740992]", "$[-9007199254740992]",
              "$[1:9007199254740992]", "$[::-9007199254740992]"]
    qs.update(listed)
    # a logical operator whose operands are LITERALS (equal, Python-equal or different), wherever an expression can stand:
    # a bare literal is not a basic-expr, so none of these is a logical-expr, whatever could be "simplified"
    lits4 = ["1", "true", "1.0", "null", "'x'", "false", "0", "2"]
    for a in lits4:
        for b in (a, "1", "true", "null"):
            for opx in ("&&", "||"):
                qs.update([f"$[?length({a} {opx} {b}) == 1]", f"$[?search(@.a, {a} {opx} {b})]", f"$[?match({a} {opx} {b}, 'x')]", f"$[?{a} {opx} {b}]", f"$[?({a} {opx} {b})]",
                           f"$[?!({a} {opx} {b})]", f"$[?@.a && {a} {opx} {b}]", f"$[?count({a} {opx} {b}) == 1]", f"$[?@.a == ({a} {opx} {b})]", f"$[?value({a} {opx} {b}) == 1]",
                           f"$[?length(({a} {opx} {b})) == 1]", f"$[?{a} {opx} {b} == 1]"])
    # malformed numbers in every numeric position: digits outside %x30-39 (Unicode decimal digits, superscripts, Roman
    # numerals), signs, separators, hexadecimal and other base prefixes, doubled points and exponents, infinities
    D = ["\u0665", "\u0661", "\uff11", "\U0001d7cf", "\u0967", "\u00b2", "\u2160", "\u0e51", "\u1041"]
    odd = []
    for d in D:
        odd += [f"1.{d}", f"{d}.5", f"1e-{d}", f"1.5e{d}", f"1.5e-{d}", f"{d}", f"-{d}", f"1{d}", f"{d}e-1", f"{d}{d}.{d}{d}", f"1e{d}", f"0.{d}e1"]
    odd += ["00", "-00", "00.5", "000e1", "-00E-1", "0000", "00e0", "-000.0", "00.0", "000", "0_0", "00e-1", "-00.5e1",
            "1_0", "1_0.5", "1.5_0", "0x10", "0b1", "0o7", "1e1.5", "1..5", "1.5.5", "1ee1", "1e--1", "1e+-1", "+1.5", "--1", "-+1", "1.5e", "1.e5",
            ".5e1", "1e", "inf", "-inf", "Infinity", "nan", "NaN", "1.5f", "1L", "1j", "1,5", "1 .5", "1. 5", "1 e1", "1e 1", "- 1", "-.5", "1/2", "٣٫٥"]
    for sp in odd:
        qs.update([f"$[?@.a=={sp}]", f"$[?{sp}<@]", f"$[?@=={sp}&&@.b]", f"$[?length(@)>={sp}]", f"$[?match(@.a,{sp})]", f"$[{sp}]", f"$[{sp}:]", f"$[:{sp}]",
                   f"$[::{sp}]", f"$[?@[{sp}]]", f"$..[{sp}]"])
    # two operator tokens with blank space BETWEEN them ('! !', '& &', '= =', '! =', '&& ||', '! <' ...): a check that
    # looks at the adjacent character (or an adjacent token) does not see the second one; in prefix, infix and
    # argument positions
    ops2 = ["!", "&&", "||", "==", "!=", "<", "<=", ">", ">=", "&", "|", "=", ",", ":", "?", "."]
    for a in ops2:
        for b in ops2:
            for bl in (" ", "\t", "\n", "\r\n", "  "):
                x = a + bl + b
                qs.update([f"$[?{x}@.a]", f"$[?@.a {x} @.b]", f"$[?@.a && {x}@.b]", f"$[?{x}(@.a)]", f"$[?@.a=={x}@.b]",
                           f"$[?count(@.*) == 1 || {x}match(@.b, 'x')]", f"$[?length({x}@.a) == 1]", f"$[?{x} {x}@.a]"])
    qs = sorted(qs)
    compile_cases(res, FULL_ENV, qs, "C04", want="invalid")


# ---------------------------------------------------------------------------------------------
# C05

TYS = ["V", "L", "N"]


def random_registry(rng):
    fns = []
    used = set()
    for _ in range(rng.randint(3, 7)):
        n = rng.randint(0, 3)
        ats = [rng.choice(TYS) for _ in range(n)]
        ret = rng.choice(TYS)
        name = "f" + "".join(a.lower() for a in ats) + "_" + ret.lower()
        if name in used:
            continue
        used.add(name)
        fns.append((name, ats, ret, "const"))
    # names whose signature is drawn afresh for every registry: anything the parser or the type checker remembers
    # about a function NAME (rather than looking it up in the compiling environment) shows up as a verdict that
    # belongs to an earlier registry
    for name in ("g", "h", "pick", "k2", "truex", "nullify", "false_1", "true", "null0", "nul", "tru"):
        n = rng.randint(0, 2)
        fns.append((name, [rng.choice(TYS) for _ in range(n)], rng.choice(TYS), "const"))
    # always some canonical ones so that every position can be filled
    for name, ats, ret in (("vv", ["V"], "V"), ("ll", ["L"], "L"), ("nn", ["N"], "N"), ("vl", ["V"], "L"), ("nv", ["N"], "V"), ("ln", ["L"], "N")):
        if name not in used:
            fns.append((name, ats, ret, "const"))
    return fns


class LooseGen(gen.QueryGen):
    """Like QueryGen but places calls and argument forms without regard to the
    declared types with probability `loose`, and uses integers around the bounds."""

    def __init__(self, rng, fns, lo, hi, loose=0.35):
        super().__init__(rng, fns=fns, blanks=0.05, max_filter_depth=2)
        self.lo, self.hi, self.loose = lo, hi, loose

    def int_(self, lo=-3, hi=4):
        r = self.rng
        if r.random() < 0.25:
            return str(r.choice([self.lo - 1, self.lo, self.lo + 1, self.hi - 1, self.hi, self.hi + 1]))
        return str(r.randint(-3, 4))

    def any_call(self, depth, nest=0):
        r = self.rng
        name, ats, _ret = r.choice(self.fns)
        k = len(ats)
        if r.random() < 0.15:
            k = max(0, k + r.choice([-1, 1]))
        args = []
        for i in range(k):
            t = ats[i] if i < len(ats) and r.random() > self.loose else r.choice(TYS + ["X"])
            args.append(self.any_arg(depth, nest) if t == "X" else self.arg(t, depth, nest))
        if r.random() < 0.03:
            name = "unknown"
        return name + "(" + ", ".join(args) + ")"

    def any_arg(self, depth, nest):
        r = self.rng
        k = r.random()
        if k < 0.2:
            return self.literal()
        if k < 0.4:
            return self.query(r.choice("@$"), depth=depth)
        if k < 0.55:
            return "(" + self.query("@", nseg=1, depth=depth, singular=True) + ")"
        if k < 0.7:
            return "!" + self.query("@", nseg=1, depth=depth, singular=True)
        if k < 0.85 and nest < 1:
            return self.any_call(depth, nest + 1)
        return self.logical_or(depth, 1)

    def call(self, ret, depth, nest=0):
        if self.rng.random() < self.loose:
            return self.any_call(depth, nest)
        return super().call(ret, depth, nest)

    def almost_singular(self):
        """queries that look singular but are not: a multi-selector segment of names/indices, a slice, a wildcard,
        a descendant step, a filter — placed where only a singular query is allowed"""
        r = self.rng
        root = r.choice("@@$")
        pre = "".join(self.singular_segment() for _ in range(r.choice([0, 0, 1])))
        bad = r.choice(["['a','b']", "[0,1]", "['a',0]", "[0,0]", "['a','a']", "[0:1]", "[:]", "[*]", ".*", "..a", "..[0]",
                        "[?@.a]", "['a',*]", "[1:2,0]"])
        post = "".join(self.singular_segment() for _ in range(r.choice([0, 0, 1])))
        return root + pre + bad + post

    def comparable(self, depth):
        if self.rng.random() < 0.2:
            return self.almost_singular()
        return super().comparable(depth)

    def arg(self, t, depth, nest):
        if t == "V" and self.rng.random() < 0.15:
            return self.almost_singular()
        return super().arg(t, depth, nest)

    def basic(self, depth, budget):
        r = self.rng
        if r.random() < 0.12:
            # a call in an arbitrary position: test, negated, in parentheses, as a comparison operand
            c = self.any_call(depth)
            k = r.random()
            if k < 0.3:
                return c
            if k < 0.5:
                return "!" + c
            if k < 0.65:
                return "(" + c + ")"
            return c + r.choice(["==", "<", "!="]) + self.comparable(depth)
        return super().basic(depth, budget)


def explore_c05(rng, tier, res, deep=False):
    res.rule = (
        "grammatical queries x random function registries (signatures over {Value, Logical, Nodes}^n -> type, "
        "n = 0..3, registered as real FilterFunction subclasses) x integers at bound-1 / bound / bound+1 for random "
        "configured bounds; calls placed in every syntactic position (test, comparison operand, nested argument, "
        "under '!', inside '&&'/'||', inside parentheses), arguments type-directed or deliberately of another "
        "type; compile() must accept iff the independent validity judgement (Spec.Valid on the derivation, "
        "parentheses kept) says valid. Non-trivial = distinct (registry, query) judged valid."
    )
    import spec_examples

    spec_examples.typing_examples(res)  # the ORACLE against RFC 9535's own well-typedness table
    rounds = 80 if tier == "thorough" else (16 if deep else 8)
    per = 600 if tier == "thorough" else 230
    for _ in range(rounds):
        fns = random_registry(rng)
        hi = rng.choice([2**53 - 1, 10, 3, 100, 2**53 - 1, 2**63 - 1, 10**18, 2**64, 10**30])
        lo = -hi if rng.random() < 0.7 else -rng.choice([1, 5, 2**53 - 1, 2**63, 10**18])
        desc = dict(real.DEFAULT_ENVDESC)
        desc.update(fns=fns, minIdx=lo, maxIdx=hi)
        g = LooseGen(rng, [(a, b, c) for a, b, c, _ in fns], lo, hi)
        qs = []
        for _ in range(per):
            qs.append("$[?" + g.logical_or(1) + "]" if rng.random() < 0.7 else g.query())
        compile_cases(res, desc, qs, "C05")
    # a string LITERAL is a ValueType argument whatever its text: match()/search() with literal patterns that are not valid
    # I-Regexps, that regular-expression engines reject, or that are very long are WELL-TYPED (they select nothing when
    # evaluated) — validity of the pattern is not a typing rule
    hostile = ["a(", "(", ")", "[", "]", "a]", "*", "+", "?", "a**", "\\\\d+", "\\\\", "(?:x)", "(?i)a", "a{2,1}", "[z-a]", "\\\\p{Xx}", "[^]", "x{99999999999}", "a|", "", "a" * 1200, "(" * 40 + "a" + ")" * 40, "^a$"]
    lits = []
    for pt in hostile:
        for qq in ("'", '"'):
            lit = qq + pt + qq
            lits += [f"$[?match(@.a, {lit})]", f"$[?search(@.a, {lit})]", f"$[?!match(@.a, {lit})]", f"$[?match(@.a, {lit}) || @.a == 1]", f"$[?count(@[?search(@, {lit})]) == 0]",
                     f"$[?match({lit}, @.a)]", f"$[?search({lit}, {lit})]"]
    compile_cases(res, FULL_ENV, lits, "C05")
    # arguments that are logical expressions in shape — negations, double negations, parentheses around a query or a
    # call — in ValueType / NodesType / LogicalType parameter positions of the built-ins and of probe functions:
    # `!(!q)` and `(q)` are LogicalType whatever they could be rewritten to
    descp = dict(real.DEFAULT_ENVDESC)
    descp["fns"] = gen.PROBE_FNS
    shapes = ["!(!@.a)", "!(!@.*)", "(@.a)", "((@.a))", "!@.a", "!(!(!@.a))", "!(!nf(@.*))", "(nf(@.*))", "!(!$[0].a)", "(length(@.a))", "!(!length(@.a))", "!(!vf(@.a))",
              "(@.a == 1)", "!(!(@.a == 1))", "(1)", "!(!1)", "(!(!@.a))", "@.a && @.a", "(@.a) || (@.a)"]
    qs = []
    for sh in shapes:
        qs += [f"$[?count({sh}) > 1]", f"$[?length({sh}) == 1]", f"$[?match({sh}, 'x')]", f"$[?search(@.a, {sh})]", f"$[?value({sh}) == 1]", f"$[?vf({sh}) == 1]", f"$[?nf({sh})]",
               f"$[?lf({sh})]", f"$[?lnv({sh}, {sh}) == 7]", f"$[?vvl({sh}, 1)]", f"$[?count(nf({sh})) == 1]", f"$[?lnv(@.a, {sh}) == 7]", f"$[?{sh}]", f"$[?{sh} == 1]", f"$[?lf(length({sh}) == 1)]"]
    compile_cases(res, descp, qs, "C05")
    # configured bounds that are zero, one-sided, tiny, or exclude zero (a bound of 0 is a bound, not "unset"), with
    # every integer position of a query at bound-1 / bound / bound+1 and at 0, +-1
    big = 2**53 - 1
    for lo, hi in [(0, big), (-big, 0), (0, 0), (-1, 1), (0, 5), (-5, 0), (1, 3), (-3, -1), (0, 1), (-1, 0), (2, big), (-big, -2)]:
        desc = dict(real.DEFAULT_ENVDESC)
        desc.update(minIdx=lo, maxIdx=hi)
        ints = sorted({lo - 1, lo, lo + 1, hi - 1, hi, hi + 1, 0, 1, -1, 2, -2})
        qs = []
        for i in ints:
            for pl in ("$[{}]", "$[{}:]", "$[:{}]", "$[::{}]", "$..[{}]", "$[0, {}]" if lo <= 0 <= hi else "$[{}, {}]", "$[?@[{}] == 1]", "$[?count(@[0:{}]) > 1]" if lo <= 0 <= hi else "$[?count(@[:{}]) > 1]",
                       "$.a[{}].b", "$[?@[{}:]]", "$[?$[{}]]", "$[ {} : {} : {} ]"):
                qs.append(pl.replace("{}", str(i)))
        compile_cases(res, desc, qs, "C05")


# ---------------------------------------------------------------------------------------------
# C13


OPERANDS = ["@.a", "@", "$.b", "$", "1", "-1", "1.5", "'x'", '"y"', "true", "false", "null", "length(@)", "count(@.*)", "@[0]", "@.*", "(@.a)", "!@.a"]
OPERATORS = ["==", "!=", "<", "<=", ">", ">=", "&&", "||", "!", ",", ""]


def operand_soup(rng):
    """almost-valid filters: operands and operators with some missing, doubled or misplaced, in parentheses,
    function arguments or at the top of a filter"""
    n = rng.randint(2, 5)
    items = []
    for i in range(n):
        items.append(rng.choice(OPERANDS))
        if i < n - 1:
            items.append(rng.choice(OPERATORS) if rng.random() < 0.6 else "")
    body = " ".join(x for x in items if x != "" or rng.random() < 0.5)
    k = rng.random()
    if k < 0.35:
        body = "(" + body + ")"
    elif k < 0.5:
        body = "((" + body + "))"
    elif k < 0.65:
        body = rng.choice(["length", "count", "value", "match", "foo"]) + "(" + body + ")" + rng.choice(["", "==1", " == 1"])
    elif k < 0.75:
        body = "!(" + body + ")"
    elif k < 0.85:
        body = "@.a && (" + body + ")"
    return "$[?" + body + "]"


def garbage(rng, max_len=1024, max_nest=32):
    parts = []
    if rng.random() < 0.2:
        return operand_soup(rng)
    k = rng.random()
    if k < 0.3:
        # deep but balanced nesting around valid fragments
        d = rng.randint(1, max_nest)
        kind = rng.choice(["paren", "filter", "bracket", "call"])
        if kind == "paren":
            return "$[?" + "(" * d + "@.a" + ")" * d + "]"
        if kind == "filter":
            return "$" + "[?@" * d + ".a" + "]" * d
        if kind == "bracket":
            return "$" + "".join(rng.choice(["[0]", "['a']", ".a", "..b", "[*]"]) for _ in range(d * 4))
        return "$[?" + "length(" * d + "@" + ")" * d + "==1]"
    if k < 0.6:
        g = gen.QueryGen(rng, names=gen.NAMES, blanks=0.2, max_filter_depth=3)
        q = g.query()
        for _ in range(rng.randint(0, 6)):
            q = gen.mutate(rng, q)
        return q[:max_len]
    n = rng.randint(1, rng.choice([8, 40, 200, max_len]))
    if k < 0.8:
        return "".join(rng.choice(gen.TOKENS) for _ in range(n))[:max_len]
    return "".join(chr(rng.choice([rng.randint(0, 0x7F), rng.randint(0x80, 0xD7FF), rng.randint(0xE000, 0x10FFFF)])) if rng.random() < 0.3
                   else rng.choice(gen.ALPHABET) for _ in range(n))


def explore_c13(rng, tier, res, deep=False):
    import jsonpath_rfc9535 as jp

    res.rule = (
        "query strings up to 1024 characters over all Unicode scalar values with bracket/parenthesis/filter "
        "nesting up to 32 (valid, almost valid, garbage): compile() must return or raise a JSONPathError whose "
        "str() can be produced; the model must predict the exact outcome class and offset; every query that "
        "compiles is applied to JSON values of every kind (as root and as child under test): find() must "
        "complete or raise a JSONPathError. Non-trivial = distinct string that does not compile."
    )
    import termination

    termination.stage(rng, tier, res)  # first: a scanner that does not terminate would hang everything below
    if any("did not return" in v.get("what", "") for v in res.violations):
        return
    differently_configured_alongside(res)
    n = sizes(tier, deep, 2500, 50000)
    qs = {garbage(rng) for _ in range(n)}
    # the longest strings of the quantifier (1024 characters) built from the shortest operands: flat chains of one
    # operator (each operand costs the parser a fixed number of interpreter frames), alone and ending in the deepest
    # allowed nesting; long segment chains; the interpreter's own recursion limit must not be reached
    for op in ("||", "&&"):
        for operand in ("@", "$", "1<2", "!@"):
            k = (1024 - 4) // (len(operand) + len(op))
            qs.add("$[?" + op.join([operand] * k) + "]")
            qs.add("$[?" + op.join([operand] * (k - 1)) + "]")
        nest = "@[?" * 31 + "@" + "]" * 31
        k = (1024 - 4 - len(nest)) // 3
        qs.add("$[?" + op.join(["@"] * k + [nest]) + "]")
        qs.add("$[?" + ("@" + op) * 150 + "(" * 30 + "@" + ")" * 30 + "]")
    qs.add("$[?" + "||".join("@&&@" for _ in range(170)) + "]")
    qs.add("$[?" + "!" .join([""] * 2) + "(" * 31 + "@" + ")" * 31 + "]")
    qs.add("$" + ".a" * 511)
    qs.add("$" + "[0]" * 341)
    qs.add("$" + "..a" * 341)
    qs.add("$[?" + ",?".join(["@"] * 340) + "]")
    qs.add("$[?length(" + "value(" * 100 + "@" + ")" * 100 + ")==1]")
    # characters that mean something to str.format / % formatting, echoed in error messages
    qs.update(["$.a{", "$.store.}", "$[{]", "$..{", "$[?@.a == 1 }]", '{"a": 1}', "$.a%", "$[%s]", "$.{0}", "$[?@.{a}]", "$.a{}", "$['a'}", "${", "$}", "$[?{}]", "$.%(a)s"])
    # every spelling of a number (valid or not for the place) in every place a number can stand: index, the three slice
    # components, comparison operand, function argument, nested in filters and under descendant segments, with blanks
    numforms = ["1e2", "1E+2", "1e+1", "2e0", "1e-2", "-1e1", "1.0", "1.5", "-0", "-0.0", "01", "-01", "1e", "1e+", "1.", ".5", "--1", "+1", "1_0",
                "0x10", "\u0661", "1\u0662", "1e2e3", "1e\u0663", "1.e2", "1e2.5", "9" * 30, "-" + "9" * 30, "1e" + "9" * 6, "1e400", "0e0", "-",
                "1e 2", "1 e2", "0b1", "1j", "1L", "١٢", "1E2", "1e02", "1e-0",
                "1.5e400", "-1.0e999", "1.7976931348623159e308", "1.7976931348623157e308", "1e-400", "0.1e400", "-0.0e999", "5e-324", "2.5e-324", "9" * 310 + ".5", "9" * 310 + "e-1",
                "1.0e+400", "123456789012345678901234567890.0", "0.1e-9999999"]
    numplaces = ["$[{}]", "$[{}:]", "$[:{}]", "$[::{}]", "$[{}:2]", "$[0:{}]", "$[1:{}:2]", "$[ {} : 2 ]", "$[\n:\n{}\n]", "$..[{}:]", "$..[{}]", "$[0, {}:]", "$[{}, 0]",
                 "$[?@[{}:]]", "$[?@[{}]]", "$[?@[:{}] ]", "$[?count(@[:{}]) > 1]", "$[?@.a == {}]", "$[?{} < @.a]", "$[?@[{}] == 1]", "$[?length(@) > {}]",
                 "$[?length({}) == 1]", "$[?@[?@[::{}]]]", "$.a[{}:{}]", "$[{}:{}:{}]", "$[?@.a == -{}]", "$[?{}]"]
    for nf_ in numforms:
        for pl in numplaces:
            qs.add(pl.replace("{}", nf_))
    # calls of every built-in with too few, the right number and TOO MANY arguments, every position (the surplus ones
    # included) taking every argument shape — literal, singular / non-singular query, parenthesised or negated logical
    # expression, nested call, keyword: whatever order the arity / parenthesis / type checks run in, the outcome is a
    # query or a JSONPathError
    shapes = ["@.a", "1", "'x'", "(@.a)", "(@.a && @.b)", "!@.a", "(@.b == 1)", "((@.a))", "@.*", "count(@.*)", "$", "true", "(1)", "!(@.a)", "nope(@.a)", "length((@.a))"]
    for fname, arity in (("length", 1), ("count", 1), ("value", 1), ("match", 2), ("search", 2)):
        for k in range(0, arity + 3):
            for i in range(max(k, 1)):
                for sh in shapes:
                    args = ["@.a"] * k
                    if k:
                        args[i] = sh
                    for j in ({i, k - 1} if k else {0}):
                        a2 = list(args)
                        if k and j != i:
                            a2[j] = "(@.b)"
                        call = f"{fname}({', '.join(a2)})"
                        qs.update([f"$[?{call}]", f"$[?{call} == 1]", f"$[?@.x && !{call}]", f"$[?count(@[?{call}]) > 0]"])
    qs = sorted(q for q in qs if len(q) <= 1024)
    env = real.make_env(FULL_ENV)
    reals, out = compile_cases(res, FULL_ENV, qs, "C13")
    roots = [None, True, 0, 1.5, "", "abc", [], {}, [0, False, "", None, [], {}, [1, [2]], {"a": {"a": 1}}],
             {"a": 0, "b": [1, "x", None], "c": {"a": [], "b": {}}}]
    evals = 0
    for q, rl in zip(qs, reals):
        if rl.startswith("err "):
            res.nontrivial.add(q)
            # str(error) must be producible
            try:
                env.compile(q)
            except Exception as exc:  # noqa: BLE001
                try:
                    s = str(exc)
                    if isinstance(exc, jp.JSONPathError) and getattr(exc, "token", None) is not None and ", line " not in s:
                        res.violations.append({"property": "C13", "query": q, "observed": s, "expected": "message with position",
                                               "what": "str(error) lacks its position"})
                except Exception as exc2:  # noqa: BLE001
                    res.violations.append({"property": "C13", "query": q, "observed": repr(exc2), "expected": "a string",
                                           "what": "str(error) raised"})
            continue
        c = env.compile(q)
        for v in roots:
            evals += 1
            try:
                c.find(v)
            except jp.JSONPathError:
                res.count("eval-jsonpath-error")
            except RecursionError:
                res.count("interpreter-recursion")
                res.violations.append({"property": "C13", "query": q, "document": v, "observed": "RecursionError",
                                       "expected": "result or JSONPathError", "what": "evaluation raised a non-JSONPath exception"})
            except Exception as exc:  # noqa: BLE001
                res.violations.append({"property": "C13", "query": q, "document": v, "observed": "PY:" + type(exc).__name__ + ": " + str(exc)[:100],
                                       "expected": "result or JSONPathError", "what": "evaluation raised a non-JSONPath exception"})
    # built-in function calls with arguments of every kind in every position (literals of each type, singular queries
    # that select a string / number / boolean / null / array / object / nothing, nested calls), on children of every kind
    kinds = ["ab", "a.*", "[", 1, 1.5, True, None, [], ["a"], {}, {"a": "ab"}, {"x": 1}, {"y": 1}, [{"x": 1}], [{"y": 2}], {"x": {"p": 1}}, {"x": {"q": 1}},
             2**53 + 1, 1e308, -0.0, "", [[]], [None]]
    kdocs = [[{"a": x, "b": y} for x in kinds] + [{"a": y}, {"b": y}, y] for y in kinds]
    kdocs.append({"p": "a", "k": [{"a": "ab"}, {"a": 1}, {}]})
    kdocs.append({"p": [], "k": {"x": {"a": "ab", "b": {}}}})
    vargs = ["'ab'", "'a.*'", "'['", "1", "true", "null", "@", "@.a", "@.b", "@[0]", "$", "$.p", "$[0].a", "value(@.*)", "length(@.a)", "value($..p)"]
    fq = []
    for f in ("match", "search"):
        for a1 in vargs:
            for a2 in vargs:
                fq.append(f"$[?{f}({a1}, {a2})]")
        fq += [f"$..[?{f}(@.a, $.p)]", f"$.k[?!{f}(@.a, $.p)]", f"$[?{f}(@.a, @.b) || {f}(@.b, @.a)]"]
    for a1 in vargs:
        fq += [f"$[?length({a1}) == 1]", f"$[?length({a1}) == length(@.b)]"]
    for op in ("==", "!=", "<", "<=", ">", ">="):
        fq += [f"$[?@.a {op} @.b]", f"$[?@ {op} $[0]]", f"$[?value(@.a) {op} @.b]", f"$[?@.a {op} length(@.b)]", f"$..[?@.a {op} $[1].b]"]
    for a1 in ["@", "@.a", "@.*", "@..a", "$", "$.p", "$..*", "@[?@.a]"]:
        fq += [f"$[?count({a1}) == 1]", f"$[?value({a1}) == 'ab']", f"$[?match(value({a1}), value({a1}))]"]
    for q in fq:
        try:
            c = env.compile(q)
        except jp.JSONPathError:
            continue
        for v in kdocs:
            evals += 1
            try:
                c.find(v)
            except jp.JSONPathError:
                res.count("eval-jsonpath-error")
            except Exception as exc:  # noqa: BLE001
                res.violations.append({"property": "C13", "query": q, "document": v, "observed": "PY:" + type(exc).__name__ + ": " + str(exc)[:100],
                                       "expected": "result or JSONPathError", "what": "evaluation raised a non-JSONPath exception"})
                break
    # JSONPathErrors raised DURING evaluation by a registered function (with and without a token, every class of the
    # hierarchy), under filters on arrays and on objects, nested and in arguments: the error that reaches the caller is a
    # JSONPathError whose string form can be produced
    from jsonpath_rfc9535.function_extensions import ExpressionType as _ET, FilterFunction as _FF
    from jsonpath_rfc9535 import exceptions as _ex

    for cls_name in ("JSONPathTypeError", "JSONPathError", "JSONPathSyntaxError", "JSONPathIndexError", "JSONPathNameError", "JSONPathRecursionError"):
        ecls = getattr(_ex, cls_name, None) or getattr(jp, cls_name)
        for with_token in (False, True):
            class Boom(_FF):
                arg_types = [_ET.VALUE]
                return_type = _ET.LOGICAL

                def __call__(self, v, _ecls=ecls, _wt=with_token):
                    tok = None
                    if _wt:
                        from jsonpath_rfc9535.tokens import Token, TokenType
                        tok = Token(TokenType.FUNCTION, "boom", 3, "$[?boom(@)]")
                    raise _ecls("boom says no", token=tok)

            benv = jp.JSONPathEnvironment()
            benv.function_extensions["boom"] = Boom()
            for q in ("$[?boom(@)]", "$[?boom(@.a) || @.b]", "$..[?boom(@)]", "$[?@[?boom(@)]]", "$[?!boom(1)]", "$[?count(@[?boom(@)]) > 0]"):
                for v in ([1, 2], {"k": 1, "l": [1]}, [[1]], {"k": {"a": 1}}):
                    evals += 1
                    try:
                        benv.find(q, v)
                    except jp.JSONPathError as exc:
                        try:
                            str(exc)
                            res.count("eval-error-from-function")
                        except Exception as exc2:  # noqa: BLE001
                            res.violations.append({"property": "C13", "query": q, "document": v, "observed": repr(exc2)[:200], "expected": "a string",
                                                   "what": f"str() of a {cls_name} raised during evaluation by a function ({'with' if with_token else 'without'} a token) raised"})
                    except Exception as exc:  # noqa: BLE001
                        res.violations.append({"property": "C13", "query": q, "document": v, "observed": "PY:" + type(exc).__name__ + ": " + str(exc)[:100],
                                               "expected": "result or JSONPathError", "what": "a JSONPathError raised by a function during evaluation reached the caller as another exception"})
    res.count("function-argument-matrix", len(fq))
    res.evaluations += evals
    res.count("evaluations-of-compiled", evals)
    # model vs real on evaluation outcomes for a sample (the model predicts PY:* classes too)
    cases = [(q, rng.choice(roots)) for q, rl in zip(qs, reals) if rl.startswith("ok")]
    cases = cases[: (3000 if tier == "thorough" else 400)]
    sweep(res, FULL_ENV_NOREGEX(), [c for c in cases if "match(" not in c[0] and "search(" not in c[0]], "C13", check_ast_iter=False)


def FULL_ENV_NOREGEX():
    d = dict(real.DEFAULT_ENVDESC)
    return d


# ---------------------------------------------------------------------------------------------
# C19


def line_col(s, off):
    line, col = 1, 0
    for ch in s[:off]:
        if ch == "\n":
            line += 1
            col = 0
        else:
            col += 1
    return line, col


def explore_c19(rng, tier, res, deep=False):
    import jsonpath_rfc9535 as jp

    res.rule = (
        "rejected query strings with LF/CR/TAB/space injected at every position where blank space is legal, before "
        "and after the point of the error, the error on any line; for each: error.token.index within [0, len], "
        "and the line/column printed by str(error) equal to the line/column of that offset (independent scan); "
        "the model must predict offset and position. Non-trivial = distinct rejected multi-line string."
    )
    fns3 = [(a, b, c) for a, b, c, _ in FULL_FNS]
    g = gen.QueryGen(rng, names=gen.SIMPLE_NAMES, fns=fns3, blanks=0.0)
    n = sizes(tier, deep, 1500, 30000)
    env = real.make_env(FULL_ENV)
    qs = set()
    for _ in range(n):
        q = g.query()
        # inject blanks (mostly newlines) at legal positions: around brackets, commas, operators
        out = []
        for ch in q:
            if ch in "[],?()" and rng.random() < 0.5:
                out.append(rng.choice(["\n", "\n", "\r\n", " ", "\t", "\n\n"]))
            out.append(ch)
            if ch in "[,(" and rng.random() < 0.4:
                out.append(rng.choice(["\n", "\r", " \n"]))
        q2 = "".join(out)
        # then break it
        k = rng.random()
        if k < 0.5:
            q2 = gen.mutate(rng, q2)
        elif k < 0.8:
            i = rng.randrange(len(q2) + 1)
            q2 = q2[:i] + rng.choice(["01", "==", "&&", "'", "\\", "]", ")", "$$", "nope(@)", "1 2", ",,", "\x00"]) + q2[i:]
        else:
            q2 = q2 + rng.choice(["\n]", "\n x", "\n\n.", " \n"])
        qs.add(q2)
    # every prefix of some valid queries (the error is then at or next to the end of the text: opening quotes, brackets,
    # operators, escapes and names cut in the middle)
    for _ in range(12 if tier != "thorough" else 150):
        q = g.query()
        if rng.random() < 0.5:
            q = q.replace("[", "[\n", 1)
        for j in range(1, len(q)):
            qs.add(q[:j])
    qs.update(["$['", '$["', "$[?@.a == '", '$[?@.a == "', "$[\n'", "$['a", "$['a\\", "$['\\u12", "$[?match(@.a, '", "$.a['b']['"])
    # raw control characters inside string literals, not at the start of the literal (the error position is then one
    # the decoder computes while walking its own copy of the literal's text), names and filter literals, either quote
    fixed = []
    for body in ("ab\x00", "a\tb", "abc\n", "\x1fz", "x y\r", "a\\n\x01", "\u00e9\x02", "a'\x03".replace("'", ""), "ab\x00cd"):
        for style in "'\"":
            lit = style + body + style
            fixed += [f"$[{lit}]", f"$.a[{lit}]", f"$[?@.a == {lit}]", f"$\n[\n{lit}\n]", f"$[?match(@.a, {lit})]", f"$['k', {lit}]"]
    # almost-valid filters: operands and operators missing, doubled or misplaced inside parentheses and arguments, on one
    # line and on several (whatever rejects them has to say where)
    for _ in range(150 if tier != "thorough" else 3000):
        q = operand_soup(rng)
        if rng.random() < 0.5:
            q = q.replace(" ", rng.choice(["\n", " \n ", "\r\n", " "]), rng.randint(1, 3))
        qs.add(q)
    fixed += ["$[?(@.a, @.b)]", "$[?(@.a ! @.b)]", "$[?(1 2 3)]", "$[?(@.a == 1 2 3)]", "$[?count((@.a, @.b)) == 1]", "$[?(@.a,\n@.b)]", "$[?(\r\n@.a ! @.b\r\n)]",
              "$[?(@.a @.b)]", "$[?(@.a == 1, 2)]", "$[?((@.a) (@.b))]", "$[?(@.a : @.b)]", "$[?(@.a * @.b)]", "$[?(@.a ? @.b)]", "$[?(@.a $ @.b)]", "$[?(@ @ @)]",
              "$[?length((1, 2)) == 1]", "$[?(1 , 2 , 3)]", "$[?(true false null)]", "$[?('a' 'b' 'c')]", "$[?(@.a ] @.b)]", "$[?(@.a 'x' @.b)]"]
    for body in ("a\nb", "\n", "a\r\nb", "x\n\ny", "a\rb"):
        for style in "'\"":
            lit = style + body + style
            fixed += [f"$[{lit}] x", f"$[{lit}][?@.a = 1]", f"$[{lit}]['\\q']", f"$[{lit}", f"$[{lit}]\n[?@.a ~ 1]", f"$[?@.a == {lit} x]", f"$[?@.a == {lit}]]", f"$[{lit}, {lit}] y",
                      f"$.a[{lit}]\n.b c", f"$[?match(@.a, {lit}) &]"]
    qs = fixed + sorted(qs - set(fixed))
    # the same literal / name / number texts compiled before at OTHER offsets (valid queries, long prefixes, other
    # lines), then rejected queries in which those texts sit where they are not allowed: a position reported for an
    # error must be a position in the query being compiled, whatever the environment has compiled before
    lits = ["'x'", '"ok"', "'a.*'", "'b'", "1", "1.5", "true", "null", "'\u00e9'", "'a b'"]
    for lit in lits:
        for valid in (f"$.some.long.path.to.items[?@.category.name == {lit}]", f"$[?@.a == {lit}]", f"$\n\n[?match(@.a, {lit})\n|| @.b == {lit}]"):
            try:
                env.compile(valid)
            except jp.JSONPathError:
                pass
    for lit in lits:
        qs += [f"$[?{lit}]", f"$[?!{lit}]", f"$[?@.a\n  &&\n  {lit}]", f"$[\r\n?\n!{lit}\n]", f"$[?{lit} || @.a]", f"$[?({lit})]",
               f"$[?@.a == {lit} {lit}]", f"$[{lit}, ?{lit}]", f"$[?count({lit})]", f"$.a[?{lit}][?{lit} == {lit}"]
    lines = []
    recs = []
    for q in qs:
        res.evaluations += 1
        try:
            env.compile(q)
            res.count("accepted")
            continue
        except jp.JSONPathError as exc:
            tok = getattr(exc, "token", None)
            msg = str(exc)
            if tok is None:
                res.violations.append({"property": "C19", "query": q, "observed": "no token on " + type(exc).__name__,
                                       "expected": "an offset", "what": "error without position"})
                continue
            off = tok.index
            if not (0 <= off <= len(q)):
                res.violations.append({"property": "C19", "query": q, "observed": off, "expected": f"0..{len(q)}",
                                       "what": "error offset outside the query text"})
                continue
            m = re.search(r", line (-?\d+), column (-?\d+)$", msg)
            if not m:
                res.violations.append({"property": "C19", "query": q, "observed": msg[-60:], "expected": "'..., line L, column C'",
                                       "what": "message has no position suffix"})
                continue
            got = (int(m.group(1)), int(m.group(2)))
            want = line_col(q, off)
            if "\n" in q:
                res.nontrivial.add(q)
                res.sample({"query": q, "offset": off, "position": got})
            res.count("error-line-%d" % min(want[0], 4))
            if got != want:
                res.violations.append({"property": "C19", "query": q, "observed": {"offset": off, "printed": got},
                                       "expected": {"line_col": want}, "what": "printed line/column is not the position of the offset"})
            lines.append(f"position\t{wire.enc_str(q)}\t{off}")
            recs.append((q, off, got))
        except Exception as exc:  # noqa: BLE001
            res.violations.append({"property": "C19", "query": q, "observed": "PY:" + type(exc).__name__ + ": " + str(exc)[:80], "expected": "a JSONPathError with an offset inside the query",
                                   "what": "compile() rejected the query with an exception that identifies no position in the query text"})
    # query strings as Python holds them may contain surrogate code points (not Unicode scalar values, so outside the
    # model's `Char`): judged on the real side alone — the printed line/column must still be those of the offset in the
    # string that was passed
    for sur in ("\ud83d\ude00", "\ud800", "\udc00\ud800", "\ud83d\ude00\ud83d\ude00"):
        for tail in (",\n 01]", "\n.", "'\n, 'b' x]", "\n\n[?count(1) == 1]", " \n ]]"):
            for head in ("$['", "$.", "$[?@.a == '", "$\n['"):
                res.evaluations += 1
                bad = judge_c19(env, jp, head + sur + ("'" if head.endswith("'") and not tail.startswith("'") else "") + tail)
                if bad:
                    res.violations.append(bad)
    out = model.run_batch_parallel(lines)
    for (q, off, got), o in zip(recs, out):
        if o != f"{got[0]} {got[1]}":
            res.mismatches.append({"op": "position", "query": q, "offset": off, "model": o, "real": got})
    # offsets predicted by the model (class + offset) on the same strings
    before = len(res.mismatches)
    compile_cases(res, FULL_ENV, qs[: (len(qs) if tier == "thorough" else 800)], "C19")
    # where the real code reports another offset than the model, the property may still hold (any offset inside the text
    # whose line/column is printed right satisfies it): search around those strings for one on which it does not —
    # drop what follows the reported position, and repeat the characters before it (an offset computed in a rewritten
    # copy of the text drifts with every character the rewrite inserts)
    seeds = [m["query"] for m in res.mismatches[before:] if m.get("op") == "compile"][:40]
    tried = 0
    for q in seeds:
        try:
            env.compile(q)
            continue
        except jp.JSONPathError as exc:
            off = getattr(getattr(exc, "token", None), "index", None)
        except Exception:  # noqa: BLE001
            continue
        if off is None:
            continue
        cut = max(0, min(off, len(q)))
        variants = set()
        for j in range(cut, min(len(q), cut + 12) + 1):
            variants.add(q[:j])
            for tail in ("']", '"]', "]", "')]", ""):
                variants.add(q[:j] + tail)
        for i in range(max(0, cut - 12), min(len(q), cut + 1)):
            for rep in (2, 4, 8):
                v = q[:i] + q[i] * rep + q[i + 1 :]
                variants.add(v)
                variants.add(v[: cut + rep + 2] + "']")
                variants.add(v[: cut + rep + 2] + '"]')
        # the string literal around the reported position, in either quote style, with the other quote character (which
        # the decoder may escape in a rewritten copy) repeated in front of what it contains
        opens = [i for i in range(min(cut, len(q) - 1), -1, -1) if q[i] in "'\""]
        if opens:
            i = opens[0]
            j = q.find(q[i], max(cut, i + 1))
            if j < 0:
                j = len(q)
            body = q[i + 1 : j]
            for style in "'\"":
                other = '"' if style == "'" else "'"
                for k in (0, 1, 2, 3, 4, 8):
                    lit = style + other * k + body + style
                    variants.add(q[:i] + lit + "]")
                    variants.add(q[:i] + lit + q[j + 1 :])
                    variants.add("$[" + lit + "]")
        for v in sorted(variants):
            tried += 1
            bad = judge_c19(env, jp, v)
            if bad:
                res.violations.append(dict(bad, found_by="search around a string on which model and code report different offsets: " + repr(q)[:120]))
                break
    if seeds:
        res.count("offset-mismatch-guided-variants", tried)


def judge_c19(env, jp, q):
    try:
        env.compile(q)
        return None
    except jp.JSONPathError as exc:
        tok = getattr(exc, "token", None)
        msg = str(exc)
        if tok is None:
            return {"property": "C19", "query": q, "observed": "no token on " + type(exc).__name__, "expected": "an offset", "what": "error without position"}
        off = tok.index
        if not (0 <= off <= len(q)):
            return {"property": "C19", "query": q, "observed": off, "expected": f"0..{len(q)}", "what": "error offset outside the query text"}
        m = re.search(r", line (-?\d+), column (-?\d+)$", msg)
        if not m:
            return {"property": "C19", "query": q, "observed": msg[-60:], "expected": "'..., line L, column C'", "what": "message has no position suffix"}
        got = (int(m.group(1)), int(m.group(2)))
        want = line_col(q, off)
        if got != want:
            return {"property": "C19", "query": q, "observed": {"offset": off, "printed": got}, "expected": {"line_col": want},
                    "what": "printed line/column is not the position of the offset"}
        return None
    except Exception as exc:  # noqa: BLE001
        return {"property": "C13", "query": q, "observed": "PY:" + type(exc).__name__, "expected": "JSONPathError", "what": "non-JSONPath exception"}


# ---------------------------------------------------------------------------------------------
# C12


def norm_step(ast: str) -> str:
    """an omitted slice step and step 1 denote the same selector (the canonical text writes ':1')"""
    return re.sub(r"\(slice (\S+) (\S+) _\)", r"(slice \1 \2 1)", ast)


def explore_c12(rng, tier, res, deep=False):
    import jsonpath_rfc9535 as jp

    res.rule = (
        "valid queries (every selector kind, slices with omitted parts, names and literals over all character "
        "classes, number spellings within the exactly representable range, every nesting of ! && || comparisons "
        "parentheses calls and embedded filters): s = str(compile(q)) must be judged valid by the independent "
        "recogniser, compile(s) must build the same query (AST equality, hence the same nodes on every value), "
        "str(compile(s)) == s, and find() on sample documents must agree; the model's printer must equal the real "
        "one. Non-trivial = distinct canonical text that differs from its source text."
    )
    n = sizes(tier, deep, 2000, 50000)
    fns3 = [(a, b, c) for a, b, c, _ in gen.PROBE_FNS]
    exact = [s for s in NUMBER_SPELLINGS if s not in ("1e22", "5e-324", "1.7976931348623157e308")] + ["1e15", "1e16", "1e-5", "0.0001", "123456789012345.0", "1.5e300"]
    g1 = gen.QueryGen(rng, names=gen.NAMES + NONASCII_NAMES, fns=fns3, blanks=0.2, literals=exact, max_filter_depth=3)
    env = real.make_env(PROBE_ENV)
    eenv = real.enc_env(PROBE_ENV)
    qs = []
    for i in range(n):
        if i % 3 == 0:
            qs.append("$[?" + g1.logical_or(1, budget=4) + "]")
        else:
            qs.append(g1.query())
    for depth in range(1, 8):
        neg = "@.a"
        for _ in range(depth):
            neg = "!(" + neg + ")" if neg != "@.a" else "!@.a"
        qs += [f"$[?{neg}]", f"$[?{neg} && @.b]", f"$[?lf({neg})]", f"$[?@.b || {neg}]", f"$[?({neg})]", f"$..[?{neg}][?{neg}]", f"$[?@[?{neg}]]"]
        cmpn = "@.a == 1"
        for _ in range(depth):
            cmpn = "!(" + cmpn + ")"
        qs += [f"$[?{cmpn}]", f"$[?{cmpn} || {neg}]"]
    # string literals (not member names) that Unicode normalisation, case mapping or whitespace handling would rewrite
    for lit in ["\u212b", "e\u0301", "\u2126", "\uf900", "\u1100\u1161", "\u00c5", "\ufb01", "\u1e9e", "\u0130", "\u00df", "a\u00a0b", " a ", "\u2028", "A", "\u03a3\u03c2", "\u0041\u030a"]:
        for style in ("'", '"'):
            l2 = style + lit + style
            qs += [f"$[?@.unit == {l2}]", f"$[?{l2} != @]", f"$[?match(@.u, {l2})]", f"$[?length({l2}) == 1]", f"$[?@[{l2}] == {l2}]", f"$..[?search(@, {l2}) || @ == {l2}]"]
    # FLOAT literals whose shortest repr() has no '.', a positive exponent, many digits, or no finite value at all (the text
    # printed for a float must read back as the same FLOAT, not as an integer of the same value, and must be a number)
    fl = []
    for mant in ("1.0", "2.0", "5.0", "9.0", "1.5", "1.25", "10.0", "123.0", "0.1", "1.0000000000000002", "9.999999999999999", "4.0", "7.0"):
        for ex in (0, 1, 5, 14, 15, 16, 17, 20, 21, 22, 23, 100, 300, 308):
            fl += [f"{mant}e{ex}", f"-{mant}E+{ex}"]
        for ex in (1, 4, 5, 6, 7, 10, 100, 300, 323):
            fl.append(f"{mant}e-{ex}")
    fl += ["10000000000000000.0", "100000000000000000000000.0", "9007199254740992.0", "9007199254740993.0", "1" + "0" * 30 + ".0", "1e-7", "1e-5", "5e-324", "2e-308",
           "1e400", "-1e400", "1.5e400", "-2.0e999", "1.7976931348623157e308", "1.7976931348623159e308", "0.0", "-0.0", "0.0e5", "-0e-3"]
    for sp in fl:
        qs += [f"$[?@.a == {sp}]", f"$[?{sp} < @.a || @.b >= {sp}]", f"$[?vf({sp}) != @.a]"]
    # long FLAT chains of one operator (no parentheses in the source): the printed form may add a pair of parentheses per
    # term; it must still be a query that compiles back to the same thing
    for nterms in (40, 101, 120, 150):
        for opx in ("&&", "||"):
            qs.append("$[?" + f" {opx} ".join(f"@.k{i}" for i in range(nterms)) + "]")
        qs.append("$[?@.x == 1 && (" + " || ".join(f"@.k{i}" for i in range(nterms - 10)) + ")]")
    qs += ["$[?@.a && @.a]", "$[?@.a || @.a]", "$[?(@.a) && ((@.a))]", "$[?1 == 1 && 1 == 1]", "$[?@.a == @.a]", "$[?!(!(@.a && @.a))]", "$[?@.a && @.b && @.a]",
           "$[-1,0,1]", "$[2,3,4]", "$[0,0]", "$['a','a']", "$[1:2]", "$[-1:0]", "$[0:1:1]", "$[?@.a < 1.0]", "$[?@.a == 2.0]", "$[?@.a == 250e-1]", "$[?@.a == 1e0]"]
    qs += ["$[?!(@.a == 1)]", "$[?!(@.a && @.b)]", "$[?(@.a || @.b) && @.c]", "$[?@.a || @.b && @.c]", "$[?!(!@.a)]",
           "$[?lf(!(@.a==1))]", "$[?lf((@.a || @.b) && @.c)]", "$[?((@.a))]", "$[?(@.a && (@.b || (@.c && @.d)))]",
           "$[?!(@.a || @.b) || !(@.c && @.d)]", "$[1:]", "$[:2]", "$[::]", "$[::-1]", "$[?@.a==-0.0]", "$[?@.a==-0]",
           "$[?@.a==1e2]", "$[?@.a==1E-2]", "$['\\u0000\\u001f\\u007f']", "$[\"'\"]", "$['\"']", "$[?@=='\\\\\\'']"]
    lines = []
    recs = []
    docs = [doc_with_all_kinds(rng, 2) for _ in range(4)]
    for q in qs:
        res.evaluations += 1
        try:
            c = env.compile(q)
        except jp.JSONPathError:
            res.count("source-rejected")
            continue
        try:
            s = str(c)
            a1 = real.ast_query(c)
        except Exception as exc:  # noqa: BLE001
            res.violations.append({"property": "C12", "query": q, "observed": "PY:" + type(exc).__name__, "expected": "a string",
                                   "what": "str(query) raised"})
            continue
        try:
            c2 = env.compile(s)
        except Exception as exc:  # noqa: BLE001
            res.violations.append({"property": "C12", "query": q, "observed": f"str = {s!r} -> {real.err_name(exc)}: {exc}",
                                   "expected": "str(query) compiles", "what": "str(query) is not a valid query for compile()"})
            continue
        a2 = real.ast_query(c2)
        s2 = str(c2)
        if norm_step(a2) != norm_step(a1):
            res.violations.append({"property": "C12", "query": q, "observed": {"str": s, "ast_after": a2[:300]},
                                   "expected": {"ast_before": a1[:300]}, "what": "compile(str(query)) is a different query"})
        if s2 != s:
            res.violations.append({"property": "C12", "query": q, "observed": {"str": s, "str_again": s2},
                                   "expected": "identical text", "what": "str is not a fixed point"})
        for d in docs:
            try:
                r1 = wire.enc_nodes(c.find(d))
            except jp.JSONPathError as e1:
                r1 = "err " + type(e1).__name__
            try:
                r2 = wire.enc_nodes(c2.find(d))
            except jp.JSONPathError as e2:
                r2 = "err " + type(e2).__name__
            if r1 != r2:
                res.violations.append({"property": "C12", "query": q, "document": d, "observed": {"str": s, "nodes": r2[:200]},
                                       "expected": r1[:200], "what": "the reparsed query selects different nodes"})
        if s != q:
            res.nontrivial.add(s)
            res.sample({"query": q, "str": s})
        lines.append(f"str\t{a1}")
        recs.append((q, "str\t" + wire.enc_str(s)))
        lines.append(f"rfc.judge\t{eenv}\t{wire.enc_str(s)}")
        recs.append((q, ("judge", s, a1)))
    out = model.run_batch_parallel(lines)
    for (q, want), o in zip(recs, out):
        if isinstance(want, str):
            if o != want:
                res.mismatches.append({"op": "str", "query": q, "model": wire.dec_str(o.split("\t")[1]) if o.startswith("str\t") else o,
                                       "real": wire.dec_str(want.split("\t")[1])})
        else:
            _tag, s, a1 = want
            if not o.startswith("valid\t"):
                res.violations.append({"property": "C12", "query": q, "observed": {"str": s, "judgement": o[:80]},
                                       "expected": "a valid RFC 9535 query", "what": "str(query) is not valid RFC 9535"})
            elif norm_step(o.split("\t", 1)[1]) != norm_step(a1):
                res.violations.append({"property": "C12", "query": q, "observed": {"str": s, "derivation": o[:300]},
                                       "expected": a1[:300], "what": "str(query) denotes a different query under the RFC grammar"})
    # repr(float) primitive, directly
    lines, exp = [], []
    fl = [0.1, 1e15, 1e16, 1.5, 123456789012345.0, 1e-5, 1e-4, 2.5e-5, 0.3, 1e22, 5e-324, 1.7976931348623157e308, 2.0**-30, 3.0e20, 1/3, 100.0]
    for _ in range(2000 if tier == "thorough" else 300):
        fl.append(rng.choice([rng.random(), rng.uniform(-1e6, 1e6), 10.0 ** rng.randint(-300, 300) * rng.random(), float(rng.randint(0, 2**60))]))
    for x in fl:
        if x == 0:
            continue
        lines.append("py.repr\t" + wire.enc_json(float(x)))
        exp.append("repr\t" + wire.enc_str(repr(float(x))))
    out = model.run_batch_parallel(lines)
    for ln, o, e in zip(lines, out, exp):
        res.evaluations += 1
        if o != e:
            res.mismatches.append({"op": "py.repr", "input": ln, "model": o, "real": e})
    res.count("py.repr-primitive", len(lines))


# ---------------------------------------------------------------------------------------------
# C09


def literal_pool(rng, tier):
    cps = [0, 1, 7, 8, 9, 0xA, 0xB, 0xC, 0xD, 0xE, 0x1F, 0x20, 0x21, 0x22, 0x26, 0x27, 0x28, 0x2F, 0x5B, 0x5C, 0x5D, 0x7E, 0x7F, 0x80,
           0xE9, 0x7FF, 0x800, 0xD7FF, 0xE000, 0xFFFD, 0xFFFF, 0x10000, 0x1F600, 0x10FFFF]
    if tier == "thorough":
        cps = sorted(set(cps + list(range(0, 0x100)) + [rng.randint(0x100, 0x10FFFF) for _ in range(1500)]))
        cps = [c for c in cps if not 0xD800 <= c <= 0xDFFF]
    bodies = []
    for cp in cps:
        ch = chr(cp)
        bodies.append(ch)  # raw
        if cp <= 0xFFFF:
            bodies.append("\\u%04x" % cp)
            bodies.append("\\u%04X" % cp)
        else:
            v = cp - 0x10000
            hi, lo = 0xD800 + (v >> 10), 0xDC00 + (v & 0x3FF)
            bodies.append("\\u%04x\\u%04X" % (hi, lo))
    bodies += ["\\b", "\\f", "\\n", "\\r", "\\t", "\\/", "\\\\", "\\'", '\\"', "\\a", "\\x41", "\\u", "\\u1", "\\u12", "\\u123", "\\u12G4",
               "\\uD800", "\\uDBFF", "\\uDC00", "\\uDFFF", "\\uD800\\u0041", "\\uD800\\uD800", "\\uDC00\\uD800", "\\uD800\\uDBFF",
               "\\uD800\\uE000", "\\uD800x", "\\uD800\\", "\\uD800\\u", "\\uD800\\uDC0", "\\", "\\\\\\", "a\\", "\\u00e9\\u00E9",
               "\\ud83d\\ude00", "\\uD83D\\uDE00", "\\uDBFF\\uDFFF", "\\uD800\\uDC00", "\\uDBFF\\uDC00", "\\uD800\\uDFFF"]
    # \u followed by four characters that are not all HEXDIG but that a lenient integer parser would take: base
    # prefixes, signs, blanks, digit separators, non-ASCII decimal digits (fullwidth, Arabic-Indic, Devanagari ...),
    # letters just outside a-f, and the same inside a surrogate pair's second half
    odd = ["0x41", "0X41", "0o41", "0b11", "+041", "-041", " 041", "041 ", "\t041", "00_1", "0_41", "_041", "041_", "004g", "004G",
           "zzzz", "00:1", "0.41", "1e10", "\uff10\uff10\uff14\uff11", "\u0660\u0660\u0664\u0661", "\u0966\u0966\u096a\u0967",
           "\U0001d7ce\U0001d7ce\U0001d7d2\U0001d7cf", "00\uff14\uff11", "\u00b2\u00b2\u00b2\u00b2", "\u2460\u2460\u2460\u2460",
           "004\u0661", "\uff21\uff22\uff23\uff24", "ａｂｃｄ", "00\u00e91", "0041"]
    for o in odd:
        bodies.append("\\u" + o)
        bodies.append("\\uD83D\\u" + o)
        bodies.append("a\\u" + o + "b")
    for _ in range(400 if tier == "thorough" else 40):
        quad = "".join(rng.choice("0123456789abcdefABCDEF" * 3 + "gGxX+- _.:\uff11\u0661\u0967é") for _ in range(4))
        bodies.append("\\u" + quad)
    # runs of escaped backslashes in front of an escaped quote of either kind, of a raw quote of the other kind, at the
    # end of the literal and in its middle
    for k in range(0, 5):
        for tail in ("\\'", '\\"', "'", '"', "x", ""):
            bodies.append("\\\\" * k + tail)
            bodies.append("a" + "\\\\" * k + tail + "b")
    # boundary surrogate pairs and sampled interior pairs
    for _ in range(4000 if tier == "thorough" else 60):
        hi = rng.randint(0xD800, 0xDBFF)
        lo = rng.randint(0xDC00, 0xDFFF)
        bodies.append("\\u%04x\\u%04x" % (hi, lo))
    # every raw control character (and DEL, NEL, LS, PS) at the start, in the middle and at the END of otherwise plain text
    # (a trailing LF is where `$`-anchored patterns and line-oriented string methods go wrong), alone and doubled
    for cp in list(range(0, 0x20)) + [0x7F, 0x85, 0x2028, 0x2029]:
        c = chr(cp)
        bodies += ["ab" + c, c + "ab", "a" + c + "b", "ab" + c + c, "\u00e9" + c, "a b" + c, "a" + c]
    # code points that codecs treat specially (byte order marks U+FEFF / U+FFFE, U+FFFF, U+FFFD, U+0000, the last and
    # first scalar values around the surrogate block) at the START, in the middle and at the end of literals that also hold
    # an escaped surrogate pair, an unpaired surrogate escape or plain text — raw and escaped: a decoder that round-trips
    # through UTF-16/UTF-8 with BOM sniffing or error handlers changes or accepts these
    special = [0xFEFF, 0xFFFE, 0xFFFF, 0xFFFD, 0x0000, 0xD7FF, 0xE000, 0x2028, 0xEF, 0xBB, 0xBF, 0xFF, 0xFE]
    others = ["\\uD83D\\uDE00", "\\ud800\\udc00", "\\uDBFF\\uDFFF", "\\uD83D", "\\uDE00", "ab", "\\uD83Dab\\uDC00", "\U0001f600", ""]
    for cp in special:
        forms = ["\\u%04X" % cp] + ([chr(cp)] if cp >= 0x20 else [])
        for f in forms:
            for o in others:
                bodies += [f + o, o + f, f + o + f, "a" + f + o, f + f + o]
    # sequences
    for _ in range(3000 if tier == "thorough" else 200):
        bodies.append("".join(rng.choice(bodies[:200] + ["a", "'", '"', "\\\\"]) for _ in range(rng.randint(2, 5))))
    return bodies


def explore_c09(rng, tier, res, deep=False):
    res.rule = (
        "string literals built from code points of every class (controls, quotes, backslash, DEL, BMP boundaries, "
        "non-BMP) raw and in every escaped spelling (\\uXXXX both hex cases, surrogate pairs incl. all boundary "
        "pairs and sampled interior pairs), both quote styles, plus malformed literals (raw controls, unknown or "
        "truncated escapes, the other quote escaped, unpaired surrogates), and sequences thereof; in name-selector "
        "and comparison-literal position through compile(): accepted iff the RFC grammar derives the literal and "
        "then with the denoted string; plus the decoder model on the raw token text. Non-trivial = distinct literal "
        "the grammar derives."
    )
    bodies = literal_pool(rng, tier)
    qs = []
    for b in bodies:
        for q in ("'", '"'):
            qs.append(f"$[{q}{b}{q}]")
            if rng.random() < 0.5 or tier == "thorough":
                qs.append(f"$[?@=={q}{b}{q}]")
            if rng.random() < 0.15:
                qs.append(f"$[?length({q}{b}{q})==1]")
    qs = sorted(set(qs))
    compile_cases(res, FULL_ENV, qs, "C09")
    # the decoder on token texts the lexer would hand over (internal entry point; skipped if it moves)
    try:
        from jsonpath_rfc9535.tokens import Token, TokenType
        import jsonpath_rfc9535 as jp

        parser = jp.JSONPathEnvironment().parser
        lines, exp = [], []
        for b in bodies[:: (1 if tier == "thorough" else 3)]:
            for kind, tt, q in (("sq", TokenType.SINGLE_QUOTE_STRING, "'"), ("dq", TokenType.DOUBLE_QUOTE_STRING, '"')):
                # only token texts the lexer can produce: every backslash followed by an ESCAPES member or the own quote
                if not lexer_would_pass(b, q):
                    continue
                tok = Token(tt, b, 2, "$[" + q + b + q + "]")
                try:
                    r = "ok\t" + wire.enc_str(parser._decode_string_literal(tok))
                except jp.JSONPathError as e:
                    r = "err " + type(e).__name__
                except Exception as e:  # noqa: BLE001
                    r = "err PY:" + type(e).__name__
                lines.append(f"decode\t{kind}\t{wire.enc_str(b)}")
                exp.append(r)
        out = model.run_batch_parallel(lines)
        for ln, o, e in zip(lines, out, exp):
            res.evaluations += 1
            if o != e:
                res.mismatches.append({"op": "decode", "input": ln, "model": o, "real": e})
        res.count("decode-primitive", len(lines))
    except (ImportError, AttributeError) as err:
        res.notes.append(f"decoder entry point not reachable: {err!r}")


def lexer_would_pass(body, quote):
    i = 0
    while i < len(body):
        c = body[i]
        if c == "\\":
            if i + 1 >= len(body) or not (body[i + 1] in "bfnrtu/\\" or body[i + 1] == quote):
                return False
            i += 2
            continue
        if c == quote:
            return False
        i += 1
    return True


# ---------------------------------------------------------------------------------------------
# C08

C08_NAMES = ["", "a", "'", '"', "\\", "\\'", "a'b\"c", "\x00", "\x01", "\x07", "\b", "\t", "\n", "\x0b", "\f", "\r", "\x0e", "\x1f", " ",
             "\x7f", "\x80", "é", " ", "퟿", "", "￿", "😀", "\U0010ffff", "a\nb", "'\\'", "\\\\", "\\u0041", "0", "-1", "*", "$", "@"]


# identifier-like names with ONE special character in front or behind (anchors such as `$` and classes such as `\w`,
# `\s`, `.` treat a trailing LF, a Unicode space or a Unicode letter/digit in ways a hand-written table does not)
for _base in ("a", "abc", "_", "A1", "z_9"):
    for _x in ("\n", "\r", "\t", " ", "\x0b", "\x0c", "\x1f", "\x7f", "\x85", "\xa0", "\u2028", "\u2029", "'", '"', "\\", "é", "\u0661", "\uff11"):
        C08_NAMES.append(_base + _x)
        C08_NAMES.append(_x + _base)


C08_NAMES += ['a\\"b', '\\"', '\\\\"', "\\'", "\\\\'", 'a\\\\\\"', "\\\\", "\\\\\\'x", '"\\', "'\\", "e\u0301", "\u212b", "\uf900"]


def identity_under_reuse(rng, tier, res):
    """'The very object' also when a compiled query has been applied before: one compiled query applied to a value, then
    to an EQUAL but distinct copy of it (every node must hold the copy's own objects), then to the same object after
    structural edits in place (an element inserted in front, a container replaced by an equal one, a member renamed):
    location -> object identity and the re-query of path(), each time, in both modes."""
    import copy

    import jsonpath_rfc9535 as jp

    def follow(doc, loc):
        cur = doc
        for k in loc:
            if isinstance(k, int) and (k < 0 or not isinstance(cur, list)):
                raise KeyError(k)
            cur = cur[k]
        return cur

    def check(env, c, q, doc, stage):
        try:
            nodes = c.find(doc)
        except jp.JSONPathError:
            return True
        for nd in nodes[:60]:
            res.evaluations += 1
            try:
                same = follow(doc, nd.location) is nd.value
            except (KeyError, IndexError, TypeError):
                same = False
            back_ok = True
            if same:
                try:
                    back = env.find(nd.path(), doc)
                    back_ok = len(back) == 1 and back[0].value is nd.value
                except jp.JSONPathError:
                    back_ok = False
            if not same or not back_ok:
                res.violations.append({"property": "C08", "query": q, "document": doc, "observed": {"location": list(nd.location), "stage": stage},
                                       "expected": "node.location leads to the very object in node.value, in the value the query was applied to",
                                       "history": "one compiled query: applied to a value; to an equal, distinct copy; to the same object after in-place edits (" + stage + ")",
                                       "what": "a compiled query applied again returns nodes that do not belong to the value it was applied to"})
                return False
        return True

    base_docs = [
        {"store": [{"tags": ["x"], "dim": {"w": 1}}, {"tags": ["y", "z"], "dim": {"w": 2}}], "meta": {"tags": []}},
        [[1, [2, {"a": [3]}]], {"a": {"a": [4, [5]]}}, "s"],
        {"a": {"b": {"c": [1, 2, {"d": {}}]}}, "l": [[], [[]], {}]},
    ]
    queries = ["$..*", "$..tags", "$..a", "$..[0]", "$..[?@]", "$.store[?$..w]", "$[?count($..*) > 2]", "$..[?@..*]", "$.*", "$..[-1]", "$..[::-1]", "$.store[*].dim", "$[?@.a].a", "$..['a','tags']"]
    for ndflag in (False, True):
        env = real.make_env(dict(real.DEFAULT_ENVDESC, nd=ndflag))
        for doc0 in base_docs:
            for q in queries:
                c = env.compile(q)
                d1 = copy.deepcopy(doc0)
                if not check(env, c, q, d1, "first application"):
                    continue
                d2 = copy.deepcopy(d1)
                if not check(env, c, q, d2, "an equal, distinct copy of the first value"):
                    continue
                if not check(env, c, q, d1, "the first value again"):
                    continue
                # in-place structural edits of d1
                if isinstance(d1, list):
                    d1.insert(0, {"new": [0]})
                else:
                    k0 = next(iter(d1))
                    d1[k0] = copy.deepcopy(d1[k0])  # an equal container replaces the old one
                    d1["zz"] = d1.pop(next(iter(d1)))  # a member renamed (moves to the end)
                if not check(env, c, q, d1, "the same object after in-place edits"):
                    continue
                for sub in (d1.values() if isinstance(d1, dict) else d1):
                    if isinstance(sub, list):
                        sub.insert(0, [9])
                        break
                check(env, c, q, d1, "the same object after an element was inserted in front of a nested array")
                res.nontrivial.add(("identity-under-reuse", ndflag, q, json.dumps(doc0, sort_keys=True)))
    res.count("identity-under-reuse")


def explore_c08(rng, tier, res, deep=False):
    import jsonpath_rfc9535 as jp

    res.rule = (
        "documents whose member names range over every character class (quotes, backslash, every control "
        "U+0000-U+001F, DEL, BMP boundaries, non-BMP, empty) and whose arrays are reached through negative indices, "
        "reverse slices, wildcards, descendants and filters; for every node returned: following node.location "
        "reaches the identical object (`is`), path() equals the RFC normalized path of the location, evaluating "
        "path() returns exactly that node, and values()/paths()/items() agree with the nodes. Thorough adds every "
        "code point U+0000..U+10FFFF as a one-character name. Non-trivial = distinct (document, node path)."
    )
    env_det = real.make_env(real.DEFAULT_ENVDESC)
    # the nodes a nondeterministic environment returns are nodes too: same obligations, whatever order they come in
    env_nd = real.make_env(dict(real.DEFAULT_ENVDESC, nd=True))
    n = sizes(tier, deep, 300, 6000)
    names_all = list(C08_NAMES)
    if tier == "thorough":
        names_all += [chr(c) for c in range(0, 0x300)] + [chr(rng.randint(0x300, 0xD7FF)) for _ in range(800)] + \
                     [chr(rng.randint(0xE000, 0x10FFFF)) for _ in range(800)]
    canon_lines, canon_names = [], []
    g = gen.QueryGen(rng, names=C08_NAMES, max_filter_depth=1)
    for it in range(n):
        names = rng.sample(names_all, min(len(names_all), 6))
        doc = gen.gen_container(rng, depth=3, names=names)
        queries = ["$..*", "$.*", "$[-1]", "$[::-1]", "$[-2:]", "$..[-1]", "$..[::-2]", "$[?@]", "$..[?@]", walk_query(rng, doc, g)]
        # slices whose explicit bounds lie beyond either end, both directions: the location is the element's own index
        queries += [["$[99::-1]", "$..[7::-2]", "$[3::-1]", "$[2:0:-1]"][it % 4], ["$[-99::1]", "$[:99]", "$..[5:-99:-1]", "$..[-99:99:2]"][(it // 4) % 4]]
        far = queries[-2:]
        if it % 7 == 5:
            # member names that read as integers next to array indices with the same digits, index selectors with those
            # digits compiled on the same environment just before: a name is a name
            arr = [doc, 1, [2]]
            doc = {"1": arr, "0": {"1": 1, "-1": [0, 1]}, "-1": "x", "01": 1, "1.0": 2, "k": [{"0": 0}, {"1": 1}]}
            for warm in ("$.k[1]", "$..[0]", "$['0'][-1]", "$[1]", "$..[-1]"):
                try:
                    env_det.find(warm, doc)
                except jp.JSONPathError:
                    pass
            queries = ["$..*", "$['1']", "$['0']['1']", "$['-1']", "$.*", "$..['1']", "$..[1]", "$['0']['-1'][1]", "$['1'][1]"]
        env = env_nd if it % 3 == 2 else env_det
        if it % 3 == 2:
            # scalars in front of containers, containers between scalars: positions are positions in the array itself
            doc = rng.choice([[1, doc], [None, "s", doc, 2, [3, {"a": [0, [4]]}]], {"k": [True, doc, 0, {"a": 1}]}])
            queries = ["$..*", "$..[0]", "$..[-1]", "$..a", "$..[?@]", "$..[::-1]", "$..*..*", "$.*..*"]
        for q in rng.sample(queries, 4) + (far if it % 3 != 2 and it % 7 != 5 else []):
            res.evaluations += 1
            try:
                nodes = env.find(q, doc)
            except jp.JSONPathError:
                continue
            if nodes.values() != [x.value for x in nodes] or nodes.paths() != [x.path() for x in nodes] or \
                    nodes.items() != [(x.path(), x.value) for x in nodes]:
                res.violations.append({"property": "C08", "query": q, "document": doc, "observed": "views differ",
                                       "expected": "values()/paths()/items() agree with nodes", "what": "nodelist views"})
            for nd in nodes[:40]:
                cur = doc
                ok = True
                for k in nd.location:
                    try:
                        if isinstance(k, int) and (k < 0 or not isinstance(cur, list)):
                            ok = False
                            break
                        cur = cur[k]
                    except (KeyError, IndexError, TypeError):
                        ok = False
                        break
                if not ok or cur is not nd.value:
                    res.violations.append({"property": "C08", "query": q, "document": doc,
                                           "observed": {"location": list(nd.location)}, "expected": "location leads to node.value",
                                           "what": "node.location does not reach the very object in node.value"})
                    continue
                p = nd.path()
                res.nontrivial.add((json.dumps(doc, sort_keys=True), p))
                want = "$" + "".join("[%d]" % k if isinstance(k, int) else "[" + normal_name(k) + "]" for k in nd.location)
                if p != want:
                    res.violations.append({"property": "C08", "query": q, "document": doc, "observed": p, "expected": want,
                                           "what": "path() is not the RFC 9535 normalized path"})
                try:
                    back = env.find(p, doc)
                    if len(back) != 1 or back[0].value is not nd.value or back[0].location != nd.location:
                        res.violations.append({"property": "C08", "query": p, "document": doc,
                                               "observed": [list(b.location) for b in back], "expected": [list(nd.location)],
                                               "what": "evaluating path() does not return exactly that node"})
                except jp.JSONPathError as exc:
                    res.violations.append({"property": "C08", "query": p, "document": doc, "observed": f"{type(exc).__name__}: {exc}",
                                           "expected": "one node", "what": "path() is not accepted as a query"})
                if len(res.samples) < 6:
                    res.sample({"query": q, "path": p})
        for nm in names:
            canon_lines.append("canon\t" + wire.enc_str(nm))
            canon_names.append(nm)
    identity_under_reuse(rng, tier, res)
    # a ROOT value that is a string whose text looks like JSON: it is the string (one node, no children), and the node's
    # value is the very object that was passed in
    for js in ["12", "null", "[1, 2]", '{"a": [true]}', '"x"', "true", "[]", "{}", " [1]", "1e3"]:
        for envx in (env_det, env_nd):
            for q in ("$", "$[*]", "$..*", "$[0]", "$.a", "$[?@]", "$..[0]"):
                res.evaluations += 1
                try:
                    nodes = envx.find(q, js)
                except jp.JSONPathError:
                    continue
                want_n = 1 if q == "$" else 0
                if len(nodes) != want_n or (want_n and (nodes[0].value is not js or nodes[0].location != ())):
                    res.violations.append({"property": "C08", "query": q, "document": js, "observed": [(list(n.location), n.value) for n in nodes][:5],
                                           "expected": "[([], the string itself)]" if want_n else "[]",
                                           "what": "a root value that is a JSON-looking STRING: the nodes are not nodes of the value that was passed in"})
    if tier == "thorough":
        for cp in list(range(0, 0xD800, 1)) + list(range(0xE000, 0x110000, 1)):
            if cp > 0x3000 and cp % 97:
                continue
            canon_lines.append("canon\t" + wire.enc_str(chr(cp)))
            canon_names.append(chr(cp))
    from jsonpath_rfc9535.serialize import canonical_string

    out = model.run_batch_parallel(canon_lines)
    for nm, o in zip(canon_names, out):
        res.evaluations += 1
        r = canonical_string(nm)
        parts = o.split("\t")
        if wire.dec_str(parts[1]) != r:
            res.mismatches.append({"op": "canon", "name": nm, "model": wire.dec_str(parts[1]), "real": r})
        if wire.dec_str(parts[2]) != r:
            res.violations.append({"property": "C08", "query": None, "document": {nm: 1}, "observed": r, "expected": wire.dec_str(parts[2]),
                                   "what": "canonical name differs from the RFC normal-name-selector"})


def normal_name(s):
    out = ["'"]
    for ch in s:
        o = ord(ch)
        short = {8: "\\b", 9: "\\t", 10: "\\n", 12: "\\f", 13: "\\r", 0x27: "\\'", 0x5C: "\\\\"}
        if o in short:
            out.append(short[o])
        elif o < 0x20:
            out.append("\\u%04x" % o)
        else:
            out.append(ch)
    out.append("'")
    return "".join(out)
