/-
`Proofs.Float.Round` — `Py.roundBinary64` read on rationals: the working exponent it chooses is THE normalising
exponent of `n/d` (`NormExp`), hence the result depends on the value `n/d` only (`roundBinary64_congr`).
-/
import JPV.Proofs.Float.Q
import JPV.Proofs.Pc.IntRTRound
namespace JPV.Proofs.Float
open JPV JPV.Proofs.Pc

/-- the quotient of `scaledDiv` is the floor of `(n/d) / 2^e`: comparison with an integer from above -/
theorem sd_lt_iff (n d : ℕ) (hd : 0 < d) (e : ℤ) (K : ℕ) :
    (Py.scaledDiv n d e).1 < K ↔ (n : ℚ) / d < K * 2 ^ e := by
  obtain ⟨hden, hr, hv⟩ := scaledDiv_spec n d hd e
  generalize Py.scaledDiv n d e = s at *
  obtain ⟨q, r, den⟩ := s
  simp only at *
  have hp : (0 : ℚ) < 2 ^ e := zpow_pos (by norm_num) e
  have hdenq : (0 : ℚ) < den := by exact_mod_cast hden
  have hf0 : (0 : ℚ) ≤ (r : ℚ) / den := by positivity
  have hf1 : (r : ℚ) / den < 1 := by rw [div_lt_one hdenq]; exact_mod_cast hr
  rw [hv, mul_lt_mul_iff_of_pos_right hp]
  constructor
  · intro h
    have : (q : ℚ) + 1 ≤ K := by exact_mod_cast h
    linarith
  · intro h
    have : (q : ℚ) < K := by linarith
    exact_mod_cast this

/-- ... and from below -/
theorem sd_ge_iff (n d : ℕ) (hd : 0 < d) (e : ℤ) (K : ℕ) :
    K ≤ (Py.scaledDiv n d e).1 ↔ (K : ℚ) * 2 ^ e ≤ (n : ℚ) / d := by
  have := sd_lt_iff n d hd e K
  constructor
  · intro h; by_contra hc; exact absurd (this.mpr (lt_of_not_ge hc)) (by omega)
  · intro h; by_contra hc; exact absurd (this.mp (by omega)) (not_lt.mpr h)

/-- `e` is the exponent at which `v` has a 53-bit integer part (or the subnormal floor `-1074`) -/
def NormExp (v : ℚ) (e : ℤ) : Prop :=
  -1074 ≤ e ∧ v < 2 ^ 53 * 2 ^ e ∧ ((2 : ℚ) ^ 52 * 2 ^ e ≤ v ∨ e = -1074)

theorem two_zpow_succ (e : ℤ) : (2 : ℚ) ^ (e + 1) = 2 * 2 ^ e := by
  rw [zpow_add_one₀ (by norm_num)]; ring

theorem NormExp.unique {v : ℚ} {e e' : ℤ} (h : NormExp v e) (h' : NormExp v e') : e = e' := by
  have key : ∀ {a b : ℤ}, NormExp v a → NormExp v b → a < b → False := by
    intro a b ha hb hab
    obtain ⟨ha0, ha1, _⟩ := ha
    obtain ⟨hb0, _, hb2⟩ := hb
    rcases hb2 with hb2 | hb2
    · have hle : (2 : ℚ) ^ (a + 1) ≤ 2 ^ b := zpow_le_zpow_right₀ (by norm_num) (by omega)
      rw [two_zpow_succ] at hle
      have hp : (0 : ℚ) < 2 ^ a := zpow_pos (by norm_num) a
      have : (2 : ℚ) ^ 53 * 2 ^ a ≤ 2 ^ 52 * 2 ^ b := by
        have : (2 : ℚ) ^ 53 * 2 ^ a = 2 ^ 52 * (2 * 2 ^ a) := by norm_num; ring
        rw [this]; gcongr
      linarith
    · omega
  rcases lt_trichotomy e e' with hlt | heq | hgt
  · exact (key h h' hlt).elim
  · exact heq
  · exact (key h' h hgt).elim

theorem pickE_eq (n d : ℕ) (e : ℤ) : pickE n d e =
    if (Py.scaledDiv n d (if e < -1074 then -1074 else e)).1 < 2 ^ 53 ∧
        ((Py.scaledDiv n d (if e < -1074 then -1074 else e)).1 ≥ 2 ^ 52 ∨ (if e < -1074 then -1074 else e) = -1074)
    then some (if e < -1074 then -1074 else e) else none := rfl

theorem pickE_iff (n d : ℕ) (hd : 0 < d) (e : ℤ) :
    (NormExp ((n : ℚ) / d) (if e < -1074 then -1074 else e) → pickE n d e = some (if e < -1074 then -1074 else e)) ∧
    (¬ NormExp ((n : ℚ) / d) (if e < -1074 then -1074 else e) → pickE n d e = none) := by
  rw [pickE_eq]
  generalize hc : (if e < -1074 then (-1074 : ℤ) else e) = c
  have hc0 : -1074 ≤ c := by rw [← hc]; split <;> omega
  have h1 := sd_lt_iff n d hd c (2 ^ 53)
  have h2 := sd_ge_iff n d hd c (2 ^ 52)
  push_cast at h1 h2
  constructor
  · rintro ⟨_, ha, hb⟩
    rw [if_pos]
    refine ⟨h1.mpr ha, ?_⟩
    rcases hb with hb | hb
    · exact .inl (h2.mpr hb)
    · exact .inr hb
  · intro hn
    rw [if_neg]
    rintro ⟨ha, hb⟩
    apply hn
    refine ⟨hc0, h1.mp ha, ?_⟩
    rcases hb with hb | hb
    · exact .inl (h2.mp hb)
    · exact .inr hb

/-- `2^(log2 n - log2 d - 1) < n/d < 2^(log2 n - log2 d + 1)` -/
theorem log2_bounds (n d : ℕ) (hn : 0 < n) (hd : 0 < d) :
    (2 : ℚ) ^ ((Nat.log2 n : ℤ) - (Nat.log2 d : ℤ) - 1) < (n : ℚ) / d ∧
    (n : ℚ) / d < (2 : ℚ) ^ ((Nat.log2 n : ℤ) - (Nat.log2 d : ℤ) + 1) := by
  have hdq : (0 : ℚ) < d := by exact_mod_cast hd
  have h1 : ((2 ^ Nat.log2 n : ℕ) : ℚ) ≤ n := by exact_mod_cast Nat.log2_self_le (by omega : n ≠ 0)
  have h2 : (n : ℚ) < ((2 ^ (Nat.log2 n + 1) : ℕ) : ℚ) := by exact_mod_cast (@Nat.lt_log2_self n)
  have h3 : ((2 ^ Nat.log2 d : ℕ) : ℚ) ≤ d := by exact_mod_cast Nat.log2_self_le (by omega : d ≠ 0)
  have h4 : (d : ℚ) < ((2 ^ (Nat.log2 d + 1) : ℕ) : ℚ) := by exact_mod_cast (@Nat.lt_log2_self d)
  push_cast at h1 h2 h3 h4
  generalize Nat.log2 n = a at *
  generalize Nat.log2 d = b at *
  have e1 : (2 : ℚ) ^ ((a : ℤ) - (b : ℤ) - 1) = 2 ^ a / 2 ^ (b + 1) := by
    rw [show (a : ℤ) - (b : ℤ) - 1 = (a : ℤ) - ((b + 1 : ℕ) : ℤ) by push_cast; ring,
      zpow_sub₀ (by norm_num), zpow_natCast, zpow_natCast]
  have e2 : (2 : ℚ) ^ ((a : ℤ) - (b : ℤ) + 1) = 2 ^ (a + 1) / 2 ^ b := by
    rw [show (a : ℤ) - (b : ℤ) + 1 = ((a + 1 : ℕ) : ℤ) - (b : ℤ) by push_cast; ring,
      zpow_sub₀ (by norm_num), zpow_natCast, zpow_natCast]
  have hb : (0 : ℚ) < 2 ^ b := by positivity
  have hb1 : (0 : ℚ) < 2 ^ (b + 1) := by positivity
  rw [e1, e2]
  constructor
  · rw [div_lt_div_iff₀ hb1 hdq]
    calc (2 : ℚ) ^ a * d < 2 ^ a * 2 ^ (b + 1) := by gcongr
      _ ≤ n * 2 ^ (b + 1) := by gcongr
  · rw [div_lt_div_iff₀ hdq hb]
    calc (n : ℚ) * 2 ^ b < 2 ^ (a + 1) * 2 ^ b := by gcongr
      _ ≤ 2 ^ (a + 1) * d := by gcongr

theorem two_pow_mul_zpow (K : ℕ) (e : ℤ) : (2 : ℚ) ^ K * 2 ^ e = 2 ^ (e + K) := by
  rw [zpow_add₀ (by norm_num), zpow_natCast]; ring

theorem p2 (K : ℕ) (e e' : ℤ) (h : e' = e + K) : (2 : ℚ) ^ K * 2 ^ e = 2 ^ e' := by
  rw [h, two_pow_mul_zpow]

/-- the exponent `roundBinary64` works at is the normalising exponent of `n/d` -/
theorem chooseE_spec (n d : ℕ) (hn : 0 < n) (hd : 0 < d) :
    NormExp ((n : ℚ) / d) (chooseE n d ((Nat.log2 n : ℤ) - (Nat.log2 d : ℤ) - 52)) := by
  obtain ⟨hlo, hhi⟩ := log2_bounds n d hn hd
  generalize he0 : (Nat.log2 n : ℤ) - (Nat.log2 d : ℤ) - 52 = e0
  have hlo' : (2 : ℚ) ^ (e0 + 51) < (n : ℚ) / d := by
    rw [← he0]; convert hlo using 2; ring
  have hhi' : (n : ℚ) / d < (2 : ℚ) ^ (e0 + 53) := by
    rw [← he0]; convert hhi using 2; ring
  have P1 := pickE_iff n d hd (e0 - 1)
  have P2 := pickE_iff n d hd e0
  generalize (n : ℚ) / d = v at *
  unfold chooseE
  by_cases N1 : NormExp v (if e0 - 1 < -1074 then -1074 else e0 - 1)
  · rw [P1.1 N1]; exact N1
  · rw [P1.2 N1]
    by_cases N2 : NormExp v (if e0 < -1074 then -1074 else e0)
    · rw [P2.1 N2]; exact N2
    · exfalso
      by_cases hc : e0 - 1 < -1074
      · rw [if_pos hc] at N1
        apply N1
        refine ⟨le_refl _, lt_of_lt_of_le hhi' ?_, .inr rfl⟩
        rw [p2 53 (-1074) (-1021) (by norm_num)]
        exact zpow_le_zpow_right₀ (by norm_num) (by omega)
      · rw [if_neg hc] at N1
        rw [if_neg (by omega)] at N2
        have h52 : (2 : ℚ) ^ (e0 + 52) ≤ v := by
          by_contra hcon
          apply N1
          refine ⟨by omega, ?_, .inl ?_⟩
          · rw [p2 53 (e0 - 1) (e0 + 52) (by norm_num; ring)]
            exact lt_of_not_ge hcon
          · rw [p2 52 (e0 - 1) (e0 + 51) (by norm_num; ring)]
            exact hlo'.le
        apply N2
        refine ⟨by omega, ?_, .inl ?_⟩
        · rw [p2 53 e0 (e0 + 53) (by norm_num)]; exact hhi'
        · rw [p2 52 e0 (e0 + 52) (by norm_num)]; exact h52

end JPV.Proofs.Float
