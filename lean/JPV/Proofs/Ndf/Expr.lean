import JPV.Proofs.Ndf.Sel
import JPV.Proofs.Eval
/-
Filter expressions in nondeterministic mode: the nondeterministic twin of `test_ok` / `val_ok` /
`nodes_ok` / `args_ok` of `Proofs/Eval.lean`.  For EVERY script, a well-typed expression evaluates
(no error) to an object that represents the RFC value UP TO THE ORDER OF NODELISTS:
  * a test: `TestRep` (only the emptiness of a nodelist matters);
  * a comparable: `ValRep` (a singular query yields at most one node, so a permutation is equal);
  * a NodesType argument: a permutation of the RFC nodelist;
function calls are handled for an arbitrary conforming registry whose typed functions are
insensitive to the order of their NodesType arguments (`OrderInsensitive`).
The mutual induction runs over expressions, argument lists, selectors, selector lists and
segment lists at once, because embedded queries recurse into `ND.runSegs`.
-/
namespace JPV.Proofs.Ndf
open JPV JPV.Impl JPV.Props JPV.Spec.ND
open JPV.Proofs.NDp JPV.Proofs.Ndp

/-! ### typed arguments up to the order of nodelists -/

inductive ArgEq : Spec.Arg → Spec.Arg → Prop
  | value (v : Spec.Val) : ArgEq (.value v) (.value v)
  | logical (b : Bool) : ArgEq (.logical b) (.logical b)
  | nodes {a b : List Node} : a.Perm b → ArgEq (.nodes a) (.nodes b)

/-- argument lists, pointwise -/
inductive ArgsEq : List Spec.Arg → List Spec.Arg → Prop
  | nil : ArgsEq [] []
  | cons {a' a : Spec.Arg} {A' A : List Spec.Arg} : ArgEq a' a → ArgsEq A' A → ArgsEq (a' :: A') (a :: A)

/-- the typed functions of the registry do not look at the order of the nodelists they receive
(a NodesType result may itself come in a different order) -/
def OrderInsensitive (reg : Spec.Registry) : Prop :=
  ∀ name fn, reg name = some fn → ∀ A' A : List Spec.Arg, ArgsEq A' A →
    A.map argTy = fn.argTypes → ArgEq (fn.sem A') (fn.sem A)

theorem ArgEq.ty {a' a : Spec.Arg} (h : ArgEq a' a) : argTy a' = argTy a := by
  cases h <;> rfl

theorem argEq_map_ty {A' A : List Spec.Arg} (h : ArgsEq A' A) :
    A'.map argTy = A.map argTy := by
  induction h with
  | nil => rfl
  | cons h1 _ ih => simp only [List.map_cons, h1.ty, ih]

theorem perm_isEmpty {α} {a b : List α} (h : a.Perm b) : a.isEmpty = b.isEmpty := by
  cases a with
  | nil => rw [h.symm.eq_nil]
  | cons x a =>
    cases b with
    | nil => exact absurd h.eq_nil (by simp)
    | cons y b => rfl

theorem perm_short {α} {a b : List α} (h : a.Perm b) (hl : b.length ≤ 1) : a = b := by
  match b, hl with
  | [], _ => exact h.eq_nil
  | [y], _ => exact List.perm_singleton.1 h

theorem testRep_of_argEq {a' a : Spec.Arg} {t : Ty} (h : ArgEq a' a) (hty : argTy a = t)
    (ht : t = .logical ∨ t = .nodes) : TestRep (argObj a') a.asLogical := by
  cases h with
  | value v => subst hty; simp [argTy] at ht
  | logical b => exact .inl rfl
  | nodes hp => exact .inr ⟨_, rfl, by simp only [Spec.Arg.asLogical, perm_isEmpty hp]⟩

theorem valRep_of_argEq {a' a : Spec.Arg} (h : ArgEq a' a) (hty : argTy a = .value)
    (hwf : ArgWF a) : ValRep (argObj a') a.asValue := by
  cases h with
  | value v => exact valRep_of_ty hty hwf
  | logical b => simp [argTy] at hty
  | nodes hp => simp [argTy] at hty

theorem nodes_of_argEq {a' a : Spec.Arg} (h : ArgEq a' a) (hty : argTy a = .nodes) :
    ∃ ns, argObj a' = .nodes ns ∧ ns.Perm a.asNodes := by
  cases h with
  | value v => simp [argTy] at hty
  | logical b => simp [argTy] at hty
  | nodes hp => exact ⟨_, rfl, hp⟩

/-! ### embedded queries and function calls -/

theorem nd_rel_eval {env : Env} {root cur : Json} {q : List Segment} {s : ND.Script}
    (h : (ND.runSegs env root q ⟨[], cur⟩ s).err = none) :
    ND.evalExpr env root cur (.rel q) s =
      (.ok (.nodes (ND.runSegs env root q ⟨[], cur⟩ s).nodes),
        (ND.runSegs env root q ⟨[], cur⟩ s).script) := by
  simp only [ND.evalExpr, h]

theorem nd_root_eval {env : Env} {root cur : Json} {q : List Segment} {s : ND.Script}
    (h : (ND.runSegs env root q ⟨[], root⟩ s).err = none) :
    ND.evalExpr env root cur (.root q) s =
      (.ok (.nodes (ND.runSegs env root q ⟨[], root⟩ s).nodes),
        (ND.runSegs env root q ⟨[], root⟩ s).script) := by
  simp only [ND.evalExpr, h]

theorem nd_call_ok {env : Env} {reg : Spec.Registry} {root cur : Json} {name : Str}
    {args : List Expr} {s : ND.Script}
    (hc : EnvConforms env reg) (hoi : OrderInsensitive reg) {fn : Spec.Fn}
    (hreg : reg name = some fn) {A' A : List Spec.Arg}
    (hargs : ∃ os s', ND.evalArgs env root cur args s = (.ok os, s') ∧
      Impl.unpack fn.argTypes os = .ok (A'.map argObj))
    (heq : ArgsEq A' A) (hty : A.map argTy = fn.argTypes) (hwf : ∀ a ∈ A, ArgWF a) :
    (∃ s', ND.evalExpr env root cur (.call name args) s = (.ok (argObj (fn.sem A')), s')) ∧
      ArgEq (fn.sem A') (fn.sem A) ∧ argTy (fn.sem A) = fn.ret ∧ ArgWF (fn.sem A) := by
  have h := hc name
  rw [hreg] at h
  cases hf : env.func name with
  | none => rw [hf] at h; exact h.elim
  | some f =>
    rw [hf] at h
    have conf : Conforms f fn := h
    obtain ⟨os, s', h1, h2⟩ := hargs
    refine ⟨⟨s', ?_⟩, hoi name fn hreg A' A heq hty, conf.retTy A hty, conf.retWF A hty hwf⟩
    have hty' : A'.map argTy = fn.argTypes := (argEq_map_ty heq).trans hty
    simp only [ND.evalExpr, hf, h1, conf.argTypes, h2]
    exact congrArg (fun x => (x, s')) (conf.body A' hty')

/-! ### the mutual induction -/

mutual
theorem nd_test_ok (env : Env) (reg : Spec.Registry) (root : Json) (C : Ctx env reg root)
    (hoi : OrderInsensitive reg) :
    ∀ (e : Expr) (cur : Json) (s : ND.Script), GoodJ env.maxDepth cur →
      Spec.wtTest (sigsOf reg) e = true →
      ∃ o s', ND.evalExpr env root cur e s = (.ok o, s') ∧ TestRep o (Spec.testOf reg root cur e)
  | .lit v, cur, s, hcur, hwt => by simp [Spec.wtTest] at hwt
  | .not e, cur, s, hcur, hwt => by
      simp only [Spec.wtTest] at hwt
      obtain ⟨o, s', ho, hr⟩ := nd_test_ok env reg root C hoi e cur s hcur hwt
      refine ⟨.val (.bool (!Impl.truthy o)), s', ?_, ?_⟩
      · simp only [ND.evalExpr, ho]
      · left; simp only [Spec.testOf, hr.truthy]
  | .logical op l r, cur, s, hcur, hwt => by
      simp only [Spec.wtTest, Bool.and_eq_true] at hwt
      obtain ⟨a, s1, ha, hra⟩ := nd_test_ok env reg root C hoi l cur s hcur hwt.1
      obtain ⟨b, s2, hb, hrb⟩ := nd_test_ok env reg root C hoi r cur s1 hcur hwt.2
      refine ⟨.val (.bool (match op with
        | .and => Impl.truthy a && Impl.truthy b
        | .or => Impl.truthy a || Impl.truthy b)), s2, ?_, ?_⟩
      · simp only [ND.evalExpr, ha, hb]
        rfl
      · left
        cases op <;> simp only [Spec.testOf, hra.truthy, hrb.truthy]
  | .cmp op l r, cur, s, hcur, hwt => by
      simp only [Spec.wtTest, Bool.and_eq_true] at hwt
      obtain ⟨a, s1, ha, hra⟩ := nd_val_ok env reg root C hoi l cur s hcur hwt.1
      obtain ⟨b, s2, hb, hrb⟩ := nd_val_ok env reg root C hoi r cur s1 hcur hwt.2
      refine ⟨.val (.bool (Impl.compare (Impl.unwrap1 a) op (Impl.unwrap1 b))), s2, ?_, ?_⟩
      · simp only [ND.evalExpr, ha, hb]
      · left
        obtain ⟨ca, wa, fa⟩ := hra.comparand
        obtain ⟨cb, wb, fb⟩ := hrb.comparand
        simp only [Spec.testOf, compare_correct _ _ op ca cb wa wb, fa, fb]
  | .rel q, cur, s, hcur, hwt => by
      simp only [Spec.wtTest] at hwt
      have h := (nd_segs_ok env reg root C hoi q hwt).1 ⟨[], cur⟩ s hcur
      refine ⟨_, _, nd_rel_eval h.1, .inr ⟨_, rfl, ?_⟩⟩
      simp only [Spec.testOf, perm_isEmpty h.2]
  | .root q, cur, s, hcur, hwt => by
      simp only [Spec.wtTest] at hwt
      have h := (nd_segs_ok env reg root C hoi q hwt).1 ⟨[], root⟩ s C.hroot
      refine ⟨_, _, nd_root_eval h.1, .inr ⟨_, rfl, ?_⟩⟩
      simp only [Spec.testOf, perm_isEmpty h.2]
  | .call f args, cur, s, hcur, hwt => by
      simp only [Spec.wtTest] at hwt
      cases hr : reg f with
      | none => rw [sigsOf_none hr] at hwt; simp at hwt
      | some fn =>
        rw [sigsOf_some hr] at hwt
        simp only [Bool.and_eq_true, Bool.or_eq_true, beq_iff_eq] at hwt
        obtain ⟨os, s', A', h1, h2, h3⟩ :=
          nd_args_ok env reg root C hoi args fn.argTypes cur s hcur hwt.2
        obtain ⟨_, _, _, hty, hwf⟩ := args_ok env reg root C args fn.argTypes cur hcur hwt.2
        obtain ⟨⟨s2, he⟩, heq, hrt, _⟩ := nd_call_ok C.hc hoi hr ⟨os, s', h1, h2⟩ h3 hty hwf
        refine ⟨_, s2, he, ?_⟩
        simp only [Spec.testOf, hr]
        exact testRep_of_argEq heq hrt hwt.1
theorem nd_val_ok (env : Env) (reg : Spec.Registry) (root : Json) (C : Ctx env reg root)
    (hoi : OrderInsensitive reg) :
    ∀ (e : Expr) (cur : Json) (s : ND.Script), GoodJ env.maxDepth cur →
      Spec.wtComparable (sigsOf reg) e = true →
      ∃ o s', ND.evalExpr env root cur e s = (.ok o, s') ∧ ValRep o (Spec.valueOf reg root cur e)
  | .lit v, cur, s, hcur, hwt => by
      simp only [Spec.wtComparable] at hwt
      exact ⟨.val v, s, by simp only [ND.evalExpr],
        by simp only [Spec.valueOf]; exact .val v (scalar_wf hwt)⟩
  | .not e, cur, s, hcur, hwt => by simp [Spec.wtComparable] at hwt
  | .logical op l r, cur, s, hcur, hwt => by simp [Spec.wtComparable] at hwt
  | .cmp op l r, cur, s, hcur, hwt => by simp [Spec.wtComparable] at hwt
  | .rel q, cur, s, hcur, hwt => by
      simp only [Spec.wtComparable, Bool.and_eq_true] at hwt
      have hg := good_single hcur
      have h := (nd_segs_ok env reg root C hoi q hwt.2).1 ⟨[], cur⟩ s hcur
      have hlen := singular_length (reg := reg) (root := root) q hwt.1 _ hg (by simp)
      have heq := perm_short h.2 hlen
      refine ⟨_, _, nd_rel_eval h.1, ?_⟩
      simp only at heq
      rw [heq]
      simp only [Spec.valueOf]
      exact valRep_of_nodes _ hlen (fun n hn => (selectFrom_good q _ hg n hn).1)
  | .root q, cur, s, hcur, hwt => by
      simp only [Spec.wtComparable, Bool.and_eq_true] at hwt
      have hg := good_single C.hroot
      have h := (nd_segs_ok env reg root C hoi q hwt.2).1 ⟨[], root⟩ s C.hroot
      have hlen := singular_length (reg := reg) (root := root) q hwt.1 _ hg (by simp)
      have heq := perm_short h.2 hlen
      refine ⟨_, _, nd_root_eval h.1, ?_⟩
      simp only at heq
      rw [heq]
      simp only [Spec.valueOf]
      exact valRep_of_nodes _ hlen (fun n hn => (selectFrom_good q _ hg n hn).1)
  | .call f args, cur, s, hcur, hwt => by
      simp only [Spec.wtComparable] at hwt
      cases hr : reg f with
      | none => rw [sigsOf_none hr] at hwt; simp at hwt
      | some fn =>
        rw [sigsOf_some hr] at hwt
        simp only [Bool.and_eq_true, beq_iff_eq] at hwt
        obtain ⟨os, s', A', h1, h2, h3⟩ :=
          nd_args_ok env reg root C hoi args fn.argTypes cur s hcur hwt.2
        obtain ⟨_, _, _, hty, hwf⟩ := args_ok env reg root C args fn.argTypes cur hcur hwt.2
        obtain ⟨⟨s2, he⟩, heq, hrt, hrw⟩ := nd_call_ok C.hc hoi hr ⟨os, s', h1, h2⟩ h3 hty hwf
        refine ⟨_, s2, he, ?_⟩
        simp only [Spec.valueOf, hr]
        exact valRep_of_argEq heq (hrt.trans hwt.1) hrw
theorem nd_nodes_ok (env : Env) (reg : Spec.Registry) (root : Json) (C : Ctx env reg root)
    (hoi : OrderInsensitive reg) :
    ∀ (e : Expr) (cur : Json) (s : ND.Script), GoodJ env.maxDepth cur →
      Spec.wtNodes (sigsOf reg) e = true →
      ∃ ns s', ND.evalExpr env root cur e s = (.ok (.nodes ns), s') ∧
        ns.Perm (Spec.nodesOf reg root cur e)
  | .lit v, cur, s, hcur, hwt => by simp [Spec.wtNodes] at hwt
  | .not e, cur, s, hcur, hwt => by simp [Spec.wtNodes] at hwt
  | .logical op l r, cur, s, hcur, hwt => by simp [Spec.wtNodes] at hwt
  | .cmp op l r, cur, s, hcur, hwt => by simp [Spec.wtNodes] at hwt
  | .rel q, cur, s, hcur, hwt => by
      simp only [Spec.wtNodes] at hwt
      have h := (nd_segs_ok env reg root C hoi q hwt).1 ⟨[], cur⟩ s hcur
      exact ⟨_, _, nd_rel_eval h.1, by simpa only [Spec.nodesOf] using h.2⟩
  | .root q, cur, s, hcur, hwt => by
      simp only [Spec.wtNodes] at hwt
      have h := (nd_segs_ok env reg root C hoi q hwt).1 ⟨[], root⟩ s C.hroot
      exact ⟨_, _, nd_root_eval h.1, by simpa only [Spec.nodesOf] using h.2⟩
  | .call f args, cur, s, hcur, hwt => by
      simp only [Spec.wtNodes] at hwt
      cases hr : reg f with
      | none => rw [sigsOf_none hr] at hwt; simp at hwt
      | some fn =>
        rw [sigsOf_some hr] at hwt
        simp only [Bool.and_eq_true, beq_iff_eq] at hwt
        obtain ⟨os, s', A', h1, h2, h3⟩ :=
          nd_args_ok env reg root C hoi args fn.argTypes cur s hcur hwt.2
        obtain ⟨_, _, _, hty, hwf⟩ := args_ok env reg root C args fn.argTypes cur hcur hwt.2
        obtain ⟨⟨s2, he⟩, heq, hrt, _⟩ := nd_call_ok C.hc hoi hr ⟨os, s', h1, h2⟩ h3 hty hwf
        obtain ⟨ns, hns, hp⟩ := nodes_of_argEq heq (hrt.trans hwt.1)
        refine ⟨ns, s2, by rw [he, hns], ?_⟩
        simpa only [Spec.nodesOf, hr] using hp
theorem nd_args_ok (env : Env) (reg : Spec.Registry) (root : Json) (C : Ctx env reg root)
    (hoi : OrderInsensitive reg) :
    ∀ (args : List Expr) (tys : List Ty) (cur : Json) (s : ND.Script), GoodJ env.maxDepth cur →
      Spec.wtArgs (sigsOf reg) tys args = true →
      ∃ os s' A', ND.evalArgs env root cur args s = (.ok os, s') ∧
        Impl.unpack tys os = .ok (A'.map argObj) ∧
        ArgsEq A' (Spec.argsOf reg root cur tys args)
  | [], [], cur, s, hcur, hwt => by
      exact ⟨[], s, [], by simp only [ND.evalArgs], by simp [Impl.unpack],
        by simp only [Spec.argsOf]; exact .nil⟩
  | [], t :: ts, cur, s, hcur, hwt => by simp [Spec.wtArgs] at hwt
  | e :: es, [], cur, s, hcur, hwt => by simp [Spec.wtArgs] at hwt
  | e :: es, t :: ts, cur, s, hcur, hwt => by
      simp only [Spec.wtArgs, Bool.and_eq_true] at hwt
      cases t with
      | value =>
        obtain ⟨o, s1, ho, hr⟩ := nd_val_ok env reg root C hoi e cur s hcur hwt.1
        obtain ⟨os, s2, A', h1, h2, h3⟩ := nd_args_ok env reg root C hoi es ts cur s1 hcur hwt.2
        refine ⟨o :: os, s2, .value (Spec.valueOf reg root cur e) :: A', ?_, ?_, ?_⟩
        · simp only [ND.evalArgs, ho, h1]
        · simp only [Impl.unpack, h2, List.map_cons, hr.unpack, argObj]; rfl
        · simp only [Spec.argsOf]; exact .cons (ArgEq.value _) h3
      | logical =>
        obtain ⟨o, s1, ho, hr⟩ := nd_test_ok env reg root C hoi e cur s hcur hwt.1
        obtain ⟨os, s2, A', h1, h2, h3⟩ := nd_args_ok env reg root C hoi es ts cur s1 hcur hwt.2
        refine ⟨o :: os, s2, .logical (Spec.testOf reg root cur e) :: A', ?_, ?_, ?_⟩
        · simp only [ND.evalArgs, ho, h1]
        · simp only [Impl.unpack, h2, List.map_cons, hr.unpack, argObj]; rfl
        · simp only [Spec.argsOf]; exact .cons (ArgEq.logical _) h3
      | nodes =>
        obtain ⟨ns, s1, ho, hr⟩ := nd_nodes_ok env reg root C hoi e cur s hcur hwt.1
        obtain ⟨os, s2, A', h1, h2, h3⟩ := nd_args_ok env reg root C hoi es ts cur s1 hcur hwt.2
        refine ⟨.nodes ns :: os, s2, .nodes ns :: A', ?_, ?_, ?_⟩
        · simp only [ND.evalArgs, ho, h1]
        · simp only [Impl.unpack, h2, List.map_cons, argObj, Impl.unpack1]; rfl
        · simp only [Spec.argsOf]; exact .cons (ArgEq.nodes hr) h3
theorem nd_sel_ok (env : Env) (reg : Spec.Registry) (root : Json) (C : Ctx env reg root)
    (hoi : OrderInsensitive reg) :
    ∀ (sel : Selector), Spec.wtSel (sigsOf reg) sel = true → SelOK env reg root sel
  | .name nm, _ => sel_nofilter_ok env reg root _ (by intro e h; cases h)
  | .index i, _ => sel_nofilter_ok env reg root _ (by intro e h; cases h)
  | .slice a b c, _ => sel_nofilter_ok env reg root _ (by intro e h; cases h)
  | .wild, _ => sel_nofilter_ok env reg root _ (by intro e h; cases h)
  | .filter e, hwt => by
      simp only [Spec.wtSel] at hwt
      apply sel_filter_ok
      intro cur hcur s
      obtain ⟨o, s', ho, hr⟩ := nd_test_ok env reg root C hoi e cur s hcur hwt
      exact ⟨o, s', ho, hr.truthy⟩
theorem nd_sels_ok (env : Env) (reg : Spec.Registry) (root : Json) (C : Ctx env reg root)
    (hoi : OrderInsensitive reg) :
    ∀ (sels : List Selector), Spec.wtSels (sigsOf reg) sels = true → SelsOK env reg root sels
  | [], _ => sels_nil_ok env reg root
  | sel :: sels, hwt => by
      simp only [Spec.wtSels, Bool.and_eq_true] at hwt
      exact sels_cons_ok (nd_sel_ok env reg root C hoi sel hwt.1)
        (nd_sels_ok env reg root C hoi sels hwt.2)
theorem nd_segs_ok (env : Env) (reg : Spec.Registry) (root : Json) (C : Ctx env reg root)
    (hoi : OrderInsensitive reg) :
    ∀ (q : List Segment), Spec.wtQuery (sigsOf reg) q = true → SegsOK env reg root q
  | [], _ => segs_nil_ok env reg root
  | .child sels :: q, hwt => by
      simp only [Spec.wtQuery, Spec.wtSeg, Bool.and_eq_true] at hwt
      exact segs_child_ok (nd_sels_ok env reg root C hoi sels hwt.1)
        (nd_segs_ok env reg root C hoi q hwt.2)
  | .desc sels :: q, hwt => by
      simp only [Spec.wtQuery, Spec.wtSeg, Bool.and_eq_true] at hwt
      exact segs_desc_ok (nd_sels_ok env reg root C hoi sels hwt.1)
        (nd_segs_ok env reg root C hoi q hwt.2)
end

/-- C17 with filters, for any conforming registry of order-insensitive functions -/
theorem find_permitted_wt (env : Env) (reg : Spec.Registry) (q : Query) (v : Json) (s : ND.Script)
    (hc : EnvConforms env reg) (hoi : OrderInsensitive reg)
    (hwt : Spec.wtQuery (sigsOf reg) q = true)
    (hw : v.WF) (hd : (v.depth : Int) ≤ env.maxDepth) (h1 : 1 ≤ env.maxDepth) :
    ∃ r, ND.find env q v s = .ok r ∧ r ∈ outcomes reg q v ∧ r.Perm (Spec.select reg q v) := by
  have h := nd_segs_ok env reg v ⟨hc, ⟨hw, hd⟩, h1⟩ hoi q hwt
  have hk := h.1 ⟨[], v⟩ s ⟨hw, hd⟩
  have hq := h.2 ⟨[], v⟩ s ⟨hw, hd⟩
  simp only at hk hq
  refine ⟨(ND.runSegs env v q ⟨[], v⟩ s).nodes, ?_, hq, hk.2⟩
  simp only [ND.find, hk.1]

end JPV.Proofs.Ndf
