/-
`Proofs.Sv.PiBase` (copy of `Sf.PiBase` for the relations of `Sv.Shape`) — the invariant of the Pratt loop used by the parser inversion (`Sf.ParseInv`):
what `parseByHandler` returns (`Prim`), what `filterExprLoop prec` maintains (`LI prec`), and how
these are converted into the layered shape relations of `Sf.Shape`.
-/
import JPV.Proofs.Sf.PiExec
import JPV.Proofs.Sv.Shape
set_option linter.unusedSimpArgs false
set_option linter.unusedVariables false
namespace JPV.Proofs.Sv
open JPV JPV.Impl JPV.Proofs.Rq JPV.Proofs.Cs JPV.Proofs.Ss JPV.Proofs.Sf

variable [SigC]

/-- a primary expression (result of `parseByHandler`) with its tokens `ts` and the following token `x` -/
inductive Prim (x : Token) : Expr → List Token → Prop
  | term (e : Expr) (ts : List Token) : TermD e ts → Prim x e ts
  | paren (lp rp : Token) (e : Expr) (ts : List Token) : lp.kind = .lparen → rp.kind = .rparen →
      OrD e ts → isLiteral e = false → isComparisonTok x.kind = false → Prim x e (lp :: (ts ++ [rp]))
  | neg (n : Token) (e : Expr) (ts : List Token) : n.kind = .not → BasicD (.not e) (n :: ts) →
      Prim x (.not e) (n :: ts)

/-- the invariant of the Pratt loop at precedence `prec`: `left.e = e` was built from the tokens `ts`,
the next token is `x` -/
inductive LI (prec : Nat) (x : Token) : Expr → List Token → Prop
  | prim (e : Expr) (ts : List Token) : Prim x e ts → LI prec x e ts
  | cmp (op : COp) (l r : Expr) (ts : List Token) : prec ≤ 5 → BasicD (.cmp op l r) ts →
      LI prec x (.cmp op l r) ts
  | and (l r : Expr) (ts : List Token) : prec ≤ 4 → AndD (.logical .and l r) ts → x.kind ≠ .and →
      LI prec x (.logical .and l r) ts
  | or (l r : Expr) (ts : List Token) : prec ≤ 3 → OrD (.logical .or l r) ts → binaryOp x.kind = none →
      LI prec x (.logical .or l r) ts

theorem LI.mono {p p' : Nat} {x : Token} {e : Expr} {ts : List Token} (h : LI p x e ts) (hp : p' ≤ p) :
    LI p' x e ts := by
  cases h with
  | prim e ts h => exact .prim e ts h
  | cmp op l r ts h1 h2 => exact .cmp op l r ts (by omega) h2
  | and l r ts h1 h2 h3 => exact .and l r ts (by omega) h2 h3
  | or l r ts h1 h2 h3 => exact .or l r ts (by omega) h2 h3

/-! ### conversions -/

theorem TermD.basic {e : Expr} {ts : List Token} (h : TermD e ts) (hl : isLiteral e = false) : BasicD e ts :=
  .test e ts h hl

theorem Prim.basic {x : Token} {e : Expr} {ts : List Token} (h : Prim x e ts) (hl : isLiteral e = false) :
    BasicD e ts := by
  cases h with
  | term e ts h => exact .test e ts h hl
  | paren lp rp e ts h1 h2 h3 h4 h5 => exact .paren lp rp e ts h1 h2 h3
  | neg n e ts h1 h2 => exact h2

/-- a left operand of `&&` -/
theorem LI.basic_of_and {p : Nat} {o : Token} {e : Expr} {ts : List Token} (h : LI p o e ts)
    (hl : isLiteral e = false) (ho : o.kind = .and) : BasicD e ts := by
  cases h with
  | prim e ts h => exact h.basic hl
  | cmp op l r ts h1 h2 => exact h2
  | and l r ts h1 h2 h3 => exact absurd ho h3
  | or l r ts h1 h2 h3 => rw [ho] at h3; simp [binaryOp] at h3

/-- a left operand of `||` -/
theorem LI.and_of_or {p : Nat} {o : Token} {e : Expr} {ts : List Token} (h : LI p o e ts)
    (hl : isLiteral e = false) (ho : o.kind = .or) : AndD e ts := by
  cases h with
  | prim e ts h => exact .one _ _ (h.basic hl)
  | cmp op l r ts h1 h2 => exact .one _ _ h2
  | and l r ts h1 h2 h3 => exact h2
  | or l r ts h1 h2 h3 => rw [ho] at h3; simp [binaryOp] at h3

/-- a right operand of `&&` -/
theorem LI.and_of_prec {x : Token} {e : Expr} {ts : List Token} (h : LI 4 x e ts)
    (hl : isLiteral e = false) : AndD e ts := by
  cases h with
  | prim e ts h => exact .one _ _ (h.basic hl)
  | cmp op l r ts h1 h2 => exact .one _ _ h2
  | and l r ts h1 h2 h3 => exact h2
  | or l r ts h1 h2 h3 => omega

/-- a non-literal result of the loop is a logical-or-expr -/
theorem LI.or_loose {p : Nat} {x : Token} {e : Expr} {ts : List Token} (h : LI p x e ts)
    (hl : isLiteral e = false) : OrD e ts := by
  cases h with
  | prim e ts h => exact .one _ _ (.one _ _ (h.basic hl))
  | cmp op l r ts h1 h2 => exact .one _ _ (.one _ _ h2)
  | and l r ts h1 h2 h3 => exact .one _ _ h2
  | or l r ts h1 h2 h3 => exact h2

/-- an operand of a comparison -/
theorem LI.term_of_cmp {p : Nat} {x : Token} {e : Expr} {ts : List Token} (h : LI p x e ts)
    (hc : cmpOk e = true)
    (hx : isComparisonTok x.kind = true ∨ ∀ lp ts', ts = lp :: ts' → lp.kind ≠ .lparen) : TermD e ts := by
  cases h with
  | prim e ts h =>
    cases h with
    | term e ts h => exact h
    | paren lp rp e ts h1 h2 h3 h4 h5 =>
      rcases hx with hx | hx
      · rw [hx] at h5; cases h5
      · exact absurd h1 (hx _ _ rfl)
    | neg n e ts h1 h2 => simp [cmpOk] at hc
  | cmp op l r ts h1 h2 => simp [cmpOk] at hc
  | and l r ts h1 h2 h3 => simp [cmpOk] at hc
  | or l r ts h1 h2 h3 => simp [cmpOk] at hc

/-- a function argument -/
theorem LI.arg {p : Nat} {x : Token} {e : Expr} {ts : List Token} (h : LI p x e ts) : ArgD e ts := by
  cases hl : isLiteral e with
  | false => exact .expr _ _ (h.or_loose hl)
  | true =>
    cases e with
    | lit v =>
      cases h with
      | prim e ts h =>
        cases h with
        | term e ts h =>
          cases h with
          | lit t v hv => exact .lit t v hv
        | paren lp rp e ts h1 h2 h3 h4 h5 => simp [isLiteral] at h4
    | _ => simp [isLiteral] at hl

/-- the operand of `!` -/
theorem LI.neg_of_prefix {x : Token} {e : Expr} {ts : List Token} {n c : Token} {ts' : List Token}
    (h : LI 7 x e ts) (hts : ts = c :: ts') (hc : c.kind ≠ .not) (hn : n.kind = .not)
    (hl : isLiteral e = false) : BasicD (.not e) (n :: ts) := by
  cases h with
  | prim e ts h =>
    cases h with
    | term e ts h => exact .notTerm n e ts hn h hl
    | paren lp rp e ts h1 h2 h3 h4 h5 => exact .notParen n lp rp e ts hn h1 h2 h3
    | neg n' e ts h1 h2 =>
      simp only [List.cons.injEq] at hts
      rw [← hts.1] at hc; exact absurd h1 hc
  | cmp op l r ts h1 h2 => omega
  | and l r ts h1 h2 h3 => omega
  | or l r ts h1 h2 h3 => omega

end JPV.Proofs.Sv
