/-
Invariance of the spec-level observers (`abstractSegs`, `cmpShapeSegs`, `cSegs`)
under flag normalisation `normSegs`, and idempotence of `normSegs`.
-/
import JPV.Proofs.Abnf.Norm
import JPV.Spec.Valid
namespace JPV.Spec
open JPV

/-! ### `normFlag` / `normSels` on the shapes that matter -/

theorem normFlag_normSels (sels : List CSelector) (b : Bool) :
    normFlag (normSels sels) (normFlag sels b) = normFlag sels b := by
  match sels with
  | [] => simp [normSels, normFlag]
  | [s] => cases s <;> simp [normSels, normSel, normFlag]
  | s :: t :: ss => cases s <;> simp [normSels, normSel, normFlag]

/-! ### idempotence -/

mutual
theorem normExpr_idem : (e : CExpr) → normExpr (normExpr e) = normExpr e
  | .lit v => by simp [normExpr]
  | .not e => by simp [normExpr, normExpr_idem e]
  | .and l r => by simp [normExpr, normExpr_idem l, normExpr_idem r]
  | .or l r => by simp [normExpr, normExpr_idem l, normExpr_idem r]
  | .cmp op l r => by simp [normExpr, normExpr_idem l, normExpr_idem r]
  | .rel q => by simp [normExpr, normSegs_idem q]
  | .root q => by simp [normExpr, normSegs_idem q]
  | .call f args => by simp [normExpr, normArgs_idem args]
  | .paren e => by simp [normExpr, normExpr_idem e]
theorem normArgs_idem : (as : List CExpr) → normArgs (normArgs as) = normArgs as
  | [] => by simp [normArgs]
  | a :: as => by simp [normArgs, normExpr_idem a, normArgs_idem as]
theorem normSel_idem : (s : CSelector) → normSel (normSel s) = normSel s
  | .filter e => by simp [normSel, normExpr_idem e]
  | .name s => by simp [normSel]
  | .index i => by simp [normSel]
  | .slice a b c => by simp [normSel]
  | .wild => by simp [normSel]
theorem normSels_idem : (ss : List CSelector) → normSels (normSels ss) = normSels ss
  | [] => by simp [normSels]
  | s :: ss => by simp [normSels, normSel_idem s, normSels_idem ss]
theorem normSegs_idem : (c : List CSegment) → normSegs (normSegs c) = normSegs c
  | [] => by simp [normSegs]
  | .child sels b :: rest => by
    simp [normSegs, normSels_idem sels, normSegs_idem rest, normFlag_normSels]
  | .desc sels :: rest => by simp [normSegs, normSels_idem sels, normSegs_idem rest]
end

/-! ### `abstract*` -/

mutual
theorem abstractExpr_normExpr : (e : CExpr) → abstractExpr (normExpr e) = abstractExpr e
  | .lit v => by simp [normExpr]
  | .not e => by simp [normExpr, abstractExpr, abstractExpr_normExpr e]
  | .and l r => by simp [normExpr, abstractExpr, abstractExpr_normExpr l, abstractExpr_normExpr r]
  | .or l r => by simp [normExpr, abstractExpr, abstractExpr_normExpr l, abstractExpr_normExpr r]
  | .cmp op l r => by
    simp [normExpr, abstractExpr, abstractExpr_normExpr l, abstractExpr_normExpr r]
  | .rel q => by simp [normExpr, abstractExpr, abstractSegs_normSegs q]
  | .root q => by simp [normExpr, abstractExpr, abstractSegs_normSegs q]
  | .call f args => by simp [normExpr, abstractExpr, abstractArgs_normArgs args]
  | .paren e => by simp [normExpr, abstractExpr, abstractExpr_normExpr e]
theorem abstractArgs_normArgs : (as : List CExpr) → abstractArgs (normArgs as) = abstractArgs as
  | [] => by simp [normArgs]
  | a :: as => by simp [normArgs, abstractArgs, abstractExpr_normExpr a, abstractArgs_normArgs as]
theorem abstractSel_normSel : (s : CSelector) → abstractSel (normSel s) = abstractSel s
  | .filter e => by simp [normSel, abstractSel, abstractExpr_normExpr e]
  | .name s => by simp [normSel]
  | .index i => by simp [normSel]
  | .slice a b c => by simp [normSel]
  | .wild => by simp [normSel]
theorem abstractSels_normSels : (ss : List CSelector) → abstractSels (normSels ss) = abstractSels ss
  | [] => by simp [normSels]
  | s :: ss => by simp [normSels, abstractSels, abstractSel_normSel s, abstractSels_normSels ss]
theorem abstractSegs_normSegs : (c : List CSegment) → abstractSegs (normSegs c) = abstractSegs c
  | [] => by simp [normSegs]
  | .child sels b :: rest => by
    simp [normSegs, abstractSegs, abstractSels_normSels sels, abstractSegs_normSegs rest]
  | .desc sels :: rest => by
    simp [normSegs, abstractSegs, abstractSels_normSels sels, abstractSegs_normSegs rest]
end

/-! ### `singularSegs` / `operandShape` -/

theorem singularSegs_normSegs : (q : List CSegment) → singularSegs (normSegs q) = singularSegs q
  | [] => by simp [normSegs]
  | .desc sels :: rest => by simp [normSegs, singularSegs]
  | .child [] b :: rest => by simp [normSegs, normSels, singularSegs]
  | .child [.name s] b :: rest => by
    simp [normSegs, normSels, normSel, normFlag, singularSegs, singularSegs_normSegs rest]
  | .child [.index i] b :: rest => by
    simp [normSegs, normSels, normSel, normFlag, singularSegs, singularSegs_normSegs rest]
  | .child [.slice a b' c] b :: rest => by
    simp [normSegs, normSels, normSel, singularSegs]
  | .child [.wild] b :: rest => by
    simp [normSegs, normSels, normSel, singularSegs]
  | .child [.filter e] b :: rest => by
    simp [normSegs, normSels, normSel, singularSegs]
  | .child (s :: t :: ss) b :: rest => by
    simp [normSegs, normSels, singularSegs]

theorem operandShape_normExpr (e : CExpr) : operandShape (normExpr e) = operandShape e := by
  cases e <;> simp [normExpr, operandShape, singularSegs_normSegs]

/-! ### `cmpShape*` -/

mutual
theorem cmpShapeExpr_normExpr : (e : CExpr) → cmpShapeExpr (normExpr e) = cmpShapeExpr e
  | .lit v => by simp [normExpr]
  | .not e => by simp [normExpr, cmpShapeExpr, cmpShapeExpr_normExpr e]
  | .and l r => by simp [normExpr, cmpShapeExpr, cmpShapeExpr_normExpr l, cmpShapeExpr_normExpr r]
  | .or l r => by simp [normExpr, cmpShapeExpr, cmpShapeExpr_normExpr l, cmpShapeExpr_normExpr r]
  | .cmp op l r => by
    simp [normExpr, cmpShapeExpr, cmpShapeExpr_normExpr l, cmpShapeExpr_normExpr r,
      operandShape_normExpr]
  | .rel q => by simp [normExpr, cmpShapeExpr, cmpShapeSegs_normSegs q]
  | .root q => by simp [normExpr, cmpShapeExpr, cmpShapeSegs_normSegs q]
  | .call f args => by simp [normExpr, cmpShapeExpr, cmpShapeArgs_normArgs args]
  | .paren e => by simp [normExpr, cmpShapeExpr, cmpShapeExpr_normExpr e]
theorem cmpShapeArgs_normArgs : (as : List CExpr) → cmpShapeArgs (normArgs as) = cmpShapeArgs as
  | [] => by simp [normArgs]
  | a :: as => by simp [normArgs, cmpShapeArgs, cmpShapeExpr_normExpr a, cmpShapeArgs_normArgs as]
theorem cmpShapeSel_normSel : (s : CSelector) → cmpShapeSel (normSel s) = cmpShapeSel s
  | .filter e => by simp [normSel, cmpShapeSel, cmpShapeExpr_normExpr e]
  | .name s => by simp [normSel]
  | .index i => by simp [normSel]
  | .slice a b c => by simp [normSel]
  | .wild => by simp [normSel]
theorem cmpShapeSels_normSels : (ss : List CSelector) → cmpShapeSels (normSels ss) = cmpShapeSels ss
  | [] => by simp [normSels]
  | s :: ss => by simp [normSels, cmpShapeSels, cmpShapeSel_normSel s, cmpShapeSels_normSels ss]
theorem cmpShapeSegs_normSegs : (c : List CSegment) → cmpShapeSegs (normSegs c) = cmpShapeSegs c
  | [] => by simp [normSegs]
  | .child sels b :: rest => by
    simp [normSegs, cmpShapeSegs, cmpShapeSels_normSels sels, cmpShapeSegs_normSegs rest]
  | .desc sels :: rest => by
    simp [normSegs, cmpShapeSegs, cmpShapeSels_normSels sels, cmpShapeSegs_normSegs rest]
end

/-! ### validity -/

mutual
theorem cTest_normExpr (sg : Sigs) (lo hi : Int) :
    (e : CExpr) → cTest sg lo hi (normExpr e) = cTest sg lo hi e
  | .lit v => by simp [normExpr]
  | .not e => by simp [normExpr, cTest, cTest_normExpr sg lo hi e]
  | .and l r => by simp [normExpr, cTest, cTest_normExpr sg lo hi l, cTest_normExpr sg lo hi r]
  | .or l r => by simp [normExpr, cTest, cTest_normExpr sg lo hi l, cTest_normExpr sg lo hi r]
  | .cmp op l r => by
    simp [normExpr, cTest, cComparable_normExpr sg lo hi l, cComparable_normExpr sg lo hi r]
  | .rel q => by simp [normExpr, cTest, cSegs_normSegs sg lo hi q]
  | .root q => by simp [normExpr, cTest, cSegs_normSegs sg lo hi q]
  | .call f args => by
    simp only [normExpr, cTest]
    cases sg f with
    | none => rfl
    | some s => simp [cArgs_normArgs sg lo hi s.argTypes args]
  | .paren e => by simp [normExpr, cTest, cTest_normExpr sg lo hi e]
theorem cComparable_normExpr (sg : Sigs) (lo hi : Int) :
    (e : CExpr) → cComparable sg lo hi (normExpr e) = cComparable sg lo hi e
  | .lit v => by simp [normExpr]
  | .not e => by simp [normExpr, cComparable]
  | .and l r => by simp [normExpr, cComparable]
  | .or l r => by simp [normExpr, cComparable]
  | .cmp op l r => by simp [normExpr, cComparable]
  | .rel q => by simp [normExpr, cComparable, cSegs_normSegs sg lo hi q, singularSegs_normSegs]
  | .root q => by simp [normExpr, cComparable, cSegs_normSegs sg lo hi q, singularSegs_normSegs]
  | .call f args => by
    simp only [normExpr, cComparable]
    cases sg f with
    | none => rfl
    | some s => simp [cArgs_normArgs sg lo hi s.argTypes args]
  | .paren e => by simp [normExpr, cComparable]
theorem cNodes_normExpr (sg : Sigs) (lo hi : Int) :
    (e : CExpr) → cNodes sg lo hi (normExpr e) = cNodes sg lo hi e
  | .lit v => by simp [normExpr]
  | .not e => by simp [normExpr, cNodes]
  | .and l r => by simp [normExpr, cNodes]
  | .or l r => by simp [normExpr, cNodes]
  | .cmp op l r => by simp [normExpr, cNodes]
  | .rel q => by simp [normExpr, cNodes, cSegs_normSegs sg lo hi q]
  | .root q => by simp [normExpr, cNodes, cSegs_normSegs sg lo hi q]
  | .call f args => by
    simp only [normExpr, cNodes]
    cases sg f with
    | none => rfl
    | some s => simp [cArgs_normArgs sg lo hi s.argTypes args]
  | .paren e => by simp [normExpr, cNodes]
theorem cArgs_normArgs (sg : Sigs) (lo hi : Int) :
    (ts : List Ty) → (es : List CExpr) → cArgs sg lo hi ts (normArgs es) = cArgs sg lo hi ts es
  | [], [] => by simp [normArgs]
  | [], e :: es => by simp [normArgs, cArgs]
  | t :: ts, [] => by simp [normArgs]
  | t :: ts, e :: es => by
    cases t <;>
      simp [normArgs, cArgs, cComparable_normExpr sg lo hi e, cTest_normExpr sg lo hi e,
        cNodes_normExpr sg lo hi e, cArgs_normArgs sg lo hi ts es]
theorem cSel_normSel (sg : Sigs) (lo hi : Int) :
    (s : CSelector) → cSel sg lo hi (normSel s) = cSel sg lo hi s
  | .filter e => by simp [normSel, cSel, cTest_normExpr sg lo hi e]
  | .name s => by simp [normSel]
  | .index i => by simp [normSel]
  | .slice a b c => by simp [normSel]
  | .wild => by simp [normSel]
theorem cSels_normSels (sg : Sigs) (lo hi : Int) :
    (ss : List CSelector) → cSels sg lo hi (normSels ss) = cSels sg lo hi ss
  | [] => by simp [normSels]
  | s :: ss => by simp [normSels, cSels, cSel_normSel sg lo hi s, cSels_normSels sg lo hi ss]
theorem cSegs_normSegs (sg : Sigs) (lo hi : Int) :
    (c : List CSegment) → cSegs sg lo hi (normSegs c) = cSegs sg lo hi c
  | [] => by simp [normSegs]
  | .child sels b :: rest => by
    simp [normSegs, cSegs, cSels_normSels sg lo hi sels, cSegs_normSegs sg lo hi rest]
  | .desc sels :: rest => by
    simp [normSegs, cSegs, cSels_normSels sg lo hi sels, cSegs_normSegs sg lo hi rest]
end

/-! ### congruence corollaries -/

theorem abstractSegs_congr_norm {c c' : List CSegment} (h : normSegs c = normSegs c') :
    abstractSegs c = abstractSegs c' := by
  rw [← abstractSegs_normSegs c, h, abstractSegs_normSegs]

theorem cmpShapeSegs_congr_norm {c c' : List CSegment} (h : normSegs c = normSegs c') :
    cmpShapeSegs c = cmpShapeSegs c' := by
  rw [← cmpShapeSegs_normSegs c, h, cmpShapeSegs_normSegs]

theorem singularSegs_congr_norm {c c' : List CSegment} (h : normSegs c = normSegs c') :
    singularSegs c = singularSegs c' := by
  rw [← singularSegs_normSegs c, h, singularSegs_normSegs]

theorem cSegs_congr_norm (sg : Sigs) (lo hi : Int) {c c' : List CSegment}
    (h : normSegs c = normSegs c') : cSegs sg lo hi c = cSegs sg lo hi c' := by
  rw [← cSegs_normSegs sg lo hi c, h, cSegs_normSegs]

end JPV.Spec
