/-
`Proofs.Cf.LexFSteps` — single-step execution lemmas for the FILTER state (`lexFilter`): blank space,
punctuation and operators handled directly by `lexFilter`, and the `lexSegment` fallback into the
filter state.  All at an arbitrary filter depth `D`, with exact positions.
-/
import JPV.Proofs.Cf.LexSteps
import JPV.Proofs.Cf.LexPSeg
import JPV.Proofs.Cs.LexBasics
namespace JPV.Proofs.Cf
open JPV JPV.Impl JPV.Proofs.Rq

variable {D : Int} {l : Lexer} {pre rest r : List Char} {toks : List Token} {br : List (Char × Nat)}

/-! ### blank space -/





/-! ### parentheses -/

theorem lexFilter_lparen (h : FSt D l pre [] ('(' :: r) toks br) :
    ∃ l', Impl.step .filter l = .ok (l', some .filter) ∧
      FSt D l' (pre ++ ['(']) [] r (⟨.lparen, ['('], pre.length⟩ :: toks) (('(', pre.length) :: br) := by
  have hp : l.peek = some '(' := by rw [h.peek]; rfl
  have hw := h.ws_none (by simp [isWs])
  have h1 := h.adv.emit .lparen
  have hpos : (l.adv.emit .lparen).pos - 1 = pre.length := by rw [h1.pos]; simp
  have h2 := h1.pushBracket '(' ((l.adv.emit .lparen).pos - 1)
  rw [hpos] at h2
  simp only [List.nil_append] at h2
  simp only [Impl.step, lexFilter, hw, Lexer.next_eq, hp, bind, Except.bind, goto, hpos]
  split
  · exact ⟨_, rfl, h2.setFuncStack _⟩
  · exact ⟨_, rfl, h2⟩

theorem lexFilter_rparen {i : Nat} (h : FSt D l pre [] (')' :: r) toks (('(', i) :: br)) :
    ∃ l', Impl.step .filter l = .ok (l', some .filter) ∧
      FSt D l' (pre ++ [')']) [] r (⟨.rparen, [')'], pre.length⟩ :: toks) br := by
  have hp : l.peek = some ')' := by rw [h.peek]; rfl
  have hw := h.ws_none (by simp [isWs])
  have h1 := (h.adv.popBracket).emit .rparen
  simp only [List.nil_append] at h1
  have hb : l.adv.brackets = ('(', i) :: br := h.adv.br
  simp only [Impl.step, lexFilter, hw, Lexer.next_eq, hp, bind, Except.bind, goto, hb]
  split
  · split
    · exact ⟨_, rfl, h1.setFuncStack _⟩
    · exact ⟨_, rfl, h1.setFuncStack _⟩
  · exact ⟨_, rfl, h1⟩

/-! ### operators -/

theorem lexFilter_not (h : FSt D l pre [] ('!' :: r) toks br) (hr : r.head? ≠ some '=') :
    ∃ l', Impl.step .filter l = .ok (l', some .filter) ∧
      FSt D l' (pre ++ ['!']) [] r (⟨.not, ['!'], pre.length⟩ :: toks) br := by
  have hp : l.peek = some '!' := by rw [h.peek]; rfl
  have hp2 : l.adv.peek ≠ some '=' := by rw [h.adv.peek]; exact hr
  have hw := h.ws_none (by simp [isWs])
  have h1 := h.adv.emit .not
  simp only [List.nil_append] at h1
  exact ⟨_, by simp [Impl.step, lexFilter, hw, Lexer.next_eq, hp, hp2, bind, Except.bind, goto], h1⟩

theorem lexFilter_ne (h : FSt D l pre [] ('!' :: '=' :: r) toks br) :
    ∃ l', Impl.step .filter l = .ok (l', some .filter) ∧
      FSt D l' (pre ++ ['!', '=']) [] r (⟨.ne, ['!', '='], pre.length⟩ :: toks) br := by
  have hp : l.peek = some '!' := by rw [h.peek]; rfl
  have hp2 : l.adv.peek = some '=' := by rw [h.adv.peek]; rfl
  have hw := h.ws_none (by simp [isWs])
  have h1 := h.adv.adv.emit .ne
  simp only [List.nil_append, List.cons_append] at h1
  exact ⟨_, by simp [Impl.step, lexFilter, hw, Lexer.next_eq, hp, hp2, bind, Except.bind, goto], h1⟩

theorem lexFilter_eq (h : FSt D l pre [] ('=' :: '=' :: r) toks br) :
    ∃ l', Impl.step .filter l = .ok (l', some .filter) ∧
      FSt D l' (pre ++ ['=', '=']) [] r (⟨.eq, ['=', '='], pre.length⟩ :: toks) br := by
  have hp : l.peek = some '=' := by rw [h.peek]; rfl
  have hp2 : l.adv.peek = some '=' := by rw [h.adv.peek]; rfl
  have hw := h.ws_none (by simp [isWs])
  have h1 := h.adv.adv.emit .eq
  simp only [List.nil_append, List.cons_append] at h1
  exact ⟨_, by simp [Impl.step, lexFilter, hw, Lexer.next_eq, hp, hp2, bind, Except.bind, goto], h1⟩

theorem lexFilter_le (h : FSt D l pre [] ('<' :: '=' :: r) toks br) :
    ∃ l', Impl.step .filter l = .ok (l', some .filter) ∧
      FSt D l' (pre ++ ['<', '=']) [] r (⟨.le, ['<', '='], pre.length⟩ :: toks) br := by
  have hp : l.peek = some '<' := by rw [h.peek]; rfl
  have hp2 : l.adv.peek = some '=' := by rw [h.adv.peek]; rfl
  have hw := h.ws_none (by simp [isWs])
  have h1 := h.adv.adv.emit .le
  simp only [List.nil_append, List.cons_append] at h1
  exact ⟨_, by simp [Impl.step, lexFilter, hw, Lexer.next_eq, hp, hp2, bind, Except.bind, goto], h1⟩

theorem lexFilter_lt (h : FSt D l pre [] ('<' :: r) toks br) (hr : r.head? ≠ some '=') :
    ∃ l', Impl.step .filter l = .ok (l', some .filter) ∧
      FSt D l' (pre ++ ['<']) [] r (⟨.lt, ['<'], pre.length⟩ :: toks) br := by
  have hp : l.peek = some '<' := by rw [h.peek]; rfl
  have hp2 : l.adv.peek ≠ some '=' := by rw [h.adv.peek]; exact hr
  have hw := h.ws_none (by simp [isWs])
  have h1 := h.adv.emit .lt
  simp only [List.nil_append] at h1
  exact ⟨_, by simp [Impl.step, lexFilter, hw, Lexer.next_eq, hp, hp2, bind, Except.bind, goto], h1⟩

theorem lexFilter_ge (h : FSt D l pre [] ('>' :: '=' :: r) toks br) :
    ∃ l', Impl.step .filter l = .ok (l', some .filter) ∧
      FSt D l' (pre ++ ['>', '=']) [] r (⟨.ge, ['>', '='], pre.length⟩ :: toks) br := by
  have hp : l.peek = some '>' := by rw [h.peek]; rfl
  have hp2 : l.adv.peek = some '=' := by rw [h.adv.peek]; rfl
  have hw := h.ws_none (by simp [isWs])
  have h1 := h.adv.adv.emit .ge
  simp only [List.nil_append, List.cons_append] at h1
  exact ⟨_, by simp [Impl.step, lexFilter, hw, Lexer.next_eq, hp, hp2, bind, Except.bind, goto], h1⟩

theorem lexFilter_gt (h : FSt D l pre [] ('>' :: r) toks br) (hr : r.head? ≠ some '=') :
    ∃ l', Impl.step .filter l = .ok (l', some .filter) ∧
      FSt D l' (pre ++ ['>']) [] r (⟨.gt, ['>'], pre.length⟩ :: toks) br := by
  have hp : l.peek = some '>' := by rw [h.peek]; rfl
  have hp2 : l.adv.peek ≠ some '=' := by rw [h.adv.peek]; exact hr
  have hw := h.ws_none (by simp [isWs])
  have h1 := h.adv.emit .gt
  simp only [List.nil_append] at h1
  exact ⟨_, by simp [Impl.step, lexFilter, hw, Lexer.next_eq, hp, hp2, bind, Except.bind, goto], h1⟩

/-! ### query starts -/

theorem lexFilter_root (h : FSt D l pre [] ('$' :: r) toks br) :
    ∃ l', Impl.step .filter l = .ok (l', some .segment) ∧
      FSt D l' (pre ++ ['$']) [] r (⟨.root, ['$'], pre.length⟩ :: toks) br := by
  have hp : l.peek = some '$' := by rw [h.peek]; rfl
  have hw := h.ws_none (by simp [isWs])
  have h1 := h.adv.emit .root
  simp only [List.nil_append] at h1
  exact ⟨_, by simp [Impl.step, lexFilter, hw, Lexer.next_eq, hp, bind, Except.bind, goto], h1⟩

theorem lexFilter_current (h : FSt D l pre [] ('@' :: r) toks br) :
    ∃ l', Impl.step .filter l = .ok (l', some .segment) ∧
      FSt D l' (pre ++ ['@']) [] r (⟨.current, ['@'], pre.length⟩ :: toks) br := by
  have hp : l.peek = some '@' := by rw [h.peek]; rfl
  have hw := h.ws_none (by simp [isWs])
  have h1 := h.adv.emit .current
  simp only [List.nil_append] at h1
  exact ⟨_, by simp [Impl.step, lexFilter, hw, Lexer.next_eq, hp, bind, Except.bind, goto], h1⟩

/-! ### commas and the end of the filter -/

/-- a comma between function arguments -/
theorem lexFilter_comma_paren {i : Nat} {br' : List (Char × Nat)}
    (h : FSt D l pre [] (',' :: r) toks (('(', i) :: br')) :
    ∃ l', Impl.step .filter l = .ok (l', some .filter) ∧
      FSt D l' (pre ++ [',']) [] r (⟨.comma, [','], pre.length⟩ :: toks) (('(', i) :: br') := by
  have hp : l.peek = some ',' := by rw [h.peek]; rfl
  have hw := h.ws_none (by simp [isWs])
  have h1 := h.adv.emit .comma
  simp only [List.nil_append] at h1
  have hb : (l.adv.emit .comma).brackets = ('(', i) :: br' := h1.br
  exact ⟨_, by simp [Impl.step, lexFilter, hw, Lexer.next_eq, hp, bind, Except.bind, goto, hb], h1⟩

/-- a comma that ends the filter selector (the innermost open bracket is not a parenthesis) -/
theorem lexFilter_comma_end (h : FSt D l pre [] (',' :: r) toks br)
    (hbr : ∀ i br', br ≠ ('(', i) :: br') :
    ∃ l', Impl.step .filter l = .ok (l', some .bracketed) ∧
      FSt (D - 1) l' (pre ++ [',']) [] r (⟨.comma, [','], pre.length⟩ :: toks) br := by
  have hp : l.peek = some ',' := by rw [h.peek]; rfl
  have hw := h.ws_none (by simp [isWs])
  have h1 := h.adv.emit .comma
  simp only [List.nil_append] at h1
  have hb : (l.adv.emit .comma).brackets = br := h1.br
  have hfd : (l.adv.emit .comma).filterDepth = D := h1.fd
  have h2 := h1.setDepth (D - 1)
  simp only [Impl.step, lexFilter, hw, Lexer.next_eq, hp, bind, Except.bind, goto]
  split
  · rename_i i br' heq
    rw [hb] at heq
    exact absurd heq (hbr i br')
  · rw [hfd]
    exact ⟨_, rfl, h2⟩

/-- the same with the two shapes of `br` spelled out -/
theorem lexFilter_comma_end' (h : FSt D l pre [] (',' :: r) toks br)
    (hbr : br = [] ∨ ∃ c i br', br = (c, i) :: br' ∧ c ≠ '(') :
    ∃ l', Impl.step .filter l = .ok (l', some .bracketed) ∧
      FSt (D - 1) l' (pre ++ [',']) [] r (⟨.comma, [','], pre.length⟩ :: toks) br := by
  refine lexFilter_comma_end h ?_
  intro i br' e
  rcases hbr with rfl | ⟨c, j, br'', rfl, hc⟩
  · cases e
  · injection e with e1 _
    injection e1 with e2 _
    exact hc e2

/-- `]` ends the filter: no token, the depth drops, the bracketed state sees the `]` again -/
theorem lexFilter_rbracket (h : FSt D l pre [] (']' :: r) toks br) :
    ∃ l', Impl.step .filter l = .ok (l', some .bracketed) ∧
      FSt (D - 1) l' pre [] (']' :: r) toks br := by
  have hp : l.peek = some ']' := by rw [h.peek]; rfl
  have hw := h.ws_none (by simp [isWs])
  have hfd : l.adv.filterDepth = D := h.adv.fd
  obtain ⟨l1, hb, h1⟩ := (h.adv.setDepth (D - 1)).backup
  refine ⟨l1, ?_, h1⟩
  simp only [Impl.step, lexFilter, hw, Lexer.next_eq, hp, bind, Except.bind, goto, hfd]
  rw [hb]

/-! ### string starts -/

theorem lexFilter_quote (h : FSt D l pre [] ('\'' :: r) toks br) :
    Impl.step .filter l = .ok (l.adv, some (.strStart '\'' true)) := by
  have hp : l.peek = some '\'' := by rw [h.peek]; rfl
  have hw := h.ws_none (by simp [isWs])
  simp [Impl.step, lexFilter, hw, Lexer.next_eq, hp, goto, bind, Except.bind]

theorem lexFilter_dquote (h : FSt D l pre [] ('"' :: r) toks br) :
    Impl.step .filter l = .ok (l.adv, some (.strStart '"' true)) := by
  have hp : l.peek = some '"' := by rw [h.peek]; rfl
  have hw := h.ws_none (by simp [isWs])
  simp [Impl.step, lexFilter, hw, Lexer.next_eq, hp, goto, bind, Except.bind]


/-! ### `lexSegment` falls back into the filter state -/


end JPV.Proofs.Cf
