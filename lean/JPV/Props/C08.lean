/-
C08 — Nodes carry exact locations and canonical, re-queryable normalized paths.

Property text: "For every node returned by any query on any JSON value: following
node.location key by key from the root reaches the very object held in
node.value; node.path() is the unique RFC 9535 normalized path of that location
(single-quoted names with only the mandated escapes, non-negative indices); and
evaluating that path as a query on the same value returns exactly that one node.
values(), paths() and items() of a nodelist agree with its nodes."

Proved here: the location invariant for every query (typed or not, finished or
cut short by an exception), for every well-formed document; `path()` =
the RFC normalized path, for every location over every Unicode scalar value;
uniqueness of normalized paths (an inverse `Spec.readNormalized`).
Object *identity* ("the very object") is a fact about Python references; the
harness checks `is` on the real objects.  The re-query clause is
`C08_path_compiles` + `C08_requery`: the implementation's own lexer and parser
accept `path()` of any location and the resulting query returns exactly that node.
-/
import JPV.Impl.Serialize
import JPV.Spec.NormalizedPath
import JPV.Proofs.Paths
import JPV.Proofs.Requery
namespace JPV.Props
open JPV

/-- every node any query yields is where it says it is -/
def C08_loc_statement : Prop :=
  ∀ (env : Impl.Env) (q : Query) (v : Json), v.WF →
    ∀ n ∈ (Impl.finditer env q v).1, Json.getAt v n.loc = some n.val

theorem C08_loc : C08_loc_statement := Proofs.finditer_locations

/-- … and every index in a location is non-negative -/
theorem C08_loc_nonneg (env : Impl.Env) (q : Query) (v : Json) :
    ∀ n ∈ (Impl.finditer env q v).1, ∀ k ∈ n.loc, ∀ i, k = .idx i → 0 ≤ i :=
  Proofs.finditer_idx_nonneg env q v

/-- `canonical_string` (json.dumps + two `str.replace`) is the RFC normal-name-selector,
for every string over every Unicode scalar value -/
def C08_canonical_statement : Prop := ∀ s : Str, Impl.canonicalString s = Spec.normalName s

theorem C08_canonical : C08_canonical_statement := Proofs.canonicalString_normal

/-- `path()` is the RFC normalized path -/
theorem C08_path_normal (loc : Loc) (h : ∀ k ∈ loc, ∀ i, k = .idx i → 0 ≤ i) :
    Impl.path loc = Spec.normalizedPath loc := Proofs.path_normal loc h

/-- normalized paths are unique: the location can be read back -/
theorem C08_unique (l1 l2 : Loc) (h1 : ∀ k ∈ l1, ∀ i, k = .idx i → 0 ≤ i) (h2 : ∀ k ∈ l2, ∀ i, k = .idx i → 0 ≤ i)
    (h : Spec.normalizedPath l1 = Spec.normalizedPath l2) : l1 = l2 := Proofs.normalizedPath_injective l1 l2 h1 h2 h

/-- Re-query, through the implementation's OWN lexer and parser: the normalized path of any location
(member names over every Unicode scalar value, non-negative indices within the environment's range)
compiles, and compiles to the singular query that walks that location … -/
theorem C08_path_compiles (env : Impl.Env) (loc : Loc)
    (h : ∀ k ∈ loc, ∀ i, k = .idx i → 0 ≤ i ∧ env.minIdx ≤ i ∧ i ≤ env.maxIdx) :
    Impl.compile env (Impl.path loc) = .ok (Proofs.queryOfLoc loc) := Proofs.path_compiles env loc h

/-- … and evaluating it on a value in which the location exists returns exactly that one node. -/
theorem C08_requery (env : Impl.Env) (v val : Json) (loc : Loc) (hwf : v.WF)
    (hg : Json.getAt v loc = some val) (h : ∀ k ∈ loc, ∀ i, k = .idx i → 0 ≤ i) :
    Impl.find env (Proofs.queryOfLoc loc) v = .ok [⟨loc, val⟩] := Proofs.requery env v val loc hwf hg h

example : Impl.path [.name "a'\\\n\u0000é😀\"".toList, .idx 3] = "$['a\\'\\\\\\n\\u0000é😀\"'][3]".toList := by
  decide +kernel

end JPV.Props
