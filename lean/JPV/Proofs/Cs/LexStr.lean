/-
`Proofs.Cs.LexStr` — a string literal of the grammar is one string token of the lexer whose decoding
is the grammar's value.
-/
import JPV.Proofs.Cs.LexBrk
import JPV.Proofs.Strings
namespace JPV.Proofs.Cs
open JPV JPV.Impl JPV.Proofs.Rq

/-- what `scanString` accepts is a `Scanned` text followed by the quote -/
theorem scanned_of_scan (q : Char) : ∀ (n : Nat) (inp tok rest : List Char), inp.length ≤ n →
    scanString q inp = some (tok, rest) → Scanned q tok ∧ inp = tok ++ q :: rest := by
  intro n
  induction n with
  | zero =>
    intro inp tok rest hl h
    cases inp with
    | nil => simp [scanString] at h
    | cons _ _ => simp at hl
  | succ n ih =>
    intro inp tok rest hl h
    rcases StrAux.scan_inv q h with ⟨rfl, rfl, _⟩ | ⟨p, r, t, rfl, hp, hs, rfl⟩ | ⟨c, r, t, rfl, h1, h2, hs, rfl⟩
    · exact ⟨.nil, rfl⟩
    · obtain ⟨h3, h4⟩ := ih r t rest (by simp at hl; omega) hs
      exact ⟨.esc p t (by simpa using hp) h3, by rw [h4]; rfl⟩
    · obtain ⟨h3, h4⟩ := ih r t rest (by simp at hl; omega) hs
      exact ⟨.plain c t h1 h2 h3, by rw [h4]; rfl⟩

/-- the grammar's string body, read by the lexer and decoded by the parser -/
theorem stringBody_scan {q : Char} (hq : q = '\'' ∨ q = '"') {inp : List Char} {s : Str} {r : List Char}
    (h : Spec.stringBody q (inp.length + 1) inp [] = some (s, r)) :
    ∃ body, Scanned q body ∧ inp = body ++ q :: r ∧ decodeStringLiteral (strKind q) body = .ok s := by
  rw [← string_literal_correct q hq inp] at h
  unfold implString' at h
  cases hs : scanString q inp with
  | none => simp [hs] at h
  | some res =>
    obtain ⟨tok, rest⟩ := res
    simp only [hs] at h
    have hk : quoteKind' q = strKind q := rfl
    rw [hk] at h
    cases hd : decodeStringLiteral (strKind q) tok with
    | error e => simp [hd] at h
    | ok s' =>
      simp only [hd, Option.some.injEq, Prod.mk.injEq] at h
      obtain ⟨rfl, rfl⟩ := h
      obtain ⟨h1, h2⟩ := scanned_of_scan q _ inp tok rest (Nat.le_refl _) hs
      exact ⟨tok, h1, h2, hd⟩

theorem BL_str {inp r : List Char} {s : Str} (h : Spec.stringLiteral (Spec.skipS inp) = some (s, r)) :
    BL inp (fun ts => ∃ q body k, (q = '\'' ∨ q = '"') ∧ decodeStringLiteral (strKind q) body = .ok s ∧
      ts = [⟨strKind q, body, k⟩]) r := by
  intro l toks br hs
  obtain ⟨l1, pre', h1, hst⟩ := hs.step_bracketed
  unfold Spec.stringLiteral at h
  split at h
  · rename_i r0 heq
    rw [heq] at h1
    obtain ⟨body, hsc, e, hd⟩ := stringBody_scan (.inr rfl) h
    subst e
    have s1 := lexBracketed_dquote h1
    have h2 := h1.adv
    have s3 := lexStrStart_exec (q := '"') (f := false) h2 (by simp)
    have h3 := h2.ignore
    obtain ⟨l4, r4, h4⟩ := strLoop_walk (f := false) (by decide) hsc _ _ h3
    simp only [retState, List.nil_append] at r4 h4
    exact ⟨l4, [_], .step (hst.trans s1) (.step s3 r4), .of_St (by simpa using h4), '"', body, _, .inr rfl, hd, rfl⟩
  · rename_i r0 heq
    rw [heq] at h1
    obtain ⟨body, hsc, e, hd⟩ := stringBody_scan (.inl rfl) h
    subst e
    have s1 := lexBracketed_quote h1
    have h2 := h1.adv
    have s3 := lexStrStart_exec (q := '\'') (f := false) h2 (by simp)
    have h3 := h2.ignore
    obtain ⟨l4, r4, h4⟩ := strLoop_walk (f := false) (by decide) hsc _ _ h3
    simp only [retState, List.nil_append] at r4 h4
    exact ⟨l4, [_], .step (hst.trans s1) (.step s3 r4), .of_St (by simpa using h4), '\'', body, _, .inl rfl, hd, rfl⟩
  · simp at h

end JPV.Proofs.Cs
