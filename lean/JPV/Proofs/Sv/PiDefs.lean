/-
`Proofs.Sv.PiDefs` (copy of `Sf.PiDefs` for the relations of `Sv.Shape`) — the inversion statement of every function of the parser's mutual block at a
given fuel, bundled in `PInv env fuel` (proved by induction on the fuel in `Sf.ParseInv`).
-/
import JPV.Proofs.Sf.PiDefs
import JPV.Proofs.Sv.PiBase
set_option linter.unusedSimpArgs false
set_option linter.unusedVariables false
namespace JPV.Proofs.Sv
open JPV JPV.Impl JPV.Proofs.Rq JPV.Proofs.Cs JPV.Proofs.Ss JPV.Proofs.Sf

/-- the indices (counted from `k`) of the set flags: what `functionArgs` appends to `parens` -/
def flagIdx : Nat → List Bool → List Nat
  | _, [] => []
  | k, b :: bs => (if b then [k] else []) ++ flagIdx (k + 1) bs

variable [SigC]

def QueryInv (env : Env) (f : Nat) : Prop :=
  ∀ (b : Bool) (acc : List Segment) (c : Token) (rest : List Token) (st' : TStream) (r : List Segment),
    EndsEof (c :: rest) → exec (parseQuery env b f acc) ⟨c, [], rest⟩ = (.ok r, st') →
    ∃ segs ts x more, r = acc ++ segs ∧ c :: rest = ts ++ x :: more ∧ SegsD segs ts ∧
      st' = (if b = true then ⟨x, [x], more⟩ else ⟨x, [], more⟩) ∧ EndsEof (x :: more)

def SelectorsInv (env : Env) (f : Nat) : Prop :=
  ∀ (c : Token) (rest : List Token) (sels : List Selector) (st' : TStream),
    EndsEof (c :: rest) → exec (parseSelectors env f) ⟨c, [], rest⟩ = (.ok sels, st') →
    (c.kind = .property ∧ sels = [.name c.value] ∧ st' = ⟨c, [], rest⟩) ∨
    (c.kind = .wild ∧ sels = [.wild] ∧ st' = ⟨c, [], rest⟩) ∨
    (c.kind = .lbracket ∧ ∃ ts rb more, rest = ts ++ rb :: more ∧
      rb.kind = .rbracket ∧ st' = ⟨rb, [], more⟩ ∧ EndsEof (rb :: more) ∧ SelsD sels ts) ∨
    (c.kind ≠ .property ∧ c.kind ≠ .wild ∧ c.kind ≠ .lbracket ∧ sels = [] ∧ st' = ⟨c, [], rest⟩)

def BracketedInv (env : Env) (f : Nat) : Prop :=
  ∀ (o : Token) (acc : List Selector) (c : Token) (rest : List Token) (st' : TStream) (r : List Selector),
    EndsEof (c :: rest) → exec (parseBracketed env o f acc) ⟨c, [], rest⟩ = (.ok r, st') →
    ∃ sels ts rb more, r = acc ++ sels ∧ c :: rest = ts ++ rb :: more ∧ rb.kind = .rbracket ∧
      st' = ⟨rb, [], more⟩ ∧ EndsEof (rb :: more) ∧
      (c.kind = .rbracket → sels = [] ∧ ts = [] ∧ acc ≠ []) ∧
      (c.kind ≠ .rbracket → ∃ s ss t1 t2, sels = s :: ss ∧ ts = t1 ++ t2 ∧ SelD s t1 ∧ MoreSelsD ss t2)

def FilterSelInv (env : Env) (f : Nat) : Prop :=
  ∀ (c : Token) (rest : List Token) (st' : TStream) (sel : Selector),
    EndsEof (c :: rest) → c.kind = .filter →
    exec (parseFilterSelector env f) ⟨c, [], rest⟩ = (.ok sel, st') →
    ∃ e ts x more, sel = .filter e ∧ rest = ts ++ x :: more ∧ OrD e ts ∧ Ready x more st' ∧
      EndsEof (x :: more)

def ByHandlerInv (env : Env) (f : Nat) : Prop :=
  ∀ (h : Handler) (c : Token) (rest : List Token) (st' : TStream) (p : PExpr),
    EndsEof (c :: rest) → tokenMap c.kind = some h →
    exec (parseByHandler env h f) ⟨c, [], rest⟩ = (.ok p, st') →
    ∃ ts x more, rest = ts ++ x :: more ∧ Ready x more st' ∧ EndsEof (x :: more) ∧ Prim x p.e (c :: ts)

def FilterExprInv (env : Env) (f : Nat) : Prop :=
  ∀ (prec : Nat) (c : Token) (rest : List Token) (st' : TStream) (p : PExpr),
    EndsEof (c :: rest) → exec (parseFilterExpr env prec f) ⟨c, [], rest⟩ = (.ok p, st') →
    ∃ ts x more, rest = ts ++ x :: more ∧ Ready x more st' ∧ EndsEof (x :: more) ∧
      LI prec x p.e (c :: ts) ∧ Stop prec x

def ExprLoopInv (env : Env) (f : Nat) : Prop :=
  ∀ (prec : Nat) (left : PExpr) (tl : List Token) (x : Token) (more : List Token) (st st' : TStream)
    (p : PExpr), Ready x more st → EndsEof (x :: more) → LI prec x left.e tl →
    exec (filterExprLoop env prec f left) st = (.ok p, st') →
    ∃ ts y more', x :: more = ts ++ y :: more' ∧ Ready y more' st' ∧ EndsEof (y :: more') ∧
      LI prec y p.e (tl ++ ts) ∧ Stop prec y

def InfixInv (env : Env) (f : Nat) : Prop :=
  ∀ (q : Nat) (left : PExpr) (tl : List Token) (o : Token) (rest : List Token) (st' : TStream) (p : PExpr),
    EndsEof (o :: rest) → LI q o left.e tl →
    exec (parseInfix env left f) ⟨o, [], rest⟩ = (.ok p, st') →
    ∃ ts x more, rest = ts ++ x :: more ∧ Ready x more st' ∧ EndsEof (x :: more) ∧
      LI (precedence o.kind) x p.e (tl ++ o :: ts)

def PrefixInv (env : Env) (f : Nat) : Prop :=
  ∀ (n : Token) (rest : List Token) (st' : TStream) (p : PExpr),
    EndsEof (n :: rest) → n.kind = .not → exec (parsePrefix env f) ⟨n, [], rest⟩ = (.ok p, st') →
    ∃ ts x more, rest = ts ++ x :: more ∧ Ready x more st' ∧ EndsEof (x :: more) ∧ Prim x p.e (n :: ts)

def GroupedInv (env : Env) (f : Nat) : Prop :=
  ∀ (lp : Token) (rest : List Token) (st' : TStream) (p : PExpr),
    EndsEof (lp :: rest) → lp.kind = .lparen → exec (parseGrouped env f) ⟨lp, [], rest⟩ = (.ok p, st') →
    ∃ ts x more, rest = ts ++ x :: more ∧ Ready x more st' ∧ EndsEof (x :: more) ∧ Prim x p.e (lp :: ts)

def FunctionInv (env : Env) (f : Nat) : Prop :=
  ∀ (t : Token) (rest : List Token) (st' : TStream) (p : PExpr),
    EndsEof (t :: rest) → t.kind = .function → exec (parseFunction env f) ⟨t, [], rest⟩ = (.ok p, st') →
    ∃ ts x more, rest = ts ++ x :: more ∧ Ready x more st' ∧ EndsEof (x :: more) ∧ Prim x p.e (t :: ts)

def ArgsInv (env : Env) (f : Nat) : Prop :=
  ∀ (args : List Expr) (parens : List Nat) (c : Token) (rest : List Token) (st' : TStream)
    (r : List Expr × List Nat),
    EndsEof (c :: rest) → exec (functionArgs env f args parens) ⟨c, [], rest⟩ = (.ok r, st') →
    ∃ as bs ts rp more, r.1 = args ++ as ∧ r.2 = parens ++ flagIdx args.length bs ∧
      c :: rest = ts ++ rp :: more ∧ rp.kind = .rparen ∧
      st' = ⟨rp, [], more⟩ ∧ EndsEof (rp :: more) ∧
      (c.kind = .rparen → as = [] ∧ bs = [] ∧ ts = []) ∧
      (c.kind ≠ .rparen → ∃ a as' bs' t1 t2, as = a :: as' ∧ bs = startsLp t1 :: bs' ∧ ts = t1 ++ t2 ∧
        ArgD a t1 ∧ MoreArgsD as' bs' t2)

def ArgInfixInv (env : Env) (f : Nat) : Prop :=
  ∀ (left : PExpr) (tl : List Token) (x : Token) (more : List Token) (st st' : TStream) (p : PExpr),
    Ready x more st → EndsEof (x :: more) → LI 0 x left.e tl →
    exec (functionArgInfix env f left) st = (.ok p, st') →
    ∃ ts y more', x :: more = ts ++ y :: more' ∧ Ready y more' st' ∧ EndsEof (y :: more') ∧
      LI 0 y p.e (tl ++ ts) ∧ binaryOp y.kind = none

structure PInv (env : Env) (f : Nat) : Prop where
  query : QueryInv env f
  selectors : SelectorsInv env f
  bracketed : BracketedInv env f
  filterSel : FilterSelInv env f
  byHandler : ByHandlerInv env f
  filterExpr : FilterExprInv env f
  exprLoop : ExprLoopInv env f
  infx : InfixInv env f
  pref : PrefixInv env f
  grouped : GroupedInv env f
  function : FunctionInv env f
  args : ArgsInv env f
  argInfix : ArgInfixInv env f

theorem PInv.zero (env : Env) : PInv env 0 := by
  refine ⟨?_, ?_, ?_, ?_, ?_, ?_, ?_, ?_, ?_, ?_, ?_, ?_, ?_⟩
  · intro b acc c rest st' r _ h; rw [parseQuery] at h; exact absurd h outOfFuel_ne_ok
  · intro c rest sels st' _ h; rw [parseSelectors] at h; exact absurd h outOfFuel_ne_ok
  · intro o acc c rest st' r _ h; rw [parseBracketed] at h; exact absurd h outOfFuel_ne_ok
  · intro c rest st' sel _ _ h; rw [parseFilterSelector] at h; exact absurd h outOfFuel_ne_ok
  · intro hd c rest st' p _ _ h; rw [parseByHandler] at h; exact absurd h outOfFuel_ne_ok
  · intro prec c rest st' p _ h; rw [parseFilterExpr] at h; exact absurd h outOfFuel_ne_ok
  · intro prec left tl x more st st' p _ _ _ h; rw [filterExprLoop] at h; exact absurd h outOfFuel_ne_ok
  · intro q left tl o rest st' p _ _ h; rw [parseInfix] at h; exact absurd h outOfFuel_ne_ok
  · intro n rest st' p _ _ h; rw [parsePrefix] at h; exact absurd h outOfFuel_ne_ok
  · intro n rest st' p _ _ h; rw [parseGrouped] at h; exact absurd h outOfFuel_ne_ok
  · intro n rest st' p _ _ h; rw [parseFunction] at h; exact absurd h outOfFuel_ne_ok
  · intro args parens c rest st' r _ h; rw [functionArgs] at h; exact absurd h outOfFuel_ne_ok
  · intro left tl x more st st' p _ _ _ h; rw [functionArgInfix] at h; exact absurd h outOfFuel_ne_ok

end JPV.Proofs.Sv
