import JPV.Proofs.NonDetEval
/-
Lemmas for `Proofs/NonDetDepth.lean`: the nondeterministic descendant traversal
ends in `.recursion` for every choice script when the value is nested deeper than
the limit, and never ends in `.fuel` (fuel = size + 1 suffices), whatever the depth.
-/
namespace JPV.Proofs.NDd
open JPV JPV.Impl JPV.Proofs.NDp

/-! ### the deepest child -/

theorem depthArr_attained (xs : List Json) :
    1 ≤ Json.depthArr xs → ∃ x ∈ xs, x.depth = Json.depthArr xs := by
  induction xs with
  | nil => rw [depthArr_nil]; intro h; omega
  | cons x xs ih =>
    rw [depthArr_cons]
    intro h
    by_cases hx : Json.depthArr xs ≤ x.depth
    · exact ⟨x, List.mem_cons_self, by omega⟩
    · obtain ⟨y, hy, hyd⟩ := ih (by omega)
      exact ⟨y, List.mem_cons_of_mem _ hy, by omega⟩

theorem depthObj_attained (kvs : List (Str × Json)) :
    1 ≤ Json.depthObj kvs → ∃ p ∈ kvs, p.2.depth = Json.depthObj kvs := by
  induction kvs with
  | nil => rw [depthObj_nil]; intro h; omega
  | cons p rest ih =>
    obtain ⟨k, x⟩ := p
    rw [depthObj_cons]
    intro h
    by_cases hx : Json.depthObj rest ≤ x.depth
    · exact ⟨(k, x), List.mem_cons_self, by simp only; omega⟩
    · obtain ⟨y, hy, hyd⟩ := ih (by omega)
      exact ⟨y, List.mem_cons_of_mem _ hy, by omega⟩

theorem kids_attained (j : Json) (h : 2 ≤ j.depth) : ∃ c ∈ kids j, c.depth + 1 = j.depth := by
  cases j with
  | arr xs =>
    rw [depth_arr] at h ⊢
    obtain ⟨x, hx, hxd⟩ := depthArr_attained xs (by omega)
    exact ⟨x, hx, by omega⟩
  | obj kvs =>
    rw [depth_obj] at h ⊢
    obtain ⟨p, hp, hpd⟩ := depthObj_attained kvs (by omega)
    exact ⟨p.2, List.mem_map.2 ⟨p, hp, rfl⟩, by omega⟩
  | _ => simp [Json.depth] at h

theorem children_vals (n : Node) : (Spec.children n).map (fun c => c.val) = kids n.val := by
  obtain ⟨loc, v⟩ := n
  cases v with
  | arr xs =>
    simp only [Spec.children, Spec.arrChildren, List.map_map, kids]
    have : ((fun c : Node => c.val) ∘
        fun p : Nat × Json => Spec.child ⟨loc, .arr xs⟩ (Key.idx (p.1 : Int)) p.2) = Prod.snd := by
      funext p; rfl
    rw [this, List.map_snd_zip]
    simp
  | obj kvs =>
    simp only [Spec.children, List.map_map, kids]
    rfl
  | _ => simp [Spec.children, kids]

theorem container_of_depth_pos {v : Json} (h : 1 ≤ v.depth) : v.isContainer = true := by
  cases hc : v.isContainer with
  | true => rfl
  | false => have := depth_of_scalar hc; omega

theorem exists_deep_child (n : Node) (h : 2 ≤ n.val.depth) :
    ∃ c ∈ Spec.children n, c.val.depth + 1 = n.val.depth ∧ c.val.isContainer = true := by
  obtain ⟨x, hx, hxd⟩ := kids_attained n.val h
  rw [← children_vals n] at hx
  obtain ⟨c, hc, rfl⟩ := List.mem_map.1 hx
  exact ⟨c, hc, hxd, container_of_depth_pos (by omega)⟩

/-! ### invariants -/

/-- a queue entry that carries a too-deep path: a container whose tag + own depth exceeds the limit -/
def Deep (mx : Int) (e : Node × Nat) : Prop :=
  e.1.val.isContainer = true ∧ mx < (e.2 : Int) + (e.1.val.depth : Int)

/-- the continuation fails with `.recursion` only -/
def KRec (k : Node → ND.Script → ND.Out) : Prop :=
  ∀ n s, (k n s).err = none ∨ (k n s).err = some .recursion

theorem KRec.of_some {k : Node → ND.Script → ND.Out} (hk : KRec k) {n : Node} {s : ND.Script}
    {e : ErrKind} (h : (k n s).err = some e) : e = .recursion := by
  rcases hk n s with h' | h'
  · rw [h] at h'; cases h'
  · rw [h] at h'; cases h'; rfl

theorem Deep.child {mx : Int} {m : Node} {d : Nat} (h : Deep mx (m, d))
    (hnd : ND.isDeep mx m d = false) : ∃ c ∈ Spec.children m, Deep mx (c, d + 1) := by
  have hc : m.val.isContainer = true := h.1
  have hlt : mx < (d : Int) + (m.val.depth : Int) := h.2
  have hd : ¬ ((d : Int) ≥ mx) := by
    intro hge
    simp [ND.isDeep, hc, hge] at hnd
  obtain ⟨c, hcm, hcd, hcc⟩ := exists_deep_child m (by omega)
  refine ⟨c, hcm, hcc, ?_⟩
  show mx < ((d + 1 : Nat) : Int) + (c.val.depth : Int)
  omega

/-! ### `visitChildrenNow` -/

theorem vcn_spec {mx : Int} {k : Node → ND.Script → ND.Out} (hk : KRec k) (d : Nat) :
    ∀ (cs : List Node) (queue : List (Node × Nat)) (s : ND.Script) (acc : List Node),
      ((ND.visitChildrenNow mx d k cs queue s acc).2.err = none ∨
        (ND.visitChildrenNow mx d k cs queue s acc).2.err = some .recursion) ∧
      ((ND.visitChildrenNow mx d k cs queue s acc).2.err = none →
        qsize (ND.visitChildrenNow mx d k cs queue s acc).1 ≤
          qsize queue + (cs.map (fun c => c.val.size)).sum ∧
        (∀ e ∈ queue, e ∈ (ND.visitChildrenNow mx d k cs queue s acc).1) ∧
        (∀ c ∈ cs, Deep mx (c, d + 1) →
          ∃ e ∈ (ND.visitChildrenNow mx d k cs queue s acc).1, Deep mx e)) := by
  intro cs
  induction cs with
  | nil =>
    intro queue s acc
    simp only [ND.visitChildrenNow]
    exact ⟨Or.inl trivial, fun _ => ⟨by simp, fun e he => he, fun c hc => absurd hc List.not_mem_nil⟩⟩
  | cons c cs ih =>
    intro queue s acc
    cases hdp : ND.isDeep mx c (d + 1) with
    | true =>
      have hstep : ND.visitChildrenNow mx d k (c :: cs) queue s acc =
          (queue, ⟨acc, some .recursion, s⟩) := by
        simp only [ND.visitChildrenNow, hdp, if_true]
      rw [hstep]
      exact ⟨Or.inr rfl, fun h => by cases h⟩
    | false =>
      cases hr : (k c s).err with
      | some e =>
        have hstep : ND.visitChildrenNow mx d k (c :: cs) queue s acc =
            (queue, ⟨acc ++ (k c s).nodes, some e, (k c s).script⟩) := by
          simp only [ND.visitChildrenNow, hdp, hr, Bool.false_eq_true, if_false]
        rw [hstep]
        have he := hk.of_some hr
        subst he
        exact ⟨Or.inr rfl, fun h => by cases h⟩
      | none =>
        have hg := ndChildren_perm_spec c (k c s).script
        have hm := (mergeQ_perm queue ((ND.ndChildren c (k c s).script).1.map (fun g => (g, d + 2)))
          (ND.ndChildren c (k c s).script).2).1
        have hstep : ND.visitChildrenNow mx d k (c :: cs) queue s acc =
            ND.visitChildrenNow mx d k cs
              (ND.mergeQ queue ((ND.ndChildren c (k c s).script).1.map (fun g => (g, d + 2)))
                (ND.ndChildren c (k c s).script).2).1
              (ND.mergeQ queue ((ND.ndChildren c (k c s).script).1.map (fun g => (g, d + 2)))
                (ND.ndChildren c (k c s).script).2).2 (acc ++ (k c s).nodes) := by
          simp only [ND.visitChildrenNow, hdp, hr, Bool.false_eq_true, if_false]
        rw [hstep]
        have ih' := ih (ND.mergeQ queue ((ND.ndChildren c (k c s).script).1.map (fun g => (g, d + 2)))
                (ND.ndChildren c (k c s).script).2).1
              (ND.mergeQ queue ((ND.ndChildren c (k c s).script).1.map (fun g => (g, d + 2)))
                (ND.ndChildren c (k c s).script).2).2 (acc ++ (k c s).nodes)
        refine ⟨ih'.1, fun hnone => ?_⟩
        obtain ⟨h1, h2, h3⟩ := ih'.2 hnone
        have hmemq : ∀ e ∈ queue, e ∈ (ND.mergeQ queue
            ((ND.ndChildren c (k c s).script).1.map (fun g => (g, d + 2)))
            (ND.ndChildren c (k c s).script).2).1 :=
          fun e he => hm.mem_iff.2 (List.mem_append_left _ he)
        refine ⟨?_, fun e he => h2 e (hmemq e he), ?_⟩
        · rw [qsize_perm hm, qsize_append, qsize_map, (hg.map _).sum_nat] at h1
          have := size_children c
          simp only [List.map_cons, List.sum_cons]
          omega
        · intro c' hc' hdeep
          rcases List.mem_cons.1 hc' with rfl | hc'
          · obtain ⟨g, hgm, hgd⟩ := hdeep.child hdp
            have : (g, d + 1 + 1) ∈ (ND.mergeQ queue
                ((ND.ndChildren c' (k c' s).script).1.map (fun g => (g, d + 2)))
                (ND.ndChildren c' (k c' s).script).2).1 :=
              hm.mem_iff.2 (List.mem_append_right _
                (List.mem_map.2 ⟨g, hg.mem_iff.2 hgm, rfl⟩))
            exact ⟨_, h2 _ this, hgd⟩
          · exact h3 c' hc' hdeep

/-! ### `visitLoop` -/

theorem visitLoop_spec {mx : Int} {k : Node → ND.Script → ND.Out} (hk : KRec k) :
    ∀ (fuel : Nat) (queue : List (Node × Nat)) (s : ND.Script) (acc : List Node),
      qsize queue < fuel →
      ((ND.visitLoop mx k fuel queue s acc).err = none ∨
        (ND.visitLoop mx k fuel queue s acc).err = some .recursion) ∧
      ((∃ e ∈ queue, Deep mx e) → (ND.visitLoop mx k fuel queue s acc).err = some .recursion) := by
  intro fuel
  induction fuel with
  | zero => intro queue s acc h; omega
  | succ fuel ih =>
    intro queue s acc hfuel
    match queue, hfuel with
    | [], _ =>
      simp only [ND.visitLoop]
      exact ⟨Or.inl trivial, fun ⟨e, he, _⟩ => absurd he List.not_mem_nil⟩
    | (node, d) :: queue, hfuel =>
      cases hdp : ND.isDeep mx node d with
      | true =>
        have hstep : ND.visitLoop mx k (fuel + 1) ((node, d) :: queue) s acc =
            ⟨acc, some .recursion, s⟩ := by
          simp only [ND.visitLoop, hdp, if_true]
        rw [hstep]
        exact ⟨Or.inr rfl, fun _ => rfl⟩
      | false =>
        cases hr : (k node s).err with
        | some e =>
          have hstep : ND.visitLoop mx k (fuel + 1) ((node, d) :: queue) s acc =
              ⟨acc ++ (k node s).nodes, some e, (k node s).script⟩ := by
            simp only [ND.visitLoop, hdp, hr, Bool.false_eq_true, if_false]
          rw [hstep]
          have he := hk.of_some hr
          subst he
          exact ⟨Or.inr rfl, fun _ => rfl⟩
        | none =>
          have hsz := size_children node
          have hfuel' : node.val.size + qsize queue < fuel + 1 := by
            simpa [qsize] using hfuel
          have hcs := ndChildren_perm_spec node (ND.coin (k node s).script).2
          cases hb : (ND.coin (k node s).script).1 with
          | false =>
            have hstep : ND.visitLoop mx k (fuel + 1) ((node, d) :: queue) s acc =
                ND.visitLoop mx k fuel
                  (queue ++ (ND.ndChildren node (ND.coin (k node s).script).2).1.map (fun c => (c, d + 1)))
                  (ND.ndChildren node (ND.coin (k node s).script).2).2 (acc ++ (k node s).nodes) := by
              simp only [ND.visitLoop, hdp, hr, hb, Bool.false_eq_true, if_false]
            rw [hstep]
            have ih' := ih
              (queue ++ (ND.ndChildren node (ND.coin (k node s).script).2).1.map (fun c => (c, d + 1)))
              (ND.ndChildren node (ND.coin (k node s).script).2).2 (acc ++ (k node s).nodes)
              (by
                rw [qsize_append, qsize_map, (hcs.map _).sum_nat]
                omega)
            refine ⟨ih'.1, fun ⟨e, he, hde⟩ => ih'.2 ?_⟩
            rcases List.mem_cons.1 he with rfl | he
            · obtain ⟨c, hcm, hcd⟩ := hde.child hdp
              exact ⟨(c, d + 1), List.mem_append_right _
                (List.mem_map.2 ⟨c, hcs.mem_iff.2 hcm, rfl⟩), hcd⟩
            · exact ⟨e, List.mem_append_left _ he, hde⟩
          | true =>
            have hv := vcn_spec (mx := mx) hk d (ND.ndChildren node (ND.coin (k node s).script).2).1 queue
              (ND.ndChildren node (ND.coin (k node s).script).2).2 (acc ++ (k node s).nodes)
            cases hr2 : (ND.visitChildrenNow mx d k (ND.ndChildren node (ND.coin (k node s).script).2).1
                queue (ND.ndChildren node (ND.coin (k node s).script).2).2
                (acc ++ (k node s).nodes)).2.err with
            | some e =>
              have hstep : (ND.visitLoop mx k (fuel + 1) ((node, d) :: queue) s acc).err = some e := by
                simp only [ND.visitLoop, hdp, hr, hb, Bool.false_eq_true, if_false, if_true, hr2]
              rw [hstep]
              have he : e = .recursion := by
                rcases hv.1 with h | h
                · rw [hr2] at h; cases h
                · rw [hr2] at h; cases h; rfl
              subst he
              exact ⟨Or.inr rfl, fun _ => rfl⟩
            | none =>
              have hstep : ND.visitLoop mx k (fuel + 1) ((node, d) :: queue) s acc =
                  ND.visitLoop mx k fuel
                    (ND.visitChildrenNow mx d k (ND.ndChildren node (ND.coin (k node s).script).2).1 queue
                      (ND.ndChildren node (ND.coin (k node s).script).2).2 (acc ++ (k node s).nodes)).1
                    (ND.visitChildrenNow mx d k (ND.ndChildren node (ND.coin (k node s).script).2).1 queue
                      (ND.ndChildren node (ND.coin (k node s).script).2).2 (acc ++ (k node s).nodes)).2.script
                    (ND.visitChildrenNow mx d k (ND.ndChildren node (ND.coin (k node s).script).2).1 queue
                      (ND.ndChildren node (ND.coin (k node s).script).2).2 (acc ++ (k node s).nodes)).2.nodes := by
                simp only [ND.visitLoop, hdp, hr, hb, Bool.false_eq_true, if_false, if_true, hr2]
              rw [hstep]
              obtain ⟨h1, h2, h3⟩ := hv.2 hr2
              have ih' := ih
                (ND.visitChildrenNow mx d k (ND.ndChildren node (ND.coin (k node s).script).2).1 queue
                      (ND.ndChildren node (ND.coin (k node s).script).2).2 (acc ++ (k node s).nodes)).1
                (ND.visitChildrenNow mx d k (ND.ndChildren node (ND.coin (k node s).script).2).1 queue
                      (ND.ndChildren node (ND.coin (k node s).script).2).2 (acc ++ (k node s).nodes)).2.script
                (ND.visitChildrenNow mx d k (ND.ndChildren node (ND.coin (k node s).script).2).1 queue
                      (ND.ndChildren node (ND.coin (k node s).script).2).2 (acc ++ (k node s).nodes)).2.nodes
                (by
                  rw [(hcs.map _).sum_nat] at h1
                  omega)
              refine ⟨ih'.1, fun ⟨e, he, hde⟩ => ih'.2 ?_⟩
              rcases List.mem_cons.1 he with rfl | he
              · obtain ⟨c, hcm, hcd⟩ := hde.child hdp
                exact h3 c (hcs.mem_iff.2 hcm) hcd
              · exact ⟨e, h2 e he, hde⟩

/-! ### `visit` -/

theorem visit_spec {mx : Int} {k : Node → ND.Script → ND.Out} (hk : KRec k) (root : Node) (s : ND.Script) :
    ((ND.visit mx root s k).err = none ∨ (ND.visit mx root s k).err = some .recursion) ∧
    (1 ≤ mx → mx < (root.val.depth : Int) → (ND.visit mx root s k).err = some .recursion) := by
  cases hr : (k root s).err with
  | some e =>
    have hstep : ND.visit mx root s k = ⟨(k root s).nodes, some e, (k root s).script⟩ := by
      simp only [ND.visit, hr]
    rw [hstep]
    have he := hk.of_some hr
    subst he
    exact ⟨Or.inr rfl, fun _ _ => rfl⟩
  | none =>
    have hcs := ndChildren_perm_spec root (k root s).script
    have hstep : ND.visit mx root s k =
        ND.visitLoop mx k (root.val.size + 1)
          ((ND.ndChildren root (k root s).script).1.map (fun c => (c, 1)))
          (ND.ndChildren root (k root s).script).2 (k root s).nodes := by
      simp only [ND.visit, hr]
    rw [hstep]
    have hv := visitLoop_spec (mx := mx) hk (root.val.size + 1)
      ((ND.ndChildren root (k root s).script).1.map (fun c => (c, 1)))
      (ND.ndChildren root (k root s).script).2 (k root s).nodes
      (by
        rw [qsize_map, (hcs.map _).sum_nat]
        have := size_children root
        omega)
    refine ⟨hv.1, fun h1 hd => hv.2 ?_⟩
    obtain ⟨c, hcm, hcd, hcc⟩ := exists_deep_child root (by omega)
    refine ⟨(c, 1), List.mem_map.2 ⟨c, hcs.mem_iff.2 hcm, rfl⟩, hcc, ?_⟩
    show mx < ((1 : Nat) : Int) + (c.val.depth : Int)
    omega

/-! ### selectors and segments: filter-free pipelines fail with `.recursion` only -/

theorem forEach_krec {k : Node → ND.Script → ND.Out} (hk : KRec k) :
    ∀ (ns : List Node) (s : ND.Script),
      (ND.forEach ns s k).err = none ∨ (ND.forEach ns s k).err = some .recursion := by
  intro ns
  induction ns with
  | nil => intro s; exact Or.inl rfl
  | cons n rest ih =>
    intro s
    cases hr : (k n s).err with
    | some e =>
      have he := hk.of_some hr
      subst he
      simp only [ND.forEach, hr]
      exact Or.inr trivial
    | none =>
      simp only [ND.forEach, hr]
      exact ih (k n s).script

theorem runSel_krec (env : Env) (root : Json) {k : Node → ND.Script → ND.Out} (hk : KRec k)
    (sel : Selector) (hs : ∀ e, sel ≠ .filter e) (n : Node) (s : ND.Script) :
    (ND.runSel env root k sel n s).err = none ∨
      (ND.runSel env root k sel n s).err = some .recursion := by
  cases sel with
  | name nm => simp only [ND.runSel]; exact forEach_krec hk _ s
  | index i => simp only [ND.runSel]; exact forEach_krec hk _ s
  | slice a b c => simp only [ND.runSel]; exact forEach_krec hk _ s
  | wild => simp only [ND.runSel]; exact forEach_krec hk _ _
  | filter e => exact absurd rfl (hs e)

theorem runSels_krec (env : Env) (root : Json) {k : Node → ND.Script → ND.Out} (hk : KRec k) :
    ∀ (sels : List Selector), Spec.filterFreeSels sels = true → ∀ (n : Node) (s : ND.Script),
      (ND.runSels env root k sels n s).err = none ∨
        (ND.runSels env root k sels n s).err = some .recursion := by
  intro sels
  induction sels with
  | nil => intro _ n s; simp only [ND.runSels]; exact Or.inl rfl
  | cons sel sels ih =>
    intro hf n s
    have hs : ∀ e, sel ≠ .filter e := by
      intro e he; subst he; simp [Spec.filterFreeSels] at hf
    have hf' : Spec.filterFreeSels sels = true := by
      cases sel <;> simp_all [Spec.filterFreeSels]
    have h1 := runSel_krec env root hk sel hs n s
    cases hr : (ND.runSel env root k sel n s).err with
    | some e =>
      rw [hr] at h1
      simp only [ND.runSels, hr]
      rcases h1 with h1 | h1
      · cases h1
      · exact Or.inr h1
    | none =>
      simp only [ND.runSels, hr]
      exact ih hf' n _

theorem runSegs_krec (env : Env) (root : Json) :
    ∀ (segs : List Segment), Spec.filterFree segs = true →
      KRec (fun n s => ND.runSegs env root segs n s) := by
  intro segs
  induction segs with
  | nil =>
    intro _ n s
    simp only [ND.runSegs]
    exact Or.inl trivial
  | cons seg segs ih =>
    intro hf
    simp only [Spec.filterFree, List.all_cons, Bool.and_eq_true] at hf
    have ih' : KRec (fun n s => ND.runSegs env root segs n s) := ih hf.2
    intro n s
    cases seg with
    | child sels =>
      simp only [ND.runSegs]
      exact runSels_krec env root ih' sels hf.1 n s
    | desc sels =>
      have hk : KRec (fun m s' =>
          ND.runSels env root (fun m2 s2 => ND.runSegs env root segs m2 s2) sels m s') :=
        fun m s' => runSels_krec env root ih' sels hf.1 m s'
      simp only [ND.runSegs]
      exact (visit_spec hk n s).1

end JPV.Proofs.NDd
