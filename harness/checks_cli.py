"""Exploration for C20: the real CLI, in-process (`cli.main()` with patched argv/stdio) for volume and
as real subprocesses for a sample of every option combination."""
from __future__ import annotations

import contextlib
import io
import json
import os
import subprocess
import sys
import tempfile

import gen
import model
import real
from checks_eval import doc_with_all_kinds, sizes, walk_query
from framework import WORK_DIR


def run_inproc(argv, stdin_text=None):
    """returns (exit_code, stdout, stderr, exception class name or None)"""
    from jsonpath_rfc9535 import cli

    out, err = io.StringIO(), io.StringIO()
    old = (sys.argv, sys.stdin, sys.stdout, sys.stderr)
    sys.argv = ["jsonpath-rfc9535"] + argv
    sys.stdin = io.StringIO(stdin_text if stdin_text is not None else "")
    sys.stdout, sys.stderr = out, err
    code, exc = 0, None
    try:
        cli.main()
    except SystemExit as e:
        code = e.code if isinstance(e.code, int) else (0 if e.code is None else 1)
    except BaseException as e:  # noqa: BLE001  (an uncaught exception = traceback, exit status 1)
        code, exc = 1, type(e).__name__
    finally:
        sys.argv, sys.stdin, sys.stdout, sys.stderr = old
    return code, out.getvalue(), err.getvalue(), exc


def explore_c20(rng, tier, res, deep=False):
    import jsonpath_rfc9535 as jp

    res.rule = (
        "queries (valid; invalid of every JSONPathError class: syntax, type, index, name, lexer; evaluation errors via "
        "documents deeper than the recursion limit) x JSON documents (non-ASCII, nested, invalid JSON, bytes that are "
        "not UTF-8) x option combinations (-q / -r, -f / stdin, -o / stdout, --pretty, --debug), run through the real "
        "CLI in-process, plus real subprocesses for a sample: success => exit 0, output == json.dumps(find(...)."
        "values()) exactly, stderr empty; failure => exit != 0, exactly one line on stderr, no traceback unless "
        "--debug, nothing written; the handler-table model must predict the behaviour. Non-trivial = distinct "
        "(query, document kind, options)."
    )
    n = sizes(tier, deep, 250, 4000)
    os.makedirs(WORK_DIR, exist_ok=True)
    tmp = tempfile.mkdtemp(prefix="cli_", dir=WORK_DIR)
    g = gen.QueryGen(rng, names=gen.NAMES, max_filter_depth=2)
    env = jp.JSONPathEnvironment()
    deep_doc = 0
    for _ in range(130):
        deep_doc = [deep_doc]
    model_lines, model_expect = [], []
    try:
        for i in range(n):
            res.evaluations += 1
            doc = doc_with_all_kinds(rng, rng.choice([1, 2, 3]))
            kind = rng.choice(["valid"] * 5 + ["syntax", "type", "index", "name", "badjson", "badbytes", "deep", "mutant", "rootish", "rootish", "spaced", "bignum", "ctl", "ctl"])
            if 16 <= i < 28:
                kind = "ctl"  # always some of these, whatever the seed
            if 28 <= i < 44:
                kind = "strstep"
            if 44 <= i < 56:
                kind = "rawtext"
            if 56 <= i < 72:
                kind = "blank"
            if 72 <= i < 80:
                kind = "dupkeys"
            if 80 <= i < 91:
                kind = "type"  # each ill-typed / wrong-arity query once, whatever the seed
            q = walk_query(rng, doc, g, filters=True) if rng.random() < 0.5 else g.query()
            FALSY = [{}, [], "", 0, False, None, 0.0, -0.0]
            if i < 2 * len(FALSY):
                # every falsy whole document with the root query (once inline, once more through other options)
                kind, doc, q = "rootish", FALSY[i % len(FALSY)], "$"
            elif kind == "rootish":
                # the root node itself / every kind of whole document, empty and scalar ones included
                doc = rng.choice([{}, [], "", 0, False, None, 0.0, "x", 1, True, [0], {"a": None}, [[]], [{}], -0.0, 1.5, "é😀"])
                q = rng.choice(["$", "$", "$.*", "$..*", "$[?@]", "$[*]", "$[0]", "$['a']", "$[?@ == 0]", "$ "[:1]])
            if kind == "strstep":
                # selectors applied to scalars at the end of a singular path (a JSON string has no elements, whatever way the
                # query is evaluated), whole documents that are scalars
                pool = [("$.name[0]", {"name": "abc"}), ("$[-1]", "xyz"), ("$.name[1:]", {"name": "abc"}), ("$.name.*", {"name": "abc"}), ("$..name[0]", {"a": {"name": "abc"}}),
                        ("$[0][0]", ["ab", ["cd"]]), ("$.a.b[2]", {"a": {"b": "hello"}}), ("$['name']['0']", {"name": "abc"}), ("$.n[0]", {"n": 123}), ("$.t[0]", {"t": True}),
                        ("$[0]", "a"), ("$.name[-1]", {"name": "abc"}), ("$.l[1][0]", {"l": ["x", "yz"]}), ("$[?@[0] == 'a']", ["abc", ["a"]]), ("$.name.length", {"name": "abc"}),
                        ("$[1][-1]", [0, "xyz"])]
                q, doc = pool[(i - 28) % len(pool)]
            if kind == "rawtext":
                # the query text reaches compile() exactly as given (inline or from a file): names and literals that a
                # normalisation, a case mapping or a re-encoding would change, documents holding both forms
                doc = {"cafe\u0301": "decomposed", "caf\u00e9": "composed", "\u212b": 1, "\u00c5": 2, "\ufb01": 3, "fi": 4, "\u1100\u1161": 5, "\uac00": 6, "\u03a3": 7, "\u03c3": 8,
                       "l": ["e\u0301", "\u00e9", "\u212b", "\u00c5", "\u2126", "\u03a9"], "\uff21": 9, "A": 10, "a\u00a0b": 11, "a b": 12}
                pool = ["$['cafe\u0301']", "$['caf\u00e9']", "$.\u212b", "$.\u00c5", "$['\ufb01', 'fi']", "$['\u1100\u1161']", "$.l[?@ == 'e\u0301']", "$.l[?@ == '\u2126']", "$.\u03a3",
                        "$['\uff21']", "$['a\u00a0b']", "$.l[?@ != '\u00e9']"]
                q = pool[(i - 44) % len(pool)]
            if kind == "blank":
                # the EMPTY query and queries of blank space only (inline with -q "", from an empty or blank file): invalid
                # queries like any other — one diagnostic line, no traceback, non-zero exit; and '$' with blanks around it
                blanks = ["", " ", "\n", " \t ", "\u00a0", "\r\n", " $", "$ "]
                q = blanks[(i - 56) % len(blanks)]
                doc = [{}, [1], "", 0][(i - 56) % 4]
            if kind == "spaced":
                # blank space INSIDE string literals (runs of spaces, no-break and other Unicode spaces): the text of a
                # query — also one read from a file — is taken as it is, only stripped at its ends
                sp = ["a b", "a  b", "a   b", "a\u00a0b", "a\u2003b", "a\u3000b", " a", "a ", "  ", "a \u00a0 b", "x\u2028y"]
                doc = {k: i for i, k in enumerate(sp)}
                doc["t"] = [{"n": k} for k in sp]
                k1 = rng.choice(sp)
                q = rng.choice([f"$[{gen.quote_name(rng, k1, plain=True)}]", f"$.t[?@.n == {gen.quote_name(rng, k1, plain=True)}]",
                                f"$[{gen.quote_name(rng, k1, plain=True)}, {gen.quote_name(rng, rng.choice(sp), plain=True)}]"])
            doc_bytes = json.dumps(doc, ensure_ascii=rng.random() < 0.5).encode("utf8")
            if kind == "syntax":
                q = rng.choice(["$[", "$.a b", "$[?@.a==01]", "$[?@.a &&]", "$..", "$['\\x']", "$[1:2:3:4]"])
            elif kind == "type":
                q = (lambda xs: xs[(i - 80) % len(xs)] if 80 <= i < 91 else rng.choice(xs))(["$[?count(@.a)]", "$[?length(@.*)==1]", "$[?@.*==1]", "$[?match(@.a)]",
                                # too many arguments, a surplus one in parentheses / negated; too few; nested
                                "$[?length(@.a, (@.b)) == 1]", "$[?count(@.*, (@.a)) > 1]", "$[?match(@.a, 'x', (@.b == 1))]", "$[?value(@.a, !@.b) == 1]",
                                "$[?search(@.a)]", "$[?length() == 1]", "$[?length(count(@.a, (1))) == 1]"])
            elif kind == "index":
                q = rng.choice(["$[9007199254740992]", "$[:-9007199254740992]"])
            elif kind == "name":
                q = rng.choice(["$[?nope(@)]", "$[?foo(@.a)==1]"])
            elif kind == "mutant":
                q = gen.mutate(rng, q)
            elif kind == "ctl":
                # invalid queries in which the character or token the error is about is a control character or a line
                # separator (the diagnostic stays ONE line), at the start, inside and at the end of the text
                ctl = ["\n", "\r", "\t", "\x0b", "\x0c", "\x00", "\x1b", "\x7f", "\x85", "\u2028", "\u2029", "\r\n"]
                c = ctl[(i - 16) % len(ctl)] if 16 <= i < 28 else rng.choice(ctl)
                pick = (lambda xs: xs[(i - 16) % len(xs)]) if 16 <= i < 28 else rng.choice
                q = pick([c + "$.a", "$.." + c, "$.a[" + c + "x]", "$.a" + c + "b", "$[?@.a == " + c + "x]", "$['a" + c + "']", "$.a." + c, "$[?" + c + "x]",
                                "$[1" + c + "2]", "x" + c + "$", "$[?@.a ~" + c + "1]", "$.a[?@" + c + "@]"])
            elif kind == "dupkeys":
                # documents that repeat a member name: what json.load makes of them is what find() is given
                doc_bytes = [b'{"a": 1, "a": 2}', b'{"a": {"b": 1, "b": [2]}, "a": {"b": 3}}', b'[{"k": 1, "k": null}, {"k": 2}]', b'{"a": 1, "b": 2, "a": [3], "b": {"a": 4, "a": 5}}'][(i - 72) % 4]
                q = ["$.a", "$..b", "$[*].k", "$..a", "$", "$.*", "$..*", "$.b.a"][(i - 72) % 8]
            elif kind == "badjson":
                doc_bytes = rng.choice([b"}}invalid", b"", b"[1,", b"{'a':1}", b"[1] x", b"nul"])
            elif kind == "bignum":
                # well-formed JSON numbers that overflow a double (json.load gives inf), Python's NaN/Infinity literals,
                # integers beyond 2^64: what find().values() holds is what must be written, whole
                doc_bytes = rng.choice([b"[1, 2, 1e999]", b'{"a": -1e400, "b": [1, {"c": 1E+999}]}', b"[Infinity, 1]", b"[1, NaN]", b'{"k": [-Infinity]}',
                                        b"[123456789012345678901234567890, 1e308, 5e-324]", b"[1.7976931348623157e308, 1.7976931348623159e308]"])
                q = rng.choice(["$[*]", "$..*", "$", "$[?@ > 1]", "$[-1]", "$..[?@]", "$.a", "$.b[1].c", "$[0]"])
            elif kind == "badbytes":
                doc_bytes = rng.choice([b"\xff\xfe\xfd", b'"\xff"', b"[\"\xc3\x28\"]", b"\x80"])
            elif kind == "deep":
                q = "$..*"
                doc_bytes = json.dumps(deep_doc).encode()
            if kind in ("bignum", "badjson", "badbytes", "deep", "dupkeys"):
                doc = doc_bytes.decode("utf8", "replace")[:300]  # what is reported as the document
            debug = rng.random() < 0.2
            pretty = rng.random() < 0.4
            use_rfile = rng.random() < (0.7 if kind == "spaced" else 0.3)
            if 56 <= i < 72:
                debug, use_rfile = False, i >= 64  # each blank query once inline, once from a file
            if 16 <= i < 56:
                debug, use_rfile = False, i % 4 == 3  # the fixed control-character family: inline mostly, no --debug
            use_stdin = rng.random() < 0.3 and kind != "badbytes"
            use_ofile = rng.random() < 0.4
            argv = []
            if debug:
                argv.append("--debug")
            if pretty:
                argv.append("--pretty")
            if use_rfile:
                qp = os.path.join(tmp, f"q{i}.txt")
                with open(qp, "w", encoding="utf8", newline="") as fd:
                    fd.write(rng.choice(["", " ", "\n"]) + q + rng.choice(["", "\n", "  \n"]))
                argv += ["-r", qp]
                q_eff = q.strip()
            else:
                # a query text that starts with '-' has to be attached to the option, as a user would do
                argv += (["--query=" + q] if q.startswith("-") else ["-q", q])
                q_eff = q
            stdin_text = None
            if use_stdin:
                try:
                    stdin_text = doc_bytes.decode("utf8")
                except UnicodeDecodeError:
                    use_stdin = False
            if not use_stdin:
                dp = os.path.join(tmp, f"d{i}.json")
                with open(dp, "wb") as fd:
                    fd.write(doc_bytes)
                argv += ["-f", dp]
            op = None
            if use_ofile:
                op = os.path.join(tmp, f"o{i}.json")
                argv += ["-o", op]
            # expectation from the library itself
            stage, exc_name, want_out = "ok", "", None
            try:
                c = env.compile(q_eff)
            except jp.JSONPathError as e:
                stage, exc_name = "compile", type(e).__name__
            except Exception as e:  # noqa: BLE001
                stage, exc_name = "compile", type(e).__name__
            if stage == "ok":
                try:
                    data = json.loads(doc_bytes)
                    vals = jp.find(q_eff, data).values()  # the property's reference: the module-level find(query, document)
                    want_out = json.dumps(vals, indent=2 if pretty else None)
                except (json.JSONDecodeError, UnicodeDecodeError) as e:
                    stage, exc_name = "evaluate", type(e).__name__
                except jp.JSONPathError as e:
                    stage, exc_name = "evaluate", type(e).__name__
                except RecursionError:
                    res.count("interpreter-recursion-skipped")
                    continue
            code, out, err, exc = run_inproc(argv, stdin_text)
            written = out
            if op is not None:
                with open(op, encoding="utf8") as fd:
                    written = fd.read()
                if out:
                    res.violations.append({"property": "C20", "query": q, "observed": out[:100], "expected": "nothing on stdout with -o",
                                           "what": "output leaked to stdout"})
            res.nontrivial.add((q, kind, debug, pretty, use_rfile, use_stdin, use_ofile))
            res.count("kind-" + kind)
            res.count("stage-" + stage + ("-" + exc_name if exc_name else ""))
            tb = exc is not None or "Traceback (most recent call last)" in err
            nlines = err.count("\n") if not tb else 0
            obs = f"cli {code} {nlines} {1 if tb else 0} {1 if (stage == 'ok' and written != '') else (1 if written else 0)}"
            model_lines.append(f"cli\t{stage}\t{exc_name}\t{1 if debug else 0}")
            model_expect.append((obs, argv, q, stage, exc_name))
            if stage == "ok":
                if code != 0 or written != want_out or err != "" or exc is not None:
                    res.violations.append({"property": "C20", "query": q, "document": doc, "observed": {"exit": code, "out": written[:200], "err": err[:200], "exc": exc},
                                           "expected": {"exit": 0, "out": want_out[:200]}, "argv": argv,
                                           "what": "successful run: exit status, output or stderr differ from find().values()"})
                else:
                    res.sample({"argv": argv[:6], "out": written[:60]})
            else:
                bad = []
                if code == 0:
                    bad.append("exit status 0")
                if written != "":
                    bad.append("partial result written")
                if not debug:
                    if tb:
                        bad.append("traceback without --debug")
                    elif not (err.endswith("\n") and len(err[:-1].splitlines()) == 1):  # no LF, CR, VT, FF, NEL, LS, PS ... inside
                        bad.append("diagnostic is not exactly one line")
                if bad:
                    res.violations.append({"property": "C20", "query": q, "document": doc_bytes[:60].decode("latin1"), "argv": argv,
                                           "observed": {"exit": code, "err": err[-300:], "exc": exc, "out": written[:80]},
                                           "expected": "non-zero exit, one-line diagnostic, no traceback, no output",
                                           "what": f"{stage} error {exc_name}: " + ", ".join(bad)})
        out = model.run_batch_parallel(model_lines)
        for o, (obs, argv, q, stage, exc_name) in zip(out, model_expect):
            if o != obs:
                res.mismatches.append({"op": "cli", "query": q, "argv": argv, "stage": stage, "exc": exc_name, "model": o, "real": obs})
        subprocess_sample(rng, tier, res, tmp)
    finally:
        import shutil

        shutil.rmtree(tmp, ignore_errors=True)


def subprocess_sample(rng, tier, res, tmp):
    """the real process boundary (exit status, streams) for each option combination"""
    doc = {"a": [1, "é😀", {"b": None}], "c": 2.5}
    dp = os.path.join(tmp, "sp_doc.json")
    with open(dp, "w", encoding="utf8") as fd:
        json.dump(doc, fd, ensure_ascii=False)
    bad = os.path.join(tmp, "sp_bad.json")
    with open(bad, "wb") as fd:
        fd.write(b"\xff{")
    qf = os.path.join(tmp, "sp_q.txt")
    with open(qf, "w") as fd:
        fd.write("  $..*\n")
    import jsonpath_rfc9535 as jp

    want = json.dumps(jp.find("$..*", doc).values())
    base = [sys.executable, "-m", "jsonpath_rfc9535"]
    envv = dict(os.environ, PYTHONPATH=real.REPO)
    combos = [
        (["-q", "$..*", "-f", dp], None, 0), (["-r", qf, "-f", dp], None, 0), (["-q", "$..*"], json.dumps(doc), 0),
        (["--pretty", "-q", "$..*", "-f", dp], None, 0), (["-q", "$[", "-f", dp], None, 1), (["-q", "$[?nope(@)]", "-f", dp], None, 1),
        (["-q", "$", "-f", bad], None, 1), (["--debug", "-q", "$[", "-f", dp], None, 1), (["-q", "$", "-f", dp, "-o", os.path.join(tmp, "sp_o.json")], None, 0),
    ]
    for argv, stdin, want_code in combos:
        res.evaluations += 1
        p = subprocess.run(base + argv, input=(stdin or "").encode(), stdout=subprocess.PIPE, stderr=subprocess.PIPE, env=envv, timeout=120)
        err = p.stderr.decode("utf8", "replace")
        out = p.stdout.decode("utf8", "replace")
        ok = (p.returncode == 0) == (want_code == 0)
        if want_code == 0 and "-o" not in argv and "--pretty" not in argv:
            ok = ok and out == want and err == ""
        if want_code != 0 and "--debug" not in argv:
            ok = ok and "Traceback" not in err and err.count("\n") == 1 and out == ""
        if want_code != 0 and "--debug" in argv:
            ok = ok and "Traceback" in err
        res.count("subprocess")
        if not ok:
            res.violations.append({"property": "C20", "query": " ".join(argv), "observed": {"exit": p.returncode, "err": err[-300:], "out": out[:100]},
                                   "expected": {"exit": want_code}, "what": "real subprocess run"})
