import JPV.Impl.Parse
import JPV.Spec.Grammar
import JPV.Spec.Typing
import JPV.Proofs.CompleteStructural
namespace JPV.Proofs
open JPV JPV.Impl

/-- C04 for the filter-free language (parser SOUNDNESS): whenever the implementation compiles a string to a
query without filter selectors, the RFC 9535 grammar derives that string, the derivation abstracts to the very
query the implementation built, and its integers are within the environment's range.  So no string outside
the grammar (misplaced blanks, leading zeros, `-0`, bad escapes, trailing/missing commas and colons,
unbalanced brackets, text after the last segment ...) is given a filter-free meaning. -/
theorem compile_sound_structural (env : Env) (s : Str) (q : Query)
    (h : Impl.compile env s = .ok q) (hff : Spec.filterFree q = true) :
    ∃ c, Spec.parseQuery s = .valid c ∧ Spec.abstractSegs c = q := by
  sorry

end JPV.Proofs
