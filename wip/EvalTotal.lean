import JPV.Props.Common
import JPV.Proofs.Eval
namespace JPV.Proofs
open JPV JPV.Props

/-- Evaluation is total for well-typed queries whatever the depth of the value: it completes with the
RFC nodelist, or it raises JSONPathRecursionError (and then the value is nested deeper than the limit
somewhere a descendant segment looks). -/
theorem eval_total : ∀ (env : Impl.Env) (reg : Spec.Registry) (q : Query) (v : Json),
    EnvConforms env reg → Spec.wtQuery (sigsOf reg) q = true → v.WF → 1 ≤ env.maxDepth →
    Impl.find env q v = .ok (Spec.select reg q v) ∨
    (Impl.find env q v = .error .recursion ∧ env.maxDepth < (v.depth : Int)) := by sorry

end JPV.Proofs
