/-
Tie A obligations: the tables regenerated from /repo (`JPV/Generated.lean`) are
the ones the model was written against.  Each theorem is closed by evaluation
(`decide`); an edit to a table in the source changes `Generated.lean` and the
corresponding theorem stops checking.
-/
import JPV.Generated
import JPV.Impl.Parse
import JPV.Tables.T_precedences_model
import JPV.Tables.T_precedence_consts
import JPV.Tables.T_binary_operators_model
import JPV.Tables.T_comparison_operators_model
import JPV.Tables.T_token_map_model
import JPV.Tables.T_function_argument_map_model
import JPV.Tables.T_regexes_model
import JPV.Tables.T_escapes_model
import JPV.Tables.T_env_defaults_model
import JPV.Tables.T_builtin_sigs_model
import JPV.Tables.T_exceptions_model
import JPV.Tables.T_re_calls_model
import JPV.Tables.T_writes_benign
import JPV.Tables.T_random_sites_model
