import JPV.Impl.Parse
import JPV.Spec.Grammar
import JPV.Spec.Valid
import JPV.Spec.Typing
import JPV.Proofs.ParseTyping
import JPV.Proofs.SoundStructural
import JPV.Proofs.PrinterFilter
import JPV.Proofs.Sf.ParseInv
import JPV.Proofs.Sf.LexSeg
import JPV.Proofs.Sf.CmpShape
namespace JPV.Proofs
open JPV JPV.Impl

open JPV.Proofs.Rq JPV.Proofs.Cs JPV.Proofs.Ss JPV.Proofs.Sf in
/-- C04 at full strength (parser SOUNDNESS, filters included): whatever string the implementation compiles,
the RFC 9535 grammar derives — verdict `valid`, or `disputed` for the one place where the RFC's ABNF and its
errata disagree (blank space inside the brackets of a singular query used as a comparison operand) — and the
derivation abstracts (parentheses erased) to exactly the query the implementation built.  So no string outside
the grammar is given a meaning. -/
theorem compile_sound (env : Env) (s : Str) (q : Query)
    (h : Impl.compile env s = .ok q) :
    ∃ c, (Spec.parseQuery s = .valid c ∨ Spec.parseQuery s = .disputed c) ∧ Spec.abstractSegs c = q := by
  have hwt := (compile_welltyped env s q h).1
  unfold Impl.compile at h
  cases htok : tokenize s with
  | error e => rw [htok] at h; cases h
  | ok toks =>
    rw [htok] at h
    simp only at h
    have hshape := (tokenize_shapes s toks htok).1
    obtain ⟨r, ts, e, more, rfl, hr, hek, hD⟩ := parseTop_invF env _ toks q h hshape
    obtain ⟨lf, hh, hg, hlt⟩ := tokenize_run htok
    have h0 : St ({ q := s.toArray } : Lexer) [] [] s [] [] := ⟨by simp, rfl, rfl, rfl, rfl, rfl⟩
    obtain ⟨rr, l1, rfl, h1, hh1⟩ := Ss.root_first h0 hh hg
    have hsuf := hh1.toks_suffix
    rw [h1.toks, hlt] at hsuf
    have hr1 : (⟨.root, ['$'], (([] : List Char).length : Nat)⟩ : Token) = r := by
      obtain ⟨x, hx⟩ := hsuf
      have := congrArg List.reverse hx
      simp only [List.reverse_append, List.reverse_reverse, List.reverse_cons, List.reverse_nil,
        List.nil_append, List.singleton_append, List.cons.injEq] at this
      exact this.1
    have hem : Emits .segment l1 (ts ++ e :: more) lf := ⟨hh1, by rw [h1.toks, hlt, hr1]; simp⟩
    have hcfg : SCfg lf 0 [] rr (ts ++ e :: more) :=
      ⟨l1, _, _, ⟨h1.q, h1.start, h1.pos, h1.toks, h1.br, h1.fd⟩, hem⟩
    have hsegs := (PAll.all hg (ts.length + 1)).top q ts hD (Nat.lt_succ_self _) rr e more hcfg hek
    obtain ⟨c, hc, ha⟩ := HSegs.top hsegs
    refine ⟨c, ?_, ha⟩
    have hsh : (Spec.cmpShapeSegs c).1 = true := cmpShape_of_wt _ c (by rw [ha]; exact hwt)
    unfold Spec.parseQuery
    simp only [hc, hsh]
    cases (Spec.cmpShapeSegs c).2 <;> simp

end JPV.Proofs
