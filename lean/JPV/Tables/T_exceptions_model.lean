import JPV.Tables.Common
namespace JPV.Tables
open JPV JPV.Impl

/-- every exception class of exceptions.py derives from JSONPathError -/
theorem exceptions_model :
    Generated.excParents.all (fun p => p.1 = "JSONPathError" || p.2.contains "JSONPathError") = true ∧
    (["JSONPathSyntaxError", "JSONPathTypeError", "JSONPathIndexError", "JSONPathNameError",
      "JSONPathRecursionError", "JSONPathLexerError"].all
        (fun n => (Generated.excParents.map Prod.fst).contains n)) = true := by decide +kernel

end JPV.Tables
