import JPV.Props.Common
namespace JPV.Proofs
open JPV

theorem compare_correct (a b : Impl.Obj) (op : COp) (ha : Props.Comparand a) (hb : Props.Comparand b)
    (wa : Props.ObjWF a) (wb : Props.ObjWF b) :
    Impl.compare a op b = Spec.compare (Props.floorObj a) op (Props.floorObj b) := by sorry

theorem jsonEq_correct (a b : Json) (ha : a.WF) (hb : b.WF) :
    Impl.jsonEq a b = Spec.jsonEq a b := by sorry

theorem specJsonEq_refl (a : Json) (ha : a.WF) : Spec.jsonEq a a = true := by sorry

theorem specJsonEq_symm (a b : Json) (ha : a.WF) (hb : b.WF) :
    Spec.jsonEq a b = Spec.jsonEq b a := by sorry

theorem jsonEq_bool_iff (b : Bool) (j : Json) :
    Impl.jsonEq (.bool b) j = true ↔ j = .bool b := by sorry

theorem lt_only_num_str (a b : Json)
    (h : ¬ ((∃ x y, a = .num x ∧ b = .num y) ∨ (∃ x y, a = .str x ∧ b = .str y))) :
    Impl.ltObj (.val a) (.val b) = false := by sorry

end JPV.Proofs
