#!/bin/sh
# every registered check at the thorough tier, one after the other (for `vp run`): one summary line per check
cd "$(dirname "$0")/.."
sh tools/setup.sh >/dev/null 2>&1
for p in C01 C02 C03 C04 C05 C06 C07 C08 C09 C10 C11 C12 C13 C14 C15 C16 C17 C18 C19 C20; do
  s=$(date +%s)
  /venv/bin/python harness/run_check.py $p --tier thorough 2>&1 | grep -E "^(OK|VIOLATION|INFRA|KNOWN)" | cut -c1-300
  echo "THOROUGH $p exit=$? wall=$(( $(date +%s) - s ))s"
done
