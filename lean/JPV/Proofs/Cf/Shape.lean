/-
`Proofs.Cf.Shape` — the token shape of an arbitrary derivation (filter selectors included): the interface
between the lexer simulation (`Cf.Lex*`) and the parser execution (`Cf.Parse*`) halves of
`compile_complete`.  Extends `Cs.Shape` (filter-free) with relations for filter expressions at the
grammar's levels `term` / `basic-expr` / `logical-and-expr` / `logical-or-expr` / `function-argument`.
-/
import JPV.Impl.Parse
import JPV.Spec.Grammar
import JPV.Spec.Valid
import JPV.Spec.Typing
import JPV.Proofs.Cs.Shape
namespace JPV.Proofs.Cf
open JPV JPV.Impl

/-! ### keyword-prefixed function names (the hypothesis `compile_complete` needed before the lexer's keyword
patterns got their lookahead; kept for `compile_complete_kwfree`) -/

/-- the name begins with one of the keyword literals the lexer tries before function names -/
def kwName (n : Str) : Bool :=
  ['t', 'r', 'u', 'e'].isPrefixOf n || ['f', 'a', 'l', 's', 'e'].isPrefixOf n || ['n', 'u', 'l', 'l'].isPrefixOf n

/-- no registered function extension has a name that begins with `true`, `false` or `null` -/
def KwFree (env : Env) : Prop := ∀ n, (env.func n).isSome = true → kwName n = false

/-! ### literal tokens -/

/-- what `parse_integer_literal` makes of an INT token's text -/
def numOfIntTok (v : Str) : Option Num :=
  match Py.intOfFloatText v with
  | some (some i) => some (Num.ofInt i)
  | some none => Py.floatOfText v
  | none => none

/-- `t` is a literal token that the parser's literal handlers turn into the JSON value `v` -/
inductive LitTok : Token → Json → Prop
  | true_ (tv : Str) (k : Int) : LitTok ⟨.true_, tv, k⟩ (.bool true)
  | false_ (tv : Str) (k : Int) : LitTok ⟨.false_, tv, k⟩ (.bool false)
  | null (tv : Str) (k : Int) : LitTok ⟨.null, tv, k⟩ .null
  | str (q : Char) (body s : Str) (k : Int) : (q = '\'' ∨ q = '"') →
      decodeStringLiteral (strKind q) body = .ok s → LitTok ⟨strKind q, body, k⟩ (.str s)
  | int (tv : Str) (k : Int) (x : Num) : hasLeadingZero tv = false → numOfIntTok tv = some x →
      LitTok ⟨.int, tv, k⟩ (.num x)
  | float (tv : Str) (k : Int) (x : Num) : hasLeadingZero tv = false → Py.floatOfText tv = some x →
      LitTok ⟨.float, tv, k⟩ (.num x)

/-- the token kind of a comparison operator -/
def copKind : COp → TokKind
  | .eq => .eq
  | .ne => .ne
  | .lt => .lt
  | .le => .le
  | .gt => .gt
  | .ge => .ge

/-- not a literal -/
def notLit : Spec.CExpr → Bool
  | .lit _ => false
  | _ => true

/-! ### expressions, selectors and segments (mutually: a filter query contains segments) -/

mutual

/-- literal / filter-query / function-expr -/
inductive TermShape : Spec.CExpr → List Token → Prop
  | lit (t : Token) (v : Json) : LitTok t v → TermShape (.lit v) [t]
  | rel (q : List Spec.CSegment) (ts : List Token) (tv : Str) (k : Int) : FSegsShape q ts →
      TermShape (.rel q) (⟨.current, tv, k⟩ :: ts)
  | root (q : List Spec.CSegment) (ts : List Token) (tv : Str) (k : Int) : FSegsShape q ts →
      TermShape (.root q) (⟨.root, tv, k⟩ :: ts)
  /-- the lexer emits FUNCTION for `name(` and RPAREN for the closing parenthesis -/
  | call (name : Str) (args : List Spec.CExpr) (ts : List Token) (k : Int) (tv' : Str) (k' : Int) :
      ArgsShape args ts →
      TermShape (.call name args) (⟨.function, name, k⟩ :: (ts ++ [⟨.rparen, tv', k'⟩]))

/-- basic-expr = paren-expr / comparison-expr / test-expr -/
inductive BasicShape : Spec.CExpr → List Token → Prop
  | paren (e : Spec.CExpr) (ts : List Token) (v1 : Str) (k1 : Int) (v2 : Str) (k2 : Int) : OrShape e ts →
      BasicShape (.paren e) (⟨.lparen, v1, k1⟩ :: (ts ++ [⟨.rparen, v2, k2⟩]))
  | notParen (e : Spec.CExpr) (ts : List Token) (v0 : Str) (k0 : Int) (v1 : Str) (k1 : Int) (v2 : Str) (k2 : Int) :
      OrShape e ts →
      BasicShape (.not (.paren e)) (⟨.not, v0, k0⟩ :: ⟨.lparen, v1, k1⟩ :: (ts ++ [⟨.rparen, v2, k2⟩]))
  | notTerm (e : Spec.CExpr) (ts : List Token) (v0 : Str) (k0 : Int) : TermShape e ts → notLit e = true →
      BasicShape (.not e) (⟨.not, v0, k0⟩ :: ts)
  | cmp (op : COp) (l r : Spec.CExpr) (tl tr : List Token) (v : Str) (k : Int) : TermShape l tl → TermShape r tr →
      BasicShape (.cmp op l r) (tl ++ ⟨copKind op, v, k⟩ :: tr)
  | test (e : Spec.CExpr) (ts : List Token) : TermShape e ts → notLit e = true → BasicShape e ts

/-- logical-and-expr = basic-expr *(S "&&" S basic-expr), nested to the right as `Spec.logicalAnd` does -/
inductive AndShape : Spec.CExpr → List Token → Prop
  | one (e : Spec.CExpr) (ts : List Token) : BasicShape e ts → AndShape e ts
  | and (l r : Spec.CExpr) (tl tr : List Token) (v : Str) (k : Int) : BasicShape l tl → AndShape r tr →
      AndShape (.and l r) (tl ++ ⟨.and, v, k⟩ :: tr)

/-- logical-or-expr = logical-and-expr *(S "||" S logical-and-expr), nested to the right -/
inductive OrShape : Spec.CExpr → List Token → Prop
  | one (e : Spec.CExpr) (ts : List Token) : AndShape e ts → OrShape e ts
  | or (l r : Spec.CExpr) (tl tr : List Token) (v : Str) (k : Int) : AndShape l tl → OrShape r tr →
      OrShape (.or l r) (tl ++ ⟨.or, v, k⟩ :: tr)

/-- function-argument: a literal standing alone, or a logical-expr -/
inductive ArgShape : Spec.CExpr → List Token → Prop
  | lit (t : Token) (v : Json) : LitTok t v → ArgShape (.lit v) [t]
  | expr (e : Spec.CExpr) (ts : List Token) : OrShape e ts → ArgShape e ts

/-- `*(S "," S function-argument)` -/
inductive MoreArgsShape : List Spec.CExpr → List Token → Prop
  | nil : MoreArgsShape [] []
  | cons (a : Spec.CExpr) (as : List Spec.CExpr) (v : Str) (k : Int) (t1 t2 : List Token) :
      ArgShape a t1 → MoreArgsShape as t2 → MoreArgsShape (a :: as) (⟨.comma, v, k⟩ :: (t1 ++ t2))

/-- the arguments of a function expression (between FUNCTION and RPAREN) -/
inductive ArgsShape : List Spec.CExpr → List Token → Prop
  | nil : ArgsShape [] []
  | cons (a : Spec.CExpr) (as : List Spec.CExpr) (t1 t2 : List Token) :
      ArgShape a t1 → MoreArgsShape as t2 → ArgsShape (a :: as) (t1 ++ t2)

inductive FSelShape : Spec.CSelector → List Token → Prop
  /-- name / index / slice / wildcard selectors, as in the filter-free fragment -/
  | plain (s : Spec.CSelector) (ts : List Token) : Cs.SelShape s ts → FSelShape s ts
  | filter (e : Spec.CExpr) (ts : List Token) (v : Str) (k : Int) : OrShape e ts →
      FSelShape (.filter e) (⟨.filter, v, k⟩ :: ts)

/-- `*(S "," S selector)` -/
inductive FMoreShape : List Spec.CSelector → List Token → Prop
  | nil : FMoreShape [] []
  | cons (s : Spec.CSelector) (ss : List Spec.CSelector) (k : Int) (t1 t2 : List Token) :
      FSelShape s t1 → FMoreShape ss t2 → FMoreShape (s :: ss) (⟨.comma, [','], k⟩ :: (t1 ++ t2))

/-- the selectors inside brackets -/
inductive FSelsShape : List Spec.CSelector → List Token → Prop
  | mk (s : Spec.CSelector) (ss : List Spec.CSelector) (t1 t2 : List Token) :
      FSelShape s t1 → FMoreShape ss t2 → FSelsShape (s :: ss) (t1 ++ t2)

inductive FSegShape : Spec.CSegment → List Token → Prop
  | dotName (s : Str) (k : Int) : FSegShape (.child [.name s] false) [⟨.property, s, k⟩]
  | dotWild (k : Int) : FSegShape (.child [.wild] false) [⟨.wild, ['*'], k⟩]
  | brack (sels : List Spec.CSelector) (fl : Bool) (ts : List Token) (k k' : Int) : FSelsShape sels ts →
      FSegShape (.child sels fl) (⟨.lbracket, ['['], k⟩ :: (ts ++ [⟨.rbracket, [']'], k'⟩]))
  | descName (s : Str) (k k' : Int) :
      FSegShape (.desc [.name s]) [⟨.doubleDot, ['.', '.'], k⟩, ⟨.property, s, k'⟩]
  | descWild (k k' : Int) : FSegShape (.desc [.wild]) [⟨.doubleDot, ['.', '.'], k⟩, ⟨.wild, ['*'], k'⟩]
  | descBrack (sels : List Spec.CSelector) (ts : List Token) (k0 k k' : Int) : FSelsShape sels ts →
      FSegShape (.desc sels)
        (⟨.doubleDot, ['.', '.'], k0⟩ :: ⟨.lbracket, ['['], k⟩ :: (ts ++ [⟨.rbracket, [']'], k'⟩]))

inductive FSegsShape : List Spec.CSegment → List Token → Prop
  | nil : FSegsShape [] []
  | cons (s : Spec.CSegment) (ss : List Spec.CSegment) (t1 t2 : List Token) :
      FSegShape s t1 → FSegsShape ss t2 → FSegsShape (s :: ss) (t1 ++ t2)

end

end JPV.Proofs.Cf
