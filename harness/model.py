"""Run the Lean model driver (lean/Main.lean) on a batch of request lines."""
from __future__ import annotations

import os
import subprocess
import sys

VERIF = os.path.dirname(os.path.dirname(os.path.abspath(__file__)))
LEAN_DIR = os.path.join(VERIF, "lean")


class ModelError(RuntimeError):
    pass


def run_batch(lines, timeout=2700):
    """Send request lines to the driver; return the reply lines (same length)."""
    if not lines:
        return []
    for ln in lines:
        if "\n" in ln:
            raise ValueError("newline inside a request")
    data = "\n".join(lines) + "\n"
    proc = subprocess.run(
        ["lake", "env", "lean", "--run", "Main.lean"],
        cwd=LEAN_DIR,
        input=data.encode("ascii"),
        stdout=subprocess.PIPE,
        stderr=subprocess.PIPE,
        timeout=timeout,
    )
    out = proc.stdout.decode("ascii", "replace").split("\n")
    if out and out[-1] == "":
        out.pop()
    if proc.returncode != 0 or len(out) != len(lines):
        raise ModelError(
            f"driver exit={proc.returncode} replies={len(out)}/{len(lines)} "
            f"stderr={proc.stderr.decode('utf8', 'replace')[-2000:]}"
        )
    return out


def run_batch_parallel(lines, jobs=8, timeout=2700):
    """Split a big batch over several driver processes."""
    if len(lines) < 2000 or jobs <= 1:
        return run_batch(lines, timeout)
    from concurrent.futures import ThreadPoolExecutor

    n = len(lines)
    if n > 40000:
        jobs = max(jobs, 14)  # the thorough tier's big batches: more, shorter driver processes
    step = (n + jobs - 1) // jobs
    chunks = [lines[i : i + step] for i in range(0, n, step)]
    with ThreadPoolExecutor(max_workers=jobs) as ex:
        parts = list(ex.map(lambda c: run_batch(c, timeout), chunks))
    out = []
    for p in parts:
        out.extend(p)
    return out
