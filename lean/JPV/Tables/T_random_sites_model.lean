import JPV.Tables.Common
namespace JPV.Tables
open JPV JPV.Impl

/-- the use of `random`, EXECUTED over a fixed corpus with every public callable of the module replaced by a recorder
(`gen_tables.extract_random_behaviour`): deterministic mode does not touch `random` at all (no row), and nondeterministic
mode calls exactly the three functions the choice-script model covers, in the shapes it reads them in — `choice([True,
False])` (visit now or later), `sample(population, len(population))` (queue interleaving), `shuffle(list)` (object
members) — through the module-level names, which is where the scripted chooser of Tie B replaces them -/
theorem random_sites_model : Generated.randomCalls =
    [("nondeterministic", "random.choice:[True, False]", 1),
     ("nondeterministic", "random.sample:k=len(population)", 1),
     ("nondeterministic", "random.shuffle:list", 1)] := by decide +kernel

end JPV.Tables
