import JPV.Tables.Common
namespace JPV.Tables
open JPV JPV.Impl

theorem precedence_consts :
    ((Impl.precLowest : Int), (Impl.precOr : Int), (Impl.precAnd : Int), (Impl.precRelational : Int), (Impl.precPrefix : Int)) =
    (constOf "PRECEDENCE_LOWEST", constOf "PRECEDENCE_LOGICAL_OR", constOf "PRECEDENCE_LOGICAL_AND",
     constOf "PRECEDENCE_RELATIONAL", constOf "PRECEDENCE_PREFIX") := by decide +kernel

end JPV.Tables
