import JPV.Impl.Serialize
import JPV.Proofs.PrinterStr
import JPV.Proofs.PrinterInt
import JPV.Proofs.PathsCanon
import JPV.Spec.Typing
namespace JPV.Proofs.Prn
open JPV JPV.Proofs

/-- `rest` begins with `,` or `]` -/
def Sep (rest : List Char) : Prop := ∃ t, rest = ',' :: t ∨ rest = ']' :: t

theorem Sep.noDigit {rest} (h : Sep rest) : NoDigit rest := by
  obtain ⟨t, rfl | rfl⟩ := h <;> intro c t' e <;> simp only [List.cons.injEq] at e <;>
    rw [← e.1] <;> decide

theorem noDigit_colon (t : List Char) : NoDigit (':' :: t) := by
  intro c t' e; simp only [List.cons.injEq] at e; rw [← e.1]; decide

theorem skipS_cons {c : Char} (h : Spec.isBlank c = false) (t : List Char) :
    Spec.skipS (c :: t) = c :: t := by
  simp [Spec.skipS, h]

theorem Sep.skipS {rest} (h : Sep rest) : Spec.skipS rest = rest := by
  obtain ⟨t, rfl | rfl⟩ := h <;> exact skipS_cons (by decide) _

theorem lit_colon (t : List Char) : Spec.lit ":" (':' :: t) = some t := by
  have : ":".length = 1 := by decide
  simp [Spec.lit, List.isPrefixOf, this]

theorem Sep.lit_colon {rest} (h : Sep rest) : Spec.lit ":" rest = none := by
  obtain ⟨t, rfl | rfl⟩ := h <;> simp [Spec.lit, List.isPrefixOf]

/-- the first character of a printed integer -/
theorem reprInt_head (i : Int) : ∃ c t, Py.reprInt i = c :: t ∧ (Spec.isDIGIT c = true ∨ c = '-') := by
  rw [reprInt_eq]
  split
  · cases h : Nat.toDigits 10 i.toNat with
    | nil => exact absurd h Nat.toDigits_ne_nil
    | cons d ds => exact ⟨d, ds, rfl, Or.inl (toDigits_isDIGIT _ d (by rw [h]; simp))⟩
  · exact ⟨_, _, rfl, Or.inr rfl⟩

theorem intHead_notBlank {c : Char} (h : Spec.isDIGIT c = true ∨ c = '-') : Spec.isBlank c = false := by
  rcases h with h | rfl
  · rw [isDIGIT_iff] at h
    simp only [Spec.isBlank, Bool.or_eq_false_iff, decide_eq_false_iff_not]
    refine ⟨⟨⟨?_, ?_⟩, ?_⟩, ?_⟩ <;> rintro rfl <;> revert h <;> decide
  · decide

theorem skipS_reprInt (i : Int) (t : List Char) : Spec.skipS (Py.reprInt i ++ t) = Py.reprInt i ++ t := by
  obtain ⟨c, u, e, h⟩ := reprInt_head i
  rw [e]
  exact skipS_cons (intHead_notBlank h) _

theorem intLit_colon (t : List Char) : Spec.intLit (':' :: t) = none := by
  simp [Spec.intLit, Spec.isDIGIT1]

/-- the printed step of a slice -/
def stepStr : Option Int → Str
  | none => ['1']
  | some i => Py.reprInt i

theorem slice_parse (a b c : Option Int) (rest : List Char) (hr : Sep rest) :
    Spec.sliceSelector (Impl.optIntStr a ++ [':'] ++ Impl.optIntStr b ++ [':'] ++ stepStr c ++ rest)
      = some (.slice a b (some (c.getD 1)), rest) := by
  have h1 : stepStr c = Py.reprInt (c.getD 1) := by
    cases c with
    | none => decide
    | some i => rfl
  rw [h1]
  cases a <;> cases b <;>
    simp [Spec.sliceSelector, Impl.optIntStr, intLit_colon, lit_colon, skipS_reprInt,
      intLit_reprInt _ _ (noDigit_colon _), intLit_reprInt _ _ hr.noDigit,
      skipS_cons (show Spec.isBlank ':' = false by decide)]


theorem strSel_name (s : Str) : Impl.strSel (.name s) = Impl.canonicalString s := by
  rw [Impl.strSel]
theorem strSel_index (i : Int) : Impl.strSel (.index i) = Py.reprInt i := by
  rw [Impl.strSel]
theorem strSel_wild : Impl.strSel .wild = ['*'] := by
  rw [Impl.strSel]
theorem strSel_slice (a b c) : Impl.strSel (.slice a b c) = Impl.optIntStr a ++ [':'] ++ Impl.optIntStr b ++ [':'] ++ stepStr c := by
  rw [Impl.strSel.eq_def]; rfl
theorem strSels_nil : Impl.strSels [] = [] := by rw [Impl.strSels]
theorem strSels_one (s) : Impl.strSels [s] = Impl.strSel s := by rw [Impl.strSels]
theorem strSels_cons (s t ss) : Impl.strSels (s :: t :: ss) = Impl.strSel s ++ [',', ' '] ++ Impl.strSels (t :: ss) := by rw [Impl.strSels]; simp
theorem strSegs_nil : Impl.strSegs [] = [] := by rw [Impl.strSegs]
theorem strSegs_child (sels rest) : Impl.strSegs (.child sels :: rest) = ['['] ++ Impl.strSels sels ++ [']'] ++ Impl.strSegs rest := by rw [Impl.strSegs]
theorem strSegs_desc (sels rest) : Impl.strSegs (.desc sels :: rest) = ['.', '.', '['] ++ Impl.strSels sels ++ [']'] ++ Impl.strSegs rest := by rw [Impl.strSegs]

/-- what a printed selector reparses to -/
def cselOf : Selector → Spec.CSelector
  | .name s => .name s
  | .index i => .index i
  | .slice a b c => .slice a b (some (c.getD 1))
  | .wild => .wild
  | .filter _ => .wild

def isFilter : Selector → Bool
  | .filter _ => true
  | _ => false

theorem selector_wild (fuel : Nat) (r : List Char) :
    Spec.selector (fuel + 1) ('*' :: r) = some (.wild, r) := by rw [Spec.selector]

theorem selector_other (fuel : Nat) (c : Char) (t : List Char) (h1 : c ≠ '*') (h2 : c ≠ '?') :
    Spec.selector (fuel + 1) (c :: t) =
      match Spec.stringLiteral (c :: t) with
      | some (s, r) => some (.name s, r)
      | none =>
        match Spec.sliceSelector (c :: t) with
        | some res => some res
        | none => (Spec.intLit (c :: t)).map (fun (i, r) => (.index i, r)) := by
  rw [Spec.selector]
  · rfl
  · intro r h; simp only [List.cons.injEq] at h; exact h1 h.1
  · intro r h; simp only [List.cons.injEq] at h; exact h2 h.1

theorem stringLiteral_other (c : Char) (t : List Char) (h1 : c ≠ '"') (h2 : c ≠ '\'') :
    Spec.stringLiteral (c :: t) = none := by
  rw [Spec.stringLiteral]
  · intro r h; simp only [List.cons.injEq] at h; exact h1 h.1
  · intro r h; simp only [List.cons.injEq] at h; exact h2 h.1

theorem selector_print (sel : Selector) (hf : isFilter sel = false) (fuel : Nat) (rest : List Char)
    (hr : Sep rest) :
    Spec.selector (fuel + 1) (Impl.strSel sel ++ rest) = some (cselOf sel, rest) := by
  cases sel with
  | wild => rw [strSel_wild]; exact selector_wild _ _
  | filter e => simp [isFilter] at hf
  | name s =>
    rw [strSel_name, canonicalString_eq]
    have e : Spec.normalName s ++ rest = '\'' :: (s.flatMap Spec.normalChar ++ '\'' :: rest) := by
      simp [Spec.normalName]
    have := stringLiteral_normalName s rest
    rw [e] at this ⊢
    rw [selector_other _ _ _ (by decide) (by decide), this]
    rfl
  | index i =>
    rw [strSel_index]
    have hi := intLit_reprInt i rest hr.noDigit
    have hs : Spec.sliceSelector (Py.reprInt i ++ rest) = none := by
      simp [Spec.sliceSelector, hi, hr.skipS, hr.lit_colon]
    obtain ⟨c, u, e, h⟩ := reprInt_head i
    rw [e] at hi hs ⊢
    have c1 : c ≠ '*' := by rintro rfl; revert h; decide
    have c2 : c ≠ '?' := by rintro rfl; revert h; decide
    have c3 : c ≠ '"' := by rintro rfl; revert h; decide
    have c4 : c ≠ '\'' := by rintro rfl; revert h; decide
    simp only [List.cons_append] at hi hs ⊢
    rw [selector_other _ _ _ c1 c2, stringLiteral_other _ _ c3 c4, hs, hi]
    rfl
  | slice a b c =>
    rw [strSel_slice]
    have hs := slice_parse a b c rest hr
    have hh : ∃ d t, Impl.optIntStr a ++ [':'] ++ Impl.optIntStr b ++ [':'] ++
        stepStr c ++ rest = d :: t ∧
        (Spec.isDIGIT d = true ∨ d = '-' ∨ d = ':') := by
      cases a with
      | none => exact ⟨':', _, rfl, Or.inr (Or.inr rfl)⟩
      | some i =>
        obtain ⟨d, u, e, h⟩ := reprInt_head i
        refine ⟨d, ?_, by simp only [Impl.optIntStr, e, List.cons_append]; rfl, ?_⟩
        rcases h with h | h
        · exact Or.inl h
        · exact Or.inr (Or.inl h)
    obtain ⟨d, t, e, h⟩ := hh
    rw [e] at hs ⊢
    have c1 : d ≠ '*' := by rintro rfl; revert h; decide
    have c2 : d ≠ '?' := by rintro rfl; revert h; decide
    have c3 : d ≠ '"' := by rintro rfl; revert h; decide
    have c4 : d ≠ '\'' := by rintro rfl; revert h; decide
    rw [selector_other _ _ _ c1 c2, stringLiteral_other _ _ c3 c4, hs]
    rfl

end JPV.Proofs.Prn
