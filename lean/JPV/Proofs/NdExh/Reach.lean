import JPV.Impl.NonDet
import JPV.Spec.NonDet
/-
The REACHABLE set of the nondeterministic mode, as an executable enumeration: the evaluator of
`Impl/NonDet.lean` re-read in the list monad, every call into `random` replaced by the list of all
its outcomes (all permutations of the members of an object, both sides of the coin, all
order-preserving interleavings of the queue with the new entries).  No script, no choice of how
to consume it.  `Proofs/NdExh/ReachSound.lean` proves that for EVERY script the scripted evaluator's
result is in this list (filter-free queries), which turns "no script produces `r`" into a
decidable statement about a finite list.
-/
namespace JPV.Impl.ND

/-- what a stage produces: the nodes yielded, and the exception that ended it -/
abbrev Res := List Node × Option ErrKind

/-- a stage in the list monad: all results on one node -/
abbrev KA := Node → List Res

def Out.res (o : Out) : Res := (o.nodes, o.err)

def mergesGo {α} (x : α) (q : List α) (rec : List α → List (List α)) : List α → List (List α)
  | [] => [x :: q]
  | y :: g => (rec (y :: g)).map (fun m => x :: m) ++ (mergesGo x q rec g).map (fun m => y :: m)

/-- all order-preserving interleavings of two lists -/
def merges {α} : List α → List α → List (List α)
  | [] => fun g => [g]
  | x :: q => mergesGo x q (merges q)

/-- all outcomes of `_nondeterministic_children(node)` -/
def ndChildrenA (n : Node) : List (List Node) :=
  match n.val with
  | .obj kvs => (Spec.ND.perms kvs).map (objChildren n)
  | .arr xs => [arrChildren n xs]
  | _ => [[]]

def forEachA (K : KA) : List Node → List Res
  | [] => [([], none)]
  | n :: rest =>
    (K n).flatMap (fun r =>
      match r.2 with
      | some e => [(r.1, some e)]
      | none => (forEachA K rest).map (fun r2 => (r.1 ++ r2.1, r2.2)))

def visitChildrenNowA (max : Int) (depth : Nat) (K : KA) :
    List Node → List (Node × Nat) → List Node → List (List (Node × Nat) × Res)
  | [], queue, acc => [(queue, (acc, none))]
  | c :: cs, queue, acc =>
    if isDeep max c (depth + 1) then [(queue, (acc, some .recursion))] else
    (K c).flatMap (fun r =>
      match r.2 with
      | some e => [(queue, (acc ++ r.1, some e))]
      | none =>
        (ndChildrenA c).flatMap (fun gcs =>
          (merges queue (gcs.map (fun g => (g, depth + 2)))).flatMap (fun queue' =>
            visitChildrenNowA max depth K cs queue' (acc ++ r.1))))

def visitLoopA (max : Int) (K : KA) : Nat → List (Node × Nat) → List Node → List Res
  | 0, _, acc => [(acc, some .fuel)]
  | _ + 1, [], acc => [(acc, none)]
  | fuel + 1, (node, depth) :: queue, acc =>
    if isDeep max node depth then [(acc, some .recursion)] else
    (K node).flatMap (fun r =>
      match r.2 with
      | some e => [(acc ++ r.1, some e)]
      | none =>
        (ndChildrenA node).flatMap (fun cs =>
          ((visitChildrenNowA max depth K cs queue (acc ++ r.1)).flatMap (fun p =>
            match p.2.2 with
            | some e => [(p.2.1, some e)]
            | none => visitLoopA max K fuel p.1 p.2.1))
          ++ visitLoopA max K fuel (queue ++ cs.map (fun c => (c, depth + 1))) (acc ++ r.1)))

def visitA (max : Int) (root : Node) (K : KA) : List Res :=
  (K root).flatMap (fun r =>
    match r.2 with
    | some e => [(r.1, some e)]
    | none =>
      (ndChildrenA root).flatMap (fun cs =>
        visitLoopA max K (root.val.size + 1) (cs.map (fun c => (c, 1))) r.1))

/-- filter selectors are outside the enumeration (no result listed) -/
def runSelA (K : KA) : Selector → Node → List Res
  | .name nm, n => forEachA K (selName nm n)
  | .index i, n => forEachA K (selIndex i n)
  | .slice a b c, n => forEachA K (selSlice a b c n)
  | .wild, n => (ndChildrenA n).flatMap (forEachA K)
  | .filter _, _ => []

def runSelsA (K : KA) : List Selector → Node → List Res
  | [], _ => [([], none)]
  | sel :: sels, n =>
    (runSelA K sel n).flatMap (fun r =>
      match r.2 with
      | some e => [(r.1, some e)]
      | none => (runSelsA K sels n).map (fun r2 => (r.1 ++ r2.1, r2.2)))

def runSegsA (max : Int) : List Segment → Node → List Res
  | [], n => [([n], none)]
  | .child sels :: rest, n => runSelsA (runSegsA max rest) sels n
  | .desc sels :: rest, n => visitA max n (fun m => runSelsA (runSegsA max rest) sels m)

def Res.toExcept (r : Res) : Except ErrKind (List Node) :=
  match r.2 with
  | some e => .error e
  | none => .ok r.1

/-- everything `find(query, value)` can return in nondeterministic mode (filter-free queries) -/
def findA (env : Env) (q : Query) (v : Json) : List (Except ErrKind (List Node)) :=
  (runSegsA env.maxDepth q ⟨[], v⟩).map Res.toExcept

end JPV.Impl.ND
