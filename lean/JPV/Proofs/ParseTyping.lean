import JPV.Impl.Parse
import JPV.Spec.Typing
import JPV.Proofs.ParseSteps
namespace JPV.Proofs
open JPV

/-- the signature table of an environment (same definition as `Props.sigsOfEnv`) -/
def sigsOfEnv' (env : Impl.Env) : Spec.Sigs :=
  fun n => (env.func n).map (fun f => ⟨f.argTypes, f.ret⟩)

/-- What the parser's expression functions return: an expression that is
well-typed as a test or as a comparable (a literal, a singular query or a
ValueType call); which of the two is decided later by the context. -/
def Built (env : Impl.Env) (e : Expr) : Prop :=
  Spec.wtTest (sigsOfEnv' env) e = true ∨ Spec.wtComparable (sigsOfEnv' env) e = true

theorem argWellTyped_iff (env : Impl.Env) (t : Ty) (a : Expr) (h : Built env a) :
    Impl.argWellTyped env t a = true ↔
      (match t with
       | .value => Spec.wtComparable (sigsOfEnv' env) a = true
       | .logical => Spec.wtTest (sigsOfEnv' env) a = true
       | .nodes => Spec.wtNodes (sigsOfEnv' env) a = true) :=
  argWellTyped_iff' env t a h

theorem compile_welltyped : ∀ (env : Impl.Env) (s : Str) (q : Query), Impl.compile env s = .ok q →
    Spec.wtQuery (sigsOfEnv' env) q = true ∧ Spec.intsQuery env.minIdx env.maxIdx q = true :=
  fun env s q h => compile_welltyped' env s q h

end JPV.Proofs
