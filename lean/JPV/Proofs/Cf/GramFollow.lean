/-
`Proofs.Cf.GramFollow` — what can follow a term / a basic expression in a derivable filter (the facts the
lexer simulation needs to know that a number or a query ends where the grammar says it does).
-/
import JPV.Proofs.Cf.GramInv
import JPV.Proofs.Cf.Num
namespace JPV.Proofs.Cf
open JPV

/-- first characters of what can follow a term: a comparison operator, `&&`, `||`, `)`, `,`, `]` -/
def tfChar (c : Char) : Bool :=
  c = '=' || c = '!' || c = '<' || c = '>' || c = '&' || c = '|' || c = ')' || c = ',' || c = ']'

/-- first characters of what can follow a basic expression: `&&`, `||`, `)`, `,`, `]` -/
def bfChar (c : Char) : Bool := c = '&' || c = '|' || c = ')' || c = ',' || c = ']'

/-- after blank space comes something that can follow a term -/
def TFollow (r : List Char) : Prop := ∃ c t, Spec.skipS r = c :: t ∧ tfChar c = true

/-- after blank space comes something that can follow a basic expression -/
def BFollow (r : List Char) : Prop := ∃ c t, Spec.skipS r = c :: t ∧ bfChar c = true

theorem BFollow.toT {r : List Char} (h : BFollow r) : TFollow r := by
  obtain ⟨c, t, e, hc⟩ := h
  refine ⟨c, t, e, ?_⟩
  simp only [bfChar, tfChar, Bool.or_eq_true, decide_eq_true_eq] at hc ⊢
  rcases hc with (((h | h) | h) | h) | h <;> simp [h]

theorem BFollow.of_head {r t : List Char} {c : Char} (e : Spec.skipS r = c :: t) (hc : bfChar c = true) :
    BFollow r := ⟨c, t, e, hc⟩

theorem TFollow.of_head {r t : List Char} {c : Char} (e : Spec.skipS r = c :: t) (hc : tfChar c = true) :
    TFollow r := ⟨c, t, e, hc⟩

theorem TFollow.of_cmp {r r2 : List Char} {op : COp} (h : Spec.comparisonOp (Spec.skipS r) = some (op, r2)) :
    TFollow r := by
  obtain ⟨e, _⟩ := comparisonOp_inv h
  obtain ⟨c, t, ec, hc⟩ := copChars_head op
  rw [ec] at e
  refine ⟨c, t ++ r2, e, ?_⟩
  rcases hc with rfl | rfl | rfl | rfl <;> decide

/-- `Cs.Follow` (`,` or `]` next) is a basic-expression follow -/
theorem BFollow.of_follow {r : List Char} (h : Cs.Follow r) : BFollow r := by
  obtain ⟨t, h | h⟩ := h
  · exact ⟨',', t, h, by decide⟩
  · exact ⟨']', t, h, by decide⟩

theorem tfChar_not_ws {c : Char} (h : tfChar c = true) : Impl.isWs c = false := by
  simp only [tfChar, Bool.or_eq_true, decide_eq_true_eq] at h
  rcases h with (((((((h | h) | h) | h) | h) | h) | h) | h) | h <;> subst h <;> decide

theorem tfChar_not_seg {c : Char} (h : tfChar c = true) : c ≠ '.' ∧ c ≠ '[' := by
  simp only [tfChar, Bool.or_eq_true, decide_eq_true_eq] at h
  rcases h with (((((((h | h) | h) | h) | h) | h) | h) | h) | h <;> subst h <;> decide

theorem tfChar_numFollow {c : Char} (h : tfChar c = true) :
    Impl.isDigit c = false ∧ c ≠ '.' ∧ c ≠ 'e' ∧ c ≠ 'E' := by
  simp only [tfChar, Bool.or_eq_true, decide_eq_true_eq] at h
  rcases h with (((((((h | h) | h) | h) | h) | h) | h) | h) | h <;> subst h <;> decide

/-- what follows a term cannot continue a number -/
theorem TFollow.numFollow {r : List Char} (h : TFollow r) : NumFollow r := by
  obtain ⟨c, t, e, hc⟩ := h
  intro d u hr
  subst hr
  by_cases hw : Impl.isWs d = true
  · have : ((d = ' ' ∨ d = '\n') ∨ d = '\r') ∨ d = '\t' := by simpa [Impl.isWs] using hw
    rcases this with ((rfl | rfl) | rfl) | rfl <;> decide
  · rw [Cs.skipS_of_head (by simpa using hw)] at e
    simp only [List.cons.injEq] at e
    rw [e.1]
    exact tfChar_numFollow hc

/-! ### function names -/

theorem functionName_inv {inp t : List Char} {name : Str} (h : Spec.functionName inp = some (name, '(' :: t)) :
    inp = name ++ '(' :: t ∧ ∃ c rest, name = c :: rest ∧ Impl.isLower c = true ∧ ∀ d ∈ rest, (Impl.isLower d || d = '_' || Impl.isDigit d) = true := by
  unfold Spec.functionName at h
  split at h
  · rename_i c r
    split at h
    · rename_i hc
      simp only [Option.some.injEq, Prod.mk.injEq] at h
      obtain ⟨rfl, h2⟩ := h
      refine ⟨?_, c, _, rfl, hc, ?_⟩
      · have := Cs.takeWhile_append_drop (fun c => Spec.isLCALPHA c || c = '_' || Spec.isDIGIT c) r
        rw [List.cons_append, ← h2]
        simp only [List.cons.injEq, true_and]
        exact this.symm
      · intro d hd
        exact Cs.takeWhile_all _ r d hd
    · cases h
  · cases h

end JPV.Proofs.Cf
