/-
`Impl.Cli` — the decision logic of cli.py `handle_path_command`: which `except`
clause of which `try` block catches an exception raised by `compile`, by
`json.load` or by `find`, and what the process then does (exit status, a
diagnostic on stderr, a traceback only under `--debug`, nothing written to the
output).  The handler tables and the exception hierarchy are the regenerated
ones (`Generated.cliTries`, `Generated.excParents`), so the theorems are about
the `except` clauses the source has now.

Modelled, not verified: `argparse`, `json.load`/`json.dump`, file objects,
process exit; compared by the `cli` correspondence (in-process and subprocess).
-/
import JPV.Generated
namespace JPV.Impl.Cli

/-- `issubclass(exc, handler)` for the classes that matter: the JSONPath hierarchy from
`Generated.excParents`, everything else by name -/
def isSubclass (exc handler : String) : Bool :=
  exc = handler ||
  (match Generated.excParents.find? (fun p => p.1 = exc) with
   | some p => p.2.contains handler
   | none => false) ||
  handler = "BaseException" || handler = "Exception"

/-- the first `except` clause of try block `i` that catches `exc`: its behaviour string -/
def catchIn (i : Nat) (exc : String) : Option String :=
  match Generated.cliTries[i]? with
  | none => none
  | some (_, clauses) =>
    (clauses.find? (fun c => c.1.any (fun h => isSubclass exc h))).map (·.2)

inductive Stage where
  | compile | evaluate
deriving DecidableEq, Repr

def Stage.tryIndex : Stage → Nat
  | .compile => 0
  | .evaluate => 1

structure Result where
  exitCode : Nat
  stderrLines : Nat
  traceback : Bool
  outputWritten : Bool
deriving DecidableEq, Repr

/-- what happens when `exc` is raised at `stage` -/
def onException (stage : Stage) (exc : String) (debug : Bool) : Result :=
  match catchIn stage.tryIndex exc with
  | some shape =>
    if shape = "reraise-if-debug+stderr+exit1" then
      if debug then ⟨1, 0, true, false⟩ else ⟨1, 1, false, false⟩
    else ⟨1, 0, true, false⟩  -- a clause of another shape: not the well-behaved pattern
  | none => ⟨1, 0, true, false⟩  -- uncaught: interpreter traceback, exit status 1

/-- every stage succeeded -/
def onSuccess : Result := ⟨0, 0, false, true⟩

/-- the exception classes compile() and find() can raise (C13) and json.load can raise -/
def jsonpathErrors : List String :=
  ["JSONPathError", "JSONPathSyntaxError", "JSONPathTypeError", "JSONPathIndexError", "JSONPathNameError",
   "JSONPathRecursionError", "JSONPathLexerError"]

def loadErrors : List String := ["JSONDecodeError", "UnicodeDecodeError"]

/-- the steps each try block wraps, and the output step after them -/
def wiring : Bool :=
  (match Generated.cliTries with
   | [(c0, _), (c1, _)] =>
     c0.contains "jsonpath.JSONPathEnvironment().compile" && c1.contains "json.load" &&
     c1.contains "path.find" && c1.contains "path.find().values"
   | _ => false) &&
  Generated.cliTail.contains "json.dump(values, args.output, indent=indent)"

end JPV.Impl.Cli
