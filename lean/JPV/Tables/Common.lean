/-
Definitions shared by the Tie A obligations (one module per obligation under `JPV/Tables/`, so that a
regenerated table that no longer matches breaks only the checks that depend on it).
-/
import JPV.Generated
import JPV.Impl.Parse
namespace JPV.Tables
open JPV JPV.Impl

def kindOfName : String → Option TokKind
  | "EOF" => some .eof | "ERROR" => some .error | "INIT" => some .init | "COLON" => some .colon
  | "COMMA" => some .comma | "DOUBLE_DOT" => some .doubleDot | "FILTER" => some .filter
  | "INDEX" => some .index | "LBRACKET" => some .lbracket | "PROPERTY" => some .property
  | "RBRACKET" => some .rbracket | "ROOT" => some .root | "WILD" => some .wild | "AND" => some .and
  | "CURRENT" => some .current | "DOUBLE_QUOTE_STRING" => some .dqString | "EQ" => some .eq
  | "FALSE" => some .false_ | "FLOAT" => some .float | "FUNCTION" => some .function | "GE" => some .ge
  | "GT" => some .gt | "INT" => some .int | "LE" => some .le | "LPAREN" => some .lparen | "LT" => some .lt
  | "NE" => some .ne | "NOT" => some .not | "NULL" => some .null | "OR" => some .or
  | "RPAREN" => some .rparen | "SINGLE_QUOTE_STRING" => some .sqString | "TRUE" => some .true_
  | _ => none


def allKinds : List TokKind :=
  [.eof, .error, .init, .colon, .comma, .doubleDot, .filter, .index, .lbracket, .property, .rbracket,
   .root, .wild, .and, .current, .dqString, .eq, .false_, .float, .function, .ge, .gt, .int, .le,
   .lparen, .lt, .ne, .not, .null, .or, .rparen, .sqString, .true_]


def lookupS {β} (k : String) : List (String × β) → Option β
  | [] => none
  | (a, b) :: r => if a = k then some b else lookupS k r


/-- a generated table keyed by token-type name, re-keyed by the model's token kinds
(`none` if some name is not a token kind the model knows) -/
def tableK {β} (t : List (String × β)) : Option (List (TokKind × β)) :=
  t.mapM (fun p => (kindOfName p.1).map (fun k => (k, p.2)))


def lookupK {β} (k : TokKind) : List (TokKind × β) → Option β
  | [] => none
  | (a, b) :: r => if a = k then some b else lookupK k r


def constOf (n : String) : Int := (lookupS n Generated.precConsts).getD 0


def opText : BinOp → String
  | .logical .and => "&&" | .logical .or => "||"
  | .cmp .eq => "==" | .cmp .ne => "!=" | .cmp .lt => "<" | .cmp .le => "<=" | .cmp .gt => ">" | .cmp .ge => ">="


def handlerName : Handler → String
  | .string => "parse_string_literal" | .boolean => "parse_boolean" | .float => "parse_float_literal"
  | .function => "parse_function_extension" | .int => "parse_integer_literal"
  | .grouped => "parse_grouped_expression" | .prefix => "parse_prefix_expression" | .null => "parse_null"
  | .rootQuery => "parse_root_query" | .relQuery => "parse_relative_query"


def tyName : Ty → String
  | .value => "VALUE" | .logical => "LOGICAL" | .nodes => "NODES"


/-- serializer precedence constants (filter_expressions.py) -/
def serConst (n : String) : Int := (lookupS n Generated.serPrecConsts).getD 0


/-! ### effect scan (C14, C16, C17) -/


/-- Names that are local variables of the function that mutates them (fresh per call). -/
def localNames : List String :=
  ["_args", "parts", "unescaped", "selectors", "function_arguments", "parenthesized_arguments", "queue"]


/-- A store is benign when its target cannot outlive the call: the `Lexer` and
`TokenStream` objects created inside one `compile()` call, local lists, the
exception in flight, and the environment's own set-up called from `__init__`. -/
def benignWrite (w : String × String) : Bool :=
  "lex.py:".toList.isPrefixOf w.1.toList ||
  "tokens.py:TokenStream.".toList.isPrefixOf w.1.toList ||
  (w.1 = "environment.py:JSONPathEnvironment.setup_function_extensions" && w.2 = "self.function_extensions[]") ||
  (w.1 = "selectors.py:FilterSelector.resolve" && w.2 = "err.token") ||
  localNames.any (fun n => w.2 = "call " ++ n ++ ".append" || w.2 = "call " ++ n ++ ".extend" ||
    w.2 = "call " ++ n ++ ".popleft" || w.2 = "call " ++ n ++ ".pop")

end JPV.Tables
