/-
`Proofs.Sf.GjAux` — small facts about the non-recursive helpers of `Spec.Grammar` and one-step unfoldings of
its fuel-indexed functions, used by `Proofs.Sf.Judge`.
-/
import JPV.Spec.Grammar
import JPV.Proofs.PfGrammar
namespace JPV.Proofs.Sf
open JPV JPV.Proofs JPV.Proofs.Prn

/-! ### blank space -/

theorem skipS_le (l : List Char) : (Spec.skipS l).length ≤ l.length := by
  induction l with
  | nil => simp [Spec.skipS]
  | cons c t ih =>
    rw [Spec.skipS]
    split
    · simp only [List.length_cons]; omega
    · exact Nat.le_refl _

theorem skipS_nil : Spec.skipS [] = [] := rfl

theorem takeWhile_length_le (p : Char → Bool) (l : List Char) : (l.takeWhile p).length ≤ l.length := by
  induction l with
  | nil => simp
  | cons c t ih =>
    rw [List.takeWhile_cons]
    split
    · simp only [List.length_cons]; omega
    · simp

/-! ### function names, literals, comparison operators -/

theorem functionName_inv {inp name rem : List Char} (h : Spec.functionName inp = some (name, rem)) :
    ∃ c t, inp = c :: t ∧ Spec.isLCALPHA c = true ∧ inp.length = name.length + rem.length ∧
      1 ≤ name.length := by
  cases inp with
  | nil => simp [Spec.functionName] at h
  | cons c t =>
    simp only [Spec.functionName] at h
    split at h
    · rename_i hc
      simp only [Option.some.injEq, Prod.mk.injEq] at h
      obtain ⟨rfl, rfl⟩ := h
      refine ⟨c, t, rfl, hc, ?_, by simp⟩
      have := takeWhile_length_le (fun c => Spec.isLCALPHA c || c = '_' || Spec.isDIGIT c) t
      simp only [List.length_cons, List.length_drop]
      omega
    · cases h

theorem lcalpha_ne {c : Char} (h : Spec.isLCALPHA c = true) (d : Char)
    (hd : Spec.isLCALPHA d = false := by decide) : c ≠ d := by
  rintro rfl; rw [hd] at h; cases h

theorem functionName_rparen (t : List Char) : Spec.functionName (')' :: t) = none := by
  simp only [Spec.functionName]
  rw [if_neg (by decide)]

theorem literal_rparen (t : List Char) : Spec.literal (')' :: t) = none := by
  have h1 : Spec.stringLiteral (')' :: t) = none := by
    rw [Spec.stringLiteral]
    all_goals first | rfl | (intros; simp_all)
  have h2 : Spec.lit "true" (')' :: t) = none := by simp [Spec.lit, List.isPrefixOf]
  have h3 : Spec.lit "false" (')' :: t) = none := by simp [Spec.lit, List.isPrefixOf]
  have h4 : Spec.lit "null" (')' :: t) = none := by simp [Spec.lit, List.isPrefixOf]
  have h5 : Spec.intLit (')' :: t) = none := by
    rw [Spec.intLit]
    · rw [if_neg (by decide)]
    all_goals first | rfl | (intros; simp_all)
  have h6 : Spec.numberSpelling (')' :: t) = none := by
    unfold Spec.numberSpelling
    simp only [h5]
    split
    · rfl
    · rename_i h
      split at h
      · rename_i h'; simp only [List.cons.injEq] at h'; exact absurd h'.1 (by decide)
      · cases h
  simp only [Spec.literal, h1, h2, h3, h4, h6]

theorem comparisonOp_bang (r : List Char) (hb : r.head? ≠ some '=') :
    Spec.comparisonOp ('!' :: r) = none := by
  cases r with
  | nil => rfl
  | cons c t =>
    have : c ≠ '=' := fun e => hb (by rw [e]; rfl)
    rw [Spec.comparisonOp]
    all_goals first | rfl | (intros; simp_all)

theorem comparisonOp_length {x r2 : List Char} {op : COp} (h : Spec.comparisonOp x = some (op, r2)) :
    r2.length < x.length := by
  unfold Spec.comparisonOp at h
  split at h <;> first
    | (simp only [Option.some.injEq, Prod.mk.injEq] at h; obtain ⟨_, rfl⟩ := h; simp only [List.length_cons]; omega)
    | cases h

theorem shorthand_length {inp rest : List Char} {s : Str} (h : Spec.shorthand inp = some (s, rest)) :
    rest.length < inp.length := by
  cases inp with
  | nil => simp [Spec.shorthand] at h
  | cons c t =>
    simp only [Spec.shorthand] at h
    split at h
    · simp only [Option.some.injEq, Prod.mk.injEq] at h
      obtain ⟨_, rfl⟩ := h
      simp only [List.length_cons, List.length_drop]
      omega
    · cases h

/-! ### nothing starts with `)` -/

theorem term_rparen (F : Nat) (t : List Char) : Spec.term F (')' :: t) = none := by
  cases F with
  | zero => rw [Spec.term]
  | succ f =>
    rw [Pf.term_other _ _ _ (by decide) (by decide), functionName_rparen, literal_rparen]
    rfl

theorem basic_rparen (F : Nat) (t : List Char) : Spec.basic F (')' :: t) = none := by
  cases F with
  | zero => rw [Spec.basic]
  | succ f =>
    rw [Pf.basic_other _ _ _ (by decide) (by decide), term_rparen]

theorem logicalAnd_rparen (F : Nat) (t : List Char) : Spec.logicalAnd F (')' :: t) = none := by
  cases F with
  | zero => rw [Spec.logicalAnd]
  | succ f => rw [Spec.logicalAnd, basic_rparen]

theorem logicalOr_rparen (F : Nat) (t : List Char) : Spec.logicalOr F (')' :: t) = none := by
  cases F with
  | zero => rw [Spec.logicalOr]
  | succ f => rw [Spec.logicalOr, logicalAnd_rparen]

theorem argument_rparen (F : Nat) (t : List Char) : Spec.argument F (')' :: t) = none := by
  cases F with
  | zero => rw [Spec.argument]
  | succ f => rw [Spec.argument, literal_rparen]; exact logicalOr_rparen _ _

/-! ### one-step unfoldings -/

theorem term_call {f : Nat} {c : Char} {t r r2 r3 r4 : List Char} {name : Str} {a : Spec.CExpr}
    {as : List Spec.CExpr} (c1 : c ≠ '@') (c2 : c ≠ '$')
    (hf : Spec.functionName (c :: t) = some (name, '(' :: r))
    (h1 : Spec.argument f (Spec.skipS r) = some (a, r2)) (h2 : Spec.moreArgs f r2 = some (as, r3))
    (h3 : Spec.skipS r3 = ')' :: r4) :
    Spec.term (f + 1) (c :: t) = some (.call name (a :: as), r4) := by
  rw [Pf.term_other _ _ _ c1 c2, hf]
  simp only
  split
  · rename_i r2' e
    rw [e, argument_rparen] at h1
    cases h1
  · simp only [h1, h2, h3]

theorem basic_bang_paren' {f : Nat} {r r' : List Char} (hb : r.head? ≠ some '=')
    (hp : Spec.skipS r = '(' :: r') :
    Spec.basic (f + 1) ('!' :: r) =
      (Spec.parenExpr f ('(' :: r')).map (fun (e, r2) => (.not e, r2)) := by
  rw [Spec.basic]
  simp only [comparisonOp_bang r hb, hp]

theorem basic_bang_term' {f : Nat} {r : List Char} (hb : r.head? ≠ some '=')
    (hp : (Spec.skipS r).head? ≠ some '(') :
    Spec.basic (f + 1) ('!' :: r) =
      match Spec.term f (Spec.skipS r) with
      | some (.lit _, _) => none
      | some (e, r2) => some (.not e, r2)
      | none => none := by
  rw [Spec.basic]
  simp only [comparisonOp_bang r hb]
  split
  · rename_i h; rw [h] at hp; exact absurd rfl hp
  · rfl

theorem parenExpr_cons {f : Nat} {r r2 r3 : List Char} {e : Spec.CExpr}
    (h1 : Spec.logicalOr f (Spec.skipS r) = some (e, r2)) (h2 : Spec.skipS r2 = ')' :: r3) :
    Spec.parenExpr (f + 1) ('(' :: r) = some (.paren e, r3) := by
  rw [Spec.parenExpr, h1]; simp only [h2]

theorem logicalAnd_and {f : Nat} {inp r1 r2 r3 : List Char} {l x : Spec.CExpr}
    (h1 : Spec.basic f inp = some (l, r1)) (h2 : Spec.skipS r1 = '&' :: '&' :: r2)
    (h3 : Spec.logicalAnd f (Spec.skipS r2) = some (x, r3)) :
    Spec.logicalAnd (f + 1) inp = some (.and l x, r3) := by
  rw [Spec.logicalAnd, h1]; simp only [h2, Pf.lit_and, h3, Option.map_some]

theorem logicalOr_or {f : Nat} {inp r1 r2 r3 : List Char} {l x : Spec.CExpr}
    (h1 : Spec.logicalAnd f inp = some (l, r1)) (h2 : Spec.skipS r1 = '|' :: '|' :: r2)
    (h3 : Spec.logicalOr f (Spec.skipS r2) = some (x, r3)) :
    Spec.logicalOr (f + 1) inp = some (.or l x, r3) := by
  rw [Spec.logicalOr, h1]; simp only [h2, Pf.lit_or, h3, Option.map_some]

theorem argument_lit' {f : Nat} {inp r : List Char} {v : Json} (h : Spec.literal inp = some (v, r))
    (h2 : (∃ t, Spec.skipS r = ',' :: t) ∨ (∃ t, Spec.skipS r = ')' :: t)) :
    Spec.argument (f + 1) inp = some (.lit v, r) := by
  rw [Spec.argument, h]
  rcases h2 with ⟨t, e⟩ | ⟨t, e⟩ <;> simp only [e]

theorem moreArgs_nil {f : Nat} {inp : List Char} (h : ∀ t, Spec.skipS inp ≠ ',' :: t) :
    Spec.moreArgs (f + 1) inp = some ([], inp) := by
  rw [Spec.moreArgs]
  split
  · rename_i r e; exact absurd e (h r)
  · rfl

theorem moreArgs_cons {f : Nat} {inp r r2 r3 : List Char} {a : Spec.CExpr} {as : List Spec.CExpr}
    (h1 : Spec.skipS inp = ',' :: r) (h2 : Spec.argument f (Spec.skipS r) = some (a, r2))
    (h3 : Spec.moreArgs f r2 = some (as, r3)) :
    Spec.moreArgs (f + 1) inp = some (a :: as, r3) := by
  rw [Spec.moreArgs]; simp only [h1, h2, h3]

theorem selector_filter (f : Nat) (r : List Char) :
    Spec.selector (f + 1) ('?' :: r) =
      (Spec.logicalOr f (Spec.skipS r)).map (fun (e, r2) => (.filter e, r2)) := by
  rw [Spec.selector]

theorem moreSelectors_nil {f : Nat} {inp : List Char} (h : ∀ t, Spec.skipS inp ≠ ',' :: t) :
    Spec.moreSelectors (f + 1) inp = some ([], inp) := by
  rw [Spec.moreSelectors]
  split
  · rename_i r e; exact absurd e (h r)
  · rfl

theorem moreSelectors_cons {f : Nat} {inp r r2 r3 : List Char} {s : Spec.CSelector} {ss : List Spec.CSelector}
    (h1 : Spec.skipS inp = ',' :: r) (h2 : Spec.selector f (Spec.skipS r) = some (s, r2))
    (h3 : Spec.moreSelectors f r2 = some (ss, r3)) :
    Spec.moreSelectors (f + 1) inp = some (s :: ss, r3) := by
  rw [Spec.moreSelectors]; simp only [h1, h2, h3]

theorem bracketed_cons {f : Nat} {r r2 r3 r5 : List Char} {s : Spec.CSelector} {ss : List Spec.CSelector}
    (h1 : Spec.selector f (Spec.skipS r) = some (s, r2)) (h2 : Spec.moreSelectors f r2 = some (ss, r3))
    (h3 : Spec.skipS r3 = ']' :: r5) :
    ∃ fl, Spec.bracketed (f + 1) ('[' :: r) = some (s :: ss, fl, r5) := by
  rw [Spec.bracketed]; simp only [h1, h2, h3]
  exact ⟨_, rfl⟩

theorem segment_dd_wild (F : Nat) (r : List Char) :
    Spec.segment (F + 1) ('.' :: '.' :: '*' :: r) = some (.desc [.wild], r) := by rw [Spec.segment]

theorem segment_dd_brack (F : Nat) (r : List Char) :
    Spec.segment (F + 1) ('.' :: '.' :: '[' :: r) =
      (Spec.bracketed F ('[' :: r)).map (fun (sels, _, r2) => (.desc sels, r2)) := by rw [Spec.segment]

theorem segment_dd_name (F : Nat) (c : Char) (r : List Char) (h1 : c ≠ '*') (h2 : c ≠ '[') :
    Spec.segment (F + 1) ('.' :: '.' :: c :: r) =
      (Spec.shorthand (c :: r)).map (fun (s, r2) => (.desc [.name s], r2)) := by
  rw [Spec.segment]
  · intro r' e; simp only [List.cons.injEq] at e; exact h1 e.1
  · intro r' e; simp only [List.cons.injEq] at e; exact h2 e.1

theorem segment_dot_wild (F : Nat) (r : List Char) :
    Spec.segment (F + 1) ('.' :: '*' :: r) = some (.child [.wild] false, r) := by rw [Spec.segment]

theorem segment_dot_name (F : Nat) (c : Char) (r : List Char) (h1 : c ≠ '.') (h2 : c ≠ '*') :
    Spec.segment (F + 1) ('.' :: c :: r) =
      (Spec.shorthand (c :: r)).map (fun (s, r2) => (.child [.name s] false, r2)) := by
  rw [Spec.segment]
  · intro r' e; simp only [List.cons.injEq] at e; exact h1 e.1
  · intro r' e; simp only [List.cons.injEq] at e; exact h2 e.1

theorem segment_brack (F : Nat) (r : List Char) :
    Spec.segment (F + 1) ('[' :: r) =
      (Spec.bracketed F ('[' :: r)).map (fun (sels, fl, r2) => (.child sels fl, r2)) := by rw [Spec.segment]

theorem segment_nil (F : Nat) : Spec.segment F [] = none := by
  cases F with
  | zero => rw [Spec.segment]
  | succ F => rw [Spec.segment]; all_goals (intros; simp_all)

theorem segments_cons {F : Nat} {inp r r2 : List Char} {seg : Spec.CSegment} {segs : List Spec.CSegment}
    (h1 : Spec.segment F (Spec.skipS inp) = some (seg, r)) (h2 : Spec.segments F r = some (segs, r2)) :
    Spec.segments (F + 1) inp = some (seg :: segs, r2) := by
  rw [Spec.segments]; simp only [h1, h2]

theorem segments_stop {F : Nat} {inp : List Char} (h : Spec.segment F (Spec.skipS inp) = none) :
    Spec.segments (F + 1) inp = some ([], inp) := by
  rw [Spec.segments]; simp only [h]

end JPV.Proofs.Sf
