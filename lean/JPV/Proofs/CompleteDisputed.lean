import JPV.Proofs.CompleteFull
namespace JPV.Proofs
open JPV JPV.Impl

/-- completeness also for the strings the recogniser marks `disputed` (blank space inside the brackets of a
singular query used as a comparison operand, where RFC 9535's ABNF and its errata disagree, D28): the
implementation accepts them too, with the derivation's query -/
theorem compile_complete_disputed (env : Env) (s : Str) (c : List Spec.CSegment)
    (hj : Spec.judge (sigsOfEnv' env) env.minIdx env.maxIdx s = (.disputed, some c)) :
    Impl.compile env s = .ok (Spec.abstractSegs c) := by
  have hpv : (Spec.parseQuery s = .valid c ∨ Spec.parseQuery s = .disputed c) ∧
      (Spec.cSegs (sigsOfEnv' env) env.minIdx env.maxIdx c).1 = true := by
    unfold Spec.judge at hj
    split at hj
    · cases hj
    · rename_i q hq
      simp only [Prod.mk.injEq, Option.some.injEq] at hj
      obtain ⟨h1, rfl⟩ := hj
      refine ⟨.inl hq, ?_⟩
      cases hr : (Spec.cSegs (sigsOfEnv' env) env.minIdx env.maxIdx q).1 with
      | true => rfl
      | false => simp [hr] at h1
    · rename_i q hq
      simp only [Prod.mk.injEq, Option.some.injEq] at hj
      obtain ⟨h1, rfl⟩ := hj
      refine ⟨.inr hq, ?_⟩
      cases hr : (Spec.cSegs (sigsOfEnv' env) env.minIdx env.maxIdx q).1 with
      | true => rfl
      | false => simp [hr] at h1
  obtain ⟨hp, hv⟩ := hpv
  obtain ⟨r, rfl, hsegs⟩ := Cf.segs_of_parseQuery hp
  obtain ⟨ts, k0, ke, hsh, htok⟩ := Cf.tokenize_full_segs r c hsegs
  obtain ⟨F0, hF0⟩ := Cf.parse_top_full env hsh hv ⟨.root, ['$'], k0⟩ ⟨.eof, [], ke⟩ rfl rfl
  unfold Impl.compile
  rw [htok]
  simp only
  generalize htoks : (⟨.root, ['$'], k0⟩ :: (ts ++ [⟨.eof, [], ke⟩]) : List Token) = toks at *
  have hbig := hF0 (max F0 (parseFuel toks.length)) (Nat.le_max_left _ _)
  have hl : ∃ t, toks.getLast? = some t ∧ t.kind = .eof := by
    subst htoks
    refine ⟨⟨.eof, [], ke⟩, ?_, rfl⟩
    rw [← List.cons_append, List.getLast?_append]
    rfl
  cases hr : (exec (parseTop env (parseFuel toks.length)) (TStream.init toks)).1 with
  | ok q =>
    have := Cf.parseTop_mono env _ _ (Nat.le_max_right F0 _) _ _ hr (by intro e he; cases he)
    rw [hbig] at this
    exact hr.trans this.symm ▸ rfl
  | error e =>
    have hnf : e.kind ≠ .fuel := parseTop_no_fuel env toks hl e hr
    have := Cf.parseTop_mono env _ _ (Nat.le_max_right F0 _) _ _ hr
      (by intro e' he'; cases he'; exact hnf)
    rw [hbig] at this
    cases this

end JPV.Proofs

