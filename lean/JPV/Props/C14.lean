/-
C14 — Evaluation is pure and repeatable; queries and environments do not interfere.

Property text: "Applying a query never modifies the JSON value it is applied to;
a compiled query gives the same nodelist every time it is applied to equal data,
regardless of which other queries were compiled or applied before on the same or
any other environment; compiling the same text again gives a query with identical
behaviour. Registering functions on, or subclassing, one environment does not
change the behaviour of any other environment or of the module-level functions."

`Impl.World` is the state a history of API calls can touch.  The theorems are
over *all finite histories* (`World.run`, induction on the operation list).
They are about the model; what makes them about the code is (i) the regenerated
effect table (`Tables.writes_benign`: no attribute store, global rebinding or
container mutation on any object that outlives a call) and (ii) the `hist`
correspondence op replaying random histories on the real objects.  The document
is an immutable value in the model; "never modifies the JSON value" is observed on
the real objects (deep snapshot before/after) and backed by (i).
-/
import JPV.Impl.Api
import JPV.Proofs.Api
namespace JPV.Props
open JPV JPV.Impl

/-- applying a query, or finding through an environment, changes nothing -/
theorem C14_apply_pure (w : World) (q : QueryId) (v : Json) : (w.step (.apply q v)).1 = w :=
  Proofs.apply_pure w q v

theorem C14_envFind_pure (w : World) (e : EnvId) (s : Str) (v : Json) : (w.step (.envFind e s v)).1 = w :=
  Proofs.envFind_pure w e s v

/-- the outcome of applying a query is a function of its AST, its environment's
current configuration and the value: nothing else in the world matters -/
theorem C14_apply_deterministic (w1 w2 : World) (q1 q2 : QueryId) (v : Json) (e1 e2 : EnvId) (ast : Query) (env : Env)
    (h1 : w1.query q1 = some (e1, ast)) (h2 : w2.query q2 = some (e2, ast))
    (g1 : w1.env e1 = some env) (g2 : w2.env e2 = some env) :
    (w1.step (.apply q1 v)).2 = (w2.step (.apply q2 v)).2 := Proofs.apply_deterministic w1 w2 q1 q2 v e1 e2 ast env h1 h2 g1 g2

/-- History irrelevance: after ANY finite history that registers nothing on environment `e`,
a query compiled on `e` before the history gives exactly the outcome it gave before. -/
def C14_history_statement : Prop :=
  ∀ (w : World) (ops : List Op) (q : QueryId) (e : EnvId) (ast : Query) (v : Json),
    w.WF → w.query q = some (e, ast) →
    (∀ op ∈ ops, ∀ name f, op ≠ .register e name f) →
    ((w.run ops).step (.apply q v)).2 = (w.step (.apply q v)).2

theorem C14_history : C14_history_statement := Proofs.history_irrelevant

/-- Frame: registering a function on one environment, or creating another environment
(a subclass instance), leaves every other environment's configuration — hence the
behaviour of everything bound to it, the module-level functions included — unchanged. -/
theorem C14_frame_register (w : World) (e e' : EnvId) (name : Str) (f : Func) (h : e' ≠ e) :
    ((w.step (.register e name f)).1).env e' = w.env e' := Proofs.frame_register w e e' name f h

theorem C14_frame_newEnv (w : World) (cfg : Env) (e : EnvId) (hw : w.WF) (h : e < w.envs.length) :
    ((w.step (.newEnv cfg)).1).env e = w.env e := Proofs.frame_newEnv w cfg e hw h

/-- compiling the same text again gives a query with identical behaviour -/
theorem C14_recompile (w : World) (e : EnvId) (s : Str) (hw : w.WF) (q1 q2 : QueryId)
    (h1 : (w.step (.compile e s)).2 = .compiled q1)
    (h2 : ((w.step (.compile e s)).1.step (.compile e s)).2 = .compiled q2) (v : Json) :
    (((w.step (.compile e s)).1.step (.compile e s)).1.step (.apply q1 v)).2 =
    (((w.step (.compile e s)).1.step (.compile e s)).1.step (.apply q2 v)).2 :=
  Proofs.recompile w e s hw q1 q2 h1 h2 v

end JPV.Props
