/-
`Spec.Position` — what "the line and column of an offset in the query text"
means: scan the text up to the offset; a LINE FEED starts a new line; lines are
numbered from 1 and columns from 0 (the convention the code and its tests use
for single-line queries).
-/
import JPV.Json
namespace JPV.Spec

/-- scan `s`, having seen `line`/`col` so far, for `n` more characters -/
def scan : Nat → Str → Nat → Nat → Nat × Nat
  | 0, _, line, col => (line, col)
  | _ + 1, [], line, col => (line, col)
  | n + 1, c :: cs, line, col =>
    if c = '\n' then scan n cs (line + 1) 0 else scan n cs line (col + 1)

/-- (line, column) of offset `off` in `s` -/
def lineCol (s : Str) (off : Nat) : Nat × Nat := scan off s 1 0

end JPV.Spec
