/-
`Proofs.Float.StrFloat` — the repaired `FloatLiteral.__str__` (`Impl.strFloat`): `repr`, with `.0` put after the
mantissa of a repr like `1e+16` (`fixExp`), and `1e400` for the infinities.  On the parts of a layout
(`ip [. f] [e± xs]`) the repair turns "no fraction and a positive exponent" into the fraction `.0`; the text stays a
complete RFC 9535 number, becomes a float spelling in every case, and `float()` reads the same value.
-/
import JPV.Proofs.Float.FloatForm
namespace JPV.Proofs.Float
open JPV JPV.Proofs.Cf

/-- the repair of `Impl.strFloat` on the text of `repr` -/
def fixExp (s : Str) : Str :=
  let mant := s.takeWhile (fun c => c != 'e')
  let rest := s.drop mant.length
  match rest with
  | 'e' :: '+' :: _ => if mant.contains '.' then s else mant ++ ".0".toList ++ rest
  | _ => s

theorem strFloat_eq (x : Num) : Impl.strFloat x =
    if x.d = 0 then (if x.n < 0 then "-1e400".toList else "1e400".toList) else fixExp (Py.reprFloat x) := rfl

/-- the fraction after the repair -/
def fixFp (fp : Option (List Char)) (ex : Option (Bool × List Char)) : Option (List Char) :=
  match fp, ex with
  | none, some (false, _) => some ['0']
  | _, _ => fp

theorem digit_ne_e {c : Char} (h : Impl.isDigit c = true) : (c != 'e') = true := by
  have := (digit_ne h).2.1
  simpa using this

/-- the repair, on the parts of a number text -/
theorem fixExp_parts (sg ip : List Char) (fp : Option (List Char)) (ex : Option (Bool × List Char))
    (hsg : sg = [] ∨ sg = ['-']) (hip : ∀ c ∈ ip, Impl.isDigit c = true)
    (hfp : ∀ f, fp = some f → ∀ c ∈ f, Impl.isDigit c = true) :
    fixExp (sg ++ (ip ++ fracTxt fp ++ expTxt ex)) = sg ++ (ip ++ fracTxt (fixFp fp ex) ++ expTxt ex) := by
  have hP : ∀ c ∈ sg ++ (ip ++ fracTxt fp), (c != 'e') = true := by
    intro c hc
    rcases List.mem_append.mp hc with hc | hc
    · rcases hsg with rfl | rfl
      · cases hc
      · simp only [List.mem_singleton] at hc; subst hc; decide
    · rcases List.mem_append.mp hc with hc | hc
      · exact digit_ne_e (hip c hc)
      · cases fp with
        | none => cases hc
        | some f =>
          simp only [fracTxt, List.mem_cons] at hc
          rcases hc with rfl | hc
          · decide
          · exact digit_ne_e (hfp f rfl c hc)
  have hassoc : sg ++ (ip ++ fracTxt fp ++ expTxt ex) = (sg ++ (ip ++ fracTxt fp)) ++ expTxt ex := by
    simp only [List.append_assoc]
  cases ex with
  | none =>
    have htw : (sg ++ (ip ++ fracTxt fp ++ expTxt none)).takeWhile (fun c => c != 'e') =
        sg ++ (ip ++ fracTxt fp ++ expTxt none) := by
      rw [hassoc]
      have := Prn.takeWhile_append_of (fun c => c != 'e') (sg ++ (ip ++ fracTxt fp)) (expTxt none) hP
        (by intro c t e; cases e)
      rw [this]; simp [expTxt]
    unfold fixExp
    simp only [htw, List.drop_length]
    cases fp <;> rfl
  | some p =>
    obtain ⟨b, xs⟩ := p
    have htw : (sg ++ (ip ++ fracTxt fp ++ expTxt (some (b, xs)))).takeWhile (fun c => c != 'e') =
        sg ++ (ip ++ fracTxt fp) := by
      rw [hassoc]
      exact Prn.takeWhile_append_of (fun c => c != 'e') (sg ++ (ip ++ fracTxt fp)) (expTxt (some (b, xs))) hP (by
        intro c t e
        simp only [expTxt, List.cons.injEq] at e
        rw [← e.1]; decide)
    have hdrop : (sg ++ (ip ++ fracTxt fp ++ expTxt (some (b, xs)))).drop (sg ++ (ip ++ fracTxt fp)).length =
        expTxt (some (b, xs)) := by
      rw [hassoc, List.drop_left]
    unfold fixExp
    simp only [htw, hdrop]
    cases b with
    | true =>
      simp only [expTxt, if_true]
      cases fp <;> rfl
    | false =>
      simp only [expTxt, Bool.false_eq_true, if_false]
      cases fp with
      | some f =>
        have : (sg ++ (ip ++ fracTxt (some f))).contains '.' = true := by
          simp [fracTxt]
        rw [if_pos this]
        rfl
      | none =>
        have : (sg ++ (ip ++ fracTxt none)).contains '.' = false := by
          simp only [fracTxt, List.append_nil, List.contains_eq_mem, decide_eq_false_iff_not, List.mem_append]
          rintro (hc | hc)
          · rcases hsg with rfl | rfl
            · cases hc
            · simp at hc
          · exact (digit_ne (hip _ hc)).1 rfl
        rw [if_neg (by rw [this]; decide)]
        simp [fixFp, fracTxt]

/-! ### the repaired text of a layout -/

theorem Shape.fix_fracP {m : Nat} {decpt : Int} {ip fp ex} (h : Shape m decpt ip fp ex) :
    FracP (fracTxt (fixFp fp ex)) := by
  unfold fixFp
  split
  · exact .some ['0'] ⟨by simp, by simp; decide⟩
  · exact h.fracP

/-- after the repair every layout is a float spelling -/
theorem Shape.fix_ne_none {m : Nat} {decpt : Int} {ip fp ex} (h : Shape m decpt ip fp ex) (hm : 0 < m) :
    fixFp fp ex ≠ none ∨ ∃ xs, ex = some (true, xs) := by
  by_cases hf : fp = none
  · subst hf
    by_cases h16 : decpt ≤ 16
    · rcases h.small h16 with h1 | h1
      · exact absurd rfl h1
      · exact .inr h1
    · obtain ⟨c, rest, t, hs, -⟩ := strip_spec m hm
      by_cases hlen : 2 ≤ (Py.stripTrailingZeros (Py.natDigits m)).length
      · exact absurd rfl (h.many hlen)
      · have h1 : (Py.stripTrailingZeros (Py.natDigits m)).length = 1 := by
          rw [hs] at hlen ⊢; simp only [List.length_cons] at hlen ⊢; omega
        obtain ⟨-, xs, rfl⟩ := h.one (by omega) h1
        left; simp [fixFp]
  · left
    cases fp with
    | none => exact absurd rfl hf
    | some f => cases ex with
      | none => simp [fixFp]
      | some p => obtain ⟨b, xs⟩ := p; cases b <;> simp [fixFp]

theorem floatOfText_congr {s s' : Str} {neg : Bool} {n d n' d' : Nat} (hs : Py.parseDecimal s = some (neg, n, d))
    (hs' : Py.parseDecimal s' = some (neg, n', d')) (hd : 0 < d) (hd' : 0 < d') (h : n * d' = n' * d) :
    Py.floatOfText s = Py.floatOfText s' := by
  rw [floatOfText_eq, floatOfText_eq, hs, hs']
  simp only
  rw [roundBinary64_congr hd hd' h]

theorem mkDec_shift (neg : Bool) (D : Nat) (X : Nat) (hD : D ≠ 0) (hX : X ≤ 390) :
    ∃ n d n' d', mkDec neg D (X : Int) = (neg, n, d) ∧
      mkDec neg (D * 10) ((X : Int) - 1) = (neg, n', d') ∧ 0 < d ∧ 0 < d' ∧ n * d' = n' * d := by
  rw [mkDec_eq_mk neg D X hD (by omega) (by omega),
    mkDec_eq_mk neg (D * 10) ((X : Int) - 1) (Nat.mul_ne_zero hD (by decide)) (by omega) (by omega)]
  refine ⟨_, _, _, _, rfl, rfl, Nat.pow_pos (by decide), Nat.pow_pos (by decide), ?_⟩
  cases X with
  | zero => simp
  | succ k =>
    have h1 : (((k + 1 : Nat) : Int) - 1).toNat = k := by omega
    have h2 : (-(((k + 1 : Nat) : Int) - 1)).toNat = 0 := by omega
    have h3 : (((k + 1 : Nat) : Int)).toNat = k + 1 := by omega
    have h4 : (-((k + 1 : Nat) : Int)).toNat = 0 := by omega
    rw [h1, h2, h3, h4]
    simp only [Nat.pow_zero, Nat.mul_one, Nat.pow_succ]
    ring

/-- the repaired text of a layout, with either sign: a complete RFC 9535 number, a float spelling, and `float()`
reads what it reads from the layout itself -/
theorem fixExp_layout (m : Nat) (hm : 0 < m) (decpt : Int) (hlo : -350 ≤ decpt) (hhi : decpt ≤ 350) :
    (Spec.numberSpelling (fixExp (layout m decpt)) = some (fixExp (layout m decpt), []) ∧
      Cf.isFloatSp (fixExp (layout m decpt)) = true ∧
      Py.floatOfText (fixExp (layout m decpt)) = Py.floatOfText (layout m decpt)) ∧
    (Spec.numberSpelling (fixExp ('-' :: layout m decpt)) = some (fixExp ('-' :: layout m decpt), []) ∧
      Cf.isFloatSp (fixExp ('-' :: layout m decpt)) = true ∧
      Py.floatOfText (fixExp ('-' :: layout m decpt)) = Py.floatOfText ('-' :: layout m decpt)) := by
  obtain ⟨ip, fp, ex, hS⟩ := layout_shape m hm decpt
  have hfpd : ∀ f, fp = some f → ∀ c ∈ f, Impl.isDigit c = true := fun f hf => (hS.fp_digs f hf).2
  have e1 := fixExp_parts [] ip fp ex (.inl rfl) hS.ip_digs.2 hfpd
  have e2 := fixExp_parts ['-'] ip fp ex (.inr rfl) hS.ip_digs.2 hfpd
  simp only [List.nil_append, List.singleton_append] at e1 e2
  rw [← hS.text] at e1 e2
  -- spelling
  have sp1 := Pc.numberSpelling_parts_append hS.intP hS.fix_fracP hS.expP numFollow_nil
  have sp2 := Pc.numberSpelling_parts_append hS.intP_neg hS.fix_fracP hS.expP numFollow_nil
  rw [List.append_nil] at sp1 sp2
  -- float spelling
  have fl : Cf.isFloatSp (ip ++ fracTxt (fixFp fp ex) ++ expTxt ex) = true ∧
      Cf.isFloatSp ('-' :: (ip ++ fracTxt (fixFp fp ex) ++ expTxt ex)) = true := by
    rcases hS.fix_ne_none hm with h1 | ⟨xs, rfl⟩
    · cases hq : fixFp fp ex with
      | none => exact absurd hq h1
      | some f =>
        exact ⟨isFloatSp_frac ip f _, by
          have := isFloatSp_frac ('-' :: ip) f (expTxt ex)
          simpa [fracTxt] using this⟩
    · cases hq : fixFp fp (some (true, xs)) with
      | some f =>
        exact ⟨isFloatSp_frac ip f _, by
          have := isFloatSp_frac ('-' :: ip) f (expTxt (some (true, xs)))
          simpa [fracTxt] using this⟩
      | none =>
        simp only [fracTxt, expTxt, List.append_nil, if_true]
        refine ⟨isFloatSp_neg hS.intP (.inl rfl), ?_⟩
        have := isFloatSp_neg (e := 'e') (D := xs) hS.intP_neg (.inl rfl)
        simpa using this
  -- value
  have val : Py.floatOfText (ip ++ fracTxt (fixFp fp ex) ++ expTxt ex) = Py.floatOfText (layout m decpt) ∧
      Py.floatOfText ('-' :: (ip ++ fracTxt (fixFp fp ex) ++ expTxt ex)) = Py.floatOfText ('-' :: layout m decpt) := by
    by_cases hfix : fixFp fp ex = fp
    · rw [hfix, ← hS.text]; exact ⟨rfl, rfl⟩
    · -- the repair applies: no fraction, a positive exponent
      have hshape : fp = none ∧ ∃ xs, ex = some (false, xs) := by
        unfold fixFp at hfix
        split at hfix
        · exact ⟨rfl, _, rfl⟩
        · exact absurd rfl hfix
      obtain ⟨rfl, xs, rfl⟩ := hshape
      have hxs := hS.ex_digs false xs rfl
      obtain ⟨u, hu, hD, hx⟩ := hS.value
      obtain ⟨c, rest, t, hs, -, -, -, hval⟩ := strip_spec m hm
      have hD0 : Py.digitsToNat ip ≠ 0 := by
        simp only [Option.getD_none, List.append_nil] at hD
        rw [hD, hs]
        refine Nat.mul_ne_zero ?_ (Nat.pos_iff_ne_zero.mp (Nat.pow_pos (by omega)))
        intro e; rw [e] at hval; omega
      have hX : Py.digitsToNat xs ≤ 390 := by
        simp only [expVal, Option.getD_none, List.length_nil, Bool.false_eq_true, if_false] at hx
        omega
      obtain ⟨p1, p2⟩ := parseDecimal_parts ip none (some (false, xs)) hS.ip_digs (by simp) hS.ex_digs
      obtain ⟨q1, q2⟩ := parseDecimal_parts ip (some ['0']) (some (false, xs)) hS.ip_digs
        (by intro f hf; cases hf; exact ⟨by simp, by simp; decide⟩) hS.ex_digs
      have hd10 : Py.digitsToNat (ip ++ ['0']) = Py.digitsToNat ip * 10 := by
        rw [digitsToNat_append]; simp; decide
      simp only [Option.getD_none, Option.getD_some, List.append_nil, List.length_nil, List.length_singleton,
        expVal, Bool.false_eq_true, if_false, Int.one_mul, hd10] at p1 p2 q1 q2
      push_cast at q1 q2
      have hfx : fixFp none (some (false, xs)) = some ['0'] := rfl
      rw [hfx, hS.text]
      constructor
      · obtain ⟨n, d, n', d', a, b, hd, hd', hnd⟩ := mkDec_shift false _ _ hD0 hX
        simp only [Int.natCast_zero, Int.sub_zero] at p1
        rw [a] at p1; rw [b] at q1
        exact (floatOfText_congr p1 q1 hd hd' hnd).symm
      · obtain ⟨n, d, n', d', a, b, hd, hd', hnd⟩ := mkDec_shift true _ _ hD0 hX
        simp only [Int.natCast_zero, Int.sub_zero] at p2
        rw [a] at p2; rw [b] at q2
        exact (floatOfText_congr p2 q2 hd hd' hnd).symm
  rw [e1, e2]
  exact ⟨⟨sp1, fl.1, val.1⟩, ⟨sp2, fl.2, val.2⟩⟩

end JPV.Proofs.Float
