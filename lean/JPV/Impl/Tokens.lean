/-
`Impl.Tokens` — tokens.py: `TokenType`, `Token`, `Token.position`, and the
`TokenStream` (current / pushed queue / remaining iterator) exactly as the
Python class manipulates them.
-/
import JPV.Impl.Eval
namespace JPV.Impl

inductive TokKind where
  | eof | error | init
  | colon | comma | doubleDot | filter | index | lbracket | property | rbracket | root | wild
  | and | current | dqString | eq | false_ | float | function | ge | gt | int | le | lparen | lt
  | ne | not | null | or | rparen | sqString | true_
deriving DecidableEq, Repr, Inhabited

structure Token where
  kind : TokKind
  value : Str
  /-- offset of the token in the query; `-1` for the synthetic INIT/EOF tokens of `TokenStream` -/
  index : Int
deriving DecidableEq, Repr, Inhabited

/-- An exception raised by `compile`: its class and the token it carries (if any). -/
structure Err where
  kind : ErrKind
  tok : Option Token
deriving Repr, Inhabited

def Err.offset (e : Err) : Option Int := e.tok.map Token.index

/-- `str.count("\n", 0, index)` -/
def countLF (q : Str) (index : Nat) : Nat := ((q.take index).filter (· = '\n')).length

/-- `str.rfind("\n", 0, index)`: last LF strictly before `index`, `-1` if none -/
def rfindLF (q : Str) (index : Nat) : Int :=
  let pre := q.take index
  match (pre.reverse.idxOf? '\n') with
  | some k => (pre.length : Int) - 1 - (k : Int)
  | none => -1

/-- `Token.position()` for a token at `index ≥ 0` of query `q`: (line, column). -/
def position (q : Str) (index : Nat) : Nat × Int :=
  (countLF q index + 1, (index : Int) - rfindLF q index - 1)

/-! ### TokenStream -/

structure TStream where
  cur : Token
  pushed : List Token
  rest : List Token
deriving Repr, Inhabited

def eofTok : Token := ⟨.eof, [], -1⟩
def initTok : Token := ⟨.init, [], -1⟩

namespace TStream

/-- `TokenStream.__next__`: returns the old current token. -/
def next (s : TStream) : Token × TStream :=
  match s.pushed with
  | p :: ps => (s.cur, { s with cur := p, pushed := ps })
  | [] =>
    if s.cur.kind = .eof then (s.cur, s)
    else match s.rest with
      | t :: ts => (s.cur, { s with cur := t, rest := ts })
      | [] => (s.cur, { s with cur := eofTok })

/-- `TokenStream.__init__` -/
def init (toks : List Token) : TStream :=
  (next { cur := initTok, pushed := [], rest := toks }).2

/-- `TokenStream.push(tok)`: `_pushed.append(self.current); self.current = tok` -/
def push (s : TStream) (t : Token) : TStream :=
  { s with pushed := s.pushed ++ [s.cur], cur := t }

/-- `TokenStream.peek` (a property with side effects on the queue): returns the
peeked token and the stream afterwards. -/
def peek (s : TStream) : Token × TStream :=
  let (c, s1) := s.next
  let result := s1.cur
  (result, s1.push c)

end TStream

end JPV.Impl
