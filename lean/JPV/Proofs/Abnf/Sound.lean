/-
Soundness: whatever the recogniser's mutual functions accept (with an acceptable
shape verdict) is derivable in the ABNF relation, with the same tree.
-/
import JPV.Proofs.Abnf.Shape
import JPV.Proofs.Abnf.LexLit
namespace JPV.Proofs.AbnfP
open JPV JPV.Spec

def segSels : CSegment → List CSelector
  | .child sels _ => sels
  | .desc sels => sels

theorem OK_segs_cons_sels {l : Bool} {seg : CSegment} {segs : List CSegment} :
    OK l (cmpShapeSegs (seg :: segs)) ↔ OK l (cmpShapeSels (segSels seg)) ∧ OK l (cmpShapeSegs segs) := by
  cases seg with
  | child sels b => exact OK_segs_child
  | desc sels => exact OK_segs_desc

/-- what `term` returns: a literal or a test item -/
def TermD (l : Bool) (pre : List Char) (e : CExpr) : Prop :=
  (∃ v, e = .lit v ∧ Abnf.Literal pre v) ∨ Abnf.TestItem l pre e

theorem comparable_of_termD {l : Bool} {pre : List Char} {e : CExpr} (h : TermD l pre e)
    (hok : OK l (operandShape e)) : Abnf.Comparable l pre e := by
  rcases h with ⟨v, rfl, hl⟩ | h
  · exact .lit hl
  · cases h with
    | rel hs => exact .rel (singularSegs_of_segments _ hs (by simpa [operandShape] using hok))
    | root hs => exact .root (singularSegs_of_segments _ hs (by simpa [operandShape] using hok))
    | call hf => exact .call hf

theorem length_flag {x b y : List Char} (h : x = b ++ y) : (y.length != x.length) = !b.isEmpty := by
  subst h
  cases b <;> simp
  omega

structure SoundAt (l : Bool) (n : Nat) : Prop where
  segs : ∀ inp c rest, segments n inp = some (c, rest) → OK l (cmpShapeSegs c) →
    ∃ pre, inp = pre ++ rest ∧ Abnf.Segments l pre c
  seg : ∀ inp c rest, segment n inp = some (c, rest) → OK l (cmpShapeSels (segSels c)) →
    ∃ pre, inp = pre ++ rest ∧ Abnf.Segment l pre c
  brk : ∀ inp c fl rest, bracketed n inp = some (c, fl, rest) → OK l (cmpShapeSels c) →
    ∃ pre, inp = pre ++ rest ∧ Abnf.Bracketed l pre c fl
  msel : ∀ inp c rest, moreSelectors n inp = some (c, rest) → OK l (cmpShapeSels c) →
    ∃ pre, inp = pre ++ rest ∧ Abnf.MoreSelectors l pre c
  sel : ∀ inp c rest, selector n inp = some (c, rest) → OK l (cmpShapeSel c) →
    ∃ pre, inp = pre ++ rest ∧ Abnf.Selector l pre c
  lor : ∀ inp c rest, logicalOr n inp = some (c, rest) → OK l (cmpShapeExpr c) →
    ∃ pre, inp = pre ++ rest ∧ Abnf.LogicalOr l pre c
  land : ∀ inp c rest, logicalAnd n inp = some (c, rest) → OK l (cmpShapeExpr c) →
    ∃ pre, inp = pre ++ rest ∧ Abnf.LogicalAnd l pre c
  bas : ∀ inp c rest, basic n inp = some (c, rest) → OK l (cmpShapeExpr c) →
    ∃ pre, inp = pre ++ rest ∧ Abnf.Basic l pre c
  par : ∀ inp c rest, parenExpr n inp = some (c, rest) → OK l (cmpShapeExpr c) →
    ∃ pre, inp = pre ++ rest ∧ Abnf.Paren l pre c
  trm : ∀ inp c rest, term n inp = some (c, rest) → OK l (cmpShapeExpr c) →
    ∃ pre, inp = pre ++ rest ∧ TermD l pre c
  arg : ∀ inp c rest, argument n inp = some (c, rest) → OK l (cmpShapeExpr c) →
    ∃ pre, inp = pre ++ rest ∧ Abnf.Argument l pre c
  margs : ∀ inp c rest, moreArgs n inp = some (c, rest) → OK l (cmpShapeArgs c) →
    ∃ pre, inp = pre ++ rest ∧ Abnf.MoreArgs l pre c

theorem soundAt_zero (l : Bool) : SoundAt l 0 := by
  constructor <;> intro inp c <;> intros <;> rename_i h _ <;>
    first
      | (rw [segments] at h; cases h) | (rw [segment] at h; cases h) | (rw [bracketed] at h; cases h)
      | (rw [moreSelectors] at h; cases h) | (rw [selector] at h; cases h) | (rw [logicalOr] at h; cases h)
      | (rw [logicalAnd] at h; cases h) | (rw [basic] at h; cases h) | (rw [parenExpr] at h; cases h)
      | (rw [term] at h; cases h) | (rw [argument] at h; cases h) | (rw [moreArgs] at h; cases h)

variable {l : Bool} {n : Nat}

theorem segments_step (ih : SoundAt l n) : ∀ inp c rest, segments (n+1) inp = some (c, rest) →
    OK l (cmpShapeSegs c) → ∃ pre, inp = pre ++ rest ∧ Abnf.Segments l pre c := by
  intro inp c rest h hok
  rw [segments] at h
  split at h
  · rename_i seg r hseg
    split at h
    · rename_i segs' r2 hsegs
      cases h
      obtain ⟨hok1, hok2⟩ := OK_segs_cons_sels.1 hok
      obtain ⟨pre1, hp1, hd1⟩ := ih.seg _ _ _ hseg hok1
      obtain ⟨pre2, hp2, hd2⟩ := ih.segs _ _ _ hsegs hok2
      obtain ⟨b, hb, hbl⟩ := skipS_spec inp
      refine ⟨b ++ pre1 ++ pre2, ?_, .cons hbl hd1 hd2⟩
      simp only [List.append_assoc]
      rw [← hp2, ← hp1]; exact hb
    · cases h
  · cases h; exact ⟨[], rfl, .nil⟩

theorem segment_step (ih : SoundAt l n) : ∀ inp c rest, segment (n+1) inp = some (c, rest) →
    OK l (cmpShapeSels (segSels c)) → ∃ pre, inp = pre ++ rest ∧ Abnf.Segment l pre c := by
  intro inp c rest h hok
  unfold segment at h
  split at h
  · split at h
    · cases h; exact ⟨['.', '.', '*'], rfl, .descWild⟩
    · obtain ⟨⟨sels, fl, r2⟩, hbr, heq⟩ := Option.map_eq_some_iff.1 h
      cases heq
      obtain ⟨pre, hp, hd⟩ := ih.brk _ _ _ _ hbr hok
      exact ⟨'.' :: '.' :: pre, by rw [hp]; rfl, .descBracketed hd⟩
    · obtain ⟨⟨s, r2⟩, hsh, heq⟩ := Option.map_eq_some_iff.1 h
      cases heq
      obtain ⟨hp, hd⟩ := shorthand_sound hsh
      exact ⟨'.' :: '.' :: s, by rw [hp]; rfl, .descName hd⟩
  · cases h; exact ⟨['.', '*'], rfl, .dotWild⟩
  · obtain ⟨⟨s, r2⟩, hsh, heq⟩ := Option.map_eq_some_iff.1 h
    cases heq
    obtain ⟨hp, hd⟩ := shorthand_sound hsh
    exact ⟨'.' :: s, by rw [hp]; rfl, .dotName hd⟩
  · obtain ⟨⟨sels, fl, r2⟩, hbr, heq⟩ := Option.map_eq_some_iff.1 h
    cases heq
    obtain ⟨pre, hp, hd⟩ := ih.brk _ _ _ _ hbr hok
    exact ⟨pre, hp, .bracketed hd⟩
  · cases h

theorem bracketed_step (ih : SoundAt l n) : ∀ inp c fl rest, bracketed (n+1) inp = some (c, fl, rest) →
    OK l (cmpShapeSels c) → ∃ pre, inp = pre ++ rest ∧ Abnf.Bracketed l pre c fl := by
  intro inp c fl rest h hok
  unfold bracketed at h
  split at h
  · rename_i r
    simp only [] at h
    split at h
    · cases h
    · rename_i s r2 hsel
      split at h
      · cases h
      · rename_i ss r3 hms
        split at h
        · rename_i r5 hr4
          cases h
          obtain ⟨hok1, hok2⟩ := OK_sels_cons.1 hok
          obtain ⟨ps, hps, hds⟩ := ih.sel _ _ _ hsel hok1
          obtain ⟨pm, hpm, hdm⟩ := ih.msel _ _ _ hms hok2
          obtain ⟨b1, hb1, hbl1⟩ := skipS_spec r
          obtain ⟨b2, hb2, hbl2⟩ := skipS_spec r3
          refine ⟨'[' :: (b1 ++ ps ++ pm ++ b2 ++ [']']), ?_, ?_⟩
          · simp only [List.append_assoc, List.cons_append, List.nil_append, List.cons.injEq, true_and]
            rw [← hr4, ← hb2, ← hpm, ← hps]; exact hb1
          · rw [length_flag hb1, length_flag hb2]
            exact .mk hbl1 hds hdm hbl2
        · cases h
  · cases h

theorem moreSelectors_step (ih : SoundAt l n) : ∀ inp c rest, moreSelectors (n+1) inp = some (c, rest) →
    OK l (cmpShapeSels c) → ∃ pre, inp = pre ++ rest ∧ Abnf.MoreSelectors l pre c := by
  intro inp c rest h hok
  unfold moreSelectors at h
  split at h
  · rename_i r hsk
    split at h
    · cases h
    · rename_i s r2 hsel
      split at h
      · rename_i ss r3 hms
        cases h
        obtain ⟨hok1, hok2⟩ := OK_sels_cons.1 hok
        obtain ⟨ps, hps, hds⟩ := ih.sel _ _ _ hsel hok1
        obtain ⟨pm, hpm, hdm⟩ := ih.msel _ _ _ hms hok2
        obtain ⟨b1, hb1, hbl1⟩ := skipS_spec inp
        obtain ⟨b2, hb2, hbl2⟩ := skipS_spec r
        refine ⟨b1 ++ ',' :: (b2 ++ ps ++ pm), ?_, .cons hbl1 hbl2 hds hdm⟩
        simp only [List.append_assoc, List.cons_append]
        rw [← hpm, ← hps, ← hb2, ← hsk]; exact hb1
      · cases h
  · cases h; exact ⟨[], rfl, .nil⟩

theorem selector_step (ih : SoundAt l n) : ∀ inp c rest, selector (n+1) inp = some (c, rest) →
    OK l (cmpShapeSel c) → ∃ pre, inp = pre ++ rest ∧ Abnf.Selector l pre c := by
  intro inp c rest h hok
  unfold selector at h
  split at h
  · cases h; exact ⟨['*'], rfl, .wild⟩
  · rename_i r
    obtain ⟨⟨e, r2⟩, hlo, heq⟩ := Option.map_eq_some_iff.1 h
    cases heq
    obtain ⟨p, hp, hd⟩ := ih.lor _ _ _ hlo (by simpa [cmpShapeSel] using hok)
    obtain ⟨b, hb, hbl⟩ := skipS_spec r
    refine ⟨'?' :: (b ++ p), ?_, .filter hbl hd⟩
    simp only [List.append_assoc, List.cons_append, List.cons.injEq, true_and]
    rw [← hp]; exact hb
  · split at h
    · rename_i s r hs
      cases h
      obtain ⟨p, hp, hd⟩ := stringLiteral_sound hs
      exact ⟨p, hp, .name hd⟩
    · split at h
      · rename_i res hsl
        cases h
        obtain ⟨p, a, b, c', rfl, hp, hd⟩ := sliceSelector_sound hsl
        exact ⟨p, hp, .slice hd⟩
      · obtain ⟨⟨i, r⟩, hi, heq⟩ := Option.map_eq_some_iff.1 h
        cases heq
        obtain ⟨p, hp, hd⟩ := intLit_sound hi
        exact ⟨p, hp, .index hd⟩

end JPV.Proofs.AbnfP
