/-
`Proofs.Float.Round3` — what `Py.roundBinary64` returns: the integer nearest to `(n/d) / 2^E` at the normalising
exponent `E` (`roundBinary64_of`), and hence the double `M·2^E` itself for every `n/d` within relative distance
`2^-54` of it (`roundBinary64_close`) — in particular for `n/d = M·2^E` (`roundBinary64_exact`).
-/
import JPV.Proofs.Float.Round2
namespace JPV.Proofs.Float
open JPV JPV.Proofs.Pc

theorem roundQ_near (q r den T : ℕ) (hden : 0 < den) (hr : r < den)
    (h : |((q : ℚ) + (r : ℚ) / den) - T| < 1 / 2) : roundQ q r den = T := by
  have hdenq : (0 : ℚ) < den := by exact_mod_cast hden
  have hf0 : (0 : ℚ) ≤ (r : ℚ) / den := by positivity
  have hf1 : (r : ℚ) / den < 1 := by rw [div_lt_one hdenq]; exact_mod_cast hr
  rw [abs_lt] at h
  obtain ⟨h1, h2⟩ := h
  have hqT : q ≤ T := by
    have : (q : ℚ) < (T : ℚ) + 1 := by linarith
    have : (q : ℚ) < ((T + 1 : ℕ) : ℚ) := by push_cast; linarith
    have : q < T + 1 := by exact_mod_cast this
    omega
  have hTq : T ≤ q + 1 := by
    have : (T : ℚ) < ((q + 2 : ℕ) : ℚ) := by push_cast; linarith
    have : T < q + 2 := by exact_mod_cast this
    omega
  unfold roundQ
  rcases Nat.lt_or_ge q T with hlt | hge
  · have hT : T = q + 1 := by omega
    subst hT
    push_cast at h1
    have : (1 : ℚ) / 2 < (r : ℚ) / den := by linarith
    rw [div_lt_div_iff₀ (by norm_num) hdenq] at this
    have : ((den : ℕ) : ℚ) < ((2 * r : ℕ) : ℚ) := by push_cast; linarith
    have : den < 2 * r := by exact_mod_cast this
    rw [if_pos (.inl this)]
  · have hT : T = q := by omega
    subst hT
    have : (r : ℚ) / den < 1 / 2 := by linarith
    rw [div_lt_div_iff₀ hdenq (by norm_num)] at this
    have : ((2 * r : ℕ) : ℚ) < ((den : ℕ) : ℚ) := by push_cast; linarith
    have : 2 * r < den := by exact_mod_cast this
    rw [if_neg (by omega)]

/-- at the normalising exponent `E`, `roundBinary64` returns the integer `T` nearest to `(n/d) / 2^E`
(strictly within `1/2`), renormalised -/
theorem roundBinary64_of (n d : ℕ) (hn : 0 < n) (hd : 0 < d) (E : ℤ) (hN : NormExp ((n : ℚ) / d) E) (T : ℕ)
    (hT : |(n : ℚ) / d / 2 ^ E - T| < 1 / 2) : Py.roundBinary64 n d = normQ T E := by
  rw [roundBinary64_eq, if_neg (by omega), (chooseE_spec n d hn hd).unique hN, finishE_eq]
  obtain ⟨hden, hr, hv⟩ := scaledDiv_spec n d hd E
  rw [roundQ_near _ _ _ T hden hr]
  have hp : (0 : ℚ) < 2 ^ E := zpow_pos (by norm_num) E
  rw [hv, mul_div_assoc, div_self hp.ne', mul_one] at hT
  exact hT

/-- every fraction within relative distance `2^-54` of the double `M·2^E` rounds to it -/
theorem roundBinary64_close (n d : ℕ) (hn : 0 < n) (hd : 0 < d) (M : ℕ) (E : ℤ) (hM0 : 0 < M) (hM : M < 2 ^ 53)
    (hnorm : 2 ^ 52 ≤ M ∨ E = -1074) (hE0 : -1074 ≤ E) (hE1 : E ≤ 971)
    (hclose : |(n : ℚ) / d - M * 2 ^ E| * 2 ^ 54 < M * 2 ^ E) :
    Py.roundBinary64 n d = some (M, E) := by
  have hp : (0 : ℚ) < 2 ^ E := zpow_pos (by norm_num) E
  have hMq : (M : ℚ) ≤ 2 ^ 53 - 1 := by
    have : ((M + 1 : ℕ) : ℚ) ≤ ((2 ^ 53 : ℕ) : ℚ) := by exact_mod_cast hM
    push_cast at this; linarith
  have hM0q : (1 : ℚ) ≤ M := by exact_mod_cast hM0
  -- scale by `2^E`
  obtain ⟨y, hy⟩ : ∃ y : ℚ, (n : ℚ) / d = y * 2 ^ E := ⟨(n : ℚ) / d / 2 ^ E, by field_simp⟩
  have hyc : |y - M| * 2 ^ 54 < M := by
    have : (n : ℚ) / d - M * 2 ^ E = (y - M) * 2 ^ E := by rw [hy]; ring
    rw [this, abs_mul, abs_of_pos hp] at hclose
    have h2 : |y - M| * 2 ^ 54 * 2 ^ E < M * 2 ^ E := by linarith
    exact lt_of_mul_lt_mul_right h2 hp.le
  have hya := abs_lt.mp (show |(y - (M : ℚ)) * 2 ^ 54| < (M : ℚ) by
    rw [abs_mul, abs_of_pos (by norm_num : (0 : ℚ) < 2 ^ 54)]; exact hyc)
  obtain ⟨hy1, hy2⟩ := hya
  have hdiv : (n : ℚ) / d / 2 ^ E = y := by rw [hy]; field_simp
  have hy53 : y < 2 ^ 53 := by linarith
  by_cases hB : (2 : ℚ) ^ 52 ≤ y ∨ E = -1074
  · -- same binade
    have hN : NormExp ((n : ℚ) / d) E := by
      refine ⟨hE0, ?_, ?_⟩
      · rw [hy]; gcongr
      · rcases hB with hB | hB
        · left; rw [hy]; gcongr
        · right; exact hB
    have hT : |(n : ℚ) / d / 2 ^ E - M| < 1 / 2 := by
      rw [hdiv, abs_lt]
      constructor <;> linarith
    rw [roundBinary64_of n d hn hd E hN M hT]
    unfold normQ
    rw [if_neg (by omega), if_neg (by omega)]
  · -- `n/d` lies just below the binade of `M·2^E`, whose least element `M = 2^52` it rounds up to
    have hB1 : y < 2 ^ 52 := by
      by_contra hc; exact hB (.inl (not_lt.mp hc))
    have hB2 : -1074 < E := by
      rcases lt_or_eq_of_le hE0 with h | h
      · exact h
      · exact absurd (.inr h.symm) hB
    have hM52 : M = 2 ^ 52 := by
      have h52 : 2 ^ 52 ≤ M := by
        rcases hnorm with h | h
        · exact h
        · omega
      have : (M : ℚ) < ((2 ^ 52 + 1 : ℕ) : ℚ) := by push_cast; linarith
      have : M < 2 ^ 52 + 1 := by exact_mod_cast this
      omega
    subst hM52
    push_cast at hy1 hy2 hyc
    have hpe : (2 : ℚ) ^ E = 2 * 2 ^ (E - 1) := by
      rw [← two_zpow_succ]; congr 1; ring
    have hp1 : (0 : ℚ) < 2 ^ (E - 1) := zpow_pos (by norm_num) _
    have hv1 : (n : ℚ) / d = (2 * y) * 2 ^ (E - 1) := by rw [hy, hpe]; ring
    have hN : NormExp ((n : ℚ) / d) (E - 1) := by
      refine ⟨by omega, ?_, .inl ?_⟩
      · rw [hv1]
        have : 2 * y < 2 ^ 53 := by linarith
        gcongr
      · rw [hv1]
        have : (2 : ℚ) ^ 52 ≤ 2 * y := by linarith
        gcongr
    have hT : |(n : ℚ) / d / 2 ^ (E - 1) - ((2 ^ 53 : ℕ) : ℚ)| < 1 / 2 := by
      have : (n : ℚ) / d / 2 ^ (E - 1) = 2 * y := by rw [hv1]; field_simp
      rw [this, abs_lt]
      push_cast
      constructor <;> linarith
    rw [roundBinary64_of n d hn hd (E - 1) hN (2 ^ 53) hT]
    unfold normQ
    rw [if_pos rfl, if_neg (by omega)]
    congr 3; omega

/-- `roundBinary64` is the identity on (normalised) doubles -/
theorem roundBinary64_exact (n d : ℕ) (hn : 0 < n) (hd : 0 < d) (M : ℕ) (E : ℤ) (hM0 : 0 < M) (hM : M < 2 ^ 53)
    (hnorm : 2 ^ 52 ≤ M ∨ E = -1074) (hE0 : -1074 ≤ E) (hE1 : E ≤ 971)
    (hv : (n : ℚ) / d = M * 2 ^ E) : Py.roundBinary64 n d = some (M, E) := by
  apply roundBinary64_close n d hn hd M E hM0 hM hnorm hE0 hE1
  rw [hv, sub_self, abs_zero, zero_mul]
  have : (0 : ℚ) < M := by exact_mod_cast hM0
  have hp : (0 : ℚ) < 2 ^ E := zpow_pos (by norm_num) E
  positivity

end JPV.Proofs.Float
