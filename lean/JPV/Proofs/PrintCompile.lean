import JPV.Impl.Parse
import JPV.Impl.Serialize
import JPV.Spec.Grammar
import JPV.Spec.Valid
import JPV.Proofs.CompleteFull
import JPV.Proofs.SoundValid
import JPV.Proofs.PrinterFilter
import JPV.Proofs.Pc.Roundtrip
import JPV.Proofs.Pc.NeedsRange
namespace JPV.Proofs
open JPV JPV.Impl

/-! C12 at full strength, on the model: `str(query)` of ANY compiled query compiles again, in the same
environment, to the same query (up to writing out omitted slice steps, at every nesting level), and printing
that again gives the identical text. -/

mutual
/-- an omitted slice step is written out as `1`, at every nesting level -/
def normExpr : Expr → Expr
  | .lit v => .lit v
  | .not e => .not (normExpr e)
  | .logical op l r => .logical op (normExpr l) (normExpr r)
  | .cmp op l r => .cmp op (normExpr l) (normExpr r)
  | .rel q => .rel (normSegs q)
  | .root q => .root (normSegs q)
  | .call f args => .call f (normArgs args)
def normArgs : List Expr → List Expr
  | [] => []
  | a :: as => normExpr a :: normArgs as
def normSel : Selector → Selector
  | .slice a b none => .slice a b (some 1)
  | .filter e => .filter (normExpr e)
  | s => s
def normSels : List Selector → List Selector
  | [] => []
  | s :: ss => normSel s :: normSels ss
def normSegs : List Segment → List Segment
  | [] => []
  | .child sels :: rest => .child (normSels sels) :: normSegs rest
  | .desc sels :: rest => .desc (normSels sels) :: normSegs rest
end

mutual
/-- the float literals of a query -/
def floatsExpr : Expr → List Num
  | .lit (.num x) => if x.flt then [x] else []
  | .lit _ => []
  | .not e => floatsExpr e
  | .logical _ l r => floatsExpr l ++ floatsExpr r
  | .cmp _ l r => floatsExpr l ++ floatsExpr r
  | .rel q => floatsSegs q
  | .root q => floatsSegs q
  | .call _ args => floatsArgs args
def floatsArgs : List Expr → List Num
  | [] => []
  | a :: as => floatsExpr a ++ floatsArgs as
def floatsSel : Selector → List Num
  | .filter e => floatsExpr e
  | _ => []
def floatsSels : List Selector → List Num
  | [] => []
  | s :: ss => floatsSel s ++ floatsSels ss
def floatsSegs : List Segment → List Num
  | [] => []
  | .child sels :: rest => floatsSels sels ++ floatsSegs rest
  | .desc sels :: rest => floatsSels sels ++ floatsSegs rest
end

/-- CPython's `repr(float)` / `float(str)` round trip for one value, as far as this development is concerned:
the printed text is a complete RFC 9535 number (`Spec.numberSpelling` consumes all of it) and denotes the same
value.  (A property of the trusted `Py.reprFloat`/`Py.floatOfText` models — shortest round-tripping digits —
which is NOT proved here; the correspondence check tests it on every literal it generates.) -/
def FloatRoundTrips (x : Num) : Prop :=
  Spec.numberSpelling (Impl.strFloat x) = some (Impl.strFloat x, []) ∧
  Spec.numberValue (Impl.strFloat x) = some x

/-! ### the definitions above are the ones `Proofs.Pc.*` works with -/

mutual
theorem normExpr_eq : (e : Expr) → normExpr e = Pc.normExpr e
  | .lit v => by rw [normExpr, Pc.normExpr]
  | .not e => by rw [normExpr, Pc.normExpr, normExpr_eq e]
  | .logical op l r => by rw [normExpr, Pc.normExpr, normExpr_eq l, normExpr_eq r]
  | .cmp op l r => by rw [normExpr, Pc.normExpr, normExpr_eq l, normExpr_eq r]
  | .rel q => by rw [normExpr, Pc.normExpr, normSegs_eq q]
  | .root q => by rw [normExpr, Pc.normExpr, normSegs_eq q]
  | .call f args => by rw [normExpr, Pc.normExpr, normArgs_eq args]
theorem normArgs_eq : (as : List Expr) → normArgs as = Pc.normArgs as
  | [] => by rw [normArgs, Pc.normArgs]
  | a :: as => by rw [normArgs, Pc.normArgs, normExpr_eq a, normArgs_eq as]
theorem normSel_eq : (s : Selector) → normSel s = Pc.normSel s
  | .name s => by rw [Pc.normSel_name]; rfl
  | .index i => by rw [Pc.normSel_index]; rfl
  | .wild => by rw [Pc.normSel_wild]; rfl
  | .slice a b none => by rw [Pc.normSel_slice_none]; rfl
  | .slice a b (some c) => by rw [Pc.normSel_slice_some]; rfl
  | .filter e => by rw [Pc.normSel_filter, normSel, normExpr_eq e]
theorem normSels_eq : (ss : List Selector) → normSels ss = Pc.normSels ss
  | [] => by rw [normSels, Pc.normSels]
  | s :: ss => by rw [normSels, Pc.normSels, normSel_eq s, normSels_eq ss]
theorem normSegs_eq : (q : List Segment) → normSegs q = Pc.normSegs q
  | [] => by rw [normSegs, Pc.normSegs]
  | .child sels :: rest => by rw [normSegs, Pc.normSegs, normSels_eq sels, normSegs_eq rest]
  | .desc sels :: rest => by rw [normSegs, Pc.normSegs, normSels_eq sels, normSegs_eq rest]
end

mutual
theorem floatsExpr_eq : (e : Expr) → floatsExpr e = Pc.floatsExpr e
  | .lit (.num x) => by rw [floatsExpr, Pc.floatsExpr]
  | .lit .null => by simp [floatsExpr, Pc.floatsExpr]
  | .lit (.bool _) => by simp [floatsExpr, Pc.floatsExpr]
  | .lit (.str _) => by simp [floatsExpr, Pc.floatsExpr]
  | .lit (.arr _) => by simp [floatsExpr, Pc.floatsExpr]
  | .lit (.obj _) => by simp [floatsExpr, Pc.floatsExpr]
  | .not e => by rw [floatsExpr, Pc.floatsExpr, floatsExpr_eq e]
  | .logical op l r => by rw [floatsExpr, Pc.floatsExpr, floatsExpr_eq l, floatsExpr_eq r]
  | .cmp op l r => by rw [floatsExpr, Pc.floatsExpr, floatsExpr_eq l, floatsExpr_eq r]
  | .rel q => by rw [floatsExpr, Pc.floatsExpr, floatsSegs_eq q]
  | .root q => by rw [floatsExpr, Pc.floatsExpr, floatsSegs_eq q]
  | .call f args => by rw [floatsExpr, Pc.floatsExpr, floatsArgs_eq args]
theorem floatsArgs_eq : (as : List Expr) → floatsArgs as = Pc.floatsArgs as
  | [] => by rw [floatsArgs, Pc.floatsArgs]
  | a :: as => by rw [floatsArgs, Pc.floatsArgs, floatsExpr_eq a, floatsArgs_eq as]
theorem floatsSel_eq : (s : Selector) → floatsSel s = Pc.floatsSel s
  | .name s => by simp [floatsSel, Pc.floatsSel]
  | .index i => by simp [floatsSel, Pc.floatsSel]
  | .wild => by simp [floatsSel, Pc.floatsSel]
  | .slice a b c => by simp [floatsSel, Pc.floatsSel]
  | .filter e => by rw [floatsSel, Pc.floatsSel, floatsExpr_eq e]
theorem floatsSels_eq : (ss : List Selector) → floatsSels ss = Pc.floatsSels ss
  | [] => by rw [floatsSels, Pc.floatsSels]
  | s :: ss => by rw [floatsSels, Pc.floatsSels, floatsSel_eq s, floatsSels_eq ss]
theorem floatsSegs_eq : (q : List Segment) → floatsSegs q = Pc.floatsSegs q
  | [] => by rw [floatsSegs, Pc.floatsSegs]
  | .child sels :: rest => by rw [floatsSegs, Pc.floatsSegs, floatsSels_eq sels, floatsSegs_eq rest]
  | .desc sels :: rest => by rw [floatsSegs, Pc.floatsSegs, floatsSels_eq sels, floatsSegs_eq rest]
end

/-- For every environment and every string: if `s` compiles to `q` (and the float literals of `q` round-trip
through `repr`), then the text `str(q)` compiles, in the same environment, to `normSegs q` — the same query with
omitted slice steps written out — and printing that again gives the identical text. -/
theorem print_compile_roundtrip (env : Env) (s : Str) (q : Query)
    (h : Impl.compile env s = .ok q)
    (h1 : env.minIdx ≤ 1 ∧ 1 ≤ env.maxIdx)
    (hf : ∀ x ∈ floatsSegs q, FloatRoundTrips x) :
    Impl.compile env (Impl.strQuery q) = .ok (normSegs q) ∧
    Impl.strQuery (normSegs q) = Impl.strQuery q := by
  rw [normSegs_eq]
  refine Pc.roundtrip env s q h h1 (fun x hx => ?_)
  exact hf x (by rw [floatsSegs_eq]; exact hx)

end JPV.Proofs
