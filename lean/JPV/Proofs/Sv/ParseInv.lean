/-
`Proofs.Sv.ParseInv` (copy of `Sf.ParseInv` for the relations of `Sv.Shape`) — PARSER INVERSION for the whole language: if `parseTop` succeeds on an
EOF-terminated token list, the token list is a ROOT token, the tokens of the segments of the result
(in the sense of `Sf.Shape.SegsD`, filters included) and an EOF token.
Pure parser reasoning; arbitrary tokens, no lexer.
-/
import JPV.Proofs.Sf.ParseInv
import JPV.Proofs.Sv.PiSegs
namespace JPV.Proofs.Sv
open JPV JPV.Impl JPV.Proofs.Rq JPV.Proofs.Cs JPV.Proofs.Ss JPV.Proofs.Sf

variable [SigC]

/-- one fuel step of the mutual inversion -/
theorem PInv.succ {env : Env} {f : Nat} (hS : SigC.sg = sigsOfEnv' env) (h : PInv env f) :
    PInv env (f + 1) where
  query := query_step h.selectors h.query
  selectors := selectors_step h.bracketed
  bracketed := bracketed_step h.filterSel h.bracketed
  filterSel := filterSel_step h.filterExpr
  byHandler := byHandler_step h.grouped h.pref h.function h.query
  filterExpr := filterExpr_step h.byHandler h.exprLoop
  exprLoop := exprLoop_step h.infx h.exprLoop
  infx := infix_step h.filterExpr
  pref := prefix_step h.filterExpr
  grouped := grouped_step h.filterExpr
  function := function_step hS h.args
  args := args_step h.byHandler h.argInfix h.args
  argInfix := argInfix_step h.infx h.argInfix

theorem pinv (env : Env) (hS : SigC.sg = sigsOfEnv' env) : ∀ f, PInv env f
  | 0 => PInv.zero env
  | f + 1 => (pinv env hS f).succ hS

theorem parseTop_invF (env : Env) (hS : SigC.sg = sigsOfEnv' env) (F : Nat) (toks : List Token) (q : Query)
    (h : (exec (parseTop env F) (TStream.init toks)).1 = .ok q) (he : EndsEof toks) :
    ∃ r ts e more, toks = r :: (ts ++ e :: more) ∧ r.kind = .root ∧ e.kind = .eof ∧ SegsD q ts := by
  cases toks with
  | nil =>
    obtain ⟨t, ht, -⟩ := he
    simp at ht
  | cons r ts =>
    have hinit : TStream.init (r :: ts) = ⟨r, [], ts⟩ := by
      simp [TStream.init, TStream.next, initTok]
    rw [hinit] at h
    rcases hx : exec (parseTop env F) ⟨r, [], ts⟩ with ⟨res, st'⟩
    rw [hx] at h
    simp only at h
    subst h
    unfold parseTop at hx
    obtain ⟨_, st1, hE, hx2⟩ := exec_bind_ok hx
    clear hx
    have hrk : r.kind = .root := by
      by_cases hrk : r.kind = .root
      · exact hrk
      · simp [expect, exec_bind, exec_cur, hrk, failAt, exec_throw] at hE
    have : st1 = ⟨r, [], ts⟩ := by
      simp [expect, exec_bind, exec_cur, hrk, exec_pure] at hE
      exact hE.symm
    subst this
    obtain ⟨_, st2, hN, hx3⟩ := exec_bind_ok hx2
    clear hx2
    have hN := exec_nextTok_ok hN
    have hre : r.kind ≠ .eof := by rw [hrk]; simp
    obtain ⟨t, ts', rfl, he', rfl⟩ := next_step he hre hN
    obtain ⟨segs, st3, hQ, hx4⟩ := exec_bind_ok hx3
    clear hx3
    obtain ⟨segs', tq, x, more, hs, htoks, hsegs, rfl, hxe⟩ := (pinv env hS F).query _ _ _ _ _ _ he' hQ
    simp only [List.nil_append] at hs
    subst hs
    obtain ⟨c, st4, hC, hx5⟩ := exec_bind_ok hx4
    obtain ⟨rfl, rfl⟩ := exec_cur_ok hC
    obtain ⟨hce, hx6⟩ := exec_guard_ok hx5
    obtain ⟨rfl, rfl⟩ := exec_pure_ok hx6
    refine ⟨r, tq, x, more, by rw [htoks], hrk, ?_, hsegs⟩
    simpa using hce

end JPV.Proofs.Sv
