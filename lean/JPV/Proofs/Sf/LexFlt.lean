/-
`Proofs.Sf.LexFlt` — the filter state of the lexer: a pure model `fTok` of lexing one token in the filter
state, and the total description `flt_next` of what a successful run does from the filter state up to its
next token (including the hand-overs to the bracketed and segment states).
-/
import JPV.Proofs.Sf.StG
set_option linter.unusedSimpArgs false
set_option linter.unusedVariables false
namespace JPV.Proofs.Sf
open JPV JPV.Impl JPV.Proofs.Rq JPV.Proofs.Cs JPV.Proofs.Ss

variable {l lf : Lexer} {pre cur rest inp x : List Char} {toks : List Token} {br : List (Char × Nat)} {d : Int}

/-! ### more frame lemmas -/

theorem StG.setFd (h : StG d l pre cur rest toks br) (d' : Int) :
    StG d' { l with filterDepth := d' } pre cur rest toks br :=
  ⟨h.q, h.start, h.pos, h.toks, h.br, rfl⟩

theorem StG.setFs (h : StG d l pre cur rest toks br) (fs : List Nat) :
    StG d { l with funcStack := fs } pre cur rest toks br :=
  ⟨h.q, h.start, h.pos, h.toks, h.br, h.fd⟩

theorem StG.setBr (h : StG d l pre cur rest toks br) (br' : List (Char × Nat)) :
    StG d { l with brackets := br' } pre cur rest toks br' :=
  ⟨h.q, h.start, h.pos, h.toks, rfl, h.fd⟩

theorem StG.accept_some (h : StG d l pre cur rest toks br) {s : List Char} (hp : s.isPrefixOf rest = true) :
    ∃ l', l.accept s = some l' ∧ StG d l' pre (cur ++ s) (rest.drop s.length) toks br := by
  obtain ⟨t, rfl⟩ := List.isPrefixOf_iff_prefix.mp hp
  refine ⟨{ l with pos := l.pos + s.length }, by simp [Lexer.accept, h.restFrom], by simp [h.q], h.start, ?_,
    h.toks, h.br, h.fd⟩
  simp [h.pos]; omega

theorem StG.accept_none (h : StG d l pre cur rest toks br) {s : List Char} (hp : s.isPrefixOf rest = false) :
    l.accept s = none := by
  simp [Lexer.accept, h.restFrom, hp]

theorem StG.acceptMatch_none (h : StG d l pre cur rest toks br) {re : List Char → Option Nat}
    (hre : re rest = none) : l.acceptMatch re = none := by
  simp [Lexer.acceptMatch, h.restFrom, hre]

/-! ### the default branch of the filter state -/

/-- `lex_inside_filter`'s default branch on the remaining input `x` -/
def fDefault (x : List Char) : Option (TokKind × Str × List Char) :=
  if "&&".toList.isPrefixOf x then some (.and, "&&".toList, x.drop 2)
  else if "||".toList.isPrefixOf x then some (.or, "||".toList, x.drop 2)
  else if (reKeyword "true".toList x).isSome then some (.true_, "true".toList, x.drop 4)
  else if (reKeyword "false".toList x).isSome then some (.false_, "false".toList, x.drop 5)
  else if (reKeyword "null".toList x).isSome then some (.null, "null".toList, x.drop 4)
  else match reFloat x with
  | some n => some (.float, x.take n, x.drop n)
  | none =>
  match reInt x with
  | some n => some (.int, x.take n, x.drop n)
  | none =>
  match reFunctionName x with
  | some n => if (x.drop n).head? = some '(' then some (.function, x.take n, (x.drop n).tail) else none
  | none => none

/-- a fixed-text token of the default branch -/
theorem fltDefault_kw (h : StG d l pre [] x toks br) {s : List Char} (k : TokKind)
    (hp : s.isPrefixOf x = true) :
    ∃ l1, l.accept s = some l1 ∧
      StG d (l1.emit k) (pre ++ s) [] (x.drop s.length) (⟨k, s, pre.length⟩ :: toks) br := by
  obtain ⟨l1, ha, h1⟩ := h.accept_some hp
  exact ⟨l1, ha, by simpa using h1.emit k⟩

/-- a keyword literal of the default branch (`RE_TRUE` etc.: the keyword not followed by a name character
or `(`) -/
theorem fltDefault_re (h : StG d l pre [] x toks br) {s : List Char} (k : TokKind)
    (hp : (reKeyword s x).isSome = true) :
    ∃ l1, l.acceptMatch (reKeyword s) = some l1 ∧
      StG d (l1.emit k) (pre ++ s) [] (x.drop s.length) (⟨k, s, pre.length⟩ :: toks) br := by
  obtain ⟨m, hm⟩ := Option.isSome_iff_exists.mp hp
  obtain ⟨rfl, hpre⟩ := reKeyword_some hm
  obtain ⟨l1, ha, h1⟩ := h.acceptMatch hm (reKeyword_bounded _ _ _ hm)
  refine ⟨l1, ha, ?_⟩
  have e : x.take s.length = s := by
    obtain ⟨t, rfl⟩ := List.isPrefixOf_iff_prefix.mp hpre
    simp
  have := h1.emit k
  rw [e] at this
  simpa using this

theorem fltDefault_spec (h : StG d l pre [] x toks br) :
    (∃ k v rest l' pre' br', fDefault x = some (k, v, rest) ∧ lexFilterDefault l = .ok (l', some .filter) ∧
      StG d l' pre' [] rest (⟨k, v, pre.length⟩ :: toks) br' ∧
      ((k = .function ∧ ∃ i, br' = ('(', i) :: br) ∨ (k ≠ .function ∧ br' = br))) ∨
    (fDefault x = none ∧ ∃ l', lexFilterDefault l = .ok (l', none) ∧ Bad l') := by
  unfold fDefault lexFilterDefault
  by_cases c1 : "&&".toList.isPrefixOf x = true
  · obtain ⟨l1, ha, h1⟩ := fltDefault_kw h .and c1
    left
    exact ⟨_, _, _, _, _, br, by rw [if_pos c1]; rfl, by simp only [ha, goto], h1, .inr ⟨by decide, rfl⟩⟩
  have a1 := h.accept_none (Bool.eq_false_iff.mpr c1)
  rw [if_neg c1]
  by_cases c2 : "||".toList.isPrefixOf x = true
  · obtain ⟨l1, ha, h1⟩ := fltDefault_kw h .or c2
    left
    exact ⟨_, _, _, _, _, br, by rw [if_pos c2]; rfl, by simp only [a1, ha, goto], h1, .inr ⟨by decide, rfl⟩⟩
  have a2 := h.accept_none (Bool.eq_false_iff.mpr c2)
  rw [if_neg c2]
  by_cases c3 : (reKeyword "true".toList x).isSome = true
  · obtain ⟨l1, ha, h1⟩ := fltDefault_re h .true_ c3
    left
    exact ⟨_, _, _, _, _, br, by rw [if_pos c3]; rfl, by simp only [a1, a2, ha, goto], h1, .inr ⟨by decide, rfl⟩⟩
  have a3 := h.acceptMatch_none (Option.not_isSome_iff_eq_none.mp c3)
  rw [if_neg c3]
  by_cases c4 : (reKeyword "false".toList x).isSome = true
  · obtain ⟨l1, ha, h1⟩ := fltDefault_re h .false_ c4
    left
    exact ⟨_, _, _, _, _, br, by rw [if_pos c4]; rfl, by simp only [a1, a2, a3, ha, goto], h1, .inr ⟨by decide, rfl⟩⟩
  have a4 := h.acceptMatch_none (Option.not_isSome_iff_eq_none.mp c4)
  rw [if_neg c4]
  by_cases c5 : (reKeyword "null".toList x).isSome = true
  · obtain ⟨l1, ha, h1⟩ := fltDefault_re h .null c5
    left
    exact ⟨_, _, _, _, _, br, by rw [if_pos c5]; rfl, by simp only [a1, a2, a3, a4, ha, goto], h1, .inr ⟨by decide, rfl⟩⟩
  have a5 := h.acceptMatch_none (Option.not_isSome_iff_eq_none.mp c5)
  rw [if_neg c5]
  cases hfl : reFloat x with
  | some n =>
    obtain ⟨l1, hm, h1⟩ := h.acceptMatch hfl (reFloat_bounded _ _ hfl)
    left
    exact ⟨_, _, _, l1.emit .float, _, br, rfl, by simp only [a1, a2, a3, a4, a5, hm, goto],
      by simpa using h1.emit .float, .inr ⟨by decide, rfl⟩⟩
  | none =>
    have m1 := h.acceptMatch_none hfl
    cases hin : reInt x with
    | some n =>
      obtain ⟨l1, hm, h1⟩ := h.acceptMatch hin (reInt_bounded _ _ hin)
      left
      exact ⟨_, _, _, l1.emit .int, _, br, rfl, by simp only [a1, a2, a3, a4, a5, m1, hm, goto],
        by simpa using h1.emit .int, .inr ⟨by decide, rfl⟩⟩
    | none =>
      have m2 := h.acceptMatch_none hin
      cases hfn : reFunctionName x with
      | none =>
        have m3 := h.acceptMatch_none hfn
        right
        exact ⟨rfl, l.error, by simp only [a1, a2, a3, a4, a5, m1, m2, m3, stop], Bad.of_error⟩
      | some n =>
        obtain ⟨l1, hm, h1⟩ := h.acceptMatch hfn (reFunctionName_bounded _ _ hfn)
        have hpk : l1.peek = (x.drop n).head? := h1.peek
        by_cases hp : (x.drop n).head? = some '('
        · left
          obtain ⟨r', hr'⟩ : ∃ r', x.drop n = '(' :: r' := by
            cases hx : x.drop n with
            | nil => rw [hx] at hp; cases hp
            | cons c r' => rw [hx] at hp; simp at hp; subst hp; exact ⟨r', rfl⟩
          have h2 := (h1.setFs (1 :: l1.funcStack)).emit .function
          simp only [List.nil_append] at h2
          rw [hr'] at h2
          have h3 := (h2.pushBracket '(' (({ l1 with funcStack := 1 :: l1.funcStack } : Lexer).emit .function).pos).adv.ignore
          refine ⟨.function, x.take n, r', _, _, _, by simp [hp, hr'], ?_, by simpa using h3,
            .inl ⟨rfl, _, rfl⟩⟩
          simp only [a1, a2, a3, a4, a5, m1, m2, hm, hpk, hp, if_true, goto, Lexer.next_eq]
          rfl
        · right
          refine ⟨by show (if _ then _ else _) = _; rw [if_neg hp], l1.error, ?_, Bad.of_error⟩
          simp only [a1, a2, a3, a4, a5, m1, m2, hm, hpk, hp, stop]
          simp

/-! ### the filter state: blank space, end of input -/

theorem step_filter_ws (h : StG d l pre [] rest toks br) :
    ∃ l1 pre', StG d l1 pre' [] (Spec.skipS rest) toks br ∧ Impl.step .filter l = Impl.step .filter l1 := by
  obtain ⟨b, l1, pre', hw, h1⟩ := StG_ws h
  have hw1 := h1.ws_none (skipS_head rest)
  exact ⟨l1, pre', h1, by simp only [Impl.step, lexFilter, hw, hw1, bind, Except.bind]⟩

theorem flt_nil (hst : StG d l pre [] inp toks br) (hsk : Spec.skipS inp = []) (hh : Halts .filter l lf) :
    Bad lf := by
  obtain ⟨l1, pre1, h1, e1⟩ := step_filter_ws hst
  rw [hsk] at h1
  have hp : l1.peek = none := by rw [h1.peek]; rfl
  have hw := h1.ws_none (by simp)
  have hs : Impl.step .filter l1 = .ok (l1.adv.error, none) := by
    simp [Impl.step, lexFilter, hw, Lexer.next_eq, hp, stop, bind, Except.bind]
  rw [hh.step_none (e1.trans hs)]
  exact Bad.of_error

/-! ### the string states, returning to the filter state (derived from `str_loop`, `str_first`) -/

theorem str_loopF {q : Char} (hq : q ≠ '\\') : ∀ (n : Nat) (inp cur : List Char) (l : Lexer), inp.length ≤ n →
    StG d l pre cur inp toks br → Halts (.strLoop q true) l lf → ¬ Bad lf →
    ∃ body rest l', scanString q inp = some (body, rest) ∧
      StG d l' (pre ++ cur ++ body ++ [q]) [] rest (⟨strKind q, cur ++ body, pre.length⟩ :: toks) br ∧
      Halts .filter l' lf := by
  intro n
  induction n with
  | zero =>
    intro inp cur l hl hst hh hg
    have e : inp = [] := by cases inp with
      | nil => rfl
      | cons => simp at hl
    subst e
    exfalso
    have hp : l.peek = none := by rw [hst.peek]; rfl
    have hs : Impl.step (.strLoop q true) l = .ok (l.adv.error, none) := by
      simp [Impl.step, lexStrLoop, Lexer.next_eq, hp, stop, bind, Except.bind]
    rw [hh.step_none hs] at hg
    exact hg Bad.of_error
  | succ n ih =>
    intro inp cur l hl hst hh hg
    cases inp with
    | nil =>
      exfalso
      have hp : l.peek = none := by rw [hst.peek]; rfl
      have hs : Impl.step (.strLoop q true) l = .ok (l.adv.error, none) := by
        simp [Impl.step, lexStrLoop, Lexer.next_eq, hp, stop, bind, Except.bind]
      rw [hh.step_none hs] at hg
      exact hg Bad.of_error
    | cons c r =>
      have hp : l.peek = some c := by rw [hst.peek]; rfl
      by_cases hc : c = '\\'
      · subst hc
        cases r with
        | nil =>
          exfalso
          have hp2 : l.adv.peek = none := by rw [hst.adv.peek]; rfl
          have hs : Impl.step (.strLoop q true) l = .ok (l.adv.error, none) := by
            simp [Impl.step, lexStrLoop, Lexer.next_eq, hp, hp2, stop, bind, Except.bind]
          rw [hh.step_none hs] at hg
          exact hg Bad.of_error
        | cons p r2 =>
          by_cases he : (isEscapeChar p || p = q) = true
          · have hs := lexStrLoop_esc (f := true) hst he
            obtain ⟨body, rest, l', hsc, h', hh'⟩ := ih r2 (cur ++ ['\\'] ++ [p]) l.adv.adv
              (by simp at hl; omega) hst.adv.adv (hh.step_some hs) hg
            refine ⟨'\\' :: p :: body, rest, l', ?_, by simpa using h', hh'⟩
            rw [scanString.eq_def]
            simp [he, hsc]
          · exfalso
            have hp2 : l.adv.peek = some p := by rw [hst.adv.peek]; rfl
            have he' : ¬ (isEscapeChar p = true ∨ p = q) := by simpa using he
            have hs : Impl.step (.strLoop q true) l = .ok (l.adv.error, none) := by
              simp [Impl.step, lexStrLoop, Lexer.next_eq, hp, hp2, stop, bind, Except.bind, he']
            rw [hh.step_none hs] at hg
            exact hg Bad.of_error
      · by_cases hcq : c = q
        · subst hcq
          obtain ⟨l', hs, h'⟩ := lexStrLoop_close (f := true) hst hq
          refine ⟨[], r, l', ?_, by simpa [retState] using h', by simpa [retState] using hh.step_some hs⟩
          rw [scanString.eq_def]
          simp [hc]
        · have hs := lexStrLoop_plain (f := true) hst hc hcq
          obtain ⟨body, rest, l', hsc, h', hh'⟩ := ih r (cur ++ [c]) l.adv
            (by simp at hl; omega) hst.adv (hh.step_some hs) hg
          refine ⟨c :: body, rest, l', ?_, by simpa using h', hh'⟩
          rw [scanString.eq_def]
          simp [hc, hcq, hsc]


/-- a string literal inside a filter, from after the opening quote -/
theorem str_firstF {q : Char} (hq : q = '\'' ∨ q = '"') {r : List Char} (hst : StG d l pre [q] r toks br)
    (hh : Halts (.strStart q true) l lf) (hg : ¬ Bad lf) :
    ∃ body rest l' pre', scanString q r = some (body, rest) ∧
      StG d l' pre' [] rest (⟨strKind q, body, (pre ++ [q]).length⟩ :: toks) br ∧ Halts .filter l' lf := by
  have hq' : q ≠ '\\' := by rcases hq with rfl | rfl <;> decide
  cases r with
  | nil =>
    exfalso
    have h0 := hst.ignore
    have hp : l.ignore.peek = none := by rw [h0.peek]; rfl
    have h1 := h0.emit (strKind q)
    have hp1 : (l.ignore.emit (strKind q)).peek = none := by rw [h1.peek]; rfl
    have hs : Impl.step (.strStart q true) l = .ok ((l.ignore.emit (strKind q)).ignore, some .filter) := by
      simp [Impl.step, lexStrStart, hp, Lexer.next_eq, Lexer.adv_none hp1, goto, retState]
    exact hg (flt_nil h1.ignore rfl (hh.step_some hs))
  | cons c r =>
    have hs := lexStrStart_exec (q := q) (f := true) hst (by simp)
    obtain ⟨body, rest, l', hsc, h', hh'⟩ := str_loopF hq' _ _ _ _ (Nat.le_refl _) hst.ignore (hh.step_some hs) hg
    exact ⟨body, rest, l', _, hsc, by simpa using h', hh'⟩


/-! ### a pure model of the filter state -/

/-- the next token in the filter state (kind, text, remaining input); `none` where the lexer reports an
error, and for `.` (where the lexer hands over to the segment state without emitting) -/
def fTok (inp : List Char) : Option (TokKind × Str × List Char) :=
  match Spec.skipS inp with
  | [] => none
  | c :: r =>
    if c = ']' then some (.rbracket, [c], r)
    else if c = ',' then some (.comma, [c], r)
    else if c = '\'' then (scanString '\'' r).map (fun x => (.sqString, x.1, x.2))
    else if c = '"' then (scanString '"' r).map (fun x => (.dqString, x.1, x.2))
    else if c = '(' then some (.lparen, [c], r)
    else if c = ')' then some (.rparen, [c], r)
    else if c = '$' then some (.root, [c], r)
    else if c = '@' then some (.current, [c], r)
    else if c = '.' then none
    else if c = '!' then (if r.head? = some '=' then some (.ne, ['!', '='], r.tail) else some (.not, [c], r))
    else if c = '=' then (if r.head? = some '=' then some (.eq, ['=', '='], r.tail) else none)
    else if c = '<' then (if r.head? = some '=' then some (.le, ['<', '='], r.tail) else some (.lt, [c], r))
    else if c = '>' then (if r.head? = some '=' then some (.ge, ['>', '='], r.tail) else some (.gt, [c], r))
    else fDefault (c :: r)

/-- the lexer configuration after the token of kind `k` read in the filter state; `R s l'` says how the
run goes on from state `s` -/
def FltPost (R : LState → Lexer → Prop) (d : Int) (br : List (Char × Nat)) (toks' : List Token) (k : TokKind)
    (rest : List Char) (l' : Lexer) : Prop :=
  (k = .rbracket ∧ ∃ i br' pre', br = ('[', i) :: br' ∧ StG (d - 1) l' pre' [] rest toks' br' ∧
    R .segment l') ∨
  (k = .comma ∧ ∃ i br' pre', br = ('(', i) :: br' ∧ StG d l' pre' [] rest toks' br ∧ R .filter l') ∨
  (k = .comma ∧ (∀ i br', br ≠ ('(', i) :: br') ∧ ∃ pre', StG (d - 1) l' pre' [] rest toks' br ∧
    R .bracketed l') ∨
  ((k = .lparen ∨ k = .function) ∧ ∃ i pre', StG d l' pre' [] rest toks' (('(', i) :: br) ∧
    R .filter l') ∨
  (k = .rparen ∧ ∃ i br' pre', br = ('(', i) :: br' ∧ StG d l' pre' [] rest toks' br' ∧ R .filter l') ∨
  ((k = .root ∨ k = .current) ∧ ∃ pre', StG d l' pre' [] rest toks' br ∧ R .segment l') ∨
  (k ≠ .rbracket ∧ k ≠ .comma ∧ k ≠ .lparen ∧ k ≠ .function ∧ k ≠ .rparen ∧ k ≠ .root ∧ k ≠ .current ∧
    ∃ pre', StG d l' pre' [] rest toks' br ∧ R .filter l')

end JPV.Proofs.Sf
