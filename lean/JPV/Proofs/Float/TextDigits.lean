/-
`Proofs.Float.TextDigits` — decimal digit strings: `Py.natDigits`, `Py.digitsToNat`, `Py.stripTrailingZeros`.
-/
import JPV.Proofs.Float.Defs
import JPV.Proofs.Pc.Num
import JPV.Proofs.Pc.IntRTParse
namespace JPV.Proofs.Float
open JPV JPV.Proofs.Cf

theorem natDigits_eq (m : Nat) : Py.natDigits m = Nat.toDigits 10 m := by
  unfold Py.natDigits
  exact Nat.toList_repr

theorem toDigits_length (k : Nat) : ∀ m, 0 < k → 10 ^ (k - 1) ≤ m → m < 10 ^ k → (Nat.toDigits 10 m).length = k := by
  induction k with
  | zero => intro m h; omega
  | succ k ih =>
    intro m _ h1 h2
    rw [Nat.toDigits_eq_if (by omega)]
    split
    · rename_i hlt
      cases k with
      | zero => rfl
      | succ j =>
        exfalso
        have : 10 ^ 1 ≤ 10 ^ (j + 1) := Nat.pow_le_pow_right (by omega) (by omega)
        simp only [Nat.add_sub_cancel] at h1
        omega
    · rename_i hge
      cases k with
      | zero => simp at h2; omega
      | succ j =>
        simp only [Nat.add_sub_cancel] at h1
        have e1 : 10 ^ (j + 1) = 10 ^ j * 10 := Nat.pow_succ _ _
        have e2 : 10 ^ (j + 1 + 1) = 10 ^ (j + 1) * 10 := Nat.pow_succ _ _
        have := ih (m / 10) (by omega) (by simp only [Nat.add_sub_cancel]; omega) (by omega)
        simp [this]

/-! ### `digitsToNat` -/

theorem foldl_digits (ds : List Char) : ∀ acc : Nat,
    ds.foldl (fun acc c => acc * 10 + (c.toNat - 48)) acc = acc * 10 ^ ds.length + Py.digitsToNat ds := by
  induction ds with
  | nil => intro acc; simp [Py.digitsToNat]
  | cons d t ih =>
    intro acc
    unfold Py.digitsToNat
    simp only [List.foldl_cons, List.length_cons]
    rw [ih, ih (0 * 10 + (d.toNat - 48))]
    rw [Nat.pow_succ, Nat.add_mul, Nat.mul_assoc, Nat.mul_comm 10]
    simp [Nat.add_assoc]

theorem digitsToNat_append (a b : List Char) :
    Py.digitsToNat (a ++ b) = Py.digitsToNat a * 10 ^ b.length + Py.digitsToNat b := by
  conv => lhs; unfold Py.digitsToNat
  rw [List.foldl_append, foldl_digits]
  rfl

theorem digitsToNat_zeros (k : Nat) : Py.digitsToNat (List.replicate k '0') = 0 := by
  induction k with
  | zero => rfl
  | succ k ih =>
    rw [List.replicate_succ, ← List.singleton_append, digitsToNat_append, ih]
    have : Py.digitsToNat ['0'] = 0 := by decide
    rw [this]; simp

theorem digitsToNat_natDigits (n : Nat) : Py.digitsToNat (Py.natDigits n) = n := by
  rw [natDigits_eq, Prn.digitsToNat_toDigits]

/-! ### digit characters -/

theorem isDigit_eq (c : Char) : Impl.isDigit c = Spec.isDIGIT c := rfl

theorem natDigits_isDigit (n : Nat) : ∀ c ∈ Py.natDigits n, Impl.isDigit c = true := by
  rw [natDigits_eq]; exact Prn.toDigits_isDIGIT n

theorem natDigits_ne_nil (n : Nat) : Py.natDigits n ≠ [] := by
  rw [natDigits_eq]; exact Nat.toDigits_ne_nil

theorem zeros_isDigit (k : Nat) : ∀ c ∈ List.replicate k '0', Impl.isDigit c = true := by
  intro c hc
  rw [List.mem_replicate] at hc
  rw [hc.2]; decide

/-! ### `stripTrailingZeros` -/

theorem strip_append (ds : List Char) :
    ∃ t, ds = Py.stripTrailingZeros ds ++ List.replicate t '0' := by
  refine ⟨(ds.reverse.takeWhile (· = '0')).length, ?_⟩
  have h := List.takeWhile_append_dropWhile (p := (· = '0')) (l := ds.reverse)
  have h2 : ds.reverse.takeWhile (· = '0') = List.replicate (ds.reverse.takeWhile (· = '0')).length '0' := by
    rw [List.eq_replicate_iff]
    refine ⟨rfl, fun c hc => ?_⟩
    have := Cs.takeWhile_all _ _ c hc
    simpa using this
  have h3 := congrArg List.reverse h
  rw [List.reverse_append, List.reverse_reverse] at h3
  unfold Py.stripTrailingZeros
  conv => lhs; rw [← h3]
  congr 1
  conv => lhs; rw [h2]
  rw [List.reverse_replicate]

/-- the significant digits of a positive number -/
theorem strip_spec (m : Nat) (hm : 0 < m) :
    ∃ c rest t, Py.stripTrailingZeros (Py.natDigits m) = c :: rest ∧ Spec.isDIGIT1 c = true ∧
      (∀ x ∈ rest, Impl.isDigit x = true) ∧ Py.natDigits m = c :: rest ++ List.replicate t '0' ∧
      Py.digitsToNat (c :: rest) * 10 ^ t = m := by
  obtain ⟨t, ht⟩ := strip_append (Py.natDigits m)
  have hv := digitsToNat_natDigits m
  rw [ht, digitsToNat_append, digitsToNat_zeros, List.length_replicate, Nat.add_zero] at hv
  cases hs : Py.stripTrailingZeros (Py.natDigits m) with
  | nil =>
    rw [hs] at hv
    simp [Py.digitsToNat] at hv
    omega
  | cons c rest =>
    rw [hs] at ht hv
    obtain ⟨d, ds, e, hd⟩ := Prn.toDigits_head m hm
    rw [natDigits_eq] at ht
    have hall := Prn.toDigits_isDIGIT m
    rw [ht] at hall
    rw [e] at ht
    simp only [List.cons_append, List.cons.injEq] at ht
    refine ⟨c, rest, t, rfl, ht.1 ▸ hd, fun x hx => hall x (by simp [hx]), ?_, hv⟩
    rw [natDigits_eq, e, ht.1, ht.2]; rfl

theorem D1_isDigit {c : Char} (h : Spec.isDIGIT1 c = true) : Impl.isDigit c = true := by
  rw [isDigit_eq, Prn.isDIGIT_iff]
  rw [Prn.isDIGIT1_iff] at h
  omega

theorem D1_ne_zero {c : Char} (h : Spec.isDIGIT1 c = true) : c ≠ '0' := by
  rintro rfl; revert h; decide

/-! ### the exponent digits -/

/-- the digits of the exponent, at least two -/
def expDigits (n : Nat) : List Char :=
  if (Py.natDigits n).length < 2 then '0' :: Py.natDigits n else Py.natDigits n

theorem expDigits_isDigit (n : Nat) : ∀ c ∈ expDigits n, Impl.isDigit c = true := by
  unfold expDigits
  split
  · intro c hc
    rcases List.mem_cons.mp hc with rfl | hc
    · decide
    · exact natDigits_isDigit n c hc
  · exact natDigits_isDigit n

theorem expDigits_ne_nil (n : Nat) : expDigits n ≠ [] := by
  unfold expDigits
  split
  · simp
  · exact natDigits_ne_nil n

theorem expDigits_digs (n : Nat) : Digs (expDigits n) := ⟨expDigits_ne_nil n, expDigits_isDigit n⟩

theorem digitsToNat_expDigits (n : Nat) : Py.digitsToNat (expDigits n) = n := by
  unfold expDigits
  split
  · rw [← List.singleton_append, digitsToNat_append, digitsToNat_natDigits]
    simp [Py.digitsToNat]
  · exact digitsToNat_natDigits n

end JPV.Proofs.Float
