/-
`Proofs.Ss.Shape` — the token shape of a filter-free query as the PARSER sees it: the interface
between the parser inversion (`Ss.ParseInv`) and the lexer inversion (`Ss.Lex*`) halves of
`compile_sound_structural`.  Punctuation tokens are constrained by kind only (the parser never
looks at their text).
-/
import JPV.Impl.Parse
import JPV.Spec.Grammar
import JPV.Spec.Typing
import JPV.Proofs.Cs.Shape
namespace JPV.Proofs.Ss
open JPV JPV.Impl JPV.Proofs.Cs

/-- tokens of an optional slice part -/
inductive OptT : Option Int → List Token → Prop
  | none : OptT none []
  | some (t : Token) (i : Int) : t.kind = .index → IdxTok t.value i → OptT (some i) [t]

/-- tokens of the optional `":" [step]` tail of a slice -/
inductive StepT : Option Int → List Token → Prop
  | absent : StepT none []
  | colon (t : Token) : t.kind = .colon → StepT none [t]
  | step (t t' : Token) (i : Int) : t.kind = .colon → t'.kind = .index → IdxTok t'.value i →
      StepT (some i) [t, t']

inductive SelT : Selector → List Token → Prop
  | wild (t : Token) : t.kind = .wild → SelT .wild [t]
  | name (t : Token) (s : Str) : (t.kind = .sqString ∨ t.kind = .dqString) →
      decodeStringLiteral t.kind t.value = .ok s → SelT (.name s) [t]
  | index (t : Token) (i : Int) : t.kind = .index → IdxTok t.value i → SelT (.index i) [t]
  | slice (a b c : Option Int) (ta tb tc : List Token) (t : Token) : t.kind = .colon →
      OptT a ta → OptT b tb → StepT c tc → SelT (.slice a b c) (ta ++ t :: (tb ++ tc))

/-- `selector *("," selector)` -/
inductive SelsT : List Selector → List Token → Prop
  | one (s : Selector) (ts : List Token) : SelT s ts → SelsT [s] ts
  | cons (s : Selector) (ss : List Selector) (t : Token) (ts1 ts2 : List Token) :
      SelT s ts1 → t.kind = .comma → SelsT ss ts2 → SelsT (s :: ss) (ts1 ++ t :: ts2)

inductive SegT : Segment → List Token → Prop
  | dotName (t : Token) : t.kind = .property → SegT (.child [.name t.value]) [t]
  | dotWild (t : Token) : t.kind = .wild → SegT (.child [.wild]) [t]
  | brack (lb rb : Token) (sels : List Selector) (ts : List Token) : lb.kind = .lbracket →
      rb.kind = .rbracket → SelsT sels ts → SegT (.child sels) (lb :: (ts ++ [rb]))
  | descName (d t : Token) : d.kind = .doubleDot → t.kind = .property →
      SegT (.desc [.name t.value]) [d, t]
  | descWild (d t : Token) : d.kind = .doubleDot → t.kind = .wild → SegT (.desc [.wild]) [d, t]
  | descBrack (d lb rb : Token) (sels : List Selector) (ts : List Token) : d.kind = .doubleDot →
      lb.kind = .lbracket → rb.kind = .rbracket → SelsT sels ts →
      SegT (.desc sels) (d :: lb :: (ts ++ [rb]))
  /-- `..` followed by a token that starts no selector (the parser builds an empty descendant
  segment and skips the token); the lexer never produces this -/
  | descBad (d t : Token) : d.kind = .doubleDot → t.kind ≠ .property → t.kind ≠ .wild →
      t.kind ≠ .lbracket → SegT (.desc []) [d, t]

/-- `QT q toks left`: `toks` is the tokens of the segments `q` followed by `left` -/
inductive QT : Query → List Token → List Token → Prop
  | nil (l : List Token) : QT [] l l
  | cons (s : Segment) (ss : Query) (t1 rest left : List Token) :
      SegT s t1 → QT ss rest left → QT (s :: ss) (t1 ++ rest) left
  /-- `..` directly before EOF (which the parser's `next` does not move past) -/
  | descEof (d e : Token) (more : List Token) : d.kind = .doubleDot → e.kind = .eof →
      QT [.desc []] (d :: e :: more) (e :: more)

/-- the token list ends with an EOF-kind token -/
def EndsEof (l : List Token) : Prop := ∃ t, l.getLast? = some t ∧ t.kind = .eof

theorem EndsEof.tail {t t' : Token} {l : List Token} (h : EndsEof (t :: t' :: l)) : EndsEof (t' :: l) := by
  obtain ⟨x, hx, hk⟩ := h
  exact ⟨x, by simpa [List.getLast?_cons_cons] using hx, hk⟩

theorem EndsEof.single {t : Token} (h : EndsEof [t]) : t.kind = .eof := by
  obtain ⟨x, hx, hk⟩ := h
  simp at hx; subst hx; exact hk

/-- a non-EOF token of an EOF-terminated list has a successor -/
theorem EndsEof.next {t : Token} {l : List Token} (h : EndsEof (t :: l)) (hk : t.kind ≠ .eof) :
    ∃ t' l', l = t' :: l' ∧ EndsEof (t' :: l') := by
  cases l with
  | nil => exact absurd h.single hk
  | cons t' l' => exact ⟨t', l', rfl, h.tail⟩

end JPV.Proofs.Ss
