/-
`Proofs.Sv.Shape` — (copy of `Sf.Shape` that records, for every function call, which arguments begin
with a left parenthesis, and that the declared parameter type of each such argument is LogicalType) the token shape of a query WITH filters as the parser sees it: the interface
between the parser inversion (`Sf.ParseInv*`) and the lexer inversion (`Sf.Lex*`) halves of
`compile_sound`.  The relations are indexed by the abstract syntax the parser builds; they are layered
like the RFC grammar (`term` < `basic` < `logical-and` < `logical-or`), parentheses appear as tokens only.
Punctuation tokens are constrained by kind only.
-/
import JPV.Impl.Parse
import JPV.Spec.Grammar
import JPV.Proofs.Ss.Shape
import JPV.Proofs.Sf.Shape
import JPV.Proofs.Sv.Good
namespace JPV.Proofs.Sv
open JPV JPV.Impl JPV.Proofs.Cs JPV.Proofs.Ss JPV.Proofs.Sf

def startsLp : List Token → Bool
  | t :: _ => t.kind == .lparen
  | [] => false

variable [SigC]

mutual

/-- literal / filter-query / function-expr -/
inductive TermD : Expr → List Token → Prop
  | lit (t : Token) (v : Json) : litVal t = some v → TermD (.lit v) [t]
  | rel (t : Token) (q : Query) (ts : List Token) : t.kind = .current → SegsD q ts → TermD (.rel q) (t :: ts)
  | root (t : Token) (q : Query) (ts : List Token) : t.kind = .root → SegsD q ts → TermD (.root q) (t :: ts)
  | call (t rp : Token) (args : List Expr) (bs : List Bool) (ts : List Token) : t.kind = .function →
      rp.kind = .rparen → ArgsD args bs ts → callOK t.value bs = true →
      TermD (.call t.value args) (t :: (ts ++ [rp]))

/-- basic-expr = paren-expr / comparison-expr / test-expr -/
inductive BasicD : Expr → List Token → Prop
  | paren (lp rp : Token) (e : Expr) (ts : List Token) : lp.kind = .lparen → rp.kind = .rparen →
      OrD e ts → BasicD e (lp :: (ts ++ [rp]))
  | notParen (n lp rp : Token) (e : Expr) (ts : List Token) : n.kind = .not → lp.kind = .lparen →
      rp.kind = .rparen → OrD e ts → BasicD (.not e) (n :: lp :: (ts ++ [rp]))
  | notTerm (n : Token) (e : Expr) (ts : List Token) : n.kind = .not → TermD e ts → isLiteral e = false →
      BasicD (.not e) (n :: ts)
  | test (e : Expr) (ts : List Token) : TermD e ts → isLiteral e = false → BasicD e ts
  | cmp (o : Token) (op : COp) (l r : Expr) (tl tr : List Token) : binaryOp o.kind = some (.cmp op) →
      TermD l tl → TermD r tr → BasicD (.cmp op l r) (tl ++ o :: tr)

/-- logical-and-expr = basic-expr *("&&" basic-expr), right-nested -/
inductive AndD : Expr → List Token → Prop
  | one (e : Expr) (ts : List Token) : BasicD e ts → AndD e ts
  | and (o : Token) (l r : Expr) (tl tr : List Token) : o.kind = .and → BasicD l tl → AndD r tr →
      AndD (.logical .and l r) (tl ++ o :: tr)

/-- logical-or-expr = logical-and-expr *("||" logical-and-expr), right-nested -/
inductive OrD : Expr → List Token → Prop
  | one (e : Expr) (ts : List Token) : AndD e ts → OrD e ts
  | or (o : Token) (l r : Expr) (tl tr : List Token) : o.kind = .or → AndD l tl → OrD r tr →
      OrD (.logical .or l r) (tl ++ o :: tr)

/-- function-argument: a bare literal, or a logical-or-expr -/
inductive ArgD : Expr → List Token → Prop
  | lit (t : Token) (v : Json) : litVal t = some v → ArgD (.lit v) [t]
  | expr (e : Expr) (ts : List Token) : OrD e ts → ArgD e ts

/-- `*("," function-argument)` -/
inductive MoreArgsD : List Expr → List Bool → List Token → Prop
  | nil : MoreArgsD [] [] []
  | cons (c : Token) (a : Expr) (as : List Expr) (bs : List Bool) (t1 t2 : List Token) : c.kind = .comma →
      ArgD a t1 → MoreArgsD as bs t2 → MoreArgsD (a :: as) (startsLp t1 :: bs) (c :: (t1 ++ t2))

/-- `[function-argument *("," function-argument)]` -/
inductive ArgsD : List Expr → List Bool → List Token → Prop
  | nil : ArgsD [] [] []
  | cons (a : Expr) (as : List Expr) (bs : List Bool) (t1 t2 : List Token) : ArgD a t1 → MoreArgsD as bs t2 →
      ArgsD (a :: as) (startsLp t1 :: bs) (t1 ++ t2)

inductive SelD : Selector → List Token → Prop
  /-- name, index, slice, wildcard: the filter-free shapes of `Ss.SelT` -/
  | leaf (s : Selector) (ts : List Token) : SelT s ts → SelD s ts
  | filter (t : Token) (e : Expr) (ts : List Token) : t.kind = .filter → OrD e ts →
      SelD (.filter e) (t :: ts)

/-- `*("," selector)` -/
inductive MoreSelsD : List Selector → List Token → Prop
  | nil : MoreSelsD [] []
  | cons (c : Token) (s : Selector) (ss : List Selector) (t1 t2 : List Token) : c.kind = .comma →
      SelD s t1 → MoreSelsD ss t2 → MoreSelsD (s :: ss) (c :: (t1 ++ t2))

/-- `selector *("," selector)` -/
inductive SelsD : List Selector → List Token → Prop
  | mk (s : Selector) (ss : List Selector) (t1 t2 : List Token) : SelD s t1 → MoreSelsD ss t2 →
      SelsD (s :: ss) (t1 ++ t2)

inductive SegD : Segment → List Token → Prop
  | dotName (t : Token) : t.kind = .property → SegD (.child [.name t.value]) [t]
  | dotWild (t : Token) : t.kind = .wild → SegD (.child [.wild]) [t]
  | brack (lb rb : Token) (sels : List Selector) (ts : List Token) : lb.kind = .lbracket →
      rb.kind = .rbracket → SelsD sels ts → SegD (.child sels) (lb :: (ts ++ [rb]))
  | descName (d t : Token) : d.kind = .doubleDot → t.kind = .property →
      SegD (.desc [.name t.value]) [d, t]
  | descWild (d t : Token) : d.kind = .doubleDot → t.kind = .wild → SegD (.desc [.wild]) [d, t]
  | descBrack (d lb rb : Token) (sels : List Selector) (ts : List Token) : d.kind = .doubleDot →
      lb.kind = .lbracket → rb.kind = .rbracket → SelsD sels ts →
      SegD (.desc sels) (d :: lb :: (ts ++ [rb]))
  /-- `..` followed by a token that starts no selector (the parser builds an empty descendant
  segment and skips the token); the lexer never produces this -/
  | descBad (d t : Token) : d.kind = .doubleDot → t.kind ≠ .property → t.kind ≠ .wild →
      t.kind ≠ .lbracket → t.kind ≠ .eof → SegD (.desc []) [d, t]

/-- the tokens of the segments of a query -/
inductive SegsD : Query → List Token → Prop
  | nil : SegsD [] []
  | cons (s : Segment) (ss : Query) (t1 t2 : List Token) : SegD s t1 → SegsD ss t2 →
      SegsD (s :: ss) (t1 ++ t2)
  /-- `..` directly before an EOF token (which the parser's `next` does not move past); the lexer never
  produces this -/
  | descEof (d : Token) : d.kind = .doubleDot → SegsD [.desc []] [d]

end

end JPV.Proofs.Sv
