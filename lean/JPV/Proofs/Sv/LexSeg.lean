/-
`Proofs.Sv.LexSeg` (copy of `Sf.LexSeg` for the relations of `Sv.Shape` and the judgements of `Sv.Judge`) — LEXER INVERSION, the induction steps for segments and segment lists, and the
induction itself.
-/
import JPV.Proofs.Sf.LexSeg
import JPV.Proofs.Sv.LexSel
set_option linter.unusedSimpArgs false
set_option linter.unusedVariables false
namespace JPV.Proofs.Sv
open JPV JPV.Impl JPV.Proofs.Rq JPV.Proofs.Cs JPV.Proofs.Ss JPV.Proofs.Sf

variable [SigC]

variable {lf : Lexer} {n : Nat}

theorem SegD.ne {s : Segment} {ts : List Token} (h : SegD s ts) : 1 ≤ ts.length := by
  cases h <;> simp

/-! ### one segment -/

theorem pSeg_step (hg : ¬ Bad lf) (hSels : PSels lf n) : PSeg lf (n + 1) := by
  intro s ts hD hlen d br x out hd hcfg
  cases hD with
  | dotName t hk =>
    have hcfg' : SCfg lf d br x (t :: out) := by simpa using hcfg
    rcases SCfg.next hg hcfg' with ⟨_, k, eo⟩ | ⟨r, k, out', _, eo, _⟩ | ⟨r, k, out', _, eo, _⟩ |
      ⟨c, r, m, k, out', e1, hn, hre, eo, hs⟩ | ⟨r, k, i, out', _, eo, _⟩ | ⟨_, hx, hf⟩
    · kind_contra eo hk
    · kind_contra eo hk
    · kind_contra eo hk
    · simp only [List.cons.injEq] at eo
      obtain ⟨rfl, rfl⟩ := eo
      obtain ⟨n1, n2, n3⟩ := nameFirst_ne hn
      rw [e1]
      exact ⟨_, HSeg.dotName (shorthand_of_reProperty hn hre) n3 n1, hs⟩
    · kind_contra eo hk
    · exact absurd hk (FCfg.not_seg hg hf hx).1
  | dotWild t hk =>
    have hcfg' : SCfg lf d br x (t :: out) := by simpa using hcfg
    rcases SCfg.next hg hcfg' with ⟨_, k, eo⟩ | ⟨r, k, out', _, eo, _⟩ | ⟨r, k, out', e1, eo, hs⟩ |
      ⟨c, r, m, k, out', e1, hn, hre, eo, hs⟩ | ⟨r, k, i, out', _, eo, _⟩ | ⟨_, hx, hf⟩
    · kind_contra eo hk
    · kind_contra eo hk
    · simp only [List.cons.injEq] at eo
      obtain ⟨rfl, rfl⟩ := eo
      rw [e1]
      exact ⟨_, HSeg.dotWild r, hs⟩
    · kind_contra eo hk
    · kind_contra eo hk
    · exact absurd hk (FCfg.not_seg hg hf hx).2.1
  | brack lb rb sels ts' hlb hrb hsels =>
    have hcfg' : SCfg lf d br x (lb :: (ts' ++ rb :: out)) := by simpa using hcfg
    rcases SCfg.next hg hcfg' with ⟨_, k, eo⟩ | ⟨r, k, out', _, eo, _⟩ | ⟨r, k, out', e1, eo, hs⟩ |
      ⟨c, r, m, k, out', e1, hn, hre, eo, hs⟩ | ⟨r, k, i, out', e1, eo, hb⟩ | ⟨_, hx, hf⟩
    · kind_contra eo hlb
    · kind_contra eo hlb
    · kind_contra eo hlb
    · kind_contra eo hlb
    · simp only [List.cons.injEq] at eo
      obtain ⟨rfl, rfl⟩ := eo
      obtain ⟨rest, hB, hs⟩ := hSels sels ts' hsels (by simp at hlen; omega) d i br r rb out hd hb hrb
      rw [e1]
      exact ⟨rest, HSeg.brack hB, hs⟩
    · exact absurd hlb (FCfg.not_seg hg hf hx).2.2.2.1
  | descName dd t hdd hk =>
    have hcfg' : SCfg lf d br x (dd :: t :: out) := by simpa using hcfg
    rcases SCfg.next hg hcfg' with ⟨_, k, eo⟩ | ⟨r, k, out', e1, eo, hdc⟩ | ⟨r, k, out', e1, eo, hs⟩ |
      ⟨c, r, m, k, out', e1, hn, hre, eo, hs⟩ | ⟨r, k, i, out', e1, eo, hb⟩ | ⟨_, hx, hf⟩
    · kind_contra eo hdd
    · simp only [List.cons.injEq] at eo
      obtain ⟨rfl, rfl⟩ := eo
      rcases DCfg.next hg hdc with ⟨r1, k1, out1, _, eo, _⟩ | ⟨c, r1, m, k1, out1, e2, hn, hre, eo, hs⟩ |
        ⟨r1, k1, i, out1, _, eo, _⟩
      · kind_contra eo hk
      · simp only [List.cons.injEq] at eo
        obtain ⟨rfl, rfl⟩ := eo
        subst e2
        obtain ⟨n1, n2, n3⟩ := nameFirst_ne hn
        rw [e1]
        exact ⟨_, HSeg.descName (shorthand_of_reProperty hn hre) n1 n2, hs⟩
      · kind_contra eo hk
    · kind_contra eo hdd
    · kind_contra eo hdd
    · kind_contra eo hdd
    · exact absurd hdd (FCfg.not_seg hg hf hx).2.2.1
  | descWild dd t hdd hk =>
    have hcfg' : SCfg lf d br x (dd :: t :: out) := by simpa using hcfg
    rcases SCfg.next hg hcfg' with ⟨_, k, eo⟩ | ⟨r, k, out', e1, eo, hdc⟩ | ⟨r, k, out', e1, eo, hs⟩ |
      ⟨c, r, m, k, out', e1, hn, hre, eo, hs⟩ | ⟨r, k, i, out', e1, eo, hb⟩ | ⟨_, hx, hf⟩
    · kind_contra eo hdd
    · simp only [List.cons.injEq] at eo
      obtain ⟨rfl, rfl⟩ := eo
      rcases DCfg.next hg hdc with ⟨r1, k1, out1, e2, eo, hs⟩ | ⟨c, r1, m, k1, out1, e2, hn, hre, eo, hs⟩ |
        ⟨r1, k1, i, out1, _, eo, _⟩
      · simp only [List.cons.injEq] at eo
        obtain ⟨rfl, rfl⟩ := eo
        subst e2
        rw [e1]
        exact ⟨_, HSeg.descWild r1, hs⟩
      · kind_contra eo hk
      · kind_contra eo hk
    · kind_contra eo hdd
    · kind_contra eo hdd
    · kind_contra eo hdd
    · exact absurd hdd (FCfg.not_seg hg hf hx).2.2.1
  | descBrack dd lb rb sels ts' hdd hlb hrb hsels =>
    have hcfg' : SCfg lf d br x (dd :: lb :: (ts' ++ rb :: out)) := by simpa using hcfg
    rcases SCfg.next hg hcfg' with ⟨_, k, eo⟩ | ⟨r, k, out', e1, eo, hdc⟩ | ⟨r, k, out', e1, eo, hs⟩ |
      ⟨c, r, m, k, out', e1, hn, hre, eo, hs⟩ | ⟨r, k, i, out', e1, eo, hb⟩ | ⟨_, hx, hf⟩
    · kind_contra eo hdd
    · simp only [List.cons.injEq] at eo
      obtain ⟨rfl, rfl⟩ := eo
      rcases DCfg.next hg hdc with ⟨r1, k1, out1, e2, eo, hs⟩ | ⟨c, r1, m, k1, out1, e2, hn, hre, eo, hs⟩ |
        ⟨r1, k1, i, out1, e2, eo, hb⟩
      · kind_contra eo hlb
      · kind_contra eo hlb
      · simp only [List.cons.injEq] at eo
        obtain ⟨rfl, rfl⟩ := eo
        subst e2
        obtain ⟨rest, hB, hs⟩ := hSels sels ts' hsels (by simp at hlen; omega) d i br r1 rb out hd hb hrb
        rw [e1]
        exact ⟨rest, HSeg.descBrack hB, hs⟩
    · kind_contra eo hdd
    · kind_contra eo hdd
    · kind_contra eo hdd
    · exact absurd hdd (FCfg.not_seg hg hf hx).2.2.1
  | descBad dd t hdd h1 h2 h3 h4 =>
    exfalso
    have hcfg' : SCfg lf d br x (dd :: t :: out) := by simpa using hcfg
    rcases SCfg.next hg hcfg' with ⟨_, k, eo⟩ | ⟨r, k, out', e1, eo, hdc⟩ | ⟨r, k, out', e1, eo, hs⟩ |
      ⟨c, r, m, k, out', e1, hn, hre, eo, hs⟩ | ⟨r, k, i, out', e1, eo, hb⟩ | ⟨_, hx, hf⟩
    · kind_contra eo hdd
    · simp only [List.cons.injEq] at eo
      obtain ⟨rfl, rfl⟩ := eo
      rcases DCfg.next hg hdc with ⟨r1, k1, out1, e2, eo, hs⟩ | ⟨c, r1, m, k1, out1, e2, hn, hre, eo, hs⟩ |
        ⟨r1, k1, i, out1, e2, eo, hb⟩
      · kind_contra eo h2
      · kind_contra eo h1
      · kind_contra eo h3
    · kind_contra eo hdd
    · kind_contra eo hdd
    · kind_contra eo hdd
    · exact absurd hdd (FCfg.not_seg hg hf hx).2.2.1

/-! ### segment lists -/

theorem pSegs_step (hg : ¬ Bad lf) (hSeg1 : PSeg lf (n + 1)) (hSegs : PSegs lf n) : PSegs lf (n + 1) := by
  intro q ts hD hlen d br x nxt out hd hcfg hfol
  obtain ⟨f1, f2, f3, f4, f5⟩ := folT_plainOr hfol
  cases hD with
  | nil =>
    have hcfg' : SCfg lf d br x (nxt :: out) := by simpa using hcfg
    rcases SCfg.next hg hcfg' with ⟨_, k, eo⟩ | ⟨r, k, out', _, eo, _⟩ | ⟨r, k, out', _, eo, _⟩ |
      ⟨c, r, m, k, out', _, _, _, eo, _⟩ | ⟨r, k, i, out', _, eo, _⟩ | ⟨_, ⟨c, r, e, hc1, hc2⟩, hf⟩
    · simp only [List.cons.injEq] at eo; rw [eo.1] at f5; exact absurd rfl f5
    · simp only [List.cons.injEq] at eo; rw [eo.1] at f1; exact absurd rfl f1
    · simp only [List.cons.injEq] at eo; rw [eo.1] at f2; exact absurd rfl f2
    · simp only [List.cons.injEq] at eo; rw [eo.1] at f3; exact absurd rfl f3
    · simp only [List.cons.injEq] at eo; rw [eo.1] at f4; exact absurd rfl f4
    · refine ⟨x, HSegs.nil ?_, hf⟩
      intro c' t' e'
      rw [e] at e'
      simp only [List.cons.injEq] at e'
      obtain ⟨rfl, rfl⟩ := e'
      exact ⟨hc1, hc2⟩
  | cons s ss t1 t2 hs hq =>
    have hpos := hs.ne
    have hcfg' : SCfg lf d br x (t1 ++ (t2 ++ nxt :: out)) := by simpa using hcfg
    obtain ⟨r, hS, hc1⟩ := hSeg1 s t1 hs (by simp at hlen; omega) d br x _ (by omega) hcfg'
    obtain ⟨rest, hQ, hc2⟩ := hSegs ss t2 hq (by simp at hlen; omega) d br r nxt out hd hc1 hfol
    exact ⟨rest, HSegs.cons hS hQ, hc2⟩
  | descEof dd hdd =>
    exfalso
    have hcfg' : SCfg lf d br x (dd :: nxt :: out) := by simpa using hcfg
    rcases SCfg.next hg hcfg' with ⟨_, k, eo⟩ | ⟨r, k, out', e1, eo, hdc⟩ | ⟨r, k, out', e1, eo, hs⟩ |
      ⟨c, r, m, k, out', e1, hn, hre, eo, hs⟩ | ⟨r, k, i, out', e1, eo, hb⟩ | ⟨_, hx, hf⟩
    · kind_contra eo hdd
    · simp only [List.cons.injEq] at eo
      obtain ⟨rfl, rfl⟩ := eo
      rcases DCfg.next hg hdc with ⟨r1, k1, out1, e2, eo, hs⟩ | ⟨c, r1, m, k1, out1, e2, hn, hre, eo, hs⟩ |
        ⟨r1, k1, i, out1, e2, eo, hb⟩
      · simp only [List.cons.injEq] at eo; rw [eo.1] at f2; exact absurd rfl f2
      · simp only [List.cons.injEq] at eo; rw [eo.1] at f3; exact absurd rfl f3
      · simp only [List.cons.injEq] at eo; rw [eo.1] at f4; exact absurd rfl f4
    · kind_contra eo hdd
    · kind_contra eo hdd
    · kind_contra eo hdd
    · exact absurd hdd (FCfg.not_seg hg hf hx).2.2.1

theorem pTop_step (hg : ¬ Bad lf) (hSeg1 : PSeg lf (n + 1)) (hTop : PTop lf n) : PTop lf (n + 1) := by
  intro q ts hD hlen x e out hcfg he
  cases hD with
  | nil =>
    have hcfg' : SCfg lf 0 [] x (e :: out) := by simpa using hcfg
    rcases SCfg.next hg hcfg' with ⟨rfl, k, eo⟩ | ⟨r, k, out', _, eo, _⟩ | ⟨r, k, out', _, eo, _⟩ |
      ⟨c, r, m, k, out', _, _, _, eo, _⟩ | ⟨r, k, i, out', _, eo, _⟩ | ⟨hd, _⟩
    · exact HSegs.nil (by intro c t e'; cases e')
    · kind_contra eo he
    · kind_contra eo he
    · kind_contra eo he
    · kind_contra eo he
    · exact absurd rfl hd
  | cons s ss t1 t2 hs hq =>
    have hpos := hs.ne
    have hcfg' : SCfg lf 0 [] x (t1 ++ (t2 ++ e :: out)) := by simpa using hcfg
    obtain ⟨r, hS, hc1⟩ := hSeg1 s t1 hs (by simp at hlen; omega) 0 [] x _ (by omega) hcfg'
    exact HSegs.cons hS (hTop ss t2 hq (by simp at hlen; omega) r e out hc1 he)
  | descEof dd hdd =>
    exfalso
    have hcfg' : SCfg lf 0 [] x (dd :: e :: out) := by simpa using hcfg
    rcases SCfg.next hg hcfg' with ⟨_, k, eo⟩ | ⟨r, k, out', e1, eo, hdc⟩ | ⟨r, k, out', e1, eo, hs⟩ |
      ⟨c, r, m, k, out', e1, hn, hre, eo, hs⟩ | ⟨r, k, i, out', e1, eo, hb⟩ | ⟨hd, _⟩
    · kind_contra eo hdd
    · simp only [List.cons.injEq] at eo
      obtain ⟨rfl, rfl⟩ := eo
      rcases DCfg.next hg hdc with ⟨r1, k1, out1, e2, eo, hs⟩ | ⟨c, r1, m, k1, out1, e2, hn, hre, eo, hs⟩ |
        ⟨r1, k1, i, out1, e2, eo, hb⟩
      · kind_contra eo he
      · kind_contra eo he
      · kind_contra eo he
    · kind_contra eo hdd
    · kind_contra eo hdd
    · kind_contra eo hdd
    · exact absurd rfl hd

/-! ### the induction -/

/-- all levels at once -/
structure PAll (lf : Lexer) (n : Nat) : Prop where
  term : PTerm lf n
  basic : PBasic lf n
  and : PAnd lf n
  or : POr lf n
  arg : PArg lf n
  moreArgs : PMoreArgs lf n
  sel : PSel lf n
  moreSels : PMoreSels lf n
  sels : PSels lf n
  seg : PSeg lf n
  segs : PSegs lf n
  top : PTop lf n

theorem PAll.succ (hg : ¬ Bad lf) (h : PAll lf n) : PAll lf (n + 1) := by
  have hT := pTerm_step hg h.segs h.arg h.moreArgs
  have hB := pBasic_step hg hT h.term h.or
  have hA := pAnd_step hg hB h.basic h.and
  have hO := pOr_step hg hA h.and h.or
  have hArg := pArg_step hg hO
  have hMA := pMoreArgs_step hg h.arg h.moreArgs
  have hSel := pSel_step hg h.or
  have hMS := pMoreSels_step hg h.sel h.moreSels
  have hSels := pSels_step hg hSel hMS
  have hSeg := pSeg_step hg h.sels
  exact ⟨hT, hB, hA, hO, hArg, hMA, hSel, hMS, hSels, hSeg, pSegs_step hg hSeg h.segs,
    pTop_step hg hSeg h.top⟩

theorem PAll.zero (lf : Lexer) : PAll lf 0 := by
  refine ⟨?_, ?_, ?_, ?_, ?_, ?_, ?_, ?_, ?_, ?_, ?_, ?_⟩ <;> first
    | (intro _ ts _ hlen; exact absurd hlen (Nat.not_lt_zero _))
    | (intro _ _ ts _ hlen; exact absurd hlen (Nat.not_lt_zero _))

theorem PAll.all (hg : ¬ Bad lf) : ∀ n, PAll lf n
  | 0 => PAll.zero lf
  | n + 1 => (PAll.all hg n).succ hg

end JPV.Proofs.Sv
