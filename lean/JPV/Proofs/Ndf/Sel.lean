import JPV.Proofs.Ndp.Segs
/-
Selectors, selector lists and segment lists WITH filter selectors, compositionally:
`RunOK` packages, for every continuation, the three facts the filter-free development proves
separately (no error, permutation of the RFC result, `Lift` over a permitted outcome).
The only genuinely new ingredient is `filterEach_ok`: given that the test of a filter evaluates,
for every script, to an object whose truthiness is the RFC truth value, the members kept are
exactly the RFC's, in the order the (shuffled) members come.
-/
namespace JPV.Proofs.Ndf
open JPV JPV.Impl JPV.Spec.ND
open JPV.Proofs.NDp JPV.Proofs.Ndp

/-- the continuation-passing run of a selector / selector list, for every continuation -/
def RunOK (mx : Int) (run : (Node → ND.Script → ND.Out) → Node → ND.Script → ND.Out)
    (sel : Node → List Node) (outs : Node → List (List Node)) : Prop :=
  ∀ (k : Node → ND.Script → ND.Out) (f : Node → List Node) (Q : Node → List Node → Prop),
    KOK mx k f → KQ mx k Q → ∀ (n : Node) (s : ND.Script), Good mx n →
      (run k n s).err = none ∧ ((run k n s).nodes).Perm ((sel n).flatMap f) ∧
      ∃ m ∈ outs n, Lift Q m (run k n s).nodes

def SelOK (env : Env) (reg : Spec.Registry) (root : Json) (sel : Selector) : Prop :=
  RunOK env.maxDepth (fun k => ND.runSel env root k sel) (Spec.selectSel reg root sel)
    (selOutcomes reg root sel)

def SelsOK (env : Env) (reg : Spec.Registry) (root : Json) (sels : List Selector) : Prop :=
  RunOK env.maxDepth (fun k => ND.runSels env root k sels) (Spec.selectSels reg root sels)
    (selsOutcomes reg root sels)

/-- a segment list: permutation of the RFC result and membership in the permitted outcomes -/
def SegsOK (env : Env) (reg : Spec.Registry) (root : Json) (segs : List Segment) : Prop :=
  KOK env.maxDepth (fun n s => ND.runSegs env root segs n s)
      (fun n => Spec.selectFrom reg root segs [n]) ∧
    KQ env.maxDepth (fun n s => ND.runSegs env root segs n s)
      (fun n r => r ∈ outcomesFrom reg root segs [[n]])

/-! ### selectors -/

theorem sel_nofilter_ok (env : Env) (reg : Spec.Registry) (root : Json) (sel : Selector)
    (hs : ∀ e, sel ≠ .filter e) : SelOK env reg root sel := by
  intro k f Q hk hQ n s hn
  have h1 := runSel_ok env reg root hk sel hs n s hn
  exact ⟨h1.1, h1.2, runSel_lift env reg root hk hQ sel hs n s hn⟩

theorem filterEach_ok {mx : Int} {k : Node → ND.Script → ND.Out} {f : Node → List Node}
    {Q : Node → List Node → Prop} (hk : KOK mx k f) (hQ : KQ mx k Q)
    (test : Json → ND.Script → Except ErrKind Obj × ND.Script) (p : Node → Bool) :
    ∀ (ms : List Node) (s : ND.Script), (∀ c ∈ ms, Good mx c) →
      (∀ c ∈ ms, ∀ s, ∃ o s', test c.val s = (.ok o, s') ∧ truthy o = p c) →
      (ND.filterEach test k ms s).err = none ∧
      ((ND.filterEach test k ms s).nodes).Perm ((ms.filter p).flatMap f) ∧
      Lift Q (ms.filter p) (ND.filterEach test k ms s).nodes := by
  intro ms
  induction ms with
  | nil =>
    intro s _ _
    simp only [ND.filterEach, ND.Out.ok, List.filter_nil, List.flatMap_nil]
    exact ⟨trivial, .refl _, .nil⟩
  | cons c cs ih =>
    intro s hg ht
    obtain ⟨o, s', hto, hp⟩ := ht c List.mem_cons_self s
    have hg' : ∀ x ∈ cs, Good mx x := fun x hx => hg x (List.mem_cons_of_mem _ hx)
    have ht' : ∀ x ∈ cs, ∀ s, ∃ o s', test x.val s = (.ok o, s') ∧ truthy o = p x :=
      fun x hx => ht x (List.mem_cons_of_mem _ hx)
    cases hpc : p c with
    | false =>
      rw [hpc] at hp
      have := ih s' hg' ht'
      simp only [ND.filterEach, hto, hp, Bool.false_eq_true, if_false, List.filter_cons, hpc]
      exact this
    | true =>
      rw [hpc] at hp
      have h1 := hk c s' (hg c List.mem_cons_self)
      have h2 := ih (k c s').script hg' ht'
      simp only [ND.filterEach, hto, hp, if_true, h1.1, List.filter_cons, hpc, List.flatMap_cons]
      exact ⟨h2.1, h1.2.append h2.2.1, .cons (hQ c s' (hg c List.mem_cons_self)) h2.2.2⟩

/-- the filter selector, given that its test is order-insensitively correct on every good child -/
theorem sel_filter_ok (env : Env) (reg : Spec.Registry) (root : Json) (e : Expr)
    (htest : ∀ (cur : Json), GoodJ env.maxDepth cur → ∀ s, ∃ o s',
      ND.evalExpr env root cur e s = (.ok o, s') ∧ truthy o = Spec.testOf reg root cur e) :
    SelOK env reg root (.filter e) := by
  intro k f Q hk hQ n s hn
  have hp := ndChildren_perm_spec n s
  have hgood : ∀ c ∈ (ND.ndChildren n s).1, Good env.maxDepth c := fun c hc =>
    children_good hn (hp.mem_iff.1 hc)
  have h := filterEach_ok hk hQ (fun c s' => ND.evalExpr env root c e s')
    (fun c => Spec.testOf reg root c.val e) (ND.ndChildren n s).1 (ND.ndChildren n s).2 hgood
    (fun c hc s' => htest c.val (hgood c hc) s')
  have hpf := hp.filter (fun c => Spec.testOf reg root c.val e)
  simp only [ND.runSel, ND.ndMembers, Spec.selectSel]
  refine ⟨h.1, h.2.1.trans (hpf.flatMap_right f), _, ?_, h.2.2⟩
  cases hv : n.val with
  | obj kvs =>
    simp only [selOutcomes, hv]
    exact mem_perms_of_perm hpf
  | arr xs =>
    have := ndChildren_arr n s xs hv
    rw [children_eq] at this
    simp [selOutcomes, this, hv]
  | _ =>
    simp [selOutcomes, ND.ndChildren, Spec.children, hv]

/-! ### selector lists -/

theorem sels_nil_ok (env : Env) (reg : Spec.Registry) (root : Json) : SelsOK env reg root [] := by
  intro k f Q _ _ n s _
  simp only [ND.runSels, ND.Out.ok, Spec.selectSels, List.flatMap_nil]
  exact ⟨trivial, .refl _, [], by simp [selsOutcomes, product], .nil⟩

theorem sels_cons_ok {env : Env} {reg : Spec.Registry} {root : Json} {sel : Selector}
    {sels : List Selector} (h1 : SelOK env reg root sel) (h2 : SelsOK env reg root sels) :
    SelsOK env reg root (sel :: sels) := by
  intro k f Q hk hQ n s hn
  obtain ⟨e1, p1, m1, hm1, l1⟩ := h1 k f Q hk hQ n s hn
  obtain ⟨e2, p2, m2, hm2, l2⟩ := h2 k f Q hk hQ n (ND.runSel env root k sel n s).script hn
  simp only at e1 p1 l1 e2 p2 l2
  simp only [ND.runSels, e1, Spec.selectSels, List.flatMap_append]
  refine ⟨e2, p1.append p2, m1 ++ m2, ?_, l1.append l2⟩
  simp only [selsOutcomes, List.map_cons] at hm2 ⊢
  exact mem_product_cons hm1 hm2

/-! ### segment lists -/

theorem segs_nil_ok (env : Env) (reg : Spec.Registry) (root : Json) : SegsOK env reg root [] := by
  refine ⟨?_, ?_⟩
  · intro n s _
    simp only [ND.runSegs, Spec.selectFrom]
    exact ⟨trivial, .refl _⟩
  · intro n s _
    simp [ND.runSegs, outcomesFrom]

theorem sels_KOK {env : Env} {reg : Spec.Registry} {root : Json} {sels : List Selector}
    {segs : List Segment} (hs : SelsOK env reg root sels) (hq : SegsOK env reg root segs) :
    KOK env.maxDepth
      (fun m s' => ND.runSels env root (fun m2 s2 => ND.runSegs env root segs m2 s2) sels m s')
      (fun m => (Spec.selectSels reg root sels m).flatMap
        (fun m2 => Spec.selectFrom reg root segs [m2])) := by
  intro m s' hm
  have h := hs _ _ _ hq.1 hq.2 m s' hm
  exact ⟨h.1, h.2.1⟩

theorem sels_KQ {env : Env} {reg : Spec.Registry} {root : Json} {sels : List Selector}
    {segs : List Segment} (hs : SelsOK env reg root sels) (hq : SegsOK env reg root segs) :
    KQ env.maxDepth
      (fun m s' => ND.runSels env root (fun m2 s2 => ND.runSegs env root segs m2 s2) sels m s')
      (fun m r => ∃ x ∈ selsOutcomes reg root sels m,
        Lift (fun n r => r ∈ outcomesFrom reg root segs [[n]]) x r) := by
  intro m s' hm
  exact (hs _ _ _ hq.1 hq.2 m s' hm).2.2

theorem segs_child_ok {env : Env} {reg : Spec.Registry} {root : Json} {sels : List Selector}
    {segs : List Segment} (hs : SelsOK env reg root sels) (hq : SegsOK env reg root segs) :
    SegsOK env reg root (.child sels :: segs) := by
  refine ⟨?_, ?_⟩
  · intro n s hn
    have h := sels_KOK hs hq n s hn
    simp only [ND.runSegs, Spec.selectFrom, Spec.selectSeg, List.flatMap_cons, List.flatMap_nil,
      List.append_nil]
    rw [selectFrom_flatMap reg root segs (Spec.selectSels reg root sels n)]
    exact h
  · intro n s hn
    obtain ⟨m, hm, hl⟩ := sels_KQ hs hq n s hn
    simp only [ND.runSegs]
    refine outcomesFrom_step (m := m) ?_ (outcomesFrom_lift reg root segs hl)
    simp only [segOutcomes, List.map_cons, List.map_nil]
    exact mem_product_single hm

theorem segs_desc_ok {env : Env} {reg : Spec.Registry} {root : Json} {sels : List Selector}
    {segs : List Segment} (hs : SelsOK env reg root sels) (hq : SegsOK env reg root segs) :
    SegsOK env reg root (.desc sels :: segs) := by
  have hk := sels_KOK hs hq
  have hQ := sels_KQ hs hq
  refine ⟨?_, ?_⟩
  · intro n s hn
    have h := visit_ok hk n s hn
    simp only [ND.runSegs, Spec.selectFrom, Spec.selectSeg, List.flatMap_cons, List.flatMap_nil,
      List.append_nil]
    rw [selectFrom_flatMap reg root segs, List.flatMap_assoc]
    exact h
  · intro n s hn
    obtain ⟨ord, hord, hl⟩ := visit_ord hk hQ n s hn
    obtain ⟨y, hy, hly⟩ := lift_sels hl
    simp only [ND.runSegs]
    refine outcomesFrom_step (m := y) ?_ (outcomesFrom_lift reg root segs hly)
    simp only [segOutcomes, List.map_cons, List.map_nil]
    exact mem_product_single (List.mem_flatMap.2 ⟨ord, hord, hy⟩)

end JPV.Proofs.Ndf
