/-
The D30 heap (`a = []; a.append(a); a.append(a)`), deterministic mode: `_visit` raises after exactly
`max_recursion_depth` nodes.
-/
import JPV.Proofs.NdGraph.Basic
import JPV.Proofs.Graph
namespace JPV.Proofs.NdG
open JPV JPV.Impl JPV.Impl.G

theorem d30_toHeap_kids (n : Nat) : d30.toHeap.kids n = [(.idx 0, 0), (.idx 1, 0)] := rfl

theorem d30_det_visit (rem : Nat) : ∀ (loc : Loc) (n : Nat),
    (G.visit d30.toHeap rem loc n).2 = some .recursion ∧ (G.visit d30.toHeap rem loc n).1.length = rem := by
  induction rem with
  | zero => intro loc n; rw [g_visit_zero]; exact ⟨rfl, rfl⟩
  | succ rem ih =>
    intro loc n
    rw [g_visit_succ, d30_toHeap_kids, g_visitKids_cons]
    obtain ⟨i1, i2⟩ := ih (loc ++ [.idx 0]) 0
    have ha : Out.append (G.visit d30.toHeap rem (loc ++ [.idx 0]) 0)
        (visitKids d30.toHeap rem loc [(.idx 1, 0)]) =
        ((G.visit d30.toHeap rem (loc ++ [.idx 0]) 0).1, some .recursion) := by
      unfold Out.append
      rw [i1]
    rw [ha]
    exact ⟨rfl, by simp [i2]⟩

/-- deterministic mode on the D30 heap: JSONPathRecursionError after exactly `max` nodes -/
theorem d30_det (max : Int) :
    (G.visitTop d30.toHeap max 0).2 = some .recursion ∧ (G.visitTop d30.toHeap max 0).1.length = max.toNat :=
  d30_det_visit max.toNat [] 0

end JPV.Proofs.NdG
