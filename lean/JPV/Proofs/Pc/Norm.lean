/-
`Proofs.Pc.Norm` — writing out omitted slice steps does not change the printed text (part (2) of
`print_compile_roundtrip`).  `normExpr … normSegs` are copies of the definitions in `Proofs.PrintCompile`
(which imports this file).
-/
import JPV.Proofs.Pc.Defs
namespace JPV.Proofs.Pc
open JPV JPV.Impl JPV.Proofs.Prn JPV.Proofs.Pf

mutual
def normExpr : Expr → Expr
  | .lit v => .lit v
  | .not e => .not (normExpr e)
  | .logical op l r => .logical op (normExpr l) (normExpr r)
  | .cmp op l r => .cmp op (normExpr l) (normExpr r)
  | .rel q => .rel (normSegs q)
  | .root q => .root (normSegs q)
  | .call f args => .call f (normArgs args)
def normArgs : List Expr → List Expr
  | [] => []
  | a :: as => normExpr a :: normArgs as
def normSel : Selector → Selector
  | .slice a b none => .slice a b (some 1)
  | .filter e => .filter (normExpr e)
  | s => s
def normSels : List Selector → List Selector
  | [] => []
  | s :: ss => normSel s :: normSels ss
def normSegs : List Segment → List Segment
  | [] => []
  | .child sels :: rest => .child (normSels sels) :: normSegs rest
  | .desc sels :: rest => .desc (normSels sels) :: normSegs rest
end

theorem normExpr_lit (v) : normExpr (.lit v) = .lit v := by rw [normExpr]
theorem normExpr_not (e) : normExpr (.not e) = .not (normExpr e) := by rw [normExpr]
theorem normExpr_logical (op l r) : normExpr (.logical op l r) = .logical op (normExpr l) (normExpr r) := by
  rw [normExpr]
theorem normExpr_cmp (op l r) : normExpr (.cmp op l r) = .cmp op (normExpr l) (normExpr r) := by rw [normExpr]
theorem normExpr_rel (q) : normExpr (.rel q) = .rel (normSegs q) := by rw [normExpr]
theorem normExpr_root (q) : normExpr (.root q) = .root (normSegs q) := by rw [normExpr]
theorem normExpr_call (f a) : normExpr (.call f a) = .call f (normArgs a) := by rw [normExpr]
theorem normArgs_nil : normArgs [] = [] := by rw [normArgs]
theorem normArgs_cons (a as) : normArgs (a :: as) = normExpr a :: normArgs as := by rw [normArgs]
theorem normSel_filter (e) : normSel (.filter e) = .filter (normExpr e) := by rw [normSel]
theorem normSel_slice_none (a b) : normSel (.slice a b none) = .slice a b (some 1) := by rw [normSel]
theorem normSel_slice_some (a b c) : normSel (.slice a b (some c)) = .slice a b (some c) := by
  rw [normSel]
  · intro a' b' h; cases h
  · intro e h; cases h
theorem normSel_name (s) : normSel (.name s) = .name s := by
  rw [normSel]
  · intro a' b' h; cases h
  · intro e h; cases h
theorem normSel_index (i) : normSel (.index i) = .index i := by
  rw [normSel]
  · intro a' b' h; cases h
  · intro e h; cases h
theorem normSel_wild : normSel .wild = .wild := by
  rw [normSel]
  · intro a' b' h; cases h
  · intro e h; cases h
theorem normSels_nil : normSels [] = [] := by rw [normSels]
theorem normSels_cons (s ss) : normSels (s :: ss) = normSel s :: normSels ss := by rw [normSels]
theorem normSegs_nil : normSegs [] = [] := by rw [normSegs]
theorem normSegs_child (sels rest) : normSegs (.child sels :: rest) = .child (normSels sels) :: normSegs rest := by
  rw [normSegs]
theorem normSegs_desc (sels rest) : normSegs (.desc sels :: rest) = .desc (normSels sels) :: normSegs rest := by
  rw [normSegs]

theorem strArgs_cons' (a : Expr) (as : List Expr) (h : as ≠ []) :
    Impl.strArgs (a :: as) = Impl.strExpr a ++ [',', ' '] ++ Impl.strArgs as := by
  cases as with
  | nil => exact absurd rfl h
  | cons b bs => exact strArgs_cons a b bs

theorem strSels_cons' (s : Selector) (ss : List Selector) (h : ss ≠ []) :
    Impl.strSels (s :: ss) = Impl.strSel s ++ [',', ' '] ++ Impl.strSels ss := by
  cases ss with
  | nil => exact absurd rfl h
  | cons b bs => exact strSels_cons s b bs

mutual
theorem strExpr_norm : (e : Expr) → Impl.strExpr (normExpr e) = Impl.strExpr e
  | .lit v => by rw [normExpr_lit]
  | .not e => by
    have ih := strExpr_norm e
    rw [normExpr_not]
    cases e with
    | lit v => rw [normExpr_lit]
    | cmp o a b =>
      rw [normExpr_cmp] at ih ⊢
      rw [strExpr_not_cmp, strExpr_not_cmp, ih]
    | not x =>
      rw [normExpr_not] at ih ⊢
      rw [strExpr_not_not, strExpr_not_not, ih]
    | logical o a b =>
      rw [normExpr_logical] at ih ⊢
      rw [strExpr_not_logical, strExpr_not_logical, ih]
    | rel q =>
      rw [normExpr_rel] at ih ⊢
      rw [strExpr_not_rel, strExpr_not_rel, ih]
    | root q =>
      rw [normExpr_root] at ih ⊢
      rw [strExpr_not_root, strExpr_not_root, ih]
    | call f args =>
      rw [normExpr_call] at ih ⊢
      rw [strExpr_not_call, strExpr_not_call, ih]
  | .logical op l r => by
    rw [normExpr_logical]
    cases op with
    | and => rw [strExpr_and, strExpr_and, strExpr_norm l, strExpr_norm r]
    | or => rw [strExpr_or, strExpr_or, strExpr_norm l, strExpr_norm r]
  | .cmp op l r => by
    rw [normExpr_cmp, strExpr_cmp, strExpr_cmp, strExpr_norm l, strExpr_norm r]
  | .rel q => by rw [normExpr_rel, strExpr_rel, strExpr_rel, strSegs_norm q]
  | .root q => by rw [normExpr_root, strExpr_root, strExpr_root, strSegs_norm q]
  | .call f args => by rw [normExpr_call, strExpr_call, strExpr_call, strArgs_norm args]
theorem strArgs_norm : (as : List Expr) → Impl.strArgs (normArgs as) = Impl.strArgs as
  | [] => by rw [normArgs_nil]
  | [a] => by rw [normArgs_cons, normArgs_nil, strArgs_one, strArgs_one, strExpr_norm a]
  | a :: b :: as => by
    have ih := strArgs_norm (b :: as)
    rw [normArgs_cons]
    rw [normArgs_cons] at ih ⊢
    rw [strArgs_cons, strArgs_cons, strExpr_norm a, ih]
theorem canonExpr_norm : (e : Expr) → (p : Nat) → Impl.canonExpr p (normExpr e) = Impl.canonExpr p e
  | .lit v, p => by rw [normExpr_lit]
  | .not e, p => by
    rw [normExpr_not, canon_not, canon_not, canonExpr_norm e 7]
  | .logical .and l r, p => by
    rw [normExpr_logical, canon_and, canon_and, canonExpr_norm l 4, canonExpr_norm r 4]
  | .logical .or l r, p => by
    rw [normExpr_logical, canon_or, canon_or, canonExpr_norm l 3, canonExpr_norm r 3]
  | .cmp op l r, p => by
    have := strExpr_norm (.cmp op l r)
    rw [normExpr_cmp] at this ⊢
    rw [canon_cmp, canon_cmp, this]
  | .rel q, p => by
    have := strExpr_norm (.rel q)
    rw [normExpr_rel] at this ⊢
    rw [canon_rel, canon_rel, this]
  | .root q, p => by
    have := strExpr_norm (.root q)
    rw [normExpr_root] at this ⊢
    rw [canon_root, canon_root, this]
  | .call f args, p => by
    have := strExpr_norm (.call f args)
    rw [normExpr_call] at this ⊢
    rw [canon_call, canon_call, this]
theorem strSel_norm : (s : Selector) → Impl.strSel (normSel s) = Impl.strSel s
  | .name s => by rw [normSel_name]
  | .index i => by rw [normSel_index]
  | .wild => by rw [normSel_wild]
  | .slice a b none => by
    rw [normSel_slice_none]
    simp only [strSel_slice, stepStr, show Py.reprInt 1 = ['1'] by decide]
  | .slice a b (some c) => by rw [normSel_slice_some]
  | .filter e => by rw [normSel_filter, strSel_filter, strSel_filter, canonExpr_norm e 1]
theorem strSels_norm : (ss : List Selector) → Impl.strSels (normSels ss) = Impl.strSels ss
  | [] => by rw [normSels_nil]
  | [s] => by rw [normSels_cons, normSels_nil, strSels_one, strSels_one, strSel_norm s]
  | s :: t :: ss => by
    have ih := strSels_norm (t :: ss)
    rw [normSels_cons]
    rw [normSels_cons] at ih ⊢
    rw [strSels_cons, strSels_cons, strSel_norm s, ih]
theorem strSegs_norm : (q : List Segment) → Impl.strSegs (normSegs q) = Impl.strSegs q
  | [] => by rw [normSegs_nil]
  | .child sels :: rest => by
    rw [normSegs_child, strSegs_child, strSegs_child, strSels_norm sels, strSegs_norm rest]
  | .desc sels :: rest => by
    rw [normSegs_desc, strSegs_desc, strSegs_desc, strSels_norm sels, strSegs_norm rest]
end

/-- part (2) -/
theorem strQuery_norm (q : Query) : Impl.strQuery (normSegs q) = Impl.strQuery q := by
  unfold Impl.strQuery
  rw [strSegs_norm]

end JPV.Proofs.Pc
