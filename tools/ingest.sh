#!/bin/sh
# ingest.sh <worktree> <name> [checks]: copy a sub-agent's _seeded/ into /verif/seeded/<name>, evaluate it
set -e
WT=$1; NAME=$2; CHECKS=$3
mkdir -p /verif/seeded/$NAME
cp $WT/_seeded/patch.diff $WT/_seeded/demo.py $WT/_seeded/meta.json /verif/seeded/$NAME/
if [ -n "$CHECKS" ]; then /venv/bin/python /verif/tools/eval_seeded.py $NAME --checks $CHECKS; else /venv/bin/python /verif/tools/eval_seeded.py $NAME; fi
