/-
`Proofs.Cf.ParseValid` — validity of a derivation (`Spec.cTest` …) implies that the parser's compile-time
checks pass: `raiseForUncompared`, `raiseForNonComparable`, `argWellTyped` / `validateSignature`, the
parenthesised-argument rule, the filter selector's checks.
-/
import JPV.Proofs.Cf.ParseEv
set_option linter.unusedSimpArgs false
set_option linter.unusedVariables false
namespace JPV.Proofs.Cf
open JPV JPV.Impl JPV.Proofs.Rq

def TestOK (env : Env) (e : Spec.CExpr) : Prop :=
  (Spec.cTest (sigsOfEnv' env) env.minIdx env.maxIdx e).1 = true
def CmpOK (env : Env) (e : Spec.CExpr) : Prop :=
  (Spec.cComparable (sigsOfEnv' env) env.minIdx env.maxIdx e).1 = true
def NodesOK (env : Env) (e : Spec.CExpr) : Prop :=
  (Spec.cNodes (sigsOfEnv' env) env.minIdx env.maxIdx e).1 = true
def ArgsOK (env : Env) (tys : List Ty) (args : List Spec.CExpr) : Prop :=
  (Spec.cArgs (sigsOfEnv' env) env.minIdx env.maxIdx tys args).1 = true
def SelOK (env : Env) (s : Spec.CSelector) : Prop :=
  (Spec.cSel (sigsOfEnv' env) env.minIdx env.maxIdx s).1 = true
def SelsOK (env : Env) (s : List Spec.CSelector) : Prop :=
  (Spec.cSels (sigsOfEnv' env) env.minIdx env.maxIdx s).1 = true
def SegsOK (env : Env) (s : List Spec.CSegment) : Prop :=
  (Spec.cSegs (sigsOfEnv' env) env.minIdx env.maxIdx s).1 = true

/-- the argument fits the declared parameter type -/
def ArgOK (env : Env) (t : Ty) (e : Spec.CExpr) : Prop :=
  match t with
  | .value => CmpOK env e
  | .logical => TestOK env e
  | .nodes => NodesOK env e

/-- well-typed in some position: what the expression parser needs of a sub-derivation -/
def WT (env : Env) (e : Spec.CExpr) : Prop := TestOK env e ∨ CmpOK env e ∨ NodesOK env e

theorem band_fst (a b : Bool × Bool) : (Spec.band a b).1 = true ↔ a.1 = true ∧ b.1 = true := by
  simp [Spec.band]

theorem sigs_some {env : Env} {f : Str} {s : Spec.Sig} (h : sigsOfEnv' env f = some s) :
    ∃ fn, env.func f = some fn ∧ s = ⟨fn.argTypes, fn.ret⟩ := by
  unfold sigsOfEnv' at h
  cases hf : env.func f with
  | none => simp [hf] at h
  | some fn => simp [hf] at h; exact ⟨fn, rfl, h.symm⟩

section
variable {env : Env}

theorem TestOK.or {l r : Spec.CExpr} (h : TestOK env (.or l r)) : TestOK env l ∧ TestOK env r := by
  simpa [TestOK, Spec.cTest, band_fst] using h
theorem TestOK.and {l r : Spec.CExpr} (h : TestOK env (.and l r)) : TestOK env l ∧ TestOK env r := by
  simpa [TestOK, Spec.cTest, band_fst] using h
theorem TestOK.cmp {op : COp} {l r : Spec.CExpr} (h : TestOK env (.cmp op l r)) : CmpOK env l ∧ CmpOK env r := by
  simpa [TestOK, CmpOK, Spec.cTest, band_fst] using h
theorem TestOK.paren {e : Spec.CExpr} (h : TestOK env (.paren e)) : TestOK env e := by
  simpa [TestOK, Spec.cTest] using h
theorem TestOK.not {e : Spec.CExpr} (h : TestOK env (.not e)) : TestOK env e := by
  simpa [TestOK, Spec.cTest] using h

theorem WT.or {l r : Spec.CExpr} (h : WT env (.or l r)) : TestOK env l ∧ TestOK env r := by
  rcases h with h | h | h
  · exact h.or
  · simp [CmpOK, Spec.cComparable, Spec.bad] at h
  · simp [NodesOK, Spec.cNodes, Spec.bad] at h
theorem WT.and {l r : Spec.CExpr} (h : WT env (.and l r)) : TestOK env l ∧ TestOK env r := by
  rcases h with h | h | h
  · exact h.and
  · simp [CmpOK, Spec.cComparable, Spec.bad] at h
  · simp [NodesOK, Spec.cNodes, Spec.bad] at h
theorem WT.cmp {op : COp} {l r : Spec.CExpr} (h : WT env (.cmp op l r)) : CmpOK env l ∧ CmpOK env r := by
  rcases h with h | h | h
  · exact h.cmp
  · simp [CmpOK, Spec.cComparable, Spec.bad] at h
  · simp [NodesOK, Spec.cNodes, Spec.bad] at h
theorem WT.paren {e : Spec.CExpr} (h : WT env (.paren e)) : TestOK env e := by
  rcases h with h | h | h
  · exact h.paren
  · simp [CmpOK, Spec.cComparable, Spec.bad] at h
  · simp [NodesOK, Spec.cNodes, Spec.bad] at h
theorem WT.not {e : Spec.CExpr} (h : WT env (.not e)) : TestOK env e := by
  rcases h with h | h | h
  · exact h.not
  · simp [CmpOK, Spec.cComparable, Spec.bad] at h
  · simp [NodesOK, Spec.cNodes, Spec.bad] at h
theorem WT.rel {q : List Spec.CSegment} (h : WT env (.rel q)) : SegsOK env q := by
  rcases h with h | h | h
  · simpa [TestOK, SegsOK, Spec.cTest] using h
  · simp only [CmpOK, Spec.cComparable, band_fst] at h; exact h.2
  · simpa [NodesOK, SegsOK, Spec.cNodes] using h
theorem WT.root {q : List Spec.CSegment} (h : WT env (.root q)) : SegsOK env q := by
  rcases h with h | h | h
  · simpa [TestOK, SegsOK, Spec.cTest] using h
  · simp only [CmpOK, Spec.cComparable, band_fst] at h; exact h.2
  · simpa [NodesOK, SegsOK, Spec.cNodes] using h
theorem WT.call {f : Str} {args : List Spec.CExpr} (h : WT env (.call f args)) :
    ∃ fn, env.func f = some fn ∧ ArgsOK env fn.argTypes args := by
  rcases h with h | h | h
  · simp only [TestOK, Spec.cTest] at h
    cases hs : sigsOfEnv' env f with
    | none => simp [hs, Spec.bad] at h
    | some s =>
      obtain ⟨fn, hf, rfl⟩ := sigs_some hs
      simp only [hs, band_fst] at h
      exact ⟨fn, hf, h.2⟩
  · simp only [CmpOK, Spec.cComparable] at h
    cases hs : sigsOfEnv' env f with
    | none => simp [hs, Spec.bad] at h
    | some s =>
      obtain ⟨fn, hf, rfl⟩ := sigs_some hs
      simp only [hs, band_fst] at h
      exact ⟨fn, hf, h.2⟩
  · simp only [NodesOK, Spec.cNodes] at h
    cases hs : sigsOfEnv' env f with
    | none => simp [hs, Spec.bad] at h
    | some s =>
      obtain ⟨fn, hf, rfl⟩ := sigs_some hs
      simp only [hs, band_fst] at h
      exact ⟨fn, hf, h.2⟩

theorem TestOK.wt {e : Spec.CExpr} (h : TestOK env e) : WT env e := .inl h
theorem CmpOK.wt {e : Spec.CExpr} (h : CmpOK env e) : WT env e := .inr (.inl h)
theorem NodesOK.wt {e : Spec.CExpr} (h : NodesOK env e) : WT env e := .inr (.inr h)
theorem ArgOK.wt {t : Ty} {e : Spec.CExpr} (h : ArgOK env t e) : WT env e := by
  cases t
  · exact CmpOK.wt h
  · exact TestOK.wt h
  · exact NodesOK.wt h

theorem ArgsOK.cons {t : Ty} {tys : List Ty} {a : Spec.CExpr} {as : List Spec.CExpr}
    (h : ArgsOK env (t :: tys) (a :: as)) : ArgOK env t a ∧ ArgsOK env tys as := by
  simp only [ArgsOK, Spec.cArgs, band_fst] at h
  refine ⟨?_, h.2⟩
  cases t <;> exact h.1

theorem ArgsOK.cons_inv {tys : List Ty} {a : Spec.CExpr} {as : List Spec.CExpr}
    (h : ArgsOK env tys (a :: as)) : ∃ t tys', tys = t :: tys' := by
  cases tys with
  | nil => simp [ArgsOK, Spec.cArgs, Spec.bad] at h
  | cons t tys' => exact ⟨t, tys', rfl⟩

theorem ArgsOK.nil_inv {tys : List Ty} (h : ArgsOK env tys []) : tys = [] := by
  cases tys with
  | nil => rfl
  | cons t tys' => simp [ArgsOK, Spec.cArgs, Spec.bad] at h

theorem SegsOK.cons_child {sels : List Spec.CSelector} {b : Bool} {rest : List Spec.CSegment}
    (h : SegsOK env (.child sels b :: rest)) : SelsOK env sels ∧ SegsOK env rest := by
  simpa [SegsOK, SelsOK, Spec.cSegs, band_fst] using h
theorem SegsOK.cons_desc {sels : List Spec.CSelector} {rest : List Spec.CSegment}
    (h : SegsOK env (.desc sels :: rest)) : SelsOK env sels ∧ SegsOK env rest := by
  simpa [SegsOK, SelsOK, Spec.cSegs, band_fst] using h
theorem SelsOK.cons {s : Spec.CSelector} {ss : List Spec.CSelector}
    (h : SelsOK env (s :: ss)) : SelOK env s ∧ SelsOK env ss := by
  simpa [SelsOK, SelOK, Spec.cSels, band_fst] using h
theorem SelOK.filter {e : Spec.CExpr} (h : SelOK env (.filter e)) : TestOK env e := by
  simpa [SelOK, TestOK, Spec.cSel] using h

/-- the integer range condition `Cs.selPart_exec` asks for (plain selectors) -/
theorem SelOK.ints {s : Spec.CSelector} (h : SelOK env s) (hs : Cs.ffSel s = true) :
    Spec.intsSel env.minIdx env.maxIdx (Spec.abstractSel s) = true := by
  cases s <;> simp_all [SelOK, Spec.cSel, Spec.abstractSel, Spec.intsSel, Spec.guard, Spec.ok, Cs.ffSel]

/-! ### what a test expression looks like after the parentheses are erased -/

/-- not a literal and, if a call, of a registered function that does not return `ValueType` -/
def TestLike (env : Env) (a : Expr) : Prop :=
  isLiteral a = false ∧ ∀ f args, a = .call f args → ∃ fn, env.func f = some fn ∧ fn.ret ≠ .value

theorem testLike_of : ∀ (e : Spec.CExpr), TestOK env e → TestLike env (Spec.abstractExpr e)
  | .paren e, h => by
    simpa [Spec.abstractExpr] using testLike_of e h.paren
  | .lit _, h => by simp [TestOK, Spec.cTest, Spec.bad] at h
  | .not e, _ => by simp [TestLike, Spec.abstractExpr, isLiteral]
  | .and l r, _ => by simp [TestLike, Spec.abstractExpr, isLiteral]
  | .or l r, _ => by simp [TestLike, Spec.abstractExpr, isLiteral]
  | .cmp _ l r, _ => by simp [TestLike, Spec.abstractExpr, isLiteral]
  | .rel q, _ => by simp [TestLike, Spec.abstractExpr, isLiteral]
  | .root q, _ => by simp [TestLike, Spec.abstractExpr, isLiteral]
  | .call f args, h => by
    simp only [TestOK, Spec.cTest] at h
    cases hs : sigsOfEnv' env f with
    | none => simp [hs, Spec.bad] at h
    | some s =>
      obtain ⟨fn, hf, rfl⟩ := sigs_some hs
      simp only [hs, band_fst, Spec.guard] at h
      refine ⟨by simp [Spec.abstractExpr, isLiteral], ?_⟩
      intro f' args' he
      simp only [Spec.abstractExpr, Expr.call.injEq] at he
      obtain ⟨rfl, _⟩ := he
      refine ⟨fn, hf, ?_⟩
      intro hv
      rw [hv] at h
      simp at h

theorem uncompared_ok (x : PExpr) (h : TestLike env x.e) (st : TStream) :
    exec (raiseForUncompared env x) st = (.ok (), st) := by
  obtain ⟨h1, h2⟩ := h
  unfold raiseForUncompared
  simp only [h1, Bool.false_eq_true, if_false, exec_bind, exec_pure]
  cases hx : x.e with
  | call f args =>
    obtain ⟨fn, hf, hr⟩ := h2 f args hx
    simp [hf, hr, exec_pure]
  | _ => simp [exec_pure]

/-- the checks of `parseFilterSelector` -/
theorem testLike_call {a : Expr} (h : TestLike env a) :
    (match a with
      | .call name _ =>
        match env.func name with
        | some f => if f.ret = .value then True else False
        | none => False
      | _ => False) → False := by
  intro hm
  cases a with
  | call f args =>
    obtain ⟨fn, hf, hr⟩ := h.2 f args rfl
    simp [hf, hr] at hm
  | _ => exact hm

/-! ### comparables -/

theorem singular_of : ∀ (q : List Spec.CSegment), (Spec.singularSegs q).1 = true →
    Query.isSingular (Spec.abstractSegs q) = true
  | [], _ => rfl
  | .child [.name _] b :: rest, h => by
    simp only [Spec.singularSegs] at h
    simp only [Spec.abstractSegs, Spec.abstractSels, Spec.abstractSel, Query.isSingular, List.all_cons,
      Segment.isSingular, Bool.true_and]
    exact singular_of rest h
  | .child [.index _] b :: rest, h => by
    simp only [Spec.singularSegs] at h
    simp only [Spec.abstractSegs, Spec.abstractSels, Spec.abstractSel, Query.isSingular, List.all_cons,
      Segment.isSingular, Bool.true_and]
    exact singular_of rest h
  | .child [] _ :: _, h => by simp [Spec.singularSegs] at h
  | .child [.slice _ _ _] _ :: _, h => by simp [Spec.singularSegs] at h
  | .child [.wild] _ :: _, h => by simp [Spec.singularSegs] at h
  | .child [.filter _] _ :: _, h => by simp [Spec.singularSegs] at h
  | .child (_ :: _ :: _) _ :: _, h => by simp [Spec.singularSegs] at h
  | .desc _ :: _, h => by simp [Spec.singularSegs] at h

/-- literal, singular query, or call of a registered `ValueType` function -/
def CmpLike (env : Env) (a : Expr) : Prop :=
  match a with
  | .lit _ => True
  | .rel q => Query.isSingular q = true
  | .root q => Query.isSingular q = true
  | .call f _ => ∃ fn, env.func f = some fn ∧ fn.ret = .value
  | _ => False

theorem cmpLike_of {e : Spec.CExpr} (h : CmpOK env e) : CmpLike env (Spec.abstractExpr e) := by
  cases e with
  | lit v => simp [CmpLike, Spec.abstractExpr]
  | rel q =>
    simp only [CmpOK, Spec.cComparable, band_fst] at h
    simpa [CmpLike, Spec.abstractExpr] using singular_of q h.1
  | root q =>
    simp only [CmpOK, Spec.cComparable, band_fst] at h
    simpa [CmpLike, Spec.abstractExpr] using singular_of q h.1
  | call f args =>
    simp only [CmpOK, Spec.cComparable] at h
    cases hs : sigsOfEnv' env f with
    | none => simp [hs, Spec.bad] at h
    | some s =>
      obtain ⟨fn, hf, rfl⟩ := sigs_some hs
      simp only [hs, band_fst, Spec.guard] at h
      simp only [CmpLike, Spec.abstractExpr]
      exact ⟨fn, hf, by simpa using h.1⟩
  | _ => simp [CmpOK, Spec.cComparable, Spec.bad] at h

theorem nonComparable_ok (x : PExpr) (tok : Token) (h : CmpLike env x.e) (st : TStream) :
    exec (raiseForNonComparable env x tok) st = (.ok (), st) := by
  unfold raiseForNonComparable
  cases hx : x.e with
  | lit v => simp [exec_pure]
  | rel q => rw [hx] at h; simp only [CmpLike] at h; simp [h, exec_pure]
  | root q => rw [hx] at h; simp only [CmpLike] at h; simp [h, exec_pure]
  | call f args =>
    rw [hx] at h; simp only [CmpLike] at h
    obtain ⟨fn, hf, hr⟩ := h
    simp [hf, hr, exec_pure]
  | not _ => rw [hx] at h; simp [CmpLike] at h
  | logical _ _ _ => rw [hx] at h; simp [CmpLike] at h
  | cmp _ _ _ => rw [hx] at h; simp [CmpLike] at h

/-! ### function arguments -/

theorem argWellTyped_logical : ∀ (e : Spec.CExpr), TestOK env e →
    argWellTyped env .logical (Spec.abstractExpr e) = true
  | .paren e, h => by simpa [Spec.abstractExpr] using argWellTyped_logical e h.paren
  | .lit _, h => by simp [TestOK, Spec.cTest, Spec.bad] at h
  | .not e, _ => by simp [Spec.abstractExpr, argWellTyped]
  | .and l r, _ => by simp [Spec.abstractExpr, argWellTyped]
  | .or l r, _ => by simp [Spec.abstractExpr, argWellTyped]
  | .cmp _ l r, _ => by simp [Spec.abstractExpr, argWellTyped]
  | .rel q, _ => by simp [Spec.abstractExpr, argWellTyped]
  | .root q, _ => by simp [Spec.abstractExpr, argWellTyped]
  | .call f args, h => by
    simp only [TestOK, Spec.cTest] at h
    cases hs : sigsOfEnv' env f with
    | none => simp [hs, Spec.bad] at h
    | some s =>
      obtain ⟨fn, hf, rfl⟩ := sigs_some hs
      simp only [hs, band_fst, Spec.guard] at h
      have h1 := h.1
      simp only [Bool.or_eq_true, beq_iff_eq] at h1
      rcases h1 with h1 | h1 <;> simp [Spec.abstractExpr, argWellTyped, functionReturnType, hf, h1]

theorem argWellTyped_value {e : Spec.CExpr} (h : CmpOK env e) :
    argWellTyped env .value (Spec.abstractExpr e) = true := by
  have := cmpLike_of h
  cases e with
  | lit v => simp [Spec.abstractExpr, argWellTyped]
  | rel q => simp only [Spec.abstractExpr, CmpLike] at this; simp [Spec.abstractExpr, argWellTyped, this]
  | root q => simp only [Spec.abstractExpr, CmpLike] at this; simp [Spec.abstractExpr, argWellTyped, this]
  | call f args =>
    simp only [Spec.abstractExpr, CmpLike] at this
    obtain ⟨fn, hf, hr⟩ := this
    simp [Spec.abstractExpr, argWellTyped, functionReturnType, hf, hr]
  | _ => simp [CmpOK, Spec.cComparable, Spec.bad] at h

theorem argWellTyped_nodes {e : Spec.CExpr} (h : NodesOK env e) :
    argWellTyped env .nodes (Spec.abstractExpr e) = true := by
  cases e with
  | rel q => simp [Spec.abstractExpr, argWellTyped]
  | root q => simp [Spec.abstractExpr, argWellTyped]
  | call f args =>
    simp only [NodesOK, Spec.cNodes] at h
    cases hs : sigsOfEnv' env f with
    | none => simp [hs, Spec.bad] at h
    | some s =>
      obtain ⟨fn, hf, rfl⟩ := sigs_some hs
      simp only [hs, band_fst, Spec.guard] at h
      have h1 := h.1
      simp only [beq_iff_eq] at h1
      simp [Spec.abstractExpr, argWellTyped, functionReturnType, hf, h1]
  | _ => simp [NodesOK, Spec.cNodes, Spec.bad] at h

theorem argWellTyped_of {t : Ty} {e : Spec.CExpr} (h : ArgOK env t e) :
    argWellTyped env t (Spec.abstractExpr e) = true := by
  cases t
  · exact argWellTyped_value h
  · exact argWellTyped_logical e h
  · exact argWellTyped_nodes h

theorem args_length : ∀ (tys : List Ty) (args : List Spec.CExpr), ArgsOK env tys args →
    (Spec.abstractArgs args).length = tys.length
  | [], [], _ => rfl
  | t :: tys, a :: as, h => by
    simp [Spec.abstractArgs, args_length tys as h.cons.2]
  | [], _ :: _, h => by simp [ArgsOK, Spec.cArgs, Spec.bad] at h
  | _ :: _, [], h => by simp [ArgsOK, Spec.cArgs, Spec.bad] at h

theorem args_wellTyped : ∀ (tys : List Ty) (args : List Spec.CExpr), ArgsOK env tys args →
    (List.zipWith (argWellTyped env) tys (Spec.abstractArgs args)).all id = true
  | [], [], _ => rfl
  | t :: tys, a :: as, h => by
    simp only [Spec.abstractArgs, List.zipWith_cons_cons, List.all_cons, id, Bool.and_eq_true]
    exact ⟨argWellTyped_of h.cons.1, args_wellTyped tys as h.cons.2⟩
  | [], _ :: _, h => by simp [ArgsOK, Spec.cArgs, Spec.bad] at h
  | _ :: _, [], h => by simp [ArgsOK, Spec.cArgs, Spec.bad] at h

theorem validateSignature_ok {name : Str} {fn : Func} (hf : env.func name = some fn) {args : List Spec.CExpr}
    (h : ArgsOK env fn.argTypes args) (tok : Token) (htok : tok.value = name) (st : TStream) :
    exec (validateSignature env tok (Spec.abstractArgs args)) st = (.ok (), st) := by
  unfold validateSignature
  simp [htok, hf, args_length _ _ h, args_wellTyped _ _ h, exec_pure, exec_bind]

/-- neither a literal, a query nor a call: cannot be a `ValueType` or `NodesType` argument -/
def nonTerm : Spec.CExpr → Bool
  | .lit _ | .rel _ | .root _ | .call _ _ => false
  | _ => true

theorem argOK_nonTerm {t : Ty} {e : Spec.CExpr} (h : ArgOK env t e) (hn : nonTerm e = true) : t = .logical := by
  cases t with
  | logical => rfl
  | value => cases e <;> simp_all [ArgOK, CmpOK, Spec.cComparable, Spec.bad, nonTerm]
  | nodes => cases e <;> simp_all [ArgOK, NodesOK, Spec.cNodes, Spec.bad, nonTerm]

/-- a `for` loop whose body does nothing on the elements of the list -/
theorem forIn_ok (body : Nat → PUnit → P (ForInStep PUnit)) : ∀ (ps : List Nat),
    (∀ idx ∈ ps, ∀ st, exec (body idx PUnit.unit) st = (.ok (ForInStep.yield PUnit.unit), st)) →
    ∀ (st : TStream), exec (forIn ps PUnit.unit body) st = (.ok PUnit.unit, st) := by
  intro ps
  induction ps with
  | nil => intro _ st; simp [exec_pure]
  | cons i is ih =>
    intro h st
    simp only [List.forIn_cons, exec_bind, h i (by simp)]
    exact ih (fun idx hidx => h idx (by simp [hidx])) st

end

end JPV.Proofs.Cf
