/-
C15 — All entry points agree: find, finditer, find_one, compile().apply, module-level.

Property text: "For every query and JSON value, find() equals the list of
finditer(), find_one() is the first element of that list or None when it is
empty, and this holds identically through the module-level functions, an
environment's methods and a compiled query's find/apply/finditer/find_one. When
the query is invalid, every entry point raises the same error class."

In the model every entry point is defined from `compile` and `finditer`
(`Impl.Api`, one definition per public callable; the module-level functions are
the bound methods of `DEFAULT_ENV`); the theorems below are the equations between
them.  That the real callables are wired this way is what the harness checks by
pushing every (query, document) pair through all 11 of them.
-/
import JPV.Impl.Api
import JPV.Proofs.Api
namespace JPV.Props
open JPV JPV.Impl

/-- find() is the list of finditer() -/
theorem C15_find_is_list (env : Env) (q : Query) (v : Json) :
    Api.queryFind env q v = (Api.queryFinditer env q v).toList := rfl

/-- find_one() is the first element of that list, or None when it is empty -/
theorem C15_find_one_is_head (env : Env) (q : Query) (v : Json) (l : List Node)
    (h : Api.queryFind env q v = .ok l) : Api.queryFindOne env q v = .ok l.head? :=
  Proofs.findOne_head env q v l h

/-- find_one() does not consume more than the first element: if iteration yields a node
first, that is the answer even when a later step would raise -/
theorem C15_find_one_lazy (env : Env) (q : Query) (v : Json) (n : Node) (rest : List Node) (e : Option ErrKind)
    (h : Api.queryFinditer env q v = (n :: rest, e)) : Api.queryFindOne env q v = .ok (some n) :=
  Proofs.findOne_lazy env q v n rest e h

/-- the environment's methods (and so the module-level functions) are compile followed by the
compiled query's methods -/
theorem C15_env_paths (env : Env) (s : Str) (q : Query) (v : Json) (h : Impl.compile env s = .ok q) :
    Api.envFind env s v = Api.queryFind env q v ∧
    Api.envFindOne env s v = Api.queryFindOne env q v ∧
    Api.envFinditer env s v = .ok (Api.queryFinditer env q v) := Proofs.env_paths env s q v h

/-- an invalid query raises the same error class from every entry point, eagerly -/
theorem C15_invalid_same_class (env : Env) (s : Str) (e : Err) (v : Json) (h : Impl.compile env s = .error e) :
    Api.envFind env s v = .error e.kind ∧ Api.envFindOne env s v = .error e.kind ∧
    Api.envFinditer env s v = .error e.kind := Proofs.env_invalid env s e v h

end JPV.Props
