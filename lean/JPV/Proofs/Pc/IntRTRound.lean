import JPV.Py
namespace JPV.Proofs.Pc
open JPV

/-! ### `roundBinary64` in readable form -/

def pickE (n d : Nat) (e : Int) : Option Int :=
  let e' := if e < -1074 then -1074 else e
  let (q, _, _) := Py.scaledDiv n d e'
  if q < 2 ^ 53 ∧ (q ≥ 2 ^ 52 ∨ e' = -1074) then some e' else none

def chooseE (n d : Nat) (e0 : Int) : Int :=
  ((pickE n d (e0 - 1)).orElse (fun _ => (pickE n d e0).orElse (fun _ => pickE n d (e0 + 1)))).getD (e0 + 2)

def finishE (n d : Nat) (e : Int) : Option (Nat × Int) :=
  let (q, r, den) := Py.scaledDiv n d e
  let q := if 2 * r > den ∨ (2 * r = den ∧ q % 2 = 1) then q + 1 else q
  let (q, e) := if q = 2 ^ 53 then (2 ^ 52, e + 1) else (q, e)
  if e > 971 then none else some (q, e)

theorem roundBinary64_eq (n d : Nat) : Py.roundBinary64 n d =
    if n = 0 then some (0, 0) else
      finishE n d (chooseE n d ((Nat.log2 n : Int) - (Nat.log2 d : Int) - 52)) := by
  rfl

theorem pickE_some {n d : Nat} {e e' : Int} (h : pickE n d e = some e') :
    (Py.scaledDiv n d e').1 < 2 ^ 53 := by
  unfold pickE at h
  simp only [] at h
  generalize (if e < -1074 then (-1074:Int) else e) = c at h
  split at h
  · cases h; rename_i hc; exact hc.1
  · cases h

theorem pickE_none_of {n d : Nat} {e : Int} (he : -1074 ≤ e)
    (hq : 2 ^ 53 ≤ (Py.scaledDiv n d e).1) : pickE n d e = none := by
  unfold pickE
  have : ¬ e < -1074 := by omega
  simp only [if_neg this]
  rw [if_neg]
  omega

theorem pickE_some_of {n d : Nat} {e : Int} (he : -1074 ≤ e)
    (hq : (Py.scaledDiv n d e).1 < 2 ^ 53) (hq' : 2 ^ 52 ≤ (Py.scaledDiv n d e).1) :
    pickE n d e = some e := by
  unfold pickE
  have : ¬ e < -1074 := by omega
  simp only [if_neg this]
  rw [if_pos]
  exact ⟨hq, Or.inl hq'⟩

theorem finishE_bound {n d : Nat} {e e2 : Int} {m : Nat} (h : finishE n d e = some (m, e2))
    (hq : (Py.scaledDiv n d e).1 < 2 ^ 53) : m < 2 ^ 53 ∧ e2 ≤ 971 := by
  unfold finishE at h
  generalize hs : Py.scaledDiv n d e = s at h hq
  obtain ⟨q, r, den⟩ := s
  simp only [] at h hq
  generalize hq1 : (if 2 * r > den ∨ (2 * r = den ∧ q % 2 = 1) then q + 1 else q) = q1 at h
  have hle : q1 ≤ 2 ^ 53 := by rw [← hq1]; split <;> omega
  by_cases h53 : q1 = 2 ^ 53
  · rw [if_pos h53] at h
    simp only [] at h
    split at h
    · cases h
    · cases h; exact ⟨by decide, by omega⟩
  · rw [if_neg h53] at h
    simp only [] at h
    split at h
    · cases h
    · cases h; exact ⟨by omega, by omega⟩

theorem finishE_exact {n d : Nat} {e : Int} {q den : Nat} (hs : Py.scaledDiv n d e = (q, 0, den))
    (hden : 0 < den) (hq : q < 2 ^ 53) (he : e ≤ 971) : finishE n d e = some (q, e) := by
  unfold finishE
  rw [hs]
  simp only []
  have h1 : ¬ (2 * 0 > den ∨ (2 * 0 = den ∧ q % 2 = 1)) := by omega
  rw [if_neg h1]
  have h2 : ¬ q = 2 ^ 53 := by omega
  rw [if_neg h2]
  simp only []
  rw [if_neg (by omega)]

theorem q_small_pos (n d a b k : Nat) (hn : n < 2 ^ (a + 1)) (hd : 2 ^ b ≤ d)
    (hk : a + 1 ≤ 53 + b + k) : n / (d * 2 ^ k) < 2 ^ 53 := by
  have hpos : 0 < d * 2 ^ k := Nat.mul_pos (Nat.lt_of_lt_of_le (Nat.two_pow_pos b) hd) (Nat.two_pow_pos k)
  rw [Nat.div_lt_iff_lt_mul hpos]
  calc n < 2 ^ (a + 1) := hn
    _ ≤ 2 ^ (53 + (b + k)) := Nat.pow_le_pow_right (by omega) (by omega)
    _ = 2 ^ 53 * (2 ^ b * 2 ^ k) := by rw [Nat.pow_add, Nat.pow_add]
    _ ≤ 2 ^ 53 * (d * 2 ^ k) := Nat.mul_le_mul_left _ (Nat.mul_le_mul_right _ hd)

theorem q_small_neg (n d a b k : Nat) (hn : n < 2 ^ (a + 1)) (hd : 2 ^ b ≤ d)
    (hk : a + 1 + k ≤ 53 + b) : n * 2 ^ k / d < 2 ^ 53 := by
  have hpos : 0 < d := Nat.lt_of_lt_of_le (Nat.two_pow_pos b) hd
  rw [Nat.div_lt_iff_lt_mul hpos]
  calc n * 2 ^ k < 2 ^ (a + 1) * 2 ^ k := Nat.mul_lt_mul_of_pos_right hn (Nat.two_pow_pos k)
    _ = 2 ^ (a + 1 + k) := (Nat.pow_add 2 (a + 1) k).symm
    _ ≤ 2 ^ (53 + b) := Nat.pow_le_pow_right (by omega) hk
    _ = 2 ^ 53 * 2 ^ b := by rw [Nat.pow_add]
    _ ≤ 2 ^ 53 * d := Nat.mul_le_mul_left _ hd

theorem scaledDiv_small (n d : Nat) (e : Int)
    (he : (Nat.log2 n : Int) - (Nat.log2 d : Int) - 52 ≤ e) : (Py.scaledDiv n d e).1 < 2 ^ 53 := by
  unfold Py.scaledDiv
  by_cases hd : d = 0
  · subst hd
    split <;> simp
  · have hd' := Nat.log2_self_le hd
    have hn' := @Nat.lt_log2_self n
    split
    · rename_i h
      simp only []
      exact q_small_pos n d _ _ _ hn' hd' (by omega)
    · rename_i h
      simp only []
      exact q_small_neg n d _ _ _ hn' hd' (by omega)

theorem chooseE_small (n d : Nat) :
    (Py.scaledDiv n d (chooseE n d ((Nat.log2 n : Int) - (Nat.log2 d : Int) - 52))).1 < 2 ^ 53 := by
  unfold chooseE
  have hsm := scaledDiv_small n d
  generalize (Nat.log2 n : Int) - (Nat.log2 d : Int) - 52 = e0 at hsm ⊢
  cases h1 : pickE n d (e0 - 1) with
  | some x => exact pickE_some h1
  | none =>
    cases h2 : pickE n d e0 with
    | some x => exact pickE_some h2
    | none =>
      cases h3 : pickE n d (e0 + 1) with
      | some x => exact pickE_some h3
      | none => 
        simp only [Option.orElse_none, Option.getD_none]
        exact hsm _ (by omega)

theorem roundBinary64_bound {n d m : Nat} {e : Int} (h : Py.roundBinary64 n d = some (m, e)) :
    m < 2 ^ 53 ∧ e ≤ 971 := by
  rw [roundBinary64_eq] at h
  split at h
  · cases h; exact ⟨by decide, by decide⟩
  · exact finishE_bound h (chooseE_small n d)


end JPV.Proofs.Pc
