import JPV.Proofs.Slice
import JPV.Proofs.Visit
/-
Locations of the nodes a query yields (C08, first two clauses).

Everything the evaluator yields is obtained from the root node by finitely many
"child" steps (`IsChild`).  Any node predicate that holds of the root and is
preserved by child steps (`ChildClosed`) therefore holds of every node of
`Impl.finditer env q v`, whatever the query, the environment, and whether or
not the stream was cut short by an exception (`finditer_closed`).
-/
namespace JPV.Proofs
open JPV

/-! ### membership in streams -/

theorem Stream.mem_append {a b : Impl.Stream} {n : Node}
    (h : n ∈ (Impl.Stream.append a b).1) : n ∈ a.1 ∨ n ∈ b.1 := by
  rcases Stream.append_fst_prefix a b with h1 | ⟨_, h1⟩
  · rw [h1] at h; exact .inl h
  · rw [h1] at h; exact List.mem_append.1 h

theorem Stream.mem_bindList {ns : List Node} {f : Node → Impl.Stream} {n : Node}
    (h : n ∈ (Impl.Stream.bindList ns f).1) : ∃ m ∈ ns, n ∈ (f m).1 := by
  induction ns with
  | nil => simp [Impl.Stream.bindList, Impl.Stream.nil] at h
  | cons x rest ih =>
    simp only [Impl.Stream.bindList] at h
    rcases Stream.mem_append h with h | h
    · exact ⟨x, by simp, h⟩
    · obtain ⟨m, hm, hn⟩ := ih h
      exact ⟨m, by simp [hm], hn⟩

theorem Stream.mem_bind {s : Impl.Stream} {f : Node → Impl.Stream} {n : Node}
    (h : n ∈ (Impl.Stream.bind s f).1) : ∃ m ∈ s.1, n ∈ (f m).1 := by
  simp only [Impl.Stream.bind] at h
  rcases Stream.mem_append h with h | h
  · exact Stream.mem_bindList h
  · simp at h

theorem mem_filterChildren {cs : List Node} {test : Json → Except Impl.ErrKind Bool} {n : Node}
    (h : n ∈ (Impl.filterChildren cs test).1) : n ∈ cs := by
  induction cs with
  | nil => simp [Impl.filterChildren, Impl.Stream.nil] at h
  | cons c rest ih =>
    simp only [Impl.filterChildren] at h
    split at h
    · simp at h
    · rw [Stream.cons_fst] at h
      rcases List.mem_cons.1 h with h | h
      · simp [h]
      · simp [ih h]
    · simp [ih h]

/-! ### the child relation -/

/-- `m` is a member value / element of `n`, located one key below it -/
def IsChild (n m : Node) : Prop :=
  (∃ kvs s, n.val = .obj kvs ∧ m.loc = n.loc ++ [.name s] ∧ (s, m.val) ∈ kvs) ∨
  (∃ xs, ∃ i : Nat, n.val = .arr xs ∧ m.loc = n.loc ++ [.idx (i : Int)] ∧ xs[i]? = some m.val)

def ChildClosed (P : Node → Prop) : Prop := ∀ n m, P n → IsChild n m → P m

theorem mem_of_lookup_some {s : Str} {kvs : List (Str × Json)} {x : Json}
    (h : Json.lookup s kvs = some x) : (s, x) ∈ kvs := by
  induction kvs with
  | nil => simp [Json.lookup] at h
  | cons p rest ih =>
    obtain ⟨k, y⟩ := p
    simp only [Json.lookup] at h
    split at h
    · next hk =>
      simp only [Option.some.injEq] at h
      subst hk; subst h; simp
    · simp [ih h]

theorem lookup_of_mem_nodup {s : Str} {kvs : List (Str × Json)} {x : Json}
    (hnd : (Json.keys kvs).Nodup) (h : (s, x) ∈ kvs) : Json.lookup s kvs = some x := by
  induction kvs with
  | nil => simp at h
  | cons p rest ih =>
    obtain ⟨k, y⟩ := p
    simp only [Json.keys, List.map_cons, List.nodup_cons] at hnd
    simp only [Json.lookup]
    rcases List.mem_cons.1 h with h | h
    · simp only [Prod.mk.injEq] at h
      obtain ⟨rfl, rfl⟩ := h
      simp
    · have hne : k ≠ s := by
        intro hk; subst hk
        exact hnd.1 (List.mem_map_of_mem (f := Prod.fst) h)
      rw [if_neg hne]
      exact ih hnd.2 h

theorem selName_child {s : Str} {n m : Node} (h : m ∈ Impl.selName s n) : IsChild n m := by
  unfold Impl.selName at h
  cases hv : n.val with
  | obj kvs =>
    rw [hv] at h
    simp only at h
    cases hl : Json.lookup s kvs with
    | none => rw [hl] at h; simp at h
    | some x =>
      rw [hl] at h
      simp only [List.mem_singleton] at h
      subst h
      exact .inl ⟨kvs, s, hv, rfl, mem_of_lookup_some hl⟩
  | _ => rw [hv] at h; simp at h

theorem selIndex_child {i : Int} {n m : Node} (h : m ∈ Impl.selIndex i n) : IsChild n m := by
  obtain ⟨loc, v⟩ := n
  cases v with
  | arr xs =>
    obtain ⟨k, _, h1, h2⟩ := selIndex_loc xs loc i m h
    exact .inr ⟨xs, k, rfl, h1, h2⟩
  | _ => simp [Impl.selIndex] at h

theorem selSlice_child {a b c : Option Int} {n m : Node} (h : m ∈ Impl.selSlice a b c n) :
    IsChild n m := by
  obtain ⟨loc, v⟩ := n
  cases v with
  | arr xs =>
    obtain ⟨k, _, h1, h2⟩ := selSlice_loc xs loc a b c m h
    exact .inr ⟨xs, k, rfl, h1, h2⟩
  | _ => simp [Impl.selSlice] at h

theorem mem_zip_range {α} {xs : List α} {j : Nat} {x : α}
    (h : (j, x) ∈ (List.range xs.length).zip xs) : xs[j]? = some x := by
  obtain ⟨i, h2⟩ := List.mem_iff_getElem?.1 h
  rw [List.getElem?_zip_eq_some] at h2
  obtain ⟨h3, h4⟩ := h2
  rw [List.getElem?_range] at h3
  · simp only [Option.some.injEq] at h3; subst h3; exact h4
  · have := (List.getElem?_eq_some_iff.1 h4).1; exact this

theorem children_child {n m : Node} (h : m ∈ Impl.children n) : IsChild n m := by
  unfold Impl.children at h
  cases hv : n.val with
  | obj kvs =>
    rw [hv] at h
    simp only [Impl.objChildren, List.mem_map] at h
    obtain ⟨p, hp, rfl⟩ := h
    exact .inl ⟨kvs, p.1, hv, rfl, hp⟩
  | arr xs =>
    rw [hv] at h
    simp only [Impl.arrChildren, List.mem_map] at h
    obtain ⟨p, hp, rfl⟩ := h
    exact .inr ⟨xs, p.1, hv, rfl, mem_zip_range hp⟩
  | _ => rw [hv] at h; simp at h

theorem evalSel_child {env : Impl.Env} {root : Json} {s : Selector} {n m : Node}
    (h : m ∈ (Impl.evalSel env root s n).1) : IsChild n m := by
  cases s with
  | name s => exact selName_child (by simpa only [Impl.evalSel] using h)
  | index i => exact selIndex_child (by simpa only [Impl.evalSel] using h)
  | slice a b c => exact selSlice_child (by simpa only [Impl.evalSel] using h)
  | wild => exact children_child (by simpa only [Impl.evalSel] using h)
  | filter e =>
    simp only [Impl.evalSel] at h
    exact children_child (mem_filterChildren h)

theorem evalSels_child {env : Impl.Env} {root : Json} {ss : List Selector} {n m : Node}
    (h : m ∈ (Impl.evalSels env root ss n).1) : IsChild n m := by
  induction ss with
  | nil => simp [Impl.evalSels, Impl.Stream.nil] at h
  | cons s ss ih =>
    simp only [Impl.evalSels] at h
    rcases Stream.mem_append h with h | h
    · exact evalSel_child h
    · exact ih h

/-! ### `_visit` yields descendants -/

mutual
theorem visit_closed {P : Node → Prop} (hP : ChildClosed P) (max : Int) (d : Nat) (loc : Loc)
    (v : Json) (h0 : P ⟨loc, v⟩) : ∀ m ∈ (Impl.visit max d loc v).1, P m := by
  by_cases hd : (d : Int) > max
  · rw [visit_gt loc v hd]; simp
  · have hd' : (d : Int) ≤ max := by omega
    match v with
    | .arr xs =>
      rw [visit_arr loc xs hd', Stream.cons_fst]
      intro m hm
      rcases List.mem_cons.1 hm with rfl | hm
      · exact h0
      · refine visitArr_closed hP max (d + 1) loc 0 xs ?_ m hm
        intro j x hx
        exact hP _ _ h0 (.inr ⟨xs, j, rfl, by simp, hx⟩)
    | .obj kvs =>
      rw [visit_obj loc kvs hd', Stream.cons_fst]
      intro m hm
      rcases List.mem_cons.1 hm with rfl | hm
      · exact h0
      · refine visitObj_closed hP max (d + 1) loc kvs ?_ m hm
        intro p hp
        exact hP _ _ h0 (.inl ⟨kvs, p.1, rfl, rfl, hp⟩)
    | .null => rw [visit_scalar loc rfl hd']; intro m hm; simp at hm; subst hm; exact h0
    | .bool _ => rw [visit_scalar loc rfl hd']; intro m hm; simp at hm; subst hm; exact h0
    | .num _ => rw [visit_scalar loc rfl hd']; intro m hm; simp at hm; subst hm; exact h0
    | .str _ => rw [visit_scalar loc rfl hd']; intro m hm; simp at hm; subst hm; exact h0
theorem visitArr_closed {P : Node → Prop} (hP : ChildClosed P) (max : Int) (d : Nat) (loc : Loc)
    (i : Nat) (xs : List Json)
    (h0 : ∀ (j : Nat) (x : Json), xs[j]? = some x → P ⟨loc ++ [.idx ((i + j : Nat) : Int)], x⟩) :
    ∀ m ∈ (Impl.visitArr max d loc i xs).1, P m := by
  match xs with
  | [] => rw [visitArr_nil]; simp [Impl.Stream.nil]
  | x :: xs =>
    have hrest : ∀ (j : Nat) (y : Json), xs[j]? = some y →
        P ⟨loc ++ [.idx ((i + 1 + j : Nat) : Int)], y⟩ := by
      intro j y hy
      have := h0 (j + 1) y (by simpa using hy)
      rwa [show i + (j + 1) = i + 1 + j by omega] at this
    cases hx : x.isContainer with
    | false =>
      rw [visitArr_cons_scalar _ _ _ _ _ hx]
      exact visitArr_closed hP max d loc (i + 1) xs hrest
    | true =>
      rw [visitArr_cons_container _ _ _ _ _ hx]
      intro m hm
      rcases Stream.mem_append hm with hm | hm
      · exact visit_closed hP max d _ x (by simpa using h0 0 x (by simp)) m hm
      · exact visitArr_closed hP max d loc (i + 1) xs hrest m hm
theorem visitObj_closed {P : Node → Prop} (hP : ChildClosed P) (max : Int) (d : Nat) (loc : Loc)
    (kvs : List (Str × Json))
    (h0 : ∀ p ∈ kvs, P ⟨loc ++ [.name p.1], p.2⟩) :
    ∀ m ∈ (Impl.visitObj max d loc kvs).1, P m := by
  match kvs with
  | [] => rw [visitObj_nil]; simp [Impl.Stream.nil]
  | (k, x) :: rest =>
    have hrest : ∀ p ∈ rest, P ⟨loc ++ [.name p.1], p.2⟩ := fun p hp => h0 p (by simp [hp])
    cases hx : x.isContainer with
    | false =>
      rw [visitObj_cons_scalar _ _ _ _ _ hx]
      exact visitObj_closed hP max d loc rest hrest
    | true =>
      rw [visitObj_cons_container _ _ _ _ _ hx]
      intro m hm
      rcases Stream.mem_append hm with hm | hm
      · exact visit_closed hP max d _ x (h0 (k, x) (by simp)) m hm
      · exact visitObj_closed hP max d loc rest hrest m hm
end

/-! ### segments -/

theorem evalSeg_closed {P : Node → Prop} (hP : ChildClosed P) (env : Impl.Env) (root : Json)
    (seg : Segment) (s : Impl.Stream) (hs : ∀ n ∈ s.1, P n) :
    ∀ m ∈ (Impl.evalSeg env root seg s).1, P m := by
  intro m hm
  cases seg with
  | child sels =>
    simp only [Impl.evalSeg] at hm
    obtain ⟨n, hn, hm⟩ := Stream.mem_bind hm
    exact hP n m (hs n hn) (evalSels_child hm)
  | desc sels =>
    simp only [Impl.evalSeg] at hm
    obtain ⟨n, hn, hm⟩ := Stream.mem_bind hm
    obtain ⟨d, hd, hm⟩ := Stream.mem_bind hm
    have hPd : P d := visit_closed hP env.maxDepth 1 n.loc n.val (hs n hn) d hd
    exact hP d m hPd (evalSels_child hm)

theorem evalSegs_closed {P : Node → Prop} (hP : ChildClosed P) (env : Impl.Env) (root : Json)
    (q : List Segment) : ∀ (s : Impl.Stream), (∀ n ∈ s.1, P n) →
      ∀ m ∈ (Impl.evalSegs env root q s).1, P m := by
  induction q with
  | nil => intro s hs; simpa only [Impl.evalSegs] using hs
  | cons seg q ih =>
    intro s hs
    simp only [Impl.evalSegs]
    exact ih _ (evalSeg_closed hP env root seg s hs)

/-- Every node of `finditer` satisfies every child-closed predicate that the root satisfies. -/
theorem finditer_closed {P : Node → Prop} (hP : ChildClosed P) (env : Impl.Env) (q : Query)
    (v : Json) (h0 : P ⟨[], v⟩) : ∀ n ∈ (Impl.finditer env q v).1, P n := by
  unfold Impl.finditer
  apply evalSegs_closed hP
  intro n hn
  simp only [List.mem_singleton] at hn
  subst hn; exact h0

/-! ### the two invariants -/

theorem getAt_append (v : Json) (loc : Loc) (k : Key) :
    Json.getAt v (loc ++ [k]) = (Json.getAt v loc).bind (fun c => Json.step c k) := by
  induction loc generalizing v with
  | nil =>
    simp only [List.nil_append, Json.getAt, Option.bind_some]
    cases Json.step v k <;> rfl
  | cons k' ks ih =>
    simp only [List.cons_append, Json.getAt]
    cases Json.step v k' with
    | none => rfl
    | some c => simpa using ih c

/-- the node is where it says it is, and its value is well formed -/
def At (v : Json) (n : Node) : Prop := Json.getAt v n.loc = some n.val ∧ n.val.WF

theorem wfArr_getElem? {xs : List Json} (h : Json.WFArr xs) {i : Nat} {x : Json}
    (hx : xs[i]? = some x) : x.WF := by
  induction xs generalizing i with
  | nil => simp at hx
  | cons y ys ih =>
    simp only [Json.WFArr] at h
    cases i with
    | zero => simp at hx; subst hx; exact h.1
    | succ i => exact ih h.2 (by simpa using hx)

theorem wfObj_of_mem {kvs : List (Str × Json)} (h : Json.WFObj kvs) {p : Str × Json}
    (hp : p ∈ kvs) : p.2.WF := by
  induction kvs with
  | nil => simp at hp
  | cons y ys ih =>
    obtain ⟨k, v⟩ := y
    simp only [Json.WFObj] at h
    rcases List.mem_cons.1 hp with rfl | hp
    · exact h.1
    · exact ih h.2 hp

theorem at_closed (v : Json) : ChildClosed (At v) := by
  intro n m hn hc
  obtain ⟨hloc, hwf⟩ := hn
  rcases hc with ⟨kvs, s, hv, hl, hmem⟩ | ⟨xs, i, hv, hl, hx⟩
  · rw [hv] at hwf
    simp only [Json.WF] at hwf
    refine ⟨?_, wfObj_of_mem hwf.2 hmem⟩
    rw [hl, getAt_append, hloc, hv]
    simp only [Option.bind_some, Json.step]
    exact lookup_of_mem_nodup hwf.1 hmem
  · rw [hv] at hwf
    simp only [Json.WF] at hwf
    refine ⟨?_, wfArr_getElem? hwf hx⟩
    rw [hl, getAt_append, hloc, hv]
    simp only [Option.bind_some, Json.step]
    rw [if_pos (by omega)]
    simpa using hx

def IdxNonneg (loc : Loc) : Prop := ∀ k ∈ loc, ∀ i, k = Key.idx i → 0 ≤ i

theorem idxNonneg_closed : ChildClosed (fun n => IdxNonneg n.loc) := by
  intro n m hn hc k hk i hi
  rcases hc with ⟨kvs, s, _, hl, _⟩ | ⟨xs, j, _, hl, _⟩
  · rw [hl] at hk
    rcases List.mem_append.1 hk with hk | hk
    · exact hn k hk i hi
    · simp only [List.mem_singleton] at hk
      subst hk; cases hi
  · rw [hl] at hk
    rcases List.mem_append.1 hk with hk | hk
    · exact hn k hk i hi
    · simp only [List.mem_singleton] at hk
      subst hk
      cases hi
      omega

end JPV.Proofs
