/-
Character-level helpers shared by the ABNF equivalence proofs: `skipS`, `Blanks`,
follow-set predicates, and the small token recognisers.
-/
import JPV.Spec.Abnf
namespace JPV.Proofs.AbnfP
open JPV JPV.Spec

/-- `R` is empty or its first character satisfies `p` -/
def HeadP (p : Char → Prop) (R : List Char) : Prop := ∀ c t, R = c :: t → p c

theorem HeadP.nil {p} : HeadP p [] := by intro c t h; cases h
theorem HeadP.cons {p} {c : Char} {t} (h : p c) : HeadP p (c :: t) := by
  intro c' t' e; cases e; exact h
theorem HeadP.mono {p q : Char → Prop} {R} (h : HeadP p R) (hpq : ∀ c, p c → q c) : HeadP q R :=
  fun c t e => hpq c (h c t e)
theorem HeadP.head {p} {c : Char} {t} (h : HeadP p (c :: t)) : p c := h c t rfl

/-- what may follow a number spelling -/
def NumFollow (R : List Char) : Prop :=
  HeadP (fun c => isDIGIT c = false ∧ c ≠ '.' ∧ c ≠ 'e' ∧ c ≠ 'E') R

/-- what follows a selector: blank space, then `,` or `]` -/
def SelFollow (R : List Char) : Prop := ∃ t, skipS R = ',' :: t ∨ skipS R = ']' :: t

theorem blanks_nil : Abnf.Blanks [] := by intro c h; cases h
theorem blanks_cons {c : Char} {b} (hc : isBlank c = true) (hb : Abnf.Blanks b) : Abnf.Blanks (c :: b) := by
  intro d hd
  cases hd with
  | head => exact hc
  | tail _ h => exact hb d h
theorem blanks_append {a b} (ha : Abnf.Blanks a) (hb : Abnf.Blanks b) : Abnf.Blanks (a ++ b) := by
  intro c hc
  rcases List.mem_append.1 hc with h | h
  · exact ha c h
  · exact hb c h

theorem skipS_spec (inp : List Char) : ∃ b, inp = b ++ skipS inp ∧ Abnf.Blanks b := by
  induction inp with
  | nil => exact ⟨[], rfl, blanks_nil⟩
  | cons c cs ih =>
    unfold skipS
    by_cases hc : isBlank c = true
    · obtain ⟨b, hb, hbl⟩ := ih
      refine ⟨c :: b, ?_, blanks_cons hc hbl⟩
      simp only [hc, if_true, List.cons_append]
      exact congrArg _ hb
    · refine ⟨[], ?_, blanks_nil⟩
      simp [hc]

theorem skipS_head (inp : List Char) : HeadP (fun c => isBlank c = false) (skipS inp) := by
  induction inp with
  | nil => simp [skipS]; exact HeadP.nil
  | cons c cs ih =>
    unfold skipS
    by_cases hc : isBlank c = true
    · simpa [hc] using ih
    · simp only [hc]
      exact HeadP.cons (by simpa using hc)

theorem skipS_of_head {R : List Char} (h : HeadP (fun c => isBlank c = false) R) : skipS R = R := by
  cases R with
  | nil => rfl
  | cons c t => unfold skipS; simp [h.head]

theorem skipS_append_blanks {b : List Char} (hb : Abnf.Blanks b) (R : List Char) : skipS (b ++ R) = skipS R := by
  induction b with
  | nil => rfl
  | cons c b ih =>
    have hc : isBlank c = true := hb c (List.mem_cons_self)
    have : Abnf.Blanks b := fun d hd => hb d (List.mem_cons_of_mem _ hd)
    simp only [List.cons_append]
    rw [skipS]
    simp [hc, ih this]

theorem skipS_blanks_head {b : List Char} (hb : Abnf.Blanks b) {R : List Char}
    (h : HeadP (fun c => isBlank c = false) R) : skipS (b ++ R) = R := by
  rw [skipS_append_blanks hb, skipS_of_head h]

theorem skipS_idem (R : List Char) : skipS (skipS R) = skipS R := skipS_of_head (skipS_head R)

theorem skipS_length_le (R : List Char) : (skipS R).length ≤ R.length := by
  obtain ⟨b, hb, _⟩ := skipS_spec R
  have := congrArg List.length hb
  simp at this; omega

/-- the blank-flag test used by `bracketed` -/
theorem skipS_flag {b R : List Char} (hb : Abnf.Blanks b) (h : HeadP (fun c => isBlank c = false) R) :
    ((skipS (b ++ R)).length != (b ++ R).length) = !b.isEmpty := by
  rw [skipS_blanks_head hb h]
  cases b <;> simp
  omega

end JPV.Proofs.AbnfP
