"""Validation of the SPEC side (not of the implementation): the examples of RFC 9535 itself — as transcribed in the
repository's own tests (tests/test_ietf_examples.py, test_goessner.py, test_ietf_well_typedness.py,
test_ietf_comparison.py: queries, argument values and the results / validity the RFC's tables give) — are put to the
Lean oracle (`rfc.query` = Spec.Grammar → Spec.Valid → Spec.Semantics, nothing of the implementation involved).  A
disagreement means `Spec` is not the reading of the RFC it claims to be (or the transcription in the tests is off); it
is reported as an infrastructure problem of the check (exit 2), never as a violation of the property: the code under
test is not involved.  This is a test of the trusted base, labelled as such — not a proof."""
from __future__ import annotations

import importlib.util
import os

import model
import real
import wire


def _load(name):
    path = os.path.join(real.REPO, "tests", name + ".py")
    if not os.path.exists(path):
        return None
    spec = importlib.util.spec_from_file_location("_jpv_" + name, path)
    mod = importlib.util.module_from_spec(spec)
    try:
        spec.loader.exec_module(mod)
    except Exception:  # noqa: BLE001
        return None
    return mod


def values_examples(res):
    """RFC examples with expected VALUES (document order where the RFC leaves the order open)."""
    eenv = real.enc_env(real.FULL_ENVDESC if hasattr(real, "FULL_ENVDESC") else dict(real.DEFAULT_ENVDESC, fns=real.DEFAULT_ENVDESC["fns"] + [("match", ["V", "V"], "L", "match"), ("search", ["V", "V"], "L", "search")]))
    cases = []
    for name in ("test_ietf_examples", "test_goessner"):
        mod = _load(name)
        if mod is None:
            res.count("spec-examples-unavailable")
            continue
        for c in getattr(mod, "TEST_CASES", []):
            if "match(" in c.query or "search(" in c.query:
                continue  # the regular-expression engines are outside the oracle's registry (C11 has its own oracle)
            cases.append((name, c.query, c.data, c.want))
    if not cases:
        return
    out = model.run_batch_parallel([f"rfc.query\t{eenv}\t{wire.enc_str(q)}\t{wire.enc_json(d)}" for _n, q, d, _w in cases])
    bad = 0
    for (name, q, d, want), rep in zip(cases, out):
        res.evaluations += 1
        if rep.split("\t")[0] != "valid":
            res.infra.append(f"SPEC vs RFC example ({name}): oracle calls {q!r} {rep.split(chr(9))[0]}")
            bad += 1
            continue
        nodes = rep.split("\t", 1)[1].split(" ") if "\t" in rep and rep.split("\t", 1)[1] else []
        got = [n.split("|", 1)[1] for n in nodes]
        exp = [wire.enc_json(v) for v in want]
        if got != exp and sorted(got) != sorted(exp):
            res.infra.append(f"SPEC vs RFC example ({name}): {q!r}: oracle values differ from the RFC's table")
            bad += 1
        elif got != exp:
            res.count("spec-examples-order-left-open-by-the-rfc")
    res.count("spec-examples-values", len(cases))
    res.count("spec-examples-values-disagreeing", bad)


def typing_examples(res):
    """RFC 9535 §2.4.3 table of well-typedness examples (with the mock functions foo, bar, bn, bl of the tests)."""
    mod = _load("test_ietf_well_typedness")
    if mod is None:
        res.count("spec-examples-unavailable")
        return
    fns = list(real.DEFAULT_ENVDESC["fns"]) + [("match", ["V", "V"], "L", "match"), ("search", ["V", "V"], "L", "search"),
                                                ("foo", ["N"], "N", "pick0"), ("bar", ["V"], "L", "const"), ("bn", ["N"], "L", "const"), ("bl", ["L"], "L", "const")]
    eenv = real.enc_env(dict(real.DEFAULT_ENVDESC, fns=fns))
    cases = [(c.query, c.valid) for c in getattr(mod, "TEST_CASES", [])]
    out = model.run_batch_parallel([f"rfc.judge\t{eenv}\t{wire.enc_str(q)}" for q, _v in cases])
    bad = 0
    for (q, valid), rep in zip(cases, out):
        res.evaluations += 1
        verdict = rep.split("\t")[0].split(" ")[0]
        if (verdict in ("valid", "disputed")) != bool(valid):
            res.infra.append(f"SPEC vs RFC well-typedness example: {q!r}: oracle says {verdict}, the RFC's table says {'valid' if valid else 'invalid'}")
            bad += 1
    res.count("spec-examples-typing", len(cases))
    res.count("spec-examples-typing-disagreeing", bad)


def comparison_examples(res):
    """RFC 9535 §2.3.5.3 comparison examples: operands placed in a document, the comparison made by the oracle."""
    mod = _load("test_ietf_comparison")
    if mod is None:
        res.count("spec-examples-unavailable")
        return
    import jsonpath_rfc9535 as jp

    eenv = real.enc_env(real.DEFAULT_ENVDESC)
    cases = []
    for c in getattr(mod, "TEST_CASES", []):
        row = {}
        for side, v in (("l", c.left), ("r", c.right)):
            if v is jp.NOTHING or isinstance(v, jp.JSONPathNodeList):
                continue  # an empty nodelist / Nothing: the member is absent
            row[side] = v
        cases.append((f"$[?@.l {c.op} @.r]", [row], bool(c.want)))
    out = model.run_batch_parallel([f"rfc.query\t{eenv}\t{wire.enc_str(q)}\t{wire.enc_json(d)}" for q, d, _w in cases])
    bad = 0
    for (q, d, want), rep in zip(cases, out):
        res.evaluations += 1
        got = rep.split("\t")[0] == "valid" and "\t" in rep and rep.split("\t", 1)[1] != ""
        if got != want:
            res.infra.append(f"SPEC vs RFC comparison example: {q!r} on {d!r}: oracle says {got}, the RFC's table says {want}")
            bad += 1
    res.count("spec-examples-comparison", len(cases))
    res.count("spec-examples-comparison-disagreeing", bad)
