/-
`loose = false` derivations are `loose = true` derivations.
-/
import JPV.Spec.Abnf
namespace JPV.Proofs.AbnfP
open JPV JPV.Spec

theorem singularSeg_loose {s : List Char} {c : CSegment} : Abnf.SingularSeg false s c → Abnf.SingularSeg true s c
  | .dotName h => .dotName h
  | .name h1 h2 h3 _ => .name h1 h2 h3 (Or.inl rfl)
  | .index h1 h2 h3 _ => .index h1 h2 h3 (Or.inl rfl)

theorem singularSegs_loose {s : List Char} {c : List CSegment} : Abnf.SingularSegs false s c → Abnf.SingularSegs true s c := by
  intro h
  induction h with
  | nil => exact .nil
  | cons hb hs _ ih => exact .cons hb (singularSeg_loose hs) ih

mutual
theorem segments_loose {s : List Char} {c : List CSegment} : Abnf.Segments false s c → Abnf.Segments true s c
  | .nil => .nil
  | .cons hb hs hr => .cons hb (segment_loose hs) (segments_loose hr)
theorem segment_loose {s : List Char} {c : CSegment} : Abnf.Segment false s c → Abnf.Segment true s c
  | .bracketed h => .bracketed (bracketed_loose h)
  | .dotWild => .dotWild
  | .dotName h => .dotName h
  | .descBracketed h => .descBracketed (bracketed_loose h)
  | .descWild => .descWild
  | .descName h => .descName h
theorem bracketed_loose {s : List Char} {c : List CSelector} {fl : Bool} : Abnf.Bracketed false s c fl → Abnf.Bracketed true s c fl
  | .mk h1 h2 h3 h4 => .mk h1 (selector_loose h2) (moreSelectors_loose h3) h4
theorem moreSelectors_loose {s : List Char} {c : List CSelector} : Abnf.MoreSelectors false s c → Abnf.MoreSelectors true s c
  | .nil => .nil
  | .cons h1 h2 h3 h4 => .cons h1 h2 (selector_loose h3) (moreSelectors_loose h4)
theorem selector_loose {s : List Char} {c : CSelector} : Abnf.Selector false s c → Abnf.Selector true s c
  | .name h => .name h
  | .wild => .wild
  | .slice h => .slice h
  | .index h => .index h
  | .filter hb h => .filter hb (logicalOr_loose h)
theorem logicalOr_loose {s : List Char} {c : CExpr} : Abnf.LogicalOr false s c → Abnf.LogicalOr true s c
  | .single h => .single (logicalAnd_loose h)
  | .or h1 h2 h3 h4 => .or (logicalAnd_loose h1) h2 h3 (logicalOr_loose h4)
theorem logicalAnd_loose {s : List Char} {c : CExpr} : Abnf.LogicalAnd false s c → Abnf.LogicalAnd true s c
  | .single h => .single (basic_loose h)
  | .and h1 h2 h3 h4 => .and (basic_loose h1) h2 h3 (logicalAnd_loose h4)
theorem basic_loose {s : List Char} {c : CExpr} : Abnf.Basic false s c → Abnf.Basic true s c
  | .paren h => .paren (paren_loose h)
  | .notParen hb h => .notParen hb (paren_loose h)
  | .test h => .test (testItem_loose h)
  | .notTest hb h => .notTest hb (testItem_loose h)
  | .cmp h1 h2 h3 h4 h5 => .cmp (comparable_loose h1) h2 h3 h4 (comparable_loose h5)
theorem paren_loose {s : List Char} {c : CExpr} : Abnf.Paren false s c → Abnf.Paren true s c
  | .mk h1 h2 h3 => .mk h1 (logicalOr_loose h2) h3
theorem testItem_loose {s : List Char} {c : CExpr} : Abnf.TestItem false s c → Abnf.TestItem true s c
  | .rel h => .rel (segments_loose h)
  | .root h => .root (segments_loose h)
  | .call h => .call (functionExpr_loose h)
theorem comparable_loose {s : List Char} {c : CExpr} : Abnf.Comparable false s c → Abnf.Comparable true s c
  | .lit h => .lit h
  | .rel h => .rel (singularSegs_loose h)
  | .root h => .root (singularSegs_loose h)
  | .call h => .call (functionExpr_loose h)
theorem functionExpr_loose {s : List Char} {c : CExpr} : Abnf.FunctionExpr false s c → Abnf.FunctionExpr true s c
  | .noArgs h1 h2 => .noArgs h1 h2
  | .args h1 h2 h3 h4 h5 => .args h1 h2 (argument_loose h3) (moreArgs_loose h4) h5
theorem argument_loose {s : List Char} {c : CExpr} : Abnf.Argument false s c → Abnf.Argument true s c
  | .lit h => .lit h
  | .rel h => .rel (segments_loose h)
  | .root h => .root (segments_loose h)
  | .logical h => .logical (logicalOr_loose h)
  | .call h => .call (functionExpr_loose h)
theorem moreArgs_loose {s : List Char} {c : List CExpr} : Abnf.MoreArgs false s c → Abnf.MoreArgs true s c
  | .nil => .nil
  | .cons h1 h2 h3 h4 => .cons h1 h2 (argument_loose h3) (moreArgs_loose h4)
end

theorem query_loose {s : List Char} {c : List CSegment} : Abnf.Query false s c → Abnf.Query true s c
  | ⟨r, h1, h2⟩ => ⟨r, h1, segments_loose h2⟩

end JPV.Proofs.AbnfP
