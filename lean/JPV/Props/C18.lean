/-
C18 — Descendant traversal is bounded: deep data raises JSONPathRecursionError.

Property text: "Applying a descendant segment to data whose container nesting
does not exceed the environment's max_recursion_depth always completes with the
full result; applying it to deeper or self-referential data raises
JSONPathRecursionError in bounded time, never an interpreter RecursionError, a
hang or unbounded memory growth. The bound is the one configured on the
environment, in both deterministic and nondeterministic mode."

This file: the deterministic traversal `_visit` on finite trees (all shapes, the
deep branch anywhere: the statement is in terms of `Json.depth`, a max over
branches), and the nondeterministic traversal for EVERY choice script (`C18_nd_*`).
Self-referential data is not a finite `Json` value: `C18_graph_*` are about `Impl.G`, the same traversal on a
heap of containers that may refer to each other (tied to the code by the random-heap stage of the check).
-/
import JPV.Props.Common
import JPV.Proofs.Visit
import JPV.Proofs.NonDet
import JPV.Proofs.NonDetDepth
import JPV.Proofs.Graph
namespace JPV.Props
open JPV

/-- exact boundary: `_visit` raises iff the container nesting exceeds the limit -/
def C18_boundary_statement : Prop :=
  ∀ (max : Int) (loc : Loc) (v : Json),
    ((Impl.visit max 1 loc v).2 = none ↔ (1 ≤ max ∧ (v.depth : Int) ≤ max)) ∧
    ((Impl.visit max 1 loc v).2 = none ∨ (Impl.visit max 1 loc v).2 = some .recursion)

theorem C18_boundary : C18_boundary_statement := Proofs.visit_boundary

/-- within the limit the traversal completes and visits exactly the input node
and every container descendant, in document pre-order (scalars are skipped; no
selector selects anything from a scalar, see `C01`) -/
theorem C18_complete (max : Int) (loc : Loc) (v : Json) (h : (v.depth : Int) ≤ max) (h1 : 1 ≤ max) :
    Impl.visit max 1 loc v =
      ((Spec.descendants loc v).filter (fun n => n.val.isContainer || n.loc == loc), none) :=
  Proofs.visit_complete max loc v h h1

/-- beyond the limit the stream ends in JSONPathRecursionError after finitely
many nodes, all of them genuine descendants (a prefix of the full traversal) -/
theorem C18_raise (max : Int) (loc : Loc) (v : Json) (h : (v.depth : Int) > max) :
    (Impl.visit max 1 loc v).2 = some .recursion ∧
    (Impl.visit max 1 loc v).1 <+:
      (Spec.descendants loc v).filter (fun n => n.val.isContainer || n.loc == loc) :=
  Proofs.visit_raise max loc v h

/-- the work done is bounded by the size of the document -/
theorem C18_steps (max : Int) (loc : Loc) (v : Json) :
    (Impl.visit max 1 loc v).1.length ≤ v.size := Proofs.visit_length max loc v

/-- nondeterministic mode, same limit, every choice script: on a value nested deeper than the limit the
traversal ends in JSONPathRecursionError whatever the coin flips and shuffles are (and whatever the continuation
does with the nodes it is handed, as long as it does not fail itself) — never the model's `.fuel` (a hang) -/
theorem C18_nd_raise (max : Int) (root : Node) (s : Impl.ND.Script) (k : Node → Impl.ND.Script → Impl.ND.Out)
    (hk : ∀ n s', (k n s').err = none) (h1 : 1 ≤ max) (hd : max < (root.val.depth : Int)) :
    (Impl.ND.visit max root s k).err = some .recursion := Proofs.nd_visit_raises max root s k hk h1 hd

/-- query level, `$..[selectors]` as the first segment of a filter-free query in nondeterministic mode:
deeper than the limit ⇒ JSONPathRecursionError for every script; within the limit ⇒ completes (C17_partial) -/
theorem C18_nd_find_raise (env : Impl.Env) (sels : List Selector) (rest : List Segment) (v : Json) (s : Impl.ND.Script)
    (hff : Spec.filterFree (.desc sels :: rest) = true)
    (h1 : 1 ≤ env.maxDepth) (hd : env.maxDepth < (v.depth : Int)) :
    Impl.ND.find env (.desc sels :: rest) v s = .error .recursion := Proofs.nd_find_raises env sels rest v s hff h1 hd

theorem C18_nd_complete (env : Impl.Env) (reg : Spec.Registry) (q : Query) (v : Json) (s : Impl.ND.Script)
    (hff : Spec.filterFree q = true) (hw : v.WF) (hd : (v.depth : Int) ≤ env.maxDepth) (h1 : 1 ≤ env.maxDepth) :
    ∃ r, Impl.ND.find env q v s = .ok r ∧ r.Perm (Spec.select reg q v) := Proofs.nd_find_perm env reg q v s hff hw hd h1

/-- self-referential data, deterministic mode: whenever the start node lies on a cycle or reaches one, the
traversal raises JSONPathRecursionError — for EVERY configured limit -/
theorem C18_graph_cycle (h : Impl.G.Heap) (n m : Nat) (hnm : n = m ∨ Impl.G.Reach h n m) (hc : Impl.G.Reach h m m)
    (max : Int) : (Impl.G.visitTop h max n).2 = some .recursion := Proofs.g_cycle_raises h n m hnm hc max

/-- on any heap (cyclic or not) the traversal raises exactly when some path enters more containers than the limit
allows, and otherwise completes: nothing else can happen -/
theorem C18_graph_boundary (h : Impl.G.Heap) (rem : Nat) (loc : Loc) (n : Nat) :
    ((Impl.G.visit h rem loc n).2 = some .recursion ↔ Impl.G.Chain h n rem) ∧
    ((Impl.G.visit h rem loc n).2 = none ∨ (Impl.G.visit h rem loc n).2 = some .recursion) :=
  ⟨Proofs.g_visit_raises_iff h rem loc n, Proofs.g_visit_outcomes h rem loc n⟩

/-- bounded time and memory, whatever the shape of the data: with fan-out at most `B` the traversal produces at
most 1 + B + … + B^(limit-1) nodes before it completes or raises — no hang, no unbounded growth -/
theorem C18_graph_bounded (h : Impl.G.Heap) (B : Nat) (hB : ∀ m, (h.kids m).length ≤ B)
    (rem : Nat) (loc : Loc) (n : Nat) : (Impl.G.visit h rem loc n).1.length ≤ Impl.G.geom B rem :=
  Proofs.g_visit_bounded h B hB rem loc n

example : (Impl.visit 2 1 [] (.arr [.arr [.arr []]])).2 = some .recursion := by decide
example : (Impl.visit 3 1 [] (.arr [.arr [.arr []]])).2 = none := by decide

end JPV.Props
