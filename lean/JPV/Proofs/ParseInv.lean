/-
The typing/integer-range invariant of the parser, function by function
(`Post` triples), by induction on the fuel.
-/
import JPV.Proofs.ParserHoare
import JPV.Proofs.TypingLemmas
namespace JPV.Proofs
open JPV JPV.Impl

/-- close a goal whose program starts by raising -/
macro "pfail" : tactic => `(tactic| first
  | exact Post.failAt _ _ | exact Post.keyError | exact Post.outOfFuel | exact Post.throw _
  | exact Post.failAt_bind _ _ _ | exact Post.keyError_bind _ | exact Post.throw_bind _ _)

/-- normalise the program: reassociate binds, inline join points -/
macro "pnorm" : tactic => `(tactic| try simp only [bind_assoc, pure_bind])

/-- skip a stream operation (or a helper whose result carries no information we need) -/
macro "pskip" : tactic => `(tactic| first
  | refine Post.bind_triv (m := cur) (fun _ => ?_)
  | refine Post.bind_triv (m := nextTok) (fun _ => ?_)
  | refine Post.bind_triv (m := peekTok) (fun _ => ?_)
  | refine Post.bind_triv (m := pushTok _) (fun _ => ?_)
  | refine Post.bind_triv (m := expect _) (fun _ => ?_)
  | refine Post.bind_triv (m := expectPeek _) (fun _ => ?_)
  | refine Post.bind_triv (m := expectPeekNot _) (fun _ => ?_)
  | refine Post.bind_triv (m := intOf _) (fun _ => ?_)
  | refine Post.bind_triv (m := decodeAt _) (fun _ => ?_)
  | refine Post.bind_triv (m := maybeIndex _) (fun _ => ?_))

macro "pstep1" : tactic =>
  `(tactic| first
    | with_reducible pfail
    | with_reducible pskip
    | (split <;> pnorm)
    | with_reducible apply Post.pure)
macro "psteps" : tactic => `(tactic| repeat' pstep1)

/-! ### the non-recursive helpers -/

theorem raiseForUncompared_spec (env : Env) (x : PExpr) (h : BuiltS env x.e) :
    Post (raiseForUncompared env x) (fun _ => Spec.wtTest (sigsOf env) x.e = true) := by
  unfold raiseForUncompared
  pnorm
  psteps
  all_goals
    apply built_wtTest h
    · simpa using ‹¬ isLiteral x.e = true›
    · intro name args f hx hf
      simp_all

theorem raiseForNonComparable_spec (env : Env) (x : PExpr) (tok : Token) (h : BuiltS env x.e) :
    Post (raiseForNonComparable env x tok)
      (fun _ => Spec.wtComparable (sigsOf env) x.e = true) := by
  unfold raiseForNonComparable
  pnorm
  psteps
  all_goals
    unfold BuiltS at h
    simp_all [Spec.wtTest, Spec.wtComparable, sigsOf]

theorem validateSignature_spec (env : Env) (tok : Token) (args : List Expr)
    (h : ∀ a, a ∈ args → BuiltS env a) :
    Post (validateSignature env tok args) (fun _ => BuiltS env (.call tok.value args)) := by
  unfold validateSignature
  pnorm
  psteps
  rename_i f hf hlen hall
  exact built_call hf (by simpa using hlen) (by simpa using hall) h

theorem parseLiteral_spec (env : Env) (h : Handler) : Post (parseLiteral h) (GoodPx env) := by
  unfold parseLiteral
  pnorm
  psteps
  all_goals
    simp [GoodPx, GoodE, BuiltS, Spec.wtComparable, Spec.intsExpr, Json.isScalar]

theorem parseSlice_spec (env : Env) : Post (parseSlice env) (SelOK env) := by
  unfold parseSlice
  pnorm
  psteps
  all_goals
    refine Post.bind (Post.forIn_unit _ _
      (fun i => Spec.optInRange env.minIdx env.maxIdx i = true) ?_) ?_
  all_goals first
    | (intro b _
       cases b with
       | none => exact Post.pure (by simp [Spec.optInRange])
       | some v =>
         dsimp only
         split
         · pfail
         · rename_i hr
           apply Post.pure
           simpa [Spec.optInRange, Spec.inRange, Impl.inRange] using hr)
    | (intro _ hall
       apply Post.pure
       simp only [List.mem_cons, List.not_mem_nil, or_false, forall_eq_or_imp, forall_eq] at hall
       simp [SelOK, Spec.wtSel, Spec.intsSel, hall])

/-! ### the mutual invariant at a given fuel -/

structure Inv (env : Env) (fuel : Nat) : Prop where
  query : ∀ inF acc, QOK env acc → Post (parseQuery env inF fuel acc) (QOK env)
  selectors : Post (parseSelectors env fuel) (SelsOK env)
  bracketed : ∀ op acc, SelsOK env acc → Post (parseBracketed env op fuel acc) (SelsOK env)
  filterSel : Post (parseFilterSelector env fuel) (SelOK env)
  byHandler : ∀ h, Post (parseByHandler env h fuel) (GoodPx env)
  filterExpr : ∀ prec, Post (parseFilterExpr env prec fuel) (GoodPx env)
  loop : ∀ prec left, GoodPx env left → Post (filterExprLoop env prec fuel left) (GoodPx env)
  infx : ∀ left, GoodPx env left → Post (parseInfix env left fuel) (GoodPx env)
  prefx : Post (parsePrefix env fuel) (GoodPx env)
  grouped : Post (parseGrouped env fuel) (GoodPx env)
  gloop : ∀ x, GoodPx env x → Post (groupedLoop env fuel x) (GoodPx env)
  function : Post (parseFunction env fuel) (GoodPx env)
  fargs : ∀ args parens, ArgsOK env args →
    Post (functionArgs env fuel args parens) (fun r => ArgsOK env r.1)
  argInfix : ∀ x, GoodPx env x → Post (functionArgInfix env fuel x) (GoodPx env)

/-- call a sub-parser with a known specification, naming its result and the fact -/
syntax "pcall " term " with " ident ident : tactic
macro_rules
  | `(tactic| pcall $t with $x $hx) =>
    `(tactic| (refine Post.bind $t ?_; intro $x:ident $hx:ident; pnorm))

theorem Inv.zero (env : Env) : Inv env 0 := by
  constructor <;> intros
  · rw [parseQuery]; pfail
  · rw [parseSelectors]; pfail
  · rw [parseBracketed]; pfail
  · rw [parseFilterSelector]; pfail
  · rw [parseByHandler]; pfail
  · rw [parseFilterExpr]; pfail
  · rw [filterExprLoop]; pfail
  · rw [parseInfix]; pfail
  · rw [parsePrefix]; pfail
  · rw [parseGrouped]; pfail
  · rw [groupedLoop]; pfail
  · rw [parseFunction]; pfail
  · rw [functionArgs]; pfail
  · rw [functionArgInfix]; pfail

end JPV.Proofs
