/-
The executable recogniser `Spec.parseQuery` decides exactly the declarative ABNF relation `Spec.Abnf.Query`,
up to the `blanks` flag of child segments that are not singular-query segments.

The RFC's ABNF is itself ambiguous about which rule owns a blank after a trailing slice selector
(`slice-selector` ends in optional `S`, and `bracketed-selection` has `S` before `]`), so the relation
derives `"$[1: ]"` with the flag both `true` and `false` (`abnf_flag_ambiguous`); the flag is only ever
read on `[.name _]` / `[.index _]` segments, and `normSegs` forgets it everywhere else.
Helper lemmas are in `JPV/Proofs/Abnf/*.lean`.
-/
import JPV.Spec.Abnf
import JPV.Spec.Valid
import JPV.Proofs.Abnf.Norm
import JPV.Proofs.Abnf.NormInv
import JPV.Proofs.Abnf.StrictLoose
import JPV.Proofs.Abnf.SoundExpr
import JPV.Proofs.Abnf.Compl7
namespace JPV.Proofs
open JPV JPV.Spec

/-- soundness of `valid`: derivable by the ABNF to the letter, with exactly the recogniser's tree -/
theorem recogniser_valid_sound (s : List Char) (c : List CSegment) :
    parseQuery s = .valid c → Abnf.Query false s c :=
  AbnfP.valid_sound

/-- completeness of `valid`: every to-the-letter derivation is found, with the same tree up to `normSegs` -/
theorem recogniser_valid_complete (s : List Char) (c : List CSegment) :
    Abnf.Query false s c → ∃ c', parseQuery s = .valid c' ∧ normSegs c' = normSegs c :=
  AbnfP.valid_complete

/-- `valid` or `disputed` ⇒ derivable when blank space is also allowed inside the brackets of singular-query segments -/
theorem recogniser_accepts_sound (s : List Char) (c : List CSegment) :
    (parseQuery s = .valid c ∨ parseQuery s = .disputed c) → Abnf.Query true s c :=
  AbnfP.accepts_sound

theorem recogniser_accepts_complete (s : List Char) (c : List CSegment) :
    Abnf.Query true s c →
      ∃ c', (parseQuery s = .valid c' ∨ parseQuery s = .disputed c') ∧ normSegs c' = normSegs c :=
  AbnfP.accepts_complete

/-- `invalid` ⇔ not derivable even loosely -/
theorem recogniser_invalid_iff (s : List Char) :
    parseQuery s = .invalid ↔ ¬ ∃ c, Abnf.Query true s c := by
  constructor
  · rintro h ⟨c, hc⟩
    obtain ⟨c', h' | h', _⟩ := AbnfP.accepts_complete hc <;> rw [h] at h' <;> cases h'
  · intro h
    cases hp : parseQuery s with
    | invalid => rfl
    | valid c => exact absurd ⟨c, AbnfP.accepts_sound (Or.inl hp)⟩ h
    | disputed c => exact absurd ⟨c, AbnfP.accepts_sound (Or.inr hp)⟩ h

/-- the grammar is unambiguous up to the derivation tree kept, modulo the unread flags -/
theorem abnf_unambiguous (s : List Char) (c c' : List CSegment) :
    Abnf.Query true s c → Abnf.Query true s c' → normSegs c = normSegs c' := by
  intro h h'
  obtain ⟨c1, hp1, hn1⟩ := AbnfP.accepts_complete h
  obtain ⟨c2, hp2, hn2⟩ := AbnfP.accepts_complete h'
  have : c1 = c2 := by
    rcases hp1 with h1 | h1 <;> rcases hp2 with h2 | h2 <;> rw [h1] at h2 <;> cases h2 <;> rfl
  subst this
  exact hn1.symm.trans hn2

/-- to the letter implies loosely -/
theorem abnf_strict_loose (s : List Char) (c : List CSegment) :
    Abnf.Query false s c → Abnf.Query true s c :=
  AbnfP.query_loose

/-! ### invariance of everything downstream under `normSegs` -/

theorem normSegs_abstractSegs {c c' : List CSegment} (h : normSegs c = normSegs c') :
    abstractSegs c = abstractSegs c' := abstractSegs_congr_norm h

theorem normSegs_cmpShapeSegs {c c' : List CSegment} (h : normSegs c = normSegs c') :
    cmpShapeSegs c = cmpShapeSegs c' := cmpShapeSegs_congr_norm h

theorem normSegs_cSegs (sg : Sigs) (lo hi : Int) {c c' : List CSegment} (h : normSegs c = normSegs c') :
    cSegs sg lo hi c = cSegs sg lo hi c' := cSegs_congr_norm sg lo hi h

/-! ### the witness: the exact-tree statements are false -/

/-- `"$[1: ]"` has two derivations (even to the letter) whose trees differ in the `blanks` flag of the
slice segment: the blank belongs either to the slice-selector's trailing `S` or to the bracket's `S`.
The recogniser returns the flag `false`. -/
theorem abnf_flag_ambiguous :
    Abnf.Query false "$[1: ]".toList [.child [.slice (some 1) none none] true] ∧
    Abnf.Query false "$[1: ]".toList [.child [.slice (some 1) none none] false] ∧
    parseQuery "$[1: ]".toList = .valid [.child [.slice (some 1) none none] false] := by
  have int1 : Abnf.IntLit ['1'] 1 := by
    have := @Abnf.IntLit.pos '1' [] (by decide) (by intro c h; cases h)
    simpa [Py.digitsToNat] using this
  have bsp : Abnf.Blanks [' '] := by intro c h; simp at h; subst h; decide
  have bnil : Abnf.Blanks [] := by intro c h; cases h
  refine ⟨⟨"[1: ]".toList, rfl, ?_⟩, ⟨"[1: ]".toList, rfl, ?_⟩, ?_⟩
  · have hs : Abnf.SliceSel ['1', ':'] (some 1) none none :=
      ⟨['1'], [], [], [], rfl, Or.inr ⟨['1'], [], 1, rfl, int1, bnil, rfl⟩, bnil, Or.inl ⟨rfl, rfl⟩, Or.inl ⟨rfl, rfl⟩⟩
    have hb := @Abnf.Bracketed.mk false [] ['1', ':'] [] [' '] _ _ bnil (.slice hs) .nil bsp
    have := Abnf.Segments.cons (b := []) (rest := []) bnil (Abnf.Segment.bracketed hb) .nil
    simpa using this
  · have hs : Abnf.SliceSel ['1', ':', ' '] (some 1) none none :=
      ⟨['1'], [' '], [], [], rfl, Or.inr ⟨['1'], [], 1, rfl, int1, bnil, rfl⟩, bsp, Or.inl ⟨rfl, rfl⟩, Or.inl ⟨rfl, rfl⟩⟩
    have hb := @Abnf.Bracketed.mk false [] ['1', ':', ' '] [] [] _ _ bnil (.slice hs) .nil bnil
    have := Abnf.Segments.cons (b := []) (rest := []) bnil (Abnf.Segment.bracketed hb) .nil
    simpa using this
  · rfl

end JPV.Proofs
