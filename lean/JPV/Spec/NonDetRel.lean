/-
`Spec.NonDetRel` — which nodelists RFC 9535 PERMITS for a query on a value, stated
declaratively (relations, no enumeration, no fuel):

  * §2.3.2.2 / §2.3.5.2: a wildcard or filter selector applied to an OBJECT yields the selected
    member values in ANY order (a permutation); applied to an array, in array order;
  * §2.1.2 / §2.5.1.2: a child segment's result is the concatenation, in input order, of the
    results for each input node; for one node, the concatenation of its selectors' results in
    selector order;
  * §2.5.2.2: a descendant segment visits the input node and its descendants D1..Dn in ANY order
    in which every node comes before its descendants and the elements of any array come in
    array order; its result is the concatenation R1..Rn of the child-segment results on D1..Dn.

`Proofs/NonDetRelEquiv.lean` proves that the executable enumeration `Spec.ND.outcomes` (the oracle
of C17's exploration and the right-hand side of `C17_permitted`) lists exactly the nodelists this
relation admits, so what has to be trusted as a reading of the RFC is this file, not the
frontier-based enumeration of visit orders.
-/
import JPV.Spec.NonDet
namespace JPV.Spec.ND
open JPV JPV.Spec

/-- `a` is a proper ancestor of `b` -/
def IsAncestor (a b : Node) : Prop := ∃ suffix, suffix ≠ [] ∧ b.loc = a.loc ++ suffix

/-- `a` and `b` are elements of one array, `a` at the smaller index -/
def ArrayBefore (a b : Node) : Prop := ∃ (p : Loc) (i j : Int), a.loc = p ++ [.idx i] ∧ b.loc = p ++ [.idx j] ∧ i < j

/-- `b` has to come after `a` in every permitted visit order -/
def MustPrecede (a b : Node) : Prop := IsAncestor a b ∨ ArrayBefore a b

/-- §2.5.2.2: `ord` lists the input node and its descendants, each once, no node before one that has to precede it -/
def VisitOrder (n : Node) (ord : List Node) : Prop :=
  ord.Perm (descendants n.loc n.val) ∧ ord.Pairwise (fun x y => ¬ MustPrecede y x)

def isObj : Json → Bool
  | .obj _ => true
  | _ => false

/-- permitted results of one selector on one node -/
inductive SelPermitted (reg : Registry) (root : Json) : Selector → Node → List Node → Prop
  | wildObj {n : Node} {l : List Node} : isObj n.val = true → l.Perm (children n) → SelPermitted reg root .wild n l
  | wildOther {n : Node} : isObj n.val = false → SelPermitted reg root .wild n (children n)
  | filterObj {n : Node} {e : Expr} {l : List Node} : isObj n.val = true →
      l.Perm ((children n).filter (fun c => testOf reg root c.val e)) → SelPermitted reg root (.filter e) n l
  | filterOther {n : Node} {e : Expr} : isObj n.val = false →
      SelPermitted reg root (.filter e) n ((children n).filter (fun c => testOf reg root c.val e))
  | name {s : Str} {n : Node} : SelPermitted reg root (.name s) n (selName s n)
  | index {i : Int} {n : Node} : SelPermitted reg root (.index i) n (selIndex i n)
  | slice {a b c : Option Int} {n : Node} : SelPermitted reg root (.slice a b c) n (selSlice a b c n)

/-- the selectors of one segment on one node: concatenation in selector order -/
inductive SelsPermitted (reg : Registry) (root : Json) : List Selector → Node → List Node → Prop
  | nil {n : Node} : SelsPermitted reg root [] n []
  | cons {s : Selector} {ss : List Selector} {n : Node} {l r : List Node} :
      SelPermitted reg root s n l → SelsPermitted reg root ss n r → SelsPermitted reg root (s :: ss) n (l ++ r)

/-- one permitted result per node, concatenated in the order of the nodes -/
inductive Each (P : Node → List Node → Prop) : List Node → List Node → Prop
  | nil : Each P [] []
  | cons {n : Node} {ns : List Node} {l r : List Node} : P n l → Each P ns r → Each P (n :: ns) (l ++ r)

/-- permitted results of one segment applied to a nodelist -/
def SegPermitted (reg : Registry) (root : Json) : Segment → List Node → List Node → Prop
  | .child sels, ns, out => Each (SelsPermitted reg root sels) ns out
  | .desc sels, ns, out =>
      Each (fun n l => ∃ ord, VisitOrder n ord ∧ Each (SelsPermitted reg root sels) ord l) ns out

/-- permitted results of a sequence of segments from a nodelist -/
inductive SegsPermitted (reg : Registry) (root : Json) : List Segment → List Node → List Node → Prop
  | nil {ns : List Node} : SegsPermitted reg root [] ns ns
  | cons {seg : Segment} {segs : List Segment} {ns mid out : List Node} :
      SegPermitted reg root seg ns mid → SegsPermitted reg root segs mid out → SegsPermitted reg root (seg :: segs) ns out

/-- `out` is a nodelist RFC 9535 permits for query `q` on value `v` -/
def Permitted (reg : Registry) (q : Query) (v : Json) (out : List Node) : Prop :=
  SegsPermitted reg v q [⟨[], v⟩] out

end JPV.Spec.ND
