import JPV.Impl.Parse
import JPV.Spec.Grammar
import JPV.Spec.Typing
import JPV.Proofs.Requery
import JPV.Proofs.Cs.LexMain
import JPV.Proofs.Cs.ParseSegs
namespace JPV.Proofs
open JPV JPV.Impl

/-- C03 for the filter-free language: every string the RFC 9535 grammar derives without filter selectors
(any mix of child/descendant segments; name selectors in either quote style with every escape form, or
shorthand incl. non-ASCII; index, slice (every combination of omitted parts) and wildcard selectors; blank
space wherever the grammar allows it) whose integers lie within the environment's range is accepted by the
implementation's lexer and parser, and compiles to the derivation's query. -/
theorem compile_complete_structural (env : Env) (s : Str) (c : List Spec.CSegment)
    (hp : Spec.parseQuery s = .valid c)
    (hff : Spec.filterFree (Spec.abstractSegs c) = true)
    (hr : Spec.intsQuery env.minIdx env.maxIdx (Spec.abstractSegs c) = true) :
    Impl.compile env s = .ok (Spec.abstractSegs c) := by
  obtain ⟨ts, k0, ke, hsh, htok⟩ := Cs.tokenize_valid s c hp (Cs.ffSegs_of c hff)
  have hpar := Cs.parse_top env hsh hr ⟨.root, ['$'], k0⟩ ⟨.eof, [], ke⟩ rfl rfl
    (parseFuel (⟨.root, ['$'], k0⟩ :: (ts ++ [⟨.eof, [], ke⟩])).length)
    (by simp only [parseFuel, List.length_cons, List.length_append, List.length_nil]; omega)
  unfold Impl.compile
  rw [htok]
  exact hpar

end JPV.Proofs
