/-
`Proofs.Cf.LexTop` — the lexer half of parser completeness for the full language (filter selectors included):
on a query the grammar derives, without keyword-prefixed function names, `tokenize` produces a token list of
the derivation's shape.
-/
import JPV.Proofs.Cf.LexGSeg
set_option linter.unusedSimpArgs false
namespace JPV.Proofs.Cf
open JPV JPV.Impl JPV.Proofs.Rq

/-- the top-level segments (depth 0, no open bracket), up to the end of the input -/
theorem lex_segments_top {f : Nat} {inp : List Char} {segs : List Spec.CSegment}
    (h : Spec.segments f inp = some (segs, []))
    {l : Lexer} {pre : List Char} {toks : List Token} (hst : FSt 0 l pre [] inp toks []) :
    ∃ lf ts ke, Halts .segment l lf ∧ lf.brackets = [] ∧
      lf.toks = ⟨.eof, [], ke⟩ :: (ts.reverse ++ toks) ∧ FSegsShape segs ts := by
  obtain ⟨l1, pre1, ts, r1, h1, hsh⟩ :=
    (lexAll f).segments 0 (Int.le_refl 0) inp segs [] h l pre toks [] hst
  have s1 := lexSegment_eof h1
  have hp : l1.peek = none := by rw [h1.peek]; rfl
  rw [Lexer.adv_none hp] at s1
  have h2 := h1.emit .eof
  exact ⟨_, ts, _, r1.halts (.stop s1), h2.br, by rw [h2.toks], hsh⟩

/-- the lexer on a query the grammar derives (filter selectors included; function names may begin with
`true`, `false` or `null`) -/
theorem tokenize_full (s : Str) (c : List Spec.CSegment) (hp : Spec.parseQuery s = .valid c) :
    ∃ ts k0 ke, FSegsShape c ts ∧
      tokenize s = .ok (⟨.root, ['$'], k0⟩ :: (ts ++ [⟨.eof, [], ke⟩])) := by
  unfold Spec.parseQuery at hp
  split at hp
  · rename_i r
    split at hp
    · rename_i segs hsegs
      have hc : segs = c := by
        simp only [] at hp
        split at hp
        · cases hp
        · split at hp
          · cases hp
          · simpa using hp
      subst hc
      generalize hs : ('$' :: r : Str) = s at hsegs
      have h0 : FSt 0 ({ q := s.toArray } : Lexer) [] [] ('$' :: r) [] [] :=
        ⟨by simp [hs], rfl, rfl, rfl, rfl, rfl⟩
      have s1 := lexRoot_exec h0
      have h1 := h0.adv.emit .root
      obtain ⟨lf, ts, ke, hh, hb, ht, hsh⟩ := lex_segments_top hsegs h1
      have hrun := run_of_halts (n := s.length) (.step s1 hh) (lexFuel s.length) (Lexer.Inv.init s)
        (by simp [pot, rank, lexFuel])
      refine ⟨ts, 0, ke, hsh, ?_⟩
      unfold tokenize
      simp only [hrun, bind, Except.bind, hb, ht]
      simp [pure, Except.pure]
    · cases hp
  · cases hp

/-- `tokenize_full` from the segments derivation alone (serves both the `valid` and the `disputed` verdict) -/
theorem tokenize_full_segs (r : Str) (c : List Spec.CSegment)
    (hsegs : Spec.segments (2 * ('$' :: r : Str).length + 4) r = some (c, [])) :
    ∃ ts k0 ke, FSegsShape c ts ∧
      tokenize ('$' :: r) = .ok (⟨.root, ['$'], k0⟩ :: (ts ++ [⟨.eof, [], ke⟩])) := by
  generalize hs : ('$' :: r : Str) = s at hsegs
  have h0 : FSt 0 ({ q := s.toArray } : Lexer) [] [] ('$' :: r) [] [] :=
    ⟨by simp [hs], rfl, rfl, rfl, rfl, rfl⟩
  have s1 := lexRoot_exec h0
  have h1 := h0.adv.emit .root
  obtain ⟨lf, ts, ke, hh, hb, ht, hsh⟩ := lex_segments_top hsegs h1
  have hrun := run_of_halts (n := s.length) (.step s1 hh) (lexFuel s.length) (Lexer.Inv.init s)
    (by simp [pot, rank, lexFuel])
  refine ⟨ts, 0, ke, hsh, ?_⟩
  unfold tokenize
  simp only [hrun, bind, Except.bind, hb, ht]
  simp [pure, Except.pure]

/-- a verdict with a derivation comes from a complete `segments` parse after `$` -/
theorem segs_of_parseQuery {s : Str} {c : List Spec.CSegment}
    (hp : Spec.parseQuery s = .valid c ∨ Spec.parseQuery s = .disputed c) :
    ∃ r, s = '$' :: r ∧ Spec.segments (2 * ('$' :: r : Str).length + 4) r = some (c, []) := by
  unfold Spec.parseQuery at hp
  split at hp
  · rename_i r
    split at hp
    · rename_i segs hsegs
      refine ⟨r, rfl, ?_⟩
      have hc : segs = c := by
        simp only [] at hp
        split at hp
        · rcases hp with hp | hp <;> cases hp
        · split at hp
          · rcases hp with hp | hp
            · cases hp
            · simpa using hp
          · rcases hp with hp | hp
            · simpa using hp
            · cases hp
      subst hc
      exact hsegs
    · rcases hp with hp | hp <;> cases hp
  · rcases hp with hp | hp <;> cases hp

end JPV.Proofs.Cf
