/-
Completeness: assembly by structural recursion on derivations, and the verdict of `parseQuery`.
-/
import JPV.Proofs.Abnf.Compl6
import JPV.Proofs.Abnf.ShapeOK
import JPV.Proofs.Abnf.NormInv
import JPV.Proofs.Abnf.SoundExpr
namespace JPV.Proofs.AbnfP
open JPV JPV.Spec

/-! ### singular-query segments are segments -/

theorem segment_of_singularSeg {l : Bool} {s : List Char} {c : CSegment} :
    Abnf.SingularSeg l s c → Abnf.Segment l s c
  | .dotName h => .dotName h
  | .name hb1 hs hb2 _ => by
    have := Abnf.Segment.bracketed (Abnf.Bracketed.mk (loose := l) hb1 (.name hs) .nil hb2)
    simpa using this
  | .index hb1 hs hb2 _ => by
    have := Abnf.Segment.bracketed (Abnf.Bracketed.mk (loose := l) hb1 (.index hs) .nil hb2)
    simpa using this

theorem segments_of_singularSegs {l : Bool} {s : List Char} {q : List CSegment}
    (h : Abnf.SingularSegs l s q) : Abnf.Segments l s q := by
  induction h with
  | nil => exact .nil
  | cons hb hs _ ih => exact .cons hb (segment_of_singularSeg hs) ih

theorem cSeg_of_singularSeg {l : Bool} {s : List Char} {c : CSegment} :
    Abnf.SingularSeg l s c → CSeg s c
  | .dotName h => cSeg_dotName h
  | .name (b1 := b1) (s := s) (b2 := b2) hb1 hs hb2 _ => by
    have hd := Abnf.Bracketed.mk (loose := l) hb1 (.name hs) .nil hb2
    have := cSeg_bracketed hd (cBrk_mk (l := l) hb1 (.name hs) .nil hb2 (cSel_name hs) cMSel_nil)
    simpa using this
  | .index (b1 := b1) (s := s) (b2 := b2) hb1 hs hb2 _ => by
    have hd := Abnf.Bracketed.mk (loose := l) hb1 (.index hs) .nil hb2
    have := cSeg_bracketed hd (cBrk_mk (l := l) hb1 (.index hs) .nil hb2 (cSel_index hs) cMSel_nil)
    simpa using this

theorem cSegs_of_singularSegs {l : Bool} {s : List Char} {q : List CSegment}
    (h : Abnf.SingularSegs l s q) : CSegs s q := by
  induction h with
  | nil => exact cSegs_nil
  | cons hb hs hr ih =>
    exact cSegs_cons hb (segment_of_singularSeg hs) (segments_of_singularSegs hr) (cSeg_of_singularSeg hs) ih

/-! ### the mutual recursion -/

mutual
theorem segments_complete {l : Bool} {s : List Char} {c : List CSegment} : Abnf.Segments l s c → CSegs s c
  | .nil => cSegs_nil
  | .cons hb hs hr => cSegs_cons hb hs hr (segment_complete hs) (segments_complete hr)
theorem segment_complete {l : Bool} {s : List Char} {c : CSegment} : Abnf.Segment l s c → CSeg s c
  | .bracketed h => cSeg_bracketed h (bracketed_complete h)
  | .dotWild => cSeg_dotWild
  | .dotName h => cSeg_dotName h
  | .descBracketed h => cSeg_descBracketed h (bracketed_complete h)
  | .descWild => cSeg_descWild
  | .descName h => cSeg_descName h
theorem bracketed_complete {l : Bool} {s : List Char} {c : List CSelector} {fl : Bool} :
    Abnf.Bracketed l s c fl → CBrk s c fl
  | .mk h1 h2 h3 h4 => cBrk_mk h1 h2 h3 h4 (selector_complete h2) (moreSelectors_complete h3)
theorem moreSelectors_complete {l : Bool} {s : List Char} {c : List CSelector} :
    Abnf.MoreSelectors l s c → CMSel s c
  | .nil => cMSel_nil
  | .cons h1 h2 h3 h4 => cMSel_cons h1 h2 h3 h4 (selector_complete h3) (moreSelectors_complete h4)
theorem selector_complete {l : Bool} {s : List Char} {c : CSelector} : Abnf.Selector l s c → CSel s c
  | .name h => cSel_name h
  | .wild => cSel_wild
  | .slice h => cSel_slice h
  | .index h => cSel_index h
  | .filter hb h => cSel_filter hb h (logicalOr_complete h)
theorem logicalOr_complete {l : Bool} {s : List Char} {e : CExpr} : Abnf.LogicalOr l s e → COr s e
  | .single h => cOr_single (logicalAnd_complete h)
  | .or h1 h2 h3 h4 => cOr_or h2 h3 h4 (logicalAnd_complete h1) (logicalOr_complete h4)
theorem logicalAnd_complete {l : Bool} {s : List Char} {e : CExpr} : Abnf.LogicalAnd l s e → CAnd s e
  | .single h => cAnd_single (basic_complete h)
  | .and h1 h2 h3 h4 => cAnd_and h2 h3 h4 (basic_complete h1) (logicalAnd_complete h4)
theorem basic_complete {l : Bool} {s : List Char} {e : CExpr} : Abnf.Basic l s e → CBasic s e
  | .paren h => cBasic_paren h (paren_complete h)
  | .notParen hb h => cBasic_notParen hb h (paren_complete h)
  | .test h => cBasic_test h (testItem_complete h)
  | .notTest hb h => cBasic_notTest hb h (testItem_complete h)
  | .cmp h1 h2 h3 h4 h5 => cBasic_cmp h1 h2 h3 h4 h5 (comparable_complete h1) (comparable_complete h5)
theorem paren_complete {l : Bool} {s : List Char} {e : CExpr} : Abnf.Paren l s e → CParen s e
  | .mk h1 h2 h3 => cParen_mk h1 h2 h3 (logicalOr_complete h2)
theorem testItem_complete {l : Bool} {s : List Char} {e : CExpr} : Abnf.TestItem l s e → CTerm s e
  | .rel h => cTerm_rel (segments_complete h)
  | .root h => cTerm_root (segments_complete h)
  | .call h => functionExpr_complete h
theorem comparable_complete {l : Bool} {s : List Char} {e : CExpr} : Abnf.Comparable l s e → CTerm s e
  | .lit h => cTerm_lit h
  | .rel h => cTerm_rel (cSegs_of_singularSegs h)
  | .root h => cTerm_root (cSegs_of_singularSegs h)
  | .call h => functionExpr_complete h
theorem functionExpr_complete {l : Bool} {s : List Char} {e : CExpr} : Abnf.FunctionExpr l s e → CTerm s e
  | .noArgs h1 h2 => cTerm_noArgs h1 h2
  | .args h1 h2 h3 h4 h5 => cTerm_args h1 h2 h3 h4 h5 (argument_complete h3) (moreArgs_complete h4)
theorem argument_complete {l : Bool} {s : List Char} {e : CExpr} : Abnf.Argument l s e → CArg s e
  | .lit h => cArg_lit h
  | .rel h => cArg_logical (testItem_noLitArg (l := l) (.rel h))
      (cOr_single (cAnd_single (cBasic_test (l := l) (.rel h) (cTerm_rel (segments_complete h)))))
  | .root h => cArg_logical (testItem_noLitArg (l := l) (.root h))
      (cOr_single (cAnd_single (cBasic_test (l := l) (.root h) (cTerm_root (segments_complete h)))))
  | .logical h => cArg_logical (logicalOr_noLitArg h) (logicalOr_complete h)
  | .call h => cArg_logical (functionExpr_noLitArg h)
      (cOr_single (cAnd_single (cBasic_test (l := l) (.call h) (functionExpr_complete h))))
theorem moreArgs_complete {l : Bool} {s : List Char} {c : List CExpr} : Abnf.MoreArgs l s c → CMArgs s c
  | .nil => cMArgs_nil
  | .cons h1 h2 h3 h4 => cMArgs_cons h1 h2 h3 h4 (argument_complete h3) (moreArgs_complete h4)
end

/-! ### the verdict -/

theorem parseQuery_of_segments {rest : List Char} {c' : List CSegment}
    (h : segments (2 * ('$' :: rest).length + 4) rest = some (c', [])) :
    parseQuery ('$' :: rest) =
      if !(cmpShapeSegs c').1 then .invalid else if (cmpShapeSegs c').2 then .disputed c' else .valid c' := by
  rw [parseQuery]
  simp only [h]

theorem query_segments {l : Bool} {s : List Char} {c : List CSegment} (h : Abnf.Query l s c) :
    ∃ rest c', s = '$' :: rest ∧ segments (2 * s.length + 4) rest = some (c', []) ∧
      normSegs c' = normSegs c ∧ OK l (cmpShapeSegs c') := by
  obtain ⟨rest, rfl, hd⟩ := h
  obtain ⟨c', h1, hn⟩ := segments_complete hd [] (2 * ('$' :: rest).length + 4) HeadP.nil
    (by simp only [List.length_cons]; omega)
  rw [List.append_nil] at h1
  exact ⟨rest, c', rfl, h1, hn, by rw [cmpShapeSegs_congr_norm hn]; exact segments_shapeOK hd⟩

theorem accepts_complete {s : List Char} {c : List CSegment} (h : Abnf.Query true s c) :
    ∃ c', (parseQuery s = .valid c' ∨ parseQuery s = .disputed c') ∧ normSegs c' = normSegs c := by
  obtain ⟨rest, c', rfl, h1, hn, hok⟩ := query_segments h
  refine ⟨c', ?_, hn⟩
  rw [parseQuery_of_segments h1]
  simp only [hok.1, Bool.not_true, Bool.false_eq_true, if_false]
  cases (cmpShapeSegs c').2 <;> simp

theorem valid_complete {s : List Char} {c : List CSegment} (h : Abnf.Query false s c) :
    ∃ c', parseQuery s = .valid c' ∧ normSegs c' = normSegs c := by
  obtain ⟨rest, c', rfl, h1, hn, hok⟩ := query_segments h
  refine ⟨c', ?_, hn⟩
  rw [parseQuery_of_segments h1]
  simp [hok.1, hok.2 rfl]

end JPV.Proofs.AbnfP
