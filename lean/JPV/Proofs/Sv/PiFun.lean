/-
`Proofs.Sf.PiFun` — inversion of `parseFunction` / `functionArgs`, one fuel step each.
-/
import JPV.Proofs.Sf.PiFun
import JPV.Proofs.ParseTyping
import JPV.Proofs.Sv.PiExpr
set_option linter.unusedSimpArgs false
set_option linter.unusedVariables false
namespace JPV.Proofs.Sv
open JPV JPV.Impl JPV.Proofs.Rq JPV.Proofs.Cs JPV.Proofs.Ss JPV.Proofs.Sf

/-- a successful `for` loop whose body never breaks ran its body successfully on every element -/
theorem forIn_all {α} (Q : α → Prop) (l : List α) (body : α → PUnit → P (ForInStep PUnit))
    (hb : ∀ a u st st' r, exec (body a u) st = (.ok r, st') → Q a ∧ ∃ u', r = .yield u') :
    ∀ u st st' r, exec (forIn l u body) st = (.ok r, st') → ∀ a, a ∈ l → Q a := by
  induction l with
  | nil => intro u st st' r _ a ha; cases ha
  | cons x l ih =>
    intro u st st' r h a ha
    rw [List.forIn_cons] at h
    obtain ⟨s, st1, h1, h2⟩ := exec_bind_ok h
    obtain ⟨hq, u', rfl⟩ := hb _ _ _ _ _ h1
    rcases List.mem_cons.1 ha with rfl | ha
    · exact hq
    · exact ih _ _ _ _ h2 a ha

theorem fOK_of_flagIdx : ∀ (bs : List Bool) (k : Nat) (tys : List Ty),
    (∀ idx, idx ∈ flagIdx k bs → ∀ ty, tys[idx - k]? = some ty → ty = .logical) → fOK tys bs = true
  | [], _, _, _ => by cases ‹List Ty› <;> simp [fOK]
  | b :: bs, k, [], _ => by simp [fOK]
  | b :: bs, k, t :: ts, h => by
    simp only [fOK, Bool.and_eq_true, Bool.or_eq_true, Bool.not_eq_true', beq_iff_eq]
    constructor
    · cases b with
      | false => exact .inl rfl
      | true =>
        right
        exact h k (by simp [flagIdx]) t (by simp)
    · apply fOK_of_flagIdx bs (k + 1) ts
      intro idx hidx ty hty
      have hge : k + 1 ≤ idx := by
        clear hty h
        induction bs generalizing k idx with
        | nil => simp [flagIdx] at hidx
        | cons b' bs' ih =>
          simp only [flagIdx, List.mem_append] at hidx
          rcases hidx with hidx | hidx
          · split at hidx
            · simp at hidx; omega
            · simp at hidx
          · have := ih (k + 1) idx hidx; omega
      apply h idx (by simp only [flagIdx, List.mem_append]; exact .inr hidx) ty
      have : idx - k = (idx - (k + 1)) + 1 := by omega
      rw [this]
      simpa using hty

variable [SigC]

theorem function_step {env : Env} {f : Nat} (hS : SigC.sg = sigsOfEnv' env) (ih : ArgsInv env f) :
    FunctionInv env (f + 1) := by
  intro t rest st' p he hk h
  rw [parseFunction] at h
  have hne : t.kind ≠ .eof := by rw [hk]; simp
  obtain ⟨tok, st1, hN, h2⟩ := exec_bind_ok h
  clear h
  obtain ⟨rfl, c, rest', rfl, he', rfl⟩ := fresh_nextTok he hne hN
  clear hN
  obtain ⟨ap, st2, hA, h3⟩ := exec_bind_ok h2
  clear h2
  obtain ⟨args, parens⟩ := ap
  dsimp only at h3
  have hfin : p.e = .call t.value args ∧ st' = st2 ∧
      ∀ fn, env.func t.value = some fn → ∀ idx, idx ∈ parens → ∀ ty, fn.argTypes[idx]? = some ty →
        ty = .logical := by
    split at h3
    · rename_i fn hfn
      obtain ⟨_, st3, hF, h4⟩ := exec_bind_ok h3
      have : st3 = st2 := by
        refine Quiet.forIn _ _ ?_ _ _ _ _ hF
        intro a u
        split
        · exact Quiet.ite (Quiet.bind (Quiet.failAt _ _) (fun _ => Quiet.pure _)) (Quiet.pure _)
        · exact Quiet.pure _
      subst this
      have hall := forIn_all (fun idx => ∀ ty, fn.argTypes[idx]? = some ty → ty = .logical) _ _ (by
        intro a u st st' r hb
        split at hb
        · rename_i ty hty
          by_cases hl : ty = .logical
          · refine ⟨fun ty' h' => ?_, ?_⟩
            · rw [hty] at h'; cases h'; exact hl
            · simp only [hl, ne_eq, not_true_eq_false, if_false] at hb
              exact ⟨_, (exec_pure_ok hb).1.symm⟩
          · exfalso
            simp only [ne_eq, hl, not_false_eq_true, if_true] at hb
            obtain ⟨_, _, hb1, _⟩ := exec_bind_ok hb
            exact absurd hb1 failAt_ne_ok
        · rename_i hnone
          refine ⟨fun ty' h' => ?_, ⟨_, (exec_pure_ok hb).1.symm⟩⟩
          rw [hnone] at h'; cases h') _ _ _ _ hF
      obtain ⟨h5, h6⟩ := functionFin_ok h4
      refine ⟨h5, h6, ?_⟩
      intro fn' hfn' idx hidx ty hty
      rw [hfn] at hfn'; cases hfn'
      exact hall idx hidx ty hty
    · rename_i hfn
      obtain ⟨h5, h6⟩ := functionFin_ok h3
      refine ⟨h5, h6, ?_⟩
      intro fn' hfn'
      rw [hfn] at hfn'; cases hfn'
  clear h3
  obtain ⟨hp, rfl, hpar⟩ := hfin
  obtain ⟨as, bs, ts, rp, more, has, hbs, htoks, hrp, rfl, herp, hA1, hA2⟩ := ih _ _ _ _ _ _ he' hA
  simp only [List.nil_append] at has hbs
  subst has
  have hrpe : rp.kind ≠ .eof := by rw [hrp]; simp
  obtain ⟨x, more', rfl, hx⟩ := herp.next hrpe
  have hargs : ArgsD args bs ts := by
    by_cases hc : c.kind = .rparen
    · obtain ⟨rfl, rfl, rfl⟩ := hA1 hc
      exact .nil
    · obtain ⟨a, as', bs', t1, t2, rfl, rfl, rfl, ha, hm⟩ := hA2 hc
      exact .cons a as' bs' t1 t2 ha hm
  have hok : callOK t.value bs = true := by
    unfold callOK
    rw [hS]
    unfold sigsOfEnv'
    cases hfn : env.func t.value with
    | none => rfl
    | some fn =>
      simp only [Option.map_some]
      apply fOK_of_flagIdx bs 0
      intro idx hidx ty hty
      exact hpar fn hfn idx (by rw [hbs]; simpa using hidx) ty (by simpa using hty)
  refine ⟨ts ++ [rp], x, more', ?_, .inl ⟨rp, hrpe, rfl⟩, hx, ?_⟩
  · rw [htoks]; simp
  · rw [hp]
    exact .term _ _ (.call t rp args bs ts hk hrp hargs hok)

/-! ### the argument loop -/

theorem args_step {env : Env} {f : Nat} (ihH : ByHandlerInv env f) (ihI : ArgInfixInv env f)
    (ihA : ArgsInv env f) : ArgsInv env (f + 1) := by
  intro args parens c rest st' r he h
  rw [functionArgs_eq] at h
  obtain ⟨c0, st0, hC, h2⟩ := exec_bind_ok h
  clear h
  obtain ⟨rfl, rfl⟩ := exec_cur_ok hC
  clear hC
  by_cases hk : c.kind = .rparen
  · simp only [hk, if_true] at h2
    obtain ⟨rfl, rfl⟩ := exec_pure_ok h2
    exact ⟨[], [], [], c, rest, by simp, by simp [flagIdx], rfl, hk, rfl, he, fun _ => ⟨rfl, rfl, rfl⟩,
      fun hn => absurd hk hn⟩
  · simp only [hk, if_false] at h2
    cases hm : functionArgumentMap c.kind with
    | none => rw [hm] at h2; exact absurd h2 failAt_ne_ok
    | some hd =>
      rw [hm] at h2
      dsimp only at h2
      obtain ⟨x1, st1, hH, h3⟩ := exec_bind_ok h2
      clear h2
      obtain ⟨t1, y, more, rfl, hrdy, hy, hprim⟩ := ihH _ _ _ _ _ he hm hH
      clear hH
      obtain ⟨x2, st2, hI, h4⟩ := exec_bind_ok h3
      clear h3
      obtain ⟨t2, z, more2, htoks, hrdy2, hz, hLI, hbz⟩ :=
        ihI _ _ _ _ _ _ _ hrdy hy (.prim _ _ hprim) hI
      clear hI
      have harg : ArgD x2.e (c :: t1 ++ t2) := hLI.arg
      have hlp : (if c.kind = .lparen then parens ++ [args.length] else parens) =
          parens ++ flagIdx args.length [startsLp (c :: t1 ++ t2)] := by
        by_cases hcl : c.kind = .lparen <;> simp [flagIdx, startsLp, hcl]
      rw [hlp] at h4
      rcases argTail_inv hrdy2 hz h4 with ⟨hzk, h5⟩ | ⟨hzk, w, more3, rfl, hw, h5⟩
      · obtain ⟨as, bs, ts, rp, more4, has, hbs, htoks2, hrp, rfl, herp, hA1, -⟩ := ihA _ _ _ _ _ _ hz h5
        obtain ⟨rfl, rfl, rfl⟩ := hA1 hzk
        simp only [List.nil_append, List.cons.injEq] at htoks2
        obtain ⟨rfl, rfl⟩ := htoks2
        refine ⟨[x2.e], [startsLp (c :: t1 ++ t2)], c :: t1 ++ t2, z, more2, by simpa using has, ?_, ?_, hrp,
          rfl, herp, fun hc => absurd hc hk,
          fun _ => ⟨x2.e, [], [], c :: t1 ++ t2, [], rfl, rfl, by simp, harg, .nil⟩⟩
        · rw [hbs]; simp [flagIdx]
        · rw [htoks]; simp
      · obtain ⟨as, bs, ts, rp, more4, has, hbs, htoks2, hrp, rfl, herp, -, hA2⟩ :=
          ihA _ _ _ _ _ _ hz.tail h5
        obtain ⟨a, as', bs', u1, u2, rfl, rfl, rfl, ha, hmore⟩ := hA2 hw
        refine ⟨x2.e :: a :: as', startsLp (c :: t1 ++ t2) :: startsLp u1 :: bs',
          (c :: t1 ++ t2) ++ (z :: (u1 ++ u2)), rp, more4, by simpa using has, ?_, ?_,
          hrp, rfl, herp, fun hc => absurd hc hk,
          fun _ => ⟨x2.e, a :: as', startsLp u1 :: bs', c :: t1 ++ t2, z :: (u1 ++ u2), rfl, rfl, rfl, harg,
            .cons z a as' bs' u1 u2 hzk ha hmore⟩⟩
        · rw [hbs]; simp [flagIdx, List.append_assoc]
        · rw [htoks, htoks2]; simp

end JPV.Proofs.Sv
