"""The common exploration step: run (query text, document) cases through the real
package, the Lean model (`impl.query`, Tie B) and the RFC oracle (`rfc.query`,
independent of the model), and record disagreements."""
from __future__ import annotations

import json

import model
import real
import wire


def doc_depth(v) -> int:
    if isinstance(v, list):
        return 1 + max((doc_depth(x) for x in v), default=0)
    if isinstance(v, dict):
        return 1 + max((doc_depth(x) for x in v.values()), default=0)
    return 0


def observe_query(env, q, doc):
    """One line describing what the real code does with (q, doc)."""
    line, compiled = real.observe_compile(env, q)
    if compiled is None:
        return line, None
    return real.observe_stream(compiled, doc), compiled


def py_equal_twin(rng, v):
    """a copy that Python's == cannot tell from `v` but that is a DIFFERENT JSON value: true<->1, false<->0, 1<->1.0 swapped
    at a few places (None if there is nothing to swap)"""
    import copy

    w = copy.deepcopy(v)
    spots = []

    def rec(x):
        if isinstance(x, dict):
            for k in x:
                if isinstance(x[k], (bool, int, float)) and x[k] in (0, 1):
                    spots.append((x, k))
                rec(x[k])
        elif isinstance(x, list):
            for i in range(len(x)):
                if isinstance(x[i], (bool, int, float)) and x[i] in (0, 1):
                    spots.append((x, i))
                rec(x[i])

    rec(w)
    if not spots:
        return None
    for c, k in rng.sample(spots, min(len(spots), rng.randint(1, 3))):
        old = c[k]
        c[k] = (int(old) if isinstance(old, bool) else (bool(old) if isinstance(old, int) else int(old))) if rng.random() < 0.8 else float(old)
    return w if wire.enc_json(w) != wire.enc_json(v) else None


def history_stage(res, envdesc, cases, prop, rng=None, limit=250, jobs=8):
    """The property quantifies over every (query, value) — also the ones met by a compiled query that has been
    used before.  For a sample of the cases: compile once; apply; abandon an application half way (find_one, a
    partly consumed finditer); apply to a value beyond the depth limit (an application that ends in an error);
    apply again to the first value (must repeat the first outcome); then edit the very same container object
    in place and apply again (must give the RFC nodelist of the edited value, judged by the oracle)."""
    import copy
    import random

    import checks_api

    rng = rng or random.Random(len(cases))
    env = real.make_env(envdesc)
    eenv = real.enc_env(envdesc)
    step = max(1, len(cases) // limit)
    lines, got = [], []
    deep = None
    for _ in range(int(envdesc["maxDepth"]) + 2 if int(envdesc["maxDepth"]) <= 200 else 0):
        deep = [deep] if deep is not None else [0]
    for q, doc in cases[::step]:
        if not isinstance(doc, (dict, list)):
            continue
        try:
            _line, compiled = real.observe_compile(env, q)
            if compiled is None:
                continue
            live = copy.deepcopy(doc)
            first = real.observe_stream(compiled, live)
            try:
                compiled.find_one(live)
                it = iter(compiled.finditer(live))
                next(it, None)
                del it
            except Exception:  # noqa: BLE001
                pass
            if deep is not None:
                try:
                    compiled.find(deep)
                except Exception:  # noqa: BLE001
                    pass
            again = real.observe_stream(compiled, live)
            if deep is not None and int(envdesc["maxDepth"]) <= 200:
                # after an application that ended in the recursion error: a value nested EXACTLY as deep as the limit allows
                # is still within the limit (whatever the traversal counts, it counts per application)
                edge = 0
                for _ in range(int(envdesc["maxDepth"])):
                    edge = [edge]
                rl_edge = real.observe_stream(compiled, edge)
                if rl_edge.endswith("err JSONPathRecursionError"):
                    res.violations.append({"property": prop, "query": q, "document": f"[[...[0]...]] nested {envdesc['maxDepth']} deep (the limit)", "env": envdesc,
                                           "observed": "JSONPathRecursionError", "expected": "a result",
                                           "history": "compile once; find; find on a value nested beyond the limit (raises); find on a value nested exactly at the limit",
                                           "what": "after an application that raised, a value within the limit raises JSONPathRecursionError"})
        except RecursionError:
            continue
        res.evaluations += 1
        if again != first:
            res.violations.append({"property": prop, "query": q, "document": doc, "env": envdesc,
                                   "observed": again[:300], "expected": first[:300],
                                   "history": "compile once; find; find_one; a finditer consumed for one item and dropped; find on a value nested beyond the limit; find again on the first value (shown)",
                                   "what": "a compiled query applied again to the same value gives another outcome than the first time"})
            continue
        twin = py_equal_twin(rng, doc)
        if twin is not None:
            # another object, equal to the first under Python's == (true vs 1, false vs 0): not the same JSON value
            try:
                got.append((q, twin, real.observe_stream(compiled, twin)))
                lines.append(f"rfc.query\t{eenv}\t{wire.enc_str(q)}\t{wire.enc_json(twin)}")
            except RecursionError:
                pass
        for _e in range(2):
            checks_api.edit_in_place(rng, live)
            snap = copy.deepcopy(live)
            try:
                got.append((q, snap, real.observe_stream(compiled, live)))
            except RecursionError:
                break
            lines.append(f"rfc.query\t{eenv}\t{wire.enc_str(q)}\t{wire.enc_json(snap)}")
    if not lines:
        return
    maxdepth = envdesc["maxDepth"]
    for (q, snap, rl), rep in zip(got, model.run_batch_parallel(lines, jobs=jobs)):
        res.evaluations += 1
        if rep.split("\t")[0] != "valid":
            continue
        want = rep.split("\t", 1)[1] if "\t" in rep else ""
        if rl.startswith("stream\t") and rl.endswith("\tend"):
            if rl.split("\t")[1] != want:
                res.violations.append({"property": prop, "query": q, "document": snap, "env": envdesc,
                                       "observed": rl.split("\t")[1][:300], "expected": want[:300],
                                       "history": "compile once; apply to a value; then apply to the value shown (the same container edited in place, or another object that Python's == cannot tell from the first)",
                                       "what": "a reused compiled query does not return the RFC 9535 nodelist of the value it is applied to"})
        elif rl.endswith("err JSONPathRecursionError") and doc_depth(snap) > maxdepth:
            pass
        else:
            res.violations.append({"property": prop, "query": q, "document": snap, "env": envdesc,
                                   "observed": rl[:300], "expected": want[:300],
                                   "history": "compile once; apply; edit the same container object in place; apply again (second result shown)",
                                   "what": "a reused compiled query raises on a value the RFC gives a nodelist for"})
    res.count("history-stage-cases", len(lines))


def sweep(res, envdesc, cases, prop, jobs=8, check_ast_iter=True, expect_valid=False, history=True):
    """cases: list of (query_text, doc). Fills `res` (framework.CheckResult)."""
    if not cases:
        return
    if history:
        history_stage(res, envdesc, cases, prop, jobs=jobs)
    env = real.make_env(envdesc)
    eenv = real.enc_env(envdesc)
    lines = []
    plan = []  # (kind, case index)
    real_lines = []
    for i, (q, doc) in enumerate(cases):
        try:
            rl, compiled = observe_query(env, q, doc)
        except RecursionError:
            res.infra.append(f"interpreter RecursionError on {q!r}")
            rl, compiled = "PY:RecursionError", None
        real_lines.append(rl)
        eq = wire.enc_str(q)
        ed = wire.enc_json(doc)
        lines.append(f"impl.query\t{eenv}\t{eq}\t{ed}")
        plan.append(("impl", i))
        lines.append(f"rfc.query\t{eenv}\t{eq}\t{ed}")
        plan.append(("rfc", i))
        if check_ast_iter and compiled is not None:
            try:
                a = real.ast_query(compiled)
                lines.append(f"iter\t{eenv}\t{a}\t{ed}")
                plan.append(("iter", i))
            except real.UnknownShape as err:
                res.count("ast-extraction-failed")
                res.notes.append(f"AST extraction failed: {err}") if len(res.notes) < 3 else None
    replies = model.run_batch_parallel(lines, jobs=jobs)
    maxdepth = envdesc["maxDepth"]
    for (kind, i), rep in zip(plan, replies):
        q, doc = cases[i]
        rl = real_lines[i]
        if kind == "impl":
            res.evaluations += 1
            if rep != rl:
                res.mismatches.append(
                    {"op": "impl.query", "query": q, "document": doc, "model": rep, "real": rl}
                )
            if rl.startswith("stream\t") and rl.endswith("\tend"):
                body = rl.split("\t")[1]
                res.count("ok-nonempty" if body else "ok-empty")
                if body:
                    res.nontrivial.add((q, json.dumps(doc, sort_keys=True, default=str)))
                    res.sample({"query": q, "document": doc, "result": body[:200]})
            elif rl.startswith("err "):
                res.count("compile-" + rl.split(" ")[1])
            else:
                res.count("eval-" + rl.split("\t")[-1])
        elif kind == "iter":
            if rep != rl:
                res.mismatches.append(
                    {"op": "iter", "query": q, "document": doc, "model": rep, "real": rl}
                )
        else:  # rfc oracle
            verdict = rep.split("\t")[0]
            res.count("oracle-" + verdict)
            if verdict == "valid":
                want = rep.split("\t", 1)[1] if "\t" in rep else ""
                if rl.startswith("stream\t") and rl.endswith("\tend"):
                    got = rl.split("\t")[1]
                    if got != want:
                        res.violations.append(
                            {"property": prop, "query": q, "document": doc, "env": envdesc,
                             "observed": got, "expected": want, "what": "find() differs from the RFC 9535 nodelist"}
                        )
                elif rl.endswith("err JSONPathRecursionError") and doc_depth(doc) > maxdepth:
                    res.count("beyond-depth-limit")
                elif rl.startswith("err "):
                    res.violations.append(
                        {"property": prop if prop in ("C03", "C05") else "C03", "query": q, "document": doc, "env": envdesc,
                         "observed": rl, "expected": "compiles (valid RFC 9535 query)",
                         "what": "a valid query was rejected by compile()"}
                    )
                else:
                    res.violations.append(
                        {"property": prop, "query": q, "document": doc, "env": envdesc,
                         "observed": rl, "expected": want, "what": "evaluation of a valid query raised"}
                    )
            elif verdict == "invalid":
                if expect_valid:
                    res.count("generator-invalid")
                if not rl.startswith("err JSONPath"):
                    res.violations.append(
                        {"property": "C04" if rep.endswith("ungrammatical") else "C05", "query": q, "document": doc,
                         "env": envdesc, "observed": rl[:300], "expected": "compile() raises a JSONPathError",
                         "what": "a query outside RFC 9535 was accepted (or raised a non-JSONPath exception)"}
                    )
            elif verdict == "disputed":
                pass
            else:
                res.infra.append(f"oracle reply {rep[:80]!r}")


# ---------------------------------------------------------------------------------------------
# shrinking a failing (query, document) case


def _doc_candidates(doc):
    """smaller documents: drop one element/member, replace one subtree by null or by one of its children"""
    out = []

    def rec(v, rebuild):
        if isinstance(v, list):
            for i in range(len(v)):
                out.append(rebuild(v[:i] + v[i + 1 :]))
                rec(v[i], lambda x, i=i, v=v: rebuild(v[:i] + [x] + v[i + 1 :]))
        elif isinstance(v, dict):
            keys = list(v.keys())
            for k in keys:
                out.append(rebuild({kk: vv for kk, vv in v.items() if kk != k}))
                rec(v[k], lambda x, k=k, v=v: rebuild({kk: (x if kk == k else vv) for kk, vv in v.items()}))
        if isinstance(v, (list, dict)) and v:
            for child in (v if isinstance(v, list) else v.values()):
                out.append(rebuild(child))
        if v not in (None, 0, ""):
            if isinstance(v, (list, dict)) and not v:
                return
            out.append(rebuild(None if not isinstance(v, (int, float)) or isinstance(v, bool) else 0))

    rec(doc, lambda x: x)
    return out


def _query_candidates(q):
    out = []
    n = len(q)
    for size in (8, 4, 2, 1):
        if size >= n:
            continue
        for i in range(1, n - size + 1, max(1, size // 2)):
            out.append(q[:i] + q[i + size :])
    return out


def shrink(envdesc, q, doc, prop, rounds=6, per_round=80):
    """greedy delta debugging: keep any smaller (query, document) on which a violation is still reported"""
    import framework as fw

    best = (q, doc)
    for _ in range(rounds):
        cands = [(best[0], d) for d in _doc_candidates(best[1])][:per_round]
        cands += [(qq, best[1]) for qq in _query_candidates(best[0])][: per_round // 2]
        if not cands:
            break
        res = fw.CheckResult()
        try:
            sweep(res, envdesc, cands, prop, check_ast_iter=False, history=False)
        except Exception:  # noqa: BLE001
            break
        failing = {(v["query"], json.dumps(v["document"], sort_keys=True, default=str)) for v in res.violations
                   if v.get("what", "").startswith(("find() differs", "evaluation of a valid", "a valid query", "a query outside"))}
        nxt = None
        for c in cands:
            key = (c[0], json.dumps(c[1], sort_keys=True, default=str))
            if key in failing:
                size = len(c[0]) + len(json.dumps(c[1], default=str))
                if nxt is None or size < nxt[0]:
                    nxt = (size, c)
        if nxt is None or nxt[0] >= len(best[0]) + len(json.dumps(best[1], default=str)):
            break
        best = nxt[1]
    return best
