import JPV.Props.Common
import JPV.Proofs.Compare
import JPV.Proofs.Slice
import JPV.Proofs.Visit
/-
Auxiliary lemmas for `Proofs/Eval.lean`: streams, selectors on one node,
well-formedness / depth of children and descendants.
-/
namespace JPV.Proofs
open JPV JPV.Props

/-! ### Streams -/

theorem append_none (a b : List Node) (e : Option Impl.ErrKind) :
    Impl.Stream.append (a, none) (b, e) = (a ++ b, e) := rfl

theorem bindList_eq (ns : List Node) (f : Node → Impl.Stream) (g : Node → List Node)
    (h : ∀ n ∈ ns, f n = (g n, none)) :
    Impl.Stream.bindList ns f = (ns.flatMap g, none) := by
  induction ns with
  | nil => rfl
  | cons n rest ih =>
    have h1 := h n (by simp)
    have h2 := ih (fun x hx => h x (by simp [hx]))
    simp only [Impl.Stream.bindList, h1, h2, append_none, List.flatMap_cons]

theorem bind_eq (ns : List Node) (f : Node → Impl.Stream) (g : Node → List Node)
    (h : ∀ n ∈ ns, f n = (g n, none)) :
    Impl.Stream.bind (ns, none) f = (ns.flatMap g, none) := by
  simp only [Impl.Stream.bind, bindList_eq ns f g h, append_none, List.append_nil]

theorem filterChildren_eq (cs : List Node) (test : Json → Except Impl.ErrKind Bool) (p : Node → Bool)
    (h : ∀ c ∈ cs, test c.val = .ok (p c)) :
    Impl.filterChildren cs test = (cs.filter p, none) := by
  induction cs with
  | nil => rfl
  | cons c rest ih =>
    have h1 := h c (by simp)
    have h2 := ih (fun x hx => h x (by simp [hx]))
    simp only [Impl.filterChildren, h1, h2]
    cases hp : p c <;> simp [Impl.Stream.cons, hp]

theorem flatMap_filter_of_nil {α β} (l : List α) (p : α → Bool) (g : α → List β)
    (h : ∀ x ∈ l, p x = false → g x = []) :
    (l.filter p).flatMap g = l.flatMap g := by
  induction l with
  | nil => rfl
  | cons x rest ih =>
    have ih' := ih (fun y hy => h y (by simp [hy]))
    cases hp : p x
    · simp [hp, ih', h x (by simp) hp]
    · simp [hp, ih']

/-! ### Children of a JSON value -/

/-- the immediate sub-values -/
def kids : Json → List Json
  | .arr xs => xs
  | .obj kvs => kvs.map Prod.snd
  | _ => []

theorem wfArr_mem {xs : List Json} (h : Json.WFArr xs) : ∀ x ∈ xs, x.WF := by
  induction xs with
  | nil => simp
  | cons y ys ih =>
    simp only [Json.WFArr] at h
    intro x hx
    rcases List.mem_cons.1 hx with rfl | hx
    · exact h.1
    · exact ih h.2 x hx

theorem wfObj_mem {kvs : List (Str × Json)} (h : Json.WFObj kvs) : ∀ p ∈ kvs, p.2.WF := by
  induction kvs with
  | nil => simp
  | cons y ys ih =>
    obtain ⟨k, v⟩ := y
    simp only [Json.WFObj] at h
    intro x hx
    rcases List.mem_cons.1 hx with rfl | hx
    · exact h.1
    · exact ih h.2 x hx

theorem depthArr_mem {xs : List Json} : ∀ x ∈ xs, x.depth ≤ Json.depthArr xs := by
  induction xs with
  | nil => simp
  | cons y ys ih =>
    intro x hx
    simp only [Json.depthArr]
    rcases List.mem_cons.1 hx with rfl | hx
    · omega
    · have := ih x hx; omega

theorem depthObj_mem {kvs : List (Str × Json)} : ∀ p ∈ kvs, p.2.depth ≤ Json.depthObj kvs := by
  induction kvs with
  | nil => simp
  | cons y ys ih =>
    obtain ⟨k, v⟩ := y
    intro x hx
    simp only [Json.depthObj]
    rcases List.mem_cons.1 hx with rfl | hx
    · simp only; omega
    · have := ih x hx; omega

theorem kids_wf {j : Json} (h : j.WF) : ∀ c ∈ kids j, c.WF := by
  cases j with
  | arr xs => simp only [Json.WF] at h; exact wfArr_mem h
  | obj kvs =>
    simp only [Json.WF] at h
    intro c hc
    simp only [kids, List.mem_map] at hc
    obtain ⟨p, hp, rfl⟩ := hc
    exact wfObj_mem h.2 p hp
  | _ => simp [kids]

theorem kids_depth {j : Json} : ∀ c ∈ kids j, c.depth < j.depth := by
  cases j with
  | arr xs =>
    intro c hc
    have := depthArr_mem (xs := xs) c hc
    simp only [Json.depth]; omega
  | obj kvs =>
    intro c hc
    simp only [kids, List.mem_map] at hc
    obtain ⟨p, hp, rfl⟩ := hc
    have := depthObj_mem p hp
    simp only [Json.depth]; omega
  | _ => simp [kids]

/-- The node invariant: well-formed value of bounded depth. -/
def Good (m : Int) (n : Node) : Prop := n.val.WF ∧ (n.val.depth : Int) ≤ m

def GoodJ (m : Int) (j : Json) : Prop := j.WF ∧ (j.depth : Int) ≤ m

theorem good_kid {m : Int} {j c : Json} (h : GoodJ m j) (hc : c ∈ kids j) : GoodJ m c :=
  ⟨kids_wf h.1 c hc, by have := kids_depth c hc; have := h.2; omega⟩

/-! ### Selectors on one node -/

theorem children_eq (n : Node) : Impl.children n = Spec.children n := by
  unfold Impl.children Spec.children
  cases n.val <;> rfl

theorem lookup_filter {β} (s : Str) (kvs : List (Str × Json)) (f : Json → β)
    (h : (Json.keys kvs).Nodup) :
    (kvs.filter (fun p => p.1 == s)).map (fun p => f p.2) =
      match Json.lookup s kvs with
      | some v => [f v]
      | none => [] := by
  induction kvs with
  | nil => rfl
  | cons p rest ih =>
    obtain ⟨k, v⟩ := p
    simp only [Json.keys, List.map_cons, List.nodup_cons] at h
    have ih' := ih h.2
    by_cases hk : k = s
    · subst hk
      have hnone : rest.filter (fun p => p.1 == k) = [] := by
        rw [List.filter_eq_nil_iff]
        intro a ha hak
        simp only [beq_iff_eq] at hak
        exact h.1 (hak ▸ List.mem_map_of_mem ha)
      simp [Json.lookup, hnone]
    · simp only [List.filter_cons, Json.lookup, hk, beq_iff_eq, if_false]
      exact ih'

theorem selName_eq (s : Str) (n : Node) (h : n.val.WF) : Impl.selName s n = Spec.selName s n := by
  unfold Impl.selName Spec.selName
  cases hv : n.val with
  | obj kvs =>
    rw [hv] at h
    simp only [Json.WF] at h
    simp only
    rw [lookup_filter s kvs (fun v => Spec.child n (.name s) v) h.1]
    cases Json.lookup s kvs <;> rfl
  | _ => rfl


theorem sel_nofilter (env : Impl.Env) (reg : Spec.Registry) (root : Json) (s : Selector) (n : Node)
    (hs : ∀ e, s ≠ .filter e) (h : n.val.WF) :
    Impl.evalSel env root s n = (Spec.selectSel reg root s n, none) := by
  cases s with
  | name s => simp only [Impl.evalSel, Spec.selectSel, selName_eq s n h]
  | index i => simp only [Impl.evalSel, Spec.selectSel, selIndex_correct]
  | slice a b c => simp only [Impl.evalSel, Spec.selectSel, selSlice_correct]
  | wild => simp only [Impl.evalSel, Spec.selectSel, children_eq]
  | filter e => exact absurd rfl (hs e)

/-! ### Results of selectors are children -/

theorem mem_arrChildren {n : Node} {xs : List Json} {m : Node} (h : m ∈ Spec.arrChildren n xs) :
    m.val ∈ xs := by
  simp only [Spec.arrChildren, List.mem_map] at h
  obtain ⟨p, hp, rfl⟩ := h
  exact (List.of_mem_zip hp).2

theorem mem_children {n m : Node} (h : m ∈ Spec.children n) : m.val ∈ kids n.val := by
  unfold Spec.children at h
  cases hv : n.val with
  | arr xs => rw [hv] at h; exact mem_arrChildren h
  | obj kvs =>
    rw [hv] at h
    simp only [List.mem_map] at h
    obtain ⟨p, hp, rfl⟩ := h
    simp only [kids, List.mem_map]
    exact ⟨p, hp, rfl⟩
  | _ => rw [hv] at h; simp at h

theorem mem_selName {s : Str} {n m : Node} (h : m ∈ Spec.selName s n) : m.val ∈ kids n.val := by
  unfold Spec.selName at h
  cases hv : n.val with
  | obj kvs =>
    rw [hv] at h
    simp only [List.mem_map, List.mem_filter] at h
    obtain ⟨p, hp, rfl⟩ := h
    simp only [kids, List.mem_map]
    exact ⟨p, hp.1, rfl⟩
  | _ => rw [hv] at h; simp at h

theorem mem_selIndex {i : Int} {n m : Node} (h : m ∈ Spec.selIndex i n) : m.val ∈ kids n.val := by
  unfold Spec.selIndex at h
  cases hv : n.val with
  | arr xs =>
    rw [hv] at h
    simp only at h
    split at h
    · simp at h
    · split at h
      · next x hx =>
        simp only [List.mem_singleton] at h
        subst h
        exact List.mem_of_getElem? hx
      · simp at h
  | _ => rw [hv] at h; simp at h

theorem mem_selSlice {a b c : Option Int} {n m : Node} (h : m ∈ Spec.selSlice a b c n) :
    m.val ∈ kids n.val := by
  unfold Spec.selSlice at h
  cases hv : n.val with
  | arr xs =>
    rw [hv] at h
    simp only [List.mem_filterMap] at h
    obtain ⟨i, _, hi⟩ := h
    split at hi
    · simp at hi
    · cases hx : xs[i.toNat]? with
      | none => rw [hx] at hi; simp at hi
      | some x =>
        rw [hx] at hi
        simp only [Option.map_some, Option.some.injEq] at hi
        subst hi
        exact List.mem_of_getElem? hx
  | _ => rw [hv] at h; simp at h

theorem mem_selectSel {reg : Spec.Registry} {root : Json} {s : Selector} {n m : Node}
    (h : m ∈ Spec.selectSel reg root s n) : m.val ∈ kids n.val := by
  cases s with
  | name s => exact mem_selName (by simpa only [Spec.selectSel] using h)
  | index i => exact mem_selIndex (by simpa only [Spec.selectSel] using h)
  | slice a b c => exact mem_selSlice (by simpa only [Spec.selectSel] using h)
  | wild => exact mem_children (by simpa only [Spec.selectSel] using h)
  | filter e =>
    simp only [Spec.selectSel, List.mem_filter] at h
    exact mem_children h.1

theorem mem_selectSels {reg : Spec.Registry} {root : Json} {ss : List Selector} {n m : Node}
    (h : m ∈ Spec.selectSels reg root ss n) : m.val ∈ kids n.val := by
  induction ss with
  | nil => simp [Spec.selectSels] at h
  | cons s ss ih =>
    simp only [Spec.selectSels, List.mem_append] at h
    rcases h with h | h
    · exact mem_selectSel h
    · exact ih h

theorem selectSels_good {reg : Spec.Registry} {root : Json} {ss : List Selector} {n m : Node} {mx : Int}
    (hn : Good mx n) (h : m ∈ Spec.selectSels reg root ss n) : Good mx m :=
  good_kid (j := n.val) hn (mem_selectSels h)

/-! ### Scalars select nothing -/

theorem kids_scalar {j : Json} (h : j.isContainer = false) : kids j = [] := by
  cases j <;> simp_all [kids, Json.isContainer]

theorem spec_sels_scalar (reg : Spec.Registry) (root : Json) (ss : List Selector) (n : Node)
    (h : n.val.isContainer = false) : Spec.selectSels reg root ss n = [] := by
  apply List.eq_nil_iff_forall_not_mem.2
  intro m hm
  have := mem_selectSels hm
  rw [kids_scalar h] at this
  simp at this

theorem impl_children_scalar (n : Node) (h : n.val.isContainer = false) : Impl.children n = [] := by
  unfold Impl.children
  cases hv : n.val <;> simp_all [Json.isContainer]

theorem impl_sel_scalar (env : Impl.Env) (root : Json) (s : Selector) (n : Node)
    (h : n.val.isContainer = false) : Impl.evalSel env root s n = ([], none) := by
  cases s with
  | name s =>
    simp only [Impl.evalSel, Impl.selName]
    cases hv : n.val <;> simp_all [Json.isContainer]
  | index i =>
    simp only [Impl.evalSel, Impl.selIndex]
    cases hv : n.val <;> simp_all [Json.isContainer]
  | slice a b c =>
    simp only [Impl.evalSel, Impl.selSlice]
    cases hv : n.val <;> simp_all [Json.isContainer]
  | wild => simp only [Impl.evalSel, impl_children_scalar n h]
  | filter e =>
    simp only [Impl.evalSel, impl_children_scalar n h, Impl.filterChildren]
    rfl

theorem impl_sels_scalar (env : Impl.Env) (root : Json) (ss : List Selector) (n : Node)
    (h : n.val.isContainer = false) : Impl.evalSels env root ss n = ([], none) := by
  induction ss with
  | nil => rfl
  | cons s ss ih =>
    simp only [Impl.evalSels, impl_sel_scalar env root s n h, ih, append_none, List.append_nil]

/-! ### Descendants -/

mutual
theorem desc_good : ∀ (v : Json) (loc : Loc), v.WF →
    ∀ d ∈ Spec.descendants loc v, d.val.WF ∧ d.val.depth ≤ v.depth
  | .arr xs, loc, h => by
    intro d hd
    simp only [Spec.descendants, List.mem_cons] at hd
    rcases hd with rfl | hd
    · exact ⟨h, Nat.le_refl _⟩
    · simp only [Json.WF] at h
      have := descArr_good xs loc 0 h d hd
      simp only [Json.depth]
      exact ⟨this.1, by omega⟩
  | .obj kvs, loc, h => by
    intro d hd
    simp only [Spec.descendants, List.mem_cons] at hd
    rcases hd with rfl | hd
    · exact ⟨h, Nat.le_refl _⟩
    · simp only [Json.WF] at h
      have := descObj_good kvs loc h.2 d hd
      simp only [Json.depth]
      exact ⟨this.1, by omega⟩
  | .null, loc, h => by
    intro d hd; simp only [Spec.descendants, List.mem_singleton] at hd; subst hd; exact ⟨h, Nat.le_refl _⟩
  | .bool _, loc, h => by
    intro d hd; simp only [Spec.descendants, List.mem_singleton] at hd; subst hd; exact ⟨h, Nat.le_refl _⟩
  | .num _, loc, h => by
    intro d hd; simp only [Spec.descendants, List.mem_singleton] at hd; subst hd; exact ⟨h, Nat.le_refl _⟩
  | .str _, loc, h => by
    intro d hd; simp only [Spec.descendants, List.mem_singleton] at hd; subst hd; exact ⟨h, Nat.le_refl _⟩
theorem descArr_good : ∀ (xs : List Json) (loc : Loc) (i : Nat), Json.WFArr xs →
    ∀ d ∈ Spec.descArr loc i xs, d.val.WF ∧ d.val.depth ≤ Json.depthArr xs
  | [], loc, i, h => by simp [Spec.descArr]
  | x :: xs, loc, i, h => by
    intro d hd
    simp only [Json.WFArr] at h
    simp only [Spec.descArr, List.mem_append] at hd
    simp only [Json.depthArr]
    rcases hd with hd | hd
    · have := desc_good x _ h.1 d hd
      exact ⟨this.1, by omega⟩
    · have := descArr_good xs loc (i + 1) h.2 d hd
      exact ⟨this.1, by omega⟩
theorem descObj_good : ∀ (kvs : List (Str × Json)) (loc : Loc), Json.WFObj kvs →
    ∀ d ∈ Spec.descObj loc kvs, d.val.WF ∧ d.val.depth ≤ Json.depthObj kvs
  | [], loc, h => by simp [Spec.descObj]
  | (k, x) :: rest, loc, h => by
    intro d hd
    simp only [Json.WFObj] at h
    simp only [Spec.descObj, List.mem_append] at hd
    simp only [Json.depthObj]
    rcases hd with hd | hd
    · have := desc_good x _ h.1 d hd
      exact ⟨this.1, by omega⟩
    · have := descObj_good rest loc h.2 d hd
      exact ⟨this.1, by omega⟩
end

theorem descendants_good {mx : Int} {n d : Node} (hn : Good mx n)
    (hd : d ∈ Spec.descendants n.loc n.val) : Good mx d := by
  have := desc_good n.val n.loc hn.1 d hd
  exact ⟨this.1, by have := hn.2; omega⟩

/-! ### Segments, given agreement of the selector list on good nodes -/

def SelsAgree (env : Impl.Env) (reg : Spec.Registry) (root : Json) (mx : Int) (ss : List Selector) : Prop :=
  ∀ n, Good mx n → Impl.evalSels env root ss n = (Spec.selectSels reg root ss n, none)

theorem seg_child_eq {env : Impl.Env} {reg : Spec.Registry} {root : Json} {mx : Int} {ss : List Selector}
    (hs : SelsAgree env reg root mx ss) (ns : List Node) (hns : ∀ n ∈ ns, Good mx n) :
    Impl.evalSeg env root (.child ss) (ns, none) = (Spec.selectSeg reg root (.child ss) ns, none) := by
  simp only [Impl.evalSeg, Spec.selectSeg]
  exact bind_eq ns _ _ (fun n hn => hs n (hns n hn))

theorem seg_desc_eq {env : Impl.Env} {reg : Spec.Registry} {root : Json} {mx : Int} {ss : List Selector}
    (hs : SelsAgree env reg root mx ss) (hmx : mx ≤ env.maxDepth) (h1 : 1 ≤ env.maxDepth)
    (ns : List Node) (hns : ∀ n ∈ ns, Good mx n) :
    Impl.evalSeg env root (.desc ss) (ns, none) = (Spec.selectSeg reg root (.desc ss) ns, none) := by
  simp only [Impl.evalSeg, Spec.selectSeg]
  apply bind_eq
  intro n hn
  have hg := hns n hn
  rw [visit_complete env.maxDepth n.loc n.val (by have := hg.2; omega) h1]
  rw [bind_eq _ _ (Spec.selectSels reg root ss)]
  · rw [flatMap_filter_of_nil]
    intro d _ hp
    simp only [Bool.or_eq_false_iff] at hp
    exact spec_sels_scalar reg root ss d hp.1
  · intro d hd
    exact hs d (descendants_good hg (List.mem_filter.1 hd).1)

theorem selectSeg_good {reg : Spec.Registry} {root : Json} {mx : Int} (seg : Segment) (ns : List Node)
    (hns : ∀ n ∈ ns, Good mx n) : ∀ m ∈ Spec.selectSeg reg root seg ns, Good mx m := by
  intro m hm
  cases seg with
  | child ss =>
    simp only [Spec.selectSeg, List.mem_flatMap] at hm
    obtain ⟨n, hn, hm⟩ := hm
    exact selectSels_good (hns n hn) hm
  | desc ss =>
    simp only [Spec.selectSeg, List.mem_flatMap] at hm
    obtain ⟨n, hn, d, hd, hm⟩ := hm
    exact selectSels_good (descendants_good (hns n hn) hd) hm

theorem selectFrom_good {reg : Spec.Registry} {root : Json} {mx : Int} (q : List Segment) :
    ∀ (ns : List Node), (∀ n ∈ ns, Good mx n) → ∀ m ∈ Spec.selectFrom reg root q ns, Good mx m := by
  induction q with
  | nil => intro ns hns; simpa only [Spec.selectFrom] using hns
  | cons seg q ih =>
    intro ns hns
    simp only [Spec.selectFrom]
    exact ih _ (selectSeg_good seg ns hns)

/-! ### Filter-free queries -/

theorem sels_filterFree (env : Impl.Env) (reg : Spec.Registry) (root : Json) (ss : List Selector)
    (hf : Spec.filterFreeSels ss = true) (n : Node) (h : n.val.WF) :
    Impl.evalSels env root ss n = (Spec.selectSels reg root ss n, none) := by
  induction ss with
  | nil => rfl
  | cons s ss ih =>
    have hs : ∀ e, s ≠ .filter e := by
      intro e he; subst he; simp [Spec.filterFreeSels] at hf
    have hf' : Spec.filterFreeSels ss = true := by
      cases s <;> simp_all [Spec.filterFreeSels]
    simp only [Impl.evalSels, Spec.selectSels, sel_nofilter env reg root s n hs h, ih hf', append_none]

theorem segs_filterFree (env : Impl.Env) (reg : Spec.Registry) (root : Json) (mx : Int) (q : List Segment)
    (hf : Spec.filterFree q = true)
    (hd : (∀ seg ∈ q, ∀ ss, seg ≠ .desc ss) ∨ (mx ≤ env.maxDepth ∧ 1 ≤ env.maxDepth)) :
    ∀ (ns : List Node), (∀ n ∈ ns, Good mx n) →
      Impl.evalSegs env root q (ns, none) = (Spec.selectFrom reg root q ns, none) := by
  induction q with
  | nil => intro ns _; rfl
  | cons seg q ih =>
    intro ns hns
    simp only [Spec.filterFree, List.all_cons, Bool.and_eq_true] at hf
    have hd' : (∀ seg ∈ q, ∀ ss, seg ≠ .desc ss) ∨ (mx ≤ env.maxDepth ∧ 1 ≤ env.maxDepth) := by
      rcases hd with hd | hd
      · exact .inl (fun s hs => hd s (by simp [hs]))
      · exact .inr hd
    have hseg : Impl.evalSeg env root seg (ns, none) = (Spec.selectSeg reg root seg ns, none) := by
      cases seg with
      | child ss =>
        exact seg_child_eq (fun n hn => sels_filterFree env reg root ss hf.1 n hn.1) ns hns
      | desc ss =>
        rcases hd with hd | hd
        · exact absurd rfl (hd _ (by simp) ss)
        · exact seg_desc_eq (fun n hn => sels_filterFree env reg root ss hf.1 n hn.1) hd.1 hd.2 ns hns
    simp only [Impl.evalSegs, Spec.selectFrom, hseg]
    exact ih hf.2 hd' _ (selectSeg_good seg ns hns)


/-! ### Representation of typed results as dynamically typed objects -/

/-- `o` is what a well-typed comparable evaluates to when its RFC value is `v` -/
inductive ValRep : Impl.Obj → Spec.Val → Prop
  | empty : ValRep (.nodes []) none
  | one (n : Node) : n.val.WF → ValRep (.nodes [n]) (some n.val)
  | nothing : ValRep .nothing none
  | val (j : Json) : j.WF → ValRep (.val j) (some j)

theorem ValRep.comparand {o v} (h : ValRep o v) :
    Comparand (Impl.unwrap1 o) ∧ ObjWF (Impl.unwrap1 o) ∧ floorObj (Impl.unwrap1 o) = v := by
  cases h with
  | empty => exact ⟨.emptyNodes, trivial, rfl⟩
  | one n hn => exact ⟨.val _, hn, rfl⟩
  | nothing => exact ⟨.nothing, trivial, rfl⟩
  | val j hj => exact ⟨.val _, hj, rfl⟩

theorem ValRep.unpack {o v} (h : ValRep o v) : Impl.unpack1 .value o = valObj v := by
  cases h <;> rfl

theorem ValRep.argWF {o v} (h : ValRep o v) : ArgWF (.value v) := by
  cases h with
  | empty => trivial
  | one n hn => exact hn
  | nothing => trivial
  | val j hj => exact hj

/-- `o` is what a well-typed test expression evaluates to when its truth value is `b` -/
def TestRep (o : Impl.Obj) (b : Bool) : Prop :=
  o = .val (.bool b) ∨ ∃ ns, o = .nodes ns ∧ b = !ns.isEmpty

theorem TestRep.truthy {o b} (h : TestRep o b) : Impl.truthy o = b := by
  rcases h with rfl | ⟨ns, rfl, rfl⟩ <;> rfl

theorem TestRep.unpack {o b} (h : TestRep o b) : Impl.unpack1 .logical o = .val (.bool b) := by
  rcases h with rfl | ⟨ns, rfl, rfl⟩ <;> rfl

theorem scalar_wf {j : Json} (h : j.isScalar = true) : j.WF := by
  cases j <;> simp_all [Json.isScalar, Json.WF]

/-! ### Typed function results -/

theorem testRep_of_ty {a : Spec.Arg} {t : Ty} (h : argTy a = t) (ht : t = .logical ∨ t = .nodes) :
    TestRep (argObj a) a.asLogical := by
  cases a with
  | value v => subst h; simp [argTy] at ht
  | logical b => exact .inl rfl
  | nodes ns => exact .inr ⟨ns, rfl, rfl⟩

theorem valRep_of_ty {a : Spec.Arg} (h : argTy a = .value) (hwf : ArgWF a) :
    ValRep (argObj a) a.asValue := by
  cases a with
  | value v =>
    cases v with
    | none => exact .nothing
    | some j => exact .val j hwf
  | logical b => simp [argTy] at h
  | nodes ns => simp [argTy] at h

theorem nodes_of_ty {a : Spec.Arg} (h : argTy a = .nodes) : argObj a = .nodes a.asNodes := by
  cases a <;> simp_all [argTy, argObj, Spec.Arg.asNodes]

theorem nodesWF_of_ty {a : Spec.Arg} (hwf : ArgWF a) : ∀ n ∈ a.asNodes, n.val.WF := by
  cases a with
  | nodes ns => exact hwf
  | _ => simp [Spec.Arg.asNodes]

theorem call_ok {env : Impl.Env} {reg : Spec.Registry} {root cur : Json} {name : Str} {args : List Expr}
    (hc : EnvConforms env reg) {fn : Spec.Fn} (hreg : reg name = some fn) {A : List Spec.Arg}
    (hargs : ∃ os, Impl.evalArgs env root cur args = .ok os ∧
      Impl.unpack fn.argTypes os = .ok (A.map argObj))
    (hty : A.map argTy = fn.argTypes) (hwf : ∀ a ∈ A, ArgWF a) :
    Impl.evalExpr env root cur (.call name args) = .ok (argObj (fn.sem A)) ∧
      argTy (fn.sem A) = fn.ret ∧ ArgWF (fn.sem A) := by
  have h := hc name
  rw [hreg] at h
  cases hf : env.func name with
  | none => rw [hf] at h; exact h.elim
  | some f =>
    rw [hf] at h
    have conf : Conforms f fn := h
    obtain ⟨os, h1, h2⟩ := hargs
    refine ⟨?_, conf.retTy A hty, conf.retWF A hty hwf⟩
    simp only [Impl.evalExpr, hf, h1, conf.argTypes]
    show (Impl.unpack fn.argTypes os >>= fun as' => f.body as') = _
    rw [h2]
    exact conf.body A hty

theorem sigsOf_some {reg : Spec.Registry} {f : Str} {fn : Spec.Fn} (h : reg f = some fn) :
    sigsOf reg f = some ⟨fn.argTypes, fn.ret⟩ := by simp [sigsOf, h]

theorem sigsOf_none {reg : Spec.Registry} {f : Str} (h : reg f = none) :
    sigsOf reg f = none := by simp [sigsOf, h]

/-! ### Singular queries -/

theorem isSingular_cases {seg : Segment} (h : seg.isSingular = true) :
    (∃ s, seg = .child [.name s]) ∨ (∃ i, seg = .child [.index i]) := by
  unfold Segment.isSingular at h
  split at h <;> simp_all

theorem selName_length (s : Str) (n : Node) (h : n.val.WF) : (Spec.selName s n).length ≤ 1 := by
  rw [← selName_eq s n h]
  unfold Impl.selName
  cases n.val with
  | obj kvs => simp only; cases Json.lookup s kvs <;> simp
  | _ => simp

theorem selIndex_length (i : Int) (n : Node) : (Spec.selIndex i n).length ≤ 1 := by
  unfold Spec.selIndex
  cases n.val with
  | arr xs =>
    simp only
    split
    · simp
    · split <;> simp
  | _ => simp

theorem singular_length {reg : Spec.Registry} {root : Json} {mx : Int} (q : List Segment)
    (hq : Query.isSingular q = true) :
    ∀ ns : List Node, (∀ n ∈ ns, Good mx n) → ns.length ≤ 1 →
      (Spec.selectFrom reg root q ns).length ≤ 1 := by
  induction q with
  | nil => intro ns _ h; simpa only [Spec.selectFrom] using h
  | cons seg q ih =>
    intro ns hns hlen
    simp only [Query.isSingular, List.all_cons, Bool.and_eq_true] at hq
    simp only [Spec.selectFrom]
    apply ih hq.2 _ (selectSeg_good seg ns hns)
    match ns, hns, hlen with
    | [], _, _ => cases seg <;> simp [Spec.selectSeg]
    | [n], hns, _ =>
      have hn := hns n (List.mem_singleton.2 rfl)
      rcases isSingular_cases hq.1 with ⟨s, rfl⟩ | ⟨i, rfl⟩
      · simpa [Spec.selectSeg, Spec.selectSels, Spec.selectSel] using selName_length s n hn.1
      · simpa [Spec.selectSeg, Spec.selectSels, Spec.selectSel] using selIndex_length i n

theorem valRep_of_nodes (ns : List Node) : ns.length ≤ 1 → (∀ n ∈ ns, n.val.WF) →
    ValRep (.nodes ns) (match ns with | [n] => some n.val | _ => none) := by
  intro hlen hwf
  match ns, hlen, hwf with
  | [], _, _ => exact .empty
  | [n], _, hwf => exact .one n (hwf n (List.mem_singleton.2 rfl))

end JPV.Proofs
