/-
`intLit` and `numberSpelling` against the ABNF rules `int` and `number`.
-/
import JPV.Proofs.Abnf.LexMisc
namespace JPV.Proofs.AbnfP
open JPV JPV.Spec

theorem isDIGIT_of_isDIGIT1 {c : Char} (h : isDIGIT1 c = true) : isDIGIT c = true := by
  simp only [isDIGIT1, isDIGIT, Bool.and_eq_true, decide_eq_true_eq] at *
  refine ⟨?_, h.2⟩
  exact Char.le_trans (by decide) h.1

theorem ne_zero_of_isDIGIT1 {c : Char} (h : isDIGIT1 c = true) : c ≠ '0' := by
  intro e; subst e; revert h; decide

theorem ne_minus_of_isDIGIT1 {c : Char} (h : isDIGIT1 c = true) : c ≠ '-' := by
  intro e; subst e; revert h; decide

theorem ne_minus_of_isDIGIT {c : Char} (h : isDIGIT c = true) : c ≠ '-' := by
  intro e; subst e; revert h; decide

theorem takeWhile_cons_digit {c : Char} (r : List Char) (hc : isDIGIT c = true) :
    (c :: r).takeWhile isDIGIT = c :: r.takeWhile isDIGIT := by
  simp [hc]

theorem intLit_zero (r : List Char) : intLit ('0' :: r) = some (0, r) := rfl

theorem intLit_pos_eq {c : Char} (r : List Char) (hc : isDIGIT1 c = true) :
    intLit (c :: r) = some ((Py.digitsToNat (c :: r.takeWhile isDIGIT) : Int),
      r.drop (r.takeWhile isDIGIT).length) := by
  have h0 := ne_zero_of_isDIGIT1 hc
  have hm := ne_minus_of_isDIGIT1 hc
  have hd := isDIGIT_of_isDIGIT1 hc
  unfold intLit
  split
  · rename_i e; cases e; exact absurd rfl h0
  · rename_i e; cases e; exact absurd rfl hm
  · rename_i e; cases e
    simp only [hc, if_true, takeWhile_cons_digit _ hd, List.length_cons, List.drop_succ_cons]
  · rename_i e; cases e

theorem intLit_neg_eq {c : Char} (r : List Char) (hc : isDIGIT1 c = true) :
    intLit ('-' :: c :: r) = some (-(Py.digitsToNat (c :: r.takeWhile isDIGIT) : Int),
      r.drop (r.takeWhile isDIGIT).length) := by
  have hd := isDIGIT_of_isDIGIT1 hc
  unfold intLit
  split
  · rename_i e; cases e
  · rename_i e; cases e
    simp only [hc, if_true, takeWhile_cons_digit _ hd, List.length_cons, List.drop_succ_cons]
  · rename_i h1 h2 e; cases e; exact (h2 _ _ rfl rfl).elim
  · rename_i e; cases e

theorem intLit_sound {inp rest : List Char} {i : Int} :
    intLit inp = some (i, rest) → ∃ pre, inp = pre ++ rest ∧ Abnf.IntLit pre i := by
  intro h
  unfold intLit at h
  split at h
  · cases h; exact ⟨['0'], rfl, .zero⟩
  · rename_i c r
    split at h
    · rename_i hc
      have hd := isDIGIT_of_isDIGIT1 hc
      simp only [takeWhile_cons_digit _ hd, List.length_cons, List.drop_succ_cons,
        Option.some.injEq, Prod.mk.injEq] at h
      obtain ⟨rfl, rfl⟩ := h
      refine ⟨'-' :: c :: r.takeWhile isDIGIT, ?_, .neg hc (takeWhile_all _ _)⟩
      simp only [List.cons_append]
      exact congrArg _ (congrArg _ (takeWhile_append_drop _ _))
    · cases h
  · rename_i c r _ _
    split at h
    · rename_i hc
      have hd := isDIGIT_of_isDIGIT1 hc
      simp only [takeWhile_cons_digit _ hd, List.length_cons, List.drop_succ_cons,
        Option.some.injEq, Prod.mk.injEq] at h
      obtain ⟨rfl, rfl⟩ := h
      refine ⟨c :: r.takeWhile isDIGIT, ?_, .pos hc (takeWhile_all _ _)⟩
      simp only [List.cons_append]
      exact congrArg _ (takeWhile_append_drop _ _)
    · cases h
  · cases h

theorem intLit_complete {s : List Char} {i : Int} (h : Abnf.IntLit s i) {R : List Char}
    (hR : HeadP (fun c => isDIGIT c = false) R) : intLit (s ++ R) = some (i, R) := by
  cases h with
  | zero => rfl
  | pos hc hds =>
    rw [List.cons_append, intLit_pos_eq _ hc, takeWhile_append_of_all hds hR, List.drop_left]
  | neg hc hds =>
    rw [List.cons_append, List.cons_append, intLit_neg_eq _ hc, takeWhile_append_of_all hds hR,
      List.drop_left]

theorem intLit_head {s : List Char} {i : Int} (h : Abnf.IntLit s i) :
    ∃ c t, s = c :: t ∧ (isDIGIT c = true ∨ c = '-') := by
  cases h with
  | zero => exact ⟨_, _, rfl, Or.inl (by decide)⟩
  | pos hc hds => exact ⟨_, _, rfl, Or.inl (isDIGIT_of_isDIGIT1 hc)⟩
  | neg hc hds => exact ⟨_, _, rfl, Or.inr rfl⟩

theorem intLit_none_of_head {inp : List Char} (h : ∀ c t, inp = c :: t → isDIGIT c = false ∧ c ≠ '-') :
    intLit inp = none := by
  cases hi : intLit inp with
  | none => rfl
  | some x =>
    obtain ⟨i, rest⟩ := x
    obtain ⟨pre, hpre, hp⟩ := intLit_sound hi
    obtain ⟨c, t, rfl, hc⟩ := intLit_head hp
    obtain ⟨h1, h2⟩ := h c (t ++ rest) hpre
    rcases hc with hc | hc
    · rw [hc] at h1; cases h1
    · exact absurd hc h2

def numIp (inp : List Char) : Option (List Char × List Char) :=
  match inp with
  | '-' :: '0' :: r => some (['-', '0'], r)
  | _ => match intLit inp with
    | some (_, r) => some (inp.take (inp.length - r.length), r)
    | none => none

def numFrac (sp r : List Char) : List Char × List Char :=
  match r with
  | '.' :: d :: r2 =>
    if isDIGIT d then
      let ds := (d :: r2).takeWhile isDIGIT
      (sp ++ ['.'] ++ ds, (d :: r2).drop ds.length)
    else (sp, r)
  | _ => (sp, r)

def numSign (r2 : List Char) : List Char × List Char :=
  match r2 with
  | '+' :: r3 => (['+'], r3)
  | '-' :: r3 => (['-'], r3)
  | _ => ([], r2)

def numExp (sp r : List Char) : List Char × List Char :=
  match r with
  | e :: r2 =>
    if e = 'e' || e = 'E' then
      let ds := (numSign r2).2.takeWhile isDIGIT
      if ds.isEmpty then (sp, r) else (sp ++ [e] ++ (numSign r2).1 ++ ds, (numSign r2).2.drop ds.length)
    else (sp, r)
  | [] => (sp, r)

theorem numberSpelling_eq (inp : List Char) :
    numberSpelling inp = match numIp inp with
      | none => none
      | some (sp, r) => some (numExp (numFrac sp r).1 (numFrac sp r).2) := by
  rfl

theorem numIp_sound {inp sp r : List Char} (h : numIp inp = some (sp, r)) :
    inp = sp ++ r ∧ ((∃ i, Abnf.IntLit sp i) ∨ sp = ['-', '0']) := by
  unfold numIp at h
  split at h
  · simp only [Option.some.injEq, Prod.mk.injEq] at h
    obtain ⟨rfl, rfl⟩ := h
    exact ⟨rfl, Or.inr rfl⟩
  · split at h
    · rename_i i r' hi
      simp only [Option.some.injEq, Prod.mk.injEq] at h
      obtain ⟨rfl, rfl⟩ := h
      obtain ⟨pre, hpre, hp⟩ := intLit_sound hi
      have : inp.take (inp.length - r'.length) = pre := by
        rw [hpre, List.length_append, Nat.add_sub_cancel, List.take_left]
      rw [this]
      exact ⟨hpre, Or.inl ⟨_, hp⟩⟩
    · cases h

theorem numIp_of_intLit {inp r : List Char} {i : Int} (h0 : ∀ r, inp ≠ '-' :: '0' :: r)
    (h : intLit inp = some (i, r)) : numIp inp = some (inp.take (inp.length - r.length), r) := by
  unfold numIp
  split
  · exact absurd rfl (h0 _)
  · rw [h]

theorem numIp_complete {ip : List Char} (h : (∃ i, Abnf.IntLit ip i) ∨ ip = ['-', '0']) {R : List Char}
    (hR : HeadP (fun c => isDIGIT c = false) R) : numIp (ip ++ R) = some (ip, R) := by
  rcases h with ⟨i, h⟩ | rfl
  · have hi := intLit_complete h hR
    have h0 : ∀ r, ip ++ R ≠ '-' :: '0' :: r := by
      intro r e
      cases h with
      | zero => cases e
      | pos hc hds =>
        simp only [List.cons_append, List.cons.injEq] at e
        exact ne_minus_of_isDIGIT1 hc e.1
      | neg hc hds =>
        simp only [List.cons_append, List.cons.injEq] at e
        exact ne_zero_of_isDIGIT1 hc e.2.1
    rw [numIp_of_intLit h0 hi, List.length_append, Nat.add_sub_cancel, List.take_left]
  · rfl

theorem digits1_cons {ds : List Char} (h : Abnf.Digits1 ds) :
    ∃ d t, ds = d :: t ∧ isDIGIT d = true ∧ Abnf.Digits t := by
  obtain ⟨hne, hd⟩ := h
  cases ds with
  | nil => exact absurd rfl hne
  | cons d t => exact ⟨d, t, rfl, hd d List.mem_cons_self, fun x hx => hd x (List.mem_cons_of_mem _ hx)⟩

theorem numFrac_sound (sp r : List Char) :
    ∃ fr, (numFrac sp r).1 = sp ++ fr ∧ r = fr ++ (numFrac sp r).2 ∧ Abnf.OptFrac fr := by
  unfold numFrac
  split
  · rename_i d r2
    split
    · rename_i hd
      refine ⟨'.' :: (d :: r2).takeWhile isDIGIT, ?_, ?_, Or.inr ⟨_, rfl, ?_, takeWhile_all _ _⟩⟩
      · simp only [List.append_assoc, List.cons_append, List.nil_append]
      · simp only [List.cons_append]
        exact congrArg _ (takeWhile_append_drop _ _)
      · rw [takeWhile_cons_digit _ hd]; exact List.cons_ne_nil _ _
    · exact ⟨[], (List.append_nil _).symm, rfl, Or.inl rfl⟩
  · exact ⟨[], (List.append_nil _).symm, rfl, Or.inl rfl⟩

theorem numFrac_complete {fr : List Char} (h : Abnf.OptFrac fr) (sp : List Char) {R : List Char}
    (hR : HeadP (fun c => isDIGIT c = false ∧ c ≠ '.') R) : numFrac sp (fr ++ R) = (sp ++ fr, R) := by
  rcases h with rfl | ⟨ds, rfl, hds⟩
  · simp only [List.nil_append, List.append_nil]
    unfold numFrac
    split
    · exact absurd rfl hR.head.2
    · rfl
  · obtain ⟨d, t, rfl, hd, ht⟩ := digits1_cons hds
    have hall : ∀ x ∈ d :: t, isDIGIT x = true := hds.2
    simp only [List.cons_append, numFrac, hd, if_true]
    have : (d :: (t ++ R)).takeWhile isDIGIT = d :: t := by
      rw [← List.cons_append]
      exact takeWhile_append_of_all hall (hR.mono fun c h => h.1)
    rw [this, ← List.cons_append, List.drop_left]
    simp only [List.append_assoc, List.cons_append, List.nil_append]

theorem numSign_spec (r2 : List Char) :
    r2 = (numSign r2).1 ++ (numSign r2).2 ∧
      ((numSign r2).1 = [] ∨ (numSign r2).1 = ['+'] ∨ (numSign r2).1 = ['-']) := by
  unfold numSign
  split
  · exact ⟨rfl, Or.inr (Or.inl rfl)⟩
  · exact ⟨rfl, Or.inr (Or.inr rfl)⟩
  · exact ⟨rfl, Or.inl rfl⟩

theorem numSign_complete {sg : List Char} (hsg : sg = [] ∨ sg = ['+'] ∨ sg = ['-']) {R : List Char}
    (hR : HeadP (fun c => c ≠ '+' ∧ c ≠ '-') R) : numSign (sg ++ R) = (sg, R) := by
  rcases hsg with rfl | rfl | rfl
  · simp only [List.nil_append]
    unfold numSign
    split
    · exact absurd rfl hR.head.1
    · exact absurd rfl hR.head.2
    · rfl
  · rfl
  · rfl

theorem numExp_sound (sp r : List Char) :
    ∃ ex, (numExp sp r).1 = sp ++ ex ∧ r = ex ++ (numExp sp r).2 ∧ Abnf.OptExp ex := by
  unfold numExp
  split
  · rename_i e r2
    split
    · rename_i he
      simp only []
      split
      · exact ⟨[], (List.append_nil _).symm, rfl, Or.inl rfl⟩
      · rename_i hne
        obtain ⟨h1, h2⟩ := numSign_spec r2
        refine ⟨e :: ((numSign r2).1 ++ (numSign r2).2.takeWhile isDIGIT), ?_, ?_,
          Or.inr ⟨e, _, _, rfl, ?_, h2, ?_, takeWhile_all _ _⟩⟩
        · simp only [List.append_assoc, List.cons_append, List.nil_append]
        · simp only [List.cons_append, List.append_assoc]
          rw [← takeWhile_append_drop, ← h1]
        · simpa using he
        · intro hnil; rw [hnil] at hne; exact hne rfl
    · exact ⟨[], (List.append_nil _).symm, rfl, Or.inl rfl⟩
  · exact ⟨[], (List.append_nil _).symm, rfl, Or.inl rfl⟩

theorem numExp_complete {ex : List Char} (h : Abnf.OptExp ex) (sp : List Char) {R : List Char}
    (hR : HeadP (fun c => isDIGIT c = false ∧ c ≠ 'e' ∧ c ≠ 'E') R) :
    numExp sp (ex ++ R) = (sp ++ ex, R) := by
  rcases h with rfl | ⟨e, sg, ds, rfl, he, hsg, hds⟩
  · simp only [List.nil_append, List.append_nil]
    unfold numExp
    split
    · rename_i e r2
      have := hR.head
      simp [this.2.1, this.2.2]
    · rfl
  · obtain ⟨d, t, rfl, hd, ht⟩ := digits1_cons hds
    have hall : ∀ x ∈ d :: t, isDIGIT x = true := hds.2
    have he' : (e = 'e' || e = 'E') = true := by simpa using he
    have hs : numSign (sg ++ ((d :: t) ++ R)) = (sg, (d :: t) ++ R) := by
      apply numSign_complete hsg
      rw [List.cons_append]
      apply HeadP.cons
      constructor
      · intro e; subst e; revert hd; decide
      · intro e; subst e; revert hd; decide
    have htw : ((d :: t) ++ R).takeWhile isDIGIT = d :: t :=
      takeWhile_append_of_all hall (hR.mono fun c h => h.1)
    have : (e :: (sg ++ d :: t)) ++ R = e :: (sg ++ ((d :: t) ++ R)) := by
      simp only [List.cons_append, List.append_assoc]
    rw [this]
    simp only [numExp, he', if_true, hs, htw, List.isEmpty_cons, Bool.false_eq_true, if_false,
      List.drop_left]
    simp only [List.append_assoc, List.cons_append, List.nil_append]

theorem optExp_head {ex R : List Char} (h : Abnf.OptExp ex) (hR : NumFollow R) :
    HeadP (fun c => isDIGIT c = false ∧ c ≠ '.') (ex ++ R) := by
  rcases h with rfl | ⟨e, sg, ds, rfl, he, _, _⟩
  · exact hR.mono fun c h => ⟨h.1, h.2.1⟩
  · rw [List.cons_append]
    apply HeadP.cons
    rcases he with rfl | rfl <;> exact ⟨by decide, by decide⟩

theorem optFrac_head {fr R : List Char} (h : Abnf.OptFrac fr)
    (hR : HeadP (fun c => isDIGIT c = false ∧ c ≠ '.') R) :
    HeadP (fun c => isDIGIT c = false) (fr ++ R) := by
  rcases h with rfl | ⟨ds, rfl, _⟩
  · exact hR.mono fun c h => h.1
  · rw [List.cons_append]
    exact HeadP.cons (by decide)

theorem numberSpelling_sound {inp rest : List Char} {sp : Str} :
    numberSpelling inp = some (sp, rest) → inp = sp ++ rest ∧ Abnf.NumberSp sp := by
  intro h
  rw [numberSpelling_eq] at h
  split at h
  · cases h
  · rename_i ip r hip
    obtain ⟨h1, h2⟩ := numIp_sound hip
    obtain ⟨fr, hf1, hf2, hf3⟩ := numFrac_sound ip r
    obtain ⟨ex, he1, he2, he3⟩ := numExp_sound (numFrac ip r).1 (numFrac ip r).2
    simp only [Option.some.injEq] at h
    rw [h] at he1 he2
    simp only at he1 he2
    rw [hf1] at he1
    rw [he2] at hf2
    subst he1
    refine ⟨?_, ip, fr, ex, rfl, h2, hf3, he3⟩
    rw [h1, hf2]; simp only [List.append_assoc]

theorem numberSpelling_complete {s : List Char} (h : Abnf.NumberSp s) {R : List Char} (hR : NumFollow R) :
    numberSpelling (s ++ R) = some (s, R) := by
  obtain ⟨ip, fr, ex, rfl, hip, hfr, hex⟩ := h
  have hexR := optExp_head hex hR
  have hfrR := optFrac_head hfr hexR
  have e1 : ip ++ fr ++ ex ++ R = ip ++ (fr ++ (ex ++ R)) := by simp only [List.append_assoc]
  rw [numberSpelling_eq, e1, numIp_complete hip hfrR]
  simp only [numFrac_complete hfr ip hexR]
  rw [numExp_complete hex _ (hR.mono fun c h => ⟨h.1, h.2.2⟩)]

theorem numberSp_head {s : List Char} (h : Abnf.NumberSp s) :
    ∃ c t, s = c :: t ∧ (isDIGIT c = true ∨ c = '-') := by
  obtain ⟨ip, fr, ex, rfl, hip, _, _⟩ := h
  rcases hip with ⟨i, hi⟩ | rfl
  · obtain ⟨c, t, rfl, hc⟩ := intLit_head hi
    exact ⟨c, t ++ fr ++ ex, by simp only [List.cons_append], hc⟩
  · exact ⟨'-', '0' :: (fr ++ ex), by simp only [List.cons_append, List.nil_append], Or.inr rfl⟩

theorem numberSpelling_none_of_head {inp : List Char} (h : ∀ c t, inp = c :: t → isDIGIT c = false ∧ c ≠ '-') :
    numberSpelling inp = none := by
  cases hn : numberSpelling inp with
  | none => rfl
  | some x =>
    obtain ⟨sp, rest⟩ := x
    obtain ⟨hpre, hp⟩ := numberSpelling_sound hn
    obtain ⟨c, t, rfl, hc⟩ := numberSp_head hp
    obtain ⟨h1, h2⟩ := h c (t ++ rest) hpre
    rcases hc with hc | hc
    · rw [hc] at h1; cases h1
    · exact absurd hc h2

end JPV.Proofs.AbnfP
