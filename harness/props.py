"""Registry: for each property, its proof obligations (Lean modules, theorem
names, Tie-A table theorems) and its exploration function."""
from __future__ import annotations

import checks_eval as ce
import checks_text as ct
import checks_api as ca
import checks_cli as cc
import checks_nd as cn
import checks_regex as cr

T = "JPV.Tables."

PROPS = {
    "C01": dict(
        modules=["JPV.Props.C01", "JPV.Props.C07", "JPV.Props.C13", "JPV.Props.C03"],
        theorems=["JPV.Props.C01", "JPV.Props.C01_no_descendant", "JPV.Props.C01_child_concat", "JPV.Props.compile_then_find",
                  "JPV.Props.C01_end_to_end",
                  "JPV.Props.eval_correct", "JPV.Props.C07_slice", "JPV.Props.C07_index"],
        tables=[T + "env_defaults_model", T + "writes_benign"],
        explore=ce.explore_c01,
    ),
    "C02": dict(
        modules=["JPV.Props.C02", "JPV.Props.C06", "JPV.Props.C13", "JPV.Props.C03"],
        theorems=["JPV.Props.eval_correct", "JPV.Props.builtin_conforms", "JPV.Props.C02_builtin", "JPV.Props.compile_then_find",
                  "JPV.Props.C02_end_to_end",
                  "JPV.Props.C02_scalar", "JPV.Props.C02_existence", "JPV.Props.C02_logic", "JPV.Props.C06"],
        tables=[T + "precedences_model", T + "precedence_consts", T + "binary_operators_model",
                T + "token_map_model", T + "function_argument_map_model", T + "builtin_sigs_model"],
        explore=ce.explore_c02,
    ),
    "C06": dict(
        modules=["JPV.Props.C06", "JPV.Props.C02"],
        theorems=["JPV.Props.C06", "JPV.Props.C06_jsonEq", "JPV.Props.C06_jsonEq_refl", "JPV.Props.C06_jsonEq_symm",
                  "JPV.Props.C06_bool_only_bool", "JPV.Props.C06_unordered", "JPV.Props.eval_correct"],
        tables=[T + "binary_operators_model", T + "comparison_operators_model"],
        explore=ce.explore_c06,
    ),
    "C07": dict(
        modules=["JPV.Props.C07"],
        theorems=["JPV.Props.C07_slice", "JPV.Props.C07_index", "JPV.Props.C07_loc_nonneg", "JPV.Props.C07_index_loc",
                  "JPV.Props.C07_step_zero", "JPV.Props.C07_nonarray", "JPV.Props.C07_spec_loops_total"],
        tables=[T + "env_defaults_model"],
        explore=ce.explore_c07,
    ),
    "C10": dict(
        modules=["JPV.Props.C10", "JPV.Props.C02"],
        theorems=["JPV.Props.C10_args", "JPV.Props.C10_length", "JPV.Props.C10_count", "JPV.Props.C10_value",
                  "JPV.Props.C10_result_use", "JPV.Props.builtin_conforms", "JPV.Props.eval_correct"],
        tables=[T + "builtin_sigs_model"],
        explore=ce.explore_c10,
    ),
    "C18": dict(
        modules=["JPV.Props.C18", "JPV.Props.C13", "JPV.Props.C18NdGraph"],
        theorems=["JPV.Props.C18_ndgraph_never_completes", "JPV.Props.C18_ndgraph_cycle_raises", "JPV.Props.C18_ndgraph_fuel_bound", "JPV.Props.C18_ndgraph_yielded",
                  "JPV.Props.C18_ndgraph_outcomes", "JPV.Props.C18_ndgraph_d30_det", "JPV.Props.C18_ndgraph_d30_raises", "JPV.Props.C18_ndgraph_d30_lower",
                  "JPV.Props.C18_ndgraph_d30_still_running", "JPV.Props.C18_ndgraph_d30_fast", "JPV.Props.C18_ndgraph_d30_default",
                  "JPV.Props.C18_boundary", "JPV.Props.C18_complete", "JPV.Props.C18_raise", "JPV.Props.C18_steps", "JPV.Props.C13_eval",
                  "JPV.Props.C18_nd_raise", "JPV.Props.C18_nd_find_raise", "JPV.Props.C18_nd_complete",
                  "JPV.Props.C18_graph_cycle", "JPV.Props.C18_graph_boundary", "JPV.Props.C18_graph_bounded"],
        tables=[T + "env_defaults_model"],
        explore=ce.explore_c18,
    ),
    "C05": dict(
        modules=["JPV.Props.C05", "JPV.Props.C03", "JPV.Props.Abnf"],
        theorems=["JPV.Props.C05_abnf_iff", "JPV.Proofs.recogniser_accepts_complete", "JPV.Proofs.abnf_unambiguous", "JPV.Proofs.abnf_flag_ambiguous", "JPV.Props.C05_iff", "JPV.Props.C05_sound", "JPV.Props.C05_invalid_rejected", "JPV.Props.C03", "JPV.Props.C03_disputed", "JPV.Props.C05_partial", "JPV.Props.C05_arg_rule"],
        tables=[T + "builtin_sigs_model", T + "env_defaults_model", T + "token_map_model",
                T + "function_argument_map_model", T + "exceptions_model"],
        explore=ct.explore_c05,
    ),
    "C08": dict(
        modules=["JPV.Props.C08", "JPV.Props.C07"],
        theorems=["JPV.Props.C08_loc", "JPV.Props.C08_loc_nonneg", "JPV.Props.C08_canonical", "JPV.Props.C08_path_normal",
                  "JPV.Props.C08_unique", "JPV.Props.C08_path_compiles", "JPV.Props.C08_requery", "JPV.Props.C07_loc_nonneg", "JPV.Props.C07_index_loc"],
        tables=[T + "writes_benign"],
        explore=ct.explore_c08,
    ),
    "C19": dict(
        modules=["JPV.Props.C19"],
        theorems=["JPV.Props.C19", "JPV.Props.C19_linecol", "JPV.Props.C19_offset", "JPV.Props.C19_tokens"],
        tables=[T + "regexes_model", T + "exceptions_model"],
        explore=ct.explore_c19,
    ),
    "C14": dict(
        modules=["JPV.Props.C14"],
        theorems=["JPV.Props.C14_apply_pure", "JPV.Props.C14_envFind_pure", "JPV.Props.C14_apply_deterministic",
                  "JPV.Props.C14_history", "JPV.Props.C14_frame_register", "JPV.Props.C14_frame_newEnv", "JPV.Props.C14_recompile",
                  "JPV.Props.C14_history_configure", "JPV.Props.C14_configure_takes_effect", "JPV.Props.C14_configure_takes_effect_envFind", "JPV.Props.C14_configure_takes_effect_compile",
                  "JPV.Props.C14_frame_configure", "JPV.Props.C14_configure_queries", "JPV.Props.C14_history_env", "JPV.Props.C14_history_env_exists", "JPV.Props.C14_step_WF"],
        tables=[T + "writes_benign", T + "random_sites_model", T + "builtin_sigs_model"],
        explore=ca.explore_c14,
    ),
    "C15": dict(
        modules=["JPV.Props.C15"],
        theorems=["JPV.Props.C15_find_is_list", "JPV.Props.C15_find_one_is_head", "JPV.Props.C15_find_one_lazy",
                  "JPV.Props.C15_env_paths", "JPV.Props.C15_invalid_same_class"],
        tables=[T + "writes_benign"],
        explore=ca.explore_c15,
    ),
    "C16": dict(
        modules=["JPV.Props.C16"],
        theorems=["JPV.Props.C16", "JPV.Props.C16_abandon"],
        tables=[T + "writes_benign", T + "random_sites_model"],
        explore=ca.explore_c16,
    ),
    "C20": dict(
        modules=["JPV.Props.C20"],
        theorems=["JPV.Props.C20_compile_errors", "JPV.Props.C20_evaluate_errors", "JPV.Props.C20_hierarchy_covered",
                  "JPV.Props.C20_wiring", "JPV.Props.C20_ok"],
        tables=[T + "exceptions_model"],
        explore=cc.explore_c20,
    ),
    "C09": dict(
        modules=["JPV.Props.C09"],
        theorems=["JPV.Props.C09", "JPV.Props.C09_no_index_error", "JPV.Props.C09_surrogate_arith"],
        tables=[T + "escapes_model", T + "regexes_model"],
        explore=ct.explore_c09,
    ),
    "C13": dict(
        modules=["JPV.Props.C13", "JPV.Props.C09"],
        theorems=["JPV.Props.C13_compile", "JPV.Props.C13_eval", "JPV.Props.C13_lex", "JPV.Props.C13_token_shapes", "JPV.Props.C13_eval_partial", "JPV.Props.C13_str_total",
                  "JPV.Props.C09_no_index_error", "JPV.Props.C05_partial"],
        tables=[T + "exceptions_model", T + "regexes_model", T + "escapes_model", T + "token_map_model"],
        explore=ct.explore_c13,
    ),
    "C03": dict(
        modules=["JPV.Props.C03", "JPV.Props.C09", "JPV.Props.C13", "JPV.Props.C12", "JPV.Props.Abnf"],
        theorems=["JPV.Props.C03_abnf", "JPV.Props.C03_abnf_loose", "JPV.Proofs.recogniser_valid_complete", "JPV.Proofs.recogniser_valid_sound", "JPV.Props.C03", "JPV.Props.C03_disputed", "JPV.Props.C05_iff", "JPV.Props.C03_kwfree", "JPV.Props.C03_builtin", "JPV.Props.C03_structural", "JPV.Props.C12_filter_partial", "JPV.Props.C09", "JPV.Props.C13_lex", "JPV.Props.C13_token_shapes"],
        tables=[T + "regexes_model", T + "escapes_model", T + "token_map_model", T + "function_argument_map_model",
                T + "precedences_model", T + "binary_operators_model", T + "builtin_sigs_model", T + "env_defaults_model"],
        explore=ct.explore_c03,
    ),
    "C04": dict(
        modules=["JPV.Props.C04", "JPV.Props.C03", "JPV.Props.C09", "JPV.Props.C05", "JPV.Props.C13", "JPV.Props.Abnf"],
        theorems=["JPV.Props.C04_abnf", "JPV.Props.C04_abnf_reject", "JPV.Props.C05_abnf_iff", "JPV.Proofs.recogniser_accepts_sound", "JPV.Proofs.recogniser_invalid_iff", "JPV.Props.C04", "JPV.Props.C04_reject", "JPV.Props.C05_iff", "JPV.Props.C04_structural", "JPV.Props.C04_structural_reject", "JPV.Props.C03_C04_structural_iff",
                  "JPV.Props.C13_compile", "JPV.Props.C09", "JPV.Props.C05_partial", "JPV.Props.C13_token_shapes", "JPV.Props.C13_lex"],
        tables=[T + "regexes_model", T + "escapes_model", T + "token_map_model", T + "function_argument_map_model",
                T + "precedences_model", T + "binary_operators_model", T + "comparison_operators_model"],
        explore=ct.explore_c04,
    ),
    "C12": dict(
        modules=["JPV.Props.C12", "JPV.Props.C12Float", "JPV.Props.C08", "JPV.Props.C07"],
        theorems=["JPV.Props.C12_unconditional", "JPV.Props.strFloat_round_trips", "JPV.Props.strFloat_round_trips_inf", "JPV.Props.floats_of_compile_form",
                  "JPV.Props.float_repr_round_trip", "JPV.Props.floatOfText_isDouble", "JPV.Props.repr_round_trips_false", "JPV.Props.repr_1e16_reads_back_as_int",
                  "JPV.Props.C12", "JPV.Props.C12_same_nodes", "JPV.Props.C12_needs_range", "JPV.Props.C12_partial", "JPV.Props.C12_filter_partial", "JPV.Props.C12_fixpoint", "JPV.Props.C12_quoting", "JPV.Props.C08_canonical",
                  "JPV.Props.C07_slice"],
        tables=[T + "precedences_model", T + "precedence_consts", T + "binary_operators_model"],
        explore=ct.explore_c12,
    ),
    "C17": dict(
        modules=["JPV.Props.C17", "JPV.Props.C17Exh"],
        theorems=["JPV.Props.C17_exhaustive_nodesc", "JPV.Props.C17_exhaustive_nodesc_wt", "JPV.Props.C17_exhaustive_nodesc_rel", "JPV.Props.C17_exhaustive_chain",
                  "JPV.Props.C17_exhaustive_refuted", "JPV.Props.C17_exhaustive_refuted_rel", "JPV.Props.C17_exhaustive_false", "JPV.Props.C17_reachable_iff",
                  "JPV.Props.C17_shuffle_exhaustive", "JPV.Props.C17_merge_exhaustive", "JPV.Props.C17_replay",
                  "JPV.Props.C17_D24_permitted_six", "JPV.Props.C17_D24_produced_only", "JPV.Props.C17_D24_produced_all", "JPV.Props.C17_D24_notProduced_never",
                  "JPV.Props.C17_permitted_rel", "JPV.Props.C17_permitted_wt_rel", "JPV.Props.C17_oracle_exact", "JPV.Props.C17_deterministic_permitted", "JPV.Props.C17_shuffle_perm", "JPV.Props.C17_merge_interleaves", "JPV.Props.C17_children", "JPV.Props.C17_partial", "JPV.Props.C17_permitted",
                  "JPV.Props.C17_permitted_wt", "JPV.Props.C17_permitted_builtin"],
        tables=[T + "random_sites_model", T + "env_defaults_model"],
        explore=cn.explore_c17,
    ),
    "C11": dict(
        modules=["JPV.Props.C11"],
        theorems=["JPV.Props.C11_logic", "JPV.Props.C11_translation", "JPV.Props.C11_semantics", "JPV.Props.C11_grammar", "JPV.Props.C11_grammar_unambiguous",
                  "JPV.Props.C11_translation_abnf", "JPV.Props.C11_semantics_abnf"],
        tables=[T + "re_calls_model", T + "builtin_sigs_model"],
        explore=cr.explore_c11,
    ),
}
