/-
`Spec.Grammar` — the RFC 9535 ABNF as an executable reference recogniser,
written rule for rule from §2 / Appendix A and independently of the Python
lexer and parser.  `parseQuery : List Char → Verdict` is the oracle for
C03 / C04 / C05 / C12:

  * `valid cst`    — the string is derivable; `cst` is its derivation up to the
                     details the semantics ignores (blank space, spelling of
                     strings and numbers), with parentheses kept;
  * `invalid`      — not derivable;
  * `disputed cst` — derivable only if blank space is allowed inside the
                     brackets of a *singular-query* segment (`@[ 'a' ] == 1`):
                     the ABNF's name-segment/index-segment have no `S` there
                     while bracketed-selection does; neither answer is demanded
                     of the implementation (DESIGN §7 C03/C04, D28).

Every alternative of every rule is tried in an order that is complete for this
grammar: wherever two alternatives share a prefix the choice is made by the
follow set (e.g. a basic-expr starting with a comparable is a comparison iff a
comparison-op follows, because no comparison-op can follow a test-expr).
-/
import JPV.Ast
import JPV.Py
namespace JPV.Spec

mutual
/-- concrete expression tree: the AST plus parentheses -/
inductive CExpr where
  | lit (v : Json)
  | not (e : CExpr)
  | and (l r : CExpr)
  | or (l r : CExpr)
  | cmp (op : COp) (l r : CExpr)
  | rel (q : List CSegment)
  | root (q : List CSegment)
  | call (name : Str) (args : List CExpr)
  | paren (e : CExpr)
inductive CSelector where
  | name (s : Str)
  | index (i : Int)
  | slice (a b c : Option Int)
  | wild
  | filter (e : CExpr)
inductive CSegment where
  /-- `blanks`: blank space occurred inside the brackets (never for dot notation) -/
  | child (sels : List CSelector) (blanks : Bool)
  | desc (sels : List CSelector)
end

abbrev R (α : Type) := Option (α × List Char)

def isBlank (c : Char) : Bool := c = ' ' || c = '\t' || c = '\n' || c = '\r'
def isDIGIT (c : Char) : Bool := '0' ≤ c && c ≤ '9'
def isDIGIT1 (c : Char) : Bool := '1' ≤ c && c ≤ '9'
def isALPHA (c : Char) : Bool := ('a' ≤ c && c ≤ 'z') || ('A' ≤ c && c ≤ 'Z')
def isLCALPHA (c : Char) : Bool := 'a' ≤ c && c ≤ 'z'
def isHEXDIG (c : Char) : Bool := isDIGIT c || ('a' ≤ c && c ≤ 'f') || ('A' ≤ c && c ≤ 'F')
/-- name-first = ALPHA / "_" / %x80-D7FF / %xE000-10FFFF (a `Char` is never a surrogate) -/
def isNameFirst (c : Char) : Bool := isALPHA c || c = '_' || c.toNat ≥ 0x80
def isNameChar (c : Char) : Bool := isNameFirst c || isDIGIT c
/-- unescaped = %x20-21 / %x23-26 / %x28-5B / %x5D-D7FF / %xE000-10FFFF -/
def isUnescaped (c : Char) : Bool :=
  let n := c.toNat
  (n ≥ 0x20 && n ≤ 0x21) || (n ≥ 0x23 && n ≤ 0x26) || (n ≥ 0x28 && n ≤ 0x5B) || n ≥ 0x5D

/-- S = *B -/
def skipS : List Char → List Char
  | c :: cs => if isBlank c then skipS cs else c :: cs
  | [] => []

def lit (s : String) (inp : List Char) : Option (List Char) :=
  if s.toList.isPrefixOf inp then some (inp.drop s.length) else none

def hexVal (c : Char) : Nat :=
  if isDIGIT c then c.toNat - 48 else if 'a' ≤ c && c ≤ 'f' then c.toNat - 87 else c.toNat - 55

def hex4 : List Char → R Nat
  | a :: b :: c :: d :: r =>
    if isHEXDIG a && isHEXDIG b && isHEXDIG c && isHEXDIG d then
      some (((hexVal a * 16 + hexVal b) * 16 + hexVal c) * 16 + hexVal d, r)
    else none
  | _ => none

/-- hexchar after `\u`: a non-surrogate, or a high surrogate followed by `\u` low surrogate -/
def hexchar (inp : List Char) : Option (Char × List Char) := do
  let (hi, r) ← hex4 inp
  if hi ≥ 0xD800 ∧ hi ≤ 0xDBFF then
    match r with
    | '\\' :: 'u' :: r2 =>
      let (lo, r3) ← hex4 r2
      if lo ≥ 0xDC00 ∧ lo ≤ 0xDFFF then
        some (Char.ofNat (0x10000 + (hi - 0xD800) * 0x400 + (lo - 0xDC00)), r3)
      else none
    | _ => none
  else if hi ≥ 0xDC00 ∧ hi ≤ 0xDFFF then none
  else some (Char.ofNat hi, r)

/-- the body of a string literal up to and including the closing `quote` -/
def stringBody (quote : Char) : Nat → List Char → List Char → R Str
  | 0, _, _ => none
  | fuel + 1, inp, acc =>
    match inp with
    | [] => none
    | c :: r =>
      if c = quote then some (acc.reverse, r)
      else if c = '\\' then
        match r with
        | e :: r2 =>
          if e = quote then stringBody quote fuel r2 (quote :: acc)
          else if e = 'b' then stringBody quote fuel r2 (Char.ofNat 8 :: acc)
          else if e = 'f' then stringBody quote fuel r2 (Char.ofNat 12 :: acc)
          else if e = 'n' then stringBody quote fuel r2 ('\n' :: acc)
          else if e = 'r' then stringBody quote fuel r2 ('\r' :: acc)
          else if e = 't' then stringBody quote fuel r2 ('\t' :: acc)
          else if e = '/' then stringBody quote fuel r2 ('/' :: acc)
          else if e = '\\' then stringBody quote fuel r2 ('\\' :: acc)
          else if e = 'u' then
            match hexchar r2 with
            | some (ch, r3) => stringBody quote fuel r3 (ch :: acc)
            | none => none
          else none
        | [] => none
      else if isUnescaped c || (c = '\'' && quote = '"') || (c = '"' && quote = '\'') then
        stringBody quote fuel r (c :: acc)
      else none

/-- string-literal -/
def stringLiteral : List Char → R Str
  | '"' :: r => stringBody '"' (r.length + 1) r []
  | '\'' :: r => stringBody '\'' (r.length + 1) r []
  | _ => none

/-- int = "0" / (["-"] DIGIT1 *DIGIT) ; returns the spelling too -/
def intLit (inp : List Char) : R Int :=
  match inp with
  | '0' :: r => some (0, r)
  | '-' :: c :: r =>
    if isDIGIT1 c then
      let ds := (c :: r).takeWhile isDIGIT
      some (-(Py.digitsToNat ds : Int), (c :: r).drop ds.length)
    else none
  | c :: r =>
    if isDIGIT1 c then
      let ds := (c :: r).takeWhile isDIGIT
      some ((Py.digitsToNat ds : Int), (c :: r).drop ds.length)
    else none
  | [] => none

/-- number = (int / "-0") [ frac ] [ exp ]; value by exact decimal → nearest double
when a fraction or a negative exponent makes it a float spelling for the
implementation's purposes; the *spelling* is returned for the caller to denote. -/
def numberSpelling (inp : List Char) : R Str :=
  let ip : Option (List Char × List Char) :=
    match inp with
    | '-' :: '0' :: r => some (['-', '0'], r)
    | _ => match intLit inp with
      | some (_, r) => some (inp.take (inp.length - r.length), r)
      | none => none
  match ip with
  | none => none
  | some (sp, r) =>
    let (sp, r) := match r with
      | '.' :: d :: r2 =>
        if isDIGIT d then
          let ds := (d :: r2).takeWhile isDIGIT
          (sp ++ ['.'] ++ ds, (d :: r2).drop ds.length)
        else (sp, r)
      | _ => (sp, r)
    let (sp, r) := match r with
      | e :: r2 =>
        if e = 'e' || e = 'E' then
          let (sg, r3) := match r2 with
            | '+' :: r3 => (['+'], r3)
            | '-' :: r3 => (['-'], r3)
            | _ => ([], r2)
          let ds := r3.takeWhile isDIGIT
          if ds.isEmpty then (sp, r) else (sp ++ [e] ++ sg ++ ds, r3.drop ds.length)
        else (sp, r)
      | [] => (sp, r)
    some (sp, r)

/-- The JSON number a spelling denotes, in the representation the implementation's
objects use: an `int` when the spelling has neither fraction nor negative
exponent (value = nearest double, truncated: exact within ±(2^53−1)), else a
`float` (nearest double).  Within the exactly-representable range both are the
mathematical value of the spelling. -/
def numberValue (sp : Str) : Option Num :=
  let isFloat := sp.contains '.' ||
    (match sp.dropWhile (fun c => !(c = 'e' || c = 'E')) with
     | _ :: '-' :: _ => true
     | _ => false)
  if isFloat then Py.floatOfText sp else
  match Py.intOfFloatText sp with
  | some (some i) => some (Num.ofInt i)
  | some none => Py.floatOfText sp
  | none => none

/-- member-name-shorthand -/
def shorthand : List Char → R Str
  | c :: r =>
    if isNameFirst c then
      let rest := r.takeWhile isNameChar
      some (c :: rest, r.drop rest.length)
    else none
  | [] => none

/-- function-name -/
def functionName : List Char → R Str
  | c :: r =>
    if isLCALPHA c then
      let rest := r.takeWhile (fun c => isLCALPHA c || c = '_' || isDIGIT c)
      some (c :: rest, r.drop rest.length)
    else none
  | [] => none

def comparisonOp (inp : List Char) : R COp :=
  match inp with
  | '=' :: '=' :: r => some (.eq, r)
  | '!' :: '=' :: r => some (.ne, r)
  | '<' :: '=' :: r => some (.le, r)
  | '>' :: '=' :: r => some (.ge, r)
  | '<' :: r => some (.lt, r)
  | '>' :: r => some (.gt, r)
  | _ => none

/-- literal = number / string-literal / true / false / null -/
def literal (inp : List Char) : R Json :=
  match stringLiteral inp with
  | some (s, r) => some (.str s, r)
  | none =>
  match lit "true" inp with
  | some r => some (.bool true, r)
  | none =>
  match lit "false" inp with
  | some r => some (.bool false, r)
  | none =>
  match lit "null" inp with
  | some r => some (.null, r)
  | none =>
  match numberSpelling inp with
  | some (sp, r) => (numberValue sp).map (fun x => (.num x, r))
  | none => none

/-- slice-selector = [start S] ":" S [end S] [":" [S step ]] -/
def sliceSelector (inp : List Char) : Option (CSelector × List Char) := do
  let (start, r) := match intLit inp with
    | some (i, r) => (some i, skipS r)
    | none => (none, inp)
  let r ← lit ":" r
  let r := skipS r
  let (stop, r) := match intLit r with
    | some (i, r') => (some i, skipS r')
    | none => (none, r)
  match lit ":" r with
  | some r2 =>
    match intLit (skipS r2) with
    | some (st, r3) => some (.slice start stop (some st), r3)
    | none => some (.slice start stop none, r2)
  | none => some (.slice start stop none, r)

abbrev Flags := Bool

mutual

/-- segments = *(S segment) -/
def segments : Nat → List Char → Option (List CSegment × List Char)
  | 0, _ => none
  | fuel + 1, inp =>
    match segment fuel (skipS inp) with
    | some (seg, r) =>
      match segments fuel r with
      | some (segs, r2) => some (seg :: segs, r2)
      | none => none
    | none => some ([], inp)

/-- segment = child-segment / descendant-segment -/
def segment : Nat → List Char → Option (CSegment × List Char)
  | 0, _ => none
  | fuel + 1, inp =>
    match inp with
    | '.' :: '.' :: r =>
      match r with
      | '*' :: r2 => some (.desc [.wild], r2)
      | '[' :: _ =>
        (bracketed fuel r).map (fun (sels, _, r2) => (.desc sels, r2))
      | _ => (shorthand r).map (fun (s, r2) => (.desc [.name s], r2))
    | '.' :: '*' :: r => some (.child [.wild] false, r)
    | '.' :: r => (shorthand r).map (fun (s, r2) => (.child [.name s] false, r2))
    | '[' :: _ => (bracketed fuel inp).map (fun (sels, fl, r2) => (.child sels fl, r2))
    | _ => none

/-- bracketed-selection = "[" S selector *(S "," S selector) S "]"; the flag says
blank space occurred inside the brackets -/
def bracketed : Nat → List Char → Option (List CSelector × Flags × List Char)
  | 0, _ => none
  | fuel + 1, inp =>
    match inp with
    | '[' :: r =>
      let r1 := skipS r
      match selector fuel r1 with
      | none => none
      | some (s, r2) =>
        match moreSelectors fuel r2 with
        | none => none
        | some (ss, r3) =>
          let r4 := skipS r3
          match r4 with
          | ']' :: r5 => some (s :: ss, (r1.length != r.length) || (r4.length != r3.length), r5)
          | _ => none
    | _ => none

/-- *(S "," S selector) -/
def moreSelectors : Nat → List Char → Option (List CSelector × List Char)
  | 0, _ => none
  | fuel + 1, inp =>
    match skipS inp with
    | ',' :: r =>
      match selector fuel (skipS r) with
      | none => none
      | some (s, r2) =>
        match moreSelectors fuel r2 with
        | some (ss, r3) => some (s :: ss, r3)
        | none => none
    | _ => some ([], inp)

/-- selector = name-selector / wildcard-selector / slice-selector / index-selector / filter-selector -/
def selector : Nat → List Char → Option (CSelector × List Char)
  | 0, _ => none
  | fuel + 1, inp =>
    match inp with
    | '*' :: r => some (.wild, r)
    | '?' :: r => (logicalOr fuel (skipS r)).map (fun (e, r2) => (.filter e, r2))
    | _ =>
      match stringLiteral inp with
      | some (s, r) => some (.name s, r)
      | none =>
        match sliceSelector inp with
        | some res => some res
        | none => (intLit inp).map (fun (i, r) => (.index i, r))

/-- logical-or-expr = logical-and-expr *(S "||" S logical-and-expr) -/
def logicalOr : Nat → List Char → Option (CExpr × List Char)
  | 0, _ => none
  | fuel + 1, inp =>
    match logicalAnd fuel inp with
    | none => none
    | some (l, r) =>
      match lit "||" (skipS r) with
      | some r2 =>
        (logicalOr fuel (skipS r2)).map (fun (rest, r3) => (.or l rest, r3))
      | none => some (l, r)

/-- logical-and-expr = basic-expr *(S "&&" S basic-expr) -/
def logicalAnd : Nat → List Char → Option (CExpr × List Char)
  | 0, _ => none
  | fuel + 1, inp =>
    match basic fuel inp with
    | none => none
    | some (l, r) =>
      match lit "&&" (skipS r) with
      | some r2 =>
        (logicalAnd fuel (skipS r2)).map (fun (rest, r3) => (.and l rest, r3))
      | none => some (l, r)

/-- basic-expr = paren-expr / comparison-expr / test-expr -/
def basic : Nat → List Char → Option (CExpr × List Char)
  | 0, _ => none
  | fuel + 1, inp =>
    match inp with
    | '!' :: r =>
      match comparisonOp inp with
      | some _ => none
      | none =>
        let r := skipS r
        match r with
        | '(' :: _ => (parenExpr fuel r).map (fun (e, r2) => (.not e, r2))
        | _ =>
          -- test-expr = logical-not-op S (filter-query / function-expr)
          match term fuel r with
          | some (.lit _, _) => none
          | some (e, r2) => some (.not e, r2)
          | none => none
    | '(' :: _ => parenExpr fuel inp
    | _ =>
      match term fuel inp with
      | none => none
      | some (l, r) =>
        match comparisonOp (skipS r) with
        | some (op, r2) =>
          match term fuel (skipS r2) with
          | some (rhs, r3) => some (.cmp op l rhs, r3)
          | none => none
        | none =>
          match l with
          | .lit _ => none
          | _ => some (l, r)

/-- "(" S logical-expr S ")" -/
def parenExpr : Nat → List Char → Option (CExpr × List Char)
  | 0, _ => none
  | fuel + 1, inp =>
    match inp with
    | '(' :: r =>
      match logicalOr fuel (skipS r) with
      | some (e, r2) =>
        match skipS r2 with
        | ')' :: r3 => some (.paren e, r3)
        | _ => none
      | none => none
    | _ => none

/-- literal / filter-query / function-expr: the things a comparable or a test can be -/
def term : Nat → List Char → Option (CExpr × List Char)
  | 0, _ => none
  | fuel + 1, inp =>
    match inp with
    | '@' :: r => (segments fuel r).map (fun (segs, r2) => (.rel segs, r2))
    | '$' :: r => (segments fuel r).map (fun (segs, r2) => (.root segs, r2))
    | _ =>
      -- function-expr = function-name "(" S [function-argument *(S "," S function-argument)] S ")"
      match functionName inp with
      | some (name, '(' :: r) =>
        let r1 := skipS r
        match r1 with
        | ')' :: r2 => some (.call name [], r2)
        | _ =>
          match argument fuel r1 with
          | none => none
          | some (a, r2) =>
            match moreArgs fuel r2 with
            | none => none
            | some (as, r3) =>
              match skipS r3 with
              | ')' :: r4 => some (.call name (a :: as), r4)
              | _ => none
      | _ => (literal inp).map (fun (v, r) => (.lit v, r))

/-- function-argument = literal / filter-query / logical-expr / function-expr:
a literal exactly when what follows it is `,` or `)`; everything else is a
logical-expr (of which a bare query or call is a special case) -/
def argument : Nat → List Char → Option (CExpr × List Char)
  | 0, _ => none
  | fuel + 1, inp =>
    match literal inp with
    | some (v, r) =>
      match skipS r with
      | ',' :: _ => some (.lit v, r)
      | ')' :: _ => some (.lit v, r)
      | _ => logicalOr fuel inp
    | none => logicalOr fuel inp

/-- *(S "," S function-argument) -/
def moreArgs : Nat → List Char → Option (List CExpr × List Char)
  | 0, _ => none
  | fuel + 1, inp =>
    match skipS inp with
    | ',' :: r =>
      match argument fuel (skipS r) with
      | none => none
      | some (a, r2) =>
        match moreArgs fuel r2 with
        | some (as, r3) => some (a :: as, r3)
        | none => none
    | _ => some ([], inp)

end


/-! ### verdicts -/

inductive Verdict where
  | valid (q : List CSegment)
  | invalid
  | disputed (q : List CSegment)

mutual
/-- (all comparison operands are singular queries in shape, some such operand has disputed blanks) -/
def cmpShapeExpr : CExpr → Bool × Bool
  | .lit _ => (true, false)
  | .not e => cmpShapeExpr e
  | .paren e => cmpShapeExpr e
  | .and l r => let a := cmpShapeExpr l; let b := cmpShapeExpr r; (a.1 && b.1, a.2 || b.2)
  | .or l r => let a := cmpShapeExpr l; let b := cmpShapeExpr r; (a.1 && b.1, a.2 || b.2)
  | .cmp _ l r =>
    let a := operandShape l; let b := operandShape r
    let c := cmpShapeExpr l; let d := cmpShapeExpr r
    (a.1 && b.1 && c.1 && d.1, a.2 || b.2 || c.2 || d.2)
  | .rel q => cmpShapeSegs q
  | .root q => cmpShapeSegs q
  | .call _ args => cmpShapeArgs args
def cmpShapeArgs : List CExpr → Bool × Bool
  | [] => (true, false)
  | a :: as => let x := cmpShapeExpr a; let y := cmpShapeArgs as; (x.1 && y.1, x.2 || y.2)
/-- a comparison operand that is a query must be a singular query -/
def operandShape : CExpr → Bool × Bool
  | .rel q => singularSegs q
  | .root q => singularSegs q
  | _ => (true, false)
def singularSegs : List CSegment → Bool × Bool
  | [] => (true, false)
  | .child [.name _] b :: rest => let r := singularSegs rest; (r.1, b || r.2)
  | .child [.index _] b :: rest => let r := singularSegs rest; (r.1, b || r.2)
  | _ :: _ => (false, false)
def cmpShapeSel : CSelector → Bool × Bool
  | .filter e => cmpShapeExpr e
  | _ => (true, false)
def cmpShapeSels : List CSelector → Bool × Bool
  | [] => (true, false)
  | s :: ss => let x := cmpShapeSel s; let y := cmpShapeSels ss; (x.1 && y.1, x.2 || y.2)
def cmpShapeSegs : List CSegment → Bool × Bool
  | [] => (true, false)
  | .child sels _ :: rest => let x := cmpShapeSels sels; let y := cmpShapeSegs rest; (x.1 && y.1, x.2 || y.2)
  | .desc sels :: rest => let x := cmpShapeSels sels; let y := cmpShapeSegs rest; (x.1 && y.1, x.2 || y.2)
end

/-- jsonpath-query = root-identifier segments, the whole input consumed -/
def parseQuery (inp : List Char) : Verdict :=
  match inp with
  | '$' :: r =>
    match segments (2 * inp.length + 4) r with
    | some (segs, []) =>
      let sh := cmpShapeSegs segs
      if !sh.1 then .invalid else if sh.2 then .disputed segs else .valid segs
    | _ => .invalid
  | _ => .invalid

/-! ### abstraction to the AST (parentheses erased) -/

mutual
def abstractExpr : CExpr → Expr
  | .lit v => .lit v
  | .not e => .not (abstractExpr e)
  | .and l r => .logical .and (abstractExpr l) (abstractExpr r)
  | .or l r => .logical .or (abstractExpr l) (abstractExpr r)
  | .cmp op l r => .cmp op (abstractExpr l) (abstractExpr r)
  | .rel q => .rel (abstractSegs q)
  | .root q => .root (abstractSegs q)
  | .call f args => .call f (abstractArgs args)
  | .paren e => abstractExpr e
def abstractArgs : List CExpr → List Expr
  | [] => []
  | a :: as => abstractExpr a :: abstractArgs as
def abstractSel : CSelector → Selector
  | .name s => .name s
  | .index i => .index i
  | .slice a b c => .slice a b c
  | .wild => .wild
  | .filter e => .filter (abstractExpr e)
def abstractSels : List CSelector → List Selector
  | [] => []
  | s :: ss => abstractSel s :: abstractSels ss
def abstractSegs : List CSegment → List Segment
  | [] => []
  | .child sels _ :: rest => .child (abstractSels sels) :: abstractSegs rest
  | .desc sels :: rest => .desc (abstractSels sels) :: abstractSegs rest
end

end JPV.Spec
