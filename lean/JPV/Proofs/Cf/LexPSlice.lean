/-
`Proofs.Cf.LexPSlice` — `Cs.LexSlice` at an arbitrary filter depth `D`: a slice selector is lexed to INDEX / COLON tokens.
-/
import JPV.Proofs.Cf.LexPInt
import JPV.Proofs.Cs.LexSlice
namespace JPV.Proofs.Cf
open JPV JPV.Impl JPV.Proofs.Rq

variable {D : Int}

theorem FBL_sliceEnd {a b : Option Int} {r : List Char} {sel : Spec.CSelector} {rest : List Char}
    (h : Cs.sliceEnd a b r = some (sel, rest)) (hf : Cs.Follow rest) :
    FBL D r (fun ts => ∃ c, sel = .slice a b c ∧ Cs.StepShape c ts) rest := by
  unfold Cs.sliceEnd at h
  rcases Cs.lit_colon_cases r with ⟨r2, rfl, hl⟩ | ⟨_, hl⟩
  · simp only [hl] at h
    have b1 := FBL_colon (D := D) (Cs.skipS_colon r2)
    cases h3 : Spec.intLit (Spec.skipS r2) with
    | some p =>
      obtain ⟨st, r3⟩ := p
      simp only [h3, Option.some.injEq, Prod.mk.injEq] at h
      obtain ⟨rfl, rfl⟩ := h
      have b2 := FBL_int (D := D) h3 hf.noDigit
      refine (b1.seq b2).mono ?_
      rintro ts ⟨t1, t2, rfl, ⟨k, rfl⟩, ⟨v, k', hi, rfl⟩⟩
      exact ⟨_, rfl, .step v st k k' hi⟩
    | none =>
      simp only [h3, Option.some.injEq, Prod.mk.injEq] at h
      obtain ⟨rfl, rfl⟩ := h
      refine b1.mono ?_
      rintro ts ⟨k, rfl⟩
      exact ⟨_, rfl, .colon k⟩
  · simp only [hl, Option.some.injEq, Prod.mk.injEq] at h
    obtain ⟨rfl, rfl⟩ := h
    refine (FBL.skip rfl).mono ?_
    rintro ts rfl
    exact ⟨_, rfl, .absent⟩

theorem FBL_sliceMid {a : Option Int} {r : List Char} {sel : Spec.CSelector} {rest : List Char}
    (h : Cs.sliceMid a r = some (sel, rest)) (hf : Cs.Follow rest) :
    FBL D r (fun ts => ∃ b c tb tc k, sel = .slice a b c ∧ Cs.OptShape b tb ∧ Cs.StepShape c tc ∧
      ts = ⟨.colon, [':'], k⟩ :: (tb ++ tc)) rest := by
  unfold Cs.sliceMid at h
  rcases Cs.lit_colon_cases r with ⟨r1, rfl, hl⟩ | ⟨_, hl⟩
  · simp only [hl] at h
    have b1 := FBL_colon (D := D) (Cs.skipS_colon r1)
    cases h3 : Spec.intLit (Spec.skipS r1) with
    | some p =>
      obtain ⟨i, r'⟩ := p
      simp only [h3] at h
      have hnd : Prn.NoDigit r' := by
        rcases Cs.sliceEnd_head h hf with ⟨t, e⟩ | hf'
        · exact Cs.noDigit_of_skipS e (by decide)
        · exact hf'.of_skipS.noDigit
      have b2 := FBL_int (D := D) h3 hnd
      have b3 := (FBL_sliceEnd (D := D) h hf).congr_left (Cs.skipS_idem r').symm
      refine ((b1.seq b2).seq b3).mono ?_
      rintro ts ⟨t12, t3, rfl, ⟨t1, t2, rfl, ⟨k, rfl⟩, ⟨v, k', hi, rfl⟩⟩, ⟨c, rfl, hc⟩⟩
      exact ⟨some i, c, _, t3, k, rfl, .some v i k' hi, hc, rfl⟩
    | none =>
      simp only [h3] at h
      have b3 := (FBL_sliceEnd (D := D) h hf).congr_left (Cs.skipS_idem r1).symm
      refine (b1.seq b3).mono ?_
      rintro ts ⟨t1, t3, rfl, ⟨k, rfl⟩, ⟨c, rfl, hc⟩⟩
      exact ⟨none, c, [], t3, k, rfl, .none, hc, rfl⟩
  · simp [hl] at h

theorem FBL_slice {inp : List Char} {sel : Spec.CSelector} {rest : List Char} (hin : Spec.skipS inp = inp)
    (h : Spec.sliceSelector inp = some (sel, rest)) (hf : Cs.Follow rest) : FBL D inp (Cs.SelShape sel) rest := by
  rw [Cs.sliceSelector_eq] at h
  cases h1 : Spec.intLit inp with
  | some p =>
    obtain ⟨i, r⟩ := p
    simp only [h1] at h
    have hnd : Prn.NoDigit r := by
      unfold Cs.sliceMid at h
      rcases Cs.lit_colon_cases (Spec.skipS r) with ⟨r1, heq, hl⟩ | ⟨_, hl⟩
      · exact Cs.noDigit_of_skipS heq (by decide)
      · simp [hl] at h
    have b1 := FBL_int (D := D) (inp := inp) (by rw [hin]; exact h1) hnd
    have b2 := (FBL_sliceMid (D := D) h hf).congr_left (Cs.skipS_idem r).symm
    refine (b1.seq b2).mono ?_
    rintro ts ⟨t1, t2, rfl, ⟨v, k', hi, rfl⟩, ⟨b, c, tb, tc, k, rfl, hb, hc, rfl⟩⟩
    exact .slice (some i) b c _ tb tc k (.some v i k' hi) hb hc
  | none =>
    simp only [h1] at h
    refine (FBL_sliceMid h hf).mono ?_
    rintro ts ⟨b, c, tb, tc, k, rfl, hb, hc, rfl⟩
    exact .slice none b c [] tb tc k .none hb hc

end JPV.Proofs.Cf
