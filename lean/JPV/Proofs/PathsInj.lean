import JPV.Spec.NormalizedPath
import Std.Data.String.ToNat
/-
Normalized paths determine the location (C08, uniqueness clause).

Every piece of the encoding is uniquely decodable *with a continuation*:
`enc a ++ r₁ = enc b ++ r₂ → a = b ∧ r₁ = r₂`.
-/
namespace JPV.Proofs
open JPV

/-! ### one character of a name -/

def lowerHexVal (x : Char) : Nat := if x.toNat < 58 then x.toNat - 48 else x.toNat - 87

theorem lowerHexVal_lowerHex : ∀ n < 16, lowerHexVal (Spec.lowerHex n) = n := by decide

/-- reads one `normalChar` block back -/
def unChar : Str → Option (Char × Str)
  | [] => none
  | c :: r =>
    if c = '\\' then
      match r with
      | [] => none
      | x :: r' =>
        if x = 'b' then some (Char.ofNat 8, r')
        else if x = 't' then some (Char.ofNat 9, r')
        else if x = 'n' then some (Char.ofNat 10, r')
        else if x = 'f' then some (Char.ofNat 12, r')
        else if x = 'r' then some (Char.ofNat 13, r')
        else if x = 'u' then
          match r' with
          | _ :: _ :: a :: b :: r'' => some (Char.ofNat (16 * lowerHexVal a + lowerHexVal b), r'')
          | _ => none
        else some (x, r')
    else some (c, r)

theorem char_of_toNat {c : Char} {n : Nat} (h : c.toNat = n) : c = Char.ofNat n := by
  rw [← h, Char.ofNat_toNat]

theorem unChar_normalChar (c : Char) (r : Str) : unChar (Spec.normalChar c ++ r) = some (c, r) := by
  by_cases h8 : c.toNat = 8
  · rw [char_of_toNat h8, show Spec.normalChar (Char.ofNat 8) = ['\\', 'b'] by decide]; rfl
  by_cases h9 : c.toNat = 9
  · rw [char_of_toNat h9, show Spec.normalChar (Char.ofNat 9) = ['\\', 't'] by decide]; rfl
  by_cases h10 : c.toNat = 10
  · rw [char_of_toNat h10, show Spec.normalChar (Char.ofNat 10) = ['\\', 'n'] by decide]; rfl
  by_cases h12 : c.toNat = 12
  · rw [char_of_toNat h12, show Spec.normalChar (Char.ofNat 12) = ['\\', 'f'] by decide]; rfl
  by_cases h13 : c.toNat = 13
  · rw [char_of_toNat h13, show Spec.normalChar (Char.ofNat 13) = ['\\', 'r'] by decide]; rfl
  by_cases hq : c = '\''
  · subst hq; rw [show Spec.normalChar '\'' = ['\\', '\''] by decide]; rfl
  by_cases hb : c = '\\'
  · subst hb; rw [show Spec.normalChar '\\' = ['\\', '\\'] by decide]; rfl
  by_cases h32 : c.toNat < 32
  · have e : Spec.normalChar c =
        ['\\', 'u', '0', '0', Spec.lowerHex (c.toNat / 16), Spec.lowerHex (c.toNat % 16)] := by
      simp [Spec.normalChar, h8, h9, h10, h12, h13, hq, hb, h32]
    rw [e]
    simp only [List.cons_append, List.nil_append, unChar]
    simp only [if_true, show ('u' : Char) ≠ 'b' by decide, show ('u' : Char) ≠ 't' by decide,
      show ('u' : Char) ≠ 'n' by decide, show ('u' : Char) ≠ 'f' by decide,
      show ('u' : Char) ≠ 'r' by decide, if_false]
    rw [lowerHexVal_lowerHex _ (by omega), lowerHexVal_lowerHex _ (by omega),
      show 16 * (c.toNat / 16) + c.toNat % 16 = c.toNat by omega, Char.ofNat_toNat]
  · have e : Spec.normalChar c = [c] := by
      simp [Spec.normalChar, h8, h9, h10, h12, h13, hq, hb, h32]
    rw [e]
    simp only [List.cons_append, List.nil_append, unChar, if_neg hb]

theorem normalChar_ud {c d : Char} {r1 r2 : Str}
    (h : Spec.normalChar c ++ r1 = Spec.normalChar d ++ r2) : c = d ∧ r1 = r2 := by
  have := congrArg unChar h
  rw [unChar_normalChar, unChar_normalChar] at this
  simpa using this

/-! ### a whole name, up to its closing quote -/

theorem nameBody_nil_cons {d : Char} {t r1 r2 : Str}
    (h : '\'' :: r1 = (d :: t).flatMap Spec.normalChar ++ '\'' :: r2) : False := by
  rw [List.flatMap_cons, List.append_assoc] at h
  have h' := congrArg unChar h
  rw [unChar_normalChar] at h'
  simp only [unChar, show ('\'' : Char) ≠ '\\' by decide, if_false, Option.some.injEq,
    Prod.mk.injEq] at h'
  rw [← h'.1, show Spec.normalChar '\'' = ['\\', '\''] by decide] at h
  simp at h

theorem nameBody_ud : ∀ (s t r1 r2 : Str),
    s.flatMap Spec.normalChar ++ '\'' :: r1 = t.flatMap Spec.normalChar ++ '\'' :: r2 →
      s = t ∧ r1 = r2 := by
  intro s
  induction s with
  | nil =>
    intro t r1 r2 h
    cases t with
    | nil => simpa using h
    | cons d t => exact (nameBody_nil_cons (by simpa using h)).elim
  | cons c s ih =>
    intro t r1 r2 h
    cases t with
    | nil => exact (nameBody_nil_cons (by simpa using h.symm)).elim
    | cons d t =>
      rw [List.flatMap_cons, List.flatMap_cons, List.append_assoc, List.append_assoc] at h
      obtain ⟨rfl, h'⟩ := normalChar_ud h
      obtain ⟨rfl, rfl⟩ := ih t r1 r2 h'
      exact ⟨rfl, rfl⟩

/-! ### an index, up to its closing bracket -/

theorem split_ud {α} (p : α → Bool) (x : α) (hx : p x = false) : ∀ (a b r1 r2 : List α),
    (∀ y ∈ a, p y = true) → (∀ y ∈ b, p y = true) → a ++ x :: r1 = b ++ x :: r2 →
      a = b ∧ r1 = r2 := by
  intro a
  induction a with
  | nil =>
    intro b r1 r2 _ hb h
    cases b with
    | nil => simpa using h
    | cons y b =>
      simp only [List.nil_append, List.cons_append, List.cons.injEq] at h
      have := hb y (by simp)
      rw [← h.1, hx] at this
      cases this
  | cons z a ih =>
    intro b r1 r2 ha hb h
    cases b with
    | nil =>
      simp only [List.nil_append, List.cons_append, List.cons.injEq] at h
      have := ha z (by simp)
      rw [h.1, hx] at this
      cases this
    | cons y b =>
      simp only [List.cons_append, List.cons.injEq] at h
      obtain ⟨rfl, rfl⟩ := ih b r1 r2 (fun y hy => ha y (by simp [hy]))
        (fun y hy => hb y (by simp [hy])) h.2
      exact ⟨by rw [h.1], rfl⟩

theorem natDecimal_eq (n : Nat) : Spec.natDecimal n = Nat.toDigits 10 n := by
  unfold Spec.natDecimal
  exact Nat.toList_repr

theorem natDecimal_digits (n : Nat) : ∀ c ∈ Spec.natDecimal n, c.isDigit = true := by
  intro c hc
  rw [natDecimal_eq] at hc
  exact Nat.isDigit_of_mem_toDigits (by omega) (by omega) hc

theorem natDecimal_inj {n m : Nat} (h : Spec.natDecimal n = Spec.natDecimal m) : n = m := by
  unfold Spec.natDecimal at h
  apply Nat.repr_injective
  exact String.toList_inj.1 h

theorem natDecimal_ud {n m : Nat} {r1 r2 : Str}
    (h : Spec.natDecimal n ++ ']' :: r1 = Spec.natDecimal m ++ ']' :: r2) : n = m ∧ r1 = r2 := by
  obtain ⟨h1, h2⟩ := split_ud Char.isDigit ']' (by decide) _ _ _ _
    (natDecimal_digits n) (natDecimal_digits m) h
  exact ⟨natDecimal_inj h1, h2⟩

theorem natDecimal_head (n : Nat) : ∃ d ds, Spec.natDecimal n = d :: ds ∧ d.isDigit = true := by
  cases h : Spec.natDecimal n with
  | nil =>
    rw [natDecimal_eq] at h
    exact absurd h Nat.toDigits_ne_nil
  | cons d ds => exact ⟨d, ds, rfl, natDecimal_digits n d (by rw [h]; simp)⟩

/-! ### one segment -/

def normSeg (k : Key) : Str :=
  match k with
  | .name s => ['['] ++ Spec.normalName s ++ [']']
  | .idx i => ['['] ++ Spec.natDecimal i.toNat ++ [']']

theorem normalizedPath_eq (loc : Loc) : Spec.normalizedPath loc = '$' :: loc.flatMap normSeg := by
  rfl

def KeyNonneg (k : Key) : Prop := ∀ i, k = Key.idx i → 0 ≤ i

theorem normSeg_ud {k k' : Key} (hk : KeyNonneg k) (hk' : KeyNonneg k') {r1 r2 : Str}
    (h : normSeg k ++ r1 = normSeg k' ++ r2) : k = k' ∧ r1 = r2 := by
  cases k with
  | name s =>
    cases k' with
    | name t =>
      simp only [normSeg, Spec.normalName, List.cons_append, List.nil_append, List.append_assoc,
        List.cons.injEq, true_and] at h
      obtain ⟨rfl, h'⟩ := nameBody_ud _ _ _ _ h
      simp only [List.cons.injEq, true_and] at h'
      exact ⟨rfl, h'⟩
    | idx j =>
      obtain ⟨d, ds, hd, hdig⟩ := natDecimal_head j.toNat
      simp only [normSeg, Spec.normalName, hd, List.cons_append, List.nil_append,
        List.append_assoc, List.cons.injEq, true_and] at h
      rw [← h.1] at hdig
      exact absurd hdig (by decide)
  | idx i =>
    cases k' with
    | name t =>
      obtain ⟨d, ds, hd, hdig⟩ := natDecimal_head i.toNat
      simp only [normSeg, Spec.normalName, hd, List.cons_append, List.nil_append,
        List.append_assoc, List.cons.injEq, true_and] at h
      rw [h.1] at hdig
      exact absurd hdig (by decide)
    | idx j =>
      simp only [normSeg, List.cons_append, List.nil_append, List.append_assoc,
        List.cons.injEq, true_and] at h
      obtain ⟨h1, h2⟩ := natDecimal_ud h
      have hi := hk i rfl
      have hj := hk' j rfl
      refine ⟨?_, h2⟩
      congr 1
      omega

theorem normSeg_ne_nil (k : Key) (r : Str) : normSeg k ++ r ≠ [] := by
  cases k <;> simp [normSeg]

/-! ### whole locations -/

theorem flatMap_normSeg_inj : ∀ (l1 l2 : Loc), (∀ k ∈ l1, KeyNonneg k) → (∀ k ∈ l2, KeyNonneg k) →
    l1.flatMap normSeg = l2.flatMap normSeg → l1 = l2 := by
  intro l1
  induction l1 with
  | nil =>
    intro l2 _ _ h
    cases l2 with
    | nil => rfl
    | cons k l2 =>
      rw [List.flatMap_cons] at h
      exact absurd h.symm (normSeg_ne_nil k _)
  | cons k l1 ih =>
    intro l2 h1 h2 h
    cases l2 with
    | nil =>
      rw [List.flatMap_cons] at h
      exact absurd h (normSeg_ne_nil k _)
    | cons k' l2 =>
      rw [List.flatMap_cons, List.flatMap_cons] at h
      obtain ⟨rfl, h'⟩ := normSeg_ud (h1 k (by simp)) (h2 k' (by simp)) h
      rw [ih l2 (fun x hx => h1 x (by simp [hx])) (fun x hx => h2 x (by simp [hx])) h']

theorem normalizedPath_inj (l1 l2 : Loc) (h1 : ∀ k ∈ l1, ∀ i, k = Key.idx i → 0 ≤ i)
    (h2 : ∀ k ∈ l2, ∀ i, k = Key.idx i → 0 ≤ i)
    (h : Spec.normalizedPath l1 = Spec.normalizedPath l2) : l1 = l2 := by
  rw [normalizedPath_eq, normalizedPath_eq] at h
  exact flatMap_normSeg_inj l1 l2 h1 h2 (List.cons.inj h).2

end JPV.Proofs
