/-
`Proofs.Float.Text` — the text `Py.reprPos` lays out (`layout m decpt`, `m > 0`): it is a complete RFC 9535 number
(`layout_spelling`), `Spec.numberValue` reads it as a float except for `de+XX` (`layout_isFloatSp_*`), and
`Py.parseDecimal` reads back exactly `m · 10^(decpt - L)` (`layout_parse`).
-/
import JPV.Proofs.Float.TextDigits
import JPV.Proofs.Float.TextLayout
import JPV.Proofs.Float.TextParse
namespace JPV.Proofs.Float
open JPV JPV.Proofs.Cf

/-- number of decimal digits -/
theorem natDigits_length (m k : Nat) (hk : 0 < k) (h1 : 10 ^ (k - 1) ≤ m) (h2 : m < 10 ^ k) :
    (Py.natDigits m).length = k := by
  rw [natDigits_eq]; exact toDigits_length k m hk h1 h2

theorem Shape.intP {m : Nat} {decpt : Int} {ip fp ex} (h : Shape m decpt ip fp ex) : IntP ip :=
  .pos ip h.ip_digs h.ip_zero

theorem Shape.intP_neg {m : Nat} {decpt : Int} {ip fp ex} (h : Shape m decpt ip fp ex) : IntP ('-' :: ip) :=
  .neg ip h.ip_digs h.ip_zero

theorem Shape.fracP {m : Nat} {decpt : Int} {ip fp ex} (h : Shape m decpt ip fp ex) : FracP (fracTxt fp) := by
  cases fp with
  | none => exact .none
  | some f => exact .some f (h.fp_digs f rfl)

theorem Shape.expP {m : Nat} {decpt : Int} {ip fp ex} (h : Shape m decpt ip fp ex) : ExpP (expTxt ex) := by
  cases ex with
  | none => exact .none
  | some p =>
    obtain ⟨b, xs⟩ := p
    have := ExpP.some 'e' [if b then '-' else '+'] xs (.inl rfl) (by cases b <;> simp) (h.ex_digs b xs rfl)
    exact this

theorem numFollow_nil : NumFollow [] := fun c t e => by cases e

/-- every layout is a complete RFC 9535 number, also with a minus sign in front -/
theorem layout_spelling (m : Nat) (hm : 0 < m) (decpt : Int) :
    Spec.numberSpelling (layout m decpt) = some (layout m decpt, []) ∧
    Spec.numberSpelling ('-' :: layout m decpt) = some ('-' :: layout m decpt, []) := by
  obtain ⟨ip, fp, ex, h⟩ := layout_shape m hm decpt
  constructor
  · have := Pc.numberSpelling_parts_append h.intP h.fracP h.expP numFollow_nil
    rw [List.append_nil, ← h.text] at this
    exact this
  · have := Pc.numberSpelling_parts_append h.intP_neg h.fracP h.expP numFollow_nil
    rw [List.append_nil] at this
    have e : '-' :: layout m decpt = '-' :: ip ++ fracTxt fp ++ expTxt ex := by rw [h.text]; rfl
    rw [e]; exact this

theorem Shape.float_of_frac {m : Nat} {decpt : Int} {ip fp ex} (h : Shape m decpt ip fp ex) (hf : fp ≠ none) :
    Cf.isFloatSp (layout m decpt) = true ∧ Cf.isFloatSp ('-' :: layout m decpt) = true := by
  cases fp with
  | none => exact absurd rfl hf
  | some f =>
    have e : '-' :: layout m decpt = '-' :: ip ++ fracTxt (some f) ++ expTxt ex := by rw [h.text]; rfl
    rw [e, h.text]
    exact ⟨isFloatSp_frac ip f _, isFloatSp_frac ('-' :: ip) f _⟩

/-- the layouts `Spec.numberValue` reads as a float (a '.' or a negative exponent) ... -/
theorem layout_isFloatSp_of_small (m : Nat) (hm : 0 < m) (decpt : Int) (h : decpt ≤ 16) :
    Cf.isFloatSp (layout m decpt) = true ∧ Cf.isFloatSp ('-' :: layout m decpt) = true := by
  obtain ⟨ip, fp, ex, hS⟩ := layout_shape m hm decpt
  by_cases hf : fp = none
  · rcases hS.small h with h1 | ⟨xs, rfl⟩
    · exact absurd hf h1
    · subst hf
      have e : '-' :: layout m decpt = '-' :: ip ++ fracTxt none ++ expTxt (some (true, xs)) := by rw [hS.text]; rfl
      rw [e, hS.text]
      simp only [fracTxt, expTxt, List.append_nil, if_true]
      exact ⟨isFloatSp_neg hS.intP (.inl rfl), isFloatSp_neg hS.intP_neg (.inl rfl)⟩
  · exact hS.float_of_frac hf

theorem layout_isFloatSp_of_digits (m : Nat) (hm : 0 < m) (decpt : Int)
    (h : 2 ≤ (Py.stripTrailingZeros (Py.natDigits m)).length) :
    Cf.isFloatSp (layout m decpt) = true ∧ Cf.isFloatSp ('-' :: layout m decpt) = true := by
  obtain ⟨ip, fp, ex, hS⟩ := layout_shape m hm decpt
  exact hS.float_of_frac (hS.many h)

/-- ... and the one it reads as an integer: a single significant digit and a positive exponent, e.g. `1e+16` -/
theorem layout_isFloatSp_false (m : Nat) (hm : 0 < m) (decpt : Int) (h1 : 16 < decpt)
    (h2 : (Py.stripTrailingZeros (Py.natDigits m)).length = 1) :
    Cf.isFloatSp (layout m decpt) = false ∧ Cf.isFloatSp ('-' :: layout m decpt) = false := by
  obtain ⟨ip, fp, ex, hS⟩ := layout_shape m hm decpt
  obtain ⟨rfl, xs, rfl⟩ := hS.one h1 h2
  have e : '-' :: layout m decpt = '-' :: ip ++ fracTxt none ++ expTxt (some (false, xs)) := by rw [hS.text]; rfl
  rw [e, hS.text]
  simp only [fracTxt, expTxt, List.append_nil, Bool.false_eq_true, if_false]
  have hD := hS.ex_digs false xs rfl
  exact ⟨isFloatSp_exp (S := ['+']) hS.intP (.inl rfl) (.inr rfl) hD,
    isFloatSp_exp (S := ['+']) hS.intP_neg (.inl rfl) (.inr rfl) hD⟩

/-- reading the layout back gives exactly the decimal value `m · 10^(decpt - L)`, `L` the number of digits of `m`
(as a fraction `n'/d'`, cross-multiplied) -/
theorem layout_parse (m : Nat) (hm : 0 < m) (decpt : Int) (hlo : -350 ≤ decpt) (hhi : decpt ≤ 350)
    (hL : (Py.natDigits m).length ≤ 20) :
    ∃ n' d' : Nat, 0 < d' ∧ Py.parseDecimal (layout m decpt) = some (false, n', d') ∧
      Py.parseDecimal ('-' :: layout m decpt) = some (true, n', d') ∧
      n' * 10 ^ (((Py.natDigits m).length : Int) - decpt).toNat =
        m * 10 ^ (decpt - ((Py.natDigits m).length : Int)).toNat * d' := by
  obtain ⟨ip, fp, ex, hS⟩ := layout_shape m hm decpt
  obtain ⟨c, rest, t, hs, -, -, hnat, hval⟩ := strip_spec m hm
  obtain ⟨u, hu, hD, hx⟩ := hS.value
  obtain ⟨hp1, hp2⟩ := parseDecimal_parts ip fp ex hS.ip_digs hS.fp_digs hS.ex_digs
  rw [← hS.text] at hp1 hp2
  have hlen : (Py.natDigits m).length = (c :: rest).length + t := by
    rw [hnat]; simp; omega
  generalize (Py.natDigits m).length = L at hlen hL ⊢
  have hlen' : (c :: rest).length = rest.length + 1 := rfl
  rw [hs] at hD hx
  have hD0 : Py.digitsToNat (c :: rest) ≠ 0 := by
    intro e; rw [e] at hval; omega
  have hmant : Py.digitsToNat (ip ++ fp.getD []) ≠ 0 := by
    rw [hD]
    exact Nat.mul_ne_zero hD0 (Nat.pos_iff_ne_zero.mp (Nat.pow_pos (by omega)))
  generalize hx' : expVal ex - ((fp.getD []).length : Int) = x' at hp1 hp2 hx
  rw [mkDec_eq_mk _ _ _ hmant (by omega) (by omega)] at hp1 hp2
  refine ⟨_, _, Nat.pow_pos (by omega), hp1, hp2, ?_⟩
  rw [hD, ← hval]
  apply pow_balance
  omega

end JPV.Proofs.Float
