import JPV.Impl.Graph
namespace JPV.Proofs
open JPV JPV.Impl JPV.Impl.G

/-- the traversal ends normally or in JSONPathRecursionError, nothing else -/
theorem g_visit_outcomes (h : Heap) (rem : Nat) (loc : Loc) (n : Nat) :
    (visit h rem loc n).2 = none ∨ (visit h rem loc n).2 = some .recursion := by
  sorry

/-- it raises exactly when some path from the start node enters `rem` containers or more -/
theorem g_visit_raises_iff (h : Heap) (rem : Nat) (loc : Loc) (n : Nat) :
    (visit h rem loc n).2 = some .recursion ↔ Chain h n rem := by
  sorry

/-- self-referential data: if the start node reaches a node that reaches itself (or is on a cycle itself),
the traversal raises JSONPathRecursionError for EVERY limit -/
theorem g_cycle_raises (h : Heap) (n m : Nat) (hnm : n = m ∨ Reach h n m) (hc : Reach h m m)
    (max : Int) : (visitTop h max n).2 = some .recursion := by
  sorry

/-- bounded work ("bounded time", no hang, bounded memory): with fan-out at most `B`, at most
1 + B + … + B^(rem-1) nodes are produced, whatever the shape of the heap -/
theorem g_visit_bounded (h : Heap) (B : Nat) (hB : ∀ m, (h.kids m).length ≤ B)
    (rem : Nat) (loc : Loc) (n : Nat) : (visit h rem loc n).1.length ≤ geom B rem := by
  sorry

end JPV.Proofs
