/-
`Proofs.Pc.Defs` — the definitions of `Proofs.PrintCompile` are stated there; this file only collects the
equation lemmas of the printer for the mutual inductions of `Proofs.Pc.*`.
-/
import JPV.Impl.Serialize
import JPV.Proofs.PfPrint
namespace JPV.Proofs.Pc
open JPV JPV.Impl

theorem strExpr_not_lit (v) : Impl.strExpr (.not (.lit v)) = '!' :: Impl.strLit v := by
  rw [Impl.strExpr]
  · rw [Impl.strExpr]
  · intro _ _ _ h; cases h
  · intro _ h; cases h

theorem canon_lit (p v) : Impl.canonExpr p (.lit v) = Impl.strLit v := by rw [Impl.canonExpr]

theorem strSel_filter (e) : Impl.strSel (.filter e) = '?' :: Impl.canonExpr 1 e := by
  rw [Impl.strSel]; rfl

end JPV.Proofs.Pc
