/-
`Proofs.Float.Round2` — `Py.roundBinary64` depends only on the value of the fraction `n/d`.
-/
import JPV.Proofs.Float.Round
namespace JPV.Proofs.Float
open JPV JPV.Proofs.Pc

theorem scaledDiv_scale (n d c : ℕ) (hc : 0 < c) (e : ℤ) :
    Py.scaledDiv (n * c) (d * c) e =
      ((Py.scaledDiv n d e).1, (Py.scaledDiv n d e).2.1 * c, (Py.scaledDiv n d e).2.2 * c) := by
  unfold Py.scaledDiv
  split
  · simp only
    have h1 : d * c * 2 ^ e.toNat = d * 2 ^ e.toNat * c := by
      rw [Nat.mul_assoc, Nat.mul_comm c, ← Nat.mul_assoc]
    rw [h1, Nat.mul_div_mul_right _ _ hc, Nat.mul_mod_mul_right]
  · simp only
    have h1 : n * c * 2 ^ (-e).toNat = n * 2 ^ (-e).toNat * c := by
      rw [Nat.mul_assoc, Nat.mul_comm c, ← Nat.mul_assoc]
    rw [h1, Nat.mul_div_mul_right _ _ hc, Nat.mul_mod_mul_right]

/-- the rounding step of `roundBinary64`: half-even on the remainder `r/den` -/
def roundQ (q r den : ℕ) : ℕ := if 2 * r > den ∨ (2 * r = den ∧ q % 2 = 1) then q + 1 else q

/-- the renormalisation and overflow check of `roundBinary64` -/
def normQ (q : ℕ) (e : ℤ) : Option (ℕ × ℤ) :=
  if q = 2 ^ 53 then (if e + 1 > 971 then none else some (2 ^ 52, e + 1))
  else (if e > 971 then none else some (q, e))

theorem finishE_eq (n d : ℕ) (e : ℤ) : finishE n d e =
    normQ (roundQ (Py.scaledDiv n d e).1 (Py.scaledDiv n d e).2.1 (Py.scaledDiv n d e).2.2) e := by
  unfold finishE roundQ normQ
  generalize Py.scaledDiv n d e = s
  obtain ⟨q, r, den⟩ := s
  simp only
  generalize (if 2 * r > den ∨ (2 * r = den ∧ q % 2 = 1) then q + 1 else q) = q1
  by_cases h : q1 = 2 ^ 53
  · simp only [if_pos h]
  · simp only [if_neg h]

theorem roundQ_scale (q r den c : ℕ) (hc : 0 < c) : roundQ q (r * c) (den * c) = roundQ q r den := by
  unfold roundQ
  have h1 : (2 * (r * c) > den * c) ↔ (2 * r > den) := by
    rw [← Nat.mul_assoc]; exact Nat.mul_lt_mul_right hc
  have h2 : (2 * (r * c) = den * c) ↔ (2 * r = den) := by
    rw [← Nat.mul_assoc]; exact Nat.mul_left_inj (by omega)
  simp only [h1, h2]

theorem finishE_scale (n d c : ℕ) (hc : 0 < c) (e : ℤ) : finishE (n * c) (d * c) e = finishE n d e := by
  rw [finishE_eq, finishE_eq, scaledDiv_scale n d c hc e, roundQ_scale _ _ _ _ hc]

theorem roundBinary64_scale (n d c : ℕ) (hd : 0 < d) (hc : 0 < c) :
    Py.roundBinary64 (n * c) (d * c) = Py.roundBinary64 n d := by
  rw [roundBinary64_eq, roundBinary64_eq]
  by_cases hn : n = 0
  · subst hn; simp
  · have hn' : n * c ≠ 0 := Nat.mul_ne_zero hn (by omega)
    rw [if_neg hn, if_neg hn']
    have s1 := chooseE_spec (n * c) (d * c) (by omega) (Nat.mul_pos hd hc)
    have s2 := chooseE_spec n d (by omega) hd
    have hv : ((n * c : ℕ) : ℚ) / ((d * c : ℕ) : ℚ) = (n : ℚ) / d := by
      have : (c : ℚ) ≠ 0 := by exact_mod_cast hc.ne'
      push_cast
      rw [mul_div_mul_right _ _ this]
    rw [hv] at s1
    rw [s1.unique s2, finishE_scale n d c hc]

/-- `roundBinary64` is a function of the rational `n/d` -/
theorem roundBinary64_congr {n d n' d' : ℕ} (hd : 0 < d) (hd' : 0 < d') (h : n * d' = n' * d) :
    Py.roundBinary64 n d = Py.roundBinary64 n' d' := by
  rw [← roundBinary64_scale n d d' hd hd', ← roundBinary64_scale n' d' d hd' hd, h, Nat.mul_comm d d']

end JPV.Proofs.Float
