"""Wire encoding shared with lean/JPV/Wire.lean (ASCII, one request per line)."""
from __future__ import annotations

import math


def enc_str(s: str) -> str:
    return "q" + ".".join(format(ord(c), "x") for c in s) + ";"


def enc_json(v) -> str:
    if v is None:
        return "n"
    if v is True:
        return "t"
    if v is False:
        return "f"
    if isinstance(v, int):
        return f"i{v};"
    if isinstance(v, float):
        if math.isnan(v):
            raise ValueError("NaN is outside the model")
        if math.isinf(v):
            return "r1/0;" if v > 0 else "r-1/0;"
        n, d = v.as_integer_ratio()
        if n == 0 and math.copysign(1.0, v) < 0:
            return "r0/2;"  # -0.0, see Py.floatOfText
        return f"r{n}/{d};"
    if isinstance(v, str):
        return enc_str(v)
    if isinstance(v, list):
        return "[" + "".join(enc_json(x) for x in v) + "]"
    if isinstance(v, dict):
        return "{" + "".join(enc_str(k) + enc_json(x) for k, x in v.items()) + "}"
    raise TypeError(f"not JSON: {type(v)}")


def enc_key(k) -> str:
    return enc_str(k) if isinstance(k, str) else str(k)


def enc_loc(loc) -> str:
    return ",".join(enc_key(k) for k in loc)


def enc_node(loc, val) -> str:
    return enc_loc(loc) + "|" + enc_json(val)


def enc_nodes(nodes) -> str:
    return " ".join(enc_node(n.location, n.value) for n in nodes)


def enc_opt_int(i) -> str:
    return "_" if i is None else str(i)


TY = {"VALUE": "V", "LOGICAL": "L", "NODES": "N"}


def dec_str(tok: str) -> str:
    assert tok[0] == "q" and tok[-1] == ";", tok
    body = tok[1:-1]
    if not body:
        return ""
    return "".join(chr(int(h, 16)) for h in body.split("."))


def dec_json(s: str):
    v, rest = _dec_json(s, 0)
    assert rest == len(s), (s, rest)
    return v


def _dec_json(s: str, i: int):
    c = s[i]
    if c == "n":
        return None, i + 1
    if c == "t":
        return True, i + 1
    if c == "f":
        return False, i + 1
    if c == "i":
        j = s.index(";", i)
        return int(s[i + 1 : j]), j + 1
    if c == "r":
        j = s.index(";", i)
        n, d = s[i + 1 : j].split("/")
        if int(d) == 0:
            return math.copysign(math.inf, int(n)), j + 1
        if int(n) == 0 and int(d) == 2:
            return -0.0, j + 1
        return int(n) / int(d), j + 1
    if c == "q":
        j = s.index(";", i)
        return dec_str(s[i : j + 1]), j + 1
    if c == "[":
        i += 1
        out = []
        while s[i] != "]":
            v, i = _dec_json(s, i)
            out.append(v)
        return out, i + 1
    if c == "{":
        i += 1
        d = {}
        while s[i] != "}":
            j = s.index(";", i)
            k = dec_str(s[i : j + 1])
            v, i = _dec_json(s, j + 1)
            d[k] = v
        return d, i + 1
    raise ValueError(s[i:])
