import JPV.Spec.Grammar
import JPV.Spec.NormalizedPath
import JPV.Proofs.PathsInj
namespace JPV.Proofs.Prn
open JPV JPV.Proofs

/-! ### integers -/

theorem isDIGIT_iff (c : Char) : Spec.isDIGIT c = true ↔ 48 ≤ c.toNat ∧ c.toNat ≤ 57 := by
  simp [Spec.isDIGIT, Char.le_def, UInt32.le_iff_toNat_le]

theorem isDIGIT1_iff (c : Char) : Spec.isDIGIT1 c = true ↔ 49 ≤ c.toNat ∧ c.toNat ≤ 57 := by
  simp [Spec.isDIGIT1, Char.le_def, UInt32.le_iff_toNat_le]

theorem isDIGIT_of_isDigit {c : Char} (h : c.isDigit = true) : Spec.isDIGIT c = true := by
  rw [isDIGIT_iff]
  simpa [Char.isDigit, UInt32.le_iff_toNat_le] using h

theorem toDigits_isDIGIT (n : Nat) : ∀ c ∈ Nat.toDigits 10 n, Spec.isDIGIT c = true :=
  fun _ hc => isDIGIT_of_isDigit (Nat.isDigit_of_mem_toDigits (by omega) (by omega) hc)

theorem digitsToNat_eq (ds : List Char) : Py.digitsToNat ds = Nat.ofDigitChars 10 ds 0 := by
  unfold Py.digitsToNat Nat.ofDigitChars
  congr 1
  funext a c
  rw [Nat.mul_comm]; rfl

theorem digitsToNat_toDigits (n : Nat) : Py.digitsToNat (Nat.toDigits 10 n) = n := by
  rw [digitsToNat_eq, Nat.ofDigitChars_ten_toDigits]

theorem digitChar_D1 : ∀ n < 10, 0 < n → Spec.isDIGIT1 (Nat.digitChar n) = true := by decide

theorem toDigits_head (n : Nat) (h : 0 < n) :
    ∃ d ds, Nat.toDigits 10 n = d :: ds ∧ Spec.isDIGIT1 d = true := by
  induction n using Nat.strongRecOn with
  | _ n ih =>
    rw [Nat.toDigits_eq_if (by omega)]
    split
    · exact ⟨_, [], rfl, digitChar_D1 n (by omega) h⟩
    · obtain ⟨d, ds, e, hd⟩ := ih (n / 10) (by omega) (by omega)
      exact ⟨d, ds ++ [Nat.digitChar (n % 10)], by rw [e]; rfl, hd⟩

theorem takeWhile_append_of {α} (p : α → Bool) (ds rest : List α) (h1 : ∀ c ∈ ds, p c = true)
    (h2 : ∀ c t, rest = c :: t → p c = false) : (ds ++ rest).takeWhile p = ds := by
  induction ds with
  | nil =>
    cases rest with
    | nil => rfl
    | cons c t => simp [h2 c t rfl]
  | cons d ds ih =>
    simp only [List.cons_append, List.takeWhile, h1 d (by simp)]
    rw [ih (fun c hc => h1 c (by simp [hc]))]

/-- `rest` does not begin with a digit -/
def NoDigit (rest : List Char) : Prop := ∀ c t, rest = c :: t → Spec.isDIGIT c = false

theorem reprInt_eq (i : Int) : Py.reprInt i =
    if 0 ≤ i then Nat.toDigits 10 i.toNat else '-' :: Nat.toDigits 10 (-i).toNat := by
  unfold Py.reprInt
  rw [Int.toString_eq_repr, Int.repr_eq_if]
  split
  · exact Nat.toList_repr
  · rw [String.toList_append, Nat.toList_repr]; rfl

theorem intLit_pos (n : Nat) (h : 0 < n) (rest : List Char) (hr : NoDigit rest) :
    Spec.intLit (Nat.toDigits 10 n ++ rest) = some ((n : Int), rest) := by
  obtain ⟨d, ds, e, hd⟩ := toDigits_head n h
  have htw : ((d :: ds) ++ rest).takeWhile Spec.isDIGIT = d :: ds := by
    rw [← e]; exact takeWhile_append_of _ _ _ (toDigits_isDIGIT n) hr
  have hv : Py.digitsToNat (d :: ds) = n := by rw [← e, digitsToNat_toDigits]
  have h0 : d ≠ '0' := by rintro rfl; revert hd; decide
  have hm : d ≠ '-' := by rintro rfl; revert hd; decide
  rw [e]
  simp only [List.cons_append] at htw ⊢
  unfold Spec.intLit
  split
  · rename_i heq; simp only [List.cons.injEq] at heq; exact absurd heq.1 h0
  · rename_i heq; simp only [List.cons.injEq] at heq; exact absurd heq.1 hm
  · rename_i c r _ _ heq
    simp only [List.cons.injEq] at heq
    obtain ⟨rfl, rfl⟩ := heq
    rw [if_pos hd]
    simp only [htw, hv, List.length_cons]
    simp
  · rename_i heq; simp at heq

theorem intLit_neg (n : Nat) (h : 0 < n) (rest : List Char) (hr : NoDigit rest) :
    Spec.intLit ('-' :: (Nat.toDigits 10 n ++ rest)) = some (-(n : Int), rest) := by
  obtain ⟨d, ds, e, hd⟩ := toDigits_head n h
  have htw : ((d :: ds) ++ rest).takeWhile Spec.isDIGIT = d :: ds := by
    rw [← e]; exact takeWhile_append_of _ _ _ (toDigits_isDIGIT n) hr
  have hv : Py.digitsToNat (d :: ds) = n := by rw [← e, digitsToNat_toDigits]
  rw [e]
  simp only [List.cons_append] at htw ⊢
  unfold Spec.intLit
  split
  · rename_i heq; simp at heq
  · rename_i c r heq
    simp only [List.cons.injEq, true_and] at heq
    obtain ⟨rfl, rfl⟩ := heq
    rw [if_pos hd]
    simp only [htw, hv, List.length_cons]
    simp
  · rename_i hne hx heq
    simp only [List.cons.injEq] at heq
    exact (hx d (ds ++ rest) heq.1.symm heq.2.symm).elim
  · rename_i heq; simp at heq

theorem intLit_reprInt (i : Int) (rest : List Char) (hr : NoDigit rest) :
    Spec.intLit (Py.reprInt i ++ rest) = some (i, rest) := by
  rw [reprInt_eq]
  split
  · rename_i h
    by_cases h0 : i = 0
    · subst h0; rfl
    · have := intLit_pos i.toNat (by omega) rest hr
      rw [this]; congr 2; omega
  · rename_i h
    have := intLit_neg (-i).toNat (by omega) rest hr
    rw [List.cons_append, this]; congr 2; omega

end JPV.Proofs.Prn
