import JPV.Proofs.PfGrammar
namespace JPV.Proofs.Pf
open JPV JPV.Proofs JPV.Proofs.Prn

/-! ### parse judgements for printed texts, and their composition -/

def singOK : Expr → Bool
  | .rel q => Query.isSingular q
  | .root q => Query.isSingular q
  | _ => true

def isLit : Expr → Bool
  | .lit _ => true
  | _ => false

/-- first character of a printed term -/
def THb (c : Char) : Bool := c = '@' || c = '$' || c = '\'' || Spec.isLCALPHA c
def THc (c : Char) : Prop := THb c = true
instance (c : Char) : Decidable (THc c) := by unfold THc; infer_instance
theorem THc.cases {c : Char} (h : THc c) : c = '@' ∨ c = '$' ∨ c = '\'' ∨ Spec.isLCALPHA c = true := by
  simpa [THc, THb, or_assoc] using h
def TH (s : Str) : Prop := ∃ c t, s = c :: t ∧ THc c
/-- first character of a printed expression: not blank, not `)` -/
def NB (s : Str) : Prop := ∃ c t, s = c :: t ∧ Spec.isBlank c = false ∧ c ≠ ')'

theorem isLCALPHA_iff (c : Char) : Spec.isLCALPHA c = true ↔ 97 ≤ c.toNat ∧ c.toNat ≤ 122 := by
  simp [Spec.isLCALPHA, Char.le_def, UInt32.le_iff_toNat_le]

theorem THc.ne {c : Char} (h : THc c) (d : Char) (hd : THb d = false := by decide) : c ≠ d := by
  rintro rfl; rw [THc, hd] at h; cases h

theorem THc.notBlank {c : Char} (h : THc c) : Spec.isBlank c = false := by
  rcases h.cases with rfl | rfl | rfl | h
  · decide
  · decide
  · decide
  · rw [isLCALPHA_iff] at h
    simp only [Spec.isBlank, Bool.or_eq_false_iff, decide_eq_false_iff_not]
    refine ⟨⟨⟨?_, ?_⟩, ?_⟩, ?_⟩ <;> rintro rfl <;> revert h <;> decide

theorem TH.nb {s} (h : TH s) : NB s := by
  obtain ⟨c, t, rfl, hc⟩ := h
  refine ⟨c, t, rfl, hc.notBlank, ?_⟩
  exact hc.ne ')'

theorem NB.skipS {s} (h : NB s) (rest : List Char) : Spec.skipS (s ++ rest) = s ++ rest := by
  obtain ⟨c, t, rfl, hb, _⟩ := h
  exact skipS_cons hb _

structure Good (cx : Spec.CExpr) (e : Expr) : Prop where
  abs : Spec.abstractExpr cx = e
  shape : Spec.cmpShapeExpr cx = (true, false)

def PT (s : Str) (e : Expr) : Prop :=
  TH s ∧ ∀ rest, SafeT rest → ∀ fuel, 2 * s.length + 2 ≤ fuel →
    ∃ cx, Spec.term fuel (s ++ rest) = some (cx, rest) ∧ Good cx e ∧
      (singOK e = true → Spec.operandShape cx = (true, false))

def PB (s : Str) (e : Expr) : Prop :=
  NB s ∧ ∀ rest, Follow rest → ∀ fuel, 2 * s.length + 3 ≤ fuel →
    ∃ cx, Spec.basic fuel (s ++ rest) = some (cx, rest) ∧ Good cx e

def PA (s : Str) (e : Expr) : Prop :=
  NB s ∧ ∀ rest, SafeA rest → ∀ fuel, 2 * s.length + 4 ≤ fuel →
    ∃ cx, Spec.logicalAnd fuel (s ++ rest) = some (cx, rest) ∧ Good cx e

def PO (s : Str) (e : Expr) : Prop :=
  NB s ∧ ∀ rest, SafeO rest → ∀ fuel, 2 * s.length + 5 ≤ fuel →
    ∃ cx, Spec.logicalOr fuel (s ++ rest) = some (cx, rest) ∧ Good cx e

theorem notLit_of_abs {cx : Spec.CExpr} {e : Expr} (h : Spec.abstractExpr cx = e)
    (hl : isLit e = false) : ∀ v, cx ≠ .lit v := by
  rintro v rfl
  rw [Spec.abstractExpr] at h
  subst h
  simp [isLit] at hl

/-- a query or call standing alone is a test -/
theorem PT.test {s e} (h : PT s e) (hl : isLit e = false) : PB s e := by
  obtain ⟨hh, hp⟩ := h
  refine ⟨hh.nb, ?_⟩
  intro rest hr fuel hf
  obtain ⟨f, rfl⟩ : ∃ f, fuel = f + 1 := ⟨fuel - 1, by omega⟩
  obtain ⟨cx, hcx, hg, _⟩ := hp rest (.follow hr) f (by omega)
  refine ⟨cx, ?_, hg⟩
  obtain ⟨c, t, rfl, hc⟩ := hh
  rw [List.cons_append] at hcx ⊢
  rw [basic_other _ _ _ (hc.ne '!') (hc.ne '('), hcx]
  simp only [hr.cmpNone]
  have := notLit_of_abs hg.abs hl
  cases cx <;> first | rfl | exact absurd rfl (this _)

theorem comparisonOp_copText (op : COp) (X : List Char) :
    Spec.comparisonOp (Impl.copText op ++ ' ' :: X) = some (op, ' ' :: X) := by
  cases op <;> rfl

/-- a comparison -/
theorem PT.cmp {s1 s2 l r} (op : COp) (h1 : PT s1 l) (h2 : PT s2 r)
    (hl : singOK l = true) (hr : singOK r = true) :
    PB (s1 ++ [' '] ++ Impl.copText op ++ [' '] ++ s2) (.cmp op l r) := by
  obtain ⟨hh1, hp1⟩ := h1
  obtain ⟨hh2, hp2⟩ := h2
  refine ⟨?_, ?_⟩
  · obtain ⟨c, t, rfl, hb, hc⟩ := hh1.nb
    exact ⟨c, _, by simp only [List.cons_append, List.append_assoc]; rfl, hb, hc⟩
  intro rest hrest fuel hf
  simp only [List.length_append, List.length_cons, List.length_nil] at hf
  obtain ⟨f, rfl⟩ : ∃ f, fuel = f + 1 := ⟨fuel - 1, by omega⟩
  obtain ⟨cl, hcl, hgl, hsl⟩ := hp1 (' ' :: (Impl.copText op ++ ' ' :: (s2 ++ rest))) (.cop op _) f (by omega)
  obtain ⟨cr, hcr, hgr, hsr⟩ := hp2 rest (.follow hrest) f (by omega)
  refine ⟨.cmp op cl cr, ?_, ?_, ?_⟩
  · have e : s1 ++ [' '] ++ Impl.copText op ++ [' '] ++ s2 ++ rest
        = s1 ++ ' ' :: (Impl.copText op ++ ' ' :: (s2 ++ rest)) := by simp
    rw [e]
    obtain ⟨c, t, rfl, hc⟩ := hh1
    rw [List.cons_append] at hcl ⊢
    rw [basic_other _ _ _ (hc.ne '!') (hc.ne '('), hcl]
    simp only [skipS_sp]
    obtain ⟨d, u, ed, hd⟩ := copText_cases op
    have hdb : Spec.isBlank d = false := by rcases hd with rfl | rfl | rfl | rfl <;> decide
    have : Spec.skipS (Impl.copText op ++ ' ' :: (s2 ++ rest)) = Impl.copText op ++ ' ' :: (s2 ++ rest) := by
      rw [ed]; exact skipS_cons hdb _
    rw [this, comparisonOp_copText]
    simp only [skipS_sp, hh2.nb.skipS, hcr]
  · rw [Spec.abstractExpr, hgl.abs, hgr.abs]
  · rw [Spec.cmpShapeExpr, hgl.shape, hgr.shape, hsl hl, hsr hr]; rfl

theorem PB.toA {s e} (h : PB s e) : PA s e := by
  obtain ⟨hh, hp⟩ := h
  refine ⟨hh, ?_⟩
  intro rest hr fuel hf
  obtain ⟨f, rfl⟩ : ∃ f, fuel = f + 1 := ⟨fuel - 1, by omega⟩
  obtain ⟨cx, hcx, hg⟩ := hp rest hr.1 f (by omega)
  exact ⟨cx, logicalAnd_stop hcx hr.2, hg⟩

theorem PA.toO {s e} (h : PA s e) : PO s e := by
  obtain ⟨hh, hp⟩ := h
  refine ⟨hh, ?_⟩
  intro rest hr fuel hf
  obtain ⟨f, rfl⟩ : ∃ f, fuel = f + 1 := ⟨fuel - 1, by omega⟩
  obtain ⟨cx, hcx, hg⟩ := hp rest hr.1 f (by omega)
  exact ⟨cx, logicalOr_stop hcx hr.2, hg⟩

theorem PB.toO {s e} (h : PB s e) : PO s e := h.toA.toO

theorem safeO_rparen (t : List Char) : SafeO (')' :: t) :=
  ⟨⟨.rparen t, by rw [skipS_cons (by decide)]; exact lit_and_none _ _ (by decide)⟩,
    by rw [skipS_cons (by decide)]; exact lit_or_none _ _ (by decide)⟩
theorem safeO_rbrack (t : List Char) : SafeO (']' :: t) :=
  ⟨⟨.rbrack t, by rw [skipS_cons (by decide)]; exact lit_and_none _ _ (by decide)⟩,
    by rw [skipS_cons (by decide)]; exact lit_or_none _ _ (by decide)⟩
theorem safeO_comma (t : List Char) : SafeO (',' :: t) :=
  ⟨⟨.comma t, by rw [skipS_cons (by decide)]; exact lit_and_none _ _ (by decide)⟩,
    by rw [skipS_cons (by decide)]; exact lit_or_none _ _ (by decide)⟩
theorem safeA_or (t : List Char) : SafeA (' ' :: '|' :: '|' :: ' ' :: t) :=
  ⟨.or t, by rw [skipS_sp, skipS_cons (by decide)]; exact lit_and_none _ _ (by decide)⟩

/-- parentheses -/
theorem PO.paren {s e} (h : PO s e) : PB (['('] ++ s ++ [')']) e := by
  obtain ⟨hh, hp⟩ := h
  refine ⟨⟨'(', _, rfl, by decide, by decide⟩, ?_⟩
  intro rest _ fuel hf
  simp only [List.length_append, List.length_cons, List.length_nil] at hf
  obtain ⟨f, rfl⟩ : ∃ f, fuel = f + 2 := ⟨fuel - 2, by omega⟩
  obtain ⟨cx, hcx, hg⟩ := hp (')' :: rest) (safeO_rparen rest) f (by omega)
  refine ⟨.paren cx, ?_, ?_, ?_⟩
  · have e : ['('] ++ s ++ [')'] ++ rest = '(' :: (s ++ ')' :: rest) := by simp
    rw [e, basic_paren]
    exact parenExpr_ok (hh.skipS _) hcx
  · rw [Spec.abstractExpr, hg.abs]
  · rw [Spec.cmpShapeExpr, hg.shape]

theorem NB.append {s} (h : NB s) (t : List Char) : NB (s ++ t) := by
  obtain ⟨c, u, rfl, hb, hc⟩ := h
  exact ⟨c, u ++ t, rfl, hb, hc⟩

/-- `a && b` -/
theorem PB.and {s1 s2 l r} (h1 : PB s1 l) (h2 : PA s2 r) :
    PA (s1 ++ [' ', '&', '&', ' '] ++ s2) (.logical .and l r) := by
  obtain ⟨hh1, hp1⟩ := h1
  obtain ⟨hh2, hp2⟩ := h2
  refine ⟨by rw [List.append_assoc]; exact hh1.append _, ?_⟩
  intro rest hrest fuel hf
  simp only [List.length_append, List.length_cons, List.length_nil] at hf
  obtain ⟨f, rfl⟩ : ∃ f, fuel = f + 1 := ⟨fuel - 1, by omega⟩
  obtain ⟨cl, hcl, hgl⟩ := hp1 (' ' :: '&' :: '&' :: ' ' :: (s2 ++ rest)) (.and _) f (by omega)
  obtain ⟨cr, hcr, hgr⟩ := hp2 rest hrest f (by omega)
  refine ⟨.and cl cr, ?_, ?_, ?_⟩
  · have e : s1 ++ [' ', '&', '&', ' '] ++ s2 ++ rest
        = s1 ++ ' ' :: '&' :: '&' :: ' ' :: (s2 ++ rest) := by simp
    rw [e]
    exact logicalAnd_step hcl (hh2.skipS _) hcr
  · rw [Spec.abstractExpr, hgl.abs, hgr.abs]
  · rw [Spec.cmpShapeExpr, hgl.shape, hgr.shape]; rfl

/-- `a || b` -/
theorem PA.or {s1 s2 l r} (h1 : PA s1 l) (h2 : PO s2 r) :
    PO (s1 ++ [' ', '|', '|', ' '] ++ s2) (.logical .or l r) := by
  obtain ⟨hh1, hp1⟩ := h1
  obtain ⟨hh2, hp2⟩ := h2
  refine ⟨by rw [List.append_assoc]; exact hh1.append _, ?_⟩
  intro rest hrest fuel hf
  simp only [List.length_append, List.length_cons, List.length_nil] at hf
  obtain ⟨f, rfl⟩ : ∃ f, fuel = f + 1 := ⟨fuel - 1, by omega⟩
  obtain ⟨cl, hcl, hgl⟩ := hp1 (' ' :: '|' :: '|' :: ' ' :: (s2 ++ rest)) (safeA_or _) f (by omega)
  obtain ⟨cr, hcr, hgr⟩ := hp2 rest hrest f (by omega)
  refine ⟨.or cl cr, ?_, ?_, ?_⟩
  · have e : s1 ++ [' ', '|', '|', ' '] ++ s2 ++ rest
        = s1 ++ ' ' :: '|' :: '|' :: ' ' :: (s2 ++ rest) := by simp
    rw [e]
    exact logicalOr_step hcl (hh2.skipS _) hcr
  · rw [Spec.abstractExpr, hgl.abs, hgr.abs]
  · rw [Spec.cmpShapeExpr, hgl.shape, hgr.shape]; rfl

/-- `!( … )` -/
theorem PO.notParen {s e} (h : PO s e) : PB (['!', '('] ++ s ++ [')']) (.not e) := by
  obtain ⟨hh, hp⟩ := h
  refine ⟨⟨'!', _, rfl, by decide, by decide⟩, ?_⟩
  intro rest _ fuel hf
  simp only [List.length_append, List.length_cons, List.length_nil] at hf
  obtain ⟨f, rfl⟩ : ∃ f, fuel = f + 2 := ⟨fuel - 2, by omega⟩
  obtain ⟨cx, hcx, hg⟩ := hp (')' :: rest) (safeO_rparen rest) f (by omega)
  refine ⟨.not (.paren cx), ?_, ?_, ?_⟩
  · have e : ['!', '('] ++ s ++ [')'] ++ rest = '!' :: '(' :: (s ++ ')' :: rest) := by simp
    rw [e, basic_bang_paren, parenExpr_ok (hh.skipS _) hcx]
    rfl
  · rw [Spec.abstractExpr, Spec.abstractExpr, hg.abs]
  · rw [Spec.cmpShapeExpr, Spec.cmpShapeExpr, hg.shape]

/-- `!` before a query or call -/
theorem PT.not {s e} (h : PT s e) (hl : isLit e = false) : PB ('!' :: s) (.not e) := by
  obtain ⟨hh, hp⟩ := h
  refine ⟨⟨'!', _, rfl, by decide, by decide⟩, ?_⟩
  intro rest hr fuel hf
  simp only [List.length_cons] at hf
  obtain ⟨f, rfl⟩ : ∃ f, fuel = f + 1 := ⟨fuel - 1, by omega⟩
  obtain ⟨cx, hcx, hg, _⟩ := hp rest (.follow hr) f (by omega)
  refine ⟨.not cx, ?_, ?_, ?_⟩
  · obtain ⟨c, t, rfl, hc⟩ := hh
    rw [List.cons_append] at hcx
    rw [List.cons_append, List.cons_append, basic_bang_term _ _ _ hc.notBlank (hc.ne '(') (hc.ne '='), hcx]
    have := notLit_of_abs hg.abs hl
    cases cx <;> first | rfl | exact absurd rfl (this _)
  · rw [Spec.abstractExpr, hg.abs]
  · rw [Spec.cmpShapeExpr, hg.shape]

end JPV.Proofs.Pf
