/-
`Proofs.Cs.LexSlice` — a slice selector of the grammar is lexed to INDEX / COLON tokens.
-/
import JPV.Proofs.Cs.LexInt
namespace JPV.Proofs.Cs
open JPV JPV.Impl JPV.Proofs.Rq

theorem lit_colon_eq (r : List Char) : Spec.lit ":" r = match r with
    | ':' :: t => some t
    | _ => none := by
  have hl : ":".length = 1 := by decide
  have ht : ":".toList = [':'] := by decide
  unfold Spec.lit
  rw [ht, hl]
  cases r with
  | nil => simp [List.isPrefixOf]
  | cons c t =>
    by_cases hc : c = ':'
    · subst hc; simp [List.isPrefixOf]
    · have : ¬ (':' = c) := fun e => hc e.symm
      simp [List.isPrefixOf, this]
      split
      · rename_i heq; simp only [List.cons.injEq] at heq; exact absurd heq.1 hc
      · rfl

theorem lit_colon_cases (r : List Char) :
    (∃ t, r = ':' :: t ∧ Spec.lit ":" r = some t) ∨ ((∀ t, r ≠ ':' :: t) ∧ Spec.lit ":" r = none) := by
  rw [lit_colon_eq]
  split
  · exact .inl ⟨_, rfl, rfl⟩
  · rename_i hne; exact .inr ⟨fun t e => hne t e, rfl⟩

/-- what follows a selector: `,` or `]` after optional blank space -/
def Follow (rest : List Char) : Prop := ∃ t, Spec.skipS rest = ',' :: t ∨ Spec.skipS rest = ']' :: t

theorem Follow.noDigit {r : List Char} (h : Follow r) : Prn.NoDigit r := by
  obtain ⟨t, e | e⟩ := h
  · exact noDigit_of_skipS e (by decide)
  · exact noDigit_of_skipS e (by decide)

theorem Follow.of_skipS {r : List Char} (h : Follow (Spec.skipS r)) : Follow r := by
  obtain ⟨t, e⟩ := h
  rw [skipS_idem] at e
  exact ⟨t, e⟩

theorem Follow.not_colon {r t : List Char} (h : Follow r) : Spec.skipS r ≠ ':' :: t := by
  obtain ⟨t', e | e⟩ := h <;> rw [e] <;> simp

/-- the part of `sliceSelector` after `stop S` -/
def sliceEnd (a b : Option Int) (r : List Char) : Option (Spec.CSelector × List Char) :=
  match Spec.lit ":" r with
  | some r2 =>
    match Spec.intLit (Spec.skipS r2) with
    | some (st, r3) => some (.slice a b (some st), r3)
    | none => some (.slice a b none, r2)
  | none => some (.slice a b none, r)

/-- the part of `sliceSelector` after `start S` -/
def sliceMid (a : Option Int) (r : List Char) : Option (Spec.CSelector × List Char) :=
  match Spec.lit ":" r with
  | none => none
  | some r1 =>
    match Spec.intLit (Spec.skipS r1) with
    | some (i, r') => sliceEnd a (some i) (Spec.skipS r')
    | none => sliceEnd a none (Spec.skipS r1)

theorem sliceSelector_eq (inp : List Char) : Spec.sliceSelector inp =
    match Spec.intLit inp with
    | some (i, r) => sliceMid (some i) (Spec.skipS r)
    | none => sliceMid none inp := by
  unfold Spec.sliceSelector sliceMid sliceEnd
  cases h1 : Spec.intLit inp with
  | none =>
    simp only []
    cases h2 : Spec.lit ":" inp with
    | none => rfl
    | some r1 =>
      simp only [bind, Option.bind]
      cases h3 : Spec.intLit (Spec.skipS r1) with
      | none => rfl
      | some p => rfl
  | some p =>
    obtain ⟨i, r⟩ := p
    simp only []
    cases h2 : Spec.lit ":" (Spec.skipS r) with
    | none => rfl
    | some r1 =>
      simp only [bind, Option.bind]
      cases h3 : Spec.intLit (Spec.skipS r1) with
      | none => rfl
      | some p => rfl


theorem skipS_colon (t : List Char) : Spec.skipS (':' :: t) = ':' :: t := skipS_of_head (by decide)

theorem sliceEnd_head {a b : Option Int} {x : List Char} {sel : Spec.CSelector} {rest : List Char}
    (h : sliceEnd a b x = some (sel, rest)) (hf : Follow rest) : (∃ t, x = ':' :: t) ∨ Follow x := by
  unfold sliceEnd at h
  rcases lit_colon_cases x with ⟨t, e, hl⟩ | ⟨_, hl⟩
  · exact .inl ⟨t, e⟩
  · simp only [hl, Option.some.injEq, Prod.mk.injEq] at h
    exact .inr (h.2 ▸ hf)

theorem BL_sliceEnd {a b : Option Int} {r : List Char} {sel : Spec.CSelector} {rest : List Char}
    (h : sliceEnd a b r = some (sel, rest)) (hf : Follow rest) :
    BL r (fun ts => ∃ c, sel = .slice a b c ∧ StepShape c ts) rest := by
  unfold sliceEnd at h
  rcases lit_colon_cases r with ⟨r2, rfl, hl⟩ | ⟨_, hl⟩
  · simp only [hl] at h
    have b1 := BL_colon (skipS_colon r2)
    cases h3 : Spec.intLit (Spec.skipS r2) with
    | some p =>
      obtain ⟨st, r3⟩ := p
      simp only [h3, Option.some.injEq, Prod.mk.injEq] at h
      obtain ⟨rfl, rfl⟩ := h
      have b2 := BL_int h3 hf.noDigit
      refine (b1.seq b2).mono ?_
      rintro ts ⟨t1, t2, rfl, ⟨k, rfl⟩, ⟨v, k', hi, rfl⟩⟩
      exact ⟨_, rfl, .step v st k k' hi⟩
    | none =>
      simp only [h3, Option.some.injEq, Prod.mk.injEq] at h
      obtain ⟨rfl, rfl⟩ := h
      refine b1.mono ?_
      rintro ts ⟨k, rfl⟩
      exact ⟨_, rfl, .colon k⟩
  · simp only [hl, Option.some.injEq, Prod.mk.injEq] at h
    obtain ⟨rfl, rfl⟩ := h
    refine (BL.skip rfl).mono ?_
    rintro ts rfl
    exact ⟨_, rfl, .absent⟩

theorem BL_sliceMid {a : Option Int} {r : List Char} {sel : Spec.CSelector} {rest : List Char}
    (h : sliceMid a r = some (sel, rest)) (hf : Follow rest) :
    BL r (fun ts => ∃ b c tb tc k, sel = .slice a b c ∧ OptShape b tb ∧ StepShape c tc ∧
      ts = ⟨.colon, [':'], k⟩ :: (tb ++ tc)) rest := by
  unfold sliceMid at h
  rcases lit_colon_cases r with ⟨r1, rfl, hl⟩ | ⟨_, hl⟩
  · simp only [hl] at h
    have b1 := BL_colon (skipS_colon r1)
    cases h3 : Spec.intLit (Spec.skipS r1) with
    | some p =>
      obtain ⟨i, r'⟩ := p
      simp only [h3] at h
      have hnd : Prn.NoDigit r' := by
        rcases sliceEnd_head h hf with ⟨t, e⟩ | hf'
        · exact noDigit_of_skipS e (by decide)
        · exact hf'.of_skipS.noDigit
      have b2 := BL_int h3 hnd
      have b3 := (BL_sliceEnd h hf).congr_left (skipS_idem r').symm
      refine ((b1.seq b2).seq b3).mono ?_
      rintro ts ⟨t12, t3, rfl, ⟨t1, t2, rfl, ⟨k, rfl⟩, ⟨v, k', hi, rfl⟩⟩, ⟨c, rfl, hc⟩⟩
      exact ⟨some i, c, _, t3, k, rfl, .some v i k' hi, hc, rfl⟩
    | none =>
      simp only [h3] at h
      have b3 := (BL_sliceEnd h hf).congr_left (skipS_idem r1).symm
      refine (b1.seq b3).mono ?_
      rintro ts ⟨t1, t3, rfl, ⟨k, rfl⟩, ⟨c, rfl, hc⟩⟩
      exact ⟨none, c, [], t3, k, rfl, .none, hc, rfl⟩
  · simp [hl] at h

theorem BL_slice {inp : List Char} {sel : Spec.CSelector} {rest : List Char} (hin : Spec.skipS inp = inp)
    (h : Spec.sliceSelector inp = some (sel, rest)) (hf : Follow rest) : BL inp (SelShape sel) rest := by
  rw [sliceSelector_eq] at h
  cases h1 : Spec.intLit inp with
  | some p =>
    obtain ⟨i, r⟩ := p
    simp only [h1] at h
    have hnd : Prn.NoDigit r := by
      unfold sliceMid at h
      rcases lit_colon_cases (Spec.skipS r) with ⟨r1, heq, hl⟩ | ⟨_, hl⟩
      · exact noDigit_of_skipS heq (by decide)
      · simp [hl] at h
    have b1 := BL_int (inp := inp) (by rw [hin]; exact h1) hnd
    have b2 := (BL_sliceMid h hf).congr_left (skipS_idem r).symm
    refine (b1.seq b2).mono ?_
    rintro ts ⟨t1, t2, rfl, ⟨v, k', hi, rfl⟩, ⟨b, c, tb, tc, k, rfl, hb, hc, rfl⟩⟩
    exact .slice (some i) b c _ tb tc k (.some v i k' hi) hb hc
  | none =>
    simp only [h1] at h
    refine (BL_sliceMid h hf).mono ?_
    rintro ts ⟨b, c, tb, tc, k, rfl, hb, hc, rfl⟩
    exact .slice none b c [] tb tc k .none hb hc

end JPV.Proofs.Cs
