/-
`Proofs.Cf.LexFStr` — a string literal of the grammar inside a filter is one string token of the lexer
whose decoding is the grammar's value (`Cs.BL_str` for the filter state, at any depth).
-/
import JPV.Proofs.Cf.LexFSteps
import JPV.Proofs.Cs.LexStr
namespace JPV.Proofs.Cf
open JPV JPV.Impl JPV.Proofs.Rq

variable {D : Int} {l : Lexer} {pre : List Char} {toks : List Token} {br : List (Char × Nat)}

/-- a scanned body between quotes, read from the filter state (`f = true`) or the bracketed state -/
theorem filter_quoted {q : Char} (hq : q = '\'' ∨ q = '"') {body r : List Char} (hsc : Scanned q body)
    (h : FSt D l pre [] (q :: (body ++ q :: r)) toks br) :
    ∃ l', Reach .filter l .filter l' ∧
      FSt D l' (pre ++ q :: (body ++ [q])) [] r (⟨strKind q, body, ((pre.length + 1 : Nat) : Int)⟩ :: toks) br := by
  have hq' : q ≠ '\\' := by rcases hq with rfl | rfl <;> decide
  have s1 : Impl.step .filter l = .ok (l.adv, some (.strStart q true)) := by
    rcases hq with rfl | rfl
    · exact lexFilter_quote h
    · exact lexFilter_dquote h
  have h2 := h.adv
  have s3 := lexStrStart_exec (q := q) (f := true) h2 (by simp)
  have h3 := h2.ignore
  obtain ⟨l4, r4, h4⟩ := strLoop_walk (f := true) hq' hsc _ _ h3
  simp only [retState, List.nil_append, if_true] at r4 h4
  exact ⟨l4, .step s1 (.step s3 r4), by simpa using h4⟩

/-- the same in the bracketed state at any depth -/
theorem bracketed_quoted {q : Char} (hq : q = '\'' ∨ q = '"') {body r : List Char} (hsc : Scanned q body)
    (h : FSt D l pre [] (q :: (body ++ q :: r)) toks br) :
    ∃ l', Reach .bracketed l .bracketed l' ∧
      FSt D l' (pre ++ q :: (body ++ [q])) [] r (⟨strKind q, body, ((pre.length + 1 : Nat) : Int)⟩ :: toks) br := by
  have hq' : q ≠ '\\' := by rcases hq with rfl | rfl <;> decide
  have s1 : Impl.step .bracketed l = .ok (l.adv, some (.strStart q false)) := by
    rcases hq with rfl | rfl
    · exact lexBracketed_quote h
    · exact lexBracketed_dquote h
  have h2 := h.adv
  have s3 := lexStrStart_exec (q := q) (f := false) h2 (by simp)
  have h3 := h2.ignore
  obtain ⟨l4, r4, h4⟩ := strLoop_walk (f := false) hq' hsc _ _ h3
  simp only [retState, List.nil_append] at r4 h4
  exact ⟨l4, .step s1 (.step s3 r4), by simpa using h4⟩

/-- what the grammar's `string-literal` is made of: a quote, a scanned body whose decoding is the value, the
same quote, the rest -/
theorem stringLiteral_inv {inp r : List Char} {s : Str} (hs : Spec.stringLiteral inp = some (s, r)) :
    ∃ q body, (q = '\'' ∨ q = '"') ∧ Scanned q body ∧ inp = q :: (body ++ q :: r) ∧
      decodeStringLiteral (strKind q) body = .ok s := by
  unfold Spec.stringLiteral at hs
  split at hs
  · obtain ⟨body, hsc, e, hd⟩ := Cs.stringBody_scan (.inr rfl) hs
    exact ⟨'"', body, .inr rfl, hsc, by rw [e], hd⟩
  · obtain ⟨body, hsc, e, hd⟩ := Cs.stringBody_scan (.inl rfl) hs
    exact ⟨'\'', body, .inl rfl, hsc, by rw [e], hd⟩
  · simp at hs

/-- a string literal in a filter, exact positions: the token is the text between the quotes -/
theorem filter_str_exact {inp r : List Char} {s : Str} (h : FSt D l pre [] inp toks br)
    (hs : Spec.stringLiteral inp = some (s, r)) :
    ∃ l' q body, (q = '\'' ∨ q = '"') ∧ decodeStringLiteral (strKind q) body = .ok s ∧
      inp = q :: (body ++ q :: r) ∧ Reach .filter l .filter l' ∧
      FSt D l' (pre ++ q :: (body ++ [q])) [] r (⟨strKind q, body, ((pre.length + 1 : Nat) : Int)⟩ :: toks) br := by
  obtain ⟨q, body, hq, hsc, e, hd⟩ := stringLiteral_inv hs
  subst e
  obtain ⟨l', hr, h'⟩ := filter_quoted hq hsc h
  exact ⟨l', q, body, hq, hd, rfl, hr, h'⟩

/-- a string literal in a filter is one string token whose decoding is the grammar's value -/
theorem filter_str {inp r : List Char} {s : Str} (h : FSt D l pre [] inp toks br)
    (hs : Spec.stringLiteral inp = some (s, r)) :
    ∃ l' pre' q body k, (q = '\'' ∨ q = '"') ∧ decodeStringLiteral (strKind q) body = .ok s ∧
      Reach .filter l .filter l' ∧ FSt D l' pre' [] r (⟨strKind q, body, k⟩ :: toks) br := by
  obtain ⟨l', q, body, hq, hd, _, hr, h'⟩ := filter_str_exact h hs
  exact ⟨l', _, q, body, _, hq, hd, hr, h'⟩

/-- the same in the bracketed state at any depth (`Cs.BL_str` without the blank space) -/
theorem bracketed_str {inp r : List Char} {s : Str} (h : FSt D l pre [] inp toks br)
    (hs : Spec.stringLiteral inp = some (s, r)) :
    ∃ l' pre' q body k, (q = '\'' ∨ q = '"') ∧ decodeStringLiteral (strKind q) body = .ok s ∧
      Reach .bracketed l .bracketed l' ∧ FSt D l' pre' [] r (⟨strKind q, body, k⟩ :: toks) br := by
  obtain ⟨q, body, hq, hsc, e, hd⟩ := stringLiteral_inv hs
  subst e
  obtain ⟨l', hr, h'⟩ := bracketed_quoted hq hsc h
  exact ⟨l', _, q, body, _, hq, hd, hr, h'⟩

end JPV.Proofs.Cf
