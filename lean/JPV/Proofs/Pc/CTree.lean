/-
`Proofs.Pc.CTree` — the canonical derivation tree of the printed text of a query: `cstr e` for `strExpr e`,
`ccanon p e` for `canonExpr p e` (a `.paren` exactly where the printer emits parentheses), `csel`, `csegs`
(no blank space inside brackets), and its abstraction: the query with omitted slice steps written out.
-/
import JPV.Spec.Grammar
import JPV.Proofs.Pc.Norm
namespace JPV.Proofs.Pc
open JPV JPV.Impl

mutual
/-- the derivation of `strExpr e` -/
def cstr : Expr → Spec.CExpr
  | .lit v => .lit v
  | .not e =>
    (match e with
     | .cmp _ _ _ => .not (.paren (cstr e))
     | .not _ => .not (.paren (cstr e))
     | _ => .not (cstr e))
  | .logical .and l r => .paren (.and (cstr l) (cstr r))
  | .logical .or l r => .paren (.or (cstr l) (cstr r))
  | .cmp op l r => .cmp op (cstr l) (cstr r)
  | .rel q => .rel (csegs q)
  | .root q => .root (csegs q)
  | .call f args => .call f (cargs args)
def cargs : List Expr → List Spec.CExpr
  | [] => []
  | a :: as => cstr a :: cargs as
/-- the derivation of `canonExpr p e` -/
def ccanon (p : Nat) : Expr → Spec.CExpr
  | .logical .and l r =>
    if p ≥ 4 then .paren (.and (ccanon 4 l) (ccanon 4 r)) else .and (ccanon 4 l) (ccanon 4 r)
  | .logical .or l r =>
    if p ≥ 3 then .paren (.or (ccanon 3 l) (ccanon 3 r)) else .or (ccanon 3 l) (ccanon 3 r)
  | .not e =>
    if p ≥ 7 then .paren (.not (ccanon 7 e)) else .not (ccanon 7 e)
  | .cmp op l r =>
    if p > 5 then .paren (.cmp op (cstr l) (cstr r)) else .cmp op (cstr l) (cstr r)
  | .lit v => .lit v
  | .rel q => .rel (csegs q)
  | .root q => .root (csegs q)
  | .call f args => .call f (cargs args)
def csel : Selector → Spec.CSelector
  | .name s => .name s
  | .index i => .index i
  | .slice a b c => .slice a b (some (c.getD 1))
  | .wild => .wild
  | .filter e => .filter (ccanon 1 e)
def csels : List Selector → List Spec.CSelector
  | [] => []
  | s :: ss => csel s :: csels ss
def csegs : List Segment → List Spec.CSegment
  | [] => []
  | .child sels :: rest => .child (csels sels) false :: csegs rest
  | .desc sels :: rest => .desc (csels sels) :: csegs rest
end

theorem cstr_lit (v) : cstr (.lit v) = .lit v := by rw [cstr]
theorem cstr_not_cmp (o a b) : cstr (.not (.cmp o a b)) = .not (.paren (cstr (.cmp o a b))) := by rw [cstr]
theorem cstr_not_not (e) : cstr (.not (.not e)) = .not (.paren (cstr (.not e))) := by rw [cstr]
theorem cstr_not_logical (o a b) : cstr (.not (.logical o a b)) = .not (cstr (.logical o a b)) := by
  rw [cstr]
  · intro _ _ _ h; cases h
  · intro _ h; cases h
theorem cstr_not_rel (q) : cstr (.not (.rel q)) = .not (cstr (.rel q)) := by
  rw [cstr]
  · intro _ _ _ h; cases h
  · intro _ h; cases h
theorem cstr_not_root (q) : cstr (.not (.root q)) = .not (cstr (.root q)) := by
  rw [cstr]
  · intro _ _ _ h; cases h
  · intro _ h; cases h
theorem cstr_not_call (f a) : cstr (.not (.call f a)) = .not (cstr (.call f a)) := by
  rw [cstr]
  · intro _ _ _ h; cases h
  · intro _ h; cases h
theorem cstr_not_lit (v) : cstr (.not (.lit v)) = .not (.lit v) := by
  rw [cstr]
  · rw [cstr]
  · intro _ _ _ h; cases h
  · intro _ h; cases h
theorem cstr_and (l r) : cstr (.logical .and l r) = .paren (.and (cstr l) (cstr r)) := by rw [cstr]
theorem cstr_or (l r) : cstr (.logical .or l r) = .paren (.or (cstr l) (cstr r)) := by rw [cstr]
theorem cstr_cmp (op l r) : cstr (.cmp op l r) = .cmp op (cstr l) (cstr r) := by rw [cstr]
theorem cstr_rel (q) : cstr (.rel q) = .rel (csegs q) := by rw [cstr]
theorem cstr_root (q) : cstr (.root q) = .root (csegs q) := by rw [cstr]
theorem cstr_call (f a) : cstr (.call f a) = .call f (cargs a) := by rw [cstr]
theorem cargs_nil : cargs [] = [] := by rw [cargs]
theorem cargs_cons (a as) : cargs (a :: as) = cstr a :: cargs as := by rw [cargs]
theorem ccanon_and (p l r) : ccanon p (.logical .and l r) =
    if p ≥ 4 then .paren (.and (ccanon 4 l) (ccanon 4 r)) else .and (ccanon 4 l) (ccanon 4 r) := by rw [ccanon]
theorem ccanon_or (p l r) : ccanon p (.logical .or l r) =
    if p ≥ 3 then .paren (.or (ccanon 3 l) (ccanon 3 r)) else .or (ccanon 3 l) (ccanon 3 r) := by rw [ccanon]
theorem ccanon_not (p e) : ccanon p (.not e) =
    if p ≥ 7 then .paren (.not (ccanon 7 e)) else .not (ccanon 7 e) := by rw [ccanon]
theorem ccanon_cmp (p op l r) : ccanon p (.cmp op l r) =
    if p > 5 then .paren (cstr (.cmp op l r)) else cstr (.cmp op l r) := by rw [ccanon, cstr_cmp]
theorem ccanon_lit (p v) : ccanon p (.lit v) = .lit v := by rw [ccanon]
theorem ccanon_rel (p q) : ccanon p (.rel q) = cstr (.rel q) := by rw [ccanon, cstr_rel]
theorem ccanon_root (p q) : ccanon p (.root q) = cstr (.root q) := by rw [ccanon, cstr_root]
theorem ccanon_call (p f a) : ccanon p (.call f a) = cstr (.call f a) := by rw [ccanon, cstr_call]
theorem csel_name (s) : csel (.name s) = .name s := by rw [csel]
theorem csel_index (i) : csel (.index i) = .index i := by rw [csel]
theorem csel_slice (a b c) : csel (.slice a b c) = .slice a b (some (c.getD 1)) := by rw [csel]
theorem csel_wild : csel .wild = .wild := by rw [csel]
theorem csel_filter (e) : csel (.filter e) = .filter (ccanon 1 e) := by rw [csel]
theorem csels_nil : csels [] = [] := by rw [csels]
theorem csels_cons (s ss) : csels (s :: ss) = csel s :: csels ss := by rw [csels]
theorem csegs_nil : csegs [] = [] := by rw [csegs]
theorem csegs_child (sels rest) : csegs (.child sels :: rest) = .child (csels sels) false :: csegs rest := by
  rw [csegs]
theorem csegs_desc (sels rest) : csegs (.desc sels :: rest) = .desc (csels sels) :: csegs rest := by
  rw [csegs]

/-! ### abstraction -/

mutual
theorem abstract_cstr : (e : Expr) → Spec.abstractExpr (cstr e) = normExpr e
  | .lit v => by rw [cstr_lit, normExpr_lit, Spec.abstractExpr]
  | .not e => by
    have ih := abstract_cstr e
    rw [normExpr_not, ← ih]
    cases e with
    | lit v => simp only [cstr_not_lit, cstr_lit, Spec.abstractExpr]
    | cmp o a b => rw [cstr_not_cmp, Spec.abstractExpr, Spec.abstractExpr]
    | not x => rw [cstr_not_not, Spec.abstractExpr, Spec.abstractExpr]
    | logical o a b => rw [cstr_not_logical, Spec.abstractExpr]
    | rel q => rw [cstr_not_rel, Spec.abstractExpr]
    | root q => rw [cstr_not_root, Spec.abstractExpr]
    | call f args => rw [cstr_not_call, Spec.abstractExpr]
  | .logical .and l r => by
    rw [cstr_and, normExpr_logical, Spec.abstractExpr, Spec.abstractExpr, abstract_cstr l, abstract_cstr r]
  | .logical .or l r => by
    rw [cstr_or, normExpr_logical, Spec.abstractExpr, Spec.abstractExpr, abstract_cstr l, abstract_cstr r]
  | .cmp op l r => by
    rw [cstr_cmp, normExpr_cmp, Spec.abstractExpr, abstract_cstr l, abstract_cstr r]
  | .rel q => by rw [cstr_rel, normExpr_rel, Spec.abstractExpr, abstract_csegs q]
  | .root q => by rw [cstr_root, normExpr_root, Spec.abstractExpr, abstract_csegs q]
  | .call f args => by rw [cstr_call, normExpr_call, Spec.abstractExpr, abstract_cargs args]
theorem abstract_cargs : (as : List Expr) → Spec.abstractArgs (cargs as) = normArgs as
  | [] => by rw [cargs_nil, normArgs_nil, Spec.abstractArgs]
  | a :: as => by rw [cargs_cons, normArgs_cons, Spec.abstractArgs, abstract_cstr a, abstract_cargs as]
theorem abstract_ccanon : (e : Expr) → (p : Nat) → Spec.abstractExpr (ccanon p e) = normExpr e
  | .lit v, p => by rw [ccanon_lit, normExpr_lit, Spec.abstractExpr]
  | .not e, p => by
    rw [ccanon_not, normExpr_not]
    split
    · rw [Spec.abstractExpr, Spec.abstractExpr, abstract_ccanon e 7]
    · rw [Spec.abstractExpr, abstract_ccanon e 7]
  | .logical .and l r, p => by
    rw [ccanon_and, normExpr_logical]
    split
    · rw [Spec.abstractExpr, Spec.abstractExpr, abstract_ccanon l 4, abstract_ccanon r 4]
    · rw [Spec.abstractExpr, abstract_ccanon l 4, abstract_ccanon r 4]
  | .logical .or l r, p => by
    rw [ccanon_or, normExpr_logical]
    split
    · rw [Spec.abstractExpr, Spec.abstractExpr, abstract_ccanon l 3, abstract_ccanon r 3]
    · rw [Spec.abstractExpr, abstract_ccanon l 3, abstract_ccanon r 3]
  | .cmp op l r, p => by
    have := abstract_cstr (.cmp op l r)
    rw [ccanon_cmp]
    split
    · rw [Spec.abstractExpr, this]
    · exact this
  | .rel q, p => by rw [ccanon_rel]; exact abstract_cstr (.rel q)
  | .root q, p => by rw [ccanon_root]; exact abstract_cstr (.root q)
  | .call f args, p => by rw [ccanon_call]; exact abstract_cstr (.call f args)
theorem abstract_csel : (s : Selector) → Spec.abstractSel (csel s) = normSel s
  | .name s => by rw [csel_name, normSel_name, Spec.abstractSel]
  | .index i => by rw [csel_index, normSel_index, Spec.abstractSel]
  | .wild => by rw [csel_wild, normSel_wild, Spec.abstractSel]
  | .slice a b none => by rw [csel_slice, normSel_slice_none, Spec.abstractSel]; rfl
  | .slice a b (some c) => by rw [csel_slice, normSel_slice_some, Spec.abstractSel]; rfl
  | .filter e => by rw [csel_filter, normSel_filter, Spec.abstractSel, abstract_ccanon e 1]
theorem abstract_csels : (ss : List Selector) → Spec.abstractSels (csels ss) = normSels ss
  | [] => by rw [csels_nil, normSels_nil, Spec.abstractSels]
  | s :: ss => by rw [csels_cons, normSels_cons, Spec.abstractSels, abstract_csel s, abstract_csels ss]
theorem abstract_csegs : (q : List Segment) → Spec.abstractSegs (csegs q) = normSegs q
  | [] => by rw [csegs_nil, normSegs_nil, Spec.abstractSegs]
  | .child sels :: rest => by
    rw [csegs_child, normSegs_child, Spec.abstractSegs, abstract_csels sels, abstract_csegs rest]
  | .desc sels :: rest => by
    rw [csegs_desc, normSegs_desc, Spec.abstractSegs, abstract_csels sels, abstract_csegs rest]
end

end JPV.Proofs.Pc
