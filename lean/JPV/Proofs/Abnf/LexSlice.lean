/-
`sliceSelector` against the ABNF rule `slice-selector`.
-/
import JPV.Proofs.Abnf.LexNum
namespace JPV.Proofs.AbnfP
open JPV JPV.Spec

def optIntS (inp : List Char) : Option Int × List Char :=
  match intLit inp with
  | some (i, r) => (some i, skipS r)
  | none => (none, inp)

def sliceStep (start stop : Option Int) (r : List Char) : Option (CSelector × List Char) :=
  match lit ":" r with
  | some r2 =>
    match intLit (skipS r2) with
    | some (st, r3) => some (.slice start stop (some st), r3)
    | none => some (.slice start stop none, r2)
  | none => some (.slice start stop none, r)

theorem sliceSelector_eq (inp : List Char) :
    sliceSelector inp = (lit ":" (optIntS inp).2).bind fun r =>
      sliceStep (optIntS inp).1 (optIntS (skipS r)).1 (optIntS (skipS r)).2 := by
  rfl

theorem colon_toList : ":".toList = [':'] := rfl

theorem not_digit_of_blank {c : Char} (h : isBlank c = true) : isDIGIT c = false := by
  simp only [isBlank, Bool.or_eq_true, decide_eq_true_eq] at h
  rcases h with ((rfl | rfl) | rfl) | rfl <;> decide

theorem not_minus_of_blank {c : Char} (h : isBlank c = true) : c ≠ '-' := by
  intro e; subst e; revert h; decide

theorem not_colon_of_blank {c : Char} (h : isBlank c = true) : c ≠ ':' := by
  intro e; subst e; revert h; decide

theorem not_blank_of_digit {c : Char} (h : isDIGIT c = true) : isBlank c = false := by
  cases hb : isBlank c with
  | false => rfl
  | true => rw [not_digit_of_blank hb] at h; cases h

theorem headP_of_skipS {p : Char → Prop} {R : List Char} (hb : ∀ c, isBlank c = true → p c)
    (h : HeadP p (skipS R)) : HeadP p R := by
  cases R with
  | nil => exact HeadP.nil
  | cons c t =>
    by_cases hc : isBlank c = true
    · exact HeadP.cons (hb c hc)
    · unfold skipS at h
      simp only [hc] at h
      exact HeadP.cons h.head

theorem selFollow_headP {p : Char → Prop} {R : List Char} (hR : SelFollow R) (h1 : p ',') (h2 : p ']') :
    HeadP p (skipS R) := by
  obtain ⟨t, h | h⟩ := hR <;> rw [h]
  · exact HeadP.cons h1
  · exact HeadP.cons h2

theorem intLit_headP_nonblank {i : List Char} {n : Int} (h : Abnf.IntLit i n) (T : List Char) :
    HeadP (fun c => isBlank c = false) (i ++ T) := by
  obtain ⟨c, t, rfl, hc⟩ := intLit_head h
  rw [List.cons_append]
  apply HeadP.cons
  rcases hc with hc | rfl
  · exact not_blank_of_digit hc
  · decide

/-! ### `[int S]` -/

theorem optIntS_sound (inp : List Char) :
    ∃ p, inp = p ++ (optIntS inp).2 ∧ Abnf.OptIntS p (optIntS inp).1 := by
  unfold optIntS
  split
  · rename_i i r hi
    obtain ⟨pre, hpre, hp⟩ := intLit_sound hi
    obtain ⟨b, hb, hbl⟩ := skipS_spec r
    refine ⟨pre ++ b, ?_, Or.inr ⟨pre, b, i, rfl, hp, hbl, rfl⟩⟩
    rw [List.append_assoc, ← hb]; exact hpre
  · exact ⟨[], rfl, Or.inl ⟨rfl, rfl⟩⟩

theorem optIntS_none {X : List Char} (h : HeadP (fun c => isDIGIT c = false ∧ c ≠ '-') X) :
    optIntS X = (none, X) := by
  unfold optIntS
  rw [intLit_none_of_head h]

theorem optIntS_some {i bs : List Char} {n : Int} (hi : Abnf.IntLit i n) (hbs : Abnf.Blanks bs)
    {T : List Char} (hT : HeadP (fun c => isDIGIT c = false) (skipS T)) :
    optIntS (i ++ bs ++ T) = (some n, skipS T) := by
  have hT' : HeadP (fun c => isDIGIT c = false) (bs ++ T) := by
    apply headP_of_skipS (fun c hc => not_digit_of_blank hc)
    rw [skipS_append_blanks hbs]; exact hT
  unfold optIntS
  rw [List.append_assoc, intLit_complete hi hT']
  simp only [skipS_append_blanks hbs]

/-- second `[int S]`, reached after blank space -/
theorem optIntS_complete {p : List Char} {v : Option Int} (h : Abnf.OptIntS p v) {bs : List Char}
    (hbs : Abnf.Blanks bs) {T : List Char}
    (hT : HeadP (fun c => isDIGIT c = false ∧ c ≠ '-') (skipS T)) :
    optIntS (skipS (bs ++ (p ++ T))) = (v, skipS T) := by
  rw [skipS_append_blanks hbs]
  rcases h with ⟨rfl, rfl⟩ | ⟨i, bs2, n, rfl, hi, hbs2, rfl⟩
  · exact optIntS_none hT
  · rw [List.append_assoc, skipS_of_head (intLit_headP_nonblank hi _), ← List.append_assoc]
    exact optIntS_some hi hbs2 (hT.mono fun c h => h.1)

/-- first `[int S]`, at the very start -/
theorem optIntS_complete_colon {p : List Char} {v : Option Int} (h : Abnf.OptIntS p v) (U : List Char) :
    optIntS (p ++ ':' :: U) = (v, ':' :: U) := by
  have hs : skipS (':' :: U) = ':' :: U := skipS_of_head (HeadP.cons (by decide))
  rcases h with ⟨rfl, rfl⟩ | ⟨i, bs2, n, rfl, hi, hbs2, rfl⟩
  · exact optIntS_none (HeadP.cons ⟨by decide, by decide⟩)
  · have := optIntS_some hi hbs2 (T := ':' :: U) (by rw [hs]; exact HeadP.cons (by decide))
    rw [hs] at this
    exact this

/-! ### `[":" [S step]]` -/

theorem sliceStep_sound {a b : Option Int} {r rest : List Char} {sel : CSelector}
    (h : sliceStep a b r = some (sel, rest)) :
    ∃ p3 c, sel = .slice a b c ∧ r = p3 ++ rest ∧ Abnf.OptStep p3 c := by
  unfold sliceStep at h
  split at h
  · rename_i r2 hl
    have hr := lit_sound hl
    rw [colon_toList] at hr
    split at h
    · rename_i st r3 hi
      simp only [Option.some.injEq, Prod.mk.injEq] at h
      obtain ⟨rfl, rfl⟩ := h
      obtain ⟨pre, hpre, hp⟩ := intLit_sound hi
      obtain ⟨bs, hb, hbl⟩ := skipS_spec r2
      refine ⟨':' :: (bs ++ pre), some st, rfl, ?_, Or.inr (Or.inr ⟨bs, pre, st, rfl, hbl, hp, rfl⟩)⟩
      rw [hr]
      simp only [List.cons_append, List.nil_append, List.append_assoc]
      rw [← hpre, ← hb]
    · simp only [Option.some.injEq, Prod.mk.injEq] at h
      obtain ⟨rfl, rfl⟩ := h
      exact ⟨[':'], none, rfl, hr, Or.inr (Or.inl ⟨rfl, rfl⟩)⟩
  · simp only [Option.some.injEq, Prod.mk.injEq] at h
    obtain ⟨rfl, rfl⟩ := h
    exact ⟨[], none, rfl, rfl, Or.inl ⟨rfl, rfl⟩⟩

theorem skipS_colon (U : List Char) : skipS (':' :: U) = ':' :: U :=
  skipS_of_head (HeadP.cons (by decide))

theorem lit_colon (U : List Char) : lit ":" (':' :: U) = some U := lit_complete ":" U

theorem lit_colon_none {R : List Char} (hR : SelFollow R) : lit ":" (skipS R) = none :=
  lit_none colon_toList (selFollow_headP hR (by decide) (by decide))

theorem intLit_none_selFollow {R : List Char} (hR : SelFollow R) : intLit (skipS R) = none :=
  intLit_none_of_head (selFollow_headP hR ⟨by decide, by decide⟩ ⟨by decide, by decide⟩)

theorem selFollow_not_digit {R : List Char} (hR : SelFollow R) : HeadP (fun c => isDIGIT c = false) R :=
  headP_of_skipS (fun c hc => not_digit_of_blank hc) (selFollow_headP hR (by decide) (by decide))

theorem sliceStep_complete {p3 : List Char} {c : Option Int} (h : Abnf.OptStep p3 c) (a b : Option Int)
    {R : List Char} (hR : SelFollow R) :
    ∃ R', sliceStep a b (skipS (p3 ++ R)) = some (.slice a b c, R') ∧ (R' = R ∨ R' = skipS R) := by
  rcases h with ⟨rfl, rfl⟩ | ⟨rfl, rfl⟩ | ⟨bs, i, n, rfl, hbs, hi, rfl⟩
  · refine ⟨skipS R, ?_, Or.inr rfl⟩
    unfold sliceStep
    rw [List.nil_append, lit_colon_none hR]
  · refine ⟨R, ?_, Or.inl rfl⟩
    unfold sliceStep
    rw [List.cons_append, List.nil_append, skipS_colon, lit_colon]
    simp only [intLit_none_selFollow hR]
  · refine ⟨R, ?_, Or.inl rfl⟩
    unfold sliceStep
    rw [List.cons_append, skipS_colon, lit_colon]
    have : skipS (bs ++ i ++ R) = i ++ R := by
      rw [List.append_assoc]
      exact skipS_blanks_head hbs (intLit_headP_nonblank hi R)
    simp only [this, intLit_complete hi (selFollow_not_digit hR)]

theorem optStep_headP {p3 : List Char} {c : Option Int} (h : Abnf.OptStep p3 c) {R : List Char}
    (hR : SelFollow R) : HeadP (fun c => isDIGIT c = false ∧ c ≠ '-') (skipS (p3 ++ R)) := by
  rcases h with ⟨rfl, rfl⟩ | ⟨rfl, rfl⟩ | ⟨bs, i, n, rfl, hbs, hi, rfl⟩
  · exact selFollow_headP hR ⟨by decide, by decide⟩ ⟨by decide, by decide⟩
  · rw [List.cons_append, skipS_colon]; exact HeadP.cons ⟨by decide, by decide⟩
  · rw [List.cons_append, skipS_colon]; exact HeadP.cons ⟨by decide, by decide⟩

/-! ### slice-selector -/

theorem sliceSelector_sound {inp rest : List Char} {sel : CSelector} :
    sliceSelector inp = some (sel, rest) →
    ∃ pre a b c, sel = .slice a b c ∧ inp = pre ++ rest ∧ Abnf.SliceSel pre a b c := by
  intro h
  rw [sliceSelector_eq] at h
  cases hl : lit ":" (optIntS inp).2 with
  | none => rw [hl] at h; cases h
  | some r1 =>
    rw [hl] at h
    simp only [Option.bind] at h
    have hr := lit_sound hl
    rw [colon_toList] at hr
    obtain ⟨p1, hp1, ho1⟩ := optIntS_sound inp
    obtain ⟨bs, hb, hbl⟩ := skipS_spec r1
    obtain ⟨p2, hp2, ho2⟩ := optIntS_sound (skipS r1)
    obtain ⟨p3, c, rfl, hp3, ho3⟩ := sliceStep_sound h
    refine ⟨p1 ++ ':' :: (bs ++ p2 ++ p3), _, _, c, rfl, ?_, p1, bs, p2, p3, rfl, ho1, hbl, ho2, ho3⟩
    simp only [List.append_assoc, List.cons_append]
    rw [← hp3, ← hp2, ← hb]
    rw [hr] at hp1
    exact hp1

theorem sliceSelector_complete {s : List Char} {a b c : Option Int} (h : Abnf.SliceSel s a b c)
    {R : List Char} (hR : SelFollow R) :
    ∃ R', sliceSelector (s ++ R) = some (.slice a b c, R') ∧ (R' = R ∨ R' = skipS R) := by
  obtain ⟨p1, bs, p2, p3, rfl, h1, hbs, h2, h3⟩ := h
  obtain ⟨R', hstep, hR'⟩ := sliceStep_complete h3 a b hR
  refine ⟨R', ?_, hR'⟩
  have e : p1 ++ ':' :: (bs ++ p2 ++ p3) ++ R = p1 ++ ':' :: (bs ++ (p2 ++ (p3 ++ R))) := by
    simp only [List.append_assoc, List.cons_append]
  rw [sliceSelector_eq, e, optIntS_complete_colon h1, lit_colon]
  simp only [Option.bind, optIntS_complete h2 hbs (optStep_headP h3 hR)]
  exact hstep

theorem sliceSelector_none_of_int {s : List Char} {i : Int} (h : Abnf.IntLit s i) {R : List Char}
    (hR : SelFollow R) : sliceSelector (s ++ R) = none := by
  have := optIntS_some h blanks_nil (T := R) (selFollow_headP hR (by decide) (by decide))
  rw [List.append_nil] at this
  rw [sliceSelector_eq, this, lit_colon_none hR]
  rfl

theorem sliceSel_head {s : List Char} {a b c : Option Int} (h : Abnf.SliceSel s a b c) :
    ∃ ch t, s = ch :: t ∧ (isDIGIT ch = true ∨ ch = '-' ∨ ch = ':') := by
  obtain ⟨p1, bs, p2, p3, rfl, h1, _, _, _⟩ := h
  rcases h1 with ⟨rfl, rfl⟩ | ⟨i, bs2, n, rfl, hi, _, rfl⟩
  · exact ⟨':', _, rfl, Or.inr (Or.inr rfl)⟩
  · obtain ⟨ch, t, rfl, hc⟩ := intLit_head hi
    refine ⟨ch, t ++ bs2 ++ ':' :: (bs ++ p2 ++ p3), by simp only [List.cons_append], ?_⟩
    rcases hc with hc | hc
    · exact Or.inl hc
    · exact Or.inr (Or.inl hc)

end JPV.Proofs.AbnfP
