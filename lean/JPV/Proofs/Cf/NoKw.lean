/-
`Proofs.Cf.NoKw` — in a valid derivation every function expression names a registered function, so in a
keyword-free environment no function name begins with `true` / `false` / `null`.
-/
import JPV.Proofs.Cf.Shape
import JPV.Proofs.ParseTyping
namespace JPV.Proofs.Cf
open JPV JPV.Impl

theorem band_fst (a b : Bool × Bool) : (Spec.band a b).1 = true ↔ a.1 = true ∧ b.1 = true := by
  simp [Spec.band]

theorem sigs_isSome {env : Env} {f : Str} {s : Spec.Sig} (h : sigsOfEnv' env f = some s) :
    (env.func f).isSome = true := by
  unfold sigsOfEnv' at h
  cases hf : env.func f with
  | none => simp [hf] at h
  | some x => rfl

mutual
theorem nk_test (env : Env) (hk : KwFree env) (lo hi : Int) : ∀ (e : Spec.CExpr),
    (Spec.cTest (sigsOfEnv' env) lo hi e).1 = true → nkExpr e = true
  | .lit _, h => by rw [nkExpr]
  | .paren e, h => by rw [Spec.cTest] at h; rw [nkExpr]; exact nk_test env hk lo hi e h
  | .not e, h => by rw [Spec.cTest] at h; rw [nkExpr]; exact nk_test env hk lo hi e h
  | .and l r, h => by
    rw [Spec.cTest, band_fst] at h; rw [nkExpr, Bool.and_eq_true]
    exact ⟨nk_test env hk lo hi l h.1, nk_test env hk lo hi r h.2⟩
  | .or l r, h => by
    rw [Spec.cTest, band_fst] at h; rw [nkExpr, Bool.and_eq_true]
    exact ⟨nk_test env hk lo hi l h.1, nk_test env hk lo hi r h.2⟩
  | .cmp _ l r, h => by
    rw [Spec.cTest, band_fst] at h; rw [nkExpr, Bool.and_eq_true]
    exact ⟨nk_cmp env hk lo hi l h.1, nk_cmp env hk lo hi r h.2⟩
  | .rel q, h => by rw [Spec.cTest] at h; rw [nkExpr]; exact nk_segs env hk lo hi q h
  | .root q, h => by rw [Spec.cTest] at h; rw [nkExpr]; exact nk_segs env hk lo hi q h
  | .call f args, h => by
    rw [Spec.cTest] at h
    cases hs : sigsOfEnv' env f with
    | none => simp [hs, Spec.bad] at h
    | some s =>
      simp only [hs, band_fst] at h
      rw [nkExpr, Bool.and_eq_true]
      exact ⟨by rw [hk f (sigs_isSome hs)]; rfl, nk_args env hk lo hi s.argTypes args h.2⟩
theorem nk_cmp (env : Env) (hk : KwFree env) (lo hi : Int) : ∀ (e : Spec.CExpr),
    (Spec.cComparable (sigsOfEnv' env) lo hi e).1 = true → nkExpr e = true
  | .lit _, h => by rw [nkExpr]
  | .rel q, h => by
    rw [Spec.cComparable, band_fst] at h; rw [nkExpr]; exact nk_segs env hk lo hi q h.2
  | .root q, h => by
    rw [Spec.cComparable, band_fst] at h; rw [nkExpr]; exact nk_segs env hk lo hi q h.2
  | .call f args, h => by
    rw [Spec.cComparable] at h
    cases hs : sigsOfEnv' env f with
    | none => simp [hs, Spec.bad] at h
    | some s =>
      simp only [hs, band_fst] at h
      rw [nkExpr, Bool.and_eq_true]
      exact ⟨by rw [hk f (sigs_isSome hs)]; rfl, nk_args env hk lo hi s.argTypes args h.2⟩
  | .paren e, h => by rw [Spec.cComparable] at h; simp [Spec.bad] at h; all_goals (intros; simp_all)
  | .not e, h => by rw [Spec.cComparable] at h; simp [Spec.bad] at h; all_goals (intros; simp_all)
  | .and l r, h => by rw [Spec.cComparable] at h; simp [Spec.bad] at h; all_goals (intros; simp_all)
  | .or l r, h => by rw [Spec.cComparable] at h; simp [Spec.bad] at h; all_goals (intros; simp_all)
  | .cmp _ l r, h => by rw [Spec.cComparable] at h; simp [Spec.bad] at h; all_goals (intros; simp_all)
theorem nk_nodes (env : Env) (hk : KwFree env) (lo hi : Int) : ∀ (e : Spec.CExpr),
    (Spec.cNodes (sigsOfEnv' env) lo hi e).1 = true → nkExpr e = true
  | .rel q, h => by rw [Spec.cNodes] at h; rw [nkExpr]; exact nk_segs env hk lo hi q h
  | .root q, h => by rw [Spec.cNodes] at h; rw [nkExpr]; exact nk_segs env hk lo hi q h
  | .call f args, h => by
    rw [Spec.cNodes] at h
    cases hs : sigsOfEnv' env f with
    | none => simp [hs, Spec.bad] at h
    | some s =>
      simp only [hs, band_fst] at h
      rw [nkExpr, Bool.and_eq_true]
      exact ⟨by rw [hk f (sigs_isSome hs)]; rfl, nk_args env hk lo hi s.argTypes args h.2⟩
  | .lit _, h => by rw [nkExpr]
  | .paren e, h => by rw [Spec.cNodes] at h; simp [Spec.bad] at h; all_goals (intros; simp_all)
  | .not e, h => by rw [Spec.cNodes] at h; simp [Spec.bad] at h; all_goals (intros; simp_all)
  | .and l r, h => by rw [Spec.cNodes] at h; simp [Spec.bad] at h; all_goals (intros; simp_all)
  | .or l r, h => by rw [Spec.cNodes] at h; simp [Spec.bad] at h; all_goals (intros; simp_all)
  | .cmp _ l r, h => by rw [Spec.cNodes] at h; simp [Spec.bad] at h; all_goals (intros; simp_all)
theorem nk_args (env : Env) (hk : KwFree env) (lo hi : Int) : ∀ (tys : List Ty) (es : List Spec.CExpr),
    (Spec.cArgs (sigsOfEnv' env) lo hi tys es).1 = true → nkArgs es = true
  | _, [], _ => by rw [nkArgs]
  | [], e :: es, h => by rw [Spec.cArgs] at h; simp [Spec.bad] at h; all_goals (intros; simp_all)
  | t :: ts, e :: es, h => by
    simp only [Spec.cArgs, band_fst] at h
    rw [nkArgs, Bool.and_eq_true]
    refine ⟨?_, nk_args env hk lo hi ts es h.2⟩
    cases t with
    | value => exact nk_cmp env hk lo hi e h.1
    | logical => exact nk_test env hk lo hi e h.1
    | nodes => exact nk_nodes env hk lo hi e h.1
theorem nk_sel (env : Env) (hk : KwFree env) (lo hi : Int) : ∀ (s : Spec.CSelector),
    (Spec.cSel (sigsOfEnv' env) lo hi s).1 = true → nkSel s = true
  | .filter e, h => by rw [Spec.cSel] at h; rw [nkSel]; exact nk_test env hk lo hi e h
  | .name _, _ => by simp [nkSel]
  | .index _, _ => by simp [nkSel]
  | .slice _ _ _, _ => by simp [nkSel]
  | .wild, _ => by simp [nkSel]
theorem nk_sels (env : Env) (hk : KwFree env) (lo hi : Int) : ∀ (ss : List Spec.CSelector),
    (Spec.cSels (sigsOfEnv' env) lo hi ss).1 = true → nkSels ss = true
  | [], _ => by rw [nkSels]
  | s :: ss, h => by
    rw [Spec.cSels, band_fst] at h
    rw [nkSels, Bool.and_eq_true]
    exact ⟨nk_sel env hk lo hi s h.1, nk_sels env hk lo hi ss h.2⟩
theorem nk_segs (env : Env) (hk : KwFree env) (lo hi : Int) : ∀ (q : List Spec.CSegment),
    (Spec.cSegs (sigsOfEnv' env) lo hi q).1 = true → nkSegs q = true
  | [], _ => by rw [nkSegs]
  | .child sels _ :: rest, h => by
    rw [Spec.cSegs, band_fst] at h
    rw [nkSegs, Bool.and_eq_true]
    exact ⟨nk_sels env hk lo hi sels h.1, nk_segs env hk lo hi rest h.2⟩
  | .desc sels :: rest, h => by
    rw [Spec.cSegs, band_fst] at h
    rw [nkSegs, Bool.and_eq_true]
    exact ⟨nk_sels env hk lo hi sels h.1, nk_segs env hk lo hi rest h.2⟩
end

end JPV.Proofs.Cf
