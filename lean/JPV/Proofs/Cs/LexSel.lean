/-
`Proofs.Cs.LexSel` — selectors and bracketed selections of the grammar, lexed.
-/
import JPV.Proofs.Cs.LexSlice
import JPV.Proofs.Cs.LexStr
import JPV.Proofs.PrinterSel
namespace JPV.Proofs.Cs
open JPV JPV.Impl JPV.Proofs.Rq

theorem sliceSelector_isSlice {inp rest : List Char} {sel : Spec.CSelector}
    (h : Spec.sliceSelector inp = some (sel, rest)) : ∃ a b c, sel = .slice a b c := by
  rw [sliceSelector_eq] at h
  have hE : ∀ a b x, sliceEnd a b x = some (sel, rest) → ∃ a b c, sel = .slice a b c := by
    intro a b x hx
    unfold sliceEnd at hx
    cases h1 : Spec.lit ":" x with
    | none => simp only [h1, Option.some.injEq, Prod.mk.injEq] at hx; exact ⟨_, _, _, hx.1.symm⟩
    | some r2 =>
      simp only [h1] at hx
      cases h2 : Spec.intLit (Spec.skipS r2) with
      | none => simp only [h2, Option.some.injEq, Prod.mk.injEq] at hx; exact ⟨_, _, _, hx.1.symm⟩
      | some p => simp only [h2, Option.some.injEq, Prod.mk.injEq] at hx; exact ⟨_, _, _, hx.1.symm⟩
  have hM : ∀ a x, sliceMid a x = some (sel, rest) → ∃ a b c, sel = .slice a b c := by
    intro a x hx
    unfold sliceMid at hx
    cases h1 : Spec.lit ":" x with
    | none => simp [h1] at hx
    | some r1 =>
      simp only [h1] at hx
      cases h2 : Spec.intLit (Spec.skipS r1) with
      | none => simp only [h2] at hx; exact hE _ _ _ hx
      | some p => simp only [h2] at hx; exact hE _ _ _ hx
  cases h1 : Spec.intLit inp with
  | none => simp only [h1] at h; exact hM _ _ h
  | some p => simp only [h1] at h; exact hM _ _ h

theorem BL_selector {f : Nat} {inp rest : List Char} {sel : Spec.CSelector} (hin : Spec.skipS inp = inp)
    (h : Spec.selector (f + 1) inp = some (sel, rest)) (hff : ffSel sel = true) (hf : Follow rest) :
    BL inp (SelShape sel) rest := by
  cases inp with
  | nil =>
    rw [Spec.selector] at h
    · simp [Spec.stringLiteral, sliceSelector_eq, Spec.intLit, sliceMid, Spec.lit] at h
    · intro r e; cases e
    · intro r e; cases e
  | cons c t =>
    by_cases h1 : c = '*'
    · subst h1
      rw [Prn.selector_wild] at h
      simp only [Option.some.injEq, Prod.mk.injEq] at h
      obtain ⟨rfl, rfl⟩ := h
      refine (BL_wild hin).mono ?_
      rintro ts ⟨k, rfl⟩
      exact .wild k
    · by_cases h2 : c = '?'
      · subst h2
        rw [Spec.selector] at h
        cases hl : Spec.logicalOr f (Spec.skipS t) with
        | none => simp [hl] at h
        | some p =>
          simp only [hl, Option.map_some, Option.some.injEq, Prod.mk.injEq] at h
          rw [← h.1] at hff
          simp [ffSel] at hff
      · rw [Prn.selector_other _ _ _ h1 h2] at h
        cases hs : Spec.stringLiteral (c :: t) with
        | some p =>
          obtain ⟨s, r⟩ := p
          simp only [hs, Option.some.injEq, Prod.mk.injEq] at h
          obtain ⟨rfl, rfl⟩ := h
          refine (BL_str (inp := c :: t) (by rw [hin]; exact hs)).mono ?_
          rintro ts ⟨q, body, k, hq, hd, rfl⟩
          exact .name q body s k hq hd
        | none =>
          simp only [hs] at h
          cases hsl : Spec.sliceSelector (c :: t) with
          | some res =>
            simp only [hsl, Option.some.injEq] at h
            subst h
            exact BL_slice hin hsl hf
          | none =>
            simp only [hsl] at h
            cases hi : Spec.intLit (c :: t) with
            | none => simp [hi] at h
            | some p =>
              obtain ⟨i, r⟩ := p
              simp only [hi, Option.map_some, Option.some.injEq, Prod.mk.injEq] at h
              obtain ⟨rfl, rfl⟩ := h
              refine (BL_int (inp := c :: t) (by rw [hin]; exact hi) hf.noDigit).mono ?_
              rintro ts ⟨v, k, hv, rfl⟩
              exact .index v i k hv

theorem more_follow {f : Nat} {r2 r3 r5 : List Char} {ss : List Spec.CSelector}
    (h : Spec.moreSelectors f r2 = some (ss, r3)) (hc : Spec.skipS r3 = ']' :: r5) : Follow r2 := by
  cases f with
  | zero => rw [Spec.moreSelectors] at h; cases h
  | succ f =>
    rw [Spec.moreSelectors] at h
    split at h
    · rename_i r heq; exact ⟨r, .inl heq⟩
    · simp only [Option.some.injEq, Prod.mk.injEq] at h
      exact ⟨r5, .inr (h.2 ▸ hc)⟩

theorem BL_more : ∀ (f : Nat) (inp rest r5 : List Char) (ss : List Spec.CSelector),
    Spec.moreSelectors f inp = some (ss, rest) → ffSels ss = true → Spec.skipS rest = ']' :: r5 →
    BL inp (MoreShape ss) rest := by
  intro f
  induction f with
  | zero => intro inp rest r5 ss h; rw [Spec.moreSelectors] at h; cases h
  | succ f ih =>
    intro inp rest r5 ss h hff hc
    rw [Spec.moreSelectors] at h
    split at h
    · rename_i r heq
      cases f with
      | zero => rw [Spec.selector] at h; simp at h
      | succ f' =>
        cases hs : Spec.selector (f' + 1) (Spec.skipS r) with
        | none => simp [hs] at h
        | some p =>
          obtain ⟨s, r2⟩ := p
          simp only [hs] at h
          cases hm : Spec.moreSelectors (f' + 1) r2 with
          | none => simp [hm] at h
          | some p2 =>
            obtain ⟨ss', r3⟩ := p2
            simp only [hm, Option.some.injEq, Prod.mk.injEq] at h
            obtain ⟨rfl, rfl⟩ := h
            simp only [ffSels, List.all_cons, Bool.and_eq_true] at hff
            have b1 := BL_comma heq
            have b2 := (BL_selector (skipS_idem r) hs hff.1 (more_follow hm hc)).congr_left (skipS_idem r).symm
            have b3 := ih r2 r3 r5 ss' hm hff.2 hc
            refine ((b1.seq b2).seq b3).mono ?_
            rintro ts ⟨t12, t3, rfl, ⟨t1, t2, rfl, ⟨k, rfl⟩, h2⟩, h3⟩
            exact .cons s ss' k t2 t3 h2 h3
    · simp only [Option.some.injEq, Prod.mk.injEq] at h
      obtain ⟨rfl, rfl⟩ := h
      refine (BL.skip rfl).mono ?_
      rintro ts rfl
      exact .nil

/-- the inside of a bracketed selection, from after `[` to after `]` -/
theorem lex_brk_body {f : Nat} {r rest : List Char} {sels : List Spec.CSelector} {fl : Bool}
    (h : Spec.bracketed (f + 1) ('[' :: r) = some (sels, fl, rest)) (hff : ffSels sels = true)
    {l : Lexer} {pre : List Char} {toks : List Token} {br : List (Char × Nat)} {i : Nat}
    (hst : St l pre [] r toks (('[', i) :: br)) :
    ∃ l' pre' ts k, Reach .bracketed l .segment l' ∧
      St l' pre' [] rest (⟨.rbracket, [']'], k⟩ :: (ts.reverse ++ toks)) br ∧ SelsShape sels ts := by
  rw [Spec.bracketed] at h
  simp only at h
  cases f with
  | zero => rw [Spec.selector] at h; simp at h
  | succ f' =>
    cases hs : Spec.selector (f' + 1) (Spec.skipS r) with
    | none => simp [hs] at h
    | some p =>
      obtain ⟨s, r2⟩ := p
      simp only [hs] at h
      cases hm : Spec.moreSelectors (f' + 1) r2 with
      | none => simp [hm] at h
      | some p2 =>
        obtain ⟨ss, r3⟩ := p2
        simp only [hm] at h
        split at h
        · rename_i r5 heq
          simp only [Option.some.injEq, Prod.mk.injEq] at h
          obtain ⟨rfl, _, rfl⟩ := h
          simp only [ffSels, List.all_cons, Bool.and_eq_true] at hff
          have b2 := (BL_selector (skipS_idem r) hs hff.1 (more_follow hm heq)).congr_left (skipS_idem r).symm
          have b3 := BL_more _ _ _ _ _ hm hff.2 heq
          obtain ⟨l1, ts, r1, s1, t1, t2, rfl, p1, p2⟩ := (b2.seq b3) l toks _ (.of_St hst)
          obtain ⟨l2, pre2, h2, e2⟩ := s1.step_bracketed
          rw [heq] at h2
          have s3 := lexBracketed_rbracket h2
          have h3 := (h2.adv.popBracket).emit .rbracket
          exact ⟨_, _, t1 ++ t2, _, r1.trans (.one (e2.trans s3)), by simpa using h3, .mk s ss t1 t2 p1 p2⟩
        · simp at h

end JPV.Proofs.Cs
