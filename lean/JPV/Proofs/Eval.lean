import JPV.Props.Common
import JPV.Proofs.Compare
import JPV.Proofs.Slice
import JPV.Proofs.Visit
import JPV.Proofs.EvalAux
/-
The evaluator agrees with the RFC 9535 semantics (C01, C02, C10).
General lemmas (streams, selectors on one node, well-formedness and depth of
children/descendants, segments, representation of typed results) are in
`Proofs/EvalAux.lean`; this file has the mutual induction over the AST and the
exported theorems.
-/
namespace JPV.Proofs
open JPV JPV.Props

/-! ### Built-in functions -/

theorem args_single {args : List Spec.Arg} {t : Ty} (h : args.map argTy = [t]) :
    ∃ a, args = [a] ∧ argTy a = t := by
  match args, h with
  | [a], h => exact ⟨a, rfl, by simpa using h⟩

theorem arg_value {a : Spec.Arg} (h : argTy a = .value) : ∃ v, a = .value v := by
  cases a <;> simp_all [argTy]
theorem arg_nodes {a : Spec.Arg} (h : argTy a = .nodes) : ∃ ns, a = .nodes ns := by
  cases a <;> simp_all [argTy]
theorem arg_logical {a : Spec.Arg} (h : argTy a = .logical) : ∃ b, a = .logical b := by
  cases a <;> simp_all [argTy]

theorem length_conforms : Conforms Impl.lengthFunc Spec.lengthFn where
  argTypes := rfl
  ret := rfl
  body := by
    intro args h
    obtain ⟨a, rfl, ha⟩ := args_single h
    obtain ⟨v, rfl⟩ := arg_value ha
    cases v with
    | none => rfl
    | some j => cases j <;> rfl
  retTy := by
    intro args h
    obtain ⟨a, rfl, ha⟩ := args_single h
    obtain ⟨v, rfl⟩ := arg_value ha
    cases v with
    | none => rfl
    | some j => cases j <;> rfl
  retWF := by
    intro args h _
    obtain ⟨a, rfl, ha⟩ := args_single h
    obtain ⟨v, rfl⟩ := arg_value ha
    cases v with
    | none => trivial
    | some j => cases j <;> simp [Spec.lengthFn, ArgWF, Spec.natVal, Json.WF]

theorem count_conforms : Conforms Impl.countFunc Spec.countFn where
  argTypes := rfl
  ret := rfl
  body := by
    intro args h
    obtain ⟨a, rfl, ha⟩ := args_single h
    obtain ⟨ns, rfl⟩ := arg_nodes ha
    rfl
  retTy := by
    intro args h
    obtain ⟨a, rfl, ha⟩ := args_single h
    obtain ⟨ns, rfl⟩ := arg_nodes ha
    rfl
  retWF := by
    intro args h _
    obtain ⟨a, rfl, ha⟩ := args_single h
    obtain ⟨ns, rfl⟩ := arg_nodes ha
    simp [Spec.countFn, ArgWF, Spec.natVal, Json.WF]

theorem value_conforms : Conforms Impl.valueFunc Spec.valueFn where
  argTypes := rfl
  ret := rfl
  body := by
    intro args h
    obtain ⟨a, rfl, ha⟩ := args_single h
    obtain ⟨ns, rfl⟩ := arg_nodes ha
    match ns with
    | [] => rfl
    | [n] => rfl
    | _ :: _ :: _ => rfl
  retTy := by
    intro args h
    obtain ⟨a, rfl, ha⟩ := args_single h
    obtain ⟨ns, rfl⟩ := arg_nodes ha
    match ns with
    | [] => rfl
    | [n] => rfl
    | _ :: _ :: _ => rfl
  retWF := by
    intro args h hwf
    obtain ⟨a, rfl, ha⟩ := args_single h
    obtain ⟨ns, rfl⟩ := arg_nodes ha
    match ns, hwf with
    | [], _ => trivial
    | [n], hwf =>
      have := hwf _ (List.mem_singleton.2 rfl)
      exact this n (List.mem_singleton.2 rfl)
    | _ :: _ :: _, _ => trivial

theorem builtin_conforms : EnvConforms builtinEnv builtinReg := by
  intro name
  by_cases h1 : name = "length".toList
  · subst h1
    simp only [builtinEnv, builtinReg, Impl.Env.func, List.find?, decide_true, Option.map, if_true]
    exact length_conforms
  · by_cases h2 : name = "count".toList
    · subst h2
      have : builtinEnv.func "count".toList = some Impl.countFunc := by
        simp [builtinEnv, Impl.Env.func, List.find?]
      have h' : builtinReg "count".toList = some Spec.countFn := by
        simp [builtinReg]
      rw [this, h']
      exact count_conforms
    · by_cases h3 : name = "value".toList
      · subst h3
        have : builtinEnv.func "value".toList = some Impl.valueFunc := by
          simp [builtinEnv, Impl.Env.func, List.find?]
        have h' : builtinReg "value".toList = some Spec.valueFn := by
          simp [builtinReg]
        rw [this, h']
        exact value_conforms
      · have e1 : "length".toList = ['l', 'e', 'n', 'g', 't', 'h'] := by decide
        have e2 : "count".toList = ['c', 'o', 'u', 'n', 't'] := by decide
        have e3 : "value".toList = ['v', 'a', 'l', 'u', 'e'] := by decide
        rw [e1] at h1; rw [e2] at h2; rw [e3] at h3
        have : builtinEnv.func name = none := by
          simp [builtinEnv, Impl.Env.func, List.find?, Ne.symm h1, Ne.symm h2, Ne.symm h3]
        have h' : builtinReg name = none := by
          simp [builtinReg, h1, h2, h3]
        rw [this, h']
        trivial


/-! ### Filter-free (structural) queries -/

theorem filter_scalar (env : Impl.Env) (root : Json) (e : Expr) (n : Node) (h : n.val.isContainer = false) :
    Impl.evalSel env root (.filter e) n = ([], none) := impl_sel_scalar env root _ n h

theorem find_of_segs {env : Impl.Env} {q : Query} {v : Json} {L : List Node}
    (h : Impl.evalSegs env v q ([⟨[], v⟩], none) = (L, none)) : Impl.find env q v = .ok L := by
  simp only [Impl.find, Impl.finditer, h, Impl.Stream.toList]

theorem structural_correct : ∀ (env : Impl.Env) (reg : Spec.Registry) (q : Query) (v : Json),
    Spec.filterFree q = true → v.WF → (v.depth : Int) ≤ env.maxDepth → 1 ≤ env.maxDepth →
    Impl.find env q v = .ok (Spec.select reg q v) := by
  intro env reg q v hf hwf hd h1
  apply find_of_segs
  apply segs_filterFree env reg v env.maxDepth q hf (.inr ⟨Int.le_refl _, h1⟩)
  intro n hn
  simp only [List.mem_singleton] at hn
  subst hn
  exact ⟨hwf, hd⟩

theorem structural_correct_child (env : Impl.Env) (reg : Spec.Registry) (q : Query) (v : Json)
    (hf : Spec.filterFree q = true)
    (hd : q.all (fun s => match s with | .child _ => true | .desc _ => false) = true)
    (hwf : v.WF) : Impl.find env q v = .ok (Spec.select reg q v) := by
  apply find_of_segs
  apply segs_filterFree env reg v v.depth q hf (.inl ?_)
  · intro n hn
    simp only [List.mem_singleton] at hn
    subst hn
    exact ⟨hwf, Int.le_refl _⟩
  · intro seg hseg ss he
    subst he
    have := List.all_eq_true.1 hd _ hseg
    simp at this

theorem child_concat (reg : Spec.Registry) (root : Json) (sels : List Selector) (ns : List Node) :
    Spec.selectSeg reg root (.child sels) ns =
      ns.flatMap (fun n => sels.flatMap (fun s => Spec.selectSel reg root s n)) := by
  simp only [Spec.selectSeg]
  congr 1
  funext n
  induction sels with
  | nil => rfl
  | cons s ss ih => simp only [Spec.selectSels, List.flatMap_cons, ih]

theorem length_spec (v : Spec.Val) :
    Impl.lengthBody [valObj v] = .ok (argObj (Spec.lengthFn.sem [.value v])) ∧
    Spec.lengthFn.sem [.value v] = .value (match v with
      | some (.str s) => Spec.natVal s.length
      | some (.arr xs) => Spec.natVal xs.length
      | some (.obj kvs) => Spec.natVal kvs.length
      | _ => none) := by
  cases v with
  | none => exact ⟨rfl, rfl⟩
  | some j => cases j <;> exact ⟨rfl, rfl⟩

theorem count_spec (ns : List Node) :
    Impl.countBody [.nodes ns] = .ok (valObj (Spec.natVal ns.length)) := rfl

theorem value_spec (ns : List Node) :
    Impl.valueBody [.nodes ns] = .ok (valObj (match ns with | [n] => some n.val | _ => none)) := by
  match ns with
  | [] => rfl
  | [n] => rfl
  | _ :: _ :: _ => rfl


/-! ### The typed evaluation lemmas: mutual induction over the AST -/

structure Ctx (env : Impl.Env) (reg : Spec.Registry) (root : Json) : Prop where
  hc : EnvConforms env reg
  hroot : GoodJ env.maxDepth root
  h1 : 1 ≤ env.maxDepth

theorem good_single {mx : Int} {j : Json} (h : GoodJ mx j) : ∀ n ∈ [(⟨[], j⟩ : Node)], Good mx n := by
  intro n hn
  simp only [List.mem_singleton] at hn
  subst hn
  exact h

theorem rel_eval {env : Impl.Env} {root j : Json} {q : List Segment} {L : List Node}
    (h : Impl.evalSegs env root q ([⟨[], j⟩], none) = (L, none)) :
    (do let ns ← (Impl.evalSegs env root q ([⟨[], j⟩], none)).toList
        pure (Impl.Obj.nodes ns) : Except Impl.ErrKind Impl.Obj) = .ok (.nodes L) := by
  rw [h]; rfl

mutual
theorem test_ok (env : Impl.Env) (reg : Spec.Registry) (root : Json) (C : Ctx env reg root) :
    ∀ (e : Expr) (cur : Json), GoodJ env.maxDepth cur → Spec.wtTest (sigsOf reg) e = true →
      ∃ o, Impl.evalExpr env root cur e = .ok o ∧ TestRep o (Spec.testOf reg root cur e)
  | .lit v, cur, hcur, hwt => by simp [Spec.wtTest] at hwt
  | .not e, cur, hcur, hwt => by
      simp only [Spec.wtTest] at hwt
      obtain ⟨o, ho, hr⟩ := test_ok env reg root C e cur hcur hwt
      refine ⟨.val (.bool (!Impl.truthy o)), ?_, ?_⟩
      · simp only [Impl.evalExpr, ho]; rfl
      · left; simp only [Spec.testOf, hr.truthy]
  | .logical op l r, cur, hcur, hwt => by
      simp only [Spec.wtTest, Bool.and_eq_true] at hwt
      obtain ⟨a, ha, hra⟩ := test_ok env reg root C l cur hcur hwt.1
      obtain ⟨b, hb, hrb⟩ := test_ok env reg root C r cur hcur hwt.2
      refine ⟨.val (.bool (match op with
        | .and => Impl.truthy a && Impl.truthy b
        | .or => Impl.truthy a || Impl.truthy b)), ?_, ?_⟩
      · simp only [Impl.evalExpr, ha, hb]; rfl
      · left
        cases op <;> simp only [Spec.testOf, hra.truthy, hrb.truthy]
  | .cmp op l r, cur, hcur, hwt => by
      simp only [Spec.wtTest, Bool.and_eq_true] at hwt
      obtain ⟨a, ha, hra⟩ := val_ok env reg root C l cur hcur hwt.1
      obtain ⟨b, hb, hrb⟩ := val_ok env reg root C r cur hcur hwt.2
      refine ⟨.val (.bool (Impl.compare (Impl.unwrap1 a) op (Impl.unwrap1 b))), ?_, ?_⟩
      · simp only [Impl.evalExpr, ha, hb]; rfl
      · left
        obtain ⟨ca, wa, fa⟩ := hra.comparand
        obtain ⟨cb, wb, fb⟩ := hrb.comparand
        simp only [Spec.testOf, compare_correct _ _ op ca cb wa wb, fa, fb]
  | .rel q, cur, hcur, hwt => by
      simp only [Spec.wtTest] at hwt
      have h := segs_ok env reg root C q hwt [⟨[], cur⟩] (good_single hcur)
      refine ⟨.nodes (Spec.selectFrom reg root q [⟨[], cur⟩]), ?_, ?_⟩
      · simp only [Impl.evalExpr]; exact rel_eval h
      · right; exact ⟨_, rfl, by simp only [Spec.testOf]⟩
  | .root q, cur, hcur, hwt => by
      simp only [Spec.wtTest] at hwt
      have h := segs_ok env reg root C q hwt [⟨[], root⟩] (good_single C.hroot)
      refine ⟨.nodes (Spec.selectFrom reg root q [⟨[], root⟩]), ?_, ?_⟩
      · simp only [Impl.evalExpr]; exact rel_eval h
      · right; exact ⟨_, rfl, by simp only [Spec.testOf]⟩
  | .call f args, cur, hcur, hwt => by
      simp only [Spec.wtTest] at hwt
      cases hr : reg f with
      | none => rw [sigsOf_none hr] at hwt; simp at hwt
      | some fn =>
        rw [sigsOf_some hr] at hwt
        simp only [Bool.and_eq_true, Bool.or_eq_true, beq_iff_eq] at hwt
        obtain ⟨os, h1, h2, h3, h4⟩ := args_ok env reg root C args fn.argTypes cur hcur hwt.2
        obtain ⟨he, hty, hwf⟩ := call_ok C.hc hr ⟨os, h1, h2⟩ h3 h4
        refine ⟨_, he, ?_⟩
        simp only [Spec.testOf, hr]
        exact testRep_of_ty hty hwt.1
theorem val_ok (env : Impl.Env) (reg : Spec.Registry) (root : Json) (C : Ctx env reg root) :
    ∀ (e : Expr) (cur : Json), GoodJ env.maxDepth cur → Spec.wtComparable (sigsOf reg) e = true →
      ∃ o, Impl.evalExpr env root cur e = .ok o ∧ ValRep o (Spec.valueOf reg root cur e)
  | .lit v, cur, hcur, hwt => by
      simp only [Spec.wtComparable] at hwt
      exact ⟨.val v, by simp only [Impl.evalExpr], by simp only [Spec.valueOf]; exact .val v (scalar_wf hwt)⟩
  | .not e, cur, hcur, hwt => by simp [Spec.wtComparable] at hwt
  | .logical op l r, cur, hcur, hwt => by simp [Spec.wtComparable] at hwt
  | .cmp op l r, cur, hcur, hwt => by simp [Spec.wtComparable] at hwt
  | .rel q, cur, hcur, hwt => by
      simp only [Spec.wtComparable, Bool.and_eq_true] at hwt
      have hg := good_single hcur
      have h := segs_ok env reg root C q hwt.2 [⟨[], cur⟩] hg
      refine ⟨.nodes (Spec.selectFrom reg root q [⟨[], cur⟩]), ?_, ?_⟩
      · simp only [Impl.evalExpr]; exact rel_eval h
      · simp only [Spec.valueOf]
        exact valRep_of_nodes _ (singular_length q hwt.1 _ hg (by simp))
          (fun n hn => (selectFrom_good q _ hg n hn).1)
  | .root q, cur, hcur, hwt => by
      simp only [Spec.wtComparable, Bool.and_eq_true] at hwt
      have hg := good_single C.hroot
      have h := segs_ok env reg root C q hwt.2 [⟨[], root⟩] hg
      refine ⟨.nodes (Spec.selectFrom reg root q [⟨[], root⟩]), ?_, ?_⟩
      · simp only [Impl.evalExpr]; exact rel_eval h
      · simp only [Spec.valueOf]
        exact valRep_of_nodes _ (singular_length q hwt.1 _ hg (by simp))
          (fun n hn => (selectFrom_good q _ hg n hn).1)
  | .call f args, cur, hcur, hwt => by
      simp only [Spec.wtComparable] at hwt
      cases hr : reg f with
      | none => rw [sigsOf_none hr] at hwt; simp at hwt
      | some fn =>
        rw [sigsOf_some hr] at hwt
        simp only [Bool.and_eq_true, beq_iff_eq] at hwt
        obtain ⟨os, h1, h2, h3, h4⟩ := args_ok env reg root C args fn.argTypes cur hcur hwt.2
        obtain ⟨he, hty, hwf⟩ := call_ok C.hc hr ⟨os, h1, h2⟩ h3 h4
        refine ⟨_, he, ?_⟩
        simp only [Spec.valueOf, hr]
        exact valRep_of_ty (hty.trans hwt.1) hwf
theorem nodes_ok (env : Impl.Env) (reg : Spec.Registry) (root : Json) (C : Ctx env reg root) :
    ∀ (e : Expr) (cur : Json), GoodJ env.maxDepth cur → Spec.wtNodes (sigsOf reg) e = true →
      Impl.evalExpr env root cur e = .ok (.nodes (Spec.nodesOf reg root cur e)) ∧
        ∀ n ∈ Spec.nodesOf reg root cur e, n.val.WF
  | .lit v, cur, hcur, hwt => by simp [Spec.wtNodes] at hwt
  | .not e, cur, hcur, hwt => by simp [Spec.wtNodes] at hwt
  | .logical op l r, cur, hcur, hwt => by simp [Spec.wtNodes] at hwt
  | .cmp op l r, cur, hcur, hwt => by simp [Spec.wtNodes] at hwt
  | .rel q, cur, hcur, hwt => by
      simp only [Spec.wtNodes] at hwt
      have hg := good_single hcur
      have h := segs_ok env reg root C q hwt [⟨[], cur⟩] hg
      refine ⟨?_, ?_⟩
      · simp only [Impl.evalExpr, Spec.nodesOf]; exact rel_eval h
      · simp only [Spec.nodesOf]
        exact fun n hn => (selectFrom_good q _ hg n hn).1
  | .root q, cur, hcur, hwt => by
      simp only [Spec.wtNodes] at hwt
      have hg := good_single C.hroot
      have h := segs_ok env reg root C q hwt [⟨[], root⟩] hg
      refine ⟨?_, ?_⟩
      · simp only [Impl.evalExpr, Spec.nodesOf]; exact rel_eval h
      · simp only [Spec.nodesOf]
        exact fun n hn => (selectFrom_good q _ hg n hn).1
  | .call f args, cur, hcur, hwt => by
      simp only [Spec.wtNodes] at hwt
      cases hr : reg f with
      | none => rw [sigsOf_none hr] at hwt; simp at hwt
      | some fn =>
        rw [sigsOf_some hr] at hwt
        simp only [Bool.and_eq_true, beq_iff_eq] at hwt
        obtain ⟨os, h1, h2, h3, h4⟩ := args_ok env reg root C args fn.argTypes cur hcur hwt.2
        obtain ⟨he, hty, hwf⟩ := call_ok C.hc hr ⟨os, h1, h2⟩ h3 h4
        simp only [Spec.nodesOf, hr]
        exact ⟨he.trans (by rw [nodes_of_ty (hty.trans hwt.1)]), nodesWF_of_ty hwf⟩
theorem args_ok (env : Impl.Env) (reg : Spec.Registry) (root : Json) (C : Ctx env reg root) :
    ∀ (args : List Expr) (tys : List Ty) (cur : Json), GoodJ env.maxDepth cur →
      Spec.wtArgs (sigsOf reg) tys args = true →
      ∃ os, Impl.evalArgs env root cur args = .ok os ∧
        Impl.unpack tys os = .ok ((Spec.argsOf reg root cur tys args).map argObj) ∧
        (Spec.argsOf reg root cur tys args).map argTy = tys ∧
        ∀ a ∈ Spec.argsOf reg root cur tys args, ArgWF a
  | [], [], cur, hcur, hwt => by
      exact ⟨[], by simp only [Impl.evalArgs], by simp [Impl.unpack, Spec.argsOf], by simp [Spec.argsOf],
        by simp [Spec.argsOf]⟩
  | [], t :: ts, cur, hcur, hwt => by simp [Spec.wtArgs] at hwt
  | e :: es, [], cur, hcur, hwt => by simp [Spec.wtArgs] at hwt
  | e :: es, t :: ts, cur, hcur, hwt => by
      simp only [Spec.wtArgs, Bool.and_eq_true] at hwt
      obtain ⟨os, h1, h2, h3, h4⟩ := args_ok env reg root C es ts cur hcur hwt.2
      cases t with
      | value =>
        obtain ⟨o, ho, hr⟩ := val_ok env reg root C e cur hcur hwt.1
        refine ⟨o :: os, ?_, ?_, ?_, ?_⟩
        · simp only [Impl.evalArgs, ho, h1]; rfl
        · simp only [Impl.unpack, h2, Spec.argsOf, List.map_cons, hr.unpack, argObj]; rfl
        · simp only [Spec.argsOf, List.map_cons, h3, argTy]
        · simp only [Spec.argsOf, List.mem_cons]
          rintro a (rfl | ha)
          · exact hr.argWF
          · exact h4 a ha
      | logical =>
        obtain ⟨o, ho, hr⟩ := test_ok env reg root C e cur hcur hwt.1
        refine ⟨o :: os, ?_, ?_, ?_, ?_⟩
        · simp only [Impl.evalArgs, ho, h1]; rfl
        · simp only [Impl.unpack, h2, Spec.argsOf, List.map_cons, hr.unpack, argObj]; rfl
        · simp only [Spec.argsOf, List.map_cons, h3, argTy]
        · simp only [Spec.argsOf, List.mem_cons]
          rintro a (rfl | ha)
          · trivial
          · exact h4 a ha
      | nodes =>
        obtain ⟨ho, hr⟩ := nodes_ok env reg root C e cur hcur hwt.1
        refine ⟨.nodes (Spec.nodesOf reg root cur e) :: os, ?_, ?_, ?_, ?_⟩
        · simp only [Impl.evalArgs, ho, h1]; rfl
        · simp only [Impl.unpack, h2, Spec.argsOf, List.map_cons, argObj, Impl.unpack1]; rfl
        · simp only [Spec.argsOf, List.map_cons, h3, argTy]
        · simp only [Spec.argsOf, List.mem_cons]
          rintro a (rfl | ha)
          · exact hr
          · exact h4 a ha
theorem sel_ok (env : Impl.Env) (reg : Spec.Registry) (root : Json) (C : Ctx env reg root) :
    ∀ (s : Selector) (n : Node), Good env.maxDepth n → Spec.wtSel (sigsOf reg) s = true →
      Impl.evalSel env root s n = (Spec.selectSel reg root s n, none)
  | .name s, n, hn, _ => sel_nofilter env reg root _ n (by intro e h; cases h) hn.1
  | .index i, n, hn, _ => sel_nofilter env reg root _ n (by intro e h; cases h) hn.1
  | .slice a b c, n, hn, _ => sel_nofilter env reg root _ n (by intro e h; cases h) hn.1
  | .wild, n, hn, _ => sel_nofilter env reg root _ n (by intro e h; cases h) hn.1
  | .filter e, n, hn, hwt => by
      simp only [Spec.wtSel] at hwt
      simp only [Impl.evalSel, Spec.selectSel, children_eq]
      apply filterChildren_eq
      intro c hc
      have hcg : GoodJ env.maxDepth c.val := good_kid (j := n.val) hn (mem_children hc)
      obtain ⟨o, ho, hr⟩ := test_ok env reg root C e c.val hcg hwt
      rw [ho]
      show Except.ok (Impl.truthy o) = _
      rw [hr.truthy]
theorem sels_ok (env : Impl.Env) (reg : Spec.Registry) (root : Json) (C : Ctx env reg root) :
    ∀ (ss : List Selector), Spec.wtSels (sigsOf reg) ss = true →
      SelsAgree env reg root env.maxDepth ss
  | [], _ => fun n _ => rfl
  | s :: ss, hwt => by
      simp only [Spec.wtSels, Bool.and_eq_true] at hwt
      intro n hn
      simp only [Impl.evalSels, Spec.selectSels, sel_ok env reg root C s n hn hwt.1,
        sels_ok env reg root C ss hwt.2 n hn, append_none]
theorem seg_ok (env : Impl.Env) (reg : Spec.Registry) (root : Json) (C : Ctx env reg root) :
    ∀ (seg : Segment), Spec.wtSeg (sigsOf reg) seg = true →
      ∀ ns : List Node, (∀ n ∈ ns, Good env.maxDepth n) →
      Impl.evalSeg env root seg (ns, none) = (Spec.selectSeg reg root seg ns, none)
  | .child ss, hwt => by
      simp only [Spec.wtSeg] at hwt
      exact seg_child_eq (sels_ok env reg root C ss hwt)
  | .desc ss, hwt => by
      simp only [Spec.wtSeg] at hwt
      exact seg_desc_eq (sels_ok env reg root C ss hwt) (Int.le_refl _) C.h1
theorem segs_ok (env : Impl.Env) (reg : Spec.Registry) (root : Json) (C : Ctx env reg root) :
    ∀ (q : List Segment), Spec.wtQuery (sigsOf reg) q = true →
      ∀ ns : List Node, (∀ n ∈ ns, Good env.maxDepth n) →
      Impl.evalSegs env root q (ns, none) = (Spec.selectFrom reg root q ns, none)
  | [], _ => fun ns _ => rfl
  | seg :: q, hwt => by
      simp only [Spec.wtQuery, Bool.and_eq_true] at hwt
      intro ns hns
      simp only [Impl.evalSegs, Spec.selectFrom, seg_ok env reg root C seg hwt.1 ns hns]
      exact segs_ok env reg root C q hwt.2 _ (selectSeg_good seg ns hns)
end


theorem eval_correct : ∀ (env : Impl.Env) (reg : Spec.Registry) (q : Query) (v : Json),
    EnvConforms env reg → Spec.wtQuery (sigsOf reg) q = true → v.WF →
    (v.depth : Int) ≤ env.maxDepth → 1 ≤ env.maxDepth →
    Impl.find env q v = .ok (Spec.select reg q v) := by
  intro env reg q v hc hwt hwf hd h1
  apply find_of_segs
  exact segs_ok env reg v ⟨hc, ⟨hwf, hd⟩, h1⟩ q hwt _ (good_single ⟨hwf, hd⟩)

theorem args_correct : ∀ (env : Impl.Env) (reg : Spec.Registry) (root cur : Json) (tys : List Ty) (args : List Expr),
    EnvConforms env reg → Spec.wtArgs (sigsOf reg) tys args = true →
    root.WF → cur.WF → (root.depth : Int) ≤ env.maxDepth → (cur.depth : Int) ≤ env.maxDepth →
    1 ≤ env.maxDepth →
    (Impl.evalArgs env root cur args).bind (Impl.unpack tys) =
      .ok ((Spec.argsOf reg root cur tys args).map argObj) := by
  intro env reg root cur tys args hc hwt hr hcur hrd hcd h1
  obtain ⟨os, h1, h2, _, _⟩ := args_ok env reg root ⟨hc, ⟨hr, hrd⟩, h1⟩ args tys cur ⟨hcur, hcd⟩ hwt
  rw [h1]
  exact h2

end JPV.Proofs
